(* C12, CMAC: the streaming code of crypto/cmac (Model/CmacGo.v) computes RFC 4493 / SP 800-38B
   CMAC (Algo/CMAC.v) of the bytes written since the last Reset, for every block cipher with
   8- or 16-byte blocks, every way of cutting the message into Write calls, and whatever Sum
   calls happen in between.
   Invariant: ci = (CBC chaining value C) xor (the pending block, zero-extended), p = its fill;
   a full pending block is only encrypted when a further byte arrives, so the last block is
   still available to Sum for the K1/K2 treatment. *)
From Coq Require Import List Arith NArith Lia Bool.
From Coq Require Import ZifyN ZifyNat ZifyBool.
From Mant Require Import Prim.R Prim.Bytes Algo.Word Algo.CMAC Model.CmacGo Spec.C12.
Import ListNotations.
Open Scope N_scope.

(* ================================================================== *)
(* chunks *)

Lemma chunks_fuel_nil {A} f n : @chunks_fuel A f n [] = [].
Proof. destruct f; reflexivity. Qed.

Lemma chunks_fuel_enough {A} n (Hn : (0 < n)%nat) f1 : forall f2 (l : list A),
  (length l <= f1)%nat -> (length l <= f2)%nat -> chunks_fuel f1 n l = chunks_fuel f2 n l.
Proof.
  induction f1 as [|f1 IH]; intros f2 l H1 H2.
  - destruct l; [|cbn in H1; lia]. now rewrite !chunks_fuel_nil.
  - destruct l as [|x l]; [now rewrite !chunks_fuel_nil|].
    destruct f2 as [|f2]; [cbn in H2; lia|].
    cbn [chunks_fuel]. f_equal. apply IH; rewrite skipn_length; cbn [length] in *; lia.
Qed.

Lemma chunks_nil {A} n : @chunks A n [] = [].
Proof. reflexivity. Qed.

Lemma chunks_single {A} n (l : list A) : (0 < length l <= n)%nat -> chunks n l = [l].
Proof.
  intros H. unfold chunks. destruct l as [|x l]; [cbn in H; lia|].
  cbn [length chunks_fuel]. rewrite firstn_all2 by lia. rewrite skipn_all2 by lia.
  now rewrite chunks_fuel_nil.
Qed.

Lemma chunks_app_block {A} n (a b : list A) :
  (0 < n)%nat -> length a = n -> chunks n (a ++ b) = a :: chunks n b.
Proof.
  intros Hn Ha. unfold chunks. destruct a as [|x a]; [cbn in Ha; lia|].
  cbn [app length chunks_fuel].
  change (x :: a ++ b) with ((x :: a) ++ b).
  rewrite firstn_app, skipn_app, Ha, Nat.sub_diag. cbn [firstn skipn].
  rewrite <- Ha, firstn_all, skipn_all, app_nil_r. cbn [app]. f_equal.
  apply chunks_fuel_enough; [lia| |lia]. rewrite app_length. lia.
Qed.

Lemma chunks_cons_nonempty {A} n (x : A) l : exists c cs, chunks n (x :: l) = c :: cs.
Proof. unfold chunks. cbn [length chunks_fuel]. eauto. Qed.

(* ================================================================== *)
(* xor algebra on byte strings *)

Lemma xor_bytes_nil_r a : xor_bytes a [] = a.
Proof. induction a as [|x a IH]; cbn; [reflexivity|]. now rewrite IH. Qed.

Lemma xor_go_eq a b : (length a <= length b)%nat -> xor_go a b = xor_bytes a b.
Proof.
  revert b; induction a as [|x a IH]; intros [|y b] H; cbn in *; try reflexivity; [lia|].
  rewrite IH by lia. reflexivity.
Qed.

(* (a ^ b) ^ c = (a ^ c) ^ b, whatever the lengths of b and c *)
Lemma xor_bytes_right_comm a b c : xor_bytes (xor_bytes a b) c = xor_bytes (xor_bytes a c) b.
Proof.
  revert b c; induction a as [|x a IH]; intros [|y b] [|z c]; cbn [xor_bytes]; try reflexivity;
    try (now rewrite !xor_bytes_nil_r).
  rewrite IH. f_equal. rewrite !N.lxor_assoc. f_equal. apply N.lxor_comm.
Qed.

Lemma xor_bytes_comm a b : length a = length b -> xor_bytes a b = xor_bytes b a.
Proof.
  revert b; induction a as [|x a IH]; intros [|y b] H; cbn in *; try reflexivity; try lia.
  rewrite IH by lia. f_equal. apply N.lxor_comm.
Qed.

Lemma xor_bytes_assoc a b c :
  (length a <= length b)%nat -> xor_bytes a (xor_bytes b c) = xor_bytes (xor_bytes a b) c.
Proof.
  revert b c; induction a as [|x a IH]; intros [|y b] [|z c] H; cbn [xor_bytes length] in *;
    try reflexivity; try lia.
  - now rewrite !xor_bytes_nil_r.
  - rewrite IH by lia. f_equal. now rewrite N.lxor_assoc.
Qed.

Lemma xor_bytes_zeros a k : xor_bytes a (zeros k) = a.
Proof.
  revert k; induction a as [|x a IH]; intros [|k]; cbn [zeros repeatN xor_bytes]; try reflexivity.
  - now rewrite xor_bytes_nil_r.
  - rewrite N.lxor_0_r. f_equal. apply IH.
Qed.

Lemma xor_bytes_zeros_tail a b k : xor_bytes a (b ++ zeros k) = xor_bytes a b.
Proof.
  revert b; induction a as [|x a IH]; intros b; [reflexivity|].
  destruct b as [|y b].
  - cbn [app]. rewrite xor_bytes_zeros. now rewrite xor_bytes_nil_r.
  - cbn [app xor_bytes]. now rewrite IH.
Qed.

(* l[k] ^= v  is  l ^ (0^k || v) *)
Lemma xor_at_spec l k v : (k < length l)%nat -> xor_at l k v = xor_bytes l (zeros k ++ [v]).
Proof.
  revert k; induction l as [|x l IH]; intros k H; [cbn in H; lia|].
  destruct k as [|k]; cbn [xor_at zeros repeatN app xor_bytes].
  - now rewrite xor_bytes_nil_r.
  - rewrite N.lxor_0_r. f_equal. apply IH. cbn in H. lia.
Qed.

(* writing one more byte of the pending block *)
Lemma xor_at_pending C pending v :
  (length pending < length C)%nat ->
  xor_at (xor_bytes C pending) (length pending) v = xor_bytes C (pending ++ [v]).
Proof.
  revert pending; induction C as [|x C IH]; intros pending H; [cbn in H; lia|].
  destruct pending as [|y pending]; cbn [xor_bytes length xor_at app].
  - now rewrite !xor_bytes_nil_r.
  - f_equal. apply IH. cbn in H. lia.
Qed.

Lemma length_xor_at l k v : length (xor_at l k v) = length l.
Proof. revert k; induction l as [|x l IH]; intros [|k]; cbn; auto. Qed.

(* ================================================================== *)
(* the byte-wise shift of New is doubling of the block read as a big-endian integer *)

Lemma le_val_app a b : le_val (a ++ b) = le_val a + 2 ^ (8 * N.of_nat (length a)) * le_val b.
Proof.
  induction a as [|x a IH].
  - cbn [app le_val length]. change (N.of_nat 0) with 0. rewrite N.mul_0_r, N.pow_0_r. lia.
  - cbn [app le_val length]. rewrite IH, pow256_S. lia.
Qed.

Lemma be_val_cons x r : be_val (x :: r) = x * 2 ^ (8 * N.of_nat (length r)) + be_val r.
Proof.
  unfold be_val. cbn [rev]. rewrite le_val_app, rev_length. cbn [le_val]. lia.
Qed.

Lemma lor_even_bit y b : b <= 1 -> N.lor (2 * y) b = 2 * y + b.
Proof.
  intros H. assert (Hb : b = 0 \/ b = 1) by lia. destruct Hb as [-> | ->].
  - now rewrite N.lor_0_r, N.add_0_r.
  - destruct y as [|p]; reflexivity.
Qed.

Lemma shift1_go_spec l :
  wf_bytes l ->
  let '(s, c) := shift1_go l in
  be_val s + 2 ^ (8 * N.of_nat (length l)) * c = 2 * be_val l /\
  wf_bytes s /\ length s = length l /\ c <= 1 /\
  c = match l with x :: _ => x / 128 | [] => 0 end.
Proof.
  induction 1 as [|x r Hx Hr IH]; [cbn; repeat split; (constructor || lia)|].
  cbn [shift1_go]. destruct (shift1_go r) as [r' b].
  destruct IH as (IHv & IHwf & IHlen & IHb & _).
  assert (Hq : x / 128 <= 1) by (apply N.lt_succ_r, N.div_lt_upper_bound; lia).
  replace (x * 2) with (2 * x) by lia. change 256 with (2 * 128).
  rewrite N.mul_mod_distr_l by discriminate. rewrite lor_even_bit by exact IHb.
  assert (Hm : x mod 128 < 128) by (apply N.mod_lt; discriminate).
  repeat split.
  - rewrite !be_val_cons, IHlen. cbn [length]. rewrite pow256_S.
    set (P := 2 ^ (8 * N.of_nat (length r))) in *.
    assert (Hx' : x = 128 * (x / 128) + x mod 128) by (apply N.div_mod; discriminate).
    set (q := x / 128) in *. set (m := x mod 128) in *. clearbody q m. rewrite Hx'. lia.
  - constructor; [lia | exact IHwf].
  - cbn [length]. now rewrite IHlen.
  - exact Hq.
Qed.

Section Subkeys.
  Variable E : list N -> list N.
  Variable n : nat.
  Hypothesis n_ok : n = 8%nat \/ n = 16%nat.

  (* one doubling step of New = 6.1 steps 2-3 of SP 800-38B *)
  Lemma dbl_go l :
    wf_bytes l -> length l = n ->
    (let '(s, c) := shift1_go l in
     if c =? 0 then s else xor_at s (n - 1) (if Nat.eqb n 8 then 0x1b else 0x87)) = cmac_dbl n l.
  Proof.
    intros Hwf Hlen. pose proof (shift1_go_spec l Hwf) as H.
    destruct (shift1_go l) as [s c]. destruct H as (Hv & Hswf & Hslen & Hc & Hc').
    unfold cmac_dbl, shl1_block, cmac_Rb.
    assert (Hs : be_bytes n ((2 * be_val l) mod 2 ^ (8 * N.of_nat n)) = s).
    { rewrite <- Hv, Hlen. rewrite (N.mul_comm (2 ^ (8 * N.of_nat n)) c), N.mod_add by (apply N.pow_nonzero; lia).
      rewrite N.mod_small.
      - rewrite <- Hlen, <- Hslen. now apply be_bytes_be_val.
      - rewrite <- Hlen, <- Hslen. now apply be_val_bound. }
    rewrite Hs. unfold msb_set.
    destruct l as [|x l']; [cbn in Hlen; lia|]. subst c.
    assert (Hx : x < 256) by now inversion Hwf.
    destruct (N.eqb_spec (x / 128) 0) as [E0|E0]; destruct (N.leb_spec 0x80 x) as [L|L]; try reflexivity.
    - apply N.div_small_iff in E0; lia.
    - apply xor_at_spec. lia.
    - rewrite N.div_small in E0 by lia. lia.
  Qed.

  Lemma cmac_dbl_wf_len l :
    wf_bytes l -> length l = n -> wf_bytes (cmac_dbl n l) /\ length (cmac_dbl n l) = n.
  Proof.
    intros Hwf Hlen. rewrite <- (dbl_go l Hwf Hlen).
    pose proof (shift1_go_spec l Hwf) as H.
    destruct (shift1_go l) as [s c]. destruct H as (Hv & Hswf & Hslen & Hc & Hc').
    destruct (c =? 0); [split; [exact Hswf|lia]|].
    split; [|rewrite length_xor_at; lia].
    rewrite xor_at_spec by lia. apply wf_xor_bytes; [exact Hswf|].
    apply wf_bytes_app; split; [apply wf_zeros|]. constructor; [|constructor].
    destruct (Nat.eqb n 8); reflexivity.
  Qed.

  Hypothesis E_len : forall x, length x = n -> length (E x) = n.
  Hypothesis E_wf : forall x, length x = n -> wf_bytes x -> wf_bytes (E x).

  (* New: the subkeys are those of the standard; ci and digest are zero blocks; p = 0 *)
  Theorem cm_new_spec :
    cm_new E n = Ok (mk_cmst (fst (cmac_subkeys E n)) (snd (cmac_subkeys E n)) (zeros n) (zeros n) 0).
  Proof.
    unfold cm_new, cmac_subkeys.
    replace (Nat.eqb n 8 || Nat.eqb n 16) with true
      by (destruct n_ok as [-> | ->]; reflexivity).
    fold (zeros n). set (L := E (zeros n)).
    assert (HL : wf_bytes L /\ length L = n)
      by (split; [apply E_wf; [apply length_zeros | apply wf_zeros] | apply E_len, length_zeros]).
    destruct HL as [HLwf HLlen].
    pose proof (dbl_go L HLwf HLlen) as H1.
    destruct (shift1_go L) as [s1 c1]. cbv zeta. rewrite H1.
    destruct (cmac_dbl_wf_len L HLwf HLlen) as [HKwf HKlen].
    pose proof (dbl_go (cmac_dbl n L) HKwf HKlen) as H2.
    destruct (shift1_go (cmac_dbl n L)) as [s2 c2]. rewrite H2. reflexivity.
  Qed.

  Lemma subkeys_len :
    length (fst (cmac_subkeys E n)) = n /\ length (snd (cmac_subkeys E n)) = n.
  Proof.
    unfold cmac_subkeys. cbn [fst snd].
    destruct (cmac_dbl_wf_len (E (zeros n)) (E_wf _ (length_zeros n) (wf_zeros n)) (E_len _ (length_zeros n)))
      as [Hwf Hlen].
    split; [exact Hlen|]. now apply cmac_dbl_wf_len.
  Qed.
End Subkeys.

(* New panics for every other block size *)
Theorem cm_new_bad_size E n : n <> 8%nat -> n <> 16%nat -> cm_new E n = Panic.
Proof.
  intros H8 H16. unfold cm_new.
  destruct (Nat.eqb_spec n 8); [contradiction|]. destruct (Nat.eqb_spec n 16); [contradiction|].
  reflexivity.
Qed.

(* ================================================================== *)
(* streaming *)

Section Stream.
  Variable E : list N -> list N.
  Variable n : nat.
  Hypothesis n_pos : (0 < n)%nat.
  Hypothesis E_len : forall x, length x = n -> length (E x) = n.
  Variables K1 K2 : list N.
  Hypothesis K1_len : length K1 = n.
  Hypothesis K2_len : length K2 = n.

  (* SP 800-38B 6.2 steps 3-7 on the last block: what is encrypted last *)
  Definition final_in (C pending : list N) : list N :=
    if Nat.eqb (length pending) n then xor_bytes (xor_bytes pending K1) C
    else xor_bytes (xor_bytes (pending ++ 0x80 :: zeros (n - length pending - 1)) K2) C.
  Definition final (C pending : list N) : list N := E (final_in C pending).

  Lemma final_in_length C pending : (length pending <= n)%nat -> length (final_in C pending) = n.
  Proof.
    intros H. unfold final_in. destruct (Nat.eqb_spec (length pending) n) as [He|Hne].
    - now rewrite !length_xor_bytes.
    - rewrite !length_xor_bytes, app_length. cbn [length]. rewrite length_zeros. lia.
  Qed.

  (* the tag of (blocks already chained into C) ++ pending ++ rest, byte by byte *)
  Fixpoint tag (C pending rest : list N) : list N :=
    match rest with
    | [] => final C pending
    | c :: r =>
        if Nat.eqb (length pending) n then tag (E (xor_bytes C pending)) [c] r
        else tag C (pending ++ [c]) r
    end.

  (* the byte-by-byte form is the block form of the standard *)
  Lemma tag_cmac_loop rest : forall C pending,
    (length pending <= n)%nat ->
    tag C pending rest = cmac_loop E n K1 K2 C (chunks n (pending ++ rest)).
  Proof.
    induction rest as [|c r IH]; intros C pending Hp.
    - rewrite app_nil_r. cbn [tag]. unfold final, final_in.
      destruct pending as [|x p'].
      + cbn [chunks_nil length]. destruct (Nat.eqb_spec 0 n); [lia|].
        rewrite chunks_nil. cbn [cmac_loop app]. now rewrite Nat.sub_0_r.
      + rewrite chunks_single by (cbn [length] in *; lia). cbn [cmac_loop].
        destruct (Nat.eqb (length (x :: p')) n); reflexivity.
    - cbn [tag]. destruct (Nat.eqb_spec (length pending) n) as [Hfull|Hnot].
      + rewrite chunks_app_block by assumption.
        destruct (chunks_cons_nonempty n c r) as (c0 & cs & Hcs).
        rewrite (IH _ [c]) by (cbn; lia). cbn [app]. rewrite Hcs.
        cbn [cmac_loop]. reflexivity.
      + rewrite (IH C (pending ++ [c])) by (rewrite app_length; cbn; lia).
        now rewrite <- app_assoc.
  Qed.

  Record Inv (d : cmst) (C pending : list N) : Prop := {
    inv_k1 : cm_k1 d = K1;
    inv_k2 : cm_k2 d = K2;
    inv_C : length C = n;
    inv_ci : cm_ci d = xor_bytes C pending;
    inv_p : cm_p d = length pending;
    inv_le : (length pending <= n)%nat;
    inv_dg : length (cm_digest d) = n
  }.

  Lemma write_byte_inv d C pending c :
    Inv d C pending ->
    exists C' pending', Inv (cm_write_byte E d c) C' pending' /\
      forall rest, tag C' pending' rest = tag C pending (c :: rest).
  Proof.
    intros [Hk1 Hk2 HC Hci Hp Hle Hdg].
    unfold cm_write_byte. rewrite Hci, Hp, length_xor_bytes, HC.
    destruct (Nat.leb_spec n (length pending)) as [Hfull|Hnot].
    - assert (HE : length (E (xor_bytes C pending)) = n) by (apply E_len; now rewrite length_xor_bytes).
      exists (E (xor_bytes C pending)), [c]. split.
      + constructor; cbn [cm_k1 cm_k2 cm_ci cm_digest cm_p length]; auto; try lia.
        rewrite xor_at_spec by lia. reflexivity.
      + intros rest. cbn [tag]. destruct (Nat.eqb_spec (length pending) n); [reflexivity|lia].
    - exists C, (pending ++ [c]). split.
      + constructor; cbn [cm_k1 cm_k2 cm_ci cm_digest cm_p]; auto.
        * apply xor_at_pending. lia.
        * rewrite app_length. cbn. lia.
        * rewrite app_length. cbn. lia.
      + intros rest. cbn [tag]. destruct (Nat.eqb_spec (length pending) n); [lia|reflexivity].
  Qed.

  Lemma write_inv data : forall d C pending,
    Inv d C pending ->
    exists C' pending', Inv (cm_write E d data) C' pending' /\
      forall rest, tag C' pending' rest = tag C pending (data ++ rest).
  Proof.
    unfold cm_write. induction data as [|c data IH]; intros d C pending HI.
    - exists C, pending. split; [exact HI|reflexivity].
    - cbn [fold_left]. destruct (write_byte_inv d C pending c HI) as (C1 & p1 & HI1 & Ht1).
      destruct (IH _ _ _ HI1) as (C2 & p2 & HI2 & Ht2).
      exists C2, p2. split; [exact HI2|]. intros rest. rewrite Ht2, Ht1. reflexivity.
  Qed.

  (* Sum: the tag of what has been written; only the scratch buffer d.digest changes *)
  Lemma sum_inv d C pending inp :
    Inv d C pending ->
    fst (cm_sum E d inp) = inp ++ final C pending /\
    Inv (snd (cm_sum E d inp)) C pending.
  Proof.
    intros [Hk1 Hk2 HC Hci Hp Hle Hdg].
    assert (Hdgst :
      (let short := (cm_p d <? length (cm_digest d))%nat in
       let k := if short then cm_k2 d else cm_k1 d in
       let dg := xor_go (cm_ci d) k ++ skipn (length (cm_ci d)) (cm_digest d) in
       if short then xor_at dg (cm_p d) 0x80 else dg) = final_in C pending).
    { cbv zeta. unfold final_in. rewrite Hp, Hdg, Hci, Hk1, Hk2, length_xor_bytes, HC.
      rewrite (skipn_all2 (cm_digest d)) by lia. rewrite app_nil_r.
      destruct (Nat.ltb_spec (length pending) n) as [Hshort|Hfull];
        destruct (Nat.eqb_spec (length pending) n) as [He|Hne]; try lia.
      - (* incomplete last block: 10* padding and K2 *)
        rewrite xor_go_eq by (rewrite length_xor_bytes; lia).
        rewrite xor_bytes_right_comm.
        rewrite xor_at_pending by (rewrite length_xor_bytes; lia).
        set (P := pending ++ 128 :: zeros (n - length pending - 1)).
        assert (HP : length P = n) by (unfold P; rewrite app_length; cbn [length]; rewrite length_zeros; lia).
        rewrite (xor_bytes_comm (xor_bytes P K2) C) by (rewrite length_xor_bytes; lia).
        rewrite xor_bytes_assoc by lia. rewrite xor_bytes_right_comm.
        unfold P. change (128 :: zeros (n - length pending - 1)) with ([128] ++ zeros (n - length pending - 1)).
        rewrite app_assoc, xor_bytes_zeros_tail. reflexivity.
      - (* complete last block: K1 *)
        rewrite xor_go_eq by (rewrite length_xor_bytes; lia).
        rewrite (xor_bytes_comm (xor_bytes pending K1) C) by (rewrite length_xor_bytes; lia).
        now rewrite xor_bytes_assoc by lia. }
    unfold cm_sum. cbv zeta in Hdgst |- *. rewrite Hdgst. cbn [fst snd]. split; [reflexivity|].
    constructor; cbn [cm_k1 cm_k2 cm_ci cm_digest cm_p]; auto.
    apply E_len. now apply final_in_length.
  Qed.

  Lemma reset_inv d C pending : Inv d C pending -> Inv (cm_reset d) (zeros n) [].
  Proof.
    intros [Hk1 Hk2 HC Hci Hp Hle Hdg].
    constructor; cbn [cm_reset cm_k1 cm_k2 cm_ci cm_digest cm_p length]; auto; try lia.
    - apply length_zeros.
    - rewrite xor_bytes_nil_r.
      assert (Hl : length (cm_ci d) = n) by (rewrite Hci, length_xor_bytes; exact HC).
      rewrite <- Hl. generalize (cm_ci d) as l. induction l as [|x l IH]; cbn; [reflexivity|].
      unfold zeros in IH. now rewrite IH.
  Qed.

  (* the state tracks the message [msg] written since the last Reset *)
  Definition Tracks (d : cmst) (msg : list N) : Prop :=
    exists C pending, Inv d C pending /\ forall rest, tag C pending rest = tag (zeros n) [] (msg ++ rest).

  Lemma run_tracks ops : forall d msg,
    Tracks d msg -> Tracks (cm_run E d ops) (written_acc msg ops).
  Proof.
    induction ops as [|op ops IH]; intros d msg HT; [exact HT|].
    destruct op as [data|inp|]; cbn [cm_run written_acc]; apply IH.
    - destruct HT as (C & p & HI & Ht).
      destruct (write_inv data d C p HI) as (C' & p' & HI' & Ht').
      exists C', p'. split; [exact HI'|]. intros rest. now rewrite Ht', Ht, app_assoc.
    - destruct HT as (C & p & HI & Ht). exists C, p. split; [|exact Ht].
      apply (sum_inv d C p inp HI).
    - destruct HT as (C & p & HI & Ht). exists (zeros n), []. split; [|reflexivity].
      apply (reset_inv d C p HI).
  Qed.

  Lemma tracks_sum d msg inp :
    Tracks d msg -> fst (cm_sum E d inp) = inp ++ cmac_loop E n K1 K2 (zeros n) (chunks n msg).
  Proof.
    intros (C & p & HI & Ht).
    destruct (sum_inv d C p inp HI) as [Hs _]. rewrite Hs. f_equal.
    change (final C p) with (tag C p []). rewrite Ht, app_nil_r.
    rewrite tag_cmac_loop by (cbn; lia). reflexivity.
  Qed.
End Stream.

(* ================================================================== *)
(* the theorems *)

Section Main.
  Variable E : list N -> list N.
  Variable n : nat.
  Hypothesis E_len : forall x, length x = n -> length (E x) = n.
  Hypothesis E_wf : forall x, length x = n -> wf_bytes x -> wf_bytes (E x).

  Lemma cm_new_ok_size d0 : cm_new E n = Ok d0 -> n = 8%nat \/ n = 16%nat.
  Proof.
    intros H. destruct (Nat.eq_dec n 8); [now left|]. destruct (Nat.eq_dec n 16); [now right|].
    rewrite cm_new_bad_size in H by assumption. discriminate.
  Qed.

  Lemma new_tracks d0 :
    cm_new E n = Ok d0 ->
    Tracks E n (fst (cmac_subkeys E n)) (snd (cmac_subkeys E n)) d0 [].
  Proof.
    intros Hnew. pose proof (cm_new_ok_size d0 Hnew) as Hn.
    rewrite (cm_new_spec E n Hn E_len E_wf) in Hnew. injection Hnew as <-.
    exists (zeros n), []. split; [|reflexivity].
    constructor; cbn [cm_k1 cm_k2 cm_ci cm_digest cm_p length]; auto; try lia.
    - apply length_zeros.
    - now rewrite xor_bytes_nil_r.
    - apply length_zeros.
  Qed.

  (* C12_cmac: after ANY history of Write / Sum / Reset calls on a fresh object, Sum(in)
     returns in ++ CMAC(bytes written since the last Reset) *)
  Theorem cmac_stream_spec d0 ops inp :
    cm_new E n = Ok d0 ->
    fst (cm_sum E (cm_run E d0 ops) inp) = inp ++ cmac_spec E n (written ops).
  Proof.
    intros Hnew. pose proof (cm_new_ok_size d0 Hnew) as Hn.
    destruct (subkeys_len E n Hn E_len E_wf) as [HK1 HK2].
    assert (Hpos : (0 < n)%nat) by lia.
    pose proof (run_tracks E n Hpos E_len _ _ HK1 HK2 ops d0 [] (new_tracks d0 Hnew)) as HT.
    rewrite (tracks_sum E n Hpos E_len _ _ HK1 HK2 _ _ inp HT).
    unfold cmac_spec, cmac, written. destruct (cmac_subkeys E n) as [K1 K2]. reflexivity.
  Qed.

  (* C12_cmac_sum_pure: Sum leaves k1, k2, ci and p as they were (only the scratch buffer
     digest is written) *)
  Theorem cmac_sum_pure d inp :
    let d' := snd (cm_sum E d inp) in
    cm_k1 d' = cm_k1 d /\ cm_k2 d' = cm_k2 d /\ cm_ci d' = cm_ci d /\ cm_p d' = cm_p d.
  Proof. unfold cm_sum. cbn. auto. Qed.

  (* Size is the block size *)
  Theorem cmac_size d0 ops : cm_new E n = Ok d0 -> cm_size (cm_run E d0 ops) = N.of_nat n.
  Proof.
    intros Hnew. pose proof (cm_new_ok_size d0 Hnew) as Hn.
    destruct (subkeys_len E n Hn E_len E_wf) as [HK1 HK2].
    assert (Hpos : (0 < n)%nat) by lia.
    destruct (run_tracks E n Hpos E_len _ _ HK1 HK2 ops d0 [] (new_tracks d0 Hnew)) as (C & p & HI & _).
    unfold cm_size, lenN. now rewrite (inv_dg _ _ _ _ _ _ HI).
  Qed.
End Main.

(* ================================================================== *)
(* what a history has written *)

Lemma written_acc_app acc ops1 ops2 :
  written_acc acc (ops1 ++ ops2) = written_acc (written_acc acc ops1) ops2.
Proof.
  revert acc; induction ops1 as [|op ops1 IH]; intros acc; [reflexivity|].
  destruct op; cbn [app written_acc]; apply IH.
Qed.

(* only Write calls: the concatenation of the pieces, however the message was cut *)
Lemma written_writes chunks : written (map OpWrite chunks) = stream_of chunks.
Proof.
  unfold written, stream_of. rewrite <- (app_nil_l (concat chunks)). generalize (@nil N) as acc.
  induction chunks as [|c r IH]; intros acc; cbn [map written_acc concat].
  - now rewrite app_nil_r.
  - rewrite IH. now rewrite app_assoc.
Qed.

(* a Sum call anywhere in the history is invisible afterwards *)
Lemma written_sum ops1 inp ops2 : written (ops1 ++ OpSum inp :: ops2) = written (ops1 ++ ops2).
Proof. unfold written. rewrite !written_acc_app. reflexivity. Qed.

(* Reset forgets everything before it *)
Lemma written_reset ops1 ops2 : written (ops1 ++ OpReset :: ops2) = written ops2.
Proof. unfold written. rewrite written_acc_app. reflexivity. Qed.
