(* C09: the compressing RFC 1035 encoder produces a wire form of the message ([wire_msg]), hence
   the library (and the reference decoder) read its output back.
   Invariant: every (suffix, offset) in the compression table is a well-formed wire name for that
   suffix inside the octets written so far, and lies before the start of any later name. *)
From Coq Require Import List NArith ZArith Lia Bool.
From Coq Require Import ZifyN ZifyNat ZifyBool.
From Mant Require Import Prim.R Prim.Bytes Model.Llmnr Spec.C09
     Proofs.C09Base Proofs.C09Name Proofs.C09Msg Proofs.C09Rfc.
Import ListNotations.
Open Scope N_scope.

Lemma name_eqb_eq a : forall b, name_eqb a b = true -> a = b.
Proof.
  induction a as [|x a IH]; intros [|y b] H; cbn [name_eqb] in H; try discriminate; [reflexivity|].
  apply andb_true_iff in H. destruct H as [H1 H2]. apply bytes_eqb_spec in H1. apply IH in H2. congruence.
Qed.

Definition Inv (t : ctable) (d : list N) (S : N) : Prop :=
  forall n p, lookup t n = Some p ->
    n <> [] /\ p < S /\ p < 16384 /\ exists fin, wire_name d p p n fin.

Lemma Inv_nil d S : Inv [] d S.
Proof. intros n p H. discriminate. Qed.

Lemma Inv_mono t d S ext S' : Inv t d S -> S <= S' -> Inv t (d ++ ext) S'.
Proof.
  intros H Hle n p Hl. destruct (H n p Hl) as (H1 & H2 & H3 & fin & H4).
  repeat split; [exact H1|lia|exact H3|]. exists fin. now apply wire_name_app_l.
Qed.

Lemma Inv_cons t d S n0 p0 fin :
  Inv t d S -> n0 <> [] -> p0 < S -> p0 < 16384 -> wire_name d p0 p0 n0 fin -> Inv ((n0, p0) :: t) d S.
Proof.
  intros H Hne Hp Hp' Hw n p Hl. cbn [lookup] in Hl.
  destruct (name_eqb n0 n) eqn:E.
  - apply name_eqb_eq in E. inversion Hl; subst. repeat split; auto. now exists fin.
  - now apply H.
Qed.

Lemma comp_name_cons t off l rest :
  comp_name t off (l :: rest) =
  match lookup t (l :: rest) with
  | Some p => ([192 + p / 256; p mod 256], t)
  | None => let '(b, t') := comp_name t (off + 1 + lenN l) rest in
            (lenN l :: l ++ b, if off <? 16384 then (l :: rest, off) :: t' else t')
  end.
Proof. reflexivity. Qed.

Ltac pair_inv H b t :=
  let H1 := fresh in let H2 := fresh in
  pose proof (f_equal fst H) as H1; pose proof (f_equal snd H) as H2;
  cbn [fst snd] in H1, H2; subst b t; clear H.

Lemma comp_name_spec n : Forall (fun l => 1 <= lenN l <= 63) n ->
  forall t pre S, S <= lenN pre -> Inv t pre S ->
  forall b t', comp_name t (lenN pre) n = (b, t') ->
    (forall post, wire_name (pre ++ b ++ post) S (lenN pre) n (lenN pre + lenN b))
    /\ Inv t' (pre ++ b) (lenN pre + lenN b) /\ 1 <= lenN b.
Proof.
  induction 1 as [|l rest Hl Hrest IH]; intros t pre S HS HI b t' Hc.
  - cbn [comp_name] in Hc. inversion Hc; subst. change (lenN [0]) with 1. split; [|split].
    + intros post. apply wn_end. rewrite byte_at_app_r0. reflexivity.
    + eapply Inv_mono; [exact HI|lia].
    + lia.
  - rewrite comp_name_cons in Hc.
    match type of Hc with context [lookup t ?x] => destruct (lookup t x) as [p|] eqn:El end.
    + (* a pointer to an earlier occurrence *)
      pair_inv Hc b t'. destruct (HI _ _ El) as (_ & HpS & Hp & fin & Hw).
      change (lenN [192 + p / 256; p mod 256]) with 2. split; [|split].
      * intros post.
        assert (Hhi : p / 256 < 64) by (apply N.div_lt_upper_bound; lia).
        assert (Hlo : p mod 256 < 256) by (apply N.mod_lt; lia).
        assert (Hp2 : p / 256 * 256 + p mod 256 = p) by (pose proof (N.div_mod p 256); lia).
        apply wn_pointer with (hi := p / 256) (lo := p mod 256) (fin' := fin); try assumption.
        -- rewrite byte_at_app_r0. reflexivity.
        -- rewrite byte_at_app_r. reflexivity.
        -- lia.
        -- rewrite Hp2. now apply wire_name_app_l.
      * eapply Inv_mono; [exact HI|lia].
      * lia.
    + (* the label, then the rest *)
      destruct (comp_name t (lenN pre + 1 + lenN l) rest) as [b' t''] eqn:Er.
      pair_inv Hc b t'.
      set (pre' := pre ++ lenN l :: l).
      assert (Lpre' : lenN pre' = lenN pre + 1 + lenN l) by (unfold pre'; rewrite lenN_app, lenN_cons; lia).
      rewrite <- Lpre' in Er.
      destruct (IH t pre' S ltac:(lia) (Inv_mono _ _ _ (lenN l :: l) _ HI (N.le_refl S)) _ _ Er)
        as (Hw & HI' & Hb').
      assert (Eapp : forall post, pre ++ (lenN l :: l ++ b') ++ post = pre' ++ b' ++ post).
      { intros post. unfold pre'. rewrite <- !app_assoc. cbn [app]. now rewrite <- app_assoc. }
      assert (Elen : lenN pre + lenN (lenN l :: l ++ b') = lenN pre' + lenN b')
        by (rewrite lenN_cons, lenN_app; lia).
      assert (Hmain : forall post S', S <= S' ->
                wire_name (pre ++ (lenN l :: l ++ b') ++ post) S' (lenN pre) (l :: rest)
                          (lenN pre + lenN (lenN l :: l ++ b'))).
      { intros post S' HS'. apply wn_label; [exact Hl| | |].
        - rewrite byte_at_app_r0. reflexivity.
        - change (pre ++ (lenN l :: l ++ b') ++ post) with (pre ++ [lenN l] ++ (l ++ b') ++ post).
          rewrite (app_assoc pre [lenN l]). rewrite <- (app_assoc l).
          apply bytes_at_mid'; [rewrite lenN_app; reflexivity|reflexivity].
        - rewrite Eapp, Elen, <- Lpre'. eapply wire_name_start_mono; [apply Hw|exact HS']. }
      split; [|split].
      * intros post. apply Hmain. lia.
      * rewrite Elen.
        assert (Eapp0 : pre ++ lenN l :: l ++ b' = pre' ++ b').
        { specialize (Eapp []). now rewrite !app_nil_r in Eapp. }
        rewrite Eapp0.
        destruct (N.ltb_spec (lenN pre) 16384) as [Hsmall|]; [|exact HI'].
        eapply Inv_cons with (fin := lenN pre + lenN (lenN l :: l ++ b')); [exact HI'|discriminate|lia|exact Hsmall|].
        specialize (Hmain [] (lenN pre) HS). rewrite app_nil_r, Eapp0 in Hmain. exact Hmain.
      * rewrite lenN_cons. lia.
Qed.

(* elements: questions and records *)
Definition comp_spec {A} (comp : ctable -> N -> A -> list N * ctable)
           (W : list N -> N -> A -> N -> Prop) (ok : A -> Prop) : Prop :=
  forall x t pre b t', ok x -> Inv t pre (lenN pre) -> comp t (lenN pre) x = (b, t') ->
    (forall post, W (pre ++ b ++ post) (lenN pre) x (lenN pre + lenN b))
    /\ Inv t' (pre ++ b) (lenN pre + lenN b).

Lemma comp_question_spec : comp_spec comp_question wire_question (question_ok labels_ok).
Proof.
  intros q t pre b t' (Hn & Ht & Hc) HI Hcomp. unfold comp_question in Hcomp.
  destruct (comp_name t (lenN pre) (rq_name q)) as [nb t1] eqn:E. pair_inv Hcomp b t'.
  destruct (comp_name_spec _ (labels_ok_len _ Hn) t pre (lenN pre) (N.le_refl _) HI _ _ E) as (Hw & HI' & _).
  split.
  - intros post. exists (lenN pre + lenN nb). split; [|split; [|split]].
    + rewrite <- !app_assoc. apply Hw.
    + rewrite <- !app_assoc. rewrite (app_assoc pre nb). apply u16_at_mid; [exact Ht|now rewrite lenN_app].
    + rewrite <- !app_assoc. rewrite (app_assoc pre nb), (app_assoc (pre ++ nb)).
      apply u16_at_mid; [exact Hc|rewrite !lenN_app, lenN_be_bytes; lia].
    + rewrite !lenN_app, !lenN_be_bytes. lia.
  - rewrite (app_assoc pre nb). eapply Inv_mono; [exact HI'|]. rewrite !lenN_app. lia.
Qed.

Lemma comp_rr_spec : comp_spec comp_rr wire_rr (rr_ok labels_ok).
Proof.
  intros r t pre b t' Hok HI Hcomp. pose proof Hok as (Hn & _). unfold comp_rr in Hcomp.
  destruct (comp_name t (lenN pre) (rr_name r)) as [nb t1] eqn:E. pair_inv Hcomp b t'.
  destruct (comp_name_spec _ (labels_ok_len _ Hn) t pre (lenN pre) (N.le_refl _) HI _ _ E) as (Hw & HI' & _).
  split.
  - intros post. exists (lenN pre + lenN nb).
    destruct (rr_fixed_at r (pre ++ nb) post (lenN pre + lenN nb) (rr_ok_weaken _ _ Hok)) as (H1 & H2 & H3 & H4 & H5);
      [now rewrite lenN_app|].
    rewrite <- !app_assoc in *. repeat split; try assumption.
    + apply Hw.
    + rewrite lenN_app, lenN_rr_fixed. lia.
  - rewrite (app_assoc pre nb). eapply Inv_mono; [exact HI'|]. rewrite !lenN_app. lia.
Qed.

Lemma comp_list_spec {A} comp (W : list N -> N -> A -> N -> Prop) ok :
  comp_spec comp W ok ->
  forall l, Forall ok l -> forall t pre b t', Inv t pre (lenN pre) -> comp_list comp t (lenN pre) l = (b, t') ->
    (forall post, wire_list W (pre ++ b ++ post) (lenN pre) l (lenN pre + lenN b))
    /\ Inv t' (pre ++ b) (lenN pre + lenN b).
Proof.
  intros Hspec l Hl. induction Hl as [|x l Hx Hl IH]; intros t pre b t' HI Hc.
  - cbn [comp_list] in Hc. inversion Hc; subst. change (lenN []) with 0. rewrite N.add_0_r, app_nil_r. split.
    + intros post. constructor.
    + exact HI.
  - cbn [comp_list] in Hc. destruct (comp t (lenN pre) x) as [b1 t1] eqn:E1.
    destruct (comp_list comp t1 (lenN pre + lenN b1) l) as [b2 t2] eqn:E2. pair_inv Hc b t'.
    destruct (Hspec _ _ _ _ _ Hx HI E1) as (Hw1 & HI1).
    rewrite <- lenN_app in E2, HI1.
    destruct (IH _ _ _ _ HI1 E2) as (Hw2 & HI2).
    split.
    + intros post. apply wl_cons with (mid := lenN pre + lenN b1).
      * rewrite <- app_assoc. apply Hw1.
      * rewrite <- app_assoc, (app_assoc pre b1). rewrite <- lenN_app.
        replace (lenN pre + lenN (b1 ++ b2)) with (lenN (pre ++ b1) + lenN b2) by (rewrite !lenN_app; lia).
        apply Hw2.
    + rewrite (app_assoc pre b1).
      replace (lenN pre + lenN (b1 ++ b2)) with (lenN (pre ++ b1) + lenN b2) by (rewrite !lenN_app; lia).
      exact HI2.
Qed.

Lemma header_at m rest : msg_ok (fun _ => True) m ->
  let d := rfc_header m ++ rest in
  u16_at d 0 = Some (rm_id m) /\ u16_at d 2 = Some (rm_flags m)
  /\ u16_at d 4 = Some (lenN (rm_qd m)) /\ u16_at d 6 = Some (lenN (rm_an m))
  /\ u16_at d 8 = Some (lenN (rm_ns m)) /\ u16_at d 10 = Some (lenN (rm_ar m)).
Proof.
  intros (Hid & Hfl & Lq & La & Ln & Lr & _) d. subst d. unfold rfc_header. rewrite <- !app_assoc.
  set (b1 := be_bytes 2 (rm_id m)). set (b2 := be_bytes 2 (rm_flags m)).
  set (b3 := be_bytes 2 (lenN (rm_qd m))). set (b4 := be_bytes 2 (lenN (rm_an m))).
  set (b5 := be_bytes 2 (lenN (rm_ns m))). set (b6 := be_bytes 2 (lenN (rm_ar m))).
  assert (L1 : lenN b1 = 2) by apply lenN_be_bytes. assert (L2 : lenN b2 = 2) by apply lenN_be_bytes.
  assert (L3 : lenN b3 = 2) by apply lenN_be_bytes. assert (L4 : lenN b4 = 2) by apply lenN_be_bytes.
  assert (L5 : lenN b5 = 2) by apply lenN_be_bytes.
  split; [|split; [|split; [|split; [|split]]]].
  - apply (u16_at_mid []); [exact Hid|reflexivity].
  - apply (u16_at_mid b1); [exact Hfl|lia].
  - rewrite (app_assoc b1). apply u16_at_mid; [lia|rewrite lenN_app; lia].
  - rewrite (app_assoc b1), (app_assoc (b1 ++ b2)). apply u16_at_mid; [lia|rewrite !lenN_app; lia].
  - rewrite (app_assoc b1), (app_assoc (b1 ++ b2)), (app_assoc ((b1 ++ b2) ++ b3)).
    apply u16_at_mid; [lia|rewrite !lenN_app; lia].
  - rewrite (app_assoc b1), (app_assoc (b1 ++ b2)), (app_assoc ((b1 ++ b2) ++ b3)),
      (app_assoc (((b1 ++ b2) ++ b3) ++ b4)).
    apply u16_at_mid; [lia|rewrite !lenN_app; lia].
Qed.

Theorem wire_msg_compressed m : msg_ok labels_ok m -> wire_msg (rfc_encode_compressed m) m.
Proof.
  intros Hok. pose proof Hok as (Hid & Hfl & Lq & La & Ln & Lr & Q & A1 & A2 & A3).
  unfold rfc_encode_compressed.
  set (h := rfc_header m). assert (HL : lenN h = 12) by apply rfc_header_len.
  destruct (comp_list comp_question [] 12 (rm_qd m)) as [b1 t1] eqn:E1.
  destruct (comp_list comp_rr t1 (12 + lenN b1) (rm_an m)) as [b2 t2] eqn:E2.
  destruct (comp_list comp_rr t2 (12 + lenN b1 + lenN b2) (rm_ns m)) as [b3 t3] eqn:E3.
  destruct (comp_list comp_rr t3 (12 + lenN b1 + lenN b2 + lenN b3) (rm_ar m)) as [b4 t4] eqn:E4.
  rewrite <- HL in E1.
  destruct (comp_list_spec _ _ _ comp_question_spec _ Q [] h b1 t1 (Inv_nil _ _) E1) as (W1 & I1).
  replace (12 + lenN b1) with (lenN (h ++ b1)) in E2 by (rewrite lenN_app; lia).
  rewrite <- lenN_app in I1.
  destruct (comp_list_spec _ _ _ comp_rr_spec _ A1 t1 (h ++ b1) b2 t2 I1 E2) as (W2 & I2).
  replace (12 + lenN b1 + lenN b2) with (lenN ((h ++ b1) ++ b2)) in E3 by (rewrite !lenN_app; lia).
  rewrite <- lenN_app in I2.
  destruct (comp_list_spec _ _ _ comp_rr_spec _ A2 t2 ((h ++ b1) ++ b2) b3 t3 I2 E3) as (W3 & I3).
  replace (12 + lenN b1 + lenN b2 + lenN b3) with (lenN (((h ++ b1) ++ b2) ++ b3)) in E4 by (rewrite !lenN_app; lia).
  rewrite <- lenN_app in I3.
  destruct (comp_list_spec _ _ _ comp_rr_spec _ A3 t3 (((h ++ b1) ++ b2) ++ b3) b4 t4 I3 E4) as (W4 & _).
  assert (Hok0 : msg_ok (fun _ => True) m) by (eapply msg_ok_weaken; [|exact Hok]; auto).
  destruct (header_at m (b1 ++ b2 ++ b3 ++ b4) Hok0) as (F1 & F2 & F3 & F4 & F5 & F6).
  fold h in F1, F2, F3, F4, F5, F6.
  unfold wire_msg. repeat (split; [assumption|]).
  exists (lenN h + lenN b1), (lenN (h ++ b1) + lenN b2), (lenN ((h ++ b1) ++ b2) + lenN b3),
    (lenN (((h ++ b1) ++ b2) ++ b3) + lenN b4).
  split; [|split; [|split]].
  - rewrite <- HL at 1. apply W1.
  - rewrite <- lenN_app. specialize (W2 (b3 ++ b4)). rewrite <- !app_assoc in W2. exact W2.
  - rewrite <- lenN_app. specialize (W3 b4). rewrite <- !app_assoc in W3. rewrite <- !app_assoc. exact W3.
  - rewrite <- lenN_app. specialize (W4 []). rewrite app_nil_r in W4. rewrite <- !app_assoc in W4.
    rewrite <- !app_assoc. exact W4.
Qed.

(* The library decodes the compressing codec's output to the same content *)
Theorem lib_reads_rfc_compressed m : msg_ok labels_ok m ->
  decode_message (rfc_encode_compressed m) = Ok (lib_msg m).
Proof. intros H. apply decode_message_wire; [now apply wire_msg_compressed|exact H]. Qed.

Theorem lib_reads_rfc_plain m : msg_ok labels_ok m ->
  decode_message (rfc_encode_msg m) = Ok (lib_msg m).
Proof. intros H. apply decode_message_wire; [now apply wire_msg_plain|exact H]. Qed.

(* and so does the reference decoder (self-consistency of the reference codec) *)
Theorem rfc_reads_compressed m : msg_ok name_ok m -> rfc_decode_msg (rfc_encode_compressed m) = Some m.
Proof.
  intros H. apply rfc_decode_msg_wire; [|exact H].
  apply wire_msg_compressed. eapply msg_ok_weaken; [apply name_ok_labels|exact H].
Qed.
