(* C17, aliasing: on the slice-level model (Model/NameTableHeap.v)
   - a location handed out by QueryName is never written by any later operation (results_stable);
   - the slice-level model simulates the value-level model (heap_sim), so every theorem about
     [run] holds for [hrun] read through the heap. *)
From Coq Require Import List Arith NArith ZArith Lia Bool.
From Mant Require Import Prim.Bytes Model.NameTable Model.NameTableHeap Proofs.C17Proofs.
Import ListNotations.
Local Open Scope nat_scope.

(* ------------------------------------------------------------------ the heap *)

Lemma cell_app_old h x l : l < length h -> cell (h ++ x) l = cell h l.
Proof. intros H. unfold cell. now apply app_nth1. Qed.

Lemma cell_app_new h x : cell (h ++ [x]) (length h) = x.
Proof. unfold cell. apply nth_middle. Qed.

Lemma length_set_cell h l arr : length (set_cell h l arr) = length h.
Proof. revert l. induction h as [|c h IH]; intros [|l]; cbn; auto. Qed.

Lemma cell_set_same h l arr : l < length h -> cell (set_cell h l arr) l = arr.
Proof.
  revert l. induction h as [|c h IH]; intros [|l] H; cbn in *; try lia; [reflexivity|].
  apply IH. lia.
Qed.

Lemma cell_set_other h l l' arr : l <> l' -> cell (set_cell h l arr) l' = cell h l'.
Proof.
  revert l l'. induction h as [|c h IH]; intros [|l] [|l'] H; cbn in *; try reflexivity; try congruence.
  apply IH. congruence.
Qed.

(* ------------------------------------------------------------------ In-style facts about the association list *)

Lemma In_tdel {V} (t : list (name * V)) n kr : In kr (tdel t n) -> In kr t.
Proof.
  induction t as [|[k r] t IH]; [intros []|]. cbn [tdel]. destruct (bytes_eqb k n).
  - intros H. right. auto.
  - intros [H|H]; [now left|right; auto].
Qed.

Lemma In_tset {V} (t : list (name * V)) n r kr : In kr (tset t n r) -> kr = (n, r) \/ In kr t.
Proof. unfold tset. intros [H|H]; [now left|right; eapply In_tdel; eauto]. Qed.

Lemma In_tset_del {V} (t : list (name * V)) n r kr : In kr (tset t n r) -> kr = (n, r) \/ In kr (tdel t n).
Proof. unfold tset. intros [H|H]; [now left|now right]. Qed.

Lemma tget_some_In {V} (t : list (name * V)) n r : tget t n = Some r -> In (n, r) t.
Proof.
  induction t as [|[k r0] t IH]; [discriminate|]. cbn [tget]. destruct (bytes_eqb k n) eqn:E.
  - apply bytes_eqb_spec in E. subst. intros H. inversion H. now left.
  - intros H. right. auto.
Qed.

(* ------------------------------------------------------------------ results are never written *)

(* location l is allocated and is not the base of any record's Owners *)
Definition frame (l : nat) (st : hstate) : Prop :=
  l < length (hs_heap st) /\
  forall kr, In kr (hs_tbl st) -> h_loc (snd kr) < length (hs_heap st) /\ h_loc (snd kr) <> l.

Lemma frame_intro l t (h : heap) t' (h' : heap) :
  frame l (mkhs t h) -> length h <= length h' ->
  (forall kr, In kr t' -> In kr t \/ (h_loc (snd kr) < length h' /\ h_loc (snd kr) <> l)) ->
  frame l (mkhs t' h').
Proof.
  intros [Hl Hrec] Hlen Hin. unfold frame. cbn [hs_heap hs_tbl] in *. split; [lia|].
  intros kr Hkr. destruct (Hin kr Hkr) as [H|H]; [|exact H]. destruct (Hrec kr H). split; [lia|auto].
Qed.

Lemma hstep_frame now st o l :
  frame l st ->
  frame l (fst (hstep now st o)) /\ cell (hs_heap (fst (hstep now st o))) l = cell (hs_heap st) l.
Proof.
  intros Hf. destruct st as [t h]. pose proof Hf as [Hl Hrec]. cbn [hs_heap hs_tbl] in Hl, Hrec.
  destruct o as [n ty a ttl|n|n a|n a|n|]; cbn [hstep hs_tbl hs_heap].
  - (* Register *)
    assert (Hnew : forall r0, h_loc r0 = length h ->
              frame l (mkhs (tset t n r0) (h ++ [[a]])) /\ cell (h ++ [[a]]) l = cell h l).
    { intros r0 Hloc. split; [|now apply cell_app_old].
      apply (frame_intro l t h); [exact Hf|rewrite app_length; lia|].
      intros kr Hin. apply In_tset in Hin. destruct Hin as [->|Hin]; [right|now left].
      cbn [snd]. rewrite Hloc, app_length. cbn [length]. lia. }
    destruct (tget t n) as [r|] eqn:Hget; [|cbn [fst hs_heap]; now apply Hnew].
    destruct ((h_type r =? ty_group)%N && (ty =? ty_group)%N).
    + destruct (has_owner a (owners_of h r)); [cbn [fst hs_heap]; auto|].
      apply tget_some_In in Hget. destruct (Hrec _ Hget) as [Hr1 Hr2]. cbn [snd] in Hr1, Hr2.
      unfold append_owner. destruct (h_len r <? length (cell h (h_loc r))); cbn [fst hs_heap].
      * split; [|now apply cell_set_other].
        apply (frame_intro l t h); [exact Hf|rewrite length_set_cell; lia|].
        intros kr Hin. apply In_tset in Hin. destruct Hin as [->|Hin]; [right|now left].
        cbn [snd hwith_ttl hwith_slice h_loc]. rewrite length_set_cell. auto.
      * split; [|now apply cell_app_old].
        apply (frame_intro l t h); [exact Hf|rewrite app_length; lia|].
        intros kr Hin. apply In_tset in Hin. destruct Hin as [->|Hin]; [right|now left].
        cbn [snd hwith_ttl hwith_slice h_loc]. rewrite app_length. cbn [length]. lia.
    + destruct ((h_type r =? ty_unique)%N || (ty =? ty_unique)%N); cbn [fst hs_heap]; [auto|now apply Hnew].
  - (* Query *)
    destruct (tget t n) as [r|]; [destruct (h_status r =? st_active)%N|]; cbn [fst hs_heap]; auto.
    split; [|now apply cell_app_old].
    apply (frame_intro l t h); [exact Hf|rewrite app_length; lia|]. intros kr Hin. now left.
  - (* Release *)
    destruct (tget t n) as [r|] eqn:Hget; [|cbn [fst hs_heap]; auto].
    apply tget_some_In in Hget. destruct (Hrec _ Hget) as [Hr1 Hr2]. cbn [snd] in Hr1, Hr2.
    destruct (h_type r =? ty_group)%N.
    + destruct (remove_first a (owners_of h r)) as [[|c l']|]; cbn [fst hs_heap]; auto.
      * split; [|now apply cell_set_other].
        apply (frame_intro l t h); [exact Hf|rewrite length_set_cell; lia|].
        intros kr Hin. left. eapply In_tdel; eauto.
      * split; [|now apply cell_set_other].
        apply (frame_intro l t h); [exact Hf|rewrite length_set_cell; lia|].
        intros kr Hin. apply In_tset in Hin. destruct Hin as [->|Hin]; [right|now left].
        cbn [snd hwith_slice h_loc]. rewrite length_set_cell. auto.
    + destruct (owners_of h r) as [|b ?]; [cbn [fst hs_heap]; auto|].
      destruct (ip_equal b a); cbn [fst hs_heap]; auto. split; [|reflexivity].
      apply (frame_intro l t h); [exact Hf|lia|]. intros kr Hin. left. eapply In_tdel; eauto.
  - (* Refresh *)
    destruct (tget t n) as [r|] eqn:Hget; [|cbn [fst hs_heap]; auto].
    apply tget_some_In in Hget. destruct (Hrec _ Hget) as [Hr1 Hr2]. cbn [snd] in Hr1, Hr2.
    destruct (has_owner a (owners_of h r)); cbn [fst hs_heap]; auto. split; [|reflexivity].
    apply (frame_intro l t h); [exact Hf|lia|].
    intros kr Hin. apply In_tset in Hin. destruct Hin as [->|Hin]; [right|now left]. cbn; auto.
  - (* MarkConflict *)
    destruct (tget t n) as [r|] eqn:Hget; cbn [fst hs_heap]; auto.
    apply tget_some_In in Hget. destruct (Hrec _ Hget) as [Hr1 Hr2]. cbn [snd] in Hr1, Hr2.
    split; [|reflexivity].
    apply (frame_intro l t h); [exact Hf|lia|].
    intros kr Hin. apply In_tset in Hin. destruct Hin as [->|Hin]; [right|now left]. cbn; auto.
  - (* CleanExpired *)
    cbn [fst hs_heap]. split; [|reflexivity].
    apply (frame_intro l t h); [exact Hf|lia|]. intros kr Hin. apply filter_In in Hin. tauto.
Qed.

Lemma hrun_cons st now o h :
  hrun st ((now, o) :: h) =
  (fst (hrun (fst (hstep now st o)) h), snd (hstep now st o) :: snd (hrun (fst (hstep now st o)) h)).
Proof. cbn [hrun]. destruct (hstep now st o) as [st1 x]. cbn [fst snd]. now destruct (hrun st1 h). Qed.

Lemma hrun_frame h : forall st l,
  frame l st -> frame l (fst (hrun st h)) /\ cell (hs_heap (fst (hrun st h))) l = cell (hs_heap st) l.
Proof.
  induction h as [|[now o] h IH]; intros st l Hf; [cbn; auto|].
  rewrite hrun_cons. cbn [fst]. destruct (hstep_frame now st o l Hf) as [Hf1 Hc1].
  destruct (IH _ _ Hf1) as [Hf2 Hc2]. split; [exact Hf2|congruence].
Qed.

(* every record's base is an allocated location *)
Definition alloc_ok (st : hstate) : Prop :=
  forall kr, In kr (hs_tbl st) -> h_loc (snd kr) < length (hs_heap st).

Lemma hstep_alloc_ok now st o : alloc_ok st -> alloc_ok (fst (hstep now st o)).
Proof.
  intros Ha. destruct st as [t h].
  unfold alloc_ok in *. cbn [hs_tbl hs_heap] in Ha.
  destruct o as [n ty a ttl|n|n a|n a|n|]; cbn [hstep hs_tbl hs_heap].
  - assert (Hnew : forall r0 kr, h_loc r0 = length h -> In kr (tset t n r0) -> h_loc (snd kr) < length (h ++ [[a]])).
    { intros r0 kr Hloc Hin. rewrite app_length. cbn [length].
      apply In_tset in Hin. destruct Hin as [->|Hin]; [cbn [snd]; lia|]. specialize (Ha _ Hin). lia. }
    destruct (tget t n) as [r|] eqn:Hget; [|cbn [fst hs_tbl hs_heap]; intros kr; now apply Hnew].
    destruct ((h_type r =? ty_group)%N && (ty =? ty_group)%N).
    + destruct (has_owner a (owners_of h r)); [cbn [fst hs_tbl hs_heap]; auto|].
      apply tget_some_In in Hget. pose proof (Ha _ Hget) as Hr1. cbn [snd] in Hr1.
      unfold append_owner. destruct (h_len r <? length (cell h (h_loc r))); cbn [fst hs_tbl hs_heap].
      * intros kr Hin. rewrite length_set_cell. apply In_tset in Hin. destruct Hin as [->|Hin]; [exact Hr1|auto].
      * intros kr Hin. rewrite app_length. cbn [length]. apply In_tset in Hin.
        destruct Hin as [->|Hin]; [cbn; lia|]. specialize (Ha _ Hin). lia.
    + destruct ((h_type r =? ty_unique)%N || (ty =? ty_unique)%N); cbn [fst hs_tbl hs_heap]; [auto|intros kr; now apply Hnew].
  - destruct (tget t n) as [r|]; [destruct (h_status r =? st_active)%N|]; cbn [fst hs_tbl hs_heap]; auto.
    intros kr Hin. rewrite app_length. specialize (Ha _ Hin). lia.
  - destruct (tget t n) as [r|] eqn:Hget; [|cbn [fst hs_tbl hs_heap]; auto].
    apply tget_some_In in Hget. pose proof (Ha _ Hget) as Hr1. cbn [snd] in Hr1.
    destruct (h_type r =? ty_group)%N.
    + destruct (remove_first a (owners_of h r)) as [[|c l']|]; cbn [fst hs_tbl hs_heap]; auto.
      * intros kr Hin. rewrite length_set_cell. apply In_tdel in Hin. auto.
      * intros kr Hin. rewrite length_set_cell. apply In_tset in Hin. destruct Hin as [->|Hin]; [exact Hr1|auto].
    + destruct (owners_of h r) as [|b ?]; [cbn [fst hs_tbl hs_heap]; auto|].
      destruct (ip_equal b a); cbn [fst hs_tbl hs_heap]; auto. intros kr Hin. apply In_tdel in Hin. auto.
  - destruct (tget t n) as [r|] eqn:Hget; [|cbn [fst hs_tbl hs_heap]; auto].
    apply tget_some_In in Hget. pose proof (Ha _ Hget) as Hr1. cbn [snd] in Hr1.
    destruct (has_owner a (owners_of h r)); cbn [fst hs_tbl hs_heap]; auto.
    intros kr Hin. apply In_tset in Hin. destruct Hin as [->|Hin]; [exact Hr1|auto].
  - destruct (tget t n) as [r|] eqn:Hget; cbn [fst hs_tbl hs_heap]; auto.
    apply tget_some_In in Hget. pose proof (Ha _ Hget) as Hr1. cbn [snd] in Hr1.
    intros kr Hin. apply In_tset in Hin. destruct Hin as [->|Hin]; [exact Hr1|auto].
  - cbn [fst hs_tbl hs_heap]. intros kr Hin. apply filter_In in Hin. apply Ha. tauto.
Qed.

Lemma hrun_alloc_ok h : forall st, alloc_ok st -> alloc_ok (fst (hrun st h)).
Proof.
  induction h as [|[now o] h IH]; intros st Ha; [exact Ha|].
  rewrite hrun_cons. cbn [fst]. apply IH. now apply hstep_alloc_ok.
Qed.

Lemma alloc_ok_empty : alloc_ok hempty.
Proof. intros kr []. Qed.

(* QueryName returns a fresh location holding exactly the owners of that moment, and the table is
   unchanged; that location is framed. *)
Lemma query_fresh now st n l len ty :
  alloc_ok st ->
  snd (hstep now st (Query n)) = HOwners l len ty ->
  let st' := fst (hstep now st (Query n)) in
  frame l st' /\ hs_tbl st' = hs_tbl st /\
  exists r, tget (hs_tbl st) n = Some r /\ len = h_len r /\ ty = h_type r /\
            cell (hs_heap st') l = owners_of (hs_heap st) r.
Proof.
  intros Ha. destruct st as [t h]. cbn [hstep hs_tbl hs_heap].
  destruct (tget t n) as [r|] eqn:Hget; [|discriminate].
  destruct (h_status r =? st_active)%N; [|discriminate].
  cbn [fst snd]. intros H. inversion H; subst. cbn [hs_tbl hs_heap]. split; [|split; [reflexivity|]].
  - split; cbn [hs_tbl hs_heap]; [rewrite app_length; cbn; lia|].
    intros kr Hin. specialize (Ha _ Hin). cbn [hs_heap] in Ha. rewrite app_length. cbn [length]. lia.
  - exists r. repeat split; auto. apply cell_app_new.
Qed.

(* The result of a query, at any point of any history, is a slice of its own: whatever happens
   afterwards, the array it points to is not written. *)
Theorem results_stable h1 now n h2 l len ty :
  let st1 := fst (hrun hempty h1) in
  snd (hstep now st1 (Query n)) = HOwners l len ty ->
  let st2 := fst (hstep now st1 (Query n)) in
  let st3 := fst (hrun st2 h2) in
  cell (hs_heap st3) l = cell (hs_heap st2) l /\
  (exists r, tget (hs_tbl st1) n = Some r /\ len = h_len r /\ cell (hs_heap st2) l = owners_of (hs_heap st1) r) /\
  (forall kr, In kr (hs_tbl st3) -> h_loc (snd kr) <> l).
Proof.
  intros st1 Hq st2 st3.
  assert (Ha : alloc_ok st1) by (apply hrun_alloc_ok, alloc_ok_empty).
  destruct (query_fresh now st1 n l len ty Ha Hq) as [Hf [_ [r [Hget [Hlen [_ Hcell]]]]]].
  fold st2 in Hf, Hcell. destruct (hrun_frame h2 st2 l Hf) as [Hf3 Hc3]. fold st3 in Hf3, Hc3.
  split; [exact Hc3|]. split; [eauto|]. intros kr Hin. apply Hf3. exact Hin.
Qed.

(* ------------------------------------------------------------------ the slice level simulates the value level *)

Definition proj_rec (h : heap) (r : hrecord) : record :=
  mkrec (h_type r) (h_status r) (owners_of h r) (h_ttl r) (h_refresh r).
Definition proj_tbl (h : heap) (t : list (name * hrecord)) : table :=
  map (fun kr => (fst kr, proj_rec h (snd kr))) t.
Definition proj (st : hstate) : table := proj_tbl (hs_heap st) (hs_tbl st).

Definition out_of (h : heap) (x : hout) : out :=
  match x with
  | HOk => OOk
  | HErr => OErr
  | HPanic => OPanic
  | HOwners l len ty => OOwners (firstn len (cell h l)) ty
  end.

Definition hloc (kr : name * hrecord) : nat := h_loc (snd kr).

(* distinct records own distinct arrays, inside the heap, and len <= cap *)
Definition hwf (st : hstate) : Prop :=
  NoDup (map hloc (hs_tbl st)) /\
  forall kr, In kr (hs_tbl st) ->
    h_loc (snd kr) < length (hs_heap st) /\
    h_len (snd kr) <= length (cell (hs_heap st) (h_loc (snd kr))).

Lemma tget_proj h t n :
  tget (proj_tbl h t) n = match tget t n with Some r => Some (proj_rec h r) | None => None end.
Proof.
  induction t as [|[k r] t IH]; [reflexivity|]. cbn [proj_tbl map fst snd tget].
  destruct (bytes_eqb k n); [reflexivity|exact IH].
Qed.

Lemma proj_tbl_ext h h' t :
  (forall kr, In kr t -> owners_of h' (snd kr) = owners_of h (snd kr)) -> proj_tbl h' t = proj_tbl h t.
Proof.
  intros H. apply map_ext_in. intros kr Hin. unfold proj_rec. now rewrite (H kr Hin).
Qed.

Lemma tdel_proj h t n : tdel (proj_tbl h t) n = proj_tbl h (tdel t n).
Proof.
  induction t as [|[k r] t IH]; [reflexivity|]. cbn [proj_tbl map fst snd tdel].
  destruct (bytes_eqb k n); [exact IH|]. cbn [map fst snd]. f_equal. exact IH.
Qed.

Lemma proj_tdel h h' t n :
  (forall kr, In kr (tdel t n) -> owners_of h' (snd kr) = owners_of h (snd kr)) ->
  proj_tbl h' (tdel t n) = tdel (proj_tbl h t) n.
Proof. intros H. rewrite tdel_proj. now apply proj_tbl_ext. Qed.

Lemma proj_tset h h' t n r r' :
  proj_rec h' r = r' ->
  (forall kr, In kr (tdel t n) -> owners_of h' (snd kr) = owners_of h (snd kr)) ->
  proj_tbl h' (tset t n r) = tset (proj_tbl h t) n r'.
Proof.
  intros Hr H. unfold tset. cbn [proj_tbl map fst snd]. rewrite Hr. f_equal. now apply proj_tdel.
Qed.

Lemma In_tdel_key {V} (t : list (name * V)) n kr : In kr (tdel t n) -> fst kr <> n.
Proof.
  induction t as [|[k r] t IH]; [intros []|]. cbn [tdel]. destruct (bytes_eqb k n) eqn:E; [exact IH|].
  intros [H|H]; [|auto]. subst kr. cbn [fst]. now apply bytes_eqb_false.
Qed.

Lemma NoDup_map_inj {A B} (f : A -> B) l x y :
  NoDup (map f l) -> In x l -> In y l -> f x = f y -> x = y.
Proof.
  induction l as [|a l IH]; [intros _ []|]. cbn [map]. intros Hnd Hx Hy Hf.
  inversion Hnd as [|? ? Hn Hd]; subst.
  destruct Hx as [->|Hx], Hy as [->|Hy]; auto.
  - exfalso. apply Hn. rewrite Hf. now apply in_map.
  - exfalso. apply Hn. rewrite <- Hf. now apply in_map.
Qed.

Lemma NoDup_map_tdel {V B} (f : name * V -> B) t n : NoDup (map f t) -> NoDup (map f (tdel t n)).
Proof.
  induction t as [|[k r] t IH]; [auto|]. cbn [map tdel]. intros H. inversion H as [|? ? Hn Hd]; subst.
  destruct (bytes_eqb k n); [auto|]. cbn [map]. constructor; [|auto].
  intros Hin. apply Hn. apply in_map_iff in Hin. destruct Hin as [x [H1 H2]].
  apply in_map_iff. exists x. split; [exact H1|]. eapply In_tdel; eauto.
Qed.

Lemma NoDup_map_filter {A B} (f : A -> B) (p : A -> bool) l : NoDup (map f l) -> NoDup (map f (filter p l)).
Proof.
  induction l as [|a l IH]; [auto|]. cbn [map filter]. intros H. inversion H as [|? ? Hn Hd]; subst.
  destruct (p a); [|auto]. cbn [map]. constructor; [|auto].
  intros Hin. apply Hn. apply in_map_iff in Hin. destruct Hin as [x [H1 H2]].
  apply filter_In in H2. apply in_map_iff. exists x. tauto.
Qed.

(* the other records do not share the array of the record under n *)
Lemma others_elsewhere t n r kr :
  NoDup (map hloc t) -> tget t n = Some r -> In kr (tdel t n) -> h_loc (snd kr) <> h_loc r.
Proof.
  intros Hnd Hget Hin Heq. pose proof (In_tdel_key _ _ _ Hin) as Hk.
  apply In_tdel in Hin. apply tget_some_In in Hget.
  assert (kr = (n, r)) by (eapply (NoDup_map_inj hloc); eauto).
  subst kr. now apply Hk.
Qed.

Lemma remove_first_length a l l' : remove_first a l = Some l' -> length l = S (length l').
Proof.
  revert l'. induction l as [|b l IH]; intros l'; [discriminate|]. cbn [remove_first].
  destruct (ip_equal b a); [intros H; inversion H; reflexivity|].
  destruct (remove_first a l) as [r|]; [|discriminate]. intros H. inversion H; subst.
  cbn [length]. now rewrite (IH r).
Qed.

Lemma owners_of_length h r : h_len r <= length (cell h (h_loc r)) -> length (owners_of h r) = h_len r.
Proof. intros H. unfold owners_of. now apply firstn_length_le. Qed.

Lemma firstn_app_exact {A} (l1 l2 : list A) n : length l1 = n -> firstn n (l1 ++ l2) = l1.
Proof. intros <-. rewrite firstn_app, Nat.sub_diag, firstn_all, firstn_O. apply app_nil_r. Qed.

Lemma hwf_intro t' (h' : heap) :
  NoDup (map hloc t') ->
  (forall kr, In kr t' -> h_loc (snd kr) < length h' /\ h_len (snd kr) <= length (cell h' (h_loc (snd kr)))) ->
  hwf (mkhs t' h').
Proof. intros H1 H2. split; assumption. Qed.

Lemma hstep_sim now st o :
  hwf st ->
  hwf (fst (hstep now st o)) /\
  step now (proj st) o = (proj (fst (hstep now st o)), out_of (hs_heap (fst (hstep now st o))) (snd (hstep now st o))).
Proof.
  intros Hwf. destruct st as [t h]. pose proof Hwf as [Hnd Hrec]. cbn [hs_heap hs_tbl] in Hnd, Hrec.
  unfold proj. cbn [hs_heap hs_tbl].
  (* records keep what they see when the heap grows at the end *)
  assert (Hgrow : forall x kr, In kr t -> owners_of (h ++ [x]) (snd kr) = owners_of h (snd kr)).
  { intros x kr Hin. unfold owners_of. rewrite cell_app_old; [reflexivity|]. now apply Hrec. }
  assert (Hgrow_wf : forall x kr, In kr t ->
            h_loc (snd kr) < length (h ++ [x]) /\ h_len (snd kr) <= length (cell (h ++ [x]) (h_loc (snd kr)))).
  { intros x kr Hin. destruct (Hrec _ Hin) as [H1 H2]. rewrite app_length, cell_app_old by exact H1. cbn [length]. lia. }
  (* a fresh record on a fresh one-element array *)
  assert (Hnew : forall n ty a ttl,
    let fresh := mkhrec ty st_active (length h) 1 (now + ttl)%Z ttl in
    hwf (mkhs (tset t n fresh) (h ++ [[a]])) /\
    proj_tbl (h ++ [[a]]) (tset t n fresh) = tset (proj_tbl h t) n (mkrec ty st_active [a] (now + ttl)%Z ttl)).
  { intros n ty a ttl fresh. split.
    - apply hwf_intro.
      + unfold tset. cbn [map]. constructor; [|now apply NoDup_map_tdel].
        intros Hin. apply in_map_iff in Hin. destruct Hin as [kr [H1 H2]]. apply In_tdel in H2.
        destruct (Hrec _ H2) as [H3 _]. unfold hloc in H1. cbn [snd fresh h_loc] in H1. lia.
      + intros kr Hin. apply In_tset in Hin. destruct Hin as [->|Hin]; [|now apply Hgrow_wf].
        cbn [snd fresh h_loc h_len]. rewrite cell_app_new, app_length. cbn [length]. lia.
    - apply proj_tset.
      + unfold proj_rec, owners_of. cbn [fresh h_type h_status h_loc h_len h_ttl h_refresh]. now rewrite cell_app_new.
      + intros kr Hin. apply Hgrow. eapply In_tdel; eauto. }
  (* replacing the record under n by one on the same slice *)
  assert (Hsame : forall n r r', tget t n = Some r -> h_loc r' = h_loc r -> h_len r' = h_len r ->
    hwf (mkhs (tset t n r') h) /\
    forall p, proj_rec h r' = p -> proj_tbl h (tset t n r') = tset (proj_tbl h t) n p).
  { intros n r r' Hget Hloc Hlen. split.
    - apply hwf_intro.
      + unfold tset. cbn [map]. constructor; [|now apply NoDup_map_tdel].
        intros Hin. apply in_map_iff in Hin. destruct Hin as [kr [H1 H2]].
        apply (others_elsewhere t n r kr Hnd Hget H2). unfold hloc in H1. cbn [snd] in H1. congruence.
      + intros kr Hin. apply In_tset in Hin. destruct Hin as [->|Hin]; [|now apply Hrec].
        cbn [snd]. rewrite Hloc, Hlen. apply (Hrec (n, r)). now apply tget_some_In.
    - intros p Hp. apply proj_tset; [exact Hp|reflexivity]. }
  destruct o as [n ty a ttl|n|n a|n a|n|]; cbn [hstep step hs_tbl hs_heap]; rewrite ?tget_proj.
  - (* Register *)
    destruct (tget t n) as [r|] eqn:Hget.
    2:{ cbn [fst snd hs_tbl hs_heap out_of]. destruct (Hnew n ty a ttl) as [H1 H2]. split; [exact H1|]. now rewrite H2. }
    cbn [proj_rec r_type r_owners].
    destruct ((h_type r =? ty_group)%N && (ty =? ty_group)%N).
    + destruct (has_owner a (owners_of h r)) eqn:Hown; [cbn [fst snd hs_tbl hs_heap out_of]; auto|].
      pose proof (tget_some_In _ _ _ Hget) as Hin. destruct (Hrec _ Hin) as [Hr1 Hr2]. cbn [snd] in Hr1, Hr2.
      unfold append_owner. destruct (Nat.ltb_spec (h_len r) (length (cell h (h_loc r)))) as [Hlt|Hge];
        cbn [fst snd hs_tbl hs_heap out_of].
      * (* in place *)
        set (arr' := firstn (h_len r) (cell h (h_loc r)) ++ [a] ++ skipn (S (h_len r)) (cell h (h_loc r))).
        assert (Hfl : length (firstn (h_len r) (cell h (h_loc r))) = h_len r) by (apply firstn_length_le; lia).
        assert (Hothers : forall kr, In kr (tdel t n) ->
                  owners_of (set_cell h (h_loc r) arr') (snd kr) = owners_of h (snd kr)).
        { intros kr Hk. unfold owners_of. rewrite cell_set_other; [reflexivity|].
          intros E. symmetry in E. revert E. now apply (others_elsewhere t n r kr). }
        split.
        -- apply hwf_intro.
           ++ unfold tset. cbn [map]. constructor; [|now apply NoDup_map_tdel].
              intros Hi. apply in_map_iff in Hi. destruct Hi as [kr [H1 H2]].
              apply (others_elsewhere t n r kr Hnd Hget H2). exact H1.
           ++ intros kr Hk. rewrite length_set_cell. apply In_tset_del in Hk. destruct Hk as [->|Hk].
              ** cbn [snd hwith_ttl hwith_slice h_loc h_len]. split; [exact Hr1|].
                 rewrite cell_set_same by exact Hr1. unfold arr'. rewrite !app_length, Hfl. cbn [length]. lia.
              ** pose proof (others_elsewhere t n r kr Hnd Hget Hk) as Hne.
                 apply In_tdel in Hk. destruct (Hrec _ Hk) as [H1 H2]. split; [exact H1|].
                 rewrite cell_set_other by congruence. exact H2.
        -- f_equal. symmetry. apply proj_tset; [|exact Hothers].
           unfold proj_rec, with_ttl, with_owners, owners_of.
           cbn [hwith_ttl hwith_slice h_type h_status h_loc h_len h_ttl h_refresh r_type r_status r_owners r_ttl r_refresh].
           rewrite cell_set_same by exact Hr1. f_equal.
           unfold arr'. rewrite app_assoc. apply firstn_app_exact. rewrite app_length, Hfl. cbn [length]. lia.
      * (* reallocation *)
        set (arr' := firstn (h_len r) (cell h (h_loc r)) ++ [a] ++ repeat [] (grow (length (cell h (h_loc r))) - S (h_len r))).
        assert (Hfl : length (firstn (h_len r) (cell h (h_loc r))) = h_len r) by (apply firstn_length_le; lia).
        split.
        -- apply hwf_intro.
           ++ unfold tset. cbn [map]. constructor; [|now apply NoDup_map_tdel].
              intros Hi. apply in_map_iff in Hi. destruct Hi as [kr [H1 H2]]. apply In_tdel in H2.
              destruct (Hrec _ H2) as [H3 _]. unfold hloc in H1. cbn [snd hwith_ttl hwith_slice h_loc] in H1. lia.
           ++ intros kr Hk. apply In_tset in Hk. destruct Hk as [->|Hk]; [|now apply Hgrow_wf].
              cbn [snd hwith_ttl hwith_slice h_loc h_len]. rewrite cell_app_new, app_length. cbn [length].
              split; [lia|]. unfold arr'. rewrite !app_length, Hfl. cbn [length]. lia.
        -- f_equal. symmetry. apply proj_tset.
           ++ unfold proj_rec, with_ttl, with_owners, owners_of.
              cbn [hwith_ttl hwith_slice h_type h_status h_loc h_len h_ttl h_refresh r_type r_status r_owners r_ttl r_refresh].
              rewrite cell_app_new. f_equal.
              unfold arr'. rewrite app_assoc. apply firstn_app_exact. rewrite app_length, Hfl. cbn [length]. lia.
           ++ intros kr Hk. apply Hgrow. eapply In_tdel; eauto.
    + destruct ((h_type r =? ty_unique)%N || (ty =? ty_unique)%N); cbn [fst snd hs_tbl hs_heap out_of]; [auto|].
      destruct (Hnew n ty a ttl) as [H1 H2]. split; [exact H1|]. now rewrite H2.
  - (* Query *)
    destruct (tget t n) as [r|] eqn:Hget; [|cbn [fst snd hs_tbl hs_heap out_of]; auto].
    cbn [proj_rec r_status r_owners r_type].
    destruct (h_status r =? st_active)%N; cbn [fst snd hs_tbl hs_heap out_of]; [|auto].
    split.
    + apply hwf_intro; [exact Hnd|]. intros kr Hk. now apply Hgrow_wf.
    + rewrite (proj_tbl_ext h (h ++ [owners_of h r]) t) by (intros kr Hk; now apply Hgrow).
      rewrite cell_app_new. unfold owners_of at 2. rewrite firstn_firstn, Nat.min_id. reflexivity.
  - (* Release *)
    destruct (tget t n) as [r|] eqn:Hget; [|cbn [fst snd hs_tbl hs_heap out_of]; auto].
    cbn [proj_rec r_type r_owners].
    pose proof (tget_some_In _ _ _ Hget) as Hin. destruct (Hrec _ Hin) as [Hr1 Hr2]. cbn [snd] in Hr1, Hr2.
    destruct (h_type r =? ty_group)%N.
    + destruct (remove_first a (owners_of h r)) as [l'|] eqn:Hrm; [|cbn [fst snd hs_tbl hs_heap out_of]; auto].
      pose proof (remove_first_length _ _ _ Hrm) as Hlen. rewrite owners_of_length in Hlen by exact Hr2.
      set (arr' := l' ++ skipn (h_len r - 1) (cell h (h_loc r))).
      assert (Hothers : forall kr, In kr (tdel t n) ->
                owners_of (set_cell h (h_loc r) arr') (snd kr) = owners_of h (snd kr)).
      { intros kr Hk. unfold owners_of. rewrite cell_set_other; [reflexivity|].
        intros E. symmetry in E. revert E. now apply (others_elsewhere t n r kr). }
      assert (Hothers_wf : forall kr, In kr (tdel t n) ->
                h_loc (snd kr) < length (set_cell h (h_loc r) arr') /\
                h_len (snd kr) <= length (cell (set_cell h (h_loc r) arr') (h_loc (snd kr)))).
      { intros kr Hk. rewrite length_set_cell. pose proof (others_elsewhere t n r kr Hnd Hget Hk) as Hne.
        apply In_tdel in Hk. destruct (Hrec _ Hk) as [H1 H2]. split; [exact H1|].
        rewrite cell_set_other by congruence. exact H2. }
      destruct l' as [|c l']; cbn [fst snd hs_tbl hs_heap out_of].
      * split; [|f_equal; symmetry; now apply proj_tdel].
        apply hwf_intro; [now apply NoDup_map_tdel|exact Hothers_wf].
      * split.
        -- apply hwf_intro.
           ++ unfold tset. cbn [map]. constructor; [|now apply NoDup_map_tdel].
              intros Hi. apply in_map_iff in Hi. destruct Hi as [kr [H1 H2]].
              apply (others_elsewhere t n r kr Hnd Hget H2). exact H1.
           ++ intros kr Hk. apply In_tset_del in Hk. destruct Hk as [->|Hk]; [|now apply Hothers_wf].
              rewrite length_set_cell. cbn [snd hwith_slice h_loc h_len]. split; [exact Hr1|].
              rewrite cell_set_same by exact Hr1. unfold arr'. rewrite app_length. cbn [length] in *. lia.
        -- f_equal. symmetry. apply proj_tset; [|exact Hothers].
           unfold proj_rec, with_owners, owners_of.
           cbn [hwith_slice h_type h_status h_loc h_len h_ttl h_refresh r_type r_status r_owners r_ttl r_refresh].
           rewrite cell_set_same by exact Hr1. f_equal.
           unfold arr'. apply firstn_app_exact. cbn [length] in *. lia.
    + destruct (owners_of h r) as [|b ?]; [cbn [fst snd hs_tbl hs_heap out_of]; auto|].
      destruct (ip_equal b a); cbn [fst snd hs_tbl hs_heap out_of]; [|auto].
      split; [|f_equal; symmetry; now apply proj_tdel].
      apply hwf_intro; [now apply NoDup_map_tdel|]. intros kr Hk. apply In_tdel in Hk. now apply Hrec.
  - (* Refresh *)
    destruct (tget t n) as [r|] eqn:Hget; [|cbn [fst snd hs_tbl hs_heap out_of]; auto].
    cbn [proj_rec r_owners r_refresh].
    destruct (has_owner a (owners_of h r)); cbn [fst snd hs_tbl hs_heap out_of]; [|auto].
    destruct (Hsame n r (hwith_ttl r (now + h_refresh r)%Z) Hget eq_refl eq_refl) as [H1 H2].
    split; [exact H1|]. f_equal. symmetry. apply H2. reflexivity.
  - (* MarkConflict *)
    destruct (tget t n) as [r|] eqn:Hget; cbn [fst snd hs_tbl hs_heap out_of]; [|auto].
    destruct (Hsame n r (hwith_status r st_conflict) Hget eq_refl eq_refl) as [H1 H2].
    split; [exact H1|]. f_equal. symmetry. apply H2. reflexivity.
  - (* CleanExpired *)
    cbn [fst snd hs_tbl hs_heap out_of]. split.
    + apply hwf_intro; [now apply NoDup_map_filter|]. intros kr Hk. apply filter_In in Hk. apply Hrec. tauto.
    + f_equal. unfold proj_tbl. clear. induction t as [|[k r] t IH]; [reflexivity|].
      cbn [map filter fst snd]. unfold expired at 1. cbn [proj_rec r_ttl].
      destruct (h_ttl r <? now)%Z; cbn [negb map fst snd]; [exact IH|]. f_equal. exact IH.
Qed.

Lemma hwf_empty : hwf hempty.
Proof. split; [constructor|intros kr []]. Qed.

(* Every history: the slice-level run yields, read through the heap, exactly the value-level run. *)
Theorem heap_sim h : forall st,
  hwf st ->
  hwf (fst (hrun st h)) /\
  fst (run (proj st) h) = proj (fst (hrun st h)) /\
  Forall2 (fun x y => exists hp, x = out_of hp y) (snd (run (proj st) h)) (snd (hrun st h)).
Proof.
  induction h as [|[now o] h IH]; intros st Hwf.
  - cbn. auto.
  - rewrite hrun_cons, run_cons. cbn [fst snd].
    destruct (hstep_sim now st o Hwf) as [Hwf1 Hstep]. rewrite Hstep. cbn [fst snd].
    destruct (IH _ Hwf1) as [Hwf2 [Ht Ho]]. split; [exact Hwf2|]. split; [exact Ht|].
    constructor; [eauto|exact Ho].
Qed.

Theorem heap_sim_empty h :
  fst (run empty h) = proj (fst (hrun hempty h)) /\
  Forall2 (fun x y => exists hp, x = out_of hp y) (snd (run empty h)) (snd (hrun hempty h)).
Proof. exact (proj2 (heap_sim h hempty hwf_empty)). Qed.
