(* C07: "without allocating memory out of proportion to the input" for the record-oriented decoders:
   what a decoder allocates is what it returns, and what it returns is bounded by the input length. *)
From Coq Require Import List Arith NArith ZArith Lia Bool.
From Coq Require Import ZifyN ZifyNat ZifyBool.
From Mant Require Import Prim.R Prim.Bytes Model.Llmnr Model.NbPacket Model.NbtFrame Proofs.C07Proofs.
Import ListNotations.
Open Scope N_scope.

(* LLMNR: rr.RData = make([]byte, rr.RDLength) happens after offset+RDLength <= len(data) *)
Theorem alloc_llmnr_rr data off r o : Llmnr.decode_rr data off = Ok (r, o) ->
  lenN (Llmnr.r_data r) <= lenN data /\ o <= lenN data.
Proof.
  unfold Llmnr.decode_rr. destruct (Llmnr.decode_name data off) as [no| |]; try discriminate. cbn [bind].
  destruct (lenN data <? snd no + 10); [discriminate|].
  destruct (Llmnr.be16_at data (snd no)); try discriminate. cbn [bind].
  destruct (Llmnr.be16_at data (snd no + 2)); try discriminate. cbn [bind].
  destruct (Llmnr.be32_at data (snd no + 4)); try discriminate. cbn [bind].
  destruct (Llmnr.be16_at data (snd no + 8)) as [rdl| |]; try discriminate. cbn [bind].
  destruct (N.ltb_spec (lenN data) (snd no + 10 + rdl)); [discriminate|].
  destruct (go_slice data (snd no + 10) (snd no + 10 + rdl)) as [rd| |] eqn:Es; try discriminate. cbn [bind].
  intros E. inversion E; subst. cbn [Llmnr.r_data]. split; [eapply go_slice_len; eassumption|assumption].
Qed.

(* NBT session service: buffer := make([]byte, length) with a 17-bit length: at most 128 KiB per frame,
   whatever the peer sends *)
Theorem alloc_nbt_frame h t len : wf_bytes h -> nbt_parse_header h = Ok (t, len) -> len <= 131071.
Proof.
  intros Hwf. unfold nbt_parse_header.
  assert (I : forall i x, go_index h i = Ok x -> x < 256).
  { intros i x. unfold go_index. destruct (i <? lenN h); [|discriminate].
    destruct (nth_error h (N.to_nat i)) eqn:En; [|discriminate]. intros E. inversion E; subst.
    apply nth_error_In in En. unfold wf_bytes in Hwf. rewrite Forall_forall in Hwf. now apply Hwf. }
  destruct (go_index h 0) as [t0| |]; try discriminate. cbn [bind].
  destruct (go_index h 1) as [f| |]; try discriminate. cbn [bind].
  destruct (go_index h 2) as [b2| |] eqn:E2; try discriminate. cbn [bind].
  destruct (go_index h 3) as [b3| |] eqn:E3; try discriminate. cbn [bind].
  intros E. pose proof (I 2 b2 E2). pose proof (I 3 b3 E3).
  assert (El : f mod 2 * 65536 + b2 * 256 + b3 = len) by congruence.
  assert (f mod 2 < 2) by (apply N.mod_upper_bound; lia). lia.
Qed.

(* NBNS: the record counts come from the header (up to 65535 each), but every record read consumes at
   least 11 bytes of the input and its RDATA is a sub-slice of it: the number of records returned and
   the bytes they hold are bounded by the packet length, not by the counts the peer announces *)
Lemma read_labels_adv data : forall fuel off acc ls off',
  read_labels fuel data off acc = Ok (ls, off') -> off + 1 <= off' /\ off' <= lenN data.
Proof.
  induction fuel as [|fuel IH]; intros off acc ls off'; cbn [read_labels]; [discriminate|].
  destruct (N.leb_spec (lenN data) off); [discriminate|].
  destruct (go_index data off) as [l| |]; try discriminate. cbn [bind].
  destruct (l =? 0). { intros E. assert (off + 1 = off') by congruence. lia. }
  destruct (63 <? l); [discriminate|].
  destruct (N.ltb_spec (lenN data) (off + 1 + l)); [discriminate|].
  destruct (go_slice data (off + 1) (off + 1 + l)); try discriminate. cbn [bind].
  intros E. apply IH in E. lia.
Qed.

Lemma read_name_adv data off nm off' : read_name data off = Ok (nm, off') -> off + 1 <= off' /\ off' <= lenN data.
Proof.
  unfold read_name. destruct (read_labels _ data off []) as [[ls o]| |] eqn:El; try discriminate. cbn [bind].
  destruct (NbName.first_level_decode _); try discriminate. cbn [bind]. intros E.
  assert (o = off') by congruence. subst o. eapply read_labels_adv; eassumption.
Qed.

Theorem alloc_nbns_rrs data : forall cnt off rrs off', off <= lenN data ->
  read_rrs cnt data off = Ok (rrs, off') ->
  off + 11 * lenN rrs <= off' /\ off' <= lenN data /\
  Forall (fun r => lenN (rr_rdata r) <= lenN data) rrs.
Proof.
  induction cnt as [|c IH]; intros off rrs off' Hoff; cbn [read_rrs].
  - intros E. inversion E; subst. change (lenN (@nil nbrr)) with 0. repeat split; [lia|lia|constructor].
  - destruct (read_name data off) as [[nm off1]| |] eqn:En; try discriminate. cbn [bind].
    apply read_name_adv in En.
    destruct (N.ltb_spec (lenN data) (off1 + 10)); [discriminate|].
    destruct (read_u16 data off1); try discriminate. cbn [bind].
    destruct (read_u16 data (off1 + 2)); try discriminate. cbn [bind].
    destruct (read_u32 data (off1 + 4)); try discriminate. cbn [bind].
    destruct (read_u16 data (off1 + 8)) as [rdl| |]; try discriminate. cbn [bind].
    destruct (N.ltb_spec (lenN data) (off1 + 10 + rdl)) as [|Hfit]; [discriminate|].
    destruct (go_slice data (off1 + 10) (off1 + 10 + rdl)) as [rd| |] eqn:Es; try discriminate. cbn [bind].
    destruct (read_rrs c data (off1 + 10 + rdl)) as [[rest off3]| |] eqn:Er; try discriminate. cbn [bind].
    intros E. inversion E; subst. destruct (IH _ _ _ Hfit Er) as [I1 [I2 I3]]. rewrite lenN_cons.
    split; [lia|]. split; [exact I2|].
    constructor; [cbn [rr_rdata]; eapply go_slice_len; eassumption|exact I3].
Qed.

(* hence: the records of one section number at most len(data)/11, however many the header announces *)
Corollary alloc_nbns_count data cnt off rrs off' : off <= lenN data ->
  read_rrs cnt data off = Ok (rrs, off') -> 11 * lenN rrs <= lenN data.
Proof. intros H E. destruct (alloc_nbns_rrs data cnt off rrs off' H E) as [A [B _]]. lia. Qed.
