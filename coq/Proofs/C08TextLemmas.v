(* Text: the runes Go reads from a string are Unicode scalar values, so unicode/utf16.Encode agrees
   with RFC 2781 on them; ASCII strings are their own runes and stay ASCII under strings.ToUpper;
   reading back an RFC 3629 encoding gives the text. *)
From Coq Require Import List Arith NArith ZArith Lia Bool.
From Coq Require Import ZifyN ZifyNat ZifyBool.
From Mant Require Import Prim.R Prim.Bytes Model.C08Text Spec.C08.
Import ListNotations.
Open Scope N_scope.

Ltac Zify.zify_post_hook ::= Z.div_mod_to_equations.

Lemma in_range_spec lo hi b : in_range lo hi b = true <-> lo <= b <= hi.
Proof. unfold in_range. lia. Qed.

Lemma decode_rune_scalar s : is_scalar (fst (decode_rune s)).
Proof.
  unfold decode_rune, is_scalar, rune_error.
  destruct s as [|b0 t]; [cbn; lia|].
  destruct (N.ltb_spec b0 128); [cbn; lia|].
  destruct (in_range 194 223 b0) eqn:R2.
  { apply in_range_spec in R2. destruct t as [|b1 t]; [cbn; lia|].
    unfold cont. destruct (in_range 128 191 b1) eqn:C1; [|cbn; lia].
    apply in_range_spec in C1. cbn [fst]. lia. }
  destruct (in_range 224 239 b0) eqn:R3.
  { apply in_range_spec in R3. destruct t as [|b1 [|b2 t]]; try (cbn; lia).
    unfold cont.
    destruct (in_range (if b0 =? 224 then 160 else 128) (if b0 =? 237 then 159 else 191) b1) eqn:C1; [|cbn; lia].
    destruct (in_range 128 191 b2) eqn:C2; [|cbn; lia].
    apply in_range_spec in C1, C2. cbn [andb fst].
    destruct (N.eqb_spec b0 224), (N.eqb_spec b0 237); lia. }
  destruct (in_range 240 244 b0) eqn:R4.
  { apply in_range_spec in R4. destruct t as [|b1 [|b2 [|b3 t]]]; try (cbn; lia).
    unfold cont.
    destruct (in_range (if b0 =? 240 then 144 else 128) (if b0 =? 244 then 143 else 191) b1) eqn:C1; [|cbn; lia].
    destruct (in_range 128 191 b2) eqn:C2; [|cbn; lia].
    destruct (in_range 128 191 b3) eqn:C3; [|cbn; lia].
    apply in_range_spec in C1, C2, C3. cbn [andb fst].
    destruct (N.eqb_spec b0 240), (N.eqb_spec b0 244); lia. }
  cbn; lia.
Qed.

Lemma go_runes_fuel_scalar f : forall s, Forall is_scalar (go_runes_fuel f s).
Proof.
  induction f as [|f IH]; intros s; cbn [go_runes_fuel]; [constructor|].
  destruct s as [|b t]; [constructor|].
  pose proof (decode_rune_scalar (b :: t)) as H. destruct (decode_rune (b :: t)) as [r w].
  constructor; [exact H|apply IH].
Qed.

Lemma go_runes_scalar s : Forall is_scalar (go_runes s).
Proof. apply go_runes_fuel_scalar. Qed.

Lemma go_utf16_units_scalar r : is_scalar r -> go_utf16_units r = utf16_units r.
Proof.
  unfold is_scalar, go_utf16_units, utf16_units, in_range. intros H.
  destruct (N.ltb_spec r 55296); cbn [orb].
  - destruct (N.ltb_spec r 65536); [reflexivity|lia].
  - destruct (N.leb_spec 57344 r), (N.leb_spec r 65535); cbn [andb]; try lia.
    + destruct (N.ltb_spec r 65536); [reflexivity|lia].
    + destruct (N.ltb_spec r 65536); [lia|].
      destruct (N.leb_spec 65536 r), (N.leb_spec r 1114111); cbn [andb]; try lia.
      f_equal. f_equal. apply N.mod_small. lia.
Qed.

(* EncodeUTF16LE of a Go string is the RFC 2781 UTF-16LE encoding of its runes. *)
Theorem go_utf16le_spec s : go_utf16le s = utf16le (go_runes s).
Proof.
  unfold go_utf16le, utf16le, go_utf16_encode.
  pose proof (go_runes_scalar s) as H. induction H as [|r rs Hr _ IH]; [reflexivity|].
  cbn [flat_map]. rewrite !flat_map_app, IH, (go_utf16_units_scalar r Hr). reflexivity.
Qed.

(* ---- ASCII ---- *)
Definition ascii (s : list N) : Prop := Forall (fun b => b < 128) s.

Lemma go_runes_fuel_ascii s : forall f, ascii s -> (length s <= f)%nat -> go_runes_fuel f s = s.
Proof.
  induction s as [|b t IH]; intros f Ha Hf; [destruct f; reflexivity|].
  destruct f as [|f]; [cbn in Hf; lia|]. inversion Ha as [|? ? Hb Ht]; subst.
  cbn [go_runes_fuel decode_rune]. destruct (N.ltb_spec b 128); [|lia].
  cbn [skipn]. rewrite IH; [reflexivity|exact Ht|cbn in Hf; lia].
Qed.

Lemma go_runes_ascii s : ascii s -> go_runes s = s.
Proof. intros H. apply go_runes_fuel_ascii; [exact H|lia]. Qed.

Lemma upper_rune_ascii r : r < 128 -> upper_rune r < 128.
Proof.
  intros H.
  assert (E : forallb (fun r => upper_rune r <? 128) (map N.of_nat (seq 0 128)) = true) by (vm_compute; reflexivity).
  rewrite forallb_forall in E. apply N.ltb_lt, E.
  apply in_map_iff. exists (N.to_nat r). split; [lia|]. apply in_seq. lia.
Qed.

Lemma go_to_upper_ascii s : ascii s -> ascii (go_to_upper s) /\ lenN (go_to_upper s) = lenN s.
Proof.
  intros H. unfold go_to_upper. rewrite go_runes_ascii by exact H.
  induction H as [|b t Hb _ IH]; [split; [constructor|reflexivity]|].
  cbn [flat_map]. pose proof (upper_rune_ascii b Hb) as Hu.
  assert (E : utf8_enc_rune (upper_rune b) = [upper_rune b]).
  { unfold utf8_enc_rune. destruct (N.ltb_spec (upper_rune b) 128); [reflexivity|lia]. }
  rewrite E. cbn [app]. destruct IH as [IH1 IH2]. split; [constructor; assumption|].
  rewrite !lenN_cons, IH2. reflexivity.
Qed.

Lemma oem_encode_ascii s : ascii s -> oem_encode s = Some s.
Proof.
  intros H. unfold oem_encode.
  assert (E : forallb (fun c => c <? 128) s = true).
  { apply forallb_forall. intros x Hx. unfold ascii in H. rewrite Forall_forall in H. specialize (H x Hx). lia. }
  now rewrite E.
Qed.

(* ---- RFC 3629: decoding the UTF-8 encoding of a text gives the text back ---- *)
Lemma decode_rune_utf8_char c rest : is_scalar c ->
  decode_rune (utf8_char c ++ rest) = (c, length (utf8_char c)).
Proof.
  unfold is_scalar, utf8_char. intros H.
  destruct (N.ltb_spec c 128).
  { cbn [app decode_rune length]. destruct (N.ltb_spec c 128); [reflexivity|lia]. }
  destruct (N.ltb_spec c 2048).
  { cbn [app decode_rune length].
    destruct (N.ltb_spec (192 + c / 64) 128); [lia|].
    assert (R : in_range 194 223 (192 + c / 64) = true) by (apply in_range_spec; lia). rewrite R.
    assert (C : cont (128 + c mod 64) = true) by (apply in_range_spec; lia). rewrite C.
    f_equal. lia. }
  destruct (N.ltb_spec c 65536).
  { cbn [app decode_rune length].
    destruct (N.ltb_spec (224 + c / 4096) 128); [lia|].
    assert (R2 : in_range 194 223 (224 + c / 4096) = false).
    { destruct (in_range 194 223 (224 + c / 4096)) eqn:E; [apply in_range_spec in E; lia|reflexivity]. }
    rewrite R2.
    assert (R : in_range 224 239 (224 + c / 4096) = true) by (apply in_range_spec; lia). rewrite R.
    assert (C1 : in_range (if 224 + c / 4096 =? 224 then 160 else 128) (if 224 + c / 4096 =? 237 then 159 else 191)
                   (128 + (c / 64) mod 64) = true).
    { apply in_range_spec. destruct (N.eqb_spec (224 + c / 4096) 224), (N.eqb_spec (224 + c / 4096) 237); lia. }
    rewrite C1.
    assert (C2 : cont (128 + c mod 64) = true) by (apply in_range_spec; lia). rewrite C2.
    cbn [andb]. f_equal. lia. }
  cbn [app decode_rune length].
  destruct (N.ltb_spec (240 + c / 262144) 128); [lia|].
  assert (R2 : in_range 194 223 (240 + c / 262144) = false).
  { destruct (in_range 194 223 (240 + c / 262144)) eqn:E; [apply in_range_spec in E; lia|reflexivity]. }
  rewrite R2.
  assert (R3 : in_range 224 239 (240 + c / 262144) = false).
  { destruct (in_range 224 239 (240 + c / 262144)) eqn:E; [apply in_range_spec in E; lia|reflexivity]. }
  rewrite R3.
  assert (R : in_range 240 244 (240 + c / 262144) = true) by (apply in_range_spec; lia). rewrite R.
  assert (C1 : in_range (if 240 + c / 262144 =? 240 then 144 else 128) (if 240 + c / 262144 =? 244 then 143 else 191)
                 (128 + (c / 4096) mod 64) = true).
  { apply in_range_spec. destruct (N.eqb_spec (240 + c / 262144) 240), (N.eqb_spec (240 + c / 262144) 244); lia. }
  rewrite C1.
  assert (C2 : cont (128 + (c / 64) mod 64) = true) by (apply in_range_spec; lia). rewrite C2.
  assert (C3 : cont (128 + c mod 64) = true) by (apply in_range_spec; lia). rewrite C3.
  cbn [andb]. f_equal. lia.
Qed.

Lemma utf8_char_length c : (1 <= length (utf8_char c) <= 4)%nat.
Proof.
  unfold utf8_char. destruct (c <? 128); [cbn; lia|]. destruct (c <? 2048); [cbn; lia|].
  destruct (c <? 65536); cbn; lia.
Qed.

Lemma go_runes_fuel_utf8 text : forall f, Forall is_scalar text -> (length (utf8 text) <= f)%nat ->
  go_runes_fuel f (utf8 text) = text.
Proof.
  induction text as [|c text IH]; intros f Hs Hf; [destruct f; reflexivity|].
  inversion Hs as [|? ? Hc Ht]; subst.
  unfold utf8 in *. cbn [flat_map] in *. rewrite app_length in Hf.
  pose proof (utf8_char_length c) as Hl.
  destruct f as [|f]; [lia|].
  cbn [go_runes_fuel].
  destruct (utf8_char c ++ flat_map utf8_char text) eqn:E.
  { apply (f_equal (@length N)) in E. rewrite app_length in E. cbn in E. lia. }
  rewrite <- E. rewrite decode_rune_utf8_char by exact Hc.
  rewrite skipn_app, skipn_all, Nat.sub_diag. cbn [skipn app].
  rewrite IH; [reflexivity|exact Ht|lia].
Qed.

Theorem go_runes_utf8 text : Forall is_scalar text -> go_runes (utf8 text) = text.
Proof. intros H. apply go_runes_fuel_utf8; [exact H|lia]. Qed.
