(* Generic round-trip proof for the all-integer fragment of the SMB command structures:
   for EVERY description accepted by the decidable check [simple_fixed] and EVERY assignment of
   field values within the declared widths, the template's Unmarshal (as interpreted by
   Model/SmbLayout.v) reads back exactly what its Marshal wrote. *)
From Coq Require Import List Arith NArith ZArith String Bool Lia.
From Coq Require Import ZifyN ZifyNat ZifyBool.
From Mant Require Import Prim.R Prim.Bytes Model.Flags Model.SmbTypes Model.SmbBlocks Model.SmbLayout
  Model.SmbAnalysis Spec.C06 Spec.C04 Proofs.C19Proofs Proofs.C06Blocks Proofs.C06Proofs.
Import ListNotations.
Open Scope N_scope.

(* ---- boolean equalities are sound ---- *)
Lemma lenexp_eqb_eq a : forall b, lenexp_eqb a b = true -> a = b.
Proof.
  induction a; intros [] H; cbn [lenexp_eqb] in H; try discriminate; try reflexivity.
  - apply N.eqb_eq in H. now subst.
  - apply String.eqb_eq in H. now subst.
  - apply String.eqb_eq in H. now subst.
  - apply String.eqb_eq in H. now subst.
  - apply andb_true_iff in H. destruct H as [H1 H2]. f_equal; auto.
  - apply andb_true_iff in H. destruct H as [H1 H2]. f_equal; auto.
  - apply andb_true_iff in H. destruct H as [H1 H2]. f_equal; auto.
Qed.

Lemma stream_eqb_eq a b : stream_eqb a b = true -> a = b.
Proof. destruct a, b; simpl; congruence. Qed.

Lemma endian_eqb_eq a b : endian_eqb a b = true -> a = b.
Proof. destruct a, b; simpl; congruence. Qed.

Lemma uop_eqb_eq a b : uop_eqb a b = true -> a = b.
Proof.
  destruct a, b; cbn [uop_eqb]; intros H; try discriminate.
  - apply andb_true_iff in H. destruct H as [H1 H2].
    apply stream_eqb_eq in H1. apply lenexp_eqb_eq in H2. now subst.
  - repeat (apply andb_true_iff in H; destruct H as [H ?]).
    apply stream_eqb_eq in H. apply lenexp_eqb_eq in H0. apply endian_eqb_eq in H1.
    apply Nat.eqb_eq in H2. apply String.eqb_eq in H3. now subst.
  - apply lenexp_eqb_eq in H. now subst.
  - apply stream_eqb_eq in H. now subst.
Qed.

Lemma uops_eqb_eq a : forall b, uops_eqb a b = true -> a = b.
Proof.
  induction a as [|x a IH]; intros [|y b] H; cbn [uops_eqb] in H; try discriminate; [reflexivity|].
  apply andb_true_iff in H. destruct H as [H1 H2]. apply uop_eqb_eq in H1. apply IH in H2. now subst.
Qed.

(* ---- valuations ---- *)
Definition names (fs : list ifield) : list string := map (fun x => fst (fst x)) fs.

Lemma vget_vset_same v f x : vget (vset v f x) f = Some x.
Proof.
  induction v as [|[g y] v IH]; cbn [vset vget].
  - now rewrite String.eqb_refl.
  - destruct (String.eqb_spec g f) as [->|Hne]; cbn [vget].
    + now rewrite String.eqb_refl.
    + destruct (String.eqb_spec g f); [contradiction|exact IH].
Qed.

Lemma vget_int_valuation fs : forall ns f,
  ~ In f (names fs) -> vget (int_valuation fs ns) f = None.
Proof.
  unfold int_valuation. induction fs as [|[[g w] e] fs IH]; intros ns f Hn; [reflexivity|].
  destruct ns as [|n ns]; [reflexivity|]. cbn [names map combine vget fst] in *.
  destruct (String.eqb_spec g f) as [->|Hne]; [exfalso; apply Hn; now left|].
  apply IH. intros Hin. apply Hn. now right.
Qed.

(* ---- Marshal side ---- *)
Definition field_bytes (v : valuation) (x : ifield) : list N :=
  int_bytes (snd (fst x)) (snd x) (vint v (fst (fst x))).

Lemma mops_run_ints wc ms : forall fs p0 d0 v,
  int_fields ms = Some fs ->
  mops_run wc {| ms_p := p0; ms_d := d0; ms_v := v |} ms =
  Ok {| ms_p := p0 ++ List.concat (map (field_bytes v) fs); ms_d := d0; ms_v := v |}.
Proof.
  induction ms as [|m ms IH]; intros fs p0 d0 v H.
  - cbn in H. injection H as <-. cbn. now rewrite app_nil_r.
  - cbn [int_fields] in H. destruct m; try discriminate. destruct s; try discriminate.
    destruct (int_fields ms) as [l|] eqn:E; [|discriminate]. injection H as <-.
    cbn [mops_run mop_step emit ms_p ms_d ms_v bind].
    rewrite (IH l) by reflexivity. cbn [map List.concat field_bytes fst snd].
    now rewrite <- app_assoc.
Qed.

Lemma vint_int_valuation fs : forall ns, NoDup (names fs) -> List.length fs = List.length ns ->
  map (fun x => vint (int_valuation fs ns) (fst (fst x))) fs = ns.
Proof.
  unfold int_valuation.
  induction fs as [|[[f w] e] fs IH]; intros [|n ns] Hnd Hlen; try discriminate; [reflexivity|].
  cbn [names map] in Hnd. apply NoDup_cons_iff in Hnd. destruct Hnd as [Hnin Hnd].
  cbn [map combine fst snd]. f_equal.
  - unfold vint. cbn [vget]. now rewrite String.eqb_refl.
  - assert (Hl : List.length fs = List.length ns) by (cbn in Hlen; lia).
    transitivity (map (fun x => vint (combine (map (fun x0 : ifield => fst (fst x0)) fs) (map FInt ns)) (fst (fst x))) fs);
      [|exact (IH ns Hnd Hl)].
    apply map_ext_in. intros [[g w'] e'] Hin. cbn [fst]. unfold vint. cbn [vget].
    destruct (String.eqb_spec f g) as [->|Hne]; [|reflexivity].
    exfalso. apply Hnin. apply in_map_iff. exists (g, w', e'). split; [reflexivity|exact Hin].
Qed.

Definition wire_of (fs : list ifield) (ns : list N) : list N :=
  List.concat (map (fun '(x, n) => int_bytes (snd (fst x)) (snd x) n) (combine fs ns)).

Lemma field_bytes_wire fs : forall ns, NoDup (names fs) -> List.length fs = List.length ns ->
  List.concat (map (field_bytes (int_valuation fs ns)) fs) = wire_of fs ns.
Proof.
  intros ns Hnd Hlen. unfold wire_of. f_equal.
  pose proof (vint_int_valuation fs ns Hnd Hlen) as Hv.
  revert Hv. generalize (int_valuation fs ns) as v. intros v Hv.
  clear Hnd. revert ns Hlen Hv.
  induction fs as [|x fs IH]; intros [|n ns] Hlen Hv; try discriminate; [reflexivity|].
  cbn [map combine] in *. injection Hv as Hn Hv. f_equal.
  - unfold field_bytes. now rewrite Hn.
  - apply IH; [cbn in Hlen; lia|exact Hv].
Qed.

Lemma int_bytes_length w e n : List.length (int_bytes w e n) = w.
Proof. destruct e; cbn [int_bytes]; [apply length_le_bytes | apply length_be_bytes]. Qed.

Lemma int_bytes_wf w e n : wf_bytes (int_bytes w e n).
Proof. destruct e; cbn [int_bytes]; [apply wf_le_bytes | apply wf_be_bytes]. Qed.

Lemma wire_length fs : forall ns, List.length fs = List.length ns -> lenN (wire_of fs ns) = total_width fs.
Proof.
  unfold wire_of. induction fs as [|[[f w] e] fs IH]; intros [|n ns] H; try discriminate; [reflexivity|].
  cbn [combine map List.concat total_width fold_right fst snd]. rewrite lenN_app.
  unfold lenN at 1. rewrite int_bytes_length. fold (total_width fs).
  rewrite (IH ns) by (cbn in H; lia). reflexivity.
Qed.

Lemma wire_wf fs : forall ns, wf_bytes (wire_of fs ns).
Proof.
  unfold wire_of. induction fs as [|[[f w] e] fs IH]; intros [|n ns]; try constructor.
  cbn [combine map List.concat fst snd]. apply wf_bytes_app. split; [apply int_bytes_wf|apply IH].
Qed.

Lemma Forall2_length {A B} (P : A -> B -> Prop) l1 l2 : Forall2 P l1 l2 -> List.length l1 = List.length l2.
Proof. induction 1; simpl; congruence. Qed.

(* truncation to the declared widths changes nothing when the values fit *)
Lemma vset_same_int v f n : vget v f = Some (FInt n) -> vset v f (FInt n) = v.
Proof.
  induction v as [|[g y] v IH]; cbn [vget vset]; [discriminate|].
  destruct (String.eqb_spec g f) as [->|Hne]; intros H.
  - injection H as ->. reflexivity.
  - f_equal. now apply IH.
Qed.

Lemma truncate_decl_fit fs : forall decl ns v,
  decl_matches fs decl = true -> values_fit fs ns ->
  (forall x n, In (x, n) (combine fs ns) -> vget v (fst (fst x)) = Some (FInt n)) ->
  truncate_decl decl v = v.
Proof.
  induction fs as [|[[f w] e] fs IH]; intros decl ns v Hd Hfit Hv.
  - destruct decl; [reflexivity|discriminate].
  - destruct decl as [|[g t] decl]; [discriminate|]. cbn [decl_matches] in Hd.
    destruct t; try discriminate.
    apply andb_true_iff in Hd. destruct Hd as [Hd Hd3]. apply andb_true_iff in Hd. destruct Hd as [Hd1 Hd2].
    apply String.eqb_eq in Hd1. apply Nat.eqb_eq in Hd2. subst g w0.
    inversion Hfit as [|? n ? ns' Hn Hfit']; subst.
    cbn [truncate_decl].
    assert (Hf : vget v f = Some (FInt n)) by (apply (Hv (f, w, e) n); now left).
    rewrite Hf. cbn [fst snd] in Hn. rewrite N.mod_small by exact Hn.
    rewrite vset_same_int by exact Hf.
    apply (IH decl ns' v Hd3 Hfit'). intros x m Hin. apply Hv. now right.
Qed.

Lemma vget_int_valuation_in fs : forall ns, NoDup (names fs) ->
  forall x n, In (x, n) (combine fs ns) -> vget (int_valuation fs ns) (fst (fst x)) = Some (FInt n).
Proof.
  unfold int_valuation. induction fs as [|[[f w] e] fs IH]; intros [|m ns] Hnd x n Hin; try contradiction.
  cbn [names map] in Hnd. apply NoDup_cons_iff in Hnd. destruct Hnd as [Hnin Hnd].
  cbn [combine map fst] in *. destruct Hin as [Heq|Hin].
  - injection Heq as <- <-. cbn [vget fst]. now rewrite String.eqb_refl.
  - cbn [vget]. destruct (String.eqb_spec f (fst (fst x))) as [Heq|Hne].
    + exfalso. apply Hnin. rewrite Heq. apply in_map_iff. exists x. split; [reflexivity|].
      now apply in_combine_l in Hin.
    + now apply IH.
Qed.

(* ---- the blocks ---- *)
Lemma be16_words_of_stream bs : wf_bytes bs -> Nat.even (List.length bs) = true ->
  flat_map be16 (words_of_stream bs) = bs.
Proof.
  induction bs as [|b|b0 b1 rest IH] using words_of_stream_ind; intros H Hev.
  - reflexivity.
  - discriminate.
  - inversion H as [|? ? Hb0 H']; subst. inversion H' as [|? ? Hb1 H'']; subst.
    cbn [words_of_stream flat_map]. rewrite IH by (auto; cbn in Hev; exact Hev).
    assert (E : be16 (N.lor (N.shiftl b0 8) b1) = [b0; b1]).
    { unfold be16, be_bytes. cbn [le_bytes rev app].
      assert (Hl : N.lor (N.shiftl b0 8) b1 = b0 * 256 + b1).
      { destruct (word_facts b0 b1 Hb0 Hb1) as [Hw _]. exact Hw. }
      rewrite Hl.
      assert (H1 : (b0 * 256 + b1) mod 256 = b1).
      { rewrite N.add_comm, N.mod_add by lia. now apply N.mod_small. }
      assert (H2 : (b0 * 256 + b1) / 256 = b0).
      { rewrite N.add_comm, N.div_add by lia. rewrite N.div_small by exact Hb1. lia. }
      rewrite H1, H2. rewrite N.mod_small by exact Hb0. reflexivity. }
    rewrite E. reflexivity.
Qed.

Lemma words_of_stream_length bs : Nat.even (List.length bs) = true ->
  2 * lenN (words_of_stream bs) = lenN bs.
Proof.
  induction bs as [|b|b0 b1 rest IH] using words_of_stream_ind; intros Hev.
  - reflexivity.
  - discriminate.
  - cbn [words_of_stream]. rewrite !lenN_cons. cbn in Hev. specialize (IH Hev). lia.
Qed.

Lemma params_block P suffix :
  wf_bytes P -> Nat.even (List.length P) = true -> lenN P <= 510 ->
  let p1 := params_add_stream params_new P in
  params_marshal p1 = Ok ([lenN P / 2] ++ P) /\
  params_unmarshal (([lenN P / 2] ++ P) ++ suffix) = Ok (p1, 1 + lenN P) /\
  params_get_bytes p1 = P.
Proof.
  intros Hwf Hev Hlen p1.
  pose proof (words_of_stream_length P Hev) as Hwl.
  assert (Hdom : dom_params p1).
  { apply (params_streams_dom [P]); [now constructor|]. cbn [flat_map]. rewrite app_nil_r. lia. }
  destruct (params_roundtrip p1 suffix Hdom) as [bs [Hm Hu]].
  assert (Hbs : bs = [lenN P / 2] ++ P).
  { unfold params_marshal in Hm. destruct Hdom as [Hwc [Hmax _]]. subst p1.
    unfold params_add_stream, params_new in *. cbn [p_wc p_words app] in *.
    rewrite N.eqb_refl in Hm. cbn [negb] in Hm.
    assert (Hw : wrap8 (lenN (words_of_stream P)) = lenN P / 2).
    { unfold wrap8. rewrite N.mod_small by lia. rewrite <- Hwl.
      rewrite N.mul_comm, N.div_mul by lia. reflexivity. }
    rewrite Hw in Hm.
    destruct (N.ltb_spec 0 (lenN P / 2)) as [Hpos|Hz].
    - rewrite be16_words_of_stream in Hm by assumption. now injection Hm as <-.
    - assert (lenN P = 0) by (rewrite <- Hwl in *; rewrite N.mul_comm, N.div_mul in Hz by lia; lia).
      destruct P; [|unfold lenN in *; cbn in *; lia]. now injection Hm as <-. }
  subst bs. repeat split.
  - exact Hm.
  - rewrite Hu. f_equal. f_equal. rewrite lenN_app. reflexivity.
  - now apply params_stream_bytes.
Qed.

(* ---- Unmarshal side: the reading loop ---- *)
Definition set_fields (v : valuation) (fs : list ifield) (ns : list N) : valuation :=
  fold_left (fun v xn => vset v (fst (fst (fst xn))) (FInt (snd xn))) (combine fs ns) v.

Lemma read_uint w e n rest : n < 2 ^ (8 * N.of_nat w) ->
  (match e with LE => go_le_uint w (int_bytes w e n ++ rest) | BE => go_be_uint w (int_bytes w e n ++ rest) end) = Ok n.
Proof.
  intros H. destruct e; cbn [int_bytes].
  - rewrite go_le_uint_app. now rewrite N.mod_small.
  - rewrite go_be_uint_app. now rewrite N.mod_small.
Qed.

Lemma read_fields fs : forall ns pre rest ph D st tail,
  values_fit fs ns -> forallb (fun x => Nat.ltb 0 (snd (fst x))) fs = true ->
  lenN pre = us_off st ->
  uops_run (pre ++ wire_of fs ns ++ rest, ph) D st (flat_map read_triple fs ++ tail) =
  uops_run (pre ++ wire_of fs ns ++ rest, ph) D
    {| us_off := us_off st + total_width fs; us_read := us_read st; us_env := us_env st;
       us_v := set_fields (us_v st) fs ns |} tail.
Proof.
  induction fs as [|[[f w] e] fs IH]; intros ns pre rest ph D st tail Hfit Hpos Hpre.
  - inversion Hfit; subst. cbn [flat_map app total_width fold_right set_fields combine fold_left].
    rewrite N.add_0_r. destruct st; reflexivity.
  - inversion Hfit as [|? n ? ns' Hn Hfit']; subst. cbn [fst snd] in Hn.
    cbn [forallb fst snd] in Hpos. apply andb_true_iff in Hpos. destruct Hpos as [Hw Hpos].
    apply Nat.ltb_lt in Hw.
    cbn [flat_map read_triple app]. unfold wire_of. cbn [combine map List.concat fst snd].
    fold (wire_of fs ns').
    set (S := pre ++ (int_bytes w e n ++ wire_of fs ns') ++ rest).
    (* guard *)
    cbn [uops_run uop_step stream_of bind].
    assert (HS : slen (S, ph) = lenN pre + N.of_nat w + lenN (wire_of fs ns') + lenN rest).
    { unfold slen, S. cbn [fst]. rewrite !lenN_app. unfold lenN at 2. rewrite int_bytes_length. lia. }
    cbn [leval]. rewrite HS.
    destruct (Z.ltb_spec (Z.of_N (lenN pre + N.of_nat w + lenN (wire_of fs ns') + lenN rest))
                (Z.of_N (us_off st) + Z.of_N (N.of_nat w))) as [Hlt|Hge]; [lia|].
    (* read *)
    cbn [uops_run uop_step stream_of bind window leval].
    destruct (Z.ltb_spec (Z.of_N (us_off st) + Z.of_N (N.of_nat w)) 0) as [Hneg|_]; [lia|].
    replace (Z.to_N (Z.of_N (us_off st) + Z.of_N (N.of_nat w))) with (lenN pre + lenN (int_bytes w e n))
      by (unfold lenN at 2; rewrite int_bytes_length; lia).
    rewrite <- Hpre.
    replace (fst (S, ph) ++ snd (S, ph)) with (pre ++ int_bytes w e n ++ (wire_of fs ns' ++ rest ++ ph))
      by (unfold S; cbn [fst snd]; now rewrite <- !app_assoc).
    rewrite go_slice_app_mid. cbn [bind].
    rewrite <- (app_nil_r (int_bytes w e n)). rewrite read_uint by exact Hn. cbn [bind].
    rewrite !Hpre.
    (* advance *)
    cbn [uops_run uop_step bind leval]. unfold with_v. cbn [us_off us_read us_env us_v].
    replace (Z.to_N (Z.of_N (us_off st) + Z.of_N (N.of_nat w))) with (us_off st + N.of_nat w) by lia.
    (* induction hypothesis on the longer prefix *)
    unfold S.
    replace (pre ++ (int_bytes w e n ++ wire_of fs ns') ++ rest)
      with ((pre ++ int_bytes w e n) ++ wire_of fs ns' ++ rest) by now rewrite <- !app_assoc.
    rewrite (IH ns' (pre ++ int_bytes w e n) rest ph D
               {| us_off := us_off st + N.of_nat w; us_read := us_read st; us_env := us_env st;
                  us_v := vset (us_v st) f (FInt n) |} tail Hfit' Hpos).
    + cbn [us_off us_read us_env us_v total_width fold_right fst snd set_fields combine fold_left].
      fold (total_width fs). rewrite N.add_assoc. reflexivity.
    + cbn [us_off]. rewrite lenN_app. unfold lenN at 2. rewrite int_bytes_length. lia.
Qed.

(* writing every field of the zero valuation gives the valuation *)
Lemma set_fields_zero fs : forall ns decl,
  decl_matches fs decl = true -> NoDup (names fs) -> List.length fs = List.length ns ->
  set_fields (map (fun ft => (fst ft, zero_of (snd ft))) decl) fs ns = int_valuation fs ns.
Proof.
  unfold set_fields, int_valuation.
  assert (G : forall fs ns decl done,
    decl_matches fs decl = true -> NoDup (names fs) -> List.length fs = List.length ns ->
    (forall x, In x fs -> ~ In (fst (fst x)) (map fst done)) ->
    fold_left (fun v xn => vset v (fst (fst (fst xn))) (FInt (snd xn))) (combine fs ns)
      (done ++ map (fun ft => (fst ft, zero_of (snd ft))) decl)
    = done ++ combine (names fs) (map FInt ns)).
  { clear. induction fs as [|[[f w] e] fs IH]; intros ns decl done Hd Hnd Hlen Hfresh.
    - destruct decl; [|discriminate]. destruct ns; [|discriminate]. reflexivity.
    - destruct decl as [|[g t] decl]; [discriminate|]. destruct ns as [|n ns]; [discriminate|].
      cbn [decl_matches] in Hd. destruct t; try discriminate.
      apply andb_true_iff in Hd. destruct Hd as [Hd Hd3]. apply andb_true_iff in Hd. destruct Hd as [Hd1 _].
      apply String.eqb_eq in Hd1. subst g.
      cbn [names map] in Hnd. apply NoDup_cons_iff in Hnd. destruct Hnd as [Hnin Hnd].
      cbn [combine fold_left map fst snd names zero_of].
      assert (Hset : vset (done ++ (f, FInt 0) :: map (fun ft => (fst ft, zero_of (snd ft))) decl) f (FInt n)
                     = (done ++ [(f, FInt n)]) ++ map (fun ft => (fst ft, zero_of (snd ft))) decl).
      { assert (Hf : ~ In f (map fst done)) by (apply (Hfresh (f, w, e)); now left).
        clear - Hf. induction done as [|[g y] done IH]; cbn [app vset].
        - now rewrite String.eqb_refl.
        - cbn [map fst] in Hf. destruct (String.eqb_spec g f) as [->|Hne]; [exfalso; apply Hf; now left|].
          f_equal. apply IH. intros H. apply Hf. now right. }
      rewrite Hset. rewrite (IH ns decl (done ++ [(f, FInt n)]) Hd3 Hnd).
      + now rewrite <- app_assoc.
      + cbn in Hlen. lia.
      + intros x Hx. rewrite map_app, in_app_iff. cbn [map fst]. intros [Hin|[Heq|[]]].
        * apply (Hfresh x); [now right|exact Hin].
        * apply Hnin. rewrite Heq. apply in_map_iff. exists x. split; [reflexivity|exact Hx]. }
  intros ns decl Hd Hnd Hlen. apply (G fs ns decl [] Hd Hnd Hlen). intros x _ [].
Qed.

(* ---- the theorem ---- *)
Theorem simple_fixed_roundtrips c : simple_fixed c = true -> roundtrips c.
Proof.
  unfold simple_fixed. intros H fs Hfs ns Hfit v. rewrite Hfs in H.
  apply andb_true_iff in H. destruct H as [Hflags Hrest].
  apply andb_true_iff in Hflags. destruct Hflags as [Hflags Htrans].
  apply andb_true_iff in Hflags. destruct Hflags as [Handx Hpf]. apply negb_true_iff in Handx.
  apply andb_true_iff in Hrest. destruct Hrest as [Hrest Hpos].
  apply andb_true_iff in Hrest. destruct Hrest as [Hrest H510].
  apply andb_true_iff in Hrest. destruct Hrest as [Hrest Heven].
  apply andb_true_iff in Hrest. destruct Hrest as [Hrest Hdecl].
  apply andb_true_iff in Hrest. destruct Hrest as [Hus Hnodup].
  apply uops_eqb_eq in Hus.
  assert (Hnd : NoDup (names fs)) by (eapply nodupb_NoDup; [apply String.eqb_eq|exact Hnodup]).
  pose proof (Forall2_length _ _ _ Hfit) as Hlen.
  apply N.leb_le in H510.
  set (P := wire_of fs ns).
  assert (HPlen : lenN P = total_width fs) by (apply wire_length; exact Hlen).
  assert (HPwf : wf_bytes P) by apply wire_wf.
  assert (HPev : Nat.even (List.length P) = true).
  { apply N.even_spec in Heven. destruct Heven as [k Hk]. apply Nat.even_spec.
    exists (N.to_nat k). unfold lenN in HPlen. lia. }
  destruct (params_block P [0; 0] HPwf HPev ltac:(lia)) as [Hpm [Hpu Hpg]].
  exists ([total_width fs / 2] ++ P ++ [0; 0]), {| cs_params := params_add_stream params_new P; cs_data := data_add data_new [] |}.
  split; [|split; [|reflexivity]].
  - (* Marshal *)
    unfold cmd_marshal. rewrite Handx. cbn [cstate_new cs_params cs_data].
    rewrite (mops_run_ints _ _ fs [] [] v Hfs). cbn [bind ms_p ms_d ms_v app].
    assert (HP : List.concat (map (field_bytes v) fs) = P) by (unfold v; now apply field_bytes_wire).
    rewrite !HP.
    rewrite (truncate_decl_fit fs (cd_decl c) ns v Hdecl Hfit (vget_int_valuation_in fs ns Hnd)).
    rewrite Hpm. cbn [bind]. rewrite HPlen.
    unfold data_marshal, data_add, data_new. cbn [d_bc d_bytes app].
    change (le16 (wrap16 (lenN (@nil N)))) with [0; 0]. reflexivity.
  - (* Unmarshal *)
    unfold cmd_unmarshal.
    replace ([total_width fs / 2] ++ P ++ [0; 0]) with (([lenN P / 2] ++ P) ++ [0; 0])
      by (rewrite HPlen; now rewrite <- app_assoc).
    rewrite Hpu. cbn [bind]. rewrite Hpg.
    replace (1 + lenN P) with (lenN ([lenN P / 2] ++ P)) by (rewrite lenN_app; reflexivity).
    rewrite go_from_app. cbn [bind].
    change (data_unmarshal [0; 0]) with (Ok (mk_data 0 [], 2)). cbn [bind data_get_bytes d_bytes].
    change (lenN (@nil N) =? 0) with true. cbn [bind andb].
    (* the early return: an empty parameter block means no fields at all *)
    destruct fs as [|x fs'] eqn:Efs.
    + inversion Hfit; subst. cbn [wire_of combine map List.concat] in *.
      destruct (cd_decl c) eqn:Ed; [|discriminate].
      assert (Hz : zero_valuation c = []) by (unfold zero_valuation; now rewrite Ed).
      rewrite Hz. unfold v, int_valuation. cbn.
      destruct (cd_empty c); cbn; try reflexivity.
      rewrite Hus. cbn. reflexivity.
    + assert (HPpos : 0 < lenN P).
      { rewrite HPlen. cbn [total_width fold_right]. cbn [forallb] in Hpos.
        apply andb_true_iff in Hpos. destruct Hpos as [Hp _]. apply Nat.ltb_lt in Hp. lia. }
      assert (Hearly : (match cd_empty c with
                        | EmptyNone => false
                        | EmptyParams => lenN P =? 0
                        | EmptyBoth => (lenN P =? 0) && true
                        end) = false).
      { destruct (cd_empty c); [reflexivity| |]; destruct (N.eqb_spec (lenN P) 0); try reflexivity; lia. }
      rewrite Hearly.
      rewrite Hus. unfold expected_unmarshal.
      cbn [uops_run uop_step bind us_read us_env us_v].
      pose proof (read_fields (x :: fs') ns [] [] (repeatN 0 (N.to_nat (append_cap (lenN P) - lenN P))) ([], [])
                    {| us_off := 0; us_read := lenN ([lenN P / 2] ++ P); us_env := [(wc_var, p_wc (params_add_stream params_new P))]; us_v := zero_valuation c |}
                    [UReset SD] Hfit Hpos eq_refl) as Hrd.
      cbn [app us_off us_read us_env us_v] in Hrd. rewrite app_nil_r in Hrd. fold P in Hrd.
      change (lenN (lenN P / 2 :: P)) with (lenN ([lenN P / 2] ++ P)) in Hrd.
      rewrite Hrd. cbn [uops_run uop_step bind us_v].
      unfold zero_valuation. rewrite set_fields_zero by assumption. reflexivity.
Qed.

(* ---- slots: the wire image of the fields is the concatenation of one slot per field, in declared
   order, each exactly as wide as its type; a field's value appears nowhere else ---- *)
Theorem wire_slots fs1 : forall x fs2 ns1 n ns2, List.length fs1 = List.length ns1 ->
  wire_of (fs1 ++ x :: fs2) (ns1 ++ n :: ns2) =
  wire_of fs1 ns1 ++ int_bytes (snd (fst x)) (snd x) n ++ wire_of fs2 ns2 /\
  lenN (wire_of fs1 ns1) = total_width fs1 /\
  List.length (int_bytes (snd (fst x)) (snd x) n) = snd (fst x).
Proof.
  intros x fs2 ns1 n ns2 Hlen. split; [|split; [now apply wire_length | apply int_bytes_length]].
  unfold wire_of. revert ns1 Hlen.
  induction fs1 as [|y fs1 IH]; intros [|m ns1] Hlen; try discriminate.
  - cbn [app combine map List.concat]. destruct x as [[f w] e]. reflexivity.
  - cbn [app combine map List.concat]. rewrite IH by (cbn in Hlen; lia).
    destruct y as [[g w'] e']. now rewrite <- !app_assoc.
Qed.

(* changing one field changes only the bytes of that field's slot *)
Corollary slot_independence fs1 x fs2 ns1 n n' ns2 : List.length fs1 = List.length ns1 ->
  exists before after,
    wire_of (fs1 ++ x :: fs2) (ns1 ++ n :: ns2) = before ++ int_bytes (snd (fst x)) (snd x) n ++ after /\
    wire_of (fs1 ++ x :: fs2) (ns1 ++ n' :: ns2) = before ++ int_bytes (snd (fst x)) (snd x) n' ++ after /\
    lenN before = total_width fs1.
Proof.
  intros Hlen. exists (wire_of fs1 ns1), (wire_of fs2 ns2).
  destruct (wire_slots fs1 x fs2 ns1 n ns2 Hlen) as [H1 [H2 _]].
  destruct (wire_slots fs1 x fs2 ns1 n' ns2 Hlen) as [H3 _]. auto.
Qed.
