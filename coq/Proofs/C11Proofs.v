(* C11 proofs: the NBT session transport preserves message boundaries. *)
From Coq Require Import List NArith ZArith Lia Bool ZifyN ZifyNat ZifyBool.
From Mant Require Import Prim.R Prim.Bytes Model.NbtFrame Spec.C11 Gen.ConstsC11.
Import ListNotations.
Open Scope N_scope.

Ltac Zify.zify_post_hook ::= Z.div_mod_to_equations.

(* ------------------------------------------------------------------ *)
(* io.ReadFull over a segmented stream depends only on the concatenation of the segments *)

Lemma lenN_length {A} (l : list A) : N.to_nat (lenN l) = length l.
Proof. unfold lenN. lia. Qed.

Lemma read_full_ok : forall s need, need <= lenN (concat s) ->
  exists s', read_full need s = (Some (firstn (N.to_nat need) (concat s)), s')
             /\ concat s' = skipn (N.to_nat need) (concat s).
Proof.
  induction s as [|seg rest IH]; intros need Hn.
  - assert (need = 0) by (unfold lenN in Hn; simpl in Hn; lia). subst need.
    exists []. split; reflexivity.
  - cbn [read_full]. destruct (N.eqb_spec need 0) as [->|Hz].
    + exists (seg :: rest). split; reflexivity.
    + cbn [concat] in *. rewrite lenN_app in Hn.
      destruct (N.leb_spec (lenN seg) need) as [Hle|Hgt].
      * destruct (IH (need - lenN seg)) as [s' [E C]]; [lia|].
        rewrite E. exists s'. split.
        -- f_equal. f_equal. rewrite firstn_app.
           rewrite (@firstn_all2 _ (N.to_nat need) seg) by (unfold lenN in *; lia).
           f_equal. f_equal. unfold lenN in *. lia.
        -- rewrite C. rewrite skipn_app.
           rewrite (@skipn_all2 _ (N.to_nat need) seg) by (unfold lenN in *; lia). cbn [app].
           f_equal. unfold lenN in *. lia.
      * exists (skipn (N.to_nat need) seg :: rest). split.
        -- f_equal. f_equal. rewrite firstn_app.
           replace (N.to_nat need - length seg)%nat with 0%nat by (unfold lenN in *; lia).
           cbn [firstn]. now rewrite app_nil_r.
        -- cbn [concat]. rewrite skipn_app.
           replace (N.to_nat need - length seg)%nat with 0%nat by (unfold lenN in *; lia).
           reflexivity.
Qed.

Lemma read_full_eof : forall s need, lenN (concat s) < need -> read_full need s = (None, []).
Proof.
  induction s as [|seg rest IH]; intros need Hn.
  - cbn [read_full]. destruct (N.eqb_spec need 0) as [->|Hz]; [unfold lenN in Hn; simpl in Hn; lia|reflexivity].
  - cbn [read_full]. cbn [concat] in Hn. rewrite lenN_app in Hn.
    destruct (N.eqb_spec need 0) as [->|Hz]; [lia|].
    destruct (N.leb_spec (lenN seg) need) as [Hle|Hgt]; [|lia].
    rewrite IH by lia. reflexivity.
Qed.

(* ------------------------------------------------------------------ *)
(* The receiver written over the flat byte string (proof device) *)

Definition flat_receive (w : list N) : R (list N) * list N :=
  if lenN w <? 4 then (Err, []) else
  match nbt_parse_header (firstn 4 w) with
  | Ok (t, len) =>
      if negb (t =? 0) then (Err, skipn 4 w)
      else if lenN (skipn 4 w) <? len then (Err, [])
      else (Ok (firstn (N.to_nat len) (skipn 4 w)), skipn (N.to_nat len) (skipn 4 w))
  | Err => (Err, skipn 4 w)
  | Panic => (Panic, skipn 4 w)
  end.

Fixpoint flat_recv_n (n : nat) (w : list N) : list (R (list N)) * list N :=
  match n with
  | O => ([], w)
  | S n' =>
      let (r, w1) := flat_receive w in
      let (rs, w2) := flat_recv_n n' w1 in
      (r :: rs, w2)
  end.

Lemma receive_flat : forall s,
  flat_receive (concat s) = (fst (nbt_receive true s), concat (snd (nbt_receive true s))).
Proof.
  intros s. unfold nbt_receive, flat_receive. cbn [negb].
  destruct (N.ltb_spec (lenN (concat s)) 4) as [Hlt|Hge].
  - rewrite read_full_eof by lia. reflexivity.
  - destruct (read_full_ok s 4) as [s1 [E1 C1]]; [lia|].
    rewrite E1. change (N.to_nat 4) with 4%nat in *.
    destruct (nbt_parse_header (firstn 4 (concat s))) as [[t len]| |]; cbn [fst snd]; try (now rewrite C1).
    destruct (negb (t =? 0)); cbn [fst snd]; [now rewrite C1|].
    rewrite <- C1.
    destruct (N.ltb_spec (lenN (concat s1)) len) as [Hl|Hl].
    + rewrite read_full_eof by lia. reflexivity.
    + destruct (read_full_ok s1 len) as [s2 [E2 C2]]; [lia|].
      rewrite E2. cbn [fst snd]. now rewrite C2.
Qed.

Lemma recv_n_flat : forall n s,
  flat_recv_n n (concat s) = (fst (recv_n true n s), concat (snd (recv_n true n s))).
Proof.
  induction n as [|n IH]; intros s; cbn [recv_n flat_recv_n]; [reflexivity|].
  rewrite receive_flat.
  destruct (nbt_receive true s) as [r s1]. cbn [fst snd].
  rewrite IH. destruct (recv_n true n s1) as [rs s2]. reflexivity.
Qed.

(* Segmentation independence, for arbitrary (also malformed) streams *)
Lemma recv_n_segmentation : forall n s1 s2, concat s1 = concat s2 ->
  fst (recv_n true n s1) = fst (recv_n true n s2)
  /\ concat (snd (recv_n true n s1)) = concat (snd (recv_n true n s2)).
Proof.
  intros n s1 s2 H.
  pose proof (recv_n_flat n s1) as H1. pose proof (recv_n_flat n s2) as H2.
  rewrite H in H1. rewrite H1 in H2. inversion H2. split; reflexivity.
Qed.

(* ------------------------------------------------------------------ *)
(* Header construction and parsing *)

Lemma session_message_is_zero : c_nbt_session_message = 0.
Proof. reflexivity. Qed.

Lemma nbt_header_length len : length (nbt_header len) = 4%nat.
Proof. reflexivity. Qed.

Lemma nbt_header_rfc len : len <= nbt_max_len -> nbt_header len = rfc_header len.
Proof.
  unfold nbt_max_len. intros H. unfold nbt_header, rfc_header. rewrite session_message_is_zero.
  change (0 mod 256) with 0.
  unfold be_bytes. cbn [le_bytes rev app].
  destruct (N.ltb_spec len 65536) as [Hl|Hl].
  - f_equal. f_equal; [lia|]. f_equal; [lia|]. f_equal. lia.
  - f_equal. f_equal; [lia|]. f_equal; [lia|]. f_equal. lia.
Qed.

Lemma parse_header_4 t f a b :
  nbt_parse_header [t; f; a; b] = Ok (t, (f mod 2) * 65536 + a * 256 + b).
Proof. reflexivity. Qed.

Lemma parse_nbt_header len : len <= nbt_max_len ->
  nbt_parse_header (nbt_header len) = Ok (0, len).
Proof.
  unfold nbt_max_len. intros H. unfold nbt_header. rewrite session_message_is_zero.
  rewrite parse_header_4. change (0 mod 256) with 0. f_equal. f_equal. lia.
Qed.

Lemma rfc_header_fields len : len <= nbt_max_len ->
  length (rfc_header len) = 4%nat /\ wf_bytes (rfc_header len)
  /\ rfc_header_length (rfc_header len) = Some len.
Proof.
  unfold nbt_max_len. intros H. unfold rfc_header, be_bytes. cbn [le_bytes rev app].
  split; [reflexivity|]. split.
  - repeat constructor; try (destruct (len <? 65536)); lia.
  - unfold rfc_header_length, be_val. cbn [rev app le_val].
    destruct (N.ltb_spec len 65536) as [Hl|Hl]; cbn [N.eqb N.ltb N.compare andb Pos.compare Pos.compare_cont];
      f_equal; lia.
Qed.

(* ------------------------------------------------------------------ *)
(* Send *)

Lemma nbt_send_frame p :
  nbt_send true p = match rfc_frame p with Some f => Ok (f, lenN f) | None => Err end.
Proof.
  unfold nbt_send, rfc_frame. cbn [negb].
  destruct (N.ltb_spec 131071 (lenN p)) as [H|H];
    destruct (N.leb_spec (lenN p) nbt_max_len) as [H'|H']; unfold nbt_max_len in *; try lia.
  - reflexivity.
  - rewrite nbt_header_rfc by (unfold nbt_max_len; lia). reflexivity.
Qed.

Lemma nbt_send_ok p : framable p ->
  nbt_send true p = Ok (rfc_header (lenN p) ++ p, 4 + lenN p).
Proof.
  intros H. rewrite nbt_send_frame. unfold rfc_frame, framable in *.
  destruct (N.leb_spec (lenN p) nbt_max_len); [|lia].
  f_equal. f_equal. rewrite lenN_app. f_equal.
Qed.

Lemma nbt_send_refuses c p : nbt_max_len < lenN p -> nbt_send c p = Err.
Proof.
  unfold nbt_max_len, nbt_send. intros H. destruct c; cbn [negb]; [|reflexivity].
  destruct (N.ltb_spec 131071 (lenN p)); [reflexivity|lia].
Qed.

Lemma nbt_send_unconnected p : nbt_send false p = Err.
Proof. reflexivity. Qed.

Lemma send_all_wire ps : Forall framable ps -> send_all ps = Ok (rfc_wire ps).
Proof.
  induction 1 as [|p rest Hp _ IH]; [reflexivity|].
  cbn [send_all rfc_wire]. rewrite nbt_send_ok by assumption. cbn [bind]. rewrite IH. cbn [bind].
  now rewrite <- app_assoc.
Qed.

Lemma send_all_ok_framable ps w : send_all ps = Ok w -> Forall framable ps.
Proof.
  revert w. induction ps as [|p rest IH]; intros w H; [constructor|].
  cbn [send_all] in H.
  destruct (N.leb_spec (lenN p) nbt_max_len) as [Hp|Hp].
  - constructor; [exact Hp|].
    rewrite nbt_send_ok in H by exact Hp. cbn [bind] in H.
    destruct (send_all rest) as [w'| |]; cbn [bind] in H; try discriminate. eapply IH; reflexivity.
  - rewrite nbt_send_refuses in H by exact Hp. discriminate.
Qed.

(* ------------------------------------------------------------------ *)
(* The flat receiver on streams of frames *)

Lemma firstn_len_app {A} (h x : list A) n : length h = n -> firstn n (h ++ x) = h.
Proof. intros <-. rewrite firstn_app, Nat.sub_diag, firstn_all. cbn [firstn]. apply app_nil_r. Qed.

Lemma skipn_len_app {A} (h x : list A) n : length h = n -> skipn n (h ++ x) = x.
Proof. intros <-. rewrite skipn_app, Nat.sub_diag, skipn_all. reflexivity. Qed.

Lemma flat_receive_frame p tail : framable p ->
  flat_receive (rfc_header (lenN p) ++ p ++ tail) = (Ok p, tail).
Proof.
  intros Hp. rewrite <- nbt_header_rfc by exact Hp.
  pose proof (parse_nbt_header (lenN p) Hp) as Hparse.
  pose proof (nbt_header_length (lenN p)) as Hh.
  set (h := nbt_header (lenN p)) in *. clearbody h.
  unfold flat_receive.
  destruct (N.ltb_spec (lenN (h ++ p ++ tail)) 4) as [H|H].
  { rewrite lenN_app in H. unfold lenN in H at 1. rewrite Hh in H. lia. }
  rewrite (firstn_len_app h _ 4 Hh), Hparse. cbn [N.eqb negb].
  rewrite (skipn_len_app h _ 4 Hh).
  destruct (N.ltb_spec (lenN (p ++ tail)) (lenN p)) as [H'|H'].
  { rewrite lenN_app in H'. lia. }
  rewrite lenN_length, (firstn_len_app p tail _ eq_refl), (skipn_len_app p tail _ eq_refl).
  reflexivity.
Qed.

(* a strict prefix of a frame: an error, and the stream is exhausted *)
Lemma flat_receive_partial p k : framable p -> (k < 4 + length p)%nat ->
  flat_receive (firstn k (rfc_header (lenN p) ++ p)) = (Err, []).
Proof.
  intros Hp Hk. rewrite <- nbt_header_rfc by exact Hp.
  pose proof (parse_nbt_header (lenN p) Hp) as Hparse.
  pose proof (nbt_header_length (lenN p)) as Hh.
  set (h := nbt_header (lenN p)) in *. clearbody h.
  unfold flat_receive.
  destruct (N.ltb_spec (lenN (firstn k (h ++ p))) 4) as [H|H]; [reflexivity|].
  assert (Hk4 : (4 <= k)%nat).
  { unfold lenN in H. rewrite firstn_length, app_length, Hh in H. lia. }
  rewrite firstn_app, Hh.
  rewrite (@firstn_all2 _ k h) by (rewrite Hh; lia).
  rewrite (firstn_len_app h _ 4 Hh), Hparse. cbn [N.eqb negb].
  rewrite (skipn_len_app h _ 4 Hh).
  destruct (N.ltb_spec (lenN (firstn (k - 4) p)) (lenN p)) as [H'|H']; [reflexivity|].
  unfold lenN in H'. rewrite firstn_length in H'. lia.
Qed.

Lemma flat_recv_n_S n w :
  flat_recv_n (S n) w =
  (fst (flat_receive w) :: fst (flat_recv_n n (snd (flat_receive w))),
   snd (flat_recv_n n (snd (flat_receive w)))).
Proof.
  cbn [flat_recv_n]. destruct (flat_receive w) as [r w1]. cbn [fst snd].
  destruct (flat_recv_n n w1). reflexivity.
Qed.

Lemma flat_receive_nil : flat_receive [] = (Err, []).
Proof. reflexivity. Qed.

Lemma flat_recv_n_nil n : flat_recv_n n [] = (repeat Err n, []).
Proof.
  induction n as [|n IH]; [reflexivity|].
  rewrite flat_recv_n_S, flat_receive_nil. cbn [fst snd]. rewrite IH. reflexivity.
Qed.

Lemma expected_cons n m ms : expected (S n) (m :: ms) = Ok m :: expected n ms.
Proof. reflexivity. Qed.

Lemma expected_nil n : expected n [] = repeat Err n.
Proof. unfold expected. cbn [map length]. rewrite firstn_nil, Nat.sub_0_r. reflexivity. Qed.

Lemma rfc_header_len4 len : length (rfc_header len) = 4%nat.
Proof. reflexivity. Qed.


Lemma flat_cut : forall ps, Forall framable ps -> forall k n, (k <= length (rfc_wire ps))%nat ->
  fst (flat_recv_n n (firstn k (rfc_wire ps))) = expected n (whole_frames k ps).
Proof.
  induction 1 as [|p rest Hp Hrest IH]; intros k n Hk.
  - cbn [rfc_wire whole_frames]. rewrite firstn_nil, expected_nil, flat_recv_n_nil. reflexivity.
  - destruct n as [|n]; [reflexivity|].
    rewrite flat_recv_n_S. cbn [fst rfc_wire whole_frames].
    cbn [rfc_wire] in Hk. rewrite !app_length, rfc_header_len4 in Hk.
    destruct (Nat.leb_spec (4 + length p) k) as [Hin|Hout].
    + (* the first frame lies inside the prefix *)
      assert (E : firstn k (rfc_header (lenN p) ++ p ++ rfc_wire rest)
                  = rfc_header (lenN p) ++ p ++ firstn (k - (4 + length p)) (rfc_wire rest)).
      { rewrite firstn_app, rfc_header_len4.
        rewrite (@firstn_all2 _ k (rfc_header (lenN p))) by (rewrite rfc_header_len4; lia).
        rewrite firstn_app. rewrite (@firstn_all2 _ (k - 4)%nat p) by lia.
        f_equal. f_equal. f_equal. lia. }
      rewrite E, flat_receive_frame by exact Hp. cbn [fst snd].
      rewrite expected_cons. f_equal. apply IH. lia.
    + (* the prefix ends inside the first frame *)
      assert (E : firstn k (rfc_header (lenN p) ++ p ++ rfc_wire rest)
                  = firstn k (rfc_header (lenN p) ++ p)).
      { rewrite app_assoc, firstn_app.
        replace (k - length (rfc_header (lenN p) ++ p))%nat with 0%nat
          by (rewrite app_length, rfc_header_len4; lia).
        cbn [firstn]. apply app_nil_r. }
      rewrite E, flat_receive_partial by (assumption || lia). cbn [fst snd].
      rewrite flat_recv_n_nil, expected_nil. reflexivity.
Qed.

Lemma whole_frames_all ps : whole_frames (length (rfc_wire ps)) ps = ps.
Proof.
  induction ps as [|p rest IH]; [reflexivity|].
  cbn [rfc_wire whole_frames]. rewrite !app_length, rfc_header_len4.
  destruct (Nat.leb_spec (4 + length p) (4 + (length p + length (rfc_wire rest)))) as [H|H]; [|lia].
  f_equal. replace (4 + (length p + length (rfc_wire rest)) - (4 + length p))%nat
    with (length (rfc_wire rest)) by lia. exact IH.
Qed.

(* ------------------------------------------------------------------ *)
(* Main theorems *)

Theorem cut_thm : forall ps, Forall framable ps ->
  exists w, send_all ps = Ok w /\
    forall k segs n, (k <= length w)%nat -> segmentation_of segs (firstn k w) ->
      fst (recv_n true n segs) = expected n (whole_frames k ps).
Proof.
  intros ps H. exists (rfc_wire ps). split; [apply send_all_wire; exact H|].
  intros k segs n Hk Hseg. unfold segmentation_of in Hseg.
  pose proof (recv_n_flat n segs) as F. rewrite Hseg in F.
  rewrite <- (flat_cut ps H k n Hk). rewrite F. reflexivity.
Qed.

Theorem boundaries_thm : forall ps, Forall framable ps ->
  exists w, send_all ps = Ok w /\
    forall segs n, segmentation_of segs w -> fst (recv_n true n segs) = expected n ps.
Proof.
  intros ps H. destruct (cut_thm ps H) as [w [Hw Hcut]]. exists w. split; [exact Hw|].
  intros segs n Hseg.
  assert (Ew : w = rfc_wire ps) by (rewrite send_all_wire in Hw by exact H; congruence).
  rewrite <- (whole_frames_all ps) at 1. rewrite <- Ew.
  apply Hcut; [lia|]. now rewrite firstn_all.
Qed.

(* after at least as many receives as there were payloads the stream is used up exactly *)
Lemma flat_consumed : forall ps, Forall framable ps -> forall n, (length ps <= n)%nat ->
  snd (flat_recv_n n (rfc_wire ps)) = [].
Proof.
  induction 1 as [|p rest Hp Hrest IH]; intros n Hn.
  - cbn [rfc_wire]. now rewrite flat_recv_n_nil.
  - destruct n as [|n]; [cbn [length] in Hn; lia|].
    rewrite flat_recv_n_S. cbn [snd rfc_wire]. rewrite flat_receive_frame by exact Hp.
    cbn [snd]. apply IH. cbn [length] in Hn. lia.
Qed.

Theorem boundaries_consumed : forall ps segs n, Forall framable ps ->
  segmentation_of segs (rfc_wire ps) -> (length ps <= n)%nat ->
  concat (snd (recv_n true n segs)) = [].
Proof.
  intros ps segs n H Hseg Hn. unfold segmentation_of in Hseg.
  pose proof (recv_n_flat n segs) as F. rewrite Hseg in F.
  pose proof (flat_consumed ps H n Hn) as C. rewrite F in C. exact C.
Qed.

Lemma expected_nth : forall ms n i m,
  nth_error (expected n ms) i = Some (Ok m) -> nth_error ms i = Some m.
Proof.
  induction ms as [|a ms IH]; intros n i m H.
  - rewrite expected_nil in H. apply nth_error_In, repeat_spec in H. discriminate.
  - destruct n as [|n]; [destruct i; discriminate|].
    rewrite expected_cons in H. destruct i as [|i]; cbn [nth_error] in *.
    + congruence.
    + eapply IH; exact H.
Qed.

Lemma whole_frames_nth : forall ps k i m,
  nth_error (whole_frames k ps) i = Some m -> nth_error ps i = Some m.
Proof.
  induction ps as [|p rest IH]; intros k i m H; cbn [whole_frames] in H.
  - destruct i; discriminate.
  - destruct (4 + length p <=? k)%nat; [|destruct i; discriminate].
    destruct i as [|i]; cbn [nth_error] in *; [exact H|]. eapply IH; exact H.
Qed.

(* whatever the cut and the segmentation, the i-th Receive returns the i-th payload or an error *)
Theorem no_fabrication : forall ps w k segs n i m,
  send_all ps = Ok w -> (k <= length w)%nat -> segmentation_of segs (firstn k w) ->
  nth_error (fst (recv_n true n segs)) i = Some (Ok m) -> nth_error ps i = Some m.
Proof.
  intros ps w k segs n i m Hw Hk Hseg Hi.
  pose proof (send_all_ok_framable ps w Hw) as Hf.
  destruct (cut_thm ps Hf) as [w' [Hw' Hcut]].
  assert (w' = w) by congruence. subst w'.
  rewrite (Hcut k segs n Hk Hseg) in Hi.
  eapply whole_frames_nth, expected_nth; exact Hi.
Qed.

Lemma send_all_refuses ps : Exists (fun p => nbt_max_len < lenN p) ps -> send_all ps = Err.
Proof.
  induction 1 as [p rest Hp|p rest Hex IH]; cbn [send_all].
  - rewrite nbt_send_refuses by exact Hp. reflexivity.
  - destruct (N.leb_spec (lenN p) nbt_max_len) as [Hp|Hp].
    + rewrite nbt_send_ok by exact Hp. cbn [bind]. rewrite IH. reflexivity.
    + rewrite nbt_send_refuses by exact Hp. reflexivity.
Qed.

(* ------------------------------------------------------------------ *)
(* Totality *)

Lemma nbt_send_total c p : nbt_send c p <> Panic.
Proof. unfold nbt_send. destruct c; cbn [negb]; [|discriminate]. destruct (131071 <? lenN p); discriminate. Qed.

Lemma flat_receive_total w : fst (flat_receive w) <> Panic.
Proof.
  unfold flat_receive.
  destruct w as [|a [|b [|c [|d w']]]]; try (cbn; discriminate).
  destruct (lenN (a :: b :: c :: d :: w') <? 4); [cbn [fst]; discriminate|].
  change (firstn 4 (a :: b :: c :: d :: w')) with [a; b; c; d]. rewrite parse_header_4.
  destruct (negb (a =? 0)); [cbn [fst]; discriminate|].
  destruct (_ <? _); cbn [fst]; discriminate.
Qed.

Lemma nbt_receive_total c s : fst (nbt_receive c s) <> Panic.
Proof.
  destruct c; [|cbn; discriminate].
  pose proof (receive_flat s) as F. pose proof (flat_receive_total (concat s)) as T.
  rewrite F in T. exact T.
Qed.

Lemma recv_n_total c : forall n s, Forall (fun r => r <> Panic) (fst (recv_n c n s)).
Proof.
  induction n as [|n IH]; intros s; cbn [recv_n]; [constructor|].
  pose proof (nbt_receive_total c s) as T.
  destruct (nbt_receive c s) as [r s1]. specialize (IH s1).
  destruct (recv_n c n s1) as [rs s2]. cbn [fst] in *. constructor; assumption.
Qed.

(* a received message never exceeds the 17-bit bound, whatever the stream *)
Lemma read_full_len : forall s need h s', read_full need s = (Some h, s') -> lenN h = need.
Proof.
  induction s as [|seg rest IH]; intros need h s' H; cbn [read_full] in H.
  - destruct (N.eqb_spec need 0); [|discriminate]. inversion H. subst. reflexivity.
  - destruct (N.eqb_spec need 0); [inversion H; subst; reflexivity|].
    destruct (N.leb_spec (lenN seg) need) as [Hle|Hgt].
    + destruct (read_full (need - lenN seg) rest) as [[t|] s1] eqn:E; [|discriminate].
      inversion H. subst. rewrite lenN_app. rewrite (IH _ _ _ E). lia.
    + inversion H. subst. unfold lenN in *. rewrite firstn_length. lia.
Qed.

Lemma nbt_receive_bounded s m s' : Forall wf_bytes s ->
  nbt_receive true s = (Ok m, s') -> lenN m <= nbt_max_len.
Proof.
  intros Hwf H. unfold nbt_receive in H. cbn [negb] in H.
  destruct (read_full 4 s) as [[h|] s1] eqn:E1; [|discriminate].
  pose proof (read_full_len _ _ _ _ E1) as Hl.
  destruct (read_full_ok s 4) as [s1' [E1' _]].
  { destruct (N.leb_spec 4 (lenN (concat s))); [assumption|]. rewrite read_full_eof in E1 by lia. discriminate. }
  assert (Hh : h = firstn (N.to_nat 4) (concat s)) by congruence.
  assert (Hwfh : wf_bytes h).
  { rewrite Hh. apply wf_bytes_firstn. unfold wf_bytes in *. clear -Hwf.
    induction Hwf; cbn [concat]; [constructor|]. apply Forall_app. split; assumption. }
  destruct h as [|a [|b [|c [|d [|e h']]]]]; try (unfold lenN in Hl; cbn [length] in Hl; lia).
  rewrite parse_header_4 in H.
  destruct (negb (a =? 0)); [discriminate|].
  destruct (read_full (b mod 2 * 65536 + c * 256 + d) s1) as [[buf|] s2] eqn:E2; [|discriminate].
  inversion H. subst. rewrite (read_full_len _ _ _ _ E2).
  inversion Hwfh as [|? ? _ Hw1]. inversion Hw1 as [|? ? Hb Hw2]. inversion Hw2 as [|? ? Hc Hw3].
  inversion Hw3 as [|? ? Hd _]. unfold nbt_max_len. lia.
Qed.

(* Only SESSION MESSAGE packets carry user data: a packet of any other type (keep-alive,
   session responses ...) is never handed to the caller as a message, however it is segmented. *)
Lemma foreign_type_rejected s t f a b rest :
  concat s = t :: f :: a :: b :: rest -> t <> 0 -> fst (nbt_receive true s) = Err.
Proof.
  intros Hc Ht. pose proof (receive_flat s) as F. rewrite Hc in F.
  unfold flat_receive in F.
  destruct (N.ltb_spec (lenN (t :: f :: a :: b :: rest)) 4) as [H|H].
  { unfold lenN in H. cbn [length] in H. lia. }
  change (firstn 4 (t :: f :: a :: b :: rest)) with [t; f; a; b] in F.
  rewrite parse_header_4 in F.
  destruct (N.eqb_spec t 0) as [E|E]; [contradiction|]. cbn [negb] in F.
  apply (f_equal fst) in F. cbn [fst] in F. symmetry. exact F.
Qed.
