(* NTLMSSP builders: every NEGOTIATE / AUTHENTICATE message the model builds satisfies the
   MS-NLMP validity predicate of Spec/C08.v, for all names, flags and response byte strings. *)
From Coq Require Import List Arith NArith ZArith Lia Bool.
From Coq Require Import ZifyN ZifyNat ZifyBool.
From Mant Require Import Prim.R Prim.Bytes Spec.C08 Model.C08Text Model.NtlmSsp Gen.ConstsC08
  Proofs.C08Layout Proofs.C08TextLemmas.
Import ListNotations.
Open Scope N_scope.

Lemma lenN_le16 x : lenN (le16 x) = 2. Proof. apply lenN_le_bytes. Qed.
Lemma lenN_le32 x : lenN (le32 x) = 4. Proof. apply lenN_le_bytes. Qed.
Lemma lenN_sig : lenN c08_ntlm_signature = 8. Proof. reflexivity. Qed.
Lemma lenN_defver : lenN (version_marshal default_version) = 8. Proof. reflexivity. Qed.
Lemma lenN_rep8 : lenN (repeatN 0 8) = 8. Proof. reflexivity. Qed.
Lemma lenN_rep16 : lenN (repeatN 0 16) = 16. Proof. reflexivity. Qed.
Lemma lenN_nilN : lenN (@nil N) = 0. Proof. reflexivity. Qed.
#[global] Hint Rewrite @lenN_app lenN_le16 lenN_le32 lenN_sig lenN_defver lenN_rep8 lenN_rep16 lenN_nilN : c08len.

Lemma desc_at_spec msg at_ l o :
  l < 65536 -> o < 4294967296 ->
  sub msg at_ 2 = le16 (wrap16 l) -> sub msg (at_ + 2) 2 = le16 (wrap16 l) -> sub msg (at_ + 4) 4 = le32 (wrap32 o) ->
  desc_at msg at_ = {| d_len := l; d_max := l; d_off := o |}.
Proof.
  intros Hl Ho H1 H2 H3. unfold desc_at, u16_at, u32_at. rewrite H1, H2, H3.
  now rewrite le_val_le16, le_val_le32w.
Qed.

Ltac piece Hmsg ps k H :=
  pose proof (sub_concat ps k) as H; rewrite <- Hmsg in H; unfold ps in H;
  cbn [firstn nth concat] in H; autorewrite with c08len in H.
Ltac use H := first [ refine (eq_trans _ H); f_equal; lia | symmetry; refine (eq_trans _ H); f_equal; lia ].

(* ---- names ---- *)
Definition flags_charset (flags : N) : charset := if N.testbit flags 0 then Unicode else Oem.

Lemma enc_plain_unicode s : encode_name Unicode (go_runes s) = Some (enc_plain true s).
Proof. cbn [encode_name enc_plain]. now rewrite go_utf16le_spec. Qed.

Lemma enc_plain_oem s : ascii s -> encode_name Oem (go_runes s) = Some (enc_plain false s).
Proof. intros H. cbn [encode_name enc_plain]. rewrite go_runes_ascii by exact H. now apply oem_encode_ascii. Qed.

(* ---- AUTHENTICATE ---- *)
Theorem authenticate_wf_holds flags lm nt user domain ws msg :
  flags < 4294967296 ->
  (N.testbit flags 0 = false -> N.testbit flags 1 = true /\ ascii user /\ ascii domain /\ ascii ws) ->
  create_authenticate flags lm nt user domain ws = Ok msg ->
  authenticate_wf msg (flags_charset flags) flags lm nt
    (go_runes (go_to_upper domain)) (go_runes user) (go_runes (go_to_upper ws)) [].
Proof.
  intros Hflags Hoem Hc. unfold create_authenticate, authenticate_names in Hc.
  change c08_f_unicode with (2 ^ 0) in Hc. change c08_f_version with (2 ^ 25) in Hc.
  rewrite !has_flag_bit in Hc.
  set (u := N.testbit flags 0) in *.
  set (db := enc_plain u (go_to_upper domain)) in *.
  set (ub := enc_plain u user) in *.
  set (wb := enc_plain u (go_to_upper ws)) in *.
  destruct (N.ltb_spec 65535 (lenN lm)); [discriminate|].
  destruct (N.ltb_spec 65535 (lenN nt)); [discriminate|].
  destruct (N.ltb_spec 65535 (lenN db)); [discriminate|].
  destruct (N.ltb_spec 65535 (lenN ub)); [discriminate|].
  destruct (N.ltb_spec 65535 (lenN wb)); [discriminate|].
  cbn [orb] in Hc. injection Hc as Hc. unfold descriptor in Hc.
  set (ver := if N.testbit flags 25 then version_marshal default_version else repeatN 0 8) in *.
  assert (Lver : lenN ver = 8) by (unfold ver; destruct (N.testbit flags 25); reflexivity).
  set (ps := [c08_ntlm_signature; le32 (wrap32 c08_ntlm_authenticate);
              le16 (wrap16 (lenN lm)); le16 (wrap16 (lenN lm)); le32 (wrap32 88);
              le16 (wrap16 (lenN nt)); le16 (wrap16 (lenN nt)); le32 (wrap32 (88 + lenN lm));
              le16 (wrap16 (lenN db)); le16 (wrap16 (lenN db)); le32 (wrap32 (88 + lenN lm + lenN nt));
              le16 (wrap16 (lenN ub)); le16 (wrap16 (lenN ub)); le32 (wrap32 (88 + lenN lm + lenN nt + lenN db));
              le16 (wrap16 (lenN wb)); le16 (wrap16 (lenN wb)); le32 (wrap32 (88 + lenN lm + lenN nt + lenN db + lenN ub));
              le16 (wrap16 (lenN (@nil N))); le16 (wrap16 (lenN (@nil N)));
              le32 (wrap32 (88 + lenN lm + lenN nt + lenN db + lenN ub + lenN wb));
              le32 flags; ver; repeatN 0 16; lm; nt; db; ub; wb; @nil N]).
  assert (Hmsg : msg = concat ps).
  { rewrite <- Hc. unfold ps. cbn [concat]. rewrite ?app_nil_r. repeat rewrite <- app_assoc. reflexivity. }
  clear Hc.
  assert (Hlen : lenN msg = 88 + lenN lm + lenN nt + lenN db + lenN ub + lenN wb).
  { rewrite Hmsg. unfold ps. cbn [concat]. autorewrite with c08len. rewrite Lver. lia. }
  piece Hmsg ps 0%nat P0. piece Hmsg ps 1%nat P1.
  piece Hmsg ps 2%nat P2. piece Hmsg ps 3%nat P3. piece Hmsg ps 4%nat P4.
  piece Hmsg ps 5%nat P5. piece Hmsg ps 6%nat P6. piece Hmsg ps 7%nat P7.
  piece Hmsg ps 8%nat P8. piece Hmsg ps 9%nat P9. piece Hmsg ps 10%nat P10.
  piece Hmsg ps 11%nat P11. piece Hmsg ps 12%nat P12. piece Hmsg ps 13%nat P13.
  piece Hmsg ps 14%nat P14. piece Hmsg ps 15%nat P15. piece Hmsg ps 16%nat P16.
  piece Hmsg ps 17%nat P17. piece Hmsg ps 18%nat P18. piece Hmsg ps 19%nat P19.
  piece Hmsg ps 20%nat P20. piece Hmsg ps 21%nat P21.
  piece Hmsg ps 23%nat P23. piece Hmsg ps 24%nat P24. piece Hmsg ps 25%nat P25.
  piece Hmsg ps 26%nat P26. piece Hmsg ps 27%nat P27.
  rewrite ?Lver in *.
  assert (D1 : desc_at msg 12 = {| d_len := lenN lm; d_max := lenN lm; d_off := 88 |})
    by (apply desc_at_spec; [lia|lia|use P2|use P3|use P4]).
  assert (D2 : desc_at msg 20 = {| d_len := lenN nt; d_max := lenN nt; d_off := 88 + lenN lm |})
    by (apply desc_at_spec; [lia|lia|use P5|use P6|use P7]).
  assert (D3 : desc_at msg 28 = {| d_len := lenN db; d_max := lenN db; d_off := 88 + lenN lm + lenN nt |})
    by (apply desc_at_spec; [lia|lia|use P8|use P9|use P10]).
  assert (D4 : desc_at msg 36 = {| d_len := lenN ub; d_max := lenN ub; d_off := 88 + lenN lm + lenN nt + lenN db |})
    by (apply desc_at_spec; [lia|lia|use P11|use P12|use P13]).
  assert (D5 : desc_at msg 44 = {| d_len := lenN wb; d_max := lenN wb; d_off := 88 + lenN lm + lenN nt + lenN db + lenN ub |})
    by (apply desc_at_spec; [lia|lia|use P14|use P15|use P16]).
  assert (D6 : desc_at msg 52 = {| d_len := 0; d_max := 0; d_off := 88 + lenN lm + lenN nt + lenN db + lenN ub + lenN wb |})
    by (apply desc_at_spec; [lia|lia|use P17|use P18|use P19]).
  exists db, ub, wb.
  assert (Enc : encode_name (flags_charset flags) (go_runes (go_to_upper domain)) = Some db /\
                encode_name (flags_charset flags) (go_runes user) = Some ub /\
                encode_name (flags_charset flags) (go_runes (go_to_upper ws)) = Some wb).
  { unfold flags_charset, db, ub, wb. fold u. destruct u eqn:Eu.
    - repeat split; apply enc_plain_unicode.
    - destruct (Hoem eq_refl) as (_ & Au & Ad & Aw).
      repeat split; apply enc_plain_oem; try assumption; now apply go_to_upper_ascii. }
  destruct Enc as (E1 & E2 & E3).
  split; [exact E1|]. split; [exact E2|]. split; [exact E3|].
  split. { change nlmp_signature with c08_ntlm_signature. use P0. }
  split. { unfold u32_at. replace (sub msg 8 4) with (le32 (wrap32 c08_ntlm_authenticate)) by use P1. reflexivity. }
  split; [lia|].
  rewrite D1, D2, D3, D4, D5, D6. unfold designates. cbn [d_len d_max d_off].
  split. { repeat split; try lia. use P23. }
  split. { repeat split; try lia. use P24. }
  split. { repeat split; try lia. use P25. }
  split. { repeat split; try lia. use P26. }
  split. { repeat split; try lia. use P27. }
  split. { repeat split; try lia. }
  split. { cbn [pairwise]. repeat split; repeat constructor; unfold disjoint; cbn [d_len d_off]; lia. }
  split. { unfold u32_at. replace (sub msg 60 4) with (le32 flags) by use P20. now apply le_val_le32. }
  split. { intros Hv. unfold bit_version in Hv. replace (sub msg 64 8) with ver by use P21. unfold ver. rewrite Hv. reflexivity. }
  change (lenN (@nil N)) with 0. lia.
Qed.

(* The builders never panic, and fail exactly when a field does not fit its 16-bit length. *)
Theorem create_authenticate_outcome flags lm nt user domain ws :
  let '(db, ub, wb) := authenticate_names flags user domain ws in
  (Forall (fun f => lenN f <= 65535) [lm; nt; db; ub; wb] ->
     exists msg, create_authenticate flags lm nt user domain ws = Ok msg) /\
  (~ Forall (fun f => lenN f <= 65535) [lm; nt; db; ub; wb] ->
     create_authenticate flags lm nt user domain ws = Err).
Proof.
  unfold create_authenticate. destruct (authenticate_names flags user domain ws) as [[db ub] wb].
  split.
  - intros H. repeat match goal with H : Forall _ (_ :: _) |- _ => inversion H; clear H; subst end.
    destruct (N.ltb_spec 65535 (lenN lm)); [lia|]. destruct (N.ltb_spec 65535 (lenN nt)); [lia|].
    destruct (N.ltb_spec 65535 (lenN db)); [lia|]. destruct (N.ltb_spec 65535 (lenN ub)); [lia|].
    destruct (N.ltb_spec 65535 (lenN wb)); [lia|]. cbn [orb]. eauto.
  - intros H.
    destruct (N.ltb_spec 65535 (lenN lm)); [reflexivity|]. destruct (N.ltb_spec 65535 (lenN nt)); [reflexivity|].
    destruct (N.ltb_spec 65535 (lenN db)); [reflexivity|]. destruct (N.ltb_spec 65535 (lenN ub)); [reflexivity|].
    destruct (N.ltb_spec 65535 (lenN wb)); [reflexivity|]. exfalso. apply H. repeat constructor; lia.
Qed.

(* ---- NEGOTIATE ---- *)
(* The name a NEGOTIATE message carries: as given in Unicode, upper-cased in OEM. *)
Definition negotiate_text (unicode : bool) (s : list N) : list N := if unicode then s else go_to_upper s.
Definition bool_charset (unicode : bool) : charset := if unicode then Unicode else Oem.

Lemma negotiate_name_enc u s : negotiate_name u s = enc_plain u (negotiate_text u s).
Proof. destruct s; [destruct u; reflexivity|destruct u; reflexivity]. Qed.

Lemma go_runes_nil_iff s : go_runes s = [] <-> s = [].
Proof.
  split; [|intros ->; reflexivity]. destruct s as [|b t]; [reflexivity|].
  unfold go_runes. cbn [length go_runes_fuel]. destruct (decode_rune (b :: t)). discriminate.
Qed.

Lemma negotiate_text_nil_iff u s : (u = false -> ascii s) -> go_runes (negotiate_text u s) = [] <-> s = [].
Proof.
  intros Ha. rewrite go_runes_nil_iff. destruct u; cbn [negotiate_text]; [tauto|].
  destruct (go_to_upper_ascii s (Ha eq_refl)) as [_ Hl]. split.
  - intros E. rewrite E in Hl. destruct s; [reflexivity|rewrite lenN_cons in Hl; change (lenN (@nil N)) with 0 in Hl; lia].
  - intros ->. reflexivity.
Qed.

Ltac flag_iff :=
  split; [intros H; try discriminate H; try (intros H2; discriminate H2)
         |intros H; try reflexivity; try (exfalso; apply H; reflexivity)].

Lemma negotiate_flags_bits domain ws u :
  let f := negotiate_flags domain ws u in
  f < 4294967296 /\ N.testbit f 25 = true /\
  N.testbit f 0 = u /\ (u = false -> N.testbit f 1 = true) /\
  (N.testbit f 12 = true <-> domain <> []) /\ (N.testbit f 13 = true <-> ws <> []).
Proof.
  destruct domain as [|d0 dt], ws as [|w0 wt], u; cbn [negotiate_flags]; cbn zeta;
    (split; [vm_compute; reflexivity|]); (split; [vm_compute; reflexivity|]);
    (split; [vm_compute; reflexivity|]);
    (split; [intros Hu; try discriminate Hu; vm_compute; reflexivity|]);
    (split; [match goal with |- N.testbit ?f ?k = true <-> _ => let b := eval vm_compute in (N.testbit f k) in change (N.testbit f k) with b end; flag_iff
            |match goal with |- N.testbit ?f ?k = true <-> _ => let b := eval vm_compute in (N.testbit f k) in change (N.testbit f k) with b end; flag_iff]).
Qed.

Theorem negotiate_wf_holds domain ws unicode msg :
  (unicode = false -> ascii domain /\ ascii ws) ->
  create_negotiate domain ws unicode = Ok msg ->
  negotiate_wf msg (bool_charset unicode)
    (go_runes (negotiate_text unicode domain)) (go_runes (negotiate_text unicode ws)).
Proof.
  intros Hoem Hc. unfold create_negotiate in Hc. rewrite !negotiate_name_enc in Hc.
  set (db := enc_plain unicode (negotiate_text unicode domain)) in *.
  set (wb := enc_plain unicode (negotiate_text unicode ws)) in *.
  destruct (N.ltb_spec 65535 (lenN db)); [discriminate|].
  destruct (N.ltb_spec 65535 (lenN wb)); [discriminate|].
  cbn [orb] in Hc. injection Hc as Hc. unfold descriptor in Hc.
  destruct (negotiate_flags_bits domain ws unicode) as (Fb & F25 & F0 & F1 & F12 & F13).
  set (flags := negotiate_flags domain ws unicode) in *.
  set (ps := [c08_ntlm_signature; le32 (wrap32 c08_ntlm_negotiate); le32 flags;
              le16 (wrap16 (lenN db)); le16 (wrap16 (lenN db)); le32 (wrap32 40);
              le16 (wrap16 (lenN wb)); le16 (wrap16 (lenN wb)); le32 (wrap32 (40 + lenN db));
              version_marshal default_version; db; wb]).
  assert (Hmsg : msg = concat ps).
  { rewrite <- Hc. unfold ps. cbn [concat]. rewrite ?app_nil_r. repeat rewrite <- app_assoc. reflexivity. }
  clear Hc.
  assert (Hlen : lenN msg = 40 + lenN db + lenN wb).
  { rewrite Hmsg. unfold ps. cbn [concat]. autorewrite with c08len. lia. }
  piece Hmsg ps 0%nat P0. piece Hmsg ps 1%nat P1. piece Hmsg ps 2%nat P2.
  piece Hmsg ps 3%nat P3. piece Hmsg ps 4%nat P4. piece Hmsg ps 5%nat P5.
  piece Hmsg ps 6%nat P6. piece Hmsg ps 7%nat P7. piece Hmsg ps 8%nat P8.
  piece Hmsg ps 10%nat P10. piece Hmsg ps 11%nat P11.
  assert (D1 : desc_at msg 16 = {| d_len := lenN db; d_max := lenN db; d_off := 40 |})
    by (apply desc_at_spec; [lia|lia|use P3|use P4|use P5]).
  assert (D2 : desc_at msg 24 = {| d_len := lenN wb; d_max := lenN wb; d_off := 40 + lenN db |})
    by (apply desc_at_spec; [lia|lia|use P6|use P7|use P8]).
  assert (Hf : u32_at msg 12 = flags).
  { unfold u32_at. replace (sub msg 12 4) with (le32 flags) by use P2. now apply le_val_le32. }
  exists db, wb.
  assert (Enc : encode_name (bool_charset unicode) (go_runes (negotiate_text unicode domain)) = Some db /\
                encode_name (bool_charset unicode) (go_runes (negotiate_text unicode ws)) = Some wb).
  { unfold db, wb. destruct unicode; cbn [bool_charset].
    - split; apply enc_plain_unicode.
    - destruct (Hoem eq_refl) as (Ad & Aw). cbn [negotiate_text].
      split; apply enc_plain_oem; now apply go_to_upper_ascii. }
  destruct Enc as (E1 & E2).
  split; [exact E1|]. split; [exact E2|].
  split. { change nlmp_signature with c08_ntlm_signature. use P0. }
  split. { unfold u32_at. replace (sub msg 8 4) with (le32 (wrap32 c08_ntlm_negotiate)) by use P1. reflexivity. }
  rewrite Hf. unfold bit_version. rewrite F25. cbn zeta.
  split; [lia|].
  rewrite D1, D2. unfold designates, disjoint. cbn [d_len d_max d_off].
  split. { repeat split; try lia. use P10. }
  split. { repeat split; try lia. use P11. }
  split; [lia|].
  split.
  { unfold charset_flags, bit_unicode, bit_oem. destruct unicode; cbn [bool_charset]; [exact F0|].
    split; [exact F0|now apply F1]. }
  unfold bit_domain_supplied, bit_workstation_supplied.
  split.
  - rewrite F12. rewrite negotiate_text_nil_iff; [tauto|]. intros E. now apply Hoem.
  - rewrite F13. rewrite negotiate_text_nil_iff; [tauto|]. intros E. now apply Hoem.
Qed.

Theorem create_negotiate_outcome domain ws unicode :
  let db := negotiate_name unicode domain in
  let wb := negotiate_name unicode ws in
  (lenN db <= 65535 /\ lenN wb <= 65535 -> exists msg, create_negotiate domain ws unicode = Ok msg) /\
  (~ (lenN db <= 65535 /\ lenN wb <= 65535) -> create_negotiate domain ws unicode = Err).
Proof.
  unfold create_negotiate. cbn zeta. split.
  - intros [H1 H2]. destruct (N.ltb_spec 65535 (lenN (negotiate_name unicode domain))); [lia|].
    destruct (N.ltb_spec 65535 (lenN (negotiate_name unicode ws))); [lia|]. cbn [orb]. eauto.
  - intros H. destruct (N.ltb_spec 65535 (lenN (negotiate_name unicode domain))); [reflexivity|].
    destruct (N.ltb_spec 65535 (lenN (negotiate_name unicode ws))); [reflexivity|]. exfalso. apply H. lia.
Qed.

(* ---- the full statement over non-ASCII names is refuted in the OEM character set ---- *)
Theorem negotiate_oem_non_ascii_refuted :
  ~ (forall domain ws msg, create_negotiate domain ws false = Ok msg ->
       negotiate_wf msg Oem (go_runes (negotiate_text false domain)) (go_runes (negotiate_text false ws))).
Proof.
  intros H.
  destruct (create_negotiate [195; 169] [] false) as [msg| |] eqn:E; try (vm_compute in E; discriminate).
  specialize (H [195; 169] [] msg E). destruct H as (db & wb & E1 & _).
  vm_compute in E1. discriminate.
Qed.

Theorem authenticate_oem_non_ascii_refuted :
  ~ (forall flags lm nt user domain ws msg, flags < 4294967296 ->
       N.testbit flags 0 = false -> N.testbit flags 1 = true ->
       create_authenticate flags lm nt user domain ws = Ok msg ->
       authenticate_wf msg Oem flags lm nt (go_runes (go_to_upper domain)) (go_runes user) (go_runes (go_to_upper ws)) []).
Proof.
  intros H.
  destruct (create_authenticate 2 [] [] [117] [195; 169] [] ) as [msg| |] eqn:E; try (vm_compute in E; discriminate).
  specialize (H 2 [] [] [117] [195; 169] [] msg ltac:(lia) eq_refl eq_refl E).
  destruct H as (db & ub & wb & E1 & _). vm_compute in E1. discriminate.
Qed.

(* MS-NLMP 2.2.1.1 read strictly (names of a NEGOTIATE_MESSAGE are always OEM) is refuted by the
   Unicode mode of the builder. *)
Theorem negotiate_unicode_strict_oem_refuted :
  ~ (forall domain ws msg, ascii domain -> ascii ws -> create_negotiate domain ws true = Ok msg ->
       negotiate_wf msg Oem (go_runes domain) (go_runes ws)).
Proof.
  intros H.
  destruct (create_negotiate [97] [] true) as [msg| |] eqn:E; try (vm_compute in E; discriminate).
  assert (A1 : ascii [97]) by (repeat constructor).
  assert (A2 : ascii []) by constructor.
  specialize (H [97] [] msg A1 A2 E). destruct H as (db & wb & E1 & _ & _ & _ & Hrest).
  cbn zeta in Hrest. destruct Hrest as (_ & (L & _) & _).
  vm_compute in E. injection E as <-. vm_compute in E1. injection E1 as <-.
  vm_compute in L. discriminate.
Qed.
