From Coq Require Import List Arith NArith ZArith String Bool Lia.
From Coq Require Import ZifyN ZifyNat ZifyBool.
From Mant Require Import Prim.R Prim.Bytes Model.SmbTypes Model.SmbBlocks Model.SmbLayout Model.SmbAnalysis
  Model.SmbDialects Spec.C04 Spec.C05 Proofs.C04Proofs.
Import ListNotations.
Open Scope N_scope.
Open Scope list_scope.

(* ---- all-integer structures: little-endian emission = the MS-CIFS encoding of the declaration ---- *)
Lemma be_bytes_1 n : be_bytes 1 n = le_bytes 1 n.
Proof. reflexivity. Qed.

Lemma be_bytes_0 n : be_bytes 0 n = le_bytes 0 n.
Proof. reflexivity. Qed.

Lemma wire_is_cifs fs : forall ns ws, all_le fs = true -> map (fun x => snd (fst x)) fs = ws ->
  wire_of fs ns = cifs_fields ws ns.
Proof.
  unfold wire_of, cifs_fields.
  induction fs as [|[[f w] e] fs IH]; intros ns ws Hle Hws; subst ws; [reflexivity|].
  destruct ns as [|n ns]; [reflexivity|].
  cbn [all_le forallb fst snd] in Hle. apply andb_true_iff in Hle. destruct Hle as [He Hle].
  cbn [map combine List.concat fst snd]. f_equal.
  - destruct e; [reflexivity|]. apply Nat.leb_le in He. cbn [int_bytes].
    destruct w as [|[|w]]; [reflexivity|reflexivity|lia].
  - apply IH; [exact Hle|reflexivity].
Qed.

Lemma decl_widths_of fs : forall decl, decl_matches fs decl = true ->
  decl_widths decl = Some (map (fun x => snd (fst x)) fs).
Proof.
  induction fs as [|[[f w] e] fs IH]; intros [|[g t] decl] H; cbn [decl_matches] in H; try discriminate; [reflexivity|].
  destruct t; try discriminate.
  apply andb_true_iff in H. destruct H as [H H3]. apply andb_true_iff in H. destruct H as [_ H2].
  apply Nat.eqb_eq in H2. subst w0. cbn [decl_widths map fst snd]. now rewrite (IH decl H3).
Qed.

(* For every structure of the fragment whose multi-byte integers are all emitted little-endian and every
   assignment within the declared widths, Marshal produces exactly the bytes of the independent MS-CIFS
   encoder applied to the DECLARATION (field order and declared widths only). *)
Theorem fixed_is_cifs c fs ns :
  simple_fixed c = true -> int_fields (cd_marshal c) = Some fs -> all_le fs = true -> values_fit fs ns ->
  exists ws cs', decl_widths (cd_decl c) = Some ws /\
    cmd_marshal c cstate_new (int_valuation fs ns) = Ok (cifs_encode_fixed ws ns, cs', int_valuation fs ns).
Proof.
  intros Hc Hfs Hle Hfit.
  destruct (simple_fixed_roundtrips c Hc fs Hfs ns Hfit) as [bs [cs' [Hm [_ Hbs]]]].
  assert (Hdecl : decl_matches fs (cd_decl c) = true).
  { unfold simple_fixed in Hc. rewrite Hfs in Hc.
    apply andb_true_iff in Hc. destruct Hc as [_ Hc].
    apply andb_true_iff in Hc. destruct Hc as [Hc _].
    apply andb_true_iff in Hc. destruct Hc as [Hc _].
    apply andb_true_iff in Hc. destruct Hc as [Hc _].
    apply andb_true_iff in Hc. destruct Hc as [_ Hc]. exact Hc. }
  exists (map (fun x => snd (fst x)) fs), cs'. split; [now apply decl_widths_of|].
  rewrite Hm. f_equal. f_equal. f_equal. rewrite Hbs.
  fold (wire_of fs ns). unfold cifs_encode_fixed.
  rewrite <- (wire_is_cifs fs ns _ Hle eq_refl).
  rewrite (wire_length fs ns) by (eapply Forall2_length; exact Hfit). reflexivity.
Qed.

(* ---- dialects ---- *)
Lemma dialects_is_cifs ds : dialects_marshal ds = cifs_dialects ds.
Proof. reflexivity. Qed.

Lemma find_zero_app d rest i : no_nul d -> find_zero (d ++ 0 :: rest) i = Some (i + lenN d).
Proof.
  revert i. induction d as [|b d IH]; intros i H.
  - cbn [app find_zero]. change (0 =? 0) with true. cbv iota. now rewrite lenN_nil, N.add_0_r.
  - inversion H as [|? ? Hb Hd]; subst. cbn [app find_zero].
    destruct (N.eqb_spec b 0); [contradiction|]. rewrite IH by exact Hd. f_equal. rewrite lenN_cons. lia.
Qed.

Lemma dialects_loop_spec ds : forall fuel pre acc,
  Forall no_nul ds -> (List.length ds < fuel)%nat ->
  dialects_loop fuel (pre ++ dialects_marshal ds) (lenN pre) acc =
  Ok (acc ++ ds, lenN pre + lenN (dialects_marshal ds)).
Proof.
  induction ds as [|d ds IH]; intros fuel pre acc Hnn Hfuel.
  - destruct fuel; [inversion Hfuel|]. cbn [dialects_marshal flat_map dialects_loop].
    rewrite !app_nil_r. destruct (N.ltb_spec (lenN pre) (lenN pre)); [lia|].
    rewrite lenN_nil, N.add_0_r. reflexivity.
  - destruct fuel; [inversion Hfuel|]. inversion Hnn as [|? ? Hd Hds]; subst.
    cbn [dialects_marshal flat_map]. fold (dialects_marshal ds).
    cbn [dialects_loop].
    set (data := pre ++ (dialect_format :: d ++ [0]) ++ dialects_marshal ds).
    assert (Hlen : lenN data = lenN pre + (1 + lenN d + 1) + lenN (dialects_marshal ds)).
    { unfold data. rewrite !lenN_app, lenN_cons, lenN_app, lenN_cons, lenN_nil. lia. }
    destruct (N.ltb_spec (lenN pre) (lenN data)); [|lia].
    assert (Hidx : go_index data (lenN pre) = Ok dialect_format).
    { unfold go_index. destruct (N.ltb_spec (lenN pre) (lenN data)); [|lia].
      unfold data. replace (N.to_nat (lenN pre)) with (List.length pre) by (unfold lenN; lia).
      rewrite nth_error_app2 by lia. rewrite Nat.sub_diag. reflexivity. }
    rewrite Hidx. cbn [bind]. rewrite N.eqb_refl. cbn [negb].
    assert (Hskip : skipn (N.to_nat (lenN pre + 1)) data = d ++ 0 :: dialects_marshal ds).
    { unfold data. replace (N.to_nat (lenN pre + 1)) with (List.length pre + 1)%nat by (unfold lenN; lia).
      rewrite skipn_app. rewrite skipn_all2 by lia.
      replace (List.length pre + 1 - List.length pre)%nat with 1%nat by lia.
      cbn [app skipn]. now rewrite <- app_assoc. }
    rewrite Hskip. rewrite find_zero_app by exact Hd.
    assert (Hslice : go_slice data (lenN pre + 1) (lenN pre + 1 + lenN d) = Ok d).
    { unfold data.
      replace (pre ++ (dialect_format :: d ++ [0]) ++ dialects_marshal ds)
        with ((pre ++ [dialect_format]) ++ d ++ ([0] ++ dialects_marshal ds))
        by (cbn [app]; rewrite <- !app_assoc; reflexivity).
      replace (lenN pre + 1) with (lenN (pre ++ [dialect_format])) by (rewrite lenN_app, lenN_cons, lenN_nil; lia).
      apply go_slice_app_mid. }
    rewrite Hslice. cbn [bind].
    replace data with ((pre ++ dialect_format :: d ++ [0]) ++ dialects_marshal ds)
      by (unfold data; now rewrite <- !app_assoc).
    replace (lenN pre + 1 + lenN d + 1) with (lenN (pre ++ dialect_format :: d ++ [0]))
      by (rewrite lenN_app, lenN_cons, lenN_app, lenN_cons, lenN_nil; lia).
    rewrite IH by (auto; cbn in Hfuel; lia).
    rewrite <- app_assoc. cbn [app]. f_equal. f_equal.
    repeat (rewrite lenN_app || rewrite lenN_cons || rewrite lenN_nil). lia.
Qed.

Lemma dialects_marshal_length ds : (List.length ds <= List.length (dialects_marshal ds))%nat.
Proof.
  induction ds as [|d ds IH]; [reflexivity|]. cbn [dialects_marshal flat_map]. fold (dialects_marshal ds).
  rewrite app_length. cbn [List.length]. lia.
Qed.

(* 0..N dialects, each with its own format byte and terminator: decoding returns the list and consumes
   exactly the encoding *)
Theorem dialects_roundtrip ds : Forall no_nul ds ->
  dialects_unmarshal (dialects_marshal ds) = Ok (ds, lenN (dialects_marshal ds)).
Proof.
  intros H. unfold dialects_unmarshal.
  pose proof (dialects_loop_spec ds (S (List.length (dialects_marshal ds))) [] [] H) as L.
  cbn [app lenN List.length] in L. change (N.of_nat 0) with 0 in L. rewrite N.add_0_l in L.
  apply L. pose proof (dialects_marshal_length ds). lia.
Qed.

Lemma dialects_loop_total fuel : forall data pos acc, dialects_loop fuel data pos acc <> Panic.
Proof.
  induction fuel as [|f IH]; intros data pos acc; [discriminate|]. cbn [dialects_loop].
  destruct (N.ltb_spec pos (lenN data)) as [Hlt|]; [|discriminate].
  unfold go_index. destruct (N.ltb_spec pos (lenN data)); [|lia].
  destruct (nth_error data (N.to_nat pos)) eqn:E.
  2:{ apply nth_error_None in E. unfold lenN in *. lia. }
  cbn [bind]. destruct (negb (n =? dialect_format)); [discriminate|].
  destruct (find_zero (skipn (N.to_nat (pos + 1)) data) (pos + 1)) as [z|] eqn:Ez; [|discriminate].
  (* the terminator lies inside the data, at or after pos+1 *)
  assert (Hz : pos + 1 <= z /\ z < lenN data).
  { clear - Ez Hlt.
    assert (G : forall l i z, find_zero l i = Some z -> i <= z /\ z < i + lenN l).
    { induction l as [|b l IHl]; intros i z0 Hf; [discriminate|]. cbn [find_zero] in Hf.
      destruct (b =? 0).
      - injection Hf as <-. rewrite lenN_cons. lia.
      - apply IHl in Hf. rewrite lenN_cons. lia. }
    apply G in Ez. unfold lenN in *. rewrite skipn_length in Ez. lia. }
  rewrite go_slice_ok by lia. cbn [bind]. apply IH.
Qed.

Theorem dialects_total data : dialects_unmarshal data <> Panic.
Proof. apply dialects_loop_total. Qed.
