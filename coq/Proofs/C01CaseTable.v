(* C01: the dumped Go lower-case table (Model/C01CaseTable.v, the executable instance of the rune mapping) meets
   the two hypotheses the MS-Cache theorems put on the mapping: it is the byte-wise mapping on ASCII and it maps
   Unicode scalar values to scalar values. *)
From Coq Require Import List NArith Lia Bool.
From Coq Require Import ZifyN ZifyNat ZifyBool.
From Mant Require Import Prim.Dec Algo.Utf16 Model.C01CaseTable Model.C01Text.
Import ListNotations.
Open Scope N_scope.

Lemma go_lower_ascii_sweep :
  forallb (fun c => go_lower_cp c =? to_lower c) (map N.of_nat (seq 0 128)) = true.
Proof. vm_compute. reflexivity. Qed.

Theorem go_lower_ascii c : c < 128 -> go_lower_cp c = to_lower c.
Proof.
  intros H. apply N.eqb_eq.
  apply (proj1 (forallb_forall _ _) go_lower_ascii_sweep).
  rewrite <- (N2Nat.id c). apply in_map. apply in_seq. lia.
Qed.

(* an entry keeps its whole image on one side of the surrogate gap and below 0x110000 *)
Definition entry_ok (e : N * N * N * N * N) : bool :=
  let '(lo, hi, stride, add, sub) := e in
  (sub <=? lo) && ((hi + add - sub <? 0xD800) || ((0xE000 <=? lo + add - sub) && (hi + add - sub <=? 0x10FFFF))).

Lemma case_lookup_scalar t : forallb entry_ok t = true ->
  forall c, scalar_value c -> scalar_value (case_lookup t c).
Proof.
  induction t as [|e t IH]; intros Hok c Hc; [exact Hc|].
  cbn [forallb] in Hok. apply andb_prop in Hok. destruct Hok as [He Ht].
  destruct e as [[[[lo hi] stride] add] sub]. cbn [case_lookup].
  destruct ((lo <=? c) && (c <=? hi) && ((c - lo) mod stride =? 0)) eqn:M; [|apply IH; assumption].
  unfold entry_ok in He. unfold scalar_value. clear IH Ht Hc.
  apply andb_prop in M. destruct M as [M _]. apply andb_prop in M. destruct M as [M1 M2].
  apply andb_prop in He. destruct He as [H1 H2].
  apply orb_prop in H2. destruct H2 as [H2|H2].
  - left. lia.
  - right. apply andb_prop in H2. lia.
Qed.

Lemma lower_table_ok : forallb entry_ok c01_lower_table = true.
Proof. vm_compute. reflexivity. Qed.

Theorem go_lower_scalar c : scalar_value c -> scalar_value (go_lower_cp c).
Proof. apply case_lookup_scalar. exact lower_table_ok. Qed.
