(* How the model of Go's asn1 parser behaves on DER TLVs: parse_tl inverts tlv, and parse_field
   on an `explicit,tag:k[,optional]` field hits / misses as X.690 says. *)
From Coq Require Import List Arith NArith ZArith Lia Bool.
From Coq Require Import ZifyN ZifyNat ZifyBool.
From Mant Require Import Prim.R Prim.Bytes Prim.Der Model.C08Asn1 Proofs.C08Der.
Import ListNotations.
Open Scope N_scope.

Lemma len_octets_go_digits f : forall m k more,
  m < 2 ^ N.of_nat f -> m < 2 ^ 31 ->
  len_octets_go (length (be_digits_fuel f m) + k) 0 (be_digits_fuel f m ++ more) = len_octets_go k m more.
Proof.
  induction f as [|f IH]; intros m k more Hf H31.
  - cbn in Hf. assert (m = 0) by lia. subst. reflexivity.
  - cbn [be_digits_fuel]. destruct (N.eqb_spec m 0) as [->|Hm]; [reflexivity|].
    rewrite app_length. cbn [length].
    replace (length (be_digits_fuel f (m / 256)) + 1 + k)%nat with (length (be_digits_fuel f (m / 256)) + S k)%nat by lia.
    rewrite <- app_assoc. cbn [app].
    pose proof (N.div_mod m 256 ltac:(lia)) as Hdm. pose proof (N.mod_lt m 256 ltac:(lia)) as Hml.
    change (2 ^ 31) with 2147483648 in H31.
    rewrite IH; [|now apply div256_lt|change (2 ^ 31) with 2147483648; lia].
    cbn [len_octets_go].
    destruct (N.leb_spec 8388608 (m / 256)); [lia|].
    replace (m / 256 * 256 + m mod 256) with m by lia.
    destruct (N.eqb_spec m 0); [lia|]. reflexivity.
Qed.

Definition tl_of (b n : N) : tl :=
  {| t_class := b / 64; t_comp := N.testbit b 5; t_tag := b mod 32; t_len := n |}.

Lemma parse_tl_der b n more :
  b mod 32 <> 31 -> n < 2 ^ 31 -> parse_tl (b :: der_len n ++ more) = Some (tl_of b n, more).
Proof.
  intros Hb Hn. unfold parse_tl. destruct (N.eqb_spec (b mod 32) 31); [lia|].
  unfold der_len. destruct (N.ltb_spec n 128) as [Hs|Hl].
  - cbn [app]. destruct (N.ltb_spec n 128); [reflexivity|lia].
  - cbn [app].
    assert (Hk : (length (be_digits n) <= 4)%nat).
    { apply be_digits_length. change (256 ^ N.of_nat 4) with (2 * 2 ^ 31). lia. }
    pose proof (be_digits_nonempty n ltac:(lia)) as Hne.
    unfold lenN. set (ds := be_digits n) in *.
    destruct (N.ltb_spec (128 + N.of_nat (length ds)) 128); [lia|].
    assert (Hmod : (128 + N.of_nat (length ds)) mod 128 = N.of_nat (length ds)).
    { replace (128 + N.of_nat (length ds)) with (N.of_nat (length ds) + 1 * 128) by lia.
      rewrite N.mod_add by lia. apply N.mod_small. lia. }
    rewrite Hmod. destruct (N.eqb_spec (N.of_nat (length ds)) 0); [lia|].
    rewrite Nat2N.id.
    pose proof (len_octets_go_digits (N.to_nat (N.size n)) n 0 more (size_bound n) Hn) as E.
    rewrite Nat.add_0_r in E. fold (be_digits n) in E. fold ds in E. rewrite E.
    cbn [len_octets_go]. destruct (N.ltb_spec n 128); [lia|]. reflexivity.
Qed.

Lemma tlv_app b c rest : tlv b c ++ rest = b :: der_len (lenN c) ++ (c ++ rest).
Proof. unfold tlv. cbn [app]. now rewrite <- app_assoc. Qed.

Lemma parse_tl_tlv b c rest :
  b mod 32 <> 31 -> lenN c < 2 ^ 31 -> parse_tl (tlv b c ++ rest) = Some (tl_of b (lenN c), c ++ rest).
Proof. intros. rewrite tlv_app. now apply parse_tl_der. Qed.

Lemma tlv_not_nil b c rest : tlv b c ++ rest <> [].
Proof. unfold tlv. discriminate. Qed.

Lemma firstn_len_app {A} (c rest : list A) : firstn (N.to_nat (lenN c)) (c ++ rest) = c.
Proof. unfold lenN. rewrite Nat2N.id, firstn_app, firstn_all, Nat.sub_diag. cbn. apply app_nil_r. Qed.
Lemma skipn_len_app {A} (c rest : list A) : skipn (N.to_nat (lenN c)) (c ++ rest) = rest.
Proof. unfold lenN. rewrite Nat2N.id, skipn_app, skipn_all, Nat.sub_diag. reflexivity. Qed.

Section Field.
Context {A : Type} (optional : bool) (utag : N) (ucomp : bool) (content : list N -> option A) (dflt : A).

Definition miss (s : list N) : option (A * list N) := if optional then Some (dflt, s) else None.

Lemma parse_field_nil e : parse_field e optional utag ucomp content dflt [] = miss [].
Proof. destruct e; reflexivity. Qed.

(* an untagged field *)
Lemma parse_field_plain_hit b c rest a :
  b mod 32 <> 31 -> b / 64 = 0 -> b mod 32 = utag -> N.testbit b 5 = ucomp -> lenN c < 2 ^ 31 ->
  content c = Some a ->
  parse_field None optional utag ucomp content dflt (tlv b c ++ rest) = Some (a, rest).
Proof.
  intros Hb Hc Ht Hp Hn Ha. unfold parse_field.
  rewrite parse_tl_tlv by assumption.
  destruct (tlv b c ++ rest) eqn:E; [now apply tlv_not_nil in E|].
  cbn [tl_of t_class t_tag t_comp t_len]. rewrite Hc, Ht, Hp, eqb_reflx. repeat rewrite N.eqb_refl. cbn [andb negb orb].
  rewrite lenN_app. destruct (N.ltb_spec (lenN c + lenN rest) (lenN c)); [lia|].
  rewrite firstn_len_app, skipn_len_app, Ha. reflexivity.
Qed.

(* `explicit,tag:k`: the element [k] EXPLICIT containing the expected universal element *)
Lemma parse_field_explicit_hit k b c rest a :
  k < 31 -> b mod 32 <> 31 -> b / 64 = 0 -> b mod 32 = utag -> N.testbit b 5 = ucomp ->
  lenN (tlv b c) < 2 ^ 31 -> content c = Some a ->
  parse_field (Some k) optional utag ucomp content dflt (tlv (160 + k) (tlv b c) ++ rest) = Some (a, rest).
Proof.
  intros Hk Hb Hc Ht Hp Hn Ha. unfold parse_field.
  assert (Hm : (160 + k) mod 32 = k).
  { replace (160 + k) with (k + 5 * 32) by lia. rewrite N.mod_add by lia. apply N.mod_small. lia. }
  assert (Hd : (160 + k) / 64 = 2).
  { symmetry. apply (N.div_unique (160 + k) 64 2 (32 + k)); lia. }
  assert (Hbit : N.testbit (160 + k) 5 = true).
  { assert (E : forallb (fun k => N.testbit (160 + k) 5) (map N.of_nat (seq 0 31)) = true) by (vm_compute; reflexivity).
    rewrite forallb_forall in E. apply E. apply in_map_iff. exists (N.to_nat k). split; [lia|]. apply in_seq. lia. }
  rewrite parse_tl_tlv by (try assumption; lia).
  destruct (tlv (160 + k) (tlv b c) ++ rest) eqn:E; [now apply tlv_not_nil in E|]. clear E.
  destruct (tlv b c ++ rest) eqn:E; [now apply tlv_not_nil in E|]. rewrite <- E. clear E.
  cbn [tl_of t_class t_tag t_comp t_len]. rewrite Hm, Hd, Hbit. repeat rewrite N.eqb_refl. rewrite orb_true_r. cbn [andb].
  assert (0 < lenN (tlv b c)) by (unfold tlv; rewrite lenN_cons; lia).
  destruct (N.ltb_spec 0 (lenN (tlv b c))); [|lia].
  assert (Hc' : lenN c < 2 ^ 31) by (unfold tlv in Hn; rewrite lenN_cons, lenN_app in Hn; lia).
  rewrite parse_tl_tlv by assumption.
  cbn [tl_of t_class t_tag t_comp t_len]. rewrite Hc, Ht, Hp, eqb_reflx. repeat rewrite N.eqb_refl. cbn [andb negb orb].
  rewrite lenN_app. destruct (N.ltb_spec (lenN c + lenN rest) (lenN c)); [lia|].
  rewrite firstn_len_app, skipn_len_app, Ha. reflexivity.
Qed.

(* a different context tag is there: the field is absent *)
Lemma parse_field_explicit_other k j x rest :
  k < 31 -> j < 31 -> j <> k -> lenN x < 2 ^ 31 -> x ++ rest <> [] ->
  parse_field (Some k) optional utag ucomp content dflt (tlv (160 + j) x ++ rest)
  = miss (tlv (160 + j) x ++ rest).
Proof.
  intros Hk Hj Hjk Hn Hne. unfold parse_field, miss.
  assert (Hm : (160 + j) mod 32 = j).
  { replace (160 + j) with (j + 5 * 32) by lia. rewrite N.mod_add by lia. apply N.mod_small. lia. }
  rewrite parse_tl_tlv by (try assumption; lia).
  destruct (tlv (160 + j) x ++ rest) eqn:E; [now apply tlv_not_nil in E|]. rewrite <- E. clear E.
  destruct (x ++ rest) eqn:E; [contradiction|]. clear E.
  cbn [tl_of t_class t_tag t_comp t_len]. rewrite Hm.
  destruct (N.eqb_spec j k); [lia|]. rewrite andb_false_r. cbn [andb]. reflexivity.
Qed.

(* the right context tag around an element of another type *)
Lemma parse_field_explicit_inner_mismatch k b c rest :
  k < 31 -> b mod 32 <> 31 -> (b / 64 <> 0 \/ b mod 32 <> utag \/ N.testbit b 5 <> ucomp) ->
  lenN (tlv b c) < 2 ^ 31 ->
  parse_field (Some k) optional utag ucomp content dflt (tlv (160 + k) (tlv b c) ++ rest)
  = miss (tlv (160 + k) (tlv b c) ++ rest).
Proof.
  intros Hk Hb Hmis Hn. unfold parse_field, miss.
  assert (Hm : (160 + k) mod 32 = k).
  { replace (160 + k) with (k + 5 * 32) by lia. rewrite N.mod_add by lia. apply N.mod_small. lia. }
  assert (Hd : (160 + k) / 64 = 2).
  { symmetry. apply (N.div_unique (160 + k) 64 2 (32 + k)); lia. }
  assert (Hbit : N.testbit (160 + k) 5 = true).
  { assert (E : forallb (fun k => N.testbit (160 + k) 5) (map N.of_nat (seq 0 31)) = true) by (vm_compute; reflexivity).
    rewrite forallb_forall in E. apply E. apply in_map_iff. exists (N.to_nat k). split; [lia|]. apply in_seq. lia. }
  rewrite parse_tl_tlv by (try assumption; lia).
  destruct (tlv (160 + k) (tlv b c) ++ rest) eqn:E; [now apply tlv_not_nil in E|]. rewrite <- E. clear E.
  destruct (tlv b c ++ rest) eqn:E; [now apply tlv_not_nil in E|]. rewrite <- E. clear E.
  cbn [tl_of t_class t_tag t_comp t_len]. rewrite Hm, Hd, Hbit. repeat rewrite N.eqb_refl. rewrite orb_true_r. cbn [andb].
  assert (0 < lenN (tlv b c)) by (unfold tlv; rewrite lenN_cons; lia).
  destruct (N.ltb_spec 0 (lenN (tlv b c))); [|lia].
  assert (Hc' : lenN c < 2 ^ 31) by (unfold tlv in Hn; rewrite lenN_cons, lenN_app in Hn; lia).
  rewrite parse_tl_tlv by assumption.
  cbn [tl_of t_class t_tag t_comp t_len].
  destruct Hmis as [H1|[H1|H1]].
  - destruct (N.eqb_spec (b / 64) 0); [contradiction|]. cbn [andb negb orb]. reflexivity.
  - destruct (N.eqb_spec (b mod 32) utag); [contradiction|]. rewrite andb_false_r. cbn [andb negb orb]. reflexivity.
  - destruct (Bool.eqb (N.testbit b 5) ucomp) eqn:E; [apply eqb_prop in E; contradiction|].
    cbn [negb]. rewrite orb_true_r. reflexivity.
Qed.

Lemma parse_field_plain_content_none b c rest :
  b mod 32 <> 31 -> b / 64 = 0 -> b mod 32 = utag -> N.testbit b 5 = ucomp -> lenN c < 2 ^ 31 ->
  content c = None ->
  parse_field None optional utag ucomp content dflt (tlv b c ++ rest) = None.
Proof.
  intros Hb Hc Ht Hp Hn Ha. unfold parse_field.
  rewrite parse_tl_tlv by assumption.
  destruct (tlv b c ++ rest) eqn:E; [now apply tlv_not_nil in E|].
  cbn [tl_of t_class t_tag t_comp t_len]. rewrite Hc, Ht, Hp, eqb_reflx. repeat rewrite N.eqb_refl. cbn [andb negb orb].
  rewrite lenN_app. destruct (N.ltb_spec (lenN c + lenN rest) (lenN c)); [lia|].
  rewrite firstn_len_app, Ha. reflexivity.
Qed.
End Field.
