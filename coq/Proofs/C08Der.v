(* X.690 definite lengths: decode_len inverts der_len for every n (induction on base-256 digits);
   the Go encoders (spnego.encodeLength + header byte) produce exactly der_len. *)
From Coq Require Import List Arith NArith Lia Bool.
From Coq Require Import ZifyN ZifyNat ZifyBool.
From Mant Require Import Prim.R Prim.Bytes Prim.Der.
Import ListNotations.
Open Scope N_scope.

Lemma le_val_app a b : le_val (a ++ b) = le_val a + 2 ^ (8 * lenN a) * le_val b.
Proof.
  induction a as [|x a IH]; cbn [app le_val].
  - change (lenN (@nil N)) with 0. change (8 * 0) with 0. rewrite N.pow_0_r. lia.
  - rewrite IH, lenN_cons. replace (8 * (1 + lenN a)) with (8 + 8 * lenN a) by lia.
    rewrite N.pow_add_r. change (2 ^ 8) with 256. lia.
Qed.

Lemma be_val_snoc l b : be_val (l ++ [b]) = 256 * be_val l + b.
Proof. unfold be_val. rewrite rev_app_distr. cbn [rev app le_val]. lia. Qed.

Lemma pow2_pos f : 0 < 2 ^ f.
Proof. apply N.neq_0_lt_0, N.pow_nonzero. lia. Qed.

Lemma div256_lt n f : n < 2 ^ N.of_nat (S f) -> n / 256 < 2 ^ N.of_nat f.
Proof.
  intros H. replace (N.of_nat (S f)) with (1 + N.of_nat f) in H by lia.
  rewrite N.pow_add_r in H. change (2 ^ 1) with 2 in H.
  pose proof (pow2_pos (N.of_nat f)).
  pose proof (N.div_mod n 256 ltac:(lia)). pose proof (N.mod_lt n 256 ltac:(lia)). nia.
Qed.

Lemma be_val_be_digits_fuel f : forall n, n < 2 ^ N.of_nat f -> be_val (be_digits_fuel f n) = n.
Proof.
  induction f as [|f IH]; intros n H.
  - cbn in H. assert (n = 0) by lia. subst. reflexivity.
  - cbn [be_digits_fuel]. destruct (N.eqb_spec n 0) as [->|Hn]; [reflexivity|].
    rewrite be_val_snoc, IH by now apply div256_lt.
    pose proof (N.div_mod n 256 ltac:(lia)). lia.
Qed.

Lemma size_bound n : n < 2 ^ N.of_nat (N.to_nat (N.size n)).
Proof. rewrite N2Nat.id. apply N.size_gt. Qed.

Lemma be_val_be_digits n : be_val (be_digits n) = n.
Proof. apply be_val_be_digits_fuel, size_bound. Qed.

Lemma wf_be_digits_fuel f n : wf_bytes (be_digits_fuel f n).
Proof.
  revert n; induction f as [|f IH]; intros n; cbn [be_digits_fuel]; [constructor|].
  destruct (n =? 0); [constructor|]. apply wf_bytes_app. split; [apply IH|].
  constructor; [|constructor]. apply N.mod_lt. lia.
Qed.

(* number of digits *)
Lemma be_digits_fuel_length f : forall n k, n < 256 ^ N.of_nat k -> (length (be_digits_fuel f n) <= k)%nat.
Proof.
  induction f as [|f IH]; intros n k H; cbn [be_digits_fuel]; [cbn; lia|].
  destruct (N.eqb_spec n 0) as [->|Hn]; [cbn; lia|].
  destruct k as [|k]; [cbn in H; lia|].
  rewrite app_length. cbn [length].
  assert (n / 256 < 256 ^ N.of_nat k).
  { replace (N.of_nat (S k)) with (1 + N.of_nat k) in H by lia. rewrite N.pow_add_r in H.
    change (256 ^ 1) with 256 in H. apply N.div_lt_upper_bound; lia. }
  specialize (IH _ _ H0). lia.
Qed.

Lemma be_digits_length n k : n < 256 ^ N.of_nat k -> (length (be_digits n) <= k)%nat.
Proof. apply be_digits_fuel_length. Qed.

Lemma be_digits_nonempty n : 0 < n -> (1 <= length (be_digits n))%nat.
Proof.
  intros H. unfold be_digits. destruct n as [|p]; [lia|].
  assert (Hs : N.to_nat (N.size (N.pos p)) = S (pred (N.to_nat (N.size (N.pos p))))).
  { cbn [N.size]. lia. }
  rewrite Hs. cbn [be_digits_fuel]. cbn [N.eqb]. rewrite app_length. cbn [length]. lia.
Qed.

(* The main statement: every length, with any following octets. *)
Theorem decode_der_len n rest : n < 256 ^ 126 -> decode_len (der_len n ++ rest) = Some (n, rest).
Proof.
  intros Hn. unfold der_len. destruct (N.ltb_spec n 128) as [Hs|Hl].
  - cbn [app decode_len]. destruct (N.ltb_spec n 128); [reflexivity|lia].
  - pose proof (be_digits_length n 126 Hn) as Hlen.
    pose proof (be_digits_nonempty n ltac:(lia)) as Hne.
    set (ds := be_digits n) in *.
    cbn [app decode_len]. unfold lenN.
    destruct (N.ltb_spec (128 + N.of_nat (length ds)) 128); [lia|].
    destruct (N.eqb_spec (128 + N.of_nat (length ds)) 128); [lia|].
    destruct (N.eqb_spec (128 + N.of_nat (length ds)) 255); [lia|].
    cbn [orb].
    replace (N.to_nat (128 + N.of_nat (length ds) - 128)) with (length ds) by lia.
    rewrite app_length. destruct (Nat.ltb_spec (length ds + length rest) (length ds)); [lia|].
    rewrite firstn_app, firstn_all, Nat.sub_diag, skipn_app, skipn_all, Nat.sub_diag. cbn [firstn skipn app].
    rewrite app_nil_r. unfold ds. now rewrite be_val_be_digits.
Qed.

(* DER minimality (X.690 10.1): short form below 128, otherwise no leading zero octet. *)
Lemma be_digits_fuel_head f : forall n, n < 2 ^ N.of_nat f -> 0 < n -> exists d tl, be_digits_fuel f n = d :: tl /\ 0 < d.
Proof.
  induction f as [|f IH]; intros n H Hpos.
  - cbn in H. lia.
  - cbn [be_digits_fuel]. destruct (N.eqb_spec n 0); [lia|].
    destruct (N.eq_dec (n / 256) 0) as [Hz|Hz].
    + rewrite Hz. destruct f; cbn [be_digits_fuel N.eqb app]; exists (n mod 256), [];
        (split; [reflexivity|]); pose proof (N.div_mod n 256 ltac:(lia)); lia.
    + destruct (IH (n / 256)) as (d & tl & E & Hd); [now apply div256_lt|lia|].
      rewrite E. exists d, (tl ++ [n mod 256]). split; [reflexivity|exact Hd].
Qed.

Lemma be_digits_head n : 0 < n -> exists d tl, be_digits n = d :: tl /\ 0 < d.
Proof. intros H. apply be_digits_fuel_head; [apply size_bound|exact H]. Qed.

(* The Go side: encodeLength + the 0x80|count octet is der_len for every Go int length. *)
Lemma lor128_small k : k < 128 -> N.lor 128 k = 128 + k.
Proof.
  intros H. assert (E : forallb (fun k => N.lor 128 k =? 128 + k) (map N.of_nat (seq 0 128)) = true) by (vm_compute; reflexivity).
  rewrite forallb_forall in E. specialize (E k). rewrite N.eqb_eq in E. apply E.
  apply in_map_iff. exists (N.to_nat k). split; [lia|]. apply in_seq. lia.
Qed.

Theorem gss_header_len_der n : n < 2 ^ 63 -> gss_header_len n = der_len n.
Proof.
  intros H. unfold gss_header_len, der_len, encode_length.
  destruct (N.ltb_spec n 128) as [Hs|Hl]; [now rewrite N.mod_small by lia|].
  assert (Hk : (length (be_digits n) <= 8)%nat).
  { apply be_digits_length. change (256 ^ N.of_nat 8) with (2 ^ 64). change (2 ^ 64) with (2 * 2 ^ 63). lia. }
  unfold lenN. rewrite lor128_small by lia. rewrite N.mod_small by lia. reflexivity.
Qed.
