//go:build c03 || c04 || c05 || c07 || allprops

package main

import (
	"encoding/json"
	"fmt"
	"os"
	"path/filepath"
	"reflect"
	"sort"
	"strings"

	"github.com/TheManticoreProject/Manticore/network/smb/smb_v10/message/commands"
	"github.com/TheManticoreProject/Manticore/network/smb/smb_v10/message/commands/codes"
	"github.com/TheManticoreProject/Manticore/network/smb/smb_v10/message/commands/command_interface"
)

// smb.json is written by go2coq from the current source on every run (stage A).
type smbField struct {
	Name, Type, GovernedBy, Format string
}
type smbDesc struct {
	Name, Code        string
	IsAndX, IsRequest bool
	Translated        bool
	Fields            []smbField
	Opaque            []string
}

var smbDescs map[string]*smbDesc
var smbNames []string

func smbLoad() {
	if smbDescs != nil {
		return
	}
	exe, _ := os.Executable()
	raw, err := os.ReadFile(filepath.Join(filepath.Dir(exe), "..", "coq", "Gen", "smb.json"))
	if err != nil {
		panic(err)
	}
	var ds []*smbDesc
	if err := json.Unmarshal(raw, &ds); err != nil {
		panic(err)
	}
	smbDescs = map[string]*smbDesc{}
	for _, d := range ds {
		smbDescs[d.Name] = d
	}
}

// Constructors: all structures reachable from the request/response factories (the property's
// quantifier), found by driving the factories over all 256 codes.
type smbCtor struct {
	Name    string
	Code    codes.CommandCode
	Request bool
}

var smbCtors map[string]smbCtor

func smbFactories() map[string]smbCtor {
	if smbCtors != nil {
		return smbCtors
	}
	smbCtors = map[string]smbCtor{}
	for code := 0; code < 256; code++ {
		for _, req := range []bool{true, false} {
			var c command_interface.CommandInterface
			var err error
			if req {
				c, err = commands.CreateRequestCommand(codes.CommandCode(code))
			} else {
				c, err = commands.CreateResponseCommand(codes.CommandCode(code))
			}
			if err != nil || c == nil {
				continue
			}
			n := reflect.TypeOf(c).Elem().Name()
			if _, dup := smbCtors[n]; !dup {
				smbCtors[n] = smbCtor{n, codes.CommandCode(code), req}
			}
		}
	}
	smbNames = nil
	for n := range smbCtors {
		smbNames = append(smbNames, n)
	}
	sort.Strings(smbNames)
	return smbCtors
}

func smbNew(name string) command_interface.CommandInterface {
	ct, ok := smbFactories()[name]
	if !ok {
		return nil
	}
	var c command_interface.CommandInterface
	if ct.Request {
		c, _ = commands.CreateRequestCommand(ct.Code)
	} else {
		c, _ = commands.CreateResponseCommand(ct.Code)
	}
	c.Init()
	return c
}

// ---- reflection: structure fields <-> Val (declaration order, embedded Command skipped)

func projValue(v reflect.Value) Val {
	switch v.Kind() {
	case reflect.Uint8, reflect.Uint16, reflect.Uint32, reflect.Uint64, reflect.Uint:
		return U(v.Uint())
	case reflect.Int8:
		return U(uint64(uint8(v.Int())))
	case reflect.Int16:
		return U(uint64(uint16(v.Int())))
	case reflect.Int32:
		return U(uint64(uint32(v.Int())))
	case reflect.Int64, reflect.Int:
		return U(uint64(v.Int()))
	case reflect.Bool:
		return Bool(v.Bool())
	case reflect.String:
		return S(v.String())
	case reflect.Slice:
		if v.Type().Elem().Kind() == reflect.Uint8 {
			b := make([]byte, v.Len())
			for i := range b {
				b[i] = byte(v.Index(i).Uint())
			}
			return B(b)
		}
		fallthrough
	case reflect.Array:
		var l []Val
		for i := 0; i < v.Len(); i++ {
			l = append(l, projValue(v.Index(i)))
		}
		return L(l...)
	case reflect.Struct:
		if v.Type().Name() == "LARGE_INTEGER" {
			return U(v.Field(0).Uint())
		}
		var l []Val
		for i := 0; i < v.NumField(); i++ {
			if v.Type().Field(i).PkgPath != "" {
				continue
			}
			l = append(l, projValue(v.Field(i)))
		}
		return L(l...)
	case reflect.Ptr, reflect.Interface:
		if v.IsNil() {
			return L()
		}
		return projValue(v.Elem())
	}
	return L()
}

func setValue(v reflect.Value, x Val) {
	switch v.Kind() {
	case reflect.Uint8, reflect.Uint16, reflect.Uint32, reflect.Uint64, reflect.Uint:
		v.SetUint(x.N.Uint64() & (1<<(uint(v.Type().Size())*8) - 1))
		if v.Type().Size() == 8 {
			v.SetUint(x.N.Uint64())
		}
	case reflect.Int8:
		v.SetInt(int64(int8(x.N.Uint64())))
	case reflect.Int16:
		v.SetInt(int64(int16(x.N.Uint64())))
	case reflect.Int32:
		v.SetInt(int64(int32(x.N.Uint64())))
	case reflect.Int64, reflect.Int:
		v.SetInt(int64(x.N.Uint64()))
	case reflect.String:
		v.SetString(string(x.B))
	case reflect.Slice:
		if v.Type().Elem().Kind() == reflect.Uint8 {
			s := reflect.MakeSlice(v.Type(), len(x.B), len(x.B))
			for i := range x.B {
				s.Index(i).SetUint(uint64(x.B[i]))
			}
			v.Set(s)
			return
		}
		s := reflect.MakeSlice(v.Type(), len(x.L), len(x.L))
		for i := range x.L {
			setValue(s.Index(i), x.L[i])
		}
		v.Set(s)
	case reflect.Array:
		for i := 0; i < v.Len() && i < len(x.L); i++ {
			setValue(v.Index(i), x.L[i])
		}
	case reflect.Struct:
		if v.Type().Name() == "LARGE_INTEGER" {
			v.Field(0).SetUint(x.N.Uint64())
			return
		}
		j := 0
		for i := 0; i < v.NumField(); i++ {
			if v.Type().Field(i).PkgPath != "" {
				continue
			}
			if j < len(x.L) {
				setValue(v.Field(i), x.L[j])
			}
			j++
		}
	}
}

// command fields: the exported fields after the embedded command_interface.Command
func cmdFieldValues(c command_interface.CommandInterface) []reflect.Value {
	v := reflect.ValueOf(c).Elem()
	var out []reflect.Value
	for i := 0; i < v.NumField(); i++ {
		f := v.Type().Field(i)
		if f.Anonymous || f.PkgPath != "" {
			continue
		}
		out = append(out, v.Field(i))
	}
	return out
}

func cmdFieldNames(c command_interface.CommandInterface) []string {
	v := reflect.ValueOf(c).Elem()
	var out []string
	for i := 0; i < v.NumField(); i++ {
		f := v.Type().Field(i)
		if f.Anonymous || f.PkgPath != "" {
			continue
		}
		out = append(out, f.Name)
	}
	return out
}

func cmdGet(c command_interface.CommandInterface) Val {
	var l []Val
	for _, f := range cmdFieldValues(c) {
		l = append(l, projValue(f))
	}
	return L(l...)
}

func cmdSet(c command_interface.CommandInterface, fields Val) {
	for i, f := range cmdFieldValues(c) {
		if i < len(fields.L) {
			setValue(f, fields.L[i])
		}
	}
}

// ---- value generation

func randOfKind(r *Rng, t reflect.Type, distinct bool) Val {
	return randOfKindMode(r, t, map[bool]int{false: 0, true: 1}[distinct])
}

// mode 0: random with boundary values, 1: bytes pairwise distinct, 2: smallest value of the type's domain
func randOfKindMode(r *Rng, t reflect.Type, mode int) Val {
	distinct := mode == 1
	if mode == 2 {
		switch t.Kind() {
		case reflect.Uint8, reflect.Int8, reflect.Uint16, reflect.Int16, reflect.Uint32, reflect.Int32, reflect.Uint64, reflect.Int64:
			return U(0)
		case reflect.Slice:
			if t.Elem().Kind() == reflect.Uint8 {
				return B(nil)
			}
			return L()
		case reflect.String:
			return S("")
		case reflect.Array:
			var l []Val
			for i := 0; i < t.Len(); i++ {
				l = append(l, randOfKindMode(r, t.Elem(), 2))
			}
			return L(l...)
		case reflect.Struct:
			switch t.Name() {
			case "LARGE_INTEGER":
				return U(0)
			case "SMB_STRING":
				return L(U(0), U(0), B(nil))
			case "SMB_DATE":
				return L(U(1980), U(0), U(0))
			}
			var l []Val
			for i := 0; i < t.NumField(); i++ {
				if t.Field(i).PkgPath != "" {
					continue
				}
				l = append(l, randOfKindMode(r, t.Field(i).Type, 2))
			}
			return L(l...)
		}
		return L()
	}
	switch t.Kind() {
	case reflect.Uint8, reflect.Int8:
		if distinct {
			return U(0xA1)
		}
		return U(r.U64Edge() & 0xff)
	case reflect.Uint16, reflect.Int16:
		if distinct {
			return U((0x0102 + uint64(r.Intn(100))*0x0202) & 0xffff)
		}
		return U(r.U64Edge() & 0xffff)
	case reflect.Uint32, reflect.Int32:
		if distinct {
			return U((0x01020304 + uint64(r.Intn(50))*0x04040404) & 0xffffffff)
		}
		return U(r.U64Edge() & 0xffffffff)
	case reflect.Uint64, reflect.Int64:
		if distinct {
			return U(0x0102030405060708)
		}
		return U(r.U64Edge())
	case reflect.Slice:
		if t.Elem().Kind() == reflect.Uint8 {
			return B(r.Bytes(r.Pick(0, 0, 1, 2, 3, 4, 7, 8, 16, 33)))
		}
		n := r.Intn(4)
		var l []Val
		for i := 0; i < n; i++ {
			l = append(l, randOfKindMode(r, t.Elem(), mode))
		}
		return L(l...)
	case reflect.Array:
		var l []Val
		for i := 0; i < t.Len(); i++ {
			l = append(l, randOfKindMode(r, t.Elem(), mode))
		}
		return L(l...)
	case reflect.String:
		return S(r.StringOver("ABCabc019. _", r.Intn(10)))
	case reflect.Struct:
		switch t.Name() {
		case "LARGE_INTEGER":
			if distinct {
				return U(0x0102030405060708)
			}
			return U(r.U64Edge())
		case "SMB_STRING":
			b := []byte(r.StringOver("ABCDEFabcdef0123456789\\._ $", r.Pick(0, 1, 2, 5, 8, 12, 31)))
			return L(U(0), U(uint64(len(b))), B(b))
		case "SMB_DATE":
			return L(U(1980+uint64(r.Intn(128))), U(uint64(r.Intn(16))), U(uint64(r.Intn(32))))
		}
		var l []Val
		for i := 0; i < t.NumField(); i++ {
			if t.Field(i).PkgPath != "" {
				continue
			}
			l = append(l, randOfKindMode(r, t.Field(i).Type, mode))
		}
		return L(l...)
	}
	return L()
}

// genFields builds an internally consistent assignment: every count that governs a buffer (read by
// Unmarshal as raw[offset:offset+int(c.Count)]) is set to that buffer's length.
func genFields(r *Rng, name string, distinct bool) Val {
	return genFieldsMode(r, name, map[bool]int{false: 0, true: 1}[distinct])
}

func genFieldsMode(r *Rng, name string, mode int) Val {
	smbLoad()
	c := smbNew(name)
	fvs := cmdFieldValues(c)
	names := cmdFieldNames(c)
	vals := make([]Val, len(fvs))
	idx := map[string]int{}
	for i, n := range names {
		idx[n] = i
		vals[i] = randOfKindMode(r, fvs[i].Type(), mode)
	}
	if d := smbDescs[name]; d != nil {
		for _, f := range d.Fields {
			if f.GovernedBy != "" {
				if gi, ok := idx[f.GovernedBy]; ok {
					if fi, ok := idx[f.Name]; ok && vals[fi].K == 'x' {
						vals[gi] = U(uint64(len(vals[fi].B)))
					}
				}
			}
		}
	}
	return L(vals...)
}

func smbMarshalN(name string, fields Val, n int) Val {
	c := smbNew(name)
	if c == nil {
		return VErr()
	}
	cmdSet(c, fields)
	var outs []Val
	for i := 0; i < n; i++ {
		var o Val
		func() {
			defer func() {
				if rec := recover(); rec != nil {
					o = VPanic()
				}
			}()
			b, err := c.Marshal()
			if err != nil {
				o = VErr()
			} else {
				o = B(b)
			}
		}()
		outs = append(outs, o)
		if o.K != 'x' {
			// field values after a failed Marshal are not part of the observation
			return L(L(outs...), L())
		}
	}
	return L(L(outs...), cmdGet(c))
}

func smbUnmarshal(name string, data []byte) (Val, command_interface.CommandInterface) {
	c := smbNew(name)
	if c == nil {
		return VErr(), nil
	}
	_, err := c.Unmarshal(exact(data))
	if err != nil {
		return VErr(), c
	}
	return cmdGet(c), c
}

func init() {
	Impl("smb.marshal", func(a []Val) Val { return smbMarshalN(a[0].Str(), a[1], int(a[2].Int())) })
	Impl("smb.unmarshal", func(a []Val) Val { v, _ := smbUnmarshal(a[0].Str(), a[1].B); return v })
}

func valsEqual(a, b Val) bool { return a.String() == b.String() }

// firstDiff names the first field whose projected values differ.
func firstDiff(names []string, a, b Val) string {
	for i := range names {
		if i >= len(a.L) || i >= len(b.L) || !valsEqual(a.L[i], b.L[i]) {
			return names[i]
		}
	}
	return ""
}

func hexs(b []byte) string { return fmt.Sprintf("%x", b) }

var _ = strings.Join
