//go:build c15 || allprops

// C15 — Windows time and duration conversions are exact, inverse and overflow-free.
// Impl runners project the real code; oracles restate the property with math/big.
package main

import (
	"encoding/binary"
	"fmt"
	"math/big"
	"os"
	"regexp"
	"time"
	_ "time/tzdata"

	"github.com/TheManticoreProject/Manticore/crypto/uuid/uuid_v1"
	"github.com/TheManticoreProject/Manticore/crypto/uuid/uuid_v2"
	"github.com/TheManticoreProject/Manticore/network/ldap"
	"github.com/TheManticoreProject/Manticore/windows/keycredential/key"
	kcutils "github.com/TheManticoreProject/Manticore/windows/keycredential/utils"
	ds "github.com/TheManticoreProject/Manticore/windows/ms_dtyp/common/data_structures"
)

// ---------------------------------------------------------------- exact arithmetic (math/big)

var (
	c15FiletimeEpoch = big.NewInt(116444736000000000) // ticks between 1601-01-01 and 1970-01-01 (MS-DTYP 2.3.3)
	c15UuidEpoch     = big.NewInt(122192928000000000) // ticks between 1582-10-15 and 1970-01-01 (RFC 4122 4.1.4)
	c15E7            = big.NewInt(10000000)
	c15E9            = big.NewInt(1000000000)
	c15Hundred       = big.NewInt(100)
	c15MinI64        = new(big.Int).Neg(new(big.Int).Lsh(big.NewInt(1), 63))
	c15MaxI64        = new(big.Int).Sub(new(big.Int).Lsh(big.NewInt(1), 63), big.NewInt(1))
	c15MaxU64        = new(big.Int).Sub(new(big.Int).Lsh(big.NewInt(1), 64), big.NewInt(1))
)

func c15InI64(b *big.Int) bool { return b.Cmp(c15MinI64) >= 0 && b.Cmp(c15MaxI64) <= 0 }
func c15InU64(b *big.Int) bool { return b.Sign() >= 0 && b.Cmp(c15MaxU64) <= 0 }

// floor division / modulus (big.Int Div/Mod are Euclidean; the divisors here are positive)
func c15Floor(a, b *big.Int) *big.Int { return new(big.Int).Div(a, b) }
func c15Mod(a, b *big.Int) *big.Int   { return new(big.Int).Mod(a, b) }

// exact ticks (since `epoch` ticks before 1970) of the instant sec s + nsec ns, rounded down to a tick
func c15TicksOfTime(sec, nsec int64, epoch *big.Int) *big.Int {
	ns := new(big.Int).Mul(big.NewInt(sec), c15E9)
	ns.Add(ns, big.NewInt(nsec))
	return new(big.Int).Add(c15Floor(ns, c15Hundred), epoch)
}

// exact (unix second, nanosecond) of a tick count since `epoch` ticks before 1970
func c15TimeOfTicks(ticks, epoch *big.Int) (*big.Int, *big.Int) {
	d := new(big.Int).Sub(ticks, epoch)
	return c15Floor(d, c15E7), new(big.Int).Mul(c15Mod(d, c15E7), c15Hundred)
}

func c15SameTime(t time.Time, sec, nsec *big.Int) bool {
	return sec.IsInt64() && t.Unix() == sec.Int64() && int64(t.Nanosecond()) == nsec.Int64()
}

// era classifies an instant for narrow finding keys
func c15Era(sec *big.Int) string {
	switch {
	case sec.Cmp(big.NewInt(-9223372037)) < 0:
		return "before-1677"
	case sec.Cmp(big.NewInt(9223372036)) > 0:
		return "after-2262"
	case sec.Sign() < 0:
		return "1677-1970"
	}
	return "1970-2262"
}

func c15Time(v Val) (time.Time, int64, int64) {
	sec, nsec := v.L[0].Int(), v.L[1].Int()
	// the same instant, presented in a location chosen from the value itself: a conversion depends on the
	// instant only, never on the zone the caller's time.Time happens to carry (zones with daylight saving time
	// have a repeated local hour once a year)
	t := time.Unix(sec, nsec)
	if z := c15Zones(); len(z) > 0 {
		t = t.In(z[int(uint64(sec^nsec)%uint64(len(z)))])
	}
	return t, sec, nsec
}

var c15ZoneCache []*time.Location

func c15Zones() []*time.Location {
	if c15ZoneCache == nil {
		c15ZoneCache = []*time.Location{time.UTC, time.FixedZone("plus", 5*3600+1800), time.FixedZone("minus", -11*3600)}
		for _, n := range []string{"America/New_York", "Europe/Paris", "Australia/Lord_Howe"} {
			if l, err := time.LoadLocation(n); err == nil {
				c15ZoneCache = append(c15ZoneCache, l)
			}
		}
	}
	return c15ZoneCache
}
func c15TV(t time.Time) Val { return L(I(t.Unix()), I(int64(t.Nanosecond()))) }

var c15DevNull, _ = os.OpenFile(os.DevNull, os.O_WRONLY, 0)

// quiet runs f with os.Stdout silenced (the ldap conversions print a diagnostic on bad input).
func c15Quiet(f func()) {
	old := os.Stdout
	if c15DevNull != nil {
		os.Stdout = c15DevNull
	}
	defer func() { os.Stdout = old }()
	f()
}

func c15FT(a []Val) *ds.FILETIME {
	return &ds.FILETIME{DwLowDateTime: uint32(a[0].Uint()), DwHighDateTime: uint32(a[1].Uint())}
}

func c15Version(v uint64) key.KeyCredentialVersion {
	return key.KeyCredentialVersion{Value: uint32(v)}
}

// the DateTime projection: (ticks, unix second, nanosecond); () when the input tick count is 0,
// for which the code substitutes the current time (checked to be close to now here).
func c15DT(inTicks uint64, dt kcutils.DateTime) Val {
	if inTicks == 0 {
		now := time.Now()
		d := dt.Time.Sub(now)
		if d < -time.Minute || d > time.Minute {
			return L(S("not-now"))
		}
		want := c15TicksOfTime(dt.Time.Unix(), int64(dt.Time.Nanosecond()), c15FiletimeEpoch)
		if !want.IsUint64() || want.Uint64() != dt.Ticks {
			return L(S("now-ticks-mismatch"))
		}
		return L()
	}
	return L(U(dt.Ticks), I(dt.Time.Unix()), I(int64(dt.Time.Nanosecond())))
}

var c15IntRe = regexp.MustCompile(`^[+-]?[0-9]+$`)

// reference reading of a decimal int64 string (strconv.ParseInt base 10 contract): nil when it is not one
func c15ParseI64(s string) *big.Int {
	if !c15IntRe.MatchString(s) {
		return nil
	}
	b, ok := new(big.Int).SetString(s, 10)
	if !ok || !c15InI64(b) {
		return nil
	}
	return b
}

func c15NoPanic(entry string, f func()) (key, detail string) {
	defer func() {
		if r := recover(); r != nil {
			key, detail = "C15/panic/"+entry, fmt.Sprintf("%s panicked: %v", entry, r)
		}
	}()
	f()
	return "", ""
}

func init() {
	// ------------------------------------------------------------ implementation runners
	Impl("filetime.from_time", func(a []Val) Val {
		t, _, _ := c15Time(a[0])
		ft := ds.NewFILETIMEFromTime(t)
		return L(U(uint64(ft.DwLowDateTime)), U(uint64(ft.DwHighDateTime)))
	})
	Impl("filetime.to_int64", func(a []Val) Val { return I(c15FT(a).ToInt64()) })
	Impl("filetime.get_time", func(a []Val) Val { return c15TV(c15FT(a).GetTime()) })
	Impl("filetime.unix_ts", func(a []Val) Val { return I(c15FT(a).GetUnixTimestamp()) })
	Impl("filetime.unmarshal", func(a []Val) Val {
		ft := &ds.FILETIME{}
		n, err := ft.Unmarshal(exact(a[0].B))
		if err != nil {
			return VErr()
		}
		return L(I(int64(n)), U(uint64(ft.DwLowDateTime)), U(uint64(ft.DwHighDateTime)))
	})
	Impl("filetime.marshal", func(a []Val) Val {
		b, err := c15FT(a).Marshal()
		if err != nil {
			return VErr()
		}
		return B(b)
	})
	Impl("ldap.ts_to_unix", func(a []Val) Val {
		var r int64
		c15Quiet(func() { r = ldap.ConvertLDAPTimeStampToUnixTimeStamp(a[0].Str()) })
		return I(r)
	})
	Impl("ldap.unix_to_ts", func(a []Val) Val {
		t, _, _ := c15Time(a[0])
		return I(ldap.ConvertUnixTimeStampToLDAPTimeStamp(t))
	})
	Impl("ldap.dur_to_sec", func(a []Val) Val {
		var r int64
		c15Quiet(func() { r = ldap.ConvertLDAPDurationToSeconds(a[0].Str()) })
		return I(r)
	})
	Impl("ldap.sec_to_dur", func(a []Val) Val { return S(ldap.ConvertSecondsToLDAPDuration(a[0].Int())) })
	Impl("datetime.new", func(a []Val) Val {
		dt := kcutils.NewDateTime(a[0].Uint())
		if dt.ToTicks() != dt.Ticks {
			return L(S("ToTicks"))
		}
		return c15DT(a[0].Uint(), dt)
	})
	Impl("datetime.to_bytes", func(a []Val) Val {
		if a[0].Uint() == 0 {
			return B(nil)
		}
		return B(kcutils.NewDateTime(a[0].Uint()).ToBytes())
	})
	// args: raw bytes, key source, version value
	Impl("datetime.from_binary", func(a []Val) Val {
		raw := exact(a[0].B)
		dt := kcutils.ConvertFromBinaryTime(raw, key.KeySource(a[1].Int()), c15Version(a[2].Uint()))
		if len(raw) < 8 {
			// no tick count could be read: project the plain result
			return L(U(dt.Ticks), I(dt.Time.Unix()), I(int64(dt.Time.Nanosecond())))
		}
		return c15DT(binary.LittleEndian.Uint64(raw), dt)
	})
	// args: (sec nsec), key source, version value
	Impl("datetime.to_binary", func(a []Val) Val {
		t, _, _ := c15Time(a[0])
		return B(kcutils.ConvertToBinaryTime(t, key.KeySource(a[1].Int()), c15Version(a[2].Uint())))
	})
	Impl("uuidv1.get_time", func(a []Val) Val {
		u := &uuid_v1.UUIDv1{}
		u.Time = a[0].Uint()
		return c15TV(u.GetTime())
	})
	Impl("uuidv1.set_time", func(a []Val) Val {
		u := &uuid_v1.UUIDv1{}
		t, _, _ := c15Time(a[0])
		u.SetTime(t)
		return U(u.Time)
	})
	Impl("uuidv2.get_time", func(a []Val) Val {
		u := &uuid_v2.UUIDv2{}
		u.Time = a[0].Uint()
		return c15TV(u.GetTime())
	})
	Impl("uuidv2.set_time", func(a []Val) Val {
		u := &uuid_v2.UUIDv2{}
		t, _, _ := c15Time(a[0])
		u.SetTime(t)
		return U(u.Time)
	})

	// ------------------------------------------------------------ oracles
	// FILETIME <- time: args (sec nsec).  Exact whenever the tick count fits the 64-bit FILETIME.
	Oracle("c15.filetime.from_time", func(a []Val) (string, string) {
		t, sec, nsec := c15Time(a[0])
		want := c15TicksOfTime(sec, nsec, c15FiletimeEpoch)
		if !c15InI64(want) {
			return "", ""
		}
		ft := ds.NewFILETIMEFromTime(t)
		got := int64(uint64(ft.DwHighDateTime)<<32 | uint64(ft.DwLowDateTime))
		if got != want.Int64() || ft.ToInt64() != got {
			k := "C15/filetime-from-time/" + c15Era(big.NewInt(sec))
			if new(big.Int).Sub(want, big.NewInt(got)).CmpAbs(big.NewInt(1)) <= 0 {
				k = "C15/filetime-from-time/pre-1970-sub-tick-rounding"
			}
			return k, fmt.Sprintf("NewFILETIMEFromTime(unix %d s + %d ns) = %d ticks (ToInt64 %d), exact %s", sec, nsec, got, ft.ToInt64(), want)
		}
		// inverse: the FILETIME reads back as the same instant rounded down to a tick
		back := ft.GetTime()
		if back.Unix() != sec || int64(back.Nanosecond()) != nsec-nsec%100 {
			return "C15/filetime-inverse/" + c15Era(big.NewInt(sec)), fmt.Sprintf("time (%d,%d) -> FILETIME %d -> time (%d,%d)", sec, nsec, got, back.Unix(), back.Nanosecond())
		}
		return "", ""
	})
	// FILETIME -> time: args low, high.  Every 64-bit value (read as signed, as ToInt64 does) is representable.
	Oracle("c15.filetime.get_time", func(a []Val) (string, string) {
		ft := c15FT(a)
		v := int64(a[1].Uint()<<32 | a[0].Uint())
		if ft.ToInt64() != v {
			return "C15/filetime-to-int64", fmt.Sprintf("ToInt64(low %#x, high %#x) = %d, want %d", a[0].Uint(), a[1].Uint(), ft.ToInt64(), v)
		}
		sec, nsec := c15TimeOfTicks(big.NewInt(v), c15FiletimeEpoch)
		got := ft.GetTime()
		if !c15SameTime(got, sec, nsec) {
			k := "C15/filetime-get-time/" + c15Era(sec)
			if uint64(v) == 0x7FFFFFFFFFFFFFFF || uint64(v) == 0x8000000000000000 {
				k = "C15/filetime-get-time/never-sentinel"
			}
			return k, fmt.Sprintf("FILETIME %d: GetTime = (%d s, %d ns), exact (%s s, %s ns)", v, got.Unix(), got.Nanosecond(), sec, nsec)
		}
		if ft.GetUnixTimestamp() != sec.Int64() {
			return "C15/filetime-unix-timestamp", fmt.Sprintf("FILETIME %d: GetUnixTimestamp = %d, exact %s", v, ft.GetUnixTimestamp(), sec)
		}
		// inverse: ticks -> time -> ticks
		ft2 := ds.NewFILETIMEFromTime(got)
		if *ft2 != *ft {
			return "C15/filetime-inverse/" + c15Era(sec), fmt.Sprintf("FILETIME %d -> time -> FILETIME %d", v, ft2.ToInt64())
		}
		// binary form
		b, err := ft.Marshal()
		ft3 := &ds.FILETIME{}
		if err != nil || len(b) != 8 || binary.LittleEndian.Uint64(b) != uint64(v) {
			return "C15/filetime-marshal", fmt.Sprintf("FILETIME %d marshals to %x", v, b)
		}
		if n, err := ft3.Unmarshal(exact(b)); err != nil || n != 8 || *ft3 != *ft {
			return "C15/filetime-marshal", fmt.Sprintf("FILETIME %d does not unmarshal from %x", v, b)
		}
		return "", ""
	})
	// LDAP timestamp string -> unix seconds: arg string
	Oracle("c15.ldap.ts_to_unix", func(a []Val) (string, string) {
		s := a[0].Str()
		var got int64
		c15Quiet(func() { got = ldap.ConvertLDAPTimeStampToUnixTimeStamp(s) })
		v := c15ParseI64(s)
		want := big.NewInt(0) // documented: invalid input and instants before 1970 give 0
		if v != nil && v.Cmp(c15FiletimeEpoch) >= 0 {
			want, _ = c15TimeOfTicks(v, c15FiletimeEpoch)
		}
		if got != want.Int64() {
			k := "C15/ldap-timestamp/" + c15Era(want)
			if v != nil && v.Cmp(c15MaxI64) == 0 {
				k = "C15/ldap-timestamp/never-sentinel"
			} else if v == nil {
				k = "C15/ldap-timestamp/invalid-input"
			}
			return k, fmt.Sprintf("ConvertLDAPTimeStampToUnixTimeStamp(%q) = %d, exact %s", s, got, want)
		}
		return "", ""
	})
	// time -> LDAP timestamp: args (sec nsec)
	Oracle("c15.ldap.unix_to_ts", func(a []Val) (string, string) {
		t, sec, _ := c15Time(a[0])
		want := new(big.Int).Add(new(big.Int).Mul(big.NewInt(sec), c15E7), c15FiletimeEpoch)
		if !c15InI64(want) {
			return "", ""
		}
		got := ldap.ConvertUnixTimeStampToLDAPTimeStamp(t)
		if got != want.Int64() {
			return "C15/ldap-unix-to-timestamp/" + c15Era(big.NewInt(sec)), fmt.Sprintf("ConvertUnixTimeStampToLDAPTimeStamp(unix %d) = %d, exact %s", sec, got, want)
		}
		// inverse (from 1970 on; earlier instants are clamped to 0 by design)
		var back int64
		c15Quiet(func() { back = ldap.ConvertLDAPTimeStampToUnixTimeStamp(fmt.Sprintf("%d", got)) })
		if sec >= 0 && back != sec {
			return "C15/ldap-timestamp-inverse/" + c15Era(big.NewInt(sec)), fmt.Sprintf("unix %d -> %d -> unix %d", sec, got, back)
		}
		return "", ""
	})
	// LDAP duration string -> seconds: arg string
	Oracle("c15.ldap.dur_to_sec", func(a []Val) (string, string) {
		s := a[0].Str()
		var got int64
		c15Quiet(func() { got = ldap.ConvertLDAPDurationToSeconds(s) })
		v := c15ParseI64(s)
		want := big.NewInt(0)
		if v != nil {
			want = new(big.Int).Quo(new(big.Int).Abs(v), c15E7)
		}
		if got != want.Int64() {
			k := "C15/ldap-duration"
			if v != nil && v.Cmp(c15MinI64) == 0 {
				k = "C15/ldap-duration/never-sentinel-min-int64"
			} else if v == nil {
				k = "C15/ldap-duration/invalid-input"
			}
			return k, fmt.Sprintf("ConvertLDAPDurationToSeconds(%q) = %d, exact %s", s, got, want)
		}
		return "", ""
	})
	// seconds -> LDAP duration string: arg n
	Oracle("c15.ldap.sec_to_dur", func(a []Val) (string, string) {
		sec := a[0].Int()
		want := new(big.Int).Mul(big.NewInt(sec), c15E7)
		got := ldap.ConvertSecondsToLDAPDuration(sec)
		if got != want.String() {
			return "C15/ldap-seconds-to-duration/product-exceeds-int64", fmt.Sprintf("ConvertSecondsToLDAPDuration(%d) = %q, exact %s", sec, got, want)
		}
		// inverse, when the interval is a representable LDAP large integer
		if c15InI64(want) {
			var back int64
			c15Quiet(func() { back = ldap.ConvertLDAPDurationToSeconds(got) })
			abs := sec
			if abs < 0 {
				abs = -abs
			}
			if back != abs {
				return "C15/ldap-duration-inverse", fmt.Sprintf("seconds %d -> %q -> seconds %d", sec, got, back)
			}
			// the Active Directory form of an interval is negative
			c15Quiet(func() { back = ldap.ConvertLDAPDurationToSeconds("-" + new(big.Int).Abs(want).String()) })
			if back != abs {
				return "C15/ldap-duration-inverse", fmt.Sprintf("seconds %d -> negative interval -> seconds %d", sec, back)
			}
		}
		return "", ""
	})
	// key-credential DateTime: arg ticks (non-zero; zero means "now")
	Oracle("c15.datetime", func(a []Val) (string, string) {
		ticks := a[0].Uint()
		if ticks == 0 {
			return "", ""
		}
		tb := new(big.Int).SetUint64(ticks)
		sec, nsec := c15TimeOfTicks(tb, c15FiletimeEpoch)
		le := binary.LittleEndian.AppendUint64(nil, ticks)
		dt := kcutils.NewDateTime(ticks)
		if dt.Ticks != ticks || dt.ToTicks() != ticks || string(dt.ToBytes()) != string(le) {
			return "C15/datetime-ticks", fmt.Sprintf("NewDateTime(%d) keeps ticks %d, bytes %x", ticks, dt.Ticks, dt.ToBytes())
		}
		if !c15SameTime(dt.Time, sec, nsec) || !c15SameTime(dt.ToUniversalTime(), sec, nsec) {
			return "C15/datetime-time/" + c15Era(sec), fmt.Sprintf("NewDateTime(%d).Time = (%d s, %d ns), exact (%s s, %s ns)", ticks, dt.Time.Unix(), dt.Time.Nanosecond(), sec, nsec)
		}
		for _, src := range []key.KeySource{key.KeySource_AD, key.KeySource_AzureAD} {
			for _, ver := range []uint32{key.KeyCredentialVersion_0, key.KeyCredentialVersion_1, key.KeyCredentialVersion_2, 0x300} {
				d2 := kcutils.ConvertFromBinaryTime(exact(le), src, c15Version(uint64(ver)))
				if d2.Ticks != ticks || !c15SameTime(d2.Time, sec, nsec) {
					return "C15/datetime-from-binary/" + c15Era(sec), fmt.Sprintf("ConvertFromBinaryTime(%x) = ticks %d (%d s, %d ns), exact (%s s, %s ns)", le, d2.Ticks, d2.Time.Unix(), d2.Time.Nanosecond(), sec, nsec)
				}
				// inverse: time -> binary -> the same tick count
				back := kcutils.ConvertToBinaryTime(dt.Time, src, c15Version(uint64(ver)))
				if string(back) != string(le) {
					return "C15/datetime-binary-inverse", fmt.Sprintf("ticks %d -> time -> ConvertToBinaryTime = %x, want %x", ticks, back, le)
				}
			}
		}
		return "", ""
	})
	// time -> key-credential binary time: args (sec nsec)
	Oracle("c15.datetime.to_binary", func(a []Val) (string, string) {
		t, sec, nsec := c15Time(a[0])
		want := c15TicksOfTime(sec, nsec, c15FiletimeEpoch)
		if !c15InU64(want) {
			return "", ""
		}
		got := kcutils.ConvertToBinaryTime(t, key.KeySource_AD, c15Version(uint64(key.KeyCredentialVersion_2)))
		if len(got) != 8 || binary.LittleEndian.Uint64(got) != want.Uint64() {
			return "C15/datetime-to-binary/" + c15Era(big.NewInt(sec)), fmt.Sprintf("ConvertToBinaryTime(unix %d s + %d ns) = %x, exact ticks %s", sec, nsec, got, want)
		}
		return "", ""
	})
	// UUID timestamps: args version (1|2), timestamp
	Oracle("c15.uuid.get_time", func(a []Val) (string, string) {
		ts := a[1].Uint()
		var got, again time.Time
		var back uint64
		if a[0].Int() == 1 {
			u := &uuid_v1.UUIDv1{}
			u.Time = ts
			got = u.GetTime()
			u.SetTime(got)
			back = u.Time
			again = u.GetTime()
		} else {
			u := &uuid_v2.UUIDv2{}
			u.Time = ts
			got = u.GetTime()
			u.SetTime(got)
			back = u.Time
			again = u.GetTime()
		}
		sec, nsec := c15TimeOfTicks(new(big.Int).SetUint64(ts), c15UuidEpoch)
		if !c15SameTime(got, sec, nsec) {
			return fmt.Sprintf("C15/uuidv%d-get-time/%s", a[0].Int(), c15Era(sec)), fmt.Sprintf("UUIDv%d timestamp %d: GetTime = (%d s, %d ns), exact (%s s, %s ns)", a[0].Int(), ts, got.Unix(), got.Nanosecond(), sec, nsec)
		}
		if back != ts || !again.Equal(got) {
			return fmt.Sprintf("C15/uuidv%d-inverse/%s", a[0].Int(), c15Era(sec)), fmt.Sprintf("UUIDv%d timestamp %d -> time -> timestamp %d", a[0].Int(), ts, back)
		}
		return "", ""
	})
	// args version (1|2), (sec nsec)
	Oracle("c15.uuid.set_time", func(a []Val) (string, string) {
		t, sec, nsec := c15Time(a[1])
		want := c15TicksOfTime(sec, nsec, c15UuidEpoch)
		if !c15InU64(want) {
			return "", ""
		}
		var got uint64
		var back time.Time
		if a[0].Int() == 1 {
			u := &uuid_v1.UUIDv1{}
			u.SetTime(t)
			got = u.Time
			back = u.GetTime()
		} else {
			u := &uuid_v2.UUIDv2{}
			u.SetTime(t)
			got = u.Time
			back = u.GetTime()
		}
		if got != want.Uint64() {
			k := fmt.Sprintf("C15/uuidv%d-set-time/%s", a[0].Int(), c15Era(big.NewInt(sec)))
			if new(big.Int).Sub(want, new(big.Int).SetUint64(got)).CmpAbs(big.NewInt(1)) <= 0 {
				k = fmt.Sprintf("C15/uuidv%d-set-time/pre-1970-sub-tick-rounding", a[0].Int())
			}
			return k, fmt.Sprintf("UUIDv%d SetTime(unix %d s + %d ns) = %d, exact %s", a[0].Int(), sec, nsec, got, want)
		}
		if back.Unix() != sec || int64(back.Nanosecond()) != nsec-nsec%100 {
			return fmt.Sprintf("C15/uuidv%d-inverse/%s", a[0].Int(), c15Era(big.NewInt(sec))), fmt.Sprintf("UUIDv%d time (%d,%d) -> %d -> time (%d,%d)", a[0].Int(), sec, nsec, got, back.Unix(), back.Nanosecond())
		}
		return "", ""
	})

	// totality observations (reused by the C07 aggregation): no input makes a decoder panic
	Oracle("c15.total.filetime_unmarshal", func(a []Val) (string, string) {
		return c15NoPanic("filetime-unmarshal", func() {
			ft := &ds.FILETIME{}
			n, err := ft.Unmarshal(exact(a[0].B))
			if (err == nil) != (len(a[0].B) >= 8) || (err == nil && n != 8) {
				panic(fmt.Sprintf("consumed %d bytes of %d, err=%v", n, len(a[0].B), err))
			}
		})
	})
	Oracle("c15.total.from_binary_time", func(a []Val) (string, string) {
		return c15NoPanic("keycredential-from-binary-time", func() {
			kcutils.ConvertFromBinaryTime(exact(a[0].B), key.KeySource(a[1].Int()), c15Version(a[2].Uint()))
		})
	})
	Oracle("c15.total.ldap_timestamp", func(a []Val) (string, string) {
		return c15NoPanic("ldap-timestamp", func() {
			c15Quiet(func() { ldap.ConvertLDAPTimeStampToUnixTimeStamp(a[0].Str()) })
		})
	})
	Oracle("c15.total.ldap_duration", func(a []Val) (string, string) {
		return c15NoPanic("ldap-duration", func() {
			c15Quiet(func() { ldap.ConvertLDAPDurationToSeconds(a[0].Str()) })
		})
	})

	Gen("C15", genC15)
}

// ---------------------------------------------------------------- generators

// boundary tick counts (as uint64 bit patterns)
func c15TickCorpus() []uint64 {
	const ft = uint64(116444736000000000)
	const uu = uint64(122192928000000000)
	base := []uint64{
		0, 1, 2, 99, 100, 9999999, 10000000, 10000001,
		ft, uu, // the two epochs
		ft - 92233720368547758, ft + 92233720368547758, // int64-nanosecond limits seen from 1970 (1677 / 2262)
		uu - 92233720368547758, uu + 92233720368547758,
		92233720368547758,                                          // ticks*100 reaches 2^63
		184467440737095516,                                         // ticks*100 reaches 2^64 (year 2185)
		0x7FFFFFFFFFFFFFFF, 0x8000000000000000, 0xFFFFFFFFFFFFFFFF, // never sentinels, type extremes
		1 << 60, 1<<60 - 1, 0x0FFFFFFFFFFFFFFF, // 60-bit UUID timestamp limit
		1 << 32, 1<<32 - 1, 0xFFFFFFFF00000000, 0x00000000FFFFFFFF,
		0x01cc64ff55528a14, 0x01f0340619c55c02, // values used by the repository tests
		ft + 2650467743990000000, // year 9999
		ft + 104120640000000000,  // year 2300
		ft - 80000000000000000,   // year 1716
		133920597255298050,
	}
	var out []uint64
	for _, b := range base {
		for _, d := range []int64{-10000000, -101, -100, -99, -2, -1, 0, 1, 2, 99, 100, 101, 10000000} {
			out = append(out, b+uint64(d))
		}
	}
	return out
}

func c15RandTicks(r *Rng) uint64 {
	switch r.Intn(6) {
	case 0:
		return r.U64Edge()
	case 1: // 1601 .. 30828
		return r.U64() >> 1
	case 2: // around now
		return 116444736000000000 + r.U64()%40000000000000000
	case 3: // UUID range
		return r.U64() >> 4
	case 4: // negative as int64
		return r.U64() | 1<<63
	}
	return r.U64()
}

var c15SecCorpus = []int64{
	0, 1, -1, 59, 86400, -86400, 1e9, -1e9,
	-11644473600,             // 1601-01-01
	-12219292800,             // 1582-10-15
	-9223372037, -9223372036, // 1677-09-21: int64 nanoseconds minimum
	9223372036, 9223372037, // 2262-04-11: int64 nanoseconds maximum
	910692730085, 910692730086, // 30828-09-14: FILETIME 0x7FFFFFFFFFFFFFFF
	1832519379627, 1833029933770, // uint64 ticks maximum seen from 1601 / 1582
	253402300799,             // 9999-12-31
	10413792000, -8000000000, // 2300, 1716
	-62135596800,                                             // year 1
	922337203685, 922337203686, -922337203685, -922337203686, // sec*1e7 reaches the int64 limits
	-933981677285, -933981677286, // FILETIME int64 minimum
	1314480109, 1747586125,
}

var c15NsecCorpus = []int64{0, 1, 50, 99, 100, 101, 199, 781250000, 999999899, 999999900, 999999901, 999999999}

func c15RandTime(r *Rng) (int64, int64) {
	var sec int64
	switch r.Intn(6) {
	case 0:
		sec = c15SecCorpus[r.Intn(len(c15SecCorpus))] + int64(r.Intn(5)) - 2
	case 1: // 1601 .. 30828
		sec = -11644473600 + int64(r.U64()%922337203685)
	case 2: // 1677 .. 2262
		sec = int64(r.U64()%18446744073) - 9223372036
	case 3: // around now
		sec = int64(r.U64() % 4000000000)
	case 4: // wide
		sec = int64(r.U64()%4000000000000) - 2000000000000
	default:
		sec = -12219292800 + int64(r.U64()%1833029933770)
	}
	nsec := int64(r.U64() % 1000000000)
	switch r.Intn(4) {
	case 0:
		nsec = c15NsecCorpus[r.Intn(len(c15NsecCorpus))]
	case 1:
		nsec -= nsec % 100
	}
	return sec, nsec
}

func c15TimeVal(sec, nsec int64) Val { return L(I(sec), I(nsec)) }

func genC15(c *Ctx) {
	r := c.Rng
	sources := []int64{0, 1, 2, -1}
	versions := []uint64{0, 0x100, 0x200, 0x300, 1}

	ticksCase := func(t uint64) {
		lo, hi := U(t&0xFFFFFFFF), U(t>>32)
		c.Check("c15.filetime.get_time", lo, hi)
		c.Case("filetime.to_int64", lo, hi)
		c.Case("filetime.get_time", lo, hi)
		c.Case("filetime.unix_ts", lo, hi)
		c.Case("filetime.marshal", lo, hi)
		c.Check("c15.datetime", U(t))
		c.Case("datetime.new", U(t))
		c.Case("datetime.to_bytes", U(t))
		le := binary.LittleEndian.AppendUint64(nil, t)
		c.Case("datetime.from_binary", B(le), I(sources[r.Intn(len(sources))]), U(versions[r.Intn(len(versions))]))
		c.Case("filetime.unmarshal", B(le))
		c.Check("c15.uuid.get_time", I(1), U(t))
		c.Check("c15.uuid.get_time", I(2), U(t))
		c.Case("uuidv1.get_time", U(t))
		c.Case("uuidv2.get_time", U(t))
		// decimal strings of the same value, signed reading
		s := fmt.Sprintf("%d", int64(t))
		for _, str := range []string{s, fmt.Sprintf("%d", t)} {
			c.Check("c15.ldap.ts_to_unix", S(str))
			c.Check("c15.ldap.dur_to_sec", S(str))
			c.Case("ldap.ts_to_unix", S(str))
			c.Case("ldap.dur_to_sec", S(str))
		}
		c.Check("c15.ldap.sec_to_dur", I(int64(t)))
		c.Case("ldap.sec_to_dur", I(int64(t)))
	}
	timeCase := func(sec, nsec int64) {
		tv := c15TimeVal(sec, nsec)
		c.Check("c15.filetime.from_time", tv)
		c.Case("filetime.from_time", tv)
		c.Check("c15.ldap.unix_to_ts", tv)
		c.Case("ldap.unix_to_ts", tv)
		c.Check("c15.datetime.to_binary", tv)
		c.Case("datetime.to_binary", tv, I(sources[r.Intn(len(sources))]), U(versions[r.Intn(len(versions))]))
		c.Check("c15.uuid.set_time", I(1), tv)
		c.Check("c15.uuid.set_time", I(2), tv)
		c.Case("uuidv1.set_time", tv)
		c.Case("uuidv2.set_time", tv)
		c.Check("c15.ldap.sec_to_dur", I(sec))
		c.Case("ldap.sec_to_dur", I(sec))
	}

	// boundary corpus
	for _, t := range c15TickCorpus() {
		ticksCase(t)
	}
	for _, s := range c15SecCorpus {
		for _, d := range []int64{-1, 0, 1} {
			for _, ns := range c15NsecCorpus {
				timeCase(s+d, ns)
			}
		}
	}
	// instants inside the repeated local hour at the end of daylight saving time (New York 2021-11-07 and
	// 1999-10-31, Paris 2021-10-31, Lord Howe 2022-04-03), with enough sub-second values to be presented in
	// every zone of c15Zones()
	for _, base := range []int64{1636263000, 1636266600, 1636268400, 941347800, 941351400, 1635638400, 1635642000, 1635645600, 1648911600, 1648913400} {
		for k := int64(0); k < 24; k++ {
			timeCase(base+k*97, k*100)
		}
	}
	// random
	for i := 0; i < c.N(600, 12000); i++ {
		ticksCase(c15RandTicks(r))
	}
	for i := 0; i < c.N(1200, 24000); i++ {
		timeCase(c15RandTime(r))
	}
	// durations: second counts whose product with 1e7 is near the int64 limits
	for _, s := range []int64{0, 1, -1, 60, 3600, 86400, 922337203685, 922337203686, -922337203685, -922337203686,
		1 << 40, -(1 << 40), 1<<63 - 1, -1 << 63, -1<<63 + 1, 1844674407370, 1844674407371} {
		c.Check("c15.ldap.sec_to_dur", I(s))
		c.Case("ldap.sec_to_dur", I(s))
	}

	// malformed stream, strings
	strs := []string{"", " ", "-", "+", "+0", "-0", "00", "0000000000000000000000000000123", "+116444736000000000",
		"-116444736000000000", "116444736000000000 ", " 116444736000000000", "1e7", "0x10", "1_000", "12a", "a12", "１２",
		"9223372036854775807", "9223372036854775808", "-9223372036854775808", "-9223372036854775809",
		"+9223372036854775807", "+9223372036854775808", "18446744073709551615", "18446744073709551616",
		"99999999999999999999999999999999999999", "-99999999999999999999999999999999999999",
		"-864000000000", "864000000000", "-9223372036854775807", "132537600000000000", "--1", "+-1", "-+1", "1-", "1+",
		"\x00", "1\x00", "/", ":", "0/", "0:", "-00000000000000000000009223372036854775808"}
	for _, s := range strs {
		for _, o := range []string{"c15.ldap.ts_to_unix", "c15.ldap.dur_to_sec", "c15.total.ldap_timestamp", "c15.total.ldap_duration"} {
			c.Check(o, S(s))
		}
		c.Case("ldap.ts_to_unix", S(s))
		c.Case("ldap.dur_to_sec", S(s))
	}
	for i := 0; i < c.N(400, 8000); i++ {
		var s string
		switch r.Intn(4) {
		case 0:
			s = r.StringOver("0123456789+-", r.Intn(24))
		case 1:
			s = r.StringOver("0123456789", 17+r.Intn(5))
		case 2:
			b := []byte(fmt.Sprintf("%d", int64(c15RandTicks(r))))
			b[r.Intn(len(b))] = "+-/0:9a _\x00\xff"[r.Intn(11)]
			s = string(b)
		default:
			s = string(r.Bytes(r.Intn(6)))
		}
		for _, o := range []string{"c15.ldap.ts_to_unix", "c15.ldap.dur_to_sec", "c15.total.ldap_timestamp", "c15.total.ldap_duration"} {
			c.Check(o, S(s))
		}
		c.Case("ldap.ts_to_unix", S(s))
		c.Case("ldap.dur_to_sec", S(s))
	}

	// malformed stream, binary decoders: every truncation and boundary corruption, extra bytes, random
	for i := 0; i < c.N(6, 60); i++ {
		valid := binary.LittleEndian.AppendUint64(nil, c15RandTicks(r)|1)
		for _, m := range Malformed(append(valid, r.Bytes(r.Intn(3))...), 10) {
			src, ver := I(sources[r.Intn(len(sources))]), U(versions[r.Intn(len(versions))])
			c.Check("c15.total.filetime_unmarshal", B(m))
			c.Check("c15.total.from_binary_time", B(m), src, ver)
			c.Case("filetime.unmarshal", B(m))
			c.Case("datetime.from_binary", B(m), src, ver)
		}
	}
	for i := 0; i < c.N(200, 4000); i++ {
		m := r.Bytes(r.Intn(20))
		src, ver := I(sources[r.Intn(len(sources))]), U(versions[r.Intn(len(versions))])
		c.Check("c15.total.filetime_unmarshal", B(m))
		c.Check("c15.total.from_binary_time", B(m), src, ver)
		c.Case("filetime.unmarshal", B(m))
		c.Case("datetime.from_binary", B(m), src, ver)
	}
	// eight zero bytes: the tick count 0 stands for "now"
	c.Case("datetime.from_binary", B(make([]byte, 8)), I(0), U(0x200))
	c.Case("datetime.new", U(0))
}
