// Correspondence / oracle harness for the Manticore verification framework.
// It runs the real implementation (from /repo's working tree) on generated inputs and
// writes, per case, the projected observable result, to be compared with the Coq model.
package main

import (
	"bufio"
	"encoding/hex"
	"encoding/json"
	"flag"
	"fmt"
	"os"
	"path/filepath"
	"runtime"
	"runtime/debug"
	"sort"
	"strconv"
	"strings"
	"time"
)

type ImplFn func(a []Val) Val

// OracleFn states a property directly on the Go code for one input.  It returns key=="" when
// the property holds on this input; otherwise a finding key (narrow class of the failure)
// and a human-readable detail.
type OracleFn func(a []Val) (key string, detail string)

type GenFn func(c *Ctx)

var impls = map[string]ImplFn{}
var oracles = map[string]OracleFn{}
var gens = map[string][]GenFn{}

func Impl(name string, f ImplFn)     { impls[name] = f }
func Oracle(name string, f OracleFn) { oracles[name] = f }
func Gen(prop string, f GenFn)       { gens[prop] = append(gens[prop], f) }

type Failure struct {
	Prop   string `json:"property"`
	Oracle string `json:"oracle"`
	Args   string `json:"args"`
	Key    string `json:"key"`
	Detail string `json:"detail"`
}

type Ctx struct {
	Prop     string
	Tier     string
	Rng      *Rng
	out      *bufio.Writer
	NCases   int
	NChecks  int
	Fails    []Failure
	Hist     map[string]int
	distinct map[string]struct{}
	samples  []string
	Notes    map[string]interface{}
	// Tap, when set, sees every Case (entry point, arguments, observed output) — used by C07 to harvest
	// the valid encodings the other properties' generators build.
	Tap func(fn string, args []Val, out Val)
	// Quiet: run cases without recording them (harvest mode)
	Quiet bool
}

// inflight records the call being executed, so that a crash the harness cannot recover from (fatal stack
// overflow, out of memory, a hang killed by the time limit) still names its input.
var inflight *os.File

func noteInflight(kind, name, args string) {
	if inflight == nil {
		return
	}
	b := []byte(kind + "\t" + name + "\t" + args + "\n")
	inflight.WriteAt(b, 0)
	inflight.Truncate(int64(len(b)))
}

// N picks a budget by tier.
func (c *Ctx) N(quick, thorough int) int {
	if c.Tier == "thorough" {
		return thorough
	}
	return quick
}

func callImpl(f ImplFn, a []Val) (v Val) { return callImplNamed("", f, a) }

// callImplNamed runs one implementation entry point with the buffer discipline of util.go
func callImplNamed(name string, f ImplFn, a []Val) (v Val) {
	prev, prevIn, prevOff := curImpl, callInputs, arenaOff
	curImpl, callInputs, arenaOff = name, nil, 0
	curCall++
	defer func() {
		if r := recover(); r != nil {
			v = VPanic()
		}
		if name == "" {
			curImpl, callInputs, arenaOff = prev, prevIn, prevOff
		} else {
			curImpl = prev
		}
	}()
	return f(a)
}

func outcomeClass(v Val) string {
	switch v.K {
	case 'E':
		return "err"
	case 'P':
		return "panic"
	}
	return "ok"
}

// Case runs the implementation entry point fn on args and records the observation.
func (c *Ctx) Case(fn string, args ...Val) Val {
	f, ok := impls[fn]
	if !ok {
		panic("unknown impl " + fn)
	}
	argStr := L(args...).String()
	noteInflight("case", fn, argStr)
	v := callImplNamed(fn, f, args)
	if key, detail := afterCall(c.Prop, fn); key != "" && !c.Quiet {
		c.reportFailure("framework.buffers", argStr, key, detail)
	}
	callInputs = nil
	// a sample of calls is repeated with spare capacity full of garbage behind every buffer
	if !c.Quiet && c.NCases%4 == 0 {
		roomy = true
		v2 := callImplNamed(fn, f, args)
		if key, detail := afterCall(c.Prop, fn); key != "" {
			c.reportFailure("framework.buffers", argStr, key, detail)
		}
		roomy = false
		callInputs = nil
		if v2.String() != v.String() {
			c.reportFailure("framework.buffers", argStr, c.Prop+"/depends-on-spare-capacity/"+fn,
				fmt.Sprintf("%s gives %s on exact-capacity buffers and %s when the same bytes are followed by spare capacity", fn, trunc(v.String(), 200), trunc(v2.String(), 200)))
		}
	}
	if c.Tap != nil {
		c.Tap(fn, args, v)
	}
	if c.Quiet {
		return v
	}
	line := fn + " " + argStr + " => " + v.String()
	if _, seen := c.distinct[line]; !seen {
		c.distinct[line] = struct{}{}
		fmt.Fprintln(c.out, line)
		if len(c.samples) < 12 && (c.NCases%97 == 0 || len(c.samples) < 3) {
			s := line
			if len(s) > 300 {
				s = s[:300] + "..."
			}
			c.samples = append(c.samples, s)
		}
	}
	c.NCases++
	c.Hist["fn:"+fn]++
	c.Hist["outcome:"+outcomeClass(v)]++
	return v
}

// Check evaluates a Go-side oracle on args; a failure is recorded with its finding key.
func (c *Ctx) Check(name string, args ...Val) bool {
	f, ok := oracles[name]
	if !ok {
		panic("unknown oracle " + name)
	}
	noteInflight("oracle", name, L(args...).String())
	if c.Quiet {
		return true
	}
	key, detail := callOracle(f, args)
	c.NChecks++
	c.Hist["oracle:"+name]++
	if key == "" {
		return true
	}
	c.Hist["oraclefail:"+key]++
	// keep at most 5 witnesses per key
	n := 0
	for _, fl := range c.Fails {
		if fl.Key == key {
			n++
		}
	}
	if n < 5 {
		c.Fails = append(c.Fails, Failure{c.Prop, name, L(args...).String(), key, detail})
	}
	return false
}

// reportFailure records a framework-level finding exactly like an oracle failure
func (c *Ctx) reportFailure(oracle, args, key, detail string) {
	c.Hist["oraclefail:"+key]++
	n := 0
	for _, fl := range c.Fails {
		if fl.Key == key {
			n++
		}
	}
	if n < 5 {
		c.Fails = append(c.Fails, Failure{c.Prop, oracle, args, key, detail})
	}
}

func callOracle(f OracleFn, a []Val) (key, detail string) {
	defer func() {
		if r := recover(); r != nil {
			key = "panic"
			detail = fmt.Sprintf("panic: %v", r)
			// an oracle may re-panic with a structured message "<KEYPREFIX>-PANIC/<rest>: text"
			if s, ok := r.(string); ok && strings.Contains(s, "-PANIC/") {
				if i := strings.Index(s, ": "); i > 0 {
					key = strings.Replace(s[:i], "-PANIC/", "/", 1) + "/panic"
				}
			}
		}
	}()
	return f(a)
}

func (c *Ctx) Note(k string, v interface{}) { c.Notes[k] = v }

// Guarded runs f with a wall-clock limit and reports allocation; used for totality checks.
func Guarded(limit time.Duration, f func()) (panicked bool, timedOut bool, allocBytes uint64, pv interface{}) {
	var m0, m1 runtime.MemStats
	runtime.ReadMemStats(&m0)
	done := make(chan struct{})
	go func() {
		defer func() {
			if r := recover(); r != nil {
				panicked = true
				pv = r
			}
			close(done)
		}()
		f()
	}()
	select {
	case <-done:
	case <-time.After(limit):
		timedOut = true
	}
	runtime.ReadMemStats(&m1)
	allocBytes = m1.TotalAlloc - m0.TotalAlloc
	return
}

var realStdout = os.Stdout

func main() {
	prop := flag.String("prop", "", "property id")
	tier := flag.String("tier", "quick", "quick|thorough")
	seed := flag.Uint64("seed", 1, "seed")
	outDir := flag.String("out", "", "output directory")
	replay := flag.String("replay", "", "replay file")
	list := flag.Bool("list", false, "list impl entry points")
	flag.Parse()
	for _, t := range strings.Split(os.Getenv("VERIF_DICT"), ",") {
		if v, err := strconv.ParseUint(strings.TrimSpace(t), 0, 64); err == nil {
			dictU64 = append(dictU64, v)
		} else if v, err := strconv.ParseInt(strings.TrimSpace(t), 0, 64); err == nil {
			dictU64 = append(dictU64, uint64(v))
		}
	}
	for _, t := range strings.Split(os.Getenv("VERIF_DICT_BYTES"), ",") {
		if b, err := hex.DecodeString(strings.TrimSpace(t)); err == nil && len(b) > 0 {
			dictBytes = append(dictBytes, b)
		}
	}
	debug.SetMemoryLimit(12 << 30)
	// the code under test prints debugging output in places; keep it out of our stdout
	if dn, err := os.OpenFile(os.DevNull, os.O_WRONLY, 0); err == nil {
		os.Stdout = dn
	}

	if *list {
		var names []string
		for n := range impls {
			names = append(names, n)
		}
		sort.Strings(names)
		fmt.Fprintln(realStdout, strings.Join(names, "\n"))
		return
	}
	if *replay != "" {
		os.Exit(doReplay(*replay))
	}
	gs, ok := gens[*prop]
	if !ok {
		fmt.Fprintln(os.Stderr, "no generators for", *prop)
		os.Exit(2)
	}
	if err := os.MkdirAll(*outDir, 0o755); err != nil {
		panic(err)
	}
	cf, err := os.Create(filepath.Join(*outDir, "cases.txt"))
	if err != nil {
		panic(err)
	}
	inflight, _ = os.Create(filepath.Join(*outDir, "inflight.txt"))
	c := &Ctx{Prop: *prop, Tier: *tier, Rng: NewRng(*seed), out: bufio.NewWriterSize(cf, 1<<20),
		Hist: map[string]int{}, distinct: map[string]struct{}{}, Notes: map[string]interface{}{}}
	t0 := time.Now()
	for _, g := range gs {
		g(c)
	}
	c.out.Flush()
	cf.Close()
	if inflight != nil {
		inflight.Close()
		os.Remove(filepath.Join(*outDir, "inflight.txt"))
	}

	ff, _ := os.Create(filepath.Join(*outDir, "failures.jsonl"))
	enc := json.NewEncoder(ff)
	for _, f := range c.Fails {
		enc.Encode(f)
	}
	ff.Close()

	stats := map[string]interface{}{
		"property": *prop, "tier": *tier, "seed": *seed,
		"cases": c.NCases, "distinct_cases": len(c.distinct), "oracle_checks": c.NChecks,
		"oracle_failures": len(c.Fails), "hist": c.Hist, "samples": c.samples,
		"notes": c.Notes, "wall_s": time.Since(t0).Seconds(),
	}
	sf, _ := os.Create(filepath.Join(*outDir, "stats.json"))
	e2 := json.NewEncoder(sf)
	e2.SetIndent("", " ")
	e2.Encode(stats)
	sf.Close()
}

// Replay file: {"kind":"oracle"|"case","name":..., "args":"(...)", "expect": "..."}.
func doReplay(path string) int {
	raw, err := os.ReadFile(path)
	if err != nil {
		fmt.Fprintln(os.Stderr, err)
		return 2
	}
	var r struct {
		Kind   string `json:"kind"`
		Name   string `json:"name"`
		Args   string `json:"args"`
		Expect string `json:"expect"`
	}
	if err := json.Unmarshal(raw, &r); err != nil {
		fmt.Fprintln(os.Stderr, err)
		return 2
	}
	av, err := ParseVal(r.Args)
	if err != nil {
		fmt.Fprintln(os.Stderr, "bad args:", err)
		return 2
	}
	switch r.Kind {
	case "oracle":
		f, ok := oracles[r.Name]
		if !ok {
			fmt.Fprintln(os.Stderr, "unknown oracle", r.Name)
			return 2
		}
		key, detail := callOracle(f, av.L)
		if key == "" {
			fmt.Fprintln(realStdout, "REPLAY: property holds on this input now")
			return 0
		}
		fmt.Fprintf(realStdout, "REPLAY: fails key=%s detail=%s\n", key, detail)
		return 1
	case "case":
		f, ok := impls[r.Name]
		if !ok {
			fmt.Fprintln(os.Stderr, "unknown impl", r.Name)
			return 2
		}
		v := callImpl(f, av.L)
		fmt.Fprintf(realStdout, "REPLAY: %s %s => %s (model expected %s)\n", r.Name, r.Args, v.String(), r.Expect)
		if v.String() == r.Expect {
			return 0
		}
		return 1
	}
	fmt.Fprintln(realStdout, "REPLAY: nothing executable in this replay (kind="+r.Kind+")")
	return 1
}
