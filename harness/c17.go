//go:build c17 || allprops

package main

// C17 — the NBNS name table (network/netbios/nbtns/nbtns.go).
//
// Impl runners execute whole histories on the REAL NetBIOSNameServer and project per-operation
// outcomes plus the final table (read through reflection: the map is unexported).
// Oracles state the property directly on the real code against an independent reference
// written here (an atomic map name -> (type, status, set of canonical addresses, live?)).

import (
	"bytes"
	"fmt"
	"math"
	"net"
	"reflect"
	"sort"
	"strings"
	"time"
	"unsafe"

	"github.com/TheManticoreProject/Manticore/network/netbios/nbtns"
)

const (
	opRegister = 0
	opQuery    = 1
	opRelease  = 2
	opRefresh  = 3
	opMark     = 4
	opClean    = 5
)

type ntOp struct {
	code int
	name string
	typ  uint8
	ip   []byte
	ttlH int64
}

func (o ntOp) val() Val {
	switch o.code {
	case opRegister:
		return L(I(0), S(o.name), I(int64(o.typ)), B(o.ip), I(o.ttlH))
	case opQuery:
		return L(I(1), S(o.name))
	case opRelease:
		return L(I(2), S(o.name), B(o.ip))
	case opRefresh:
		return L(I(3), S(o.name), B(o.ip))
	case opMark:
		return L(I(4), S(o.name))
	}
	return L(I(5))
}

func (o ntOp) String() string {
	switch o.code {
	case opRegister:
		return fmt.Sprintf("Register(%q,type=%d,%x,ttl=%dh)", o.name, o.typ, o.ip, o.ttlH)
	case opQuery:
		return fmt.Sprintf("Query(%q)", o.name)
	case opRelease:
		return fmt.Sprintf("Release(%q,%x)", o.name, o.ip)
	case opRefresh:
		return fmt.Sprintf("Refresh(%q,%x)", o.name, o.ip)
	case opMark:
		return fmt.Sprintf("MarkConflict(%q)", o.name)
	}
	return "CleanExpired()"
}

func ntParseOp(v Val) ntOp {
	l := v.L
	o := ntOp{code: int(l[0].Int())}
	switch o.code {
	case opRegister:
		o.name, o.typ, o.ip, o.ttlH = l[1].Str(), uint8(l[2].Int()), l[3].B, l[4].Int()
	case opQuery, opMark:
		o.name = l[1].Str()
	case opRelease, opRefresh:
		o.name, o.ip = l[1].Str(), l[2].B
	}
	return o
}

func ntParseOps(v Val) []ntOp {
	ops := make([]ntOp, len(v.L))
	for i, e := range v.L {
		ops[i] = ntParseOp(e)
	}
	return ops
}

func ntOpsVal(ops []ntOp) Val {
	vs := make([]Val, len(ops))
	for i, o := range ops {
		vs[i] = o.val()
	}
	return L(vs...)
}

func ntHistoryString(ops []ntOp) string {
	s := make([]string, len(ops))
	for i, o := range ops {
		s[i] = o.String()
	}
	return strings.Join(s, "; ")
}

// the unexported map of the real server (read-only use, never while other goroutines run)
func ntTable(ns *nbtns.NetBIOSNameServer) map[string]*nbtns.NameRecord {
	f := reflect.ValueOf(ns).Elem().FieldByName("names")
	return reflect.NewAt(f.Type(), unsafe.Pointer(f.UnsafeAddr())).Elem().Interface().(map[string]*nbtns.NameRecord)
}

// the clock must have advanced before the next operation reads it (the model numbers the readings 0,1,2,...)
func ntTick() {
	t0 := time.Now()
	for !time.Now().After(t0) {
	}
}

type ntResult struct {
	err    bool
	owners []net.IP
	typ    nbtns.NameType
	query  bool
}

func ntApply(ns *nbtns.NetBIOSNameServer, o ntOp) ntResult {
	switch o.code {
	case opRegister:
		return ntResult{err: ns.RegisterName(o.name, nbtns.NameType(o.typ), net.IP(exactOrNil(o.ip)), time.Duration(o.ttlH)*time.Hour) != nil}
	case opQuery:
		ow, ty, err := ns.QueryName(o.name)
		return ntResult{err: err != nil, owners: ow, typ: ty, query: true}
	case opRelease:
		return ntResult{err: ns.ReleaseName(o.name, net.IP(exactOrNil(o.ip))) != nil}
	case opRefresh:
		return ntResult{err: ns.RefreshName(o.name, net.IP(exactOrNil(o.ip))) != nil}
	case opMark:
		return ntResult{err: ns.MarkNameConflict(o.name) != nil}
	}
	ns.CleanExpiredNames()
	return ntResult{}
}

func exactOrNil(b []byte) []byte {
	if len(b) == 0 {
		return nil
	}
	return exact(b)
}

func ntIPsVal(l []net.IP) Val {
	vs := make([]Val, len(l))
	for i, ip := range l {
		vs[i] = B(ip)
	}
	return L(vs...)
}

func (r ntResult) val() Val {
	if r.err {
		return VErr()
	}
	if r.query {
		return L(ntIPsVal(r.owners), I(int64(r.typ)))
	}
	return I(0)
}

// runs a history; heapView adds len, cap and the whole backing array of every probed record
func ntRun(a []Val, heapView bool) Val {
	ops := ntParseOps(a[0])
	ns := nbtns.NewNetBIOSNameServer(false)
	start := time.Now()
	outs := make([]Val, len(ops))
	for i, o := range ops {
		ntTick()
		outs[i] = ntApply(ns, o).val()
	}
	ntTick()
	end := time.Now()
	tbl := ntTable(ns)
	dumps := make([]Val, len(a[1].L))
	for i, p := range a[1].L {
		rec, ok := tbl[p.Str()]
		if !ok {
			dumps[i] = L()
			continue
		}
		fields := []Val{I(int64(rec.Type)), I(int64(rec.Status)), ntIPsVal(rec.Owners), Bool(end.After(rec.TTL)),
			I(int64(math.Round(rec.TTL.Sub(start).Hours()))), I(int64(rec.RefreshInterval))}
		if heapView {
			fields = append(fields, I(int64(len(rec.Owners))), I(int64(cap(rec.Owners))), ntIPsVal(rec.Owners[:cap(rec.Owners)]))
		}
		dumps[i] = L(fields...)
	}
	return L(L(outs...), L(dumps...), I(int64(len(tbl))))
}

// ---------------------------------------------------------------- independent reference

var v4in6 = []byte{0, 0, 0, 0, 0, 0, 0, 0, 0, 0, 0xff, 0xff}

// an address: IPv4 and IPv4-in-IPv6 forms of one address are one address
func ntCanon(ip []byte) string {
	if len(ip) == 4 {
		return string(v4in6) + string(ip)
	}
	return string(ip)
}

type refRec struct {
	group    bool
	conflict bool
	owners   map[string]bool
	live     bool // the expiry instant lies in the future (ttl of +-hours against a run of milliseconds)
	refresh  int64
}

type refTable map[string]*refRec

type refOut struct {
	err    bool
	query  bool
	owners map[string]bool
	group  bool
}

func (t refTable) apply(o ntOp) refOut {
	r := t[o.name]
	a := ntCanon(o.ip)
	switch o.code {
	case opRegister:
		g := o.typ == 1
		if r == nil {
			t[o.name] = &refRec{group: g, owners: map[string]bool{a: true}, live: o.ttlH > 0, refresh: o.ttlH}
			return refOut{}
		}
		if r.group && g {
			if !r.owners[a] {
				r.owners[a] = true
				r.live = o.ttlH > 0
			}
			return refOut{}
		}
		return refOut{err: true}
	case opQuery:
		if r == nil || r.conflict {
			return refOut{err: true, query: true}
		}
		ow := map[string]bool{}
		for k := range r.owners {
			ow[k] = true
		}
		return refOut{query: true, owners: ow, group: r.group}
	case opRelease:
		if r == nil || !r.owners[a] {
			return refOut{err: true}
		}
		delete(r.owners, a)
		if len(r.owners) == 0 {
			delete(t, o.name)
		}
		return refOut{}
	case opRefresh:
		if r == nil || !r.owners[a] {
			return refOut{err: true}
		}
		r.live = r.refresh > 0
		return refOut{}
	case opMark:
		if r == nil {
			return refOut{err: true}
		}
		r.conflict = true
		return refOut{}
	}
	for k, r := range t {
		if !r.live {
			delete(t, k)
		}
	}
	return refOut{}
}

func (t refTable) clone() refTable {
	c := refTable{}
	for k, r := range t {
		ow := map[string]bool{}
		for a := range r.owners {
			ow[a] = true
		}
		c[k] = &refRec{r.group, r.conflict, ow, r.live, r.refresh}
	}
	return c
}

func (t refTable) key() string {
	names := make([]string, 0, len(t))
	for k := range t {
		names = append(names, k)
	}
	sort.Strings(names)
	var sb strings.Builder
	for _, k := range names {
		r := t[k]
		ow := make([]string, 0, len(r.owners))
		for a := range r.owners {
			ow = append(ow, a)
		}
		sort.Strings(ow)
		fmt.Fprintf(&sb, "%q:%v,%v,%v,%d,%q;", k, r.group, r.conflict, r.live, r.refresh, ow)
	}
	return sb.String()
}

// does the real result r agree with the reference result w?
func ntAgree(r ntResult, w refOut) (bool, string) {
	if r.err != w.err {
		return false, fmt.Sprintf("error=%v, reference error=%v", r.err, w.err)
	}
	if !w.query || w.err {
		return true, ""
	}
	if (r.typ == nbtns.Group) != w.group {
		return false, fmt.Sprintf("type %d, reference group=%v", r.typ, w.group)
	}
	seen := map[string]bool{}
	for _, ip := range r.owners {
		c := ntCanon(ip)
		if seen[c] {
			return false, fmt.Sprintf("address %x returned twice", []byte(ip))
		}
		seen[c] = true
		if !w.owners[c] {
			return false, fmt.Sprintf("address %x is not a current owner", []byte(ip))
		}
	}
	if len(seen) != len(w.owners) {
		return false, fmt.Sprintf("%d owners returned, %d current owners", len(seen), len(w.owners))
	}
	return true, ""
}

// ownership invariants on the real table
func ntInvariants(ns *nbtns.NetBIOSNameServer, ref refTable) (string, string) {
	tbl := ntTable(ns)
	for k, rec := range tbl {
		if rec == nil {
			return "C17/empty-record", fmt.Sprintf("nil record for %q", k)
		}
		if rec.Name != k {
			return "C17/record-name", fmt.Sprintf("record under key %q carries name %q", k, rec.Name)
		}
		if len(rec.Owners) == 0 {
			return "C17/empty-record", fmt.Sprintf("record %q has no owner", k)
		}
		if rec.Type == nbtns.Unique && len(rec.Owners) != 1 {
			return "C17/unique-owner-count", fmt.Sprintf("unique name %q has %d owners", k, len(rec.Owners))
		}
		for i := range rec.Owners {
			for j := i + 1; j < len(rec.Owners); j++ {
				if rec.Owners[i].Equal(rec.Owners[j]) {
					return "C17/group-duplicate-owner", fmt.Sprintf("name %q lists %v twice", k, rec.Owners[i])
				}
			}
		}
	}
	if ref != nil {
		if len(tbl) != len(ref) {
			return "C17/table-names", fmt.Sprintf("table holds %d names, reference %d", len(tbl), len(ref))
		}
		for k, w := range ref {
			rec, ok := tbl[k]
			if !ok {
				return "C17/table-names", fmt.Sprintf("name %q missing from the table", k)
			}
			if (rec.Type == nbtns.Group) != w.group || (rec.Status != nbtns.Active) != w.conflict {
				return "C17/record-type-status", fmt.Sprintf("name %q: type %d status %d, reference group=%v conflict=%v", k, rec.Type, rec.Status, w.group, w.conflict)
			}
			if len(rec.Owners) != len(w.owners) {
				return "C17/group-owners", fmt.Sprintf("name %q: %d owners, reference %d", k, len(rec.Owners), len(w.owners))
			}
			for _, ip := range rec.Owners {
				if !w.owners[ntCanon(ip)] {
					return "C17/group-owners", fmt.Sprintf("name %q: %v is not an owner in the reference", k, ip)
				}
			}
		}
	}
	return "", ""
}

type ntSnapshot struct {
	step  int
	res   []net.IP // the slice handed out
	copyB [][]byte // deep copy taken at that moment
}

func ntSnap(step int, res []net.IP) ntSnapshot {
	s := ntSnapshot{step: step, res: res}
	for _, ip := range res {
		s.copyB = append(s.copyB, append([]byte{}, ip...))
	}
	return s
}

func (s ntSnapshot) changed() bool {
	if len(s.res) != len(s.copyB) {
		return true
	}
	for i := range s.res {
		if !bytes.Equal(s.res[i], s.copyB[i]) {
			return true
		}
	}
	return false
}

// do the backing arrays of two []net.IP overlap (full capacity)?
func ntOverlap(a, b []net.IP) bool {
	if cap(a) == 0 || cap(b) == 0 {
		return false
	}
	sz := unsafe.Sizeof(net.IP{})
	a0 := uintptr(unsafe.Pointer(unsafe.SliceData(a)))
	b0 := uintptr(unsafe.Pointer(unsafe.SliceData(b)))
	return a0 < b0+uintptr(cap(b))*sz && b0 < a0+uintptr(cap(a))*sz
}

// The property on one sequential history: every outcome is the atomic map's, the invariants hold
// after every operation, every query result is a slice of its own and never changes afterwards.
func ntCheckHistory(ops []ntOp) (string, string) {
	ns := nbtns.NewNetBIOSNameServer(false)
	ref := refTable{}
	var snaps []ntSnapshot
	hist := func(i int) string { return ntHistoryString(ops[:i+1]) }
	for i, o := range ops {
		ntTick()
		r := ntApply(ns, o)
		w := ref.apply(o)
		if ok, why := ntAgree(r, w); !ok {
			kind := []string{"register", "query", "release", "refresh", "conflict", "expiry"}[o.code]
			return "C17/" + kind + "-outcome", fmt.Sprintf("after %s: %s", hist(i), why)
		}
		if k, d := ntInvariants(ns, ref); k != "" {
			if o.code == opClean && k == "C17/table-names" {
				k = "C17/expiry"
			}
			return k, fmt.Sprintf("after %s: %s", hist(i), d)
		}
		for _, s := range snaps {
			if s.changed() {
				return "C17/result-mutated", fmt.Sprintf("the result of operation %d changed after %s", s.step, hist(i))
			}
		}
		if r.query && !r.err {
			for _, rec := range ntTable(ns) {
				if ntOverlap(r.owners, rec.Owners) {
					return "C17/result-aliases-table", fmt.Sprintf("after %s: the returned slice shares its array with record %q", hist(i), rec.Name)
				}
			}
			for _, s := range snaps {
				if ntOverlap(r.owners, s.res) {
					return "C17/result-aliases-result", fmt.Sprintf("after %s: the returned slice shares its array with the result of operation %d", hist(i), s.step)
				}
			}
			snaps = append(snaps, ntSnap(i, r.owners))
		}
	}
	// a caller scribbling over its results must not reach the table either
	before := ntRun2(ns)
	for _, s := range snaps {
		for i := range s.res {
			s.res[i] = net.IP{0xde, 0xad, 0xbe, 0xef}
		}
	}
	if after := ntRun2(ns); after != before {
		return "C17/result-aliases-table", fmt.Sprintf("after %s: overwriting returned slices changed the table", ntHistoryString(ops))
	}
	return "", ""
}

// a printable image of the real table
func ntRun2(ns *nbtns.NetBIOSNameServer) string {
	tbl := ntTable(ns)
	names := make([]string, 0, len(tbl))
	for k := range tbl {
		names = append(names, k)
	}
	sort.Strings(names)
	var sb strings.Builder
	for _, k := range names {
		r := tbl[k]
		fmt.Fprintf(&sb, "%q:%d,%d,%x;", k, r.Type, r.Status, r.Owners)
	}
	return sb.String()
}

// ---------------------------------------------------------------- generators

var ntNames = []string{"ALPHA", "BETA", "GAMMA"}
var ntIPs = [][]byte{
	{10, 0, 0, 1},
	{0, 0, 0, 0, 0, 0, 0, 0, 0, 0, 0xff, 0xff, 10, 0, 0, 1}, // the same address, 16-byte form
	{10, 0, 0, 2},
	{0xfe, 0x80, 0, 0, 0, 0, 0, 0, 0, 0, 0, 0, 0, 0, 0, 1},
}
var ntOddIPs = [][]byte{nil, {}, {10, 0, 0}, {0x60, 0, 10, 0, 0, 1}, {0, 0, 0, 0, 0, 0, 0, 0, 0, 0, 0xff, 0xfe, 10, 0, 0, 1},
	{0, 0, 0, 0}, {0, 0, 0, 0, 0, 0, 0, 0, 0, 0, 0, 0, 0, 0, 0, 0}, {10, 0, 0, 1, 0}}

func ntAlphabet(names []string, ips [][]byte, types []uint8, ttls []int64) []ntOp {
	var al []ntOp
	for _, n := range names {
		for _, ip := range ips {
			for _, ty := range types {
				for _, ttl := range ttls {
					al = append(al, ntOp{code: opRegister, name: n, typ: ty, ip: ip, ttlH: ttl})
				}
			}
			al = append(al, ntOp{code: opRelease, name: n, ip: ip}, ntOp{code: opRefresh, name: n, ip: ip})
		}
		al = append(al, ntOp{code: opQuery, name: n}, ntOp{code: opMark, name: n})
	}
	return append(al, ntOp{code: opClean})
}

func ntRandomOp(r *Rng, names []string, ips [][]byte, types []uint8) ntOp {
	n := names[r.Intn(len(names))]
	ip := ips[r.Intn(len(ips))]
	switch r.Pick(0, 0, 0, 0, 1, 1, 1, 2, 2, 3, 4, 5) {
	case 0:
		ttl := int64(r.Pick(1, 1, 1, 24, 48, -1, -1, 100000))
		return ntOp{code: opRegister, name: n, typ: types[r.Intn(len(types))], ip: ip, ttlH: ttl}
	case 1:
		return ntOp{code: opQuery, name: n}
	case 2:
		return ntOp{code: opRelease, name: n, ip: ip}
	case 3:
		return ntOp{code: opRefresh, name: n, ip: ip}
	case 4:
		return ntOp{code: opMark, name: n}
	}
	return ntOp{code: opClean}
}

func ntProbes(names []string) Val {
	vs := make([]Val, len(names))
	for i, n := range names {
		vs[i] = S(n)
	}
	return L(vs...)
}

// every history of the given depth over the alphabet
func ntEnumerate(al []ntOp, depth int, f func([]ntOp)) {
	h := make([]ntOp, depth)
	var rec func(d int)
	rec = func(d int) {
		if d == depth {
			f(h)
			return
		}
		for _, o := range al {
			h[d] = o
			rec(d + 1)
		}
	}
	rec(0)
}

func init() {
	Impl("nt.run", func(a []Val) Val { return ntRun(a, false) })
	Impl("nt.runheap", func(a []Val) Val { return ntRun(a, true) })
	Impl("nt.ipequal", func(a []Val) Val { return Bool(net.IP(exactOrNil(a[0].B)).Equal(net.IP(exactOrNil(a[1].B)))) })

	// args: the history
	Oracle("c17.history", func(a []Val) (string, string) { return ntCheckHistory(ntParseOps(a[0])) })

	// totality: no operation of any history panics, whatever the arguments (types outside the enum,
	// nil / odd-length addresses, empty names).  args: the history
	Oracle("c17.total", func(a []Val) (key, detail string) {
		ops := ntParseOps(a[0])
		ns := nbtns.NewNetBIOSNameServer(true)
		done := 0
		defer func() {
			if r := recover(); r != nil {
				key, detail = "C17/panic", fmt.Sprintf("%s panics: %v", ntHistoryString(ops[:done+1]), r)
			}
		}()
		for i, o := range ops {
			done = i
			ntApply(ns, o)
		}
		if k, d := ntInvariants(ns, nil); k != "" {
			return k, fmt.Sprintf("after %s: %s", ntHistoryString(ops), d)
		}
		return "", ""
	})

	// expiry against the real clock: a name registered for ttl milliseconds is still there before
	// and gone after that time.  args: ttl in ms
	Oracle("c17.expiry-clock", func(a []Val) (string, string) {
		ttl := time.Duration(a[0].Int()) * time.Millisecond
		ns := nbtns.NewNetBIOSNameServer(false)
		t0 := time.Now()
		ns.RegisterName("SHORT", nbtns.Unique, net.IP{10, 0, 0, 9}, ttl)
		ns.RegisterName("LONG", nbtns.Group, net.IP{10, 0, 0, 9}, time.Hour)
		ns.CleanExpiredNames()
		_, _, err := ns.QueryName("SHORT")
		if time.Since(t0) < ttl && err != nil {
			return "C17/expiry", fmt.Sprintf("a name registered for %v disappeared after %v", ttl, time.Since(t0))
		}
		time.Sleep(ttl + 2*time.Millisecond)
		ns.CleanExpiredNames()
		if _, _, err := ns.QueryName("SHORT"); err == nil {
			return "C17/expiry", fmt.Sprintf("a name registered for %v is still present after %v", ttl, time.Since(t0))
		}
		if _, _, err := ns.QueryName("LONG"); err != nil {
			return "C17/expiry", "a name registered for an hour was removed by CleanExpiredNames"
		}
		return "", ""
	})

	Gen("C17", genC17)
}

func genC17(c *Ctx) {
	r := c.Rng
	probes := ntProbes(ntNames)
	std := []uint8{0, 1}

	// 0. the lock discipline, read from the source; concurrent runs only make sense when it holds
	locked := c.Check("c17.lock-discipline")
	c.Check("c17.no-ip-writes")

	// 1. boundary corpus
	g, u := uint8(1), uint8(0)
	A, A6, Bq, Cq := ntIPs[0], ntIPs[1], ntIPs[2], ntIPs[3]
	corpus := [][]ntOp{
		{},
		{{code: opQuery, name: "ALPHA"}},
		{{code: opRegister, name: "ALPHA", typ: u, ip: A, ttlH: 24}, {code: opQuery, name: "ALPHA"}, {code: opRegister, name: "ALPHA", typ: u, ip: Bq, ttlH: 24}, {code: opRegister, name: "ALPHA", typ: u, ip: A, ttlH: 24}, {code: opRegister, name: "ALPHA", typ: g, ip: Bq, ttlH: 24}},
		{{code: opRegister, name: "ALPHA", typ: g, ip: A, ttlH: 24}, {code: opRegister, name: "ALPHA", typ: g, ip: A6, ttlH: 24}, {code: opRegister, name: "ALPHA", typ: g, ip: Bq, ttlH: 24}, {code: opQuery, name: "ALPHA"},
			{code: opRelease, name: "ALPHA", ip: A6}, {code: opQuery, name: "ALPHA"}, {code: opRegister, name: "ALPHA", typ: g, ip: Cq, ttlH: 1}, {code: opRegister, name: "ALPHA", typ: g, ip: A, ttlH: 1}, {code: opQuery, name: "ALPHA"},
			{code: opRelease, name: "ALPHA", ip: Bq}, {code: opRelease, name: "ALPHA", ip: Cq}, {code: opRelease, name: "ALPHA", ip: A}, {code: opQuery, name: "ALPHA"}},
		{{code: opRegister, name: "ALPHA", typ: g, ip: A, ttlH: 24}, {code: opRegister, name: "ALPHA", typ: u, ip: A, ttlH: 24}, {code: opRegister, name: "BETA", typ: u, ip: A, ttlH: 24}, {code: opRegister, name: "BETA", typ: g, ip: A, ttlH: 24}},
		{{code: opRegister, name: "ALPHA", typ: u, ip: A, ttlH: 24}, {code: opMark, name: "ALPHA"}, {code: opQuery, name: "ALPHA"}, {code: opRegister, name: "ALPHA", typ: u, ip: Bq, ttlH: 24}, {code: opRefresh, name: "ALPHA", ip: A}, {code: opRelease, name: "ALPHA", ip: Bq}, {code: opRelease, name: "ALPHA", ip: A6}, {code: opMark, name: "ALPHA"}},
		{{code: opRegister, name: "ALPHA", typ: u, ip: A, ttlH: -1}, {code: opRegister, name: "BETA", typ: g, ip: A, ttlH: 1}, {code: opRegister, name: "GAMMA", typ: g, ip: A, ttlH: -1}, {code: opRefresh, name: "GAMMA", ip: A}, {code: opRegister, name: "BETA", typ: g, ip: Bq, ttlH: -1}, {code: opClean}, {code: opQuery, name: "ALPHA"}, {code: opQuery, name: "BETA"}, {code: opQuery, name: "GAMMA"}},
		{{code: opRegister, name: "ALPHA", typ: g, ip: A, ttlH: -1}, {code: opRegister, name: "ALPHA", typ: g, ip: Bq, ttlH: 1}, {code: opClean}, {code: opQuery, name: "ALPHA"}, {code: opRegister, name: "BETA", typ: u, ip: A, ttlH: 1}, {code: opRegister, name: "BETA", typ: u, ip: A, ttlH: -1}, {code: opClean}, {code: opRefresh, name: "BETA", ip: Cq}, {code: opRefresh, name: "BETA", ip: A6}},
	}
	for _, h := range corpus {
		c.Check("c17.history", ntOpsVal(h))
		c.Case("nt.run", ntOpsVal(h), probes)
		c.Case("nt.runheap", ntOpsVal(h), probes)
	}

	// 2. random histories of length <= 12 over 3 names x 2 types x (3 addresses in 4 spellings)
	for rep := 0; rep < c.N(3000, 40000); rep++ {
		n := 1 + r.Intn(12)
		h := make([]ntOp, n)
		for i := range h {
			h[i] = ntRandomOp(r, ntNames, ntIPs, std)
		}
		c.Check("c17.history", ntOpsVal(h))
		if rep%2 == 0 {
			c.Case("nt.run", ntOpsVal(h), probes)
		} else {
			c.Case("nt.runheap", ntOpsVal(h), probes)
		}
	}
	// longer ones on one group name: many appends and in-place removals (capacity growth, stale slots)
	many := [][]byte{}
	for i := 0; i < 12; i++ {
		many = append(many, []byte{10, 0, 1, byte(i)})
	}
	for rep := 0; rep < c.N(200, 3000); rep++ {
		n := 10 + r.Intn(40)
		h := make([]ntOp, n)
		for i := range h {
			ip := many[r.Intn(len(many))]
			switch r.Pick(0, 0, 0, 1, 2, 2, 3) {
			case 0:
				h[i] = ntOp{code: opRegister, name: "ALPHA", typ: 1, ip: ip, ttlH: 1}
			case 1:
				h[i] = ntOp{code: opQuery, name: "ALPHA"}
			case 2:
				h[i] = ntOp{code: opRelease, name: "ALPHA", ip: ip}
			default:
				h[i] = ntOp{code: opRefresh, name: "ALPHA", ip: ip}
			}
		}
		c.Check("c17.history", ntOpsVal(h))
		c.Case("nt.runheap", ntOpsVal(h), ntProbes([]string{"ALPHA"}))
	}

	// 3. exhaustive enumeration over a small alphabet (2 names x 2 types x 2 addresses + expiry)
	small := ntAlphabet(ntNames[:2], [][]byte{A, Bq}, std, []int64{1})
	small = append(small, ntOp{code: opRegister, name: "ALPHA", typ: 1, ip: A6, ttlH: -1}, ntOp{code: opRegister, name: "BETA", typ: 0, ip: Bq, ttlH: -1})
	c.Note("exhaustive_alphabet", len(small))
	p2 := ntProbes(ntNames[:2])
	ntEnumerate(small, c.N(3, 4), func(h []ntOp) {
		c.Case("nt.runheap", ntOpsVal(h), p2)
	})
	// the oracle goes one level deeper than the correspondence (no file is written for these)
	depth := c.N(4, 5)
	nExh := 0
	ntEnumerate(small, depth, func(h []ntOp) {
		nExh++
		c.NChecks++
		if k, _ := ntCheckHistory(h); k != "" {
			c.Check("c17.history", ntOpsVal(h)) // record the failure with its replayable arguments
		}
	})
	c.Hist["oracle:c17.history(exhaustive depth "+fmt.Sprint(depth)+")"] = nExh

	// 4. malformed stream: NameType outside the enum, nil / odd-length addresses, empty and long names
	oddNames := []string{"", "ALPHA", "alpha", "ALPHA\x00", strings.Repeat("N", 300)}
	oddTypes := []uint8{0, 1, 2, 3, 0x80, 0xff}
	oddIPs := append(append([][]byte{}, ntOddIPs...), A, A6)
	for rep := 0; rep < c.N(1500, 20000); rep++ {
		n := 1 + r.Intn(10)
		h := make([]ntOp, n)
		for i := range h {
			h[i] = ntRandomOp(r, oddNames, oddIPs, oddTypes)
		}
		c.Check("c17.total", ntOpsVal(h))
		if rep%2 == 0 {
			c.Case("nt.run", ntOpsVal(h), ntProbes(oddNames))
		} else {
			c.Case("nt.runheap", ntOpsVal(h), ntProbes(oddNames))
		}
	}
	// net.IP.Equal as modelled
	eqIPs := append(append([][]byte{}, ntOddIPs...), ntIPs...)
	for _, x := range eqIPs {
		for _, y := range eqIPs {
			c.Case("nt.ipequal", B(x), B(y))
		}
	}
	for rep := 0; rep < c.N(300, 3000); rep++ {
		x := r.Bytes(r.Pick(0, 3, 4, 4, 5, 15, 16, 16, 17))
		y := r.Bytes(r.Pick(0, 3, 4, 4, 5, 15, 16, 16, 17))
		switch r.Intn(4) {
		case 0:
			y = append([]byte{}, x...)
		case 1:
			if len(x) == 4 {
				y = append(append([]byte{}, v4in6...), x...)
			}
		case 2:
			if len(y) == 4 {
				x = append(append([]byte{}, v4in6...), y...)
				if r.Bool() {
					x[r.Intn(16)] ^= 1
				}
			}
		}
		c.Case("nt.ipequal", B(x), B(y))
	}

	// 5. expiry against the real clock (a handful: each sleeps)
	for _, ms := range []int64{5, 20} {
		c.Check("c17.expiry-clock", I(ms))
	}

	// 6. schedules (runtime support, not proof): concurrent histories, linearizability
	if locked {
		for rep := 0; rep < c.N(200, 2000); rep++ {
			c.Check("c17.concurrent", U(r.U64()), I(int64(4+r.Intn(5))), I(int64(1+r.Intn(3))))
		}
		for rep := 0; rep < c.N(5, 40); rep++ {
			c.Check("c17.stress", U(r.U64()), I(8), I(int64(c.N(2000, 10000))))
		}
	}
}
