//go:build algo || allprops

// ALGO: differential validation of the Gallina reference algorithms (coq/Algo/*.v) against
// established implementations: the Go standard library and golang.org/x/crypto (DESIGN 4.5).
// No Manticore code is exercised here except crypto/cmac (a generic CMAC that is fed with the
// standard library's AES and DES block ciphers).
package main

import (
	"crypto/aes"
	"crypto/cipher"
	"crypto/des"
	"crypto/hmac"
	"crypto/md5"
	"crypto/rc4"
	"crypto/sha1"
	"crypto/sha256"
	"encoding/base64"
	"hash"
	"math/bits"
	"unicode/utf16"
	"unicode/utf8"

	"golang.org/x/crypto/md4"
	"golang.org/x/crypto/pbkdf2"

	"github.com/TheManticoreProject/Manticore/crypto/cmac"
)

func algoSum(h hash.Hash, b []byte) Val {
	h.Write(b)
	return B(h.Sum(nil))
}

// Samba / MS-NLMP str_to_key: 7 bytes -> 8 bytes, odd parity.
func algoStrToKey(s []byte) []byte {
	k := make([]byte, 8)
	k[0] = s[0] >> 1
	k[1] = ((s[0] & 0x01) << 6) | (s[1] >> 2)
	k[2] = ((s[1] & 0x03) << 5) | (s[2] >> 3)
	k[3] = ((s[2] & 0x07) << 4) | (s[3] >> 4)
	k[4] = ((s[3] & 0x0F) << 3) | (s[4] >> 5)
	k[5] = ((s[4] & 0x1F) << 2) | (s[5] >> 6)
	k[6] = ((s[5] & 0x3F) << 1) | (s[6] >> 7)
	k[7] = s[6] & 0x7F
	for i := range k {
		k[i] <<= 1
		if bits.OnesCount8(k[i])%2 == 0 {
			k[i] |= 1
		}
	}
	return k
}

func algoBlock(newc func([]byte) (cipher.Block, error), enc bool) ImplFn {
	return func(a []Val) Val {
		c, err := newc(a[0].B)
		if err != nil {
			return VErr()
		}
		out := make([]byte, c.BlockSize())
		if enc {
			c.Encrypt(out, a[1].B)
		} else {
			c.Decrypt(out, a[1].B)
		}
		return B(out)
	}
}

func algoCMAC(newc func([]byte) (cipher.Block, error)) ImplFn {
	return func(a []Val) Val {
		c, err := newc(a[0].B)
		if err != nil {
			return VErr()
		}
		h := cmac.New(c)
		h.Write(a[1].B)
		return B(h.Sum(nil))
	}
}

func algoRunes(v Val) []rune {
	rs := make([]rune, len(v.L))
	for i, e := range v.L {
		rs[i] = rune(e.Int())
	}
	return rs
}

func algoRuneList(rs []rune) Val {
	vs := make([]Val, len(rs))
	for i, r := range rs {
		vs[i] = I(int64(r))
	}
	return L(vs...)
}

func init() {
	Impl("algo.md4", func(a []Val) Val { return algoSum(md4.New(), a[0].B) })
	Impl("algo.md5", func(a []Val) Val { return algoSum(md5.New(), a[0].B) })
	Impl("algo.sha1", func(a []Val) Val { return algoSum(sha1.New(), a[0].B) })
	Impl("algo.sha256", func(a []Val) Val { return algoSum(sha256.New(), a[0].B) })
	Impl("algo.hmac_md5", func(a []Val) Val { return algoSum(hmac.New(md5.New, a[0].B), a[1].B) })
	Impl("algo.hmac_sha1", func(a []Val) Val { return algoSum(hmac.New(sha1.New, a[0].B), a[1].B) })
	Impl("algo.hmac_sha256", func(a []Val) Val { return algoSum(hmac.New(sha256.New, a[0].B), a[1].B) })
	Impl("algo.pbkdf2_sha1", func(a []Val) Val {
		return B(pbkdf2.Key(a[0].B, a[1].B, int(a[2].Int()), int(a[3].Int()), sha1.New))
	})
	Impl("algo.pbkdf2_sha256", func(a []Val) Val {
		return B(pbkdf2.Key(a[0].B, a[1].B, int(a[2].Int()), int(a[3].Int()), sha256.New))
	})
	Impl("algo.des_enc", algoBlock(des.NewCipher, true))
	Impl("algo.des_dec", algoBlock(des.NewCipher, false))
	Impl("algo.str_to_key", func(a []Val) Val { return B(algoStrToKey(a[0].B)) })
	for _, n := range []string{"algo.aes128_enc", "algo.aes192_enc", "algo.aes256_enc"} {
		Impl(n, algoBlock(aes.NewCipher, true))
	}
	for _, n := range []string{"algo.aes128_dec", "algo.aes192_dec", "algo.aes256_dec"} {
		Impl(n, algoBlock(aes.NewCipher, false))
	}
	Impl("algo.aes256_cbc_enc", func(a []Val) Val {
		c, err := aes.NewCipher(a[0].B)
		if err != nil {
			return VErr()
		}
		out := make([]byte, len(a[2].B))
		cipher.NewCBCEncrypter(c, a[1].B).CryptBlocks(out, a[2].B)
		return B(out)
	})
	Impl("algo.aes256_cbc_dec", func(a []Val) Val {
		c, err := aes.NewCipher(a[0].B)
		if err != nil {
			return VErr()
		}
		out := make([]byte, len(a[2].B))
		cipher.NewCBCDecrypter(c, a[1].B).CryptBlocks(out, a[2].B)
		return B(out)
	})
	Impl("algo.rc4", func(a []Val) Val {
		c, err := rc4.NewCipher(a[0].B)
		if err != nil {
			return VErr()
		}
		out := make([]byte, len(a[1].B))
		c.XORKeyStream(out, a[1].B)
		return B(out)
	})
	Impl("algo.cmac_aes128", algoCMAC(aes.NewCipher))
	Impl("algo.cmac_aes256", algoCMAC(aes.NewCipher))
	Impl("algo.cmac_des", algoCMAC(des.NewCipher))
	Impl("algo.b64enc", func(a []Val) Val { return S(base64.StdEncoding.EncodeToString(a[0].B)) })
	Impl("algo.b64dec", func(a []Val) Val {
		b, err := base64.StdEncoding.DecodeString(a[0].Str())
		if err != nil {
			return VErr()
		}
		return B(b)
	})
	Impl("algo.utf16le_enc", func(a []Val) Val {
		us := utf16.Encode(algoRunes(a[0]))
		out := make([]byte, 0, 2*len(us))
		for _, u := range us {
			out = append(out, byte(u), byte(u>>8))
		}
		return B(out)
	})
	Impl("algo.utf16le_dec", func(a []Val) Val {
		b := a[0].B
		us := make([]uint16, len(b)/2)
		for i := range us {
			us[i] = uint16(b[2*i]) | uint16(b[2*i+1])<<8
		}
		return algoRuneList(utf16.Decode(us))
	})
	Impl("algo.utf8_dec", func(a []Val) Val {
		if !utf8.Valid(a[0].B) {
			return VErr()
		}
		return algoRuneList([]rune(string(a[0].B)))
	})
	Impl("algo.utf8_enc", func(a []Val) Val { return S(string(algoRunes(a[0]))) })

	Gen("ALGO", genAlgoHash)
	Gen("ALGO", genAlgoHmacPbkdf2)
	Gen("ALGO", genAlgoDes)
	Gen("ALGO", genAlgoAes)
	Gen("ALGO", genAlgoRc4Cmac)
	Gen("ALGO", genAlgoBase64)
	Gen("ALGO", genAlgoUnicode)
}

// message lengths: every length 0..200 (covers the padding boundaries 55/56/63/64/65/119/120
// and 183/184/191/192/193), more boundaries further out, and random lengths up to 2 KiB.
func algoLengths(c *Ctx, nrandom int) []int {
	var ls []int
	for n := 0; n <= 200; n++ {
		ls = append(ls, n)
	}
	ls = append(ls, 247, 248, 255, 256, 257, 311, 312, 319, 320, 321, 511, 512, 513, 1023, 1024, 1025, 2047, 2048)
	for i := 0; i < nrandom; i++ {
		ls = append(ls, c.Rng.Intn(2049))
	}
	return ls
}

func algoMsg(r *Rng, n int) []byte {
	switch r.Intn(6) {
	case 0:
		b := make([]byte, n)
		v := []byte{0x00, 0xff, 0x80, 0x61}[r.Intn(4)]
		for i := range b {
			b[i] = v
		}
		return b
	default:
		return r.Bytes(n)
	}
}

func genAlgoHash(c *Ctx) {
	r := c.Rng
	for _, fn := range []string{"algo.md4", "algo.md5", "algo.sha1", "algo.sha256"} {
		for _, n := range algoLengths(c, c.N(12, 200)) {
			c.Case(fn, B(algoMsg(r, n)))
		}
		c.Case(fn, S("abc"))
		c.Case(fn, S("message digest"))
	}
}

func genAlgoHmacPbkdf2(c *Ctx) {
	r := c.Rng
	for _, fn := range []string{"algo.hmac_md5", "algo.hmac_sha1", "algo.hmac_sha256"} {
		// every key length 0..130 (block size 64: shorter, equal, longer -> hashed)
		for kl := 0; kl <= 130; kl++ {
			c.Case(fn, B(r.Bytes(kl)), B(algoMsg(r, r.Intn(200))))
		}
		// every message length 0..200 with a typical key
		for ml := 0; ml <= 200; ml++ {
			c.Case(fn, B(r.Bytes(r.Pick(16, 16, 20, 32, 64))), B(algoMsg(r, ml)))
		}
		for i := 0; i < c.N(10, 200); i++ {
			c.Case(fn, B(r.Bytes(r.Intn(300))), B(algoMsg(r, r.Intn(2049))))
		}
	}
	// PBKDF2-HMAC-SHA1: every iteration count 1..50, assorted output lengths
	lens := []int{1, 16, 16, 16, 19, 20, 20, 21, 32, 40, 41}
	for it := 1; it <= 50; it++ {
		c.Case("algo.pbkdf2_sha1", B(r.Bytes(r.Intn(24))), B(r.Bytes(r.Intn(40))), I(int64(it)), I(int64(lens[r.Intn(len(lens))])))
	}
	for l := 0; l <= 64; l++ {
		c.Case("algo.pbkdf2_sha1", B(r.Bytes(r.Intn(80))), B(r.Bytes(r.Intn(80))), I(int64(1+r.Intn(3))), I(int64(l)))
	}
	c.Case("algo.pbkdf2_sha1", S("password"), S("salt"), I(1), I(20))
	c.Case("algo.pbkdf2_sha1", S("password"), S("salt"), I(2), I(20))
	c.Case("algo.pbkdf2_sha1", S("passwordPASSWORDpassword"), S("saltSALTsaltSALTsaltSALTsaltSALTsalt"), I(5), I(25))
	c.Case("algo.pbkdf2_sha1", B(r.Bytes(70)), B(r.Bytes(70)), I(3), I(100)) // password longer than the HMAC block
	for i := 0; i < c.N(6, 60); i++ {
		c.Case("algo.pbkdf2_sha256", B(r.Bytes(r.Intn(24))), B(r.Bytes(r.Intn(40))), I(int64(1+r.Intn(12))), I(int64(r.Pick(1, 16, 32, 33, 64))))
	}
	if c.Tier == "thorough" {
		for it := 51; it <= 400; it += 1 + r.Intn(40) {
			c.Case("algo.pbkdf2_sha1", B(r.Bytes(r.Intn(24))), B(r.Bytes(r.Intn(40))), I(int64(it)), I(16))
		}
		c.Case("algo.pbkdf2_sha1", S("password"), S("salt"), I(4096), I(20))
		// the MS-Cache v2 (DCC2) parameters: 10240 iterations, 16 bytes
		c.Case("algo.pbkdf2_sha1", B(r.Bytes(16)), B(r.Bytes(26)), I(10240), I(16))
	}
}

func genAlgoDes(c *Ctx) {
	r := c.Rng
	for i := 0; i < c.N(300, 4000); i++ {
		k, b := r.Bytes(8), r.Bytes(8)
		c.Case("algo.des_enc", B(k), B(b))
		c.Case("algo.des_dec", B(k), B(b))
		if i%8 == 0 {
			// flipping parity bits must not change anything
			k2 := append([]byte{}, k...)
			for j := range k2 {
				if r.Bool() {
					k2[j] ^= 1
				}
			}
			c.Case("algo.des_enc", B(k2), B(b))
		}
	}
	// single-bit keys and blocks (known-answer style: every table entry is exercised)
	for bit := 0; bit < 64; bit++ {
		k := make([]byte, 8)
		b := make([]byte, 8)
		b[bit/8] = 0x80 >> uint(bit%8)
		for j := range k {
			k[j] = 1
		}
		c.Case("algo.des_enc", B(k), B(b))
		c.Case("algo.des_dec", B(k), B(b))
		k[bit/8] ^= 0x80 >> uint(bit%8)
		c.Case("algo.des_enc", B(k), B(make([]byte, 8)))
		c.Case("algo.des_dec", B(k), B(make([]byte, 8)))
	}
	for _, k := range [][]byte{{0, 0, 0, 0, 0, 0, 0, 0}, {0xff, 0xff, 0xff, 0xff, 0xff, 0xff, 0xff, 0xff}, {0x01, 0x23, 0x45, 0x67, 0x89, 0xab, 0xcd, 0xef}} {
		c.Case("algo.des_enc", B(k), S("KGS!@#$%"))
	}
	for bit := 0; bit < 56; bit++ {
		k := make([]byte, 7)
		k[bit/8] = 0x80 >> uint(bit%8)
		c.Case("algo.str_to_key", B(k))
		for j := range k {
			k[j] ^= 0xff
		}
		c.Case("algo.str_to_key", B(k))
	}
	c.Case("algo.str_to_key", B(make([]byte, 7)))
	for i := 0; i < c.N(300, 4000); i++ {
		c.Case("algo.str_to_key", B(r.Bytes(7)))
	}
}

func genAlgoAes(c *Ctx) {
	r := c.Rng
	for _, ks := range []struct {
		n   string
		len int
	}{{"128", 16}, {"192", 24}, {"256", 32}} {
		for i := 0; i < c.N(120, 2000); i++ {
			k, b := r.Bytes(ks.len), r.Bytes(16)
			if i < 4 {
				k = make([]byte, ks.len)
			}
			if i%4 == 1 {
				b = make([]byte, 16)
				b[r.Intn(16)] = 1 << uint(r.Intn(8))
			}
			c.Case("algo.aes"+ks.n+"_enc", B(k), B(b))
			c.Case("algo.aes"+ks.n+"_dec", B(k), B(b))
		}
	}
	for nb := 0; nb <= 12; nb++ {
		k, iv, d := r.Bytes(32), r.Bytes(16), r.Bytes(16*nb)
		c.Case("algo.aes256_cbc_enc", B(k), B(iv), B(d))
		c.Case("algo.aes256_cbc_dec", B(k), B(iv), B(d))
		c.Case("algo.aes256_cbc_enc", B(k), B(make([]byte, 16)), B(d))
	}
	for i := 0; i < c.N(6, 100); i++ {
		k, iv, d := r.Bytes(32), r.Bytes(16), r.Bytes(16*r.Intn(129))
		c.Case("algo.aes256_cbc_enc", B(k), B(iv), B(d))
		c.Case("algo.aes256_cbc_dec", B(k), B(iv), B(d))
	}
}

func genAlgoRc4Cmac(c *Ctx) {
	r := c.Rng
	// RC4: every legal key size 1..256, every data length 0..200, random up to 2 KiB
	for kl := 1; kl <= 256; kl++ {
		c.Case("algo.rc4", B(r.Bytes(kl)), B(algoMsg(r, r.Intn(64))))
	}
	for _, n := range algoLengths(c, c.N(6, 100)) {
		c.Case("algo.rc4", B(r.Bytes(r.Pick(5, 8, 16, 16, 16, 32, 256))), B(algoMsg(r, n)))
	}
	for _, e := range []struct {
		fn string
		kl int
	}{{"algo.cmac_aes128", 16}, {"algo.cmac_aes256", 32}, {"algo.cmac_des", 8}} {
		for _, n := range algoLengths(c, c.N(4, 100)) {
			c.Case(e.fn, B(r.Bytes(e.kl)), B(algoMsg(r, n)))
		}
		// subkey derivation: keys whose L / K1 have the top bit set or clear are both frequent with
		// random keys; add many short messages with fresh keys
		for i := 0; i < c.N(60, 1000); i++ {
			c.Case(e.fn, B(r.Bytes(e.kl)), B(r.Bytes(r.Intn(40))))
		}
	}
}

func genAlgoBase64(c *Ctx) {
	r := c.Rng
	for _, n := range algoLengths(c, c.N(10, 200)) {
		b := algoMsg(r, n)
		c.Case("algo.b64enc", B(b))
		c.Case("algo.b64dec", S(base64.StdEncoding.EncodeToString(b)))
	}
	alpha := "ABCDEFGHIJKLMNOPQRSTUVWXYZabcdefghijklmnopqrstuvwxyz0123456789+/"
	// malformed stream: truncations, corruptions with characters around the alphabet ranges,
	// padding in odd places, CR/LF (ignored by the decoder), non-canonical trailing bits
	odd := []byte{'=', '\n', '\r', ' ', '-', '_', '@', '[', '`', '{', '/', '0' - 1, '9' + 1, '+', '*', ',', 0, 0x7f, 0x80, 0xff, 'A', 'B', 'Q', 'R', 'x'}
	for i := 0; i < c.N(60, 600); i++ {
		enc := []byte(base64.StdEncoding.EncodeToString(r.Bytes(r.Intn(14))))
		for cut := 0; cut <= len(enc); cut++ {
			c.Case("algo.b64dec", B(enc[:cut]))
		}
		for k := 0; k < 12 && len(enc) > 0; k++ {
			m := append([]byte{}, enc...)
			m[r.Intn(len(m))] = odd[r.Intn(len(odd))]
			if r.Intn(3) == 0 {
				m[len(m)-1-r.Intn(min(len(m), 4))] = odd[r.Intn(len(odd))]
			}
			c.Case("algo.b64dec", B(m))
			// insertion
			p := r.Intn(len(enc) + 1)
			ins := append(append(append([]byte{}, enc[:p]...), odd[r.Intn(len(odd))]), enc[p:]...)
			c.Case("algo.b64dec", B(ins))
		}
	}
	for i := 0; i < c.N(400, 6000); i++ {
		c.Case("algo.b64dec", S(r.StringOver(alpha+"====\n\r", r.Intn(14))))
	}
	for _, s := range []string{"", "=", "==", "===", "====", "A", "AA", "AAA", "AAAA", "A===", "AA==", "AAA=", "AB==", "AAB=", "QQ==", "QR==", "QUI=", "QUJ=",
		"AA==AA==", "AAAAAA==", "AA=A", "AA\n==", "AA=\n=", "AA==\n", "\n", "\r\n", "A\nAAA", "AA==A", "AA== ", "Zm9v", "Zm9vYg==", "Zm9vYmE=", "Zm9vYmFy", "Zg==", "Zm8="} {
		c.Case("algo.b64dec", S(s))
	}
}

func algoRune(r *Rng) int64 {
	switch r.Intn(12) {
	case 0:
		return int64(r.Intn(0x80))
	case 1:
		return int64(0x80 + r.Intn(0x780))
	case 2:
		return int64(0x800 + r.Intn(0xD000))
	case 3:
		return int64(0xE000 + r.Intn(0x2000))
	case 4:
		return int64(0x10000 + r.Intn(0x100000))
	case 5:
		edges := []int64{0, 0x7f, 0x80, 0x7ff, 0x800, 0xd7ff, 0xe000, 0xfffd, 0xfffe, 0xffff, 0x10000, 0x10ffff, 0x1f600, 0x103ff, 0x10400}
		return edges[r.Intn(len(edges))]
	default:
		return int64(0x20 + r.Intn(0x5f))
	}
}

func algoBadRune(r *Rng) int64 {
	bad := []int64{0xd800, 0xdbff, 0xdc00, 0xdfff, 0x110000, 0x7fffffff, 0x200000, 0xd800 + int64(r.Intn(0x800)), 0x110000 + int64(r.Intn(0x100000))}
	return bad[r.Intn(len(bad))]
}

func genAlgoUnicode(c *Ctx) {
	r := c.Rng
	for i := 0; i < c.N(500, 8000); i++ {
		n := r.Intn(20)
		vs := make([]Val, n)
		rs := make([]rune, n)
		for j := range vs {
			x := algoRune(r)
			vs[j] = I(x)
			rs[j] = rune(x)
		}
		c.Case("algo.utf16le_enc", L(vs...))
		c.Case("algo.utf8_enc", L(vs...))
		// valid encodings, their truncations now and then
		u8 := []byte(string(rs))
		c.Case("algo.utf8_dec", B(u8))
		us := utf16.Encode(rs)
		u16 := make([]byte, 0, 2*len(us))
		for _, u := range us {
			u16 = append(u16, byte(u), byte(u>>8))
		}
		c.Case("algo.utf16le_dec", B(u16))
		if i%10 == 0 {
			for cut := 0; cut < len(u8) && cut < 24; cut++ {
				c.Case("algo.utf8_dec", B(u8[:cut]))
			}
			for cut := 0; cut < len(u16) && cut < 24; cut++ {
				c.Case("algo.utf16le_dec", B(u16[:cut]))
			}
			for _, m := range Corruptions(u8, 12) {
				c.Case("algo.utf8_dec", B(m))
			}
		}
		if i%5 == 0 && n > 0 {
			// totalisation: non-scalar code points are replaced by U+FFFD
			vs[r.Intn(n)] = I(algoBadRune(r))
			c.Case("algo.utf16le_enc", L(vs...))
			c.Case("algo.utf8_enc", L(vs...))
		}
	}
	// every code point boundary on its own
	for _, x := range []int64{0, 1, 0x7f, 0x80, 0x7ff, 0x800, 0xfff, 0x1000, 0xcfff, 0xd000, 0xd7ff, 0xd800, 0xdbff, 0xdc00, 0xdfff, 0xe000, 0xfffd, 0xffff,
		0x10000, 0x3ffff, 0x40000, 0xfffff, 0x100000, 0x10ffff, 0x110000} {
		c.Case("algo.utf16le_enc", L(I(x)))
		c.Case("algo.utf8_enc", L(I(x)))
	}
	// surrogate code units in every arrangement
	units := []uint16{0x41, 0xd800, 0xdbff, 0xdc00, 0xdfff, 0xd7ff, 0xe000, 0xffff, 0}
	for i := 0; i < c.N(300, 4000); i++ {
		n := r.Intn(6)
		var b []byte
		for j := 0; j < n; j++ {
			u := units[r.Intn(len(units))]
			b = append(b, byte(u), byte(u>>8))
		}
		if r.Intn(8) == 0 {
			b = append(b, r.Byte())
		}
		c.Case("algo.utf16le_dec", B(b))
	}
	for i := 0; i < c.N(200, 4000); i++ {
		c.Case("algo.utf16le_dec", B(r.Bytes(r.Intn(24))))
	}
	// ill-formed UTF-8: overlong forms, surrogates, beyond U+10FFFF, stray continuation bytes
	bad := [][]byte{{0xc0, 0x80}, {0xc1, 0xbf}, {0xc2, 0x80}, {0xdf, 0xbf}, {0xe0, 0x80, 0x80}, {0xe0, 0x9f, 0xbf}, {0xe0, 0xa0, 0x80}, {0xed, 0x9f, 0xbf},
		{0xed, 0xa0, 0x80}, {0xed, 0xbf, 0xbf}, {0xee, 0x80, 0x80}, {0xef, 0xbf, 0xbf}, {0xf0, 0x80, 0x80, 0x80}, {0xf0, 0x8f, 0xbf, 0xbf}, {0xf0, 0x90, 0x80, 0x80},
		{0xf4, 0x8f, 0xbf, 0xbf}, {0xf4, 0x90, 0x80, 0x80}, {0xf5, 0x80, 0x80, 0x80}, {0xf7, 0xbf, 0xbf, 0xbf}, {0xf8, 0x88, 0x80, 0x80, 0x80}, {0xfe}, {0xff},
		{0x80}, {0xbf}, {0xc2}, {0xe0, 0xa0}, {0xf0, 0x90, 0x80}, {0xc2, 0x41}, {0xe1, 0x80, 0x41}, {0xf1, 0x80, 0x80, 0x41}, {0xe1, 0x41, 0x80}, {0xc2, 0xc0}, {0xe1, 0x80, 0xc0}}
	for _, b := range bad {
		c.Case("algo.utf8_dec", B(b))
		c.Case("algo.utf8_dec", B(cat([]byte("a"), b, []byte("z"))))
	}
	lead := []byte{0x00, 0x41, 0x7f, 0x80, 0xbf, 0xc0, 0xc1, 0xc2, 0xdf, 0xe0, 0xe1, 0xec, 0xed, 0xee, 0xef, 0xf0, 0xf1, 0xf3, 0xf4, 0xf5, 0xf7, 0xf8, 0xff,
		0x8f, 0x90, 0x9f, 0xa0}
	for i := 0; i < c.N(1500, 30000); i++ {
		n := 1 + r.Intn(5)
		b := make([]byte, n)
		for j := range b {
			b[j] = lead[r.Intn(len(lead))]
		}
		c.Case("algo.utf8_dec", B(b))
	}
	for i := 0; i < c.N(200, 4000); i++ {
		c.Case("algo.utf8_dec", B(r.Bytes(r.Intn(12))))
	}
}
