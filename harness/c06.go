//go:build c06 || allprops

package main

// C06 — SMB wire data types round-trip and consume exactly their own encoding.
// Impl runners (entry points "c06.*") project the real Marshal/Unmarshal methods; oracles state the
// round-trip property directly on the Go code.

import (
	"bytes"
	"fmt"
	"os"

	"github.com/TheManticoreProject/Manticore/network/smb/smb_v10/message/commands/andx"
	"github.com/TheManticoreProject/Manticore/network/smb/smb_v10/message/commands/codes"
	smbdata "github.com/TheManticoreProject/Manticore/network/smb/smb_v10/message/data"
	"github.com/TheManticoreProject/Manticore/network/smb/smb_v10/message/parameters"
	"github.com/TheManticoreProject/Manticore/network/smb/smb_v10/spnego/ntlm/version"
	"github.com/TheManticoreProject/Manticore/network/smb/smb_v10/types"
	"github.com/TheManticoreProject/Manticore/windows/ms_dtyp/common/data_structures"
)

// SMB_RESUME_KEY.Unmarshal prints its buffer to stdout (a stray debug print); silence it while the
// real code runs so that the harness output stays readable.
var c06DevNull *os.File

func c06Quiet(f func()) {
	if c06DevNull == nil {
		c06DevNull, _ = os.OpenFile(os.DevNull, os.O_WRONLY, 0)
	}
	old := os.Stdout
	if c06DevNull != nil {
		os.Stdout = c06DevNull
	}
	defer func() { os.Stdout = old }()
	f()
}

// c06Try runs f and reports whether it panicked.
func c06Try(f func()) (panicked bool) {
	defer func() {
		if r := recover(); r != nil {
			panicked = true
		}
	}()
	f()
	return false
}

// ---------------------------------------------------------------- projections

func c06SS(s *types.SMB_STRING) Val {
	return L(U(uint64(s.BufferFormat)), U(uint64(s.Length)), B(s.Buffer))
}
func c06SSFrom(v Val) types.SMB_STRING {
	return types.SMB_STRING{BufferFormat: uint8(v.L[0].Uint()), Length: uint16(v.L[1].Uint()), Buffer: exact(v.L[2].B)}
}
func c06RK(r *types.SMB_RESUME_KEY) Val {
	return L(c06SS(&r.SMB_STRING), U(uint64(r.Reserved)), B(r.ServerState[:]), B(r.ClientState[:]))
}
func c06RKFrom(v Val) types.SMB_RESUME_KEY {
	r := types.SMB_RESUME_KEY{SMB_STRING: c06SSFrom(v.L[0]), Reserved: uint8(v.L[1].Uint())}
	copy(r.ServerState[:], v.L[2].B)
	copy(r.ClientState[:], v.L[3].B)
	return r
}
func c06Date(d *types.SMB_DATE) Val {
	return L(U(uint64(d.Year)), U(uint64(d.Month)), U(uint64(d.Day)))
}
func c06DateFrom(v Val) types.SMB_DATE {
	return types.SMB_DATE{Year: uint16(v.L[0].Uint()), Month: uint8(v.L[1].Uint()), Day: uint8(v.L[2].Uint())}
}
func c06FT(f *data_structures.FILETIME) Val {
	return L(U(uint64(f.DwLowDateTime)), U(uint64(f.DwHighDateTime)))
}
func c06FTFrom(v Val) data_structures.FILETIME {
	return data_structures.FILETIME{DwLowDateTime: uint32(v.L[0].Uint()), DwHighDateTime: uint32(v.L[1].Uint())}
}
func c06DI(d *types.SMB_DIRECTORY_INFORMATION) Val {
	return L(c06RK(&d.ResumeKey), U(uint64(d.FileAttributes)), c06FT(&d.LastWriteTime), c06Date(&d.LastWriteDate),
		U(uint64(d.FileSize)), c06SS(&d.FileName.SMB_STRING))
}
func c06DIFrom(v Val) types.SMB_DIRECTORY_INFORMATION {
	return types.SMB_DIRECTORY_INFORMATION{
		ResumeKey:      c06RKFrom(v.L[0]),
		FileAttributes: uint8(v.L[1].Uint()),
		LastWriteTime:  c06FTFrom(v.L[2]),
		LastWriteDate:  c06DateFrom(v.L[3]),
		FileSize:       uint32(v.L[4].Uint()),
		FileName:       types.OEM_STRING{SMB_STRING: c06SSFrom(v.L[5])},
	}
}
func c06Words(ws []uint16) Val {
	vs := make([]Val, len(ws))
	for i, w := range ws {
		vs[i] = U(uint64(w))
	}
	return L(vs...)
}
func c06WordsFrom(v Val) []uint16 {
	ws := make([]uint16, len(v.L))
	for i, w := range v.L {
		ws[i] = uint16(w.Uint())
	}
	return ws
}
func c06BytesOrErr(b []byte, err error) Val {
	if err != nil {
		return VErr()
	}
	return B(b)
}

func init() {
	// ------------------------------------------------------------ SMB_STRING / OEM_STRING
	Impl("c06.string.marshal", func(a []Val) Val {
		s := c06SSFrom(a[0])
		b, err := s.Marshal()
		if err != nil {
			return VErr()
		}
		return L(B(b), c06SS(&s))
	})
	Impl("c06.string.unmarshal", func(a []Val) Val {
		var s types.SMB_STRING
		dirty(&s)
		n, err := s.Unmarshal(exact(a[0].B))
		if err != nil {
			return VErr()
		}
		return L(c06SS(&s), I(int64(n)))
	})
	Impl("c06.oem.marshal", func(a []Val) Val {
		o := types.OEM_STRING{SMB_STRING: c06SSFrom(a[0])}
		b, err := o.Marshal()
		if err != nil {
			return VErr()
		}
		return L(B(b), c06SS(&o.SMB_STRING))
	})
	Impl("c06.oem.unmarshal", func(a []Val) Val {
		var o types.OEM_STRING
		dirty(&o)
		n, err := o.Unmarshal(exact(a[0].B))
		if err != nil {
			return VErr()
		}
		return L(c06SS(&o.SMB_STRING), I(int64(n)))
	})
	// ------------------------------------------------------------ SMB_DATE
	Impl("c06.date.marshal", func(a []Val) Val {
		d := c06DateFrom(a[0])
		return c06BytesOrErr(d.Marshal())
	})
	Impl("c06.date.unmarshal", func(a []Val) Val {
		var d types.SMB_DATE
		dirty(&d)
		n, err := d.Unmarshal(exact(a[0].B))
		if err != nil {
			return VErr()
		}
		return L(c06Date(&d), I(int64(n)))
	})
	// ------------------------------------------------------------ FILETIME
	Impl("c06.filetime.marshal", func(a []Val) Val {
		f := c06FTFrom(a[0])
		return c06BytesOrErr(f.Marshal())
	})
	Impl("c06.filetime.unmarshal", func(a []Val) Val {
		var f data_structures.FILETIME
		dirty(&f)
		n, err := f.Unmarshal(exact(a[0].B))
		if err != nil {
			return VErr()
		}
		return L(c06FT(&f), I(int64(n)))
	})
	// ------------------------------------------------------------ LOCKING_ANDX_RANGE32/64
	Impl("c06.range32.marshal", func(a []Val) Val {
		l := types.LOCKING_ANDX_RANGE32{PID: uint16(a[0].L[0].Uint()), ByteOffset: uint32(a[0].L[1].Uint()), LengthInBytes: uint32(a[0].L[2].Uint())}
		return c06BytesOrErr(l.Marshal())
	})
	Impl("c06.range32.unmarshal", func(a []Val) Val {
		var l types.LOCKING_ANDX_RANGE32
		dirty(&l)
		n, err := l.Unmarshal(exact(a[0].B))
		if err != nil {
			return VErr()
		}
		return L(L(U(uint64(l.PID)), U(uint64(l.ByteOffset)), U(uint64(l.LengthInBytes))), I(int64(n)))
	})
	Impl("c06.range64.marshal", func(a []Val) Val {
		f := a[0].L
		l := types.LOCKING_ANDX_RANGE64{PID: uint16(f[0].Uint()), Pad: uint16(f[1].Uint()), ByteOffsetHigh: uint32(f[2].Uint()),
			ByteOffsetLow: uint32(f[3].Uint()), LengthInBytesHigh: uint32(f[4].Uint()), LengthInBytesLow: uint32(f[5].Uint())}
		return c06BytesOrErr(l.Marshal())
	})
	Impl("c06.range64.unmarshal", func(a []Val) Val {
		var l types.LOCKING_ANDX_RANGE64
		dirty(&l)
		n, err := l.Unmarshal(exact(a[0].B))
		if err != nil {
			return VErr()
		}
		return L(L(U(uint64(l.PID)), U(uint64(l.Pad)), U(uint64(l.ByteOffsetHigh)), U(uint64(l.ByteOffsetLow)),
			U(uint64(l.LengthInBytesHigh)), U(uint64(l.LengthInBytesLow))), I(int64(n)))
	})
	// ------------------------------------------------------------ SMB_NMPIPE_STATUS
	Impl("c06.nmpipe.marshal", func(a []Val) Val {
		s := types.SMB_NMPIPE_STATUS{ICount: uint8(a[0].L[0].Uint()), Flags: uint8(a[0].L[1].Uint())}
		return c06BytesOrErr(s.Marshal())
	})
	Impl("c06.nmpipe.unmarshal", func(a []Val) Val {
		var s types.SMB_NMPIPE_STATUS
		dirty(&s)
		n, err := s.Unmarshal(exact(a[0].B))
		if err != nil {
			return VErr()
		}
		return L(L(U(uint64(s.ICount)), U(uint64(s.Flags))), I(int64(n)))
	})
	// ------------------------------------------------------------ SMB_RESUME_KEY
	Impl("c06.resumekey.marshal", func(a []Val) Val {
		r := c06RKFrom(a[0])
		b, err := r.Marshal()
		if err != nil {
			return VErr()
		}
		return L(B(b), c06RK(&r))
	})
	Impl("c06.resumekey.unmarshal", func(a []Val) (out Val) {
		c06Quiet(func() {
			var r types.SMB_RESUME_KEY
			dirty(&r)
			n, err := r.Unmarshal(exact(a[0].B))
			if err != nil {
				out = VErr()
				return
			}
			out = L(c06RK(&r), I(int64(n)))
		})
		return
	})
	// ------------------------------------------------------------ SMB_DIRECTORY_INFORMATION
	Impl("c06.dirinfo.marshal", func(a []Val) Val {
		d := c06DIFrom(a[0])
		b, err := d.Marshal()
		if err != nil {
			return VErr()
		}
		return L(B(b), c06DI(&d))
	})
	Impl("c06.dirinfo.unmarshal", func(a []Val) (out Val) {
		c06Quiet(func() {
			var d types.SMB_DIRECTORY_INFORMATION
			dirty(&d)
			n, err := d.Unmarshal(exact(a[0].B))
			if err != nil {
				out = VErr()
				return
			}
			out = L(c06DI(&d), I(int64(n)))
		})
		return
	})
	// ------------------------------------------------------------ SMB_FILE_ATTRIBUTES
	Impl("c06.fileattr.marshal", func(a []Val) Val {
		s := types.SMB_FILE_ATTRIBUTES{Attributes: uint16(a[0].Uint())}
		return c06BytesOrErr(s.Marshal())
	})
	Impl("c06.fileattr.unmarshal", func(a []Val) Val {
		var s types.SMB_FILE_ATTRIBUTES
		dirty(&s)
		n, err := s.Unmarshal(exact(a[0].B))
		if err != nil {
			return VErr()
		}
		return L(U(uint64(s.Attributes)), I(int64(n)))
	})
	// ------------------------------------------------------------ AndX
	Impl("c06.andx.marshal", func(a []Val) Val {
		x := andx.AndX{AndXCommand: codes.CommandCode(a[0].L[0].Uint()), AndXReserved: uint8(a[0].L[1].Uint()), AndXOffset: uint16(a[0].L[2].Uint())}
		return c06BytesOrErr(x.Marshal())
	})
	Impl("c06.andx.unmarshal", func(a []Val) Val {
		var x andx.AndX
		dirty(&x)
		n, err := x.Unmarshal(exact(a[0].B))
		if err != nil {
			return VErr()
		}
		return L(L(U(uint64(x.AndXCommand)), U(uint64(x.AndXReserved)), U(uint64(x.AndXOffset))), I(int64(n)))
	})
	Impl("c06.andx.words", func(a []Val) Val {
		x := andx.AndX{AndXCommand: codes.CommandCode(a[0].L[0].Uint()), AndXReserved: uint8(a[0].L[1].Uint()), AndXOffset: uint16(a[0].L[2].Uint())}
		return c06Words(x.GetParameters())
	})
	// ------------------------------------------------------------ NTLM Version
	Impl("c06.version.marshal", func(a []Val) Val {
		f := a[0].L
		v := version.Version{ProductMajorVersion: uint8(f[0].Uint()), ProductMinorVersion: uint8(f[1].Uint()),
			ProductBuild: uint16(f[2].Uint()), NTLMRevision: uint8(f[4].Uint())}
		copy(v.Reserved[:], f[3].B)
		return c06BytesOrErr(v.Marshal())
	})
	Impl("c06.version.unmarshal", func(a []Val) Val {
		var v version.Version
		dirty(&v)
		n, err := v.Unmarshal(exact(a[0].B))
		if err != nil {
			return VErr()
		}
		return L(L(U(uint64(v.ProductMajorVersion)), U(uint64(v.ProductMinorVersion)), U(uint64(v.ProductBuild)),
			B(v.Reserved[:]), U(uint64(v.NTLMRevision))), I(int64(n)))
	})
	// ------------------------------------------------------------ Parameters / Data blocks with accumulators
	// args: list of ops, op = (0 word) AddWord | (1 bytes) AddWordsFromBytesStream ; starts from NewParameters()
	Impl("c06.params.ops", func(a []Val) Val {
		p := parameters.NewParameters()
		for _, op := range a[0].L {
			switch op.L[0].Uint() {
			case 0:
				p.AddWord(uint16(op.L[1].Uint()))
			case 1:
				p.AddWordsFromBytesStream(exact(op.L[1].B))
			}
		}
		m := c06BytesOrErr(p.Marshal())
		return L(U(uint64(p.WordCount)), c06Words(p.Words), m, B(p.GetBytes()), U(uint64(p.Size())))
	})
	Impl("c06.params.marshal", func(a []Val) Val {
		p := parameters.Parameters{WordCount: uint8(a[0].L[0].Uint()), Words: c06WordsFrom(a[0].L[1])}
		return c06BytesOrErr(p.Marshal())
	})
	Impl("c06.params.unmarshal", func(a []Val) Val {
		p := parameters.NewParameters()
		n, err := p.Unmarshal(exact(a[0].B))
		if err != nil {
			return VErr()
		}
		return L(L(U(uint64(p.WordCount)), c06Words(p.Words)), I(int64(n)))
	})
	// args: list of ops, op = (0 bytes) Add | (1 bytes) SetData ; starts from NewData()
	Impl("c06.data.ops", func(a []Val) Val {
		d := smbdata.NewData()
		for _, op := range a[0].L {
			switch op.L[0].Uint() {
			case 0:
				d.Add(exact(op.L[1].B))
			case 1:
				d.SetData(exact(op.L[1].B))
			}
		}
		m := c06BytesOrErr(d.Marshal())
		return L(U(uint64(d.ByteCount)), B(d.GetBytes()), m, U(uint64(d.Size())))
	})
	Impl("c06.data.marshal", func(a []Val) Val {
		d := smbdata.Data{ByteCount: uint16(a[0].L[0].Uint()), Bytes: exact(a[0].L[1].B)}
		return c06BytesOrErr(d.Marshal())
	})
	Impl("c06.data.unmarshal", func(a []Val) Val {
		d := smbdata.NewData()
		n, err := d.Unmarshal(exact(a[0].B))
		if err != nil {
			return VErr()
		}
		return L(L(U(uint64(d.ByteCount)), B(d.Bytes)), I(int64(n)))
	})

	c06Oracles()
	Gen("C06", genC06)
}

// ---------------------------------------------------------------- oracles

// c06RT is the shape shared by all round-trip oracles: encode, append the suffix, decode with the real
// code, compare.  enc returns the encoding; dec decodes into a fresh value and returns (n, err) and a
// comparison of the decoded fields with the original ones.
func c06RT(key string, suffix []byte, enc func() ([]byte, error), dec func(b []byte) (int, error, string)) (string, string) {
	var e []byte
	var err error
	if c06Try(func() { e, err = enc() }) {
		return key + "/marshal-panic", "Marshal panicked"
	}
	if err != nil {
		return key + "/marshal-error", "Marshal failed on a value of the domain: " + err.Error()
	}
	in := exact(cat(e, suffix))
	var n int
	var derr error
	var diff string
	if c06Try(func() { c06Quiet(func() { n, derr, diff = dec(in) }) }) {
		return key + "/unmarshal-panic", fmt.Sprintf("Unmarshal panicked on its own encoding (%d bytes) + %d trailing bytes; head %x", len(e), len(suffix), head(in, 24))
	}
	if derr != nil {
		if len(suffix) > 0 {
			return key + "/trailing-bytes", fmt.Sprintf("Unmarshal rejects own encoding %x followed by %d trailing bytes: %v", head(e, 64), len(suffix), derr)
		}
		return key + "/unmarshal-error", fmt.Sprintf("Unmarshal rejects own encoding %x: %v", head(e, 64), derr)
	}
	if diff != "" {
		return key + "/fields", fmt.Sprintf("encoding %x decodes to different fields: %s", head(e, 64), diff)
	}
	if n != len(e) {
		return key + "/consumed", fmt.Sprintf("encoding of %d bytes (+%d trailing) reported %d consumed", len(e), len(suffix), n)
	}
	return "", ""
}

func head(b []byte, n int) []byte {
	if len(b) > n {
		return b[:n]
	}
	return b
}

func c06StringKey(format uint8, l int) string {
	k := fmt.Sprintf("C06/string/fmt%d", format)
	if l >= 65533 && (format == 1 || format == 3 || format == 5) {
		k += "/len>=65533"
	}
	return k
}

func c06Oracles() {
	// args: format, buffer, suffix
	Oracle("c06.string", func(a []Val) (string, string) {
		format := uint8(a[0].Uint())
		buf := a[1].B
		s := types.SMB_STRING{BufferFormat: format, Length: uint16(len(buf)), Buffer: exact(buf)}
		return c06RT(c06StringKey(format, len(buf)), a[2].B, s.Marshal, func(b []byte) (int, error, string) {
			var u types.SMB_STRING
			dirty(&u)
			n, err := u.Unmarshal(b)
			if err != nil {
				return n, err, ""
			}
			if u.BufferFormat != format || int(u.Length) != len(buf) || !bytes.Equal(u.Buffer, buf) {
				return n, nil, fmt.Sprintf("format %d length %d buffer %x…", u.BufferFormat, u.Length, head(u.Buffer, 16))
			}
			return n, nil, ""
		})
	})
	// args: string, suffix
	Oracle("c06.oem", func(a []Val) (string, string) {
		str := a[0].Str()
		o := types.NewOEM_STRINGFromString(str)
		return c06RT("C06/oem", a[1].B, o.Marshal, func(b []byte) (int, error, string) {
			u := types.NewOEM_STRING()
			n, err := u.Unmarshal(b)
			if err != nil {
				return n, err, ""
			}
			if u.GetString() != str || int(u.Length) != len(str) || u.BufferFormat != 4 {
				return n, nil, fmt.Sprintf("format %d length %d string %q", u.BufferFormat, u.Length, head([]byte(u.GetString()), 16))
			}
			return n, nil, ""
		})
	})
	// args: year (1980..2107), month (0..15), day (0..31), suffix
	Oracle("c06.date", func(a []Val) (string, string) {
		d := types.SMB_DATE{Year: uint16(a[0].Uint()), Month: uint8(a[1].Uint()), Day: uint8(a[2].Uint())}
		return c06RT("C06/date", a[3].B, d.Marshal, func(b []byte) (int, error, string) {
			var u types.SMB_DATE
			dirty(&u)
			n, err := u.Unmarshal(b)
			if err == nil && u != d {
				return n, nil, fmt.Sprintf("%+v (wanted %+v)", u, d)
			}
			return n, err, ""
		})
	})
	// args: a 16-bit word; the word decodes to a date which encodes to the same word (all 65536 words)
	Oracle("c06.date.word", func(a []Val) (string, string) {
		w := uint16(a[0].Uint())
		in := []byte{byte(w), byte(w >> 8)}
		var u types.SMB_DATE
		dirty(&u)
		n, err := u.Unmarshal(exact(in))
		if err != nil || n != 2 {
			return "C06/date/word", fmt.Sprintf("word %04x: n=%d err=%v", w, n, err)
		}
		if int(u.Year) != 1980+int(w>>9) || int(u.Month) != int(w>>5)&15 || int(u.Day) != int(w)&31 {
			return "C06/date/word", fmt.Sprintf("word %04x decodes to %+v", w, u)
		}
		out, err := u.Marshal()
		if err != nil || !bytes.Equal(out, in) {
			return "C06/date/word", fmt.Sprintf("word %04x decodes to %+v which encodes to %x", w, u, out)
		}
		return "", ""
	})
	// args: low, high, suffix
	Oracle("c06.filetime", func(a []Val) (string, string) {
		f := data_structures.FILETIME{DwLowDateTime: uint32(a[0].Uint()), DwHighDateTime: uint32(a[1].Uint())}
		return c06RT("C06/filetime", a[2].B, f.Marshal, func(b []byte) (int, error, string) {
			var u data_structures.FILETIME
			dirty(&u)
			n, err := u.Unmarshal(b)
			if err == nil && u != f {
				return n, nil, fmt.Sprintf("%+v (wanted %+v)", u, f)
			}
			return n, err, ""
		})
	})
	// args: pid, offset, length, suffix
	Oracle("c06.range32", func(a []Val) (string, string) {
		l := types.LOCKING_ANDX_RANGE32{PID: uint16(a[0].Uint()), ByteOffset: uint32(a[1].Uint()), LengthInBytes: uint32(a[2].Uint())}
		return c06RT("C06/range32", a[3].B, l.Marshal, func(b []byte) (int, error, string) {
			var u types.LOCKING_ANDX_RANGE32
			dirty(&u)
			n, err := u.Unmarshal(b)
			if err == nil && u != l {
				return n, nil, fmt.Sprintf("%+v (wanted %+v)", u, l)
			}
			return n, err, ""
		})
	})
	// args: pid, pad, offset high, offset low, length high, length low, suffix
	Oracle("c06.range64", func(a []Val) (string, string) {
		l := types.LOCKING_ANDX_RANGE64{PID: uint16(a[0].Uint()), Pad: uint16(a[1].Uint()), ByteOffsetHigh: uint32(a[2].Uint()),
			ByteOffsetLow: uint32(a[3].Uint()), LengthInBytesHigh: uint32(a[4].Uint()), LengthInBytesLow: uint32(a[5].Uint())}
		return c06RT("C06/range64", a[6].B, l.Marshal, func(b []byte) (int, error, string) {
			var u types.LOCKING_ANDX_RANGE64
			dirty(&u)
			n, err := u.Unmarshal(b)
			if err == nil && u != l {
				return n, nil, fmt.Sprintf("%+v (wanted %+v)", u, l)
			}
			return n, err, ""
		})
	})
	// args: icount, flags, suffix
	Oracle("c06.nmpipe", func(a []Val) (string, string) {
		s := types.SMB_NMPIPE_STATUS{ICount: uint8(a[0].Uint()), Flags: uint8(a[1].Uint())}
		return c06RT("C06/nmpipe-status", a[2].B, s.Marshal, func(b []byte) (int, error, string) {
			var u types.SMB_NMPIPE_STATUS
			dirty(&u)
			n, err := u.Unmarshal(b)
			if err == nil && u != s {
				return n, nil, fmt.Sprintf("%+v (wanted %+v)", u, s)
			}
			return n, err, ""
		})
	})
	// args: reserved, server state (16), client state (4), suffix
	Oracle("c06.resumekey", func(a []Val) (string, string) {
		r := types.NewSMB_RESUME_KEY()
		r.Reserved = uint8(a[0].Uint())
		copy(r.ServerState[:], a[1].B)
		copy(r.ClientState[:], a[2].B)
		return c06RT("C06/resume-key", a[3].B, r.Marshal, func(b []byte) (int, error, string) {
			u := types.NewSMB_RESUME_KEY()
			n, err := u.Unmarshal(b)
			if err == nil && (u.Reserved != r.Reserved || u.ServerState != r.ServerState || u.ClientState != r.ClientState ||
				u.BufferFormat != 5 || u.Length != 21) {
				return n, nil, fmt.Sprintf("reserved %d server %x client %x format %d length %d", u.Reserved, u.ServerState, u.ClientState, u.BufferFormat, u.Length)
			}
			return n, err, ""
		})
	})
	// args: (reserved, server, client), attributes, (low, high), (year, month, day), size, file name (<= 12 bytes, no NUL), suffix
	Oracle("c06.dirinfo", func(a []Val) (string, string) {
		mk := func() *types.SMB_DIRECTORY_INFORMATION {
			d := types.NewSMB_DIRECTORY_INFORMATION()
			d.ResumeKey = *types.NewSMB_RESUME_KEY()
			d.ResumeKey.Reserved = uint8(a[0].L[0].Uint())
			copy(d.ResumeKey.ServerState[:], a[0].L[1].B)
			copy(d.ResumeKey.ClientState[:], a[0].L[2].B)
			d.FileAttributes = uint8(a[1].Uint())
			d.LastWriteTime = c06FTFrom(a[2])
			d.LastWriteDate = c06DateFrom(a[3])
			d.FileSize = uint32(a[4].Uint())
			d.FileName = *types.NewOEM_STRINGFromString(a[5].Str())
			return d
		}
		d := mk()
		name := a[5].Str()
		for len(name) < 12 {
			name += " "
		}
		return c06RT("C06/directory-information", a[6].B, d.Marshal, func(b []byte) (int, error, string) {
			u := types.NewSMB_DIRECTORY_INFORMATION()
			n, err := u.Unmarshal(b)
			if err != nil {
				return n, err, ""
			}
			w := mk()
			if u.ResumeKey.Reserved != w.ResumeKey.Reserved || u.ResumeKey.ServerState != w.ResumeKey.ServerState ||
				u.ResumeKey.ClientState != w.ResumeKey.ClientState || u.FileAttributes != w.FileAttributes ||
				u.LastWriteTime != w.LastWriteTime || u.LastWriteDate != w.LastWriteDate || u.FileSize != w.FileSize ||
				u.FileName.GetString() != name {
				return n, nil, fmt.Sprintf("%v", c06DI(u).String())
			}
			return n, nil, ""
		})
	})
	// args: attributes, suffix
	Oracle("c06.fileattr", func(a []Val) (string, string) {
		s := types.SMB_FILE_ATTRIBUTES{Attributes: uint16(a[0].Uint())}
		return c06RT("C06/file-attributes", a[1].B, s.Marshal, func(b []byte) (int, error, string) {
			var u types.SMB_FILE_ATTRIBUTES
			dirty(&u)
			n, err := u.Unmarshal(b)
			if err == nil && u != s {
				return n, nil, fmt.Sprintf("%#04x (wanted %#04x)", u.Attributes, s.Attributes)
			}
			return n, err, ""
		})
	})
	// args: command, reserved, offset, suffix
	Oracle("c06.andx", func(a []Val) (string, string) {
		x := andx.AndX{AndXCommand: codes.CommandCode(a[0].Uint()), AndXReserved: uint8(a[1].Uint()), AndXOffset: uint16(a[2].Uint())}
		return c06RT("C06/andx", a[3].B, x.Marshal, func(b []byte) (int, error, string) {
			var u andx.AndX
			dirty(&u)
			n, err := u.Unmarshal(b)
			if err == nil && u != x {
				return n, nil, fmt.Sprintf("%+v (wanted %+v)", u, x)
			}
			return n, err, ""
		})
	})
	// args: major, minor, build, reserved (3), revision, suffix
	Oracle("c06.version", func(a []Val) (string, string) {
		v := version.Version{ProductMajorVersion: uint8(a[0].Uint()), ProductMinorVersion: uint8(a[1].Uint()),
			ProductBuild: uint16(a[2].Uint()), NTLMRevision: uint8(a[4].Uint())}
		copy(v.Reserved[:], a[3].B)
		return c06RT("C06/version", a[5].B, v.Marshal, func(b []byte) (int, error, string) {
			var u version.Version
			dirty(&u)
			n, err := u.Unmarshal(b)
			if err == nil && u != v {
				return n, nil, fmt.Sprintf("%+v (wanted %+v)", u, v)
			}
			return n, err, ""
		})
	})
	// args: words (0..255 of them), suffix
	Oracle("c06.params", func(a []Val) (string, string) {
		ws := c06WordsFrom(a[0])
		p := parameters.Parameters{WordCount: uint8(len(ws)), Words: ws}
		return c06RT("C06/parameters", a[1].B, p.Marshal, func(b []byte) (int, error, string) {
			u := parameters.NewParameters()
			n, err := u.Unmarshal(b)
			if err != nil {
				return n, err, ""
			}
			if int(u.WordCount) != len(ws) || len(u.Words) != len(ws) {
				return n, nil, fmt.Sprintf("word count %d, %d words (wanted %d)", u.WordCount, len(u.Words), len(ws))
			}
			for i := range ws {
				if u.Words[i] != ws[i] {
					return n, nil, fmt.Sprintf("word %d is %#04x (wanted %#04x)", i, u.Words[i], ws[i])
				}
			}
			return n, nil, ""
		})
	})
	// args: bytes (0..65535 of them), suffix
	Oracle("c06.data", func(a []Val) (string, string) {
		bs := a[0].B
		d := smbdata.Data{ByteCount: uint16(len(bs)), Bytes: exact(bs)}
		return c06RT("C06/data", a[1].B, d.Marshal, func(b []byte) (int, error, string) {
			u := smbdata.NewData()
			n, err := u.Unmarshal(b)
			if err != nil {
				return n, err, ""
			}
			if int(u.ByteCount) != len(bs) || !bytes.Equal(u.Bytes, bs) {
				return n, nil, fmt.Sprintf("byte count %d bytes %x…", u.ByteCount, head(u.Bytes, 16))
			}
			return n, nil, ""
		})
	})
	// Totality: args: decoder entry point name, input bytes.  No decoder may panic on any input.
	Oracle("c06.total", func(a []Val) (string, string) {
		name := a[0].Str()
		f, ok := impls[name]
		if !ok {
			return "C06/total/unknown-entry", name
		}
		if callImpl(f, []Val{a[1]}).IsPanic() {
			return "C06/total/" + name, fmt.Sprintf("%s panics on input %x (%d bytes)", name, head(a[1].B, 32), len(a[1].B))
		}
		return "", ""
	})
}
