//go:build c10 || allprops

package main

import (
	"strings"

	"github.com/TheManticoreProject/Manticore/network/netbios/nbtns"
)

const c10LDH = "abcdefghijklmnopqrstuvwxyzABCDEFGHIJKLMNOPQRSTUVWXYZ0123456789-"

func c10Label(r *Rng, n int) string {
	b := []byte(r.StringOver(c10LDH, n))
	if len(b) > 0 && b[0] == '-' {
		b[0] = 'a'
	}
	if len(b) > 0 && b[len(b)-1] == '-' {
		b[len(b)-1] = '0'
	}
	return string(b)
}

// c10Scope returns a valid scope identifier ("" one time in two).
func c10Scope(r *Rng) string {
	switch r.Intn(8) {
	case 0, 1, 2, 3:
		return ""
	case 4:
		return "NETBIOS.COM"
	case 5:
		return c10Label(r, 1+r.Intn(63))
	}
	var ls []string
	for i, n := 0, 1+r.Intn(4); i < n; i++ {
		ls = append(ls, c10Label(r, r.Pick(1, 1, 2, 3, 7, 15, 62, 63)))
	}
	s := strings.Join(ls, ".")
	if len(s) > 220 { // keep the wire form within 255 octets
		s = s[:219] + "z"
		s = strings.ReplaceAll(s, "..", "a.")
		s = strings.ReplaceAll(s, "-.", "a.")
		s = strings.ReplaceAll(s, ".-", ".a")
	}
	if !rfcScopeOK(s) {
		return ""
	}
	return s
}

// c10Name returns a valid NetBIOS name (<= 16 bytes, not starting with '*'); trailing == false
// keeps it outside the class of the known finding (no 0x20 at the end).
func c10Name(r *Rng, trailing bool) string {
	var b []byte
	switch r.Intn(6) {
	case 0:
		b = []byte(r.StringOver("ABCDEFGHIJKLMNOPQRSTUVWXYZ0123456789-_ .*", r.Intn(17)))
	case 1: // 15 characters padded with spaces plus a suffix byte, the usual shape on the wire
		b = []byte(r.StringOver("ABCDEFGHIJKLMNOPQRSTUVWXYZ", 1+r.Intn(15)))
		for len(b) < 15 {
			b = append(b, ' ')
		}
		b = append(b, byte(r.Pick(0x00, 0x03, 0x1b, 0x1c, 0x1d, 0x1e, 0x20, 0x20)))
	default:
		b = r.Bytes(r.Intn(17))
		for i := range b {
			if r.Intn(5) == 0 {
				b[i] = byte(r.Pick(0x00, 0x0f, 0x10, 0x20, 0x2a, 0x2e, 0x40, 0x41, 0x50, 0x51, 0x7f, 0x80, 0xf0, 0xff))
			}
		}
	}
	if len(b) > 0 && b[0] == '*' {
		b[0] = '+'
	}
	if !trailing {
		for len(b) > 0 && b[len(b)-1] == ' ' {
			b[len(b)-1] = '_'
		}
	}
	return string(b)
}

func c10RR(r *Rng, trailing bool) nbtns.NBTNSResourceRecord {
	n := r.Pick(0, 0, 1, 4, 6, 6, 12, 18, 64, 255, 256, 300)
	rd := r.Bytes(n)
	return nbtns.NBTNSResourceRecord{Name: &nbtns.NetBIOSName{Name: c10Name(r, trailing), ScopeID: c10Scope(r)},
		Type: uint16(r.Pick(0x20, 0x21, 0x0a, 0x02, 0x01, int(r.U64Edge()&0xffff))), Class: uint16(r.Pick(1, 1, 1, int(r.U64Edge()&0xffff))),
		TTL: uint32(r.U64Edge()), RDLength: uint16(n), RData: rd}
}

func c10Question(r *Rng, trailing bool) nbtns.NBTNSQuestion {
	return nbtns.NBTNSQuestion{Name: &nbtns.NetBIOSName{Name: c10Name(r, trailing), ScopeID: c10Scope(r)},
		Type: uint16(r.Pick(0x20, 0x21, int(r.U64Edge()&0xffff))), Class: uint16(r.Pick(1, 1, int(r.U64Edge()&0xffff)))}
}

// c10Packet builds a consistent packet with the given section sizes.
func c10Packet(r *Rng, nq, na, nn, nr int, trailing bool) *nbtns.NBTNSPacket {
	ops := []uint16{nbtns.OpNameQuery, nbtns.OpRegistration, nbtns.OpRelease, nbtns.OpWACK, nbtns.OpRefresh, nbtns.OpRedirect, nbtns.OpConflict, nbtns.OpNodeStatus}
	flags := ops[r.Intn(len(ops))] | uint16(r.Pick(0, 0x8000, 0x8400, 0x0110, 0x0010, 0x8583))
	if r.Intn(3) == 0 {
		flags = uint16(r.U64Edge())
	}
	p := &nbtns.NBTNSPacket{Header: nbtns.NBTNSHeader{TransactionID: uint16(r.U64Edge()), Flags: flags,
		Questions: uint16(nq), Answers: uint16(na), Authority: uint16(nn), Additional: uint16(nr)}}
	for i := 0; i < nq; i++ {
		p.Questions = append(p.Questions, c10Question(r, trailing))
	}
	for i := 0; i < na; i++ {
		p.Answers = append(p.Answers, c10RR(r, trailing))
	}
	for i := 0; i < nn; i++ {
		p.Authority = append(p.Authority, c10RR(r, trailing))
	}
	for i := 0; i < nr; i++ {
		p.Additional = append(p.Additional, c10RR(r, trailing))
	}
	return p
}

// c10CheckPacket runs every packet oracle on a consistent packet and records the correspondence cases.
func c10CheckPacket(c *Ctx, p *nbtns.NBTNSPacket, cases bool) {
	v := c10PacketVal(p)
	c.Check("c10.packet_roundtrip", v)
	c.Check("c10.rfc_reads_lib", v)
	c.Check("c10.dnsmessage_reads_lib", v)
	c.Check("c10.lib_reads_rfc", v)
	if cases {
		out := c.Case("nbp.marshal", v)
		if out.K == 'x' {
			c.Case("nbp.unmarshal", B(out.B))
		}
	}
}

func c10NameValid(name, scope string) bool {
	return len(name) <= 16 && !strings.HasPrefix(name, "*") && (scope == "" || rfcScopeOK(scope))
}

// c10NameCase: correspondence for validate/encode/decode plus the matching oracle.
func c10NameCase(c *Ctx, name, scope string) {
	c.Case("nb.validate", S(name), S(scope))
	out := c.Case("nb.encode", S(name), S(scope))
	if out.K == 'x' {
		c.Case("nb.decode", B(out.B))
	}
	if c10NameValid(name, scope) {
		c.Check("c10.first_level", S(name), S(scope))
	} else {
		c.Check("c10.rejects_invalid", S(name), S(scope))
	}
}

func c10DecodeCase(c *Ctx, s string) {
	c.Case("nb.decode", S(s))
	c.Check("c10.decode_encode", S(s))
	c.Check("c10.total.first_level_decode", S(s))
}

func c10UnmarshalCase(c *Ctx, b []byte) {
	c.Case("nbp.unmarshal", B(b))
	c.Check("c10.total.unmarshal", B(b))
}

func genC10(c *Ctx) {
	r := c.Rng

	// ------------------------------------------------------------------ names
	names := []string{"", "A", "FRED", "FRED            ", "FRED           ", "WORKGROUP", "SERVER         \x20", "SERVER         \x00",
		"SERVER         \x1b", "\x01\x02__MSBROWSE__\x02\x01", "*", "*\x00\x00\x00\x00\x00\x00\x00\x00\x00\x00\x00\x00\x00\x00\x00", "A*",
		strings.Repeat("\xff", 16), strings.Repeat("\x00", 16), strings.Repeat(" ", 16), " ", "a.b", " LEAD", "MID DLE", "TRAIL ",
		"SEVENTEEN-BYTES-X", strings.Repeat("N", 17), strings.Repeat("N", 16), strings.Repeat("N", 15), strings.Repeat("N", 300), "caf\xc3\xa9"}
	scopes := []string{"", "NETBIOS.COM", "a", "a-b.c", "a.b.c.d.e", "0", "9z", strings.Repeat("x", 63), strings.Repeat("x", 64),
		strings.Repeat("x", 63) + "." + strings.Repeat("y", 63) + "." + strings.Repeat("z", 63) + "." + strings.Repeat("w", 28),
		strings.Repeat("x", 63) + "." + strings.Repeat("y", 63) + "." + strings.Repeat("z", 63) + "." + strings.Repeat("w", 29),
		strings.Repeat("x", 63) + "." + strings.Repeat("y", 63) + "." + strings.Repeat("z", 63) + "." + strings.Repeat("w", 63),
		".", "a.", ".a", "a..b", "-a", "a-", "a.-b", "a-.b", "a_b", "a b", "a\x00b", "caf\xc3\xa9", "\xff", "a.\x80", "A.B", "-", "a.b-c.d"}
	for _, n := range names {
		for _, s := range scopes {
			c10NameCase(c, n, s)
		}
	}
	// exhaustive per position: every byte value at every one of the 16 positions
	for pos := 0; pos < 16; pos++ {
		base := r.Bytes(16)
		if base[0] == '*' {
			base[0] = 'x'
		}
		if base[15] == ' ' {
			base[15] = 'y'
		}
		for v := 0; v < 256; v++ {
			b := append([]byte{}, base...)
			b[pos] = byte(v)
			ln := 16
			if v%3 == 0 && !(pos == 15) {
				ln = pos + 1 // also as the last byte of a shorter name
			}
			c10NameCase(c, string(b[:ln]), c10Pick2(r, "", "NETBIOS.COM"))
		}
	}
	for rep := 0; rep < c.N(600, 12000); rep++ {
		c10NameCase(c, c10Name(r, true), c10Scope(r))
	}
	// invalid names and scopes, random
	for rep := 0; rep < c.N(200, 4000); rep++ {
		n := c10Name(r, true)
		s := c10Scope(r)
		switch r.Intn(4) {
		case 0:
			n = string(r.Bytes(17 + r.Intn(20)))
		case 1:
			n = "*" + n
			if len(n) > 16 {
				n = n[:16]
			}
		case 2:
			s = r.StringOver("ab-.0_ \xc3\xa9", 1+r.Intn(12))
		default:
			s = strings.Repeat("k", 64+r.Intn(3)) + "." + s
		}
		c10NameCase(c, n, s)
	}

	// ------------------------------------------------------------------ decoder: malformed stream
	for rep := 0; rep < c.N(8, 80); rep++ {
		n := &nbtns.NetBIOSName{Name: c10Name(r, true), ScopeID: c10Pick2(r, "", "ab.c")}
		enc, err := n.FirstLevelEncode()
		if err != nil {
			continue
		}
		for _, m := range Malformed([]byte(enc), 40) {
			c10DecodeCase(c, string(m))
		}
		// boundary characters around 'A'..'P' at a few positions
		for _, pos := range []int{0, 1, 15, 30, 31} {
			for _, v := range []byte{0x00, 0x2e, 0x40, 0x41, 0x50, 0x51, 0x61, 0x70, 0xc1, 0xff} {
				m := []byte(enc)
				m[pos] = v
				c10DecodeCase(c, string(m))
			}
		}
	}
	for rep := 0; rep < c.N(400, 8000); rep++ {
		ln := r.Pick(0, 1, 16, 31, 32, 32, 32, 33, 34, 40, 64, 65, r.Intn(80))
		s := []byte(r.StringOver("ABCDEFGHIJKLMNOP", ln))
		for i := range s {
			if r.Intn(24) == 0 {
				s[i] = byte(r.Pick('.', '@', 'Q', 'a', 0, 0xff, ' ', '.'))
			}
		}
		if len(s) > 32 && r.Bool() {
			s[32] = '.'
		}
		c10DecodeCase(c, string(s))
	}
	for _, s := range []string{"", ".", "..", "EGFCEFEECACACACACACACACACACACACA", "EGFCEFEECACACACACACACACACACACACA.", "EGFCEFEECACACACACACACACACACACACA.NETBIOS.COM",
		"EGFCEFEECACACACACACACACACACACACA..", ".EGFCEFEECACACACACACACACACACACACA", "egfcefeecacacacacacacacacacacaca", "CKAAAAAAAAAAAAAAAAAAAAAAAAAAAAAA",
		"CACACACACACACACACACACACACACACACA", "EGFCEFEECACACACACACACACACACACAC", "EGFCEFEECACACACACACACACACACACACAA"} {
		c10DecodeCase(c, s)
	}

	// ------------------------------------------------------------------ packets: consistent
	for nq := 0; nq <= 3; nq++ {
		for na := 0; na <= 2; na++ {
			for nn := 0; nn <= 2; nn++ {
				for nr := 0; nr <= 2; nr++ {
					for rep := 0; rep < c.N(2, 12); rep++ {
						c10CheckPacket(c, c10Packet(r, nq, na, nn, nr, rep%2 == 1), true)
					}
				}
			}
		}
	}
	// the standard shapes: query, positive response, registration with the name repeated in ADDITIONAL
	for _, nm := range []string{"FRED", "WORKGROUP      \x1d", "SERVER         \x20", "SERVER         \x00"} {
		for _, sc := range []string{"", "NETBIOS.COM", scopes[9]} {
			n := &nbtns.NetBIOSName{Name: nm, ScopeID: sc}
			q := &nbtns.NBTNSPacket{Header: nbtns.NBTNSHeader{TransactionID: 0x1234, Flags: 0x0110, Questions: 1},
				Questions: []nbtns.NBTNSQuestion{{Name: n, Type: 0x20, Class: 1}}}
			c10CheckPacket(c, q, true)
			resp := &nbtns.NBTNSPacket{Header: nbtns.NBTNSHeader{TransactionID: 0x1234, Flags: 0x8500, Answers: 1},
				Answers: []nbtns.NBTNSResourceRecord{{Name: n, Type: 0x20, Class: 1, TTL: 300000, RDLength: 6, RData: []byte{0, 0, 192, 168, 1, 1}}}}
			c10CheckPacket(c, resp, true)
			reg := &nbtns.NBTNSPacket{Header: nbtns.NBTNSHeader{TransactionID: 0xffff, Flags: 0x2910, Questions: 1, Additional: 1},
				Questions:  []nbtns.NBTNSQuestion{{Name: n, Type: 0x20, Class: 1}},
				Additional: []nbtns.NBTNSResourceRecord{{Name: n, Type: 0x20, Class: 1, TTL: 0xffffffff, RDLength: 6, RData: []byte{0x80, 0, 10, 0, 0, 1}}}}
			c10CheckPacket(c, reg, true)
		}
	}
	// RDATA length boundaries, including the largest
	for _, n := range []int{0, 1, 255, 256, 257, 4095, 65534, 65535} {
		rr := c10RR(r, false)
		rr.RData = r.Bytes(n)
		rr.RDLength = uint16(n)
		p := &nbtns.NBTNSPacket{Header: nbtns.NBTNSHeader{TransactionID: 7, Flags: 0x8500, Answers: 1, Additional: 1},
			Answers: []nbtns.NBTNSResourceRecord{rr}, Additional: []nbtns.NBTNSResourceRecord{c10RR(r, false)}}
		c10CheckPacket(c, p, n != 65534)
	}
	// section size boundaries: large sections, and the largest count (oracles only for the biggest)
	for _, n := range []int{255, 256, 1000} {
		c10CheckPacket(c, c10Packet(r, n, 0, 0, 0, false), n <= 256)
		c10CheckPacket(c, c10Packet(r, 0, 0, n, 1, false), false)
		// the same shape with short RDATA for the correspondence (the model re-measures the buffer at every step)
		p := c10Packet(r, 0, 0, n, 1, false)
		for i := range p.Authority {
			if len(p.Authority[i].RData) > 6 {
				p.Authority[i].RData = p.Authority[i].RData[:6]
				p.Authority[i].RDLength = 6
			}
			p.Authority[i].Name.ScopeID = ""
		}
		c10CheckPacket(c, p, n <= 256)
	}
	c10CheckPacket(c, c10Packet(r, 65535, 0, 0, 0, false), false)
	if c.Tier == "thorough" {
		c10CheckPacket(c, c10Packet(r, 0, 65535, 0, 0, false), false)
		c10CheckPacket(c, c10Packet(r, 1, 0, 0, 65535, false), false)
	}
	for rep := 0; rep < c.N(150, 3000); rep++ {
		c10CheckPacket(c, c10Packet(r, r.Intn(4), r.Intn(4), r.Intn(3), r.Intn(3), r.Intn(4) == 0), true)
	}

	// ------------------------------------------------------------------ packets: inconsistent / invalid (correspondence only)
	for rep := 0; rep < c.N(300, 5000); rep++ {
		p := c10Packet(r, r.Intn(3), r.Intn(3), r.Intn(2), r.Intn(2), true)
		switch r.Intn(7) {
		case 0:
			p.Header.Questions = uint16(r.Pick(0, 1, 2, 5, 0xffff))
		case 1:
			p.Header.Answers = uint16(r.Pick(0, 1, 2, 5, 0xffff))
			p.Header.Additional = uint16(r.Pick(0, 1, 2))
		case 2:
			if len(p.Answers) > 0 {
				p.Answers[0].RDLength = uint16(r.Pick(0, 1, len(p.Answers[0].RData)+1, 0xffff))
			} else {
				p.Header.Authority = 1
			}
		case 3: // a nil name somewhere
			if len(p.Questions) > 0 && r.Bool() {
				p.Questions[r.Intn(len(p.Questions))].Name = nil
			} else if len(p.Additional) > 0 {
				p.Additional[0].Name = nil
			} else {
				p.Answers = append(p.Answers, nbtns.NBTNSResourceRecord{})
			}
		case 4: // an invalid name somewhere (after a nil one, sometimes)
			bad := &nbtns.NetBIOSName{Name: c10Pick2(r, "*", strings.Repeat("L", 17)), ScopeID: c10Pick2(r, "", "-x")}
			p.Authority = append(p.Authority, nbtns.NBTNSResourceRecord{Name: bad})
			if r.Intn(3) == 0 {
				p.Additional = append(p.Additional, nbtns.NBTNSResourceRecord{})
			}
			if r.Intn(3) == 0 {
				p.Questions = append(p.Questions, nbtns.NBTNSQuestion{})
			}
		case 5: // scope that makes the name longer than 255 octets on the wire
			long := scopes[10+r.Intn(2)]
			p.Questions = append(p.Questions, nbtns.NBTNSQuestion{Name: &nbtns.NetBIOSName{Name: "LONG", ScopeID: long}, Type: 0x20, Class: 1})
			p.Header.Questions = uint16(len(p.Questions))
		default:
			p.Header.Questions, p.Header.Answers = p.Header.Answers, p.Header.Questions
		}
		out := c.Case("nbp.marshal", c10PacketVal(p))
		if out.K == 'x' {
			c10UnmarshalCase(c, out.B)
		}
	}

	// ------------------------------------------------------------------ unmarshal: malformed stream
	for rep := 0; rep < c.N(10, 120); rep++ {
		p := c10Packet(r, r.Intn(3), r.Intn(2), r.Intn(2), r.Intn(2), true)
		if rep == 0 {
			p = c10Packet(r, 1, 1, 1, 1, true)
		}
		for _, rrs := range [][]nbtns.NBTNSResourceRecord{p.Answers, p.Authority, p.Additional} {
			for i := range rrs {
				if len(rrs[i].RData) > 12 {
					rrs[i].RData = rrs[i].RData[:12]
					rrs[i].RDLength = 12
				}
			}
		}
		bs, err := p.Marshal()
		if err != nil {
			continue
		}
		for _, m := range Malformed(bs, len(bs)) {
			c10UnmarshalCase(c, m)
		}
		// label-length boundaries at every length octet position we know of: just after the header
		if len(bs) > 13 {
			for _, v := range []byte{0x00, 0x1f, 0x20, 0x21, 0x3f, 0x40, 0x7f, 0x80, 0xbf, 0xc0, 0xff} {
				m := exact(bs)
				m[12] = v
				c10UnmarshalCase(c, m)
			}
		}
	}
	// standard packets written independently, with and without compressed names
	for rep := 0; rep < c.N(40, 600); rep++ {
		p := c10Packet(r, 1, r.Intn(2), 0, 1, true)
		bs := rfc1002Write(p)
		c10UnmarshalCase(c, bs)
		// RR_NAME replaced by a pointer to the question name (offset 12), as registration requests do
		q := &nbtns.NBTNSPacket{Header: p.Header, Questions: p.Questions}
		q.Header.Answers, q.Header.Authority, q.Header.Additional = 0, 0, 1
		pb := rfc1002Write(q)
		pb = append(pb, 0xc0, 0x0c, 0x00, 0x20, 0x00, 0x01, 0, 0, 0, 60, 0, 6, 0, 0, 10, 0, 0, 1)
		c10UnmarshalCase(c, pb)
	}
	// label-length octet boundaries in a scope label position (0x40..0xbf are reserved types, 0xc0.. pointers),
	// with enough bytes behind for the label to be complete
	for _, n := range []int{1, 31, 32, 33, 62, 63, 64, 65, 127, 128, 191, 192, 193, 254, 255} {
		for _, after := range []int{0, 1} {
			b := []byte{0x12, 0x34, 0x01, 0x10, 0, 1, 0, 0, 0, 0, 0, 0, 0x20}
			b = append(b, rfcFirstLevel([]byte("X"), "")...)
			b = append(b, byte(n))
			b = append(b, []byte(strings.Repeat("s", n))...)
			if after == 1 {
				b = append(b, 1, 't')
			}
			b = append(b, 0, 0, 0x20, 0, 1)
			c10UnmarshalCase(c, b)
			c10UnmarshalCase(c, b[:len(b)-1])
			// the same octet as the first label's length
			f := []byte{0x12, 0x34, 0x01, 0x10, 0, 1, 0, 0, 0, 0, 0, 0, byte(n)}
			f = append(f, []byte(strings.Repeat("EB", 128)[:n])...)
			f = append(f, 0, 0, 0x20, 0, 1)
			c10UnmarshalCase(c, f)
		}
	}
	// headers announcing more than the body holds, random tails
	for rep := 0; rep < c.N(300, 6000); rep++ {
		h := []byte{byte(r.U64()), byte(r.U64()), byte(r.U64()), byte(r.U64()),
			0, byte(r.Pick(0, 0, 1, 1, 2, 3)), 0, byte(r.Pick(0, 0, 1, 2)), 0, byte(r.Pick(0, 0, 1)), 0, byte(r.Pick(0, 0, 1))}
		if r.Intn(10) == 0 {
			h[4+2*r.Intn(4)] = byte(r.Pick(1, 0x7f, 0xff))
		}
		tail := r.Bytes(r.Intn(90))
		if len(tail) > 0 && r.Bool() {
			tail[0] = byte(r.Pick(0, 1, 2, 0x20, 0x20, 0x3f, 0x40, 0xc0))
		}
		if len(tail) > 40 && r.Bool() {
			copy(tail, "\x20EGFCEFEECACACACACACACACACACACACA\x00\x00\x20\x00\x01")
		}
		c10UnmarshalCase(c, append(h, tail...))
	}
	for n := 0; n <= 13; n++ {
		c10UnmarshalCase(c, make([]byte, n))
		c10UnmarshalCase(c, c10Repeat(0xff, n))
	}
	c10UnmarshalCase(c, append([]byte{0, 0, 0, 0, 0xff, 0xff, 0xff, 0xff, 0xff, 0xff, 0xff, 0xff}, make([]byte, 40)...))
}

func c10Repeat(v byte, n int) []byte {
	b := make([]byte, n)
	for i := range b {
		b[i] = v
	}
	return b
}

// c10Pick2 returns one of two strings.
func c10Pick2(r *Rng, a, b string) string {
	if r.Bool() {
		return a
	}
	return b
}
