//go:build c10 || allprops

package main

// C10 — NetBIOS name encoding and NBNS packets (network/netbios/nbtns/name.go, packet.go).
//
// Value shapes shared with coq/Model/DispC10.v:
//   name     := (x<name> x<scope>)            | ()  for a nil *NetBIOSName
//   header   := (n<id> n<flags> n<qd> n<an> n<ns> n<ar>)
//   question := (name n<type> n<class>)
//   rr       := (name n<type> n<class> n<ttl> n<rdlength> x<rdata>)
//   packet   := (header (question...) (rr...) (rr...) (rr...))

import (
	"bytes"
	"fmt"
	"strings"
	"time"

	"github.com/TheManticoreProject/Manticore/network/netbios/nbtns"
	"golang.org/x/net/dns/dnsmessage"
)

func c10NameVal(n *nbtns.NetBIOSName) Val {
	if n == nil {
		return L()
	}
	return L(S(n.Name), S(n.ScopeID))
}

func c10NameOf(v Val) *nbtns.NetBIOSName {
	if len(v.L) < 2 {
		return nil
	}
	return &nbtns.NetBIOSName{Name: v.L[0].Str(), ScopeID: v.L[1].Str()}
}

func c10RRVal(rr nbtns.NBTNSResourceRecord) Val {
	return L(c10NameVal(rr.Name), U(uint64(rr.Type)), U(uint64(rr.Class)), U(uint64(rr.TTL)), U(uint64(rr.RDLength)), B(rr.RData))
}

func c10RROf(v Val) nbtns.NBTNSResourceRecord {
	return nbtns.NBTNSResourceRecord{Name: c10NameOf(v.L[0]), Type: uint16(v.L[1].Uint()), Class: uint16(v.L[2].Uint()),
		TTL: uint32(v.L[3].Uint()), RDLength: uint16(v.L[4].Uint()), RData: append([]byte{}, v.L[5].B...)}
}

func c10PacketVal(p *nbtns.NBTNSPacket) Val {
	h := p.Header
	hv := L(U(uint64(h.TransactionID)), U(uint64(h.Flags)), U(uint64(h.Questions)), U(uint64(h.Answers)), U(uint64(h.Authority)), U(uint64(h.Additional)))
	qs := make([]Val, len(p.Questions))
	for i, q := range p.Questions {
		qs[i] = L(c10NameVal(q.Name), U(uint64(q.Type)), U(uint64(q.Class)))
	}
	sec := func(rrs []nbtns.NBTNSResourceRecord) Val {
		vs := make([]Val, len(rrs))
		for i, rr := range rrs {
			vs[i] = c10RRVal(rr)
		}
		return L(vs...)
	}
	return L(hv, L(qs...), sec(p.Answers), sec(p.Authority), sec(p.Additional))
}

func c10PacketOf(v Val) *nbtns.NBTNSPacket {
	h := v.L[0].L
	p := &nbtns.NBTNSPacket{Header: nbtns.NBTNSHeader{TransactionID: uint16(h[0].Uint()), Flags: uint16(h[1].Uint()),
		Questions: uint16(h[2].Uint()), Answers: uint16(h[3].Uint()), Authority: uint16(h[4].Uint()), Additional: uint16(h[5].Uint())}}
	for _, q := range v.L[1].L {
		p.Questions = append(p.Questions, nbtns.NBTNSQuestion{Name: c10NameOf(q.L[0]), Type: uint16(q.L[1].Uint()), Class: uint16(q.L[2].Uint())})
	}
	for i, dst := range []*[]nbtns.NBTNSResourceRecord{&p.Answers, &p.Authority, &p.Additional} {
		for _, rr := range v.L[2+i].L {
			*dst = append(*dst, c10RROf(rr))
		}
	}
	return p
}

// c10Trim is what the library is known to return for a name: trailing 0x20 bytes removed
// (finding C10/name-with-trailing-0x20).
func c10Trim(s string) string { return strings.TrimRight(s, " ") }

// normalised view of a library packet for comparisons: names padded to 16 bytes
type c10View struct {
	Hdr [6]uint16
	Qs  []rfcQuestion
	RRs [3][]rfcRR
}

func c10Pad(n *nbtns.NetBIOSName) rfcName {
	var r rfcName
	for i := range r.Raw {
		r.Raw[i] = ' '
	}
	copy(r.Raw[:], n.Name)
	if n.ScopeID != "" {
		r.Scope = strings.Split(n.ScopeID, ".")
	}
	return r
}

func c10ViewOf(p *nbtns.NBTNSPacket) c10View {
	h := p.Header
	v := c10View{Hdr: [6]uint16{h.TransactionID, h.Flags, h.Questions, h.Answers, h.Authority, h.Additional}}
	for _, q := range p.Questions {
		v.Qs = append(v.Qs, rfcQuestion{c10Pad(q.Name), q.Type, q.Class})
	}
	for i, s := range [][]nbtns.NBTNSResourceRecord{p.Answers, p.Authority, p.Additional} {
		for _, rr := range s {
			v.RRs[i] = append(v.RRs[i], rfcRR{c10Pad(rr.Name), rr.Type, rr.Class, rr.TTL, append([]byte{}, rr.RData...)})
		}
	}
	return v
}

func c10ViewOfRfc(p *rfcPacket) c10View {
	v := c10View{Hdr: [6]uint16{p.ID, p.Flags, p.QD, p.AN, p.NS, p.AR}, Qs: p.Questions, RRs: p.Sections}
	return v
}

func c10NameEq(a, b rfcName) bool {
	return a.Raw == b.Raw && strings.Join(a.Scope, ".") == strings.Join(b.Scope, ".") && len(a.Scope) == len(b.Scope)
}

// c10ViewDiff returns "" when equal, else a short description of the first difference.
func c10ViewDiff(a, b c10View) string {
	names := []string{"id", "flags", "qdcount", "ancount", "nscount", "arcount"}
	for i := range a.Hdr {
		if a.Hdr[i] != b.Hdr[i] {
			return fmt.Sprintf("header/%s", names[i])
		}
	}
	if len(a.Qs) != len(b.Qs) {
		return "question-count"
	}
	for i := range a.Qs {
		if !c10NameEq(a.Qs[i].Name, b.Qs[i].Name) {
			return "question-name"
		}
		if a.Qs[i].Type != b.Qs[i].Type || a.Qs[i].Class != b.Qs[i].Class {
			return "question-type-class"
		}
	}
	for s := 0; s < 3; s++ {
		if len(a.RRs[s]) != len(b.RRs[s]) {
			return fmt.Sprintf("section%d-count", s+1)
		}
		for i := range a.RRs[s] {
			x, y := a.RRs[s][i], b.RRs[s][i]
			switch {
			case !c10NameEq(x.Name, y.Name):
				return "rr-name"
			case x.Type != y.Type || x.Class != y.Class:
				return "rr-type-class"
			case x.TTL != y.TTL:
				return "rr-ttl"
			case !bytes.Equal(x.RData, y.RData):
				return "rr-rdata"
			}
		}
	}
	return ""
}

func c10HasTrailingSpaceName(p *nbtns.NBTNSPacket) bool {
	for _, q := range p.Questions {
		if strings.HasSuffix(q.Name.Name, " ") {
			return true
		}
	}
	for _, s := range [][]nbtns.NBTNSResourceRecord{p.Answers, p.Authority, p.Additional} {
		for _, rr := range s {
			if strings.HasSuffix(rr.Name.Name, " ") {
				return true
			}
		}
	}
	return false
}

func c10Short(b []byte) string {
	if len(b) > 96 {
		return fmt.Sprintf("%x...(%d bytes)", b[:96], len(b))
	}
	return fmt.Sprintf("%x", b)
}

func init() {
	// ---------------------------------------------------------------- implementation runners
	Impl("nb.validate", func(a []Val) Val {
		n := &nbtns.NetBIOSName{Name: a[0].Str(), ScopeID: a[1].Str()}
		if err := n.Validate(); err != nil {
			return VErr()
		}
		return I(0)
	})
	Impl("nb.encode", func(a []Val) Val {
		n := &nbtns.NetBIOSName{Name: a[0].Str(), ScopeID: a[1].Str()}
		s, err := n.FirstLevelEncode()
		if err != nil {
			return VErr()
		}
		return S(s)
	})
	Impl("nb.decode", func(a []Val) Val {
		n, err := nbtns.FirstLevelDecode(a[0].Str())
		if err != nil {
			return VErr()
		}
		return c10NameVal(n)
	})
	Impl("nbp.marshal", func(a []Val) Val {
		b, err := c10PacketOf(a[0]).Marshal()
		if err != nil {
			return VErr()
		}
		return B(b)
	})
	Impl("nbp.unmarshal", func(a []Val) Val {
		var p nbtns.NBTNSPacket
		dirty(&p)
		n, err := p.Unmarshal(exact(a[0].B))
		if err != nil {
			return VErr()
		}
		return L(I(int64(n)), c10PacketVal(&p))
	})

	// ---------------------------------------------------------------- oracles
	// args: name (<= 16 bytes, not starting with '*'), scope ("" or a valid scope identifier)
	Oracle("c10.first_level", func(a []Val) (string, string) {
		name, scope := a[0].Str(), a[1].Str()
		n := &nbtns.NetBIOSName{Name: name, ScopeID: scope}
		enc, err := n.FirstLevelEncode()
		if err != nil {
			return "C10/first-level/encode-rejects-valid-name", fmt.Sprintf("name %q scope %q: %v", name, scope, err)
		}
		if want := rfcFirstLevel([]byte(name), scope); enc != want {
			return "C10/first-level/encoding-differs-from-rfc1001", fmt.Sprintf("name %q scope %q: got %q want %q", name, scope, enc, want)
		}
		d, err := nbtns.FirstLevelDecode(enc)
		if err != nil {
			return "C10/first-level/decode-rejects-own-encoding", fmt.Sprintf("name %q scope %q: %v", name, scope, err)
		}
		if d.ScopeID != scope {
			return "C10/first-level/scope-differs", fmt.Sprintf("name %q scope %q: got scope %q", name, scope, d.ScopeID)
		}
		if d.Name != name {
			if strings.HasSuffix(name, " ") && d.Name == c10Trim(name) {
				return "C10/name-with-trailing-0x20", fmt.Sprintf("name %q decodes as %q", name, d.Name)
			}
			return "C10/first-level/name-differs", fmt.Sprintf("name %q scope %q: got name %q", name, scope, d.Name)
		}
		return "", ""
	})
	// args: name, scope that RFC 1001 does not allow (too long, leading '*', malformed scope)
	Oracle("c10.rejects_invalid", func(a []Val) (string, string) {
		name, scope := a[0].Str(), a[1].Str()
		n := &nbtns.NetBIOSName{Name: name, ScopeID: scope}
		if enc, err := n.FirstLevelEncode(); err == nil {
			return "C10/first-level/accepts-invalid-name", fmt.Sprintf("name %q scope %q encoded as %q", name, scope, enc)
		}
		return "", ""
	})
	// args: an arbitrary string; a successful decode must re-encode to a string that decodes to the same
	// name, and for canonical input (32 characters A..P, valid scope) must re-encode to the input.
	Oracle("c10.decode_encode", func(a []Val) (string, string) {
		s := a[0].Str()
		d, err := nbtns.FirstLevelDecode(s)
		if err != nil {
			if len(s) >= 32 {
				if _, e2 := rfcHalfASCII(s[:32]); e2 == nil && (len(s) == 32 || s[32] == '.') {
					return "C10/first-level/decode-rejects-rfc-form", fmt.Sprintf("%q: %v", s, err)
				}
			}
			return "", ""
		}
		raw, e2 := rfcHalfASCII(strings.SplitN(s, ".", 2)[0])
		if e2 != nil {
			return "C10/first-level/decode-accepts-non-rfc-form", fmt.Sprintf("%q accepted: %v", s, e2)
		}
		if d.Name != c10Trim(string(raw[:])) {
			return "C10/first-level/decode-wrong-bytes", fmt.Sprintf("%q: got %q want %q", s, d.Name, c10Trim(string(raw[:])))
		}
		if strings.HasPrefix(d.Name, "*") || (d.ScopeID != "" && !rfcScopeOK(d.ScopeID)) {
			return "", "" // decodes, but Validate refuses to re-encode (wildcard name / free-form scope)
		}
		re, err := d.FirstLevelEncode()
		if err != nil {
			return "C10/first-level/reencode-fails", fmt.Sprintf("%q: %v", s, err)
		}
		if re != strings.TrimSuffix(s, ".") {
			return "C10/first-level/reencode-differs", fmt.Sprintf("%q re-encodes as %q", s, re)
		}
		return "", ""
	})
	// args: a consistent packet (header counts = section sizes, RDLength = len(RData), valid names)
	Oracle("c10.packet_roundtrip", func(a []Val) (string, string) {
		p := c10PacketOf(a[0])
		bs, err := p.Marshal()
		if err != nil {
			return "C10/packet/marshal-rejects-valid-packet", err.Error()
		}
		var q nbtns.NBTNSPacket
		dirty(&q)
		n, err := q.Unmarshal(exact(bs))
		if err != nil {
			return "C10/packet/unmarshal-rejects-own-output", fmt.Sprintf("%v on %s", err, c10Short(bs))
		}
		if n != len(bs) {
			return "C10/packet/consumed-length", fmt.Sprintf("consumed %d of %d", n, len(bs))
		}
		want, got := c10PacketVal(p).String(), c10PacketVal(&q).String()
		if want != got {
			// only the known trimming of names ending in 0x20?
			if c10HasTrailingSpaceName(p) && c10ViewDiff(c10ViewOf(p), c10ViewOf(&q)) == "" {
				return "C10/name-with-trailing-0x20", "a name ending in 0x20 comes back without it (packet level)"
			}
			d := c10ViewDiff(c10ViewOf(p), c10ViewOf(&q))
			if d == "" {
				d = "name-padding"
			}
			return "C10/packet/roundtrip/" + d, fmt.Sprintf("bytes %s", c10Short(bs))
		}
		re, err := q.Marshal()
		if err != nil || !bytes.Equal(re, bs) {
			return "C10/packet/remarshal-differs", fmt.Sprintf("bytes %s", c10Short(bs))
		}
		return "", ""
	})
	// args: a consistent packet.  The independent RFC 1002 reader must read the library's bytes to the same content.
	Oracle("c10.rfc_reads_lib", func(a []Val) (string, string) {
		p := c10PacketOf(a[0])
		bs, err := p.Marshal()
		if err != nil {
			return "C10/packet/marshal-rejects-valid-packet", err.Error()
		}
		r, err := rfc1002Parse(bs)
		if err != nil {
			return "C10/packet/name-not-rfc1002-label-sequence", fmt.Sprintf("RFC 1002 reader: %v on %s", err, c10Short(bs))
		}
		if r.End != len(bs) {
			return "C10/packet/rfc1002-trailing-bytes", fmt.Sprintf("RFC reader stops at %d of %d", r.End, len(bs))
		}
		if d := c10ViewDiff(c10ViewOf(p), c10ViewOfRfc(r)); d != "" {
			return "C10/packet/rfc1002-content/" + d, fmt.Sprintf("bytes %s", c10Short(bs))
		}
		return "", ""
	})
	// args: a consistent packet.  golang.org/x/net/dns/dnsmessage (RFC 1035) must walk the library's bytes:
	// same counts, names (as dotted labels), type, class, TTL, RDLENGTH and RDATA.
	Oracle("c10.dnsmessage_reads_lib", func(a []Val) (string, string) {
		p := c10PacketOf(a[0])
		bs, err := p.Marshal()
		if err != nil {
			return "C10/packet/marshal-rejects-valid-packet", err.Error()
		}
		return c10DnsmessageCheck(p, bs)
	})
	// args: a standard packet written by the harness's own RFC 1002 writer (uncompressed names); the library must read it.
	Oracle("c10.lib_reads_rfc", func(a []Val) (string, string) {
		p := c10PacketOf(a[0])
		bs := rfc1002Write(p)
		var q nbtns.NBTNSPacket
		dirty(&q)
		n, err := q.Unmarshal(exact(bs))
		if err != nil {
			return "C10/packet/unmarshal-rejects-rfc1002-packet", fmt.Sprintf("%v on %s", err, c10Short(bs))
		}
		if n != len(bs) {
			return "C10/packet/consumed-length", fmt.Sprintf("consumed %d of %d", n, len(bs))
		}
		if d := c10ViewDiff(c10ViewOf(p), c10ViewOf(&q)); d != "" {
			return "C10/packet/lib-reads-rfc/" + d, fmt.Sprintf("bytes %s", c10Short(bs))
		}
		return "", ""
	})
	// totality observations (reused by C07): no panic, no runaway on arbitrary input
	Oracle("c10.total.first_level_decode", func(a []Val) (string, string) {
		s := a[0].Str()
		panicked, timedOut, _, pv := Guarded(5*time.Second, func() { nbtns.FirstLevelDecode(s) })
		if panicked {
			return "C10/total/first-level-decode-panics", fmt.Sprintf("%q: %v", s, pv)
		}
		if timedOut {
			return "C10/total/first-level-decode-hangs", fmt.Sprintf("%q", s)
		}
		return "", ""
	})
	Oracle("c10.total.unmarshal", func(a []Val) (string, string) {
		b := exact(a[0].B)
		panicked, timedOut, alloc, pv := Guarded(5*time.Second, func() {
			var p nbtns.NBTNSPacket
			dirty(&p)
			p.Unmarshal(b)
		})
		if panicked {
			return "C10/total/unmarshal-panics", fmt.Sprintf("%s: %v", c10Short(b), pv)
		}
		if timedOut {
			return "C10/total/unmarshal-hangs", c10Short(b)
		}
		if alloc > uint64(64<<20)+uint64(len(b))*256 {
			return "C10/total/unmarshal-allocates", fmt.Sprintf("%d bytes allocated for %d input bytes", alloc, len(b))
		}
		return "", ""
	})

	Gen("C10", genC10)
}

// c10DnsmessageCheck walks bs with x/net's DNS parser and compares with p.
func c10DnsmessageCheck(p *nbtns.NBTNSPacket, bs []byte) (string, string) {
	var ps dnsmessage.Parser
	h, err := ps.Start(bs)
	if err != nil {
		return "C10/packet/dnsmessage/header", err.Error()
	}
	// dnsmessage exposes 15 of the 16 flag bits (not the reserved Z bit 0x0040)
	bit := func(b bool, m uint16) uint16 {
		if b {
			return m
		}
		return 0
	}
	flags := bit(h.Response, 0x8000) | uint16(h.OpCode)<<11 | bit(h.Authoritative, 0x0400) | bit(h.Truncated, 0x0200) |
		bit(h.RecursionDesired, 0x0100) | bit(h.RecursionAvailable, 0x0080) | bit(h.AuthenticData, 0x0020) |
		bit(h.CheckingDisabled, 0x0010) | uint16(h.RCode)&0xf
	if h.ID != p.Header.TransactionID || flags != p.Header.Flags&^0x0040 {
		return "C10/packet/dnsmessage/header", fmt.Sprintf("id %#x flags %#x, want %#x %#x", h.ID, flags, p.Header.TransactionID, p.Header.Flags)
	}
	dotted := func(n *nbtns.NetBIOSName) string { return rfcFirstLevel([]byte(n.Name), n.ScopeID) + "." }
	for i, q := range p.Questions {
		dq, err := ps.Question()
		if err != nil {
			return "C10/packet/name-not-rfc1002-label-sequence", fmt.Sprintf("dnsmessage question %d: %v on %s", i, err, c10Short(bs))
		}
		if dq.Name.String() != dotted(q.Name) || uint16(dq.Type) != q.Type || uint16(dq.Class) != q.Class {
			return "C10/packet/dnsmessage/question", fmt.Sprintf("question %d: %v", i, dq)
		}
	}
	if _, err := ps.Question(); err != dnsmessage.ErrSectionDone {
		return "C10/packet/dnsmessage/question-count", fmt.Sprint(err)
	}
	type hdrFn func() (dnsmessage.ResourceHeader, error)
	for s, sec := range [][]nbtns.NBTNSResourceRecord{p.Answers, p.Authority, p.Additional} {
		next := []hdrFn{ps.AnswerHeader, ps.AuthorityHeader, ps.AdditionalHeader}[s]
		for i, rr := range sec {
			rh, err := next()
			if err != nil {
				return "C10/packet/name-not-rfc1002-label-sequence", fmt.Sprintf("dnsmessage section %d record %d: %v on %s", s+1, i, err, c10Short(bs))
			}
			if rh.Name.String() != dotted(rr.Name) || uint16(rh.Type) != rr.Type || uint16(rh.Class) != rr.Class || rh.TTL != rr.TTL || rh.Length != rr.RDLength {
				return "C10/packet/dnsmessage/rr-header", fmt.Sprintf("section %d record %d: %v", s+1, i, rh)
			}
			body, err := ps.UnknownResource()
			if err != nil {
				return "C10/packet/dnsmessage/rr-body", err.Error()
			}
			if !bytes.Equal(body.Data, rr.RData) {
				return "C10/packet/dnsmessage/rr-rdata", fmt.Sprintf("section %d record %d", s+1, i)
			}
		}
		if _, err := next(); err != dnsmessage.ErrSectionDone {
			return "C10/packet/dnsmessage/section-count", fmt.Sprintf("section %d: %v", s+1, err)
		}
	}
	return "", ""
}

// rfc1002Write is the harness's own writer of RFC 1002 4.2 packets (no name compression).
func rfc1002Write(p *nbtns.NBTNSPacket) []byte {
	u16 := func(b []byte, v uint16) []byte { return append(b, byte(v>>8), byte(v)) }
	name := func(b []byte, n *nbtns.NetBIOSName) []byte {
		b = append(b, 32)
		b = append(b, rfcFirstLevel([]byte(n.Name), "")...)
		if n.ScopeID != "" {
			for _, l := range strings.Split(n.ScopeID, ".") {
				b = append(b, byte(len(l)))
				b = append(b, l...)
			}
		}
		return append(b, 0)
	}
	h := p.Header
	var b []byte
	for _, v := range []uint16{h.TransactionID, h.Flags, h.Questions, h.Answers, h.Authority, h.Additional} {
		b = u16(b, v)
	}
	for _, q := range p.Questions {
		b = u16(u16(name(b, q.Name), q.Type), q.Class)
	}
	for _, sec := range [][]nbtns.NBTNSResourceRecord{p.Answers, p.Authority, p.Additional} {
		for _, rr := range sec {
			b = u16(u16(name(b, rr.Name), rr.Type), rr.Class)
			b = u16(u16(b, uint16(rr.TTL>>16)), uint16(rr.TTL))
			b = u16(b, uint16(len(rr.RData)))
			b = append(b, rr.RData...)
		}
	}
	return b
}
