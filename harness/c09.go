//go:build c09 || allprops

package main

import (
	"bytes"
	"context"
	"fmt"
	"os"
	"os/exec"
	"runtime/debug"
	"strings"
	"time"

	"github.com/TheManticoreProject/Manticore/network/llmnr"
	"golang.org/x/net/dns/dnsmessage"
)

// ---------------------------------------------------------------- Val <-> llmnr structures

func c09QVal(q llmnr.Question) Val {
	return L(S(q.Name), U(uint64(q.Type)), U(uint64(q.Class)))
}
func c09RRVal(r llmnr.ResourceRecord) Val {
	return L(S(r.Name), U(uint64(r.Type)), U(uint64(r.Class)), U(uint64(r.TTL)), U(uint64(r.RDLength)), B(r.RData))
}
func c09RRsVal(rs []llmnr.ResourceRecord) Val {
	vs := make([]Val, len(rs))
	for i, r := range rs {
		vs[i] = c09RRVal(r)
	}
	return L(vs...)
}
func c09MsgVal(m *llmnr.Message) Val {
	qs := make([]Val, len(m.Questions))
	for i, q := range m.Questions {
		qs[i] = c09QVal(q)
	}
	return L(U(uint64(m.ID)), U(uint64(m.Flags)), U(uint64(m.QDCount)), U(uint64(m.ANCount)), U(uint64(m.NSCount)),
		U(uint64(m.ARCount)), L(qs...), c09RRsVal(m.Answers), c09RRsVal(m.Authority), c09RRsVal(m.Additional))
}
func c09ValQ(v Val) llmnr.Question {
	return llmnr.Question{Name: v.L[0].Str(), Type: uint16(v.L[1].Uint()), Class: uint16(v.L[2].Uint())}
}
func c09ValRR(v Val) llmnr.ResourceRecord {
	return llmnr.ResourceRecord{Name: v.L[0].Str(), Type: uint16(v.L[1].Uint()), Class: uint16(v.L[2].Uint()),
		TTL: uint32(v.L[3].Uint()), RDLength: uint16(v.L[4].Uint()), RData: exact(v.L[5].B)}
}
func c09ValRRs(v Val) []llmnr.ResourceRecord {
	var rs []llmnr.ResourceRecord
	for _, e := range v.L {
		rs = append(rs, c09ValRR(e))
	}
	return rs
}
func c09ValMsg(v Val) *llmnr.Message {
	m := &llmnr.Message{}
	m.ID, m.Flags = uint16(v.L[0].Uint()), uint16(v.L[1].Uint())
	m.QDCount, m.ANCount, m.NSCount, m.ARCount = uint16(v.L[2].Uint()), uint16(v.L[3].Uint()), uint16(v.L[4].Uint()), uint16(v.L[5].Uint())
	for _, e := range v.L[6].L {
		m.Questions = append(m.Questions, c09ValQ(e))
	}
	m.Answers, m.Authority, m.Additional = c09ValRRs(v.L[7]), c09ValRRs(v.L[8]), c09ValRRs(v.L[9])
	return m
}

func c09ErrCode(err error) Val {
	switch err {
	case nil:
		return U(0)
	case llmnr.ErrNameTooLong:
		return U(1)
	case llmnr.ErrLabelTooLong:
		return U(2)
	case llmnr.ErrInvalidMessage:
		return U(3)
	}
	return U(99)
}

// ---------------------------------------------------------------- independent reference (RFC 1035 4.1.4)

const (
	c09RefOK = iota
	c09RefMalformed
	c09RefNotBackward
	c09RefReserved
)

// c09RefName reads the name at off the way RFC 1035 4.1.4 describes it, allowing only pointers
// to a PRIOR occurrence (strictly before the name that contains the pointer).
func c09RefName(data []byte, off int) (labels [][]byte, end int, st int) {
	start, pos, end := off, off, -1
	for {
		if pos >= len(data) {
			return nil, 0, c09RefMalformed
		}
		c := int(data[pos])
		switch {
		case c == 0:
			if end < 0 {
				end = pos + 1
			}
			return labels, end, c09RefOK
		case c&0xC0 == 0xC0:
			if pos+1 >= len(data) {
				return nil, 0, c09RefMalformed
			}
			p := (c&0x3F)<<8 | int(data[pos+1])
			if p >= start {
				return nil, 0, c09RefNotBackward
			}
			if end < 0 {
				end = pos + 2
			}
			start, pos = p, p
		case c&0xC0 != 0:
			return nil, 0, c09RefReserved
		default:
			if pos+1+c > len(data) {
				return nil, 0, c09RefMalformed
			}
			labels = append(labels, data[pos+1:pos+1+c])
			pos += 1 + c
		}
	}
}

func c09HdrBits(h dnsmessage.Header) uint16 {
	bits := uint16(h.OpCode)<<11 | uint16(h.RCode)
	for _, f := range []struct {
		b bool
		m uint16
	}{{h.Response, 1 << 15}, {h.Authoritative, 1 << 10}, {h.Truncated, 1 << 9}, {h.RecursionDesired, 1 << 8},
		{h.RecursionAvailable, 1 << 7}, {h.AuthenticData, 1 << 5}, {h.CheckingDisabled, 1 << 4}} {
		if f.b {
			bits |= f.m
		}
	}
	return bits
}

func c09HdrOfBits(id, bits uint16) dnsmessage.Header {
	return dnsmessage.Header{ID: id, Response: bits&(1<<15) != 0, OpCode: dnsmessage.OpCode(bits>>11) & 0xF,
		Authoritative: bits&(1<<10) != 0, Truncated: bits&(1<<9) != 0, RecursionDesired: bits&(1<<8) != 0,
		RecursionAvailable: bits&(1<<7) != 0, AuthenticData: bits&(1<<5) != 0, CheckingDisabled: bits&(1<<4) != 0,
		RCode: dnsmessage.RCode(bits & 0xF)}
}

const c09ZBit = uint16(1 << 6) // dnsmessage.Header has no field for the reserved Z bit

func c09SameRRs(sec string, got []llmnr.ResourceRecord, want []llmnr.ResourceRecord) (string, string) {
	if len(got) != len(want) {
		return "C09/" + sec + "-section-dropped", fmt.Sprintf("%s: %d records decoded, %d encoded", sec, len(got), len(want))
	}
	for i := range want {
		g, w := got[i], want[i]
		if g.Name != w.Name || g.Type != w.Type || g.Class != w.Class || g.TTL != w.TTL ||
			!bytes.Equal(g.RData, w.RData) || int(g.RDLength) != len(w.RData) {
			return "C09/roundtrip-" + sec, fmt.Sprintf("%s[%d]: got %+v want %+v", sec, i, g, w)
		}
	}
	return "", ""
}

func c09SameMsg(dec, m *llmnr.Message) (string, string) {
	if dec.ID != m.ID || dec.Flags != m.Flags {
		return "C09/roundtrip-header", fmt.Sprintf("id/flags got %d/%d want %d/%d", dec.ID, dec.Flags, m.ID, m.Flags)
	}
	if int(dec.QDCount) != len(m.Questions) || int(dec.ANCount) != len(m.Answers) ||
		int(dec.NSCount) != len(m.Authority) || int(dec.ARCount) != len(m.Additional) {
		return "C09/roundtrip-counts", fmt.Sprintf("counts got %d %d %d %d", dec.QDCount, dec.ANCount, dec.NSCount, dec.ARCount)
	}
	if len(dec.Questions) != len(m.Questions) {
		return "C09/roundtrip-question", fmt.Sprintf("%d questions decoded, %d encoded", len(dec.Questions), len(m.Questions))
	}
	for i, q := range m.Questions {
		if dec.Questions[i] != q {
			return "C09/roundtrip-question", fmt.Sprintf("question[%d]: got %+v want %+v", i, dec.Questions[i], q)
		}
	}
	if k, d := c09SameRRs("answer", dec.Answers, m.Answers); k != "" {
		return k, d
	}
	if k, d := c09SameRRs("authority", dec.Authority, m.Authority); k != "" {
		return k, d
	}
	return c09SameRRs("additional", dec.Additional, m.Additional)
}

// c09ParseRFC parses a whole message with x/net/dns/dnsmessage (all four sections, RDATA opaque).
func c09ParseRFC(enc []byte) (*llmnr.Message, dnsmessage.Header, string, error) {
	var p dnsmessage.Parser
	out := &llmnr.Message{}
	h, err := p.Start(enc)
	if err != nil {
		return nil, h, "header", err
	}
	qs, err := p.AllQuestions()
	if err != nil {
		return nil, h, "question", err
	}
	for _, q := range qs {
		out.Questions = append(out.Questions, llmnr.Question{Name: strings.TrimSuffix(q.Name.String(), "."), Type: uint16(q.Type), Class: uint16(q.Class)})
	}
	secs := []struct {
		name string
		hdr  func() (dnsmessage.ResourceHeader, error)
		dst  *[]llmnr.ResourceRecord
	}{{"answer", p.AnswerHeader, &out.Answers}, {"authority", p.AuthorityHeader, &out.Authority}, {"additional", p.AdditionalHeader, &out.Additional}}
	for _, s := range secs {
		for {
			rh, err := s.hdr()
			if err == dnsmessage.ErrSectionDone {
				break
			}
			if err != nil {
				return nil, h, s.name, err
			}
			body, err := p.UnknownResource()
			if err != nil {
				return nil, h, s.name, err
			}
			*s.dst = append(*s.dst, llmnr.ResourceRecord{Name: strings.TrimSuffix(rh.Name.String(), "."), Type: uint16(rh.Type),
				Class: uint16(rh.Class), TTL: rh.TTL, RDLength: rh.Length, RData: body.Data})
		}
	}
	return out, h, "", nil
}

// c09BuildRFC packs the message with dnsmessage.Builder (optionally with name compression).
func c09BuildRFC(m *llmnr.Message, compress bool) ([]byte, error) {
	b := dnsmessage.NewBuilder(nil, c09HdrOfBits(m.ID, m.Flags))
	if compress {
		b.EnableCompression()
	}
	if err := b.StartQuestions(); err != nil {
		return nil, err
	}
	for _, q := range m.Questions {
		n, err := dnsmessage.NewName(q.Name + ".")
		if err != nil {
			return nil, err
		}
		if err := b.Question(dnsmessage.Question{Name: n, Type: dnsmessage.Type(q.Type), Class: dnsmessage.Class(q.Class)}); err != nil {
			return nil, err
		}
	}
	secs := []struct {
		start func() error
		rs    []llmnr.ResourceRecord
	}{{b.StartAnswers, m.Answers}, {b.StartAuthorities, m.Authority}, {b.StartAdditionals, m.Additional}}
	for _, s := range secs {
		if err := s.start(); err != nil {
			return nil, err
		}
		for _, r := range s.rs {
			n, err := dnsmessage.NewName(r.Name + ".")
			if err != nil {
				return nil, err
			}
			if err := b.UnknownResource(dnsmessage.ResourceHeader{Name: n, Class: dnsmessage.Class(r.Class), TTL: r.TTL},
				dnsmessage.UnknownResource{Type: dnsmessage.Type(r.Type), Data: r.RData}); err != nil {
				return nil, err
			}
		}
	}
	return b.Finish()
}

func c09Total(entry string, f func()) (string, string) {
	panicked, timedOut, _, pv := Guarded(5*time.Second, f)
	if panicked {
		return "C09/panic/" + entry, fmt.Sprintf("%s panicked: %v", entry, pv)
	}
	if timedOut {
		return "C09/timeout/" + entry, entry + " did not return within 5 s"
	}
	return "", ""
}

// c09Probe runs DecodeDomainName(data, off) in a child process (this binary in -replay mode): a
// decoder that follows a pointer loop dies of a stack overflow, which no recover() can catch.
// It returns 0 when the call returned an error, 1 when it returned a name, 2 when the child crashed
// or did not finish.
func c09Probe(data []byte, off int) int {
	req := fmt.Sprintf(`{"kind":"case","name":"llmnr.decode_name","args":%q,"expect":"E"}`, L(B(data), I(int64(off))).String())
	ctx, cancel := context.WithTimeout(context.Background(), 120*time.Second)
	defer cancel()
	cmd := exec.CommandContext(ctx, os.Args[0], "-replay", "/dev/stdin")
	cmd.Stdin = strings.NewReader(req)
	cmd.Env = append(os.Environ(), "VERIF_C09_SMALLSTACK=1")
	err := cmd.Run()
	if err == nil {
		return 0
	}
	if ee, ok := err.(*exec.ExitError); ok && ee.ExitCode() == 1 {
		return 1
	}
	return 2
}

func init() {
	if os.Getenv("VERIF_C09_SMALLSTACK") != "" {
		debug.SetMaxStack(16 << 20) // fail fast in the probe child
	}
	// args: data, offset — a name that runs into a pointer which is not strictly backwards (per the
	// independent reader) must be rejected; evaluated in a child process so that a decoder which
	// loops for ever (stack overflow) is reported instead of killing the harness.
	Oracle("c09.pointer_loop", func(a []Val) (string, string) {
		data, off := exact(a[0].B), int(a[1].Int())
		if _, _, st := c09RefName(data, off); st != c09RefNotBackward {
			return "", ""
		}
		switch c09Probe(data, off) {
		case 1:
			return "C09/non-backward-pointer-accepted", fmt.Sprintf("DecodeDomainName(%x, %d) returns a name", data, off)
		case 2:
			return "C09/pointer-loop-nontermination", fmt.Sprintf("DecodeDomainName(%x, %d) does not terminate (stack overflow or timeout in a child process)", data, off)
		}
		return "", ""
	})
	Impl("llmnr.validate_name", func(a []Val) Val { return c09ErrCode(llmnr.ValidateDomainName(a[0].Str())) })
	Impl("llmnr.encode_name", func(a []Val) Val {
		b, err := llmnr.EncodeDomainName(a[0].Str())
		if err != nil {
			return VErr()
		}
		return B(b)
	})
	Impl("llmnr.decode_name", func(a []Val) Val {
		s, off, err := llmnr.DecodeDomainName(exact(a[0].B), int(a[1].Int()))
		if err != nil {
			return VErr()
		}
		return L(S(s), I(int64(off)))
	})
	Impl("llmnr.encode_question", func(a []Val) Val {
		b, err := llmnr.EncodeQuestion(c09ValQ(a[0]))
		if err != nil {
			return VErr()
		}
		return B(b)
	})
	Impl("llmnr.decode_question", func(a []Val) Val {
		q, off, err := llmnr.DecodeQuestion(exact(a[0].B), int(a[1].Int()))
		if err != nil {
			return VErr()
		}
		return L(c09QVal(q), I(int64(off)))
	})
	Impl("llmnr.encode_rr", func(a []Val) Val {
		b, err := llmnr.EncodeResourceRecord(c09ValRR(a[0]))
		if err != nil {
			return VErr()
		}
		return B(b)
	})
	Impl("llmnr.decode_rr", func(a []Val) Val {
		r, off, err := llmnr.DecodeResourceRecord(exact(a[0].B), int(a[1].Int()))
		if err != nil {
			return VErr()
		}
		if len(r.RData) != int(r.RDLength) {
			return L(S("rdlength does not match rdata"))
		}
		return L(c09RRVal(r), I(int64(off)))
	})
	Impl("llmnr.encode_message", func(a []Val) Val {
		m := c09ValMsg(a[0])
		b, err := m.Encode()
		if err != nil {
			return VErr()
		}
		return L(B(b), U(uint64(m.QDCount)), U(uint64(m.ANCount)), U(uint64(m.NSCount)), U(uint64(m.ARCount)))
	})
	Impl("llmnr.decode_message", func(a []Val) Val {
		m, err := llmnr.DecodeMessage(exact(a[0].B))
		if err != nil {
			return VErr()
		}
		return c09MsgVal(m)
	})
	Impl("llmnr.validate", func(a []Val) Val { return c09ErrCode(c09ValMsg(a[0]).Validate()) })
	Impl("llmnr.add_question", func(a []Val) Val {
		m := c09ValMsg(a[0])
		q := c09ValQ(a[1])
		err := m.AddQuestion(q.Name, q.Type, q.Class)
		return L(c09ErrCode(err), c09MsgVal(m))
	})
	Impl("llmnr.add_answer", func(a []Val) Val {
		m := c09ValMsg(a[0])
		err := m.AddAnswer(c09ValRR(a[1]))
		return L(c09ErrCode(err), c09MsgVal(m))
	})

	// args: name, prefix bytes, suffix bytes.  For a valid name the encoding is the RFC 1035 label
	// sequence and it decodes back, at any offset inside any surrounding bytes.
	Oracle("c09.name_roundtrip", func(a []Val) (string, string) {
		name := a[0].Str()
		enc, err := llmnr.EncodeDomainName(name)
		if err != nil {
			return "C09/name-encode-error", fmt.Sprintf("EncodeDomainName(%q): %v", name, err)
		}
		var want []byte
		for _, l := range strings.Split(name, ".") {
			want = append(want, byte(len(l)))
			want = append(want, l...)
		}
		want = append(want, 0)
		if !bytes.Equal(enc, want) {
			return "C09/name-wire-format", fmt.Sprintf("EncodeDomainName(%q) = %x, RFC 1035 form %x", name, enc, want)
		}
		data := cat(a[1].B, enc, a[2].B)
		got, off, err := llmnr.DecodeDomainName(exact(data), len(a[1].B))
		if err != nil {
			return "C09/name-decode-error", fmt.Sprintf("DecodeDomainName(%x, %d): %v", data, len(a[1].B), err)
		}
		if got != name || off != len(a[1].B)+len(enc) {
			return "C09/name-roundtrip", fmt.Sprintf("name %q decodes as %q, offset %d want %d", name, got, off, len(a[1].B)+len(enc))
		}
		return "", ""
	})
	// args: name with a label longer than 63 bytes: the encoder must refuse it (a length octet >= 64 is not a label)
	Oracle("c09.long_label_rejected", func(a []Val) (string, string) {
		name := a[0].Str()
		long := false
		for _, l := range strings.Split(name, ".") {
			long = long || len(l) > 63
		}
		if !long {
			return "", ""
		}
		if enc, err := llmnr.EncodeDomainName(name); err == nil {
			return "C09/long-label-encoded", fmt.Sprintf("EncodeDomainName(%q) = %x", name, enc)
		}
		return "", ""
	})
	// args: message.  Decode(Encode(m)) has the same header, questions and records in all four sections.
	Oracle("c09.msg_roundtrip", func(a []Val) (string, string) {
		m := c09ValMsg(a[0])
		enc, err := m.Encode()
		if err != nil {
			return "C09/encode-error", err.Error()
		}
		dec, err := llmnr.DecodeMessage(exact(enc))
		if err != nil {
			return "C09/decode-error", err.Error()
		}
		return c09SameMsg(dec, m)
	})
	// args: message.  dnsmessage parses the library's output to the same content.
	Oracle("c09.rfc_reads_lib", func(a []Val) (string, string) {
		m := c09ValMsg(a[0])
		enc, err := m.Encode()
		if err != nil {
			return "C09/encode-error", err.Error()
		}
		got, h, sec, err := c09ParseRFC(exact(enc))
		if err != nil {
			return "C09/rfc-rejects-lib-output/" + sec, fmt.Sprintf("dnsmessage on %x: %s: %v", enc, sec, err)
		}
		if h.ID != m.ID || c09HdrBits(h) != m.Flags&^c09ZBit {
			return "C09/rfc-reads-lib/header", fmt.Sprintf("header %+v vs id %d flags %#x", h, m.ID, m.Flags)
		}
		got.ID, got.Flags = m.ID, m.Flags
		got.QDCount, got.ANCount, got.NSCount, got.ARCount = uint16(len(got.Questions)), uint16(len(got.Answers)), uint16(len(got.Authority)), uint16(len(got.Additional))
		if k, d := c09SameMsg(got, m); k != "" {
			return strings.Replace(k, "C09/", "C09/rfc-reads-lib/", 1), d
		}
		return "", ""
	})
	// args: message, compress flag.  The library decodes dnsmessage's output (with name compression) to the same content.
	Oracle("c09.lib_reads_rfc", func(a []Val) (string, string) {
		m := c09ValMsg(a[0])
		compress := a[1].Int() != 0
		enc, err := c09BuildRFC(m, compress)
		if err != nil {
			return "C09/harness/dnsmessage-build", err.Error()
		}
		dec, err := llmnr.DecodeMessage(exact(enc))
		if err != nil {
			return "C09/lib-rejects-rfc-output", fmt.Sprintf("DecodeMessage(%x): %v", enc, err)
		}
		want := *m
		want.Flags = m.Flags &^ c09ZBit
		if k, d := c09SameMsg(dec, &want); k != "" {
			return strings.Replace(k, "C09/", "C09/lib-reads-rfc/", 1), fmt.Sprintf("%s (wire %x)", d, enc)
		}
		return "", ""
	})
	// args: data, offset.  Every placement of compression pointers: strictly backward ones (chained too) are
	// followed, others rejected; malformed names rejected; always terminates without panicking.
	Oracle("c09.pointers", func(a []Val) (string, string) {
		data, off := exact(a[0].B), int(a[1].Int())
		var got string
		var end int
		var err error
		if k, d := c09Total("decode_name", func() { got, end, err = llmnr.DecodeDomainName(data, off) }); k != "" {
			return k, d
		}
		if off >= len(data) {
			if err == nil {
				return "C09/offset-out-of-bounds-accepted", fmt.Sprintf("offset %d in %d bytes", off, len(data))
			}
			return "", ""
		}
		labels, wend, st := c09RefName(data, off)
		switch st {
		case c09RefNotBackward:
			if err == nil {
				return "C09/non-backward-pointer-accepted", fmt.Sprintf("DecodeDomainName(%x, %d) = %q", data, off, got)
			}
		case c09RefMalformed:
			if err == nil {
				return "C09/malformed-name-accepted", fmt.Sprintf("DecodeDomainName(%x, %d) = %q", data, off, got)
			}
		case c09RefOK:
			want := "."
			if len(labels) > 0 {
				want = string(bytes.Join(labels, []byte(".")))
			}
			if err != nil {
				return "C09/backward-pointer-rejected", fmt.Sprintf("DecodeDomainName(%x, %d): %v, want %q", data, off, err, want)
			}
			if got != want || end != wend {
				key := "C09/compressed-name"
				if strings.HasSuffix(got, "..") && len(labels) > 0 {
					key = "C09/pointer-to-root"
				}
				return key, fmt.Sprintf("DecodeDomainName(%x, %d) = %q,%d want %q,%d", data, off, got, end, want, wend)
			}
		}
		return "", ""
	})
	// args: data, offset (totality of every decoding entry point; reused by C07)
	Oracle("c09.total_decode_name", func(a []Val) (string, string) {
		return c09Total("decode_name", func() { llmnr.DecodeDomainName(exact(a[0].B), int(a[1].Int())) })
	})
	Oracle("c09.total_decode_question", func(a []Val) (string, string) {
		return c09Total("decode_question", func() { llmnr.DecodeQuestion(exact(a[0].B), int(a[1].Int())) })
	})
	Oracle("c09.total_decode_rr", func(a []Val) (string, string) {
		return c09Total("decode_rr", func() { llmnr.DecodeResourceRecord(exact(a[0].B), int(a[1].Int())) })
	})
	Oracle("c09.total_decode_message", func(a []Val) (string, string) {
		return c09Total("decode_message", func() { llmnr.DecodeMessage(exact(a[0].B)) })
	})
	Gen("C09", genC09)
}

// ---------------------------------------------------------------- generators

var c09LabelBytes = []byte{0x00, 0x01, 0x2d, 0x2f, 0x3f, 0x40, 0x7f, 0x80, 0xbf, 0xc0, 0xc1, 0xff, 'a', 'b', 'Z', '0', '-', '_', ' '}

func c09Label(r *Rng, n int) string {
	b := make([]byte, n)
	for i := range b {
		switch r.Intn(3) {
		case 0:
			b[i] = c09LabelBytes[r.Intn(len(c09LabelBytes))]
		case 1:
			b[i] = "abcdefghijklmnopqrstuvwxyz0123456789-"[r.Intn(37)]
		default:
			b[i] = r.Byte()
		}
		if b[i] == '.' {
			b[i] = '-'
		}
	}
	return string(b)
}

// c09Name returns a valid name: labels of 1..63 bytes without dots, at most 253 bytes of text (255 on the wire).
func c09Name(r *Rng, pool []string) string {
	if len(pool) > 0 && r.Intn(3) == 0 { // share suffixes so that compression has something to do
		p := pool[r.Intn(len(pool))]
		ls := strings.Split(p, ".")
		suf := strings.Join(ls[r.Intn(len(ls)):], ".")
		if r.Bool() {
			return suf
		}
		pre := c09Label(r, 1+r.Intn(5))
		if len(pre)+1+len(suf) <= 253 {
			return pre + "." + suf
		}
		return suf
	}
	var ls []string
	total := 0
	n := 1 + r.Intn(4)
	if r.Intn(10) == 0 {
		n = 1 + r.Intn(127)
	}
	for i := 0; i < n; i++ {
		l := r.Pick(1, 1, 2, 3, 5, 8, 62, 63, 1+r.Intn(63))
		if total+l+1 > 254 {
			l = 253 - total
			if l < 1 {
				break
			}
		}
		ls = append(ls, c09Label(r, l))
		total += l + 1
	}
	return strings.Join(ls, ".")
}

func c09RData(r *Rng, big bool) []byte {
	n := r.Pick(0, 0, 1, 2, 4, 4, 16, 16, 31, 255, 256, r.Intn(600))
	if r.Intn(12) == 0 { // pushes later names (and the pointers to them) beyond offsets 255 / 1023 / 4095
		n = r.Pick(300, 1100, 2500, 5000)
	}
	if big {
		n = r.Pick(65535, 65534, 32768, 16384)
	}
	b := r.Bytes(n)
	if n >= 2 && r.Intn(4) == 0 { // RDATA that looks like a name with a pointer: must stay opaque
		b[0], b[1] = 0xC0, byte(r.Intn(40))
	}
	return b
}

func c09RR(r *Rng, pool *[]string, big bool) llmnr.ResourceRecord {
	name := c09Name(r, *pool)
	*pool = append(*pool, name)
	d := c09RData(r, big)
	return llmnr.ResourceRecord{Name: name, Type: uint16(r.U64Edge()), Class: uint16(r.U64Edge()), TTL: uint32(r.U64Edge()),
		RDLength: uint16(len(d)), RData: d}
}

func c09Message(r *Rng, maxPer int, big bool) *llmnr.Message {
	m := &llmnr.Message{}
	m.ID, m.Flags = uint16(r.U64Edge()), uint16(r.U64Edge())
	var pool []string
	for i, n := 0, r.Intn(maxPer+1); i < n; i++ {
		name := c09Name(r, pool)
		pool = append(pool, name)
		m.Questions = append(m.Questions, llmnr.Question{Name: name, Type: uint16(r.U64Edge()), Class: uint16(r.U64Edge())})
	}
	for i, n := 0, r.Intn(maxPer+1); i < n; i++ {
		m.Answers = append(m.Answers, c09RR(r, &pool, big && i == 0))
	}
	for i, n := 0, r.Intn(maxPer+1); i < n; i++ {
		m.Authority = append(m.Authority, c09RR(r, &pool, false))
	}
	for i, n := 0, r.Intn(maxPer+1); i < n; i++ {
		m.Additional = append(m.Additional, c09RR(r, &pool, false))
	}
	m.QDCount, m.ANCount, m.NSCount, m.ARCount = uint16(len(m.Questions)), uint16(len(m.Answers)), uint16(len(m.Authority)), uint16(len(m.Additional))
	return m
}

// c09PointerSoup builds small buffers dense in zero bytes, short labels and pointers of every kind.
func c09PointerSoup(r *Rng, n int) []byte {
	b := make([]byte, 0, n)
	for len(b) < n {
		switch r.Intn(7) {
		case 0:
			b = append(b, 0)
		case 1, 2:
			l := 1 + r.Intn(3)
			b = append(b, byte(l))
			b = append(b, []byte(c09Label(r, l))...)
		case 3: // backward pointer (to anything before)
			b = append(b, 0xC0, byte(r.Intn(len(b)+1)))
		case 4: // self / forward pointer
			b = append(b, 0xC0, byte(len(b)+r.Intn(4)))
		case 5:
			b = append(b, byte(0xC0|r.Intn(64)), r.Byte())
		default:
			b = append(b, c09LabelBytes[r.Intn(len(c09LabelBytes))])
		}
	}
	return b[:n]
}

func genC09(c *Ctx) {
	r := c.Rng

	// ---- names: validate / encode / round trip
	corpus := []string{"", ".", "a", "a.b", "a..b", ".a", "a.", "..", "test.local", "www.test.local", "example.com",
		strings.Repeat("a", 63), strings.Repeat("a", 64), strings.Repeat("a", 63) + "." + strings.Repeat("b", 64),
		strings.Repeat("a", 64) + ".local", strings.Repeat("a.", 127) + "a", strings.Repeat("a.", 127) + "ab", strings.Repeat("a.", 128),
		strings.Repeat(strings.Repeat("x", 63)+".", 3) + strings.Repeat("y", 61), strings.Repeat(strings.Repeat("x", 63)+".", 3) + strings.Repeat("y", 63),
		strings.Repeat(strings.Repeat("x", 63)+".", 3) + strings.Repeat("y", 64), strings.Repeat("z", 255), strings.Repeat("z", 256),
		"\x00", "\xc0\x0c", "a\x00b.c", "\xff.\xff"}
	for _, s := range corpus {
		c.Case("llmnr.validate_name", S(s))
		c.Case("llmnr.encode_name", S(s))
	}
	for rep := 0; rep < c.N(300, 5000); rep++ {
		s := r.StringOver("ab.\x00\xc0", r.Intn(12))
		if r.Intn(4) == 0 {
			s = r.StringOver("a.", r.Pick(60, 64, 70, 130, 250, 255, 256, 257, 300))
		}
		if r.Intn(4) == 0 {
			s = strings.Repeat("q", r.Pick(62, 63, 64, 65)) + "." + s
		}
		c.Case("llmnr.validate_name", S(s))
		v := c.Case("llmnr.encode_name", S(s))
		if !v.IsErr() && !v.IsPanic() {
			c.Case("llmnr.decode_name", B(v.B), I(0))
		}
	}
	for rep := 0; rep < c.N(600, 10000); rep++ {
		name := c09Name(r, nil)
		pre := r.Bytes(r.Pick(0, 0, 1, 12, r.Intn(40)))
		suf := r.Bytes(r.Pick(0, 0, 1, 4, r.Intn(20)))
		c.Check("c09.name_roundtrip", S(name), B(pre), B(suf))
		enc, _ := llmnr.EncodeDomainName(name)
		c.Case("llmnr.encode_name", S(name))
		c.Case("llmnr.decode_name", B(cat(pre, enc, suf)), I(int64(len(pre))))
		if rep%10 == 1 {
			long := c09Label(r, r.Pick(64, 64, 65, 100, 255, 256)) + "." + name
			if r.Bool() {
				long = name + "." + c09Label(r, r.Pick(64, 64, 65, 191, 192))
			}
			c.Check("c09.long_label_rejected", S(long))
			c.Case("llmnr.encode_name", S(long))
		}
		if rep%10 == 0 {
			for _, m := range Malformed(enc, 6) {
				c.Case("llmnr.decode_name", B(m), I(0))
			}
		}
	}

	// ---- pointers: every placement (forward, self, backward, chained).
	// Canaries first, in a child process: if the decoder follows a pointer loop the in-process streams
	// below would kill the harness, so they are skipped and the canary failure is the witness.
	loopSafe := true
	for _, cn := range []struct {
		d   []byte
		off int
	}{{[]byte{0xC0, 0}, 0}, {[]byte{1, 'a', 0xC0, 0}, 0}, {[]byte{1, 'a', 0xC0, 2}, 0}, {[]byte{0xC0, 2, 0xC0, 0}, 2},
		{[]byte{0xC0, 2, 0xC0, 0}, 0}, {[]byte{0, 0xC0, 3, 0xC0, 1}, 1}, {[]byte{1, 'a', 1, 'b', 0xC0, 2}, 0},
		{[]byte{0xC0, 2, 0xC0, 0, 1, 'a', 0xC0, 2}, 4}, {[]byte{1, 'a', 0xC0, 4, 0xC0, 0}, 0}} {
		if !c.Check("c09.pointer_loop", B(cn.d), I(int64(cn.off))) {
			loopSafe = false
		}
	}
	c.Note("c09_pointer_loop_canaries_passed", loopSafe)
	if loopSafe {
		genC09Pointers(c)
	}
	genC09Rest(c, corpus, loopSafe)
}

// c09BigCompressed is a response of more than 64 KiB: question "host.local", a TXT answer with n bytes of
// RDATA owned by a pointer to the question name, and an answer whose owner name "www" + pointer starts just
// after offset 0x10000 (the pointer target 12 is far below the name's start: a 16-bit comparison wraps).
func c09BigCompressed(n int, fill byte) []byte {
	m := []byte{0x12, 0x34, 0x80, 0x00, 0, 1, 0, 2, 0, 0, 0, 0}
	m = append(m, 4, 'h', 'o', 's', 't', 5, 'l', 'o', 'c', 'a', 'l', 0, 0, 1, 0, 1)
	m = append(m, 0xC0, 12, 0, 16, 0, 1, 0, 0, 0, 30, byte(n>>8), byte(n))
	m = append(m, bytes.Repeat([]byte{fill}, n)...)
	m = append(m, 3, 'w', 'w', 'w', 0xC0, 12, 0, 1, 0, 1, 0, 0, 0, 30, 0, 4, 10, 0, 0, 1)
	return m
}

func genC09Pointers(c *Ctx) {
	r := c.Rng
	// compressed names beyond the first 64 KiB of a message (RDATA up to 65535 makes that reachable)
	for _, n := range []int{65400, 65495, 65496, 65497, 65500, 65508, 65509, 65535} {
		m := c09BigCompressed(n, byte(n))
		c.Case("llmnr.decode_message", B(m))
		c.Case("llmnr.decode_name", B(m), I(int64(40+n)))
	}
	for _, tgt := range []byte{0, 1, 2, 3, 4, 5, 6, 7, 8} {
		for off := 0; off < 8; off++ {
			data := []byte{1, 'a', 0, 0xC0, tgt, 1, 'b', 0xC0, 3, 0xC0, 7, 0xC0}
			c.Check("c09.pointers", B(data), I(int64(off)))
			c.Case("llmnr.decode_name", B(data), I(int64(off)))
		}
	}
	c.Case("llmnr.decode_name", B([]byte{0}), I(-1))
	c.Case("llmnr.decode_name", B([]byte{0}), I(0))
	c.Case("llmnr.decode_name", B([]byte{0}), I(1))
	c.Case("llmnr.decode_name", B(nil), I(0))
	c.Case("llmnr.decode_question", B([]byte{0, 0, 1, 0, 1}), I(-1))
	c.Case("llmnr.decode_rr", B([]byte{0, 0, 1, 0, 1}), I(-3))
	{ // a chain of 200 backward pointers, then a pointer loop
		var chain []byte
		chain = append(chain, 1, 'r', 0)
		for i := 0; i < 200; i++ {
			p := len(chain) - 2
			if i == 0 {
				p = 0
			}
			chain = append(chain, byte(0xC0|p>>8), byte(p))
		}
		c.Check("c09.pointers", B(chain), I(int64(len(chain)-2)))
		c.Case("llmnr.decode_name", B(chain), I(int64(len(chain)-2)))
		loop := []byte{0xC0, 2, 0xC0, 0}
		c.Check("c09.pointers", B(loop), I(0))
		c.Check("c09.pointers", B(loop), I(2))
		c.Case("llmnr.decode_name", B(loop), I(2))
	}
	for rep := 0; rep < c.N(2500, 40000); rep++ {
		data := c09PointerSoup(r, 1+r.Intn(28))
		off := r.Intn(len(data) + 1)
		c.Check("c09.pointers", B(data), I(int64(off)))
		c.Case("llmnr.decode_name", B(data), I(int64(off)))
		if rep%4 == 0 {
			c.Check("c09.total_decode_question", B(data), I(int64(off)))
			c.Check("c09.total_decode_rr", B(data), I(int64(off)))
			c.Case("llmnr.decode_question", B(data), I(int64(off)))
			c.Case("llmnr.decode_rr", B(data), I(int64(off)))
		}
	}
	{ // a pointer whose 14-bit target lies beyond offset 255, backward and forward
		big := make([]byte, 700)
		copy(big[300:], []byte{3, 'f', 'o', 'o', 0})
		copy(big[600:], []byte{1, 'x', 0xC1, 0x2C, 0xC2, 0x58, 0xC2, 0x5B})
		for _, off := range []int{600, 604, 606} {
			c.Check("c09.pointers", B(big), I(int64(off)))
			c.Case("llmnr.decode_name", B(big), I(int64(off)))
		}
	}

}

func genC09Rest(c *Ctx, corpus []string, loopSafe bool) {
	r := c.Rng
	// ---- questions and records on their own
	for rep := 0; rep < c.N(200, 3000); rep++ {
		q := llmnr.Question{Name: c09Name(r, nil), Type: uint16(r.U64Edge()), Class: uint16(r.U64Edge())}
		if r.Intn(8) == 0 {
			q.Name = corpus[r.Intn(len(corpus))]
		}
		v := c.Case("llmnr.encode_question", c09QVal(q))
		if v.K == 'x' {
			pre := r.Bytes(r.Pick(0, 12, 3))
			c.Case("llmnr.decode_question", B(cat(pre, v.B, r.Bytes(r.Intn(3)))), I(int64(len(pre))))
			if rep%8 == 0 {
				for _, m := range Malformed(v.B, 4) {
					c.Case("llmnr.decode_question", B(m), I(0))
				}
			}
		}
		var pool []string
		rr := c09RR(r, &pool, false)
		if r.Intn(8) == 0 {
			rr.Name = corpus[r.Intn(len(corpus))]
		}
		if r.Intn(4) == 0 {
			rr.RDLength = uint16(r.U64Edge()) // ignored by the encoder
		}
		v = c.Case("llmnr.encode_rr", c09RRVal(rr))
		if v.K == 'x' {
			pre := r.Bytes(r.Pick(0, 12, 3))
			c.Case("llmnr.decode_rr", B(cat(pre, v.B, r.Bytes(r.Intn(3)))), I(int64(len(pre))))
			if rep%8 == 0 && len(v.B) < 200 {
				for _, m := range Malformed(v.B, 4) {
					c.Case("llmnr.decode_rr", B(m), I(0))
				}
				// corrupt the fixed part (type .. rdlength) too
				fixed := len(v.B) - len(rr.RData) - 10
				for i := fixed; i < fixed+10; i++ {
					for _, bv := range boundaryBytes {
						m := exact(v.B)
						m[i] = bv
						c.Case("llmnr.decode_rr", B(m), I(0))
					}
				}
			}
		}
	}
	{ // RDATA of 65535 and 65536 bytes (the latter wraps RDLength to 0)
		for _, n := range []int{65535, 65536, 65537} {
			rr := llmnr.ResourceRecord{Name: "big.local", Type: 16, Class: 1, TTL: 1, RData: bytes.Repeat([]byte{0xAB}, n)}
			v := c.Case("llmnr.encode_rr", c09RRVal(rr))
			c.Case("llmnr.decode_rr", B(v.B), I(0))
		}
	}

	// ---- whole messages
	for rep := 0; rep < c.N(500, 8000); rep++ {
		maxPer := r.Pick(0, 1, 2, 3, 3, 5)
		big := rep%100 == 7
		m := c09Message(r, maxPer, big)
		mv := c09MsgVal(m)
		c.Check("c09.msg_roundtrip", mv)
		c.Check("c09.rfc_reads_lib", mv)
		c.Check("c09.lib_reads_rfc", mv, Bool(false))
		c.Check("c09.lib_reads_rfc", mv, Bool(true))
		if big && c.Tier != "thorough" && rep > 200 {
			continue // keep the quick correspondence file small
		}
		v := c.Case("llmnr.encode_message", mv)
		if v.K == 'l' {
			enc := v.L[0].B
			c.Case("llmnr.decode_message", B(enc))
			c.Check("c09.total_decode_message", B(enc))
			if rep%25 == 0 && len(enc) < 400 {
				for _, mm := range Malformed(enc, 14) {
					c.Case("llmnr.decode_message", B(mm))
					c.Check("c09.total_decode_message", B(mm))
				}
			}
		}
		if cb, err := c09BuildRFC(m, true); err == nil {
			c.Case("llmnr.decode_message", B(cb))
			if rep%25 == 1 && len(cb) < 300 {
				for _, mm := range Malformed(cb, 14) {
					c.Case("llmnr.decode_message", B(mm))
				}
				// redirect every pointer of the compressed message
				for i := 12; loopSafe && i+1 < len(cb); i++ {
					if cb[i]&0xC0 == 0xC0 {
						for _, t := range []int{0, 11, 12, 13, i - 1, i, i + 1, i + 2, len(cb) - 1} {
							mm := exact(cb)
							mm[i], mm[i+1] = byte(0xC0|(t>>8)&0x3F), byte(t)
							c.Case("llmnr.decode_message", B(mm))
							c.Check("c09.total_decode_message", B(mm))
						}
					}
				}
			}
		}
	}
	// inconsistent header counts, messages whose names are not encodable, header-only inputs
	for rep := 0; rep < c.N(150, 2000); rep++ {
		m := c09Message(r, 2, false)
		switch r.Intn(4) {
		case 0:
			m.QDCount, m.ANCount, m.NSCount, m.ARCount = uint16(r.Intn(4)), uint16(r.Intn(4)), uint16(r.Intn(4)), uint16(r.Intn(4))
		case 1:
			if len(m.Questions) > 0 {
				m.Questions[0].Name = corpus[r.Intn(len(corpus))]
			}
		case 2:
			if len(m.Additional) > 0 {
				m.Additional[0].Name = strings.Repeat("L", 64)
			} else if len(m.Answers) > 0 {
				m.Answers[0].Name = strings.Repeat("z", 256)
			}
		}
		mv := c09MsgVal(m)
		c.Case("llmnr.validate", mv)
		v := c.Case("llmnr.encode_message", mv)
		if v.K == 'l' {
			enc := exact(v.L[0].B)
			// rewrite the counts on the wire
			for i := 4; i < 12 && r.Intn(2) == 0; i++ {
				enc[i] = byte(r.Pick(0, 0, 0, 1, 2, 3, 255))
			}
			c.Case("llmnr.decode_message", B(enc))
			c.Check("c09.total_decode_message", B(enc))
		}
		q := llmnr.Question{Name: corpus[r.Intn(len(corpus))], Type: uint16(r.U64Edge()), Class: 1}
		if r.Bool() {
			q.Name = c09Name(r, nil)
		}
		c.Case("llmnr.add_question", mv, c09QVal(q))
		var pool []string
		rr := c09RR(r, &pool, false)
		if r.Bool() {
			rr.Name = corpus[r.Intn(len(corpus))]
		}
		c.Case("llmnr.add_answer", mv, c09RRVal(rr))
	}
	for n := 0; n <= 13; n++ {
		c.Case("llmnr.decode_message", B(bytes.Repeat([]byte{0}, n)))
		c.Case("llmnr.decode_message", B(bytes.Repeat([]byte{0xff}, n)))
	}
	for rep := 0; loopSafe && rep < c.N(300, 5000); rep++ {
		hdr := []byte{r.Byte(), r.Byte(), r.Byte(), r.Byte(), 0, byte(r.Intn(3)), 0, byte(r.Intn(3)), 0, byte(r.Intn(2)), 0, byte(r.Intn(2))}
		if r.Intn(10) == 0 {
			hdr[4+2*r.Intn(4)] = 0xff
		}
		data := cat(hdr, c09PointerSoup(r, r.Intn(50)))
		c.Case("llmnr.decode_message", B(data))
		c.Check("c09.total_decode_message", B(data))
	}
	if c.Tier == "thorough" { // count wrap: 65536 questions are announced as 0
		m := &llmnr.Message{}
		for i := 0; i < 65536; i++ {
			m.Questions = append(m.Questions, llmnr.Question{Name: "a", Type: 1, Class: 1})
		}
		v := c.Case("llmnr.encode_message", c09MsgVal(m))
		if v.K == 'l' {
			c.Case("llmnr.decode_message", B(v.L[0].B))
		}
	}
}
