//go:build c18 || allprops

package main

// Dispatch facts of the name-service servers, read from the SOURCE of /repo's working tree at
// run time with go/ast.  They are emitted as correspondence cases ("c18.fact.*"); the model
// side (Model/DispC18.v) answers with the value the C18 theorems assume, so a source edit
// that invalidates a premise (another mask, a case routed elsewhere, the receive buffer handed
// to the handler goroutine again, a question count announced without questions) is a
// model/implementation disagreement.

import (
	"go/ast"
	"go/constant"
	"go/parser"
	"go/token"
	"os"
	"path/filepath"
	"sort"
	"strings"
)

func c18Repo() string {
	if r := os.Getenv("VERIF_REPO"); r != "" {
		return r
	}
	return "/repo"
}

type c18Pkg struct {
	fset   *token.FileSet
	files  map[string]*ast.File
	consts map[string]ast.Expr
}

func c18Load(dir string) *c18Pkg {
	p := &c18Pkg{fset: token.NewFileSet(), files: map[string]*ast.File{}, consts: map[string]ast.Expr{}}
	ents, _ := os.ReadDir(filepath.Join(c18Repo(), dir))
	for _, e := range ents {
		n := e.Name()
		if !strings.HasSuffix(n, ".go") || strings.HasSuffix(n, "_test.go") {
			continue
		}
		f, err := parser.ParseFile(p.fset, filepath.Join(c18Repo(), dir, n), nil, 0)
		if err != nil {
			continue
		}
		p.files[n] = f
		for _, d := range f.Decls {
			gd, ok := d.(*ast.GenDecl)
			if !ok || gd.Tok != token.CONST {
				continue
			}
			for _, sp := range gd.Specs {
				vs := sp.(*ast.ValueSpec)
				for i, name := range vs.Names {
					if i < len(vs.Values) {
						p.consts[name.Name] = vs.Values[i]
					}
				}
			}
		}
	}
	return p
}

// eval evaluates a constant integer expression built from literals, package constants,
// conversions and | & << + operators.
func (p *c18Pkg) eval(e ast.Expr, depth int) (constant.Value, bool) {
	if depth > 20 {
		return nil, false
	}
	switch x := e.(type) {
	case *ast.BasicLit:
		if x.Kind == token.INT {
			return constant.MakeFromLiteral(x.Value, token.INT, 0), true
		}
	case *ast.ParenExpr:
		return p.eval(x.X, depth+1)
	case *ast.Ident:
		if d, ok := p.consts[x.Name]; ok {
			return p.eval(d, depth+1)
		}
	case *ast.CallExpr: // uint16(x)
		if len(x.Args) == 1 {
			return p.eval(x.Args[0], depth+1)
		}
	case *ast.BinaryExpr:
		a, ok1 := p.eval(x.X, depth+1)
		b, ok2 := p.eval(x.Y, depth+1)
		if ok1 && ok2 {
			switch x.Op {
			case token.OR, token.AND, token.ADD, token.SUB, token.MUL, token.XOR, token.AND_NOT:
				return constant.BinaryOp(a, x.Op, b), true
			case token.SHL, token.SHR:
				if s, ok := constant.Uint64Val(b); ok {
					return constant.Shift(a, x.Op, uint(s)), true
				}
			}
		}
	}
	return nil, false
}

func (p *c18Pkg) evalVal(e ast.Expr) Val {
	v, ok := p.eval(e, 0)
	if !ok {
		return VErr()
	}
	u, ok := constant.Uint64Val(v)
	if !ok {
		return VErr()
	}
	return U(u)
}

func (p *c18Pkg) funcDecl(file, recv, name string) *ast.FuncDecl {
	f := p.files[file]
	if f == nil {
		return nil
	}
	for _, d := range f.Decls {
		fd, ok := d.(*ast.FuncDecl)
		if !ok || fd.Name.Name != name {
			continue
		}
		r := ""
		if fd.Recv != nil && len(fd.Recv.List) == 1 {
			t := fd.Recv.List[0].Type
			if st, ok := t.(*ast.StarExpr); ok {
				t = st.X
			}
			if id, ok := t.(*ast.Ident); ok {
				r = id.Name
			}
		}
		if r == recv {
			return fd
		}
	}
	return nil
}

func c18Sel(e ast.Expr) string {
	switch x := e.(type) {
	case *ast.Ident:
		return x.Name
	case *ast.SelectorExpr:
		return c18Sel(x.X) + "." + x.Sel.Name
	}
	return "?"
}

var c18HandlerIdx = map[string]uint64{"handleNameQuery": 0, "handleRegistration": 1, "handleRelease": 2, "handleRefresh": 3}

// switchFacts finds `switch <x>.Header.Flags & MASK { case C...: <recv>.handleX(...) ... default: ... |= RcodeNotImpl }`
// and returns (mask, ((consts...) handler)...) with handler 4 for "flags |= RcodeNotImpl" and 9 for anything else.
func (p *c18Pkg) switchFacts(fd *ast.FuncDecl) (mask Val, cases Val) {
	mask, cases = VErr(), VErr()
	if fd == nil {
		return
	}
	ast.Inspect(fd.Body, func(n ast.Node) bool {
		sw, ok := n.(*ast.SwitchStmt)
		if !ok {
			return true
		}
		be, ok := sw.Tag.(*ast.BinaryExpr)
		if !ok || be.Op != token.AND || !strings.HasSuffix(c18Sel(be.X), "Header.Flags") {
			return true
		}
		mask = p.evalVal(be.Y)
		var cs []Val
		for _, st := range sw.Body.List {
			cc := st.(*ast.CaseClause)
			var consts []Val
			for _, e := range cc.List {
				consts = append(consts, p.evalVal(e))
			}
			h := uint64(9)
			if len(cc.Body) == 1 {
				switch b := cc.Body[0].(type) {
				case *ast.ExprStmt:
					if call, ok := b.X.(*ast.CallExpr); ok {
						if sel, ok := call.Fun.(*ast.SelectorExpr); ok {
							if idx, ok := c18HandlerIdx[sel.Sel.Name]; ok && len(call.Args) == 2 {
								h = idx
							}
						}
					}
				case *ast.AssignStmt:
					if b.Tok == token.OR_ASSIGN && len(b.Lhs) == 1 && strings.HasSuffix(c18Sel(b.Lhs[0]), "Header.Flags") && c18Sel(b.Rhs[0]) == "RcodeNotImpl" {
						h = 4
					}
				}
			}
			if cc.List == nil {
				consts = []Val{S("default")}
			}
			cs = append(cs, L(L(consts...), U(h)))
		}
		cases = L(cs...)
		return false
	})
	return
}

// guardFact finds `if <x>.Header.Flags & MASK != C { return ... }` (DefendName, HandleRedirect): (mask const).
func (p *c18Pkg) guardFact(fd *ast.FuncDecl) Val {
	out := VErr()
	if fd == nil {
		return out
	}
	ast.Inspect(fd.Body, func(n ast.Node) bool {
		ifs, ok := n.(*ast.IfStmt)
		if !ok {
			return true
		}
		ne, ok := ifs.Cond.(*ast.BinaryExpr)
		if !ok || ne.Op != token.NEQ {
			return true
		}
		be, ok := ne.X.(*ast.BinaryExpr)
		if !ok || be.Op != token.AND || !strings.HasSuffix(c18Sel(be.X), "Header.Flags") {
			return true
		}
		if len(ifs.Body.List) != 1 {
			return true
		}
		if _, ok := ifs.Body.List[0].(*ast.ReturnStmt); !ok {
			return true
		}
		out = L(p.evalVal(be.Y), p.evalVal(ne.Y))
		return false
	})
	return out
}

// goArgFact looks at the serve loop: the buffer handed to ReadFromUDP and the first argument of
// `go <recv>.<callee>(arg, ...)`.
//
//	1  the argument is a fresh slice filled by copy(arg, buf[:n]) / append([]byte(nil), buf[:n]...) / bytes.Clone
//	0  the argument is the receive buffer itself (buf or buf[:n])
//	2  anything else
func (p *c18Pkg) goArgFact(fd *ast.FuncDecl, callee string, argIdx int) Val {
	if fd == nil {
		return VErr()
	}
	bufName := ""
	ast.Inspect(fd.Body, func(n ast.Node) bool {
		if call, ok := n.(*ast.CallExpr); ok {
			if sel, ok := call.Fun.(*ast.SelectorExpr); ok && sel.Sel.Name == "ReadFromUDP" && len(call.Args) == 1 {
				if id, ok := call.Args[0].(*ast.Ident); ok {
					bufName = id.Name
				}
			}
		}
		return true
	})
	if bufName == "" {
		return VErr()
	}
	refersToBuf := func(e ast.Expr) bool {
		found := false
		ast.Inspect(e, func(n ast.Node) bool {
			if id, ok := n.(*ast.Ident); ok && id.Name == bufName {
				found = true
			}
			return true
		})
		return found
	}
	isCloneCall := func(e ast.Expr) bool {
		call, ok := e.(*ast.CallExpr)
		if !ok {
			return false
		}
		switch c18Sel(call.Fun) {
		case "bytes.Clone", "slices.Clone":
			return true
		case "append":
			if len(call.Args) == 2 && call.Ellipsis.IsValid() && !refersToBuf(call.Args[0]) {
				return true
			}
		}
		return false
	}
	// fresh[name] = the name is assigned make(...) or a clone inside the loop; copied[name] = copy(name, buf...) seen
	fresh := map[string]bool{}
	copied := map[string]bool{}
	decoded := map[string]bool{}
	ast.Inspect(fd.Body, func(n ast.Node) bool {
		switch x := n.(type) {
		case *ast.AssignStmt:
			if len(x.Rhs) == 1 {
				if id, ok := x.Lhs[0].(*ast.Ident); ok {
					if call, ok := x.Rhs[0].(*ast.CallExpr); ok {
						if c18Sel(call.Fun) == "make" && id.Name != bufName {
							fresh[id.Name] = true
						}
						if isCloneCall(call) && id.Name != bufName {
							fresh[id.Name] = true
							copied[id.Name] = true
						}
						if c18Sel(call.Fun) == "DecodeMessage" {
							decoded[id.Name] = true
						}
					}
				}
			}
		case *ast.ExprStmt:
			if call, ok := x.X.(*ast.CallExpr); ok && c18Sel(call.Fun) == "copy" && len(call.Args) == 2 {
				if id, ok := call.Args[0].(*ast.Ident); ok && refersToBuf(call.Args[1]) {
					copied[id.Name] = true
				}
			}
		}
		return true
	})
	res := VErr()
	ast.Inspect(fd.Body, func(n ast.Node) bool {
		gs, ok := n.(*ast.GoStmt)
		if !ok {
			return true
		}
		sel, ok := gs.Call.Fun.(*ast.SelectorExpr)
		if !ok || sel.Sel.Name != callee || len(gs.Call.Args) <= argIdx {
			return true
		}
		arg := gs.Call.Args[argIdx]
		switch {
		case refersToBuf(arg):
			res = U(0)
		case isCloneCall(arg):
			res = U(1)
		default:
			if id, ok := arg.(*ast.Ident); ok && ((fresh[id.Name] && copied[id.Name]) || decoded[id.Name]) {
				res = U(1)
			} else {
				res = U(2)
			}
		}
		return false
	})
	return res
}

// respQuestionsFact inspects the response header literal NBTNSHeader{...} in the handler:
// 0 = no Questions field (or the literal 0), 1 = copied from the request, 2 = anything else.
func (p *c18Pkg) respQuestionsFact(fd *ast.FuncDecl) Val {
	if fd == nil {
		return VErr()
	}
	res := VErr()
	ast.Inspect(fd.Body, func(n ast.Node) bool {
		cl, ok := n.(*ast.CompositeLit)
		if !ok || c18Sel(cl.Type) != "NBTNSHeader" {
			return true
		}
		res = U(0)
		for _, el := range cl.Elts {
			kv, ok := el.(*ast.KeyValueExpr)
			if !ok {
				res = U(2)
				continue
			}
			switch c18Sel(kv.Key) {
			case "Questions":
				if strings.HasSuffix(c18Sel(kv.Value), "Header.Questions") {
					res = U(1)
				} else if v := p.evalVal(kv.Value); v.K == 'n' && v.Uint() == 0 {
					// explicit zero
				} else {
					res = U(2)
				}
			case "TransactionID":
				if !strings.HasSuffix(c18Sel(kv.Value), "Header.TransactionID") {
					res = U(3)
				}
			}
		}
		return false
	})
	return res
}

// demuxKeyFact: in the LLMNR client the channel map is written with Store(<x>.ID, ...) in Query and read
// with Load(<y>.ID) in readLoop: 1 when both keys are the message id, 0 otherwise.
func (p *c18Pkg) demuxKeyFact() Val {
	ok1, ok2 := false, false
	check := func(fd *ast.FuncDecl, method string, out *bool) {
		if fd == nil {
			return
		}
		ast.Inspect(fd.Body, func(n ast.Node) bool {
			if call, ok := n.(*ast.CallExpr); ok {
				if sel, ok := call.Fun.(*ast.SelectorExpr); ok && sel.Sel.Name == method && strings.HasSuffix(c18Sel(sel.X), "Queries") && len(call.Args) >= 1 {
					if strings.HasSuffix(c18Sel(call.Args[0]), ".ID") {
						*out = true
					}
				}
			}
			return true
		})
	}
	check(p.funcDecl("client.go", "Client", "Query"), "Store", &ok1)
	check(p.funcDecl("client.go", "Client", "readLoop"), "Load", &ok2)
	return Bool(ok1 && ok2)
}

type c18Fact struct {
	name string
	get  func() Val
}

func c18Facts() []c18Fact {
	var nb, ll *c18Pkg
	nbp := func() *c18Pkg {
		if nb == nil {
			nb = c18Load("network/netbios/nbtns")
		}
		return nb
	}
	llp := func() *c18Pkg {
		if ll == nil {
			ll = c18Load("network/llmnr")
		}
		return ll
	}
	type site struct{ file, recv, fn string }
	sites := []site{{"server.go", "Server", "handlePacket"}, {"udp_server.go", "UDPServer", "handlePacket"}, {"tcp_server.go", "TCPServer", "handleMessage"}}
	var fs []c18Fact
	for _, s := range sites {
		s := s
		tag := strings.TrimSuffix(s.file, ".go")
		fs = append(fs,
			c18Fact{"c18.fact.dispatch_mask." + tag, func() Val { m, _ := nbp().switchFacts(nbp().funcDecl(s.file, s.recv, s.fn)); return m }},
			c18Fact{"c18.fact.dispatch_cases." + tag, func() Val { _, c := nbp().switchFacts(nbp().funcDecl(s.file, s.recv, s.fn)); return c }},
			c18Fact{"c18.fact.resp_header." + tag, func() Val { return nbp().respQuestionsFact(nbp().funcDecl(s.file, s.recv, s.fn)) }},
		)
	}
	fs = append(fs,
		c18Fact{"c18.fact.handler_arg.server", func() Val { return nbp().goArgFact(nbp().funcDecl("server.go", "Server", "serve"), "handlePacket", 0) }},
		c18Fact{"c18.fact.handler_arg.udp_server", func() Val {
			return nbp().goArgFact(nbp().funcDecl("udp_server.go", "UDPServer", "serve"), "handlePacket", 0)
		}},
		c18Fact{"c18.fact.query_guard.challenge", func() Val { return nbp().guardFact(nbp().funcDecl("challenge.go", "NameChallenger", "DefendName")) }},
		c18Fact{"c18.fact.query_guard.redirect", func() Val { return nbp().guardFact(nbp().funcDecl("redirect.go", "RedirectManager", "HandleRedirect")) }},
		c18Fact{"c18.fact.handler_arg.llmnr_server", func() Val {
			return llp().goArgFact(llp().funcDecl("server.go", "Server", "Serve"), "processHandlers", 3)
		}},
		c18Fact{"c18.fact.demux_key.llmnr_client", func() Val { return llp().demuxKeyFact() }},
	)
	sort.SliceStable(fs, func(i, j int) bool { return fs[i].name < fs[j].name })
	return fs
}

func registerC18Facts() {
	for _, f := range c18Facts() {
		f := f
		Impl(f.name, func(a []Val) Val { return f.get() })
	}
}
