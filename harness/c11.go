//go:build c11 || allprops

package main

// C11 — the NetBIOS session transport (network/netbios/nbt) preserves message boundaries and
// never yields a partial frame.  The real Send/Receive are driven over an in-memory net.Conn
// (hook nbt.NewNBTTransportWithConn): a scripted connection gives exact control over how the byte
// stream is segmented and where it is cut; a net.Pipe variant does the same over a real net.Conn.

import (
	"bytes"
	"fmt"
	"io"
	"net"
	"time"

	"github.com/TheManticoreProject/Manticore/network/netbios"
	"github.com/TheManticoreProject/Manticore/network/netbios/nbt"
	"github.com/TheManticoreProject/Manticore/network/smb/smb_v10/transport"
)

const c11MaxLen = 0x1FFFF // RFC 1002 4.3.1: 17-bit length (E bit of FLAGS + 16-bit LENGTH)

// ---------------------------------------------------------------- scripted connection

// c11Conn delivers the scripted inbound segments one Read at a time (a Read never crosses a
// segment boundary, a segment larger than the caller's buffer is delivered in pieces, an empty
// segment is a Read returning (0, nil)), then reports io.EOF for ever.  Writes are captured.
type c11Conn struct {
	segs   [][]byte
	out    []byte
	writes int
}

func (c *c11Conn) Read(p []byte) (int, error) {
	if len(c.segs) == 0 {
		return 0, io.EOF
	}
	n := copy(p, c.segs[0])
	if n < len(c.segs[0]) {
		c.segs[0] = c.segs[0][n:]
	} else {
		c.segs = c.segs[1:]
	}
	return n, nil
}
func (c *c11Conn) Write(p []byte) (int, error) {
	c.out = append(c.out, p...)
	c.writes++
	return len(p), nil
}
func (c *c11Conn) rest() []byte {
	var r []byte
	for _, s := range c.segs {
		r = append(r, s...)
	}
	return r
}
func (c *c11Conn) Close() error                       { return nil }
func (c *c11Conn) LocalAddr() net.Addr                { return c11Addr{} }
func (c *c11Conn) RemoteAddr() net.Addr               { return c11Addr{} }
func (c *c11Conn) SetDeadline(t time.Time) error      { return nil }
func (c *c11Conn) SetReadDeadline(t time.Time) error  { return nil }
func (c *c11Conn) SetWriteDeadline(t time.Time) error { return nil }

type c11Addr struct{}

func (c11Addr) Network() string { return "script" }
func (c11Addr) String() string  { return "script" }

// every transport used below is held through the interface of smb_v10/transport, as the SMB client does
func c11Transport(conn net.Conn) transport.Transport {
	if conn == nil {
		return nbt.NewNBTTransportWithConn(nil)
	}
	return nbt.NewNBTTransportWithConn(conn)
}

// c11Send runs the real Send once and returns what reached the wire.
func c11Send(connected bool, payload []byte) (wire []byte, n int, writes int, err error) {
	conn := &c11Conn{}
	var t transport.Transport
	if connected {
		t = c11Transport(conn)
	} else {
		t = c11Transport(nil)
	}
	n, err = t.Send(payload)
	return conn.out, n, conn.writes, err
}

type c11Res struct {
	ok  bool
	msg []byte
}

func c11CopySegs(segs [][]byte) [][]byte {
	out := make([][]byte, len(segs))
	for i, s := range segs {
		out[i] = exact(s)
	}
	return out
}

// c11RecvScript runs the real Receive n times over the scripted stream.
func c11RecvScript(connected bool, segs [][]byte, n int) (res []c11Res, rest []byte) {
	conn := &c11Conn{segs: c11CopySegs(segs)}
	var t transport.Transport
	if connected {
		t = c11Transport(conn)
	} else {
		t = c11Transport(nil)
	}
	for i := 0; i < n; i++ {
		m, err := t.Receive()
		if err != nil {
			res = append(res, c11Res{false, nil})
		} else {
			res = append(res, c11Res{true, m})
		}
	}
	return res, conn.rest()
}

// c11RecvPipe does the same over a real net.Conn (net.Pipe): a peer goroutine writes the
// segments one Write each and then closes its end.
func c11RecvPipe(segs [][]byte, n int) (res []c11Res, hung bool) {
	a, b := net.Pipe()
	segs = c11CopySegs(segs)
	go func() {
		for _, s := range segs {
			if len(s) == 0 {
				continue
			}
			if _, err := a.Write(s); err != nil {
				break
			}
		}
		a.Close()
	}()
	t := c11Transport(b)
	done := make(chan struct{})
	go func() {
		defer close(done)
		for i := 0; i < n; i++ {
			m, err := t.Receive()
			if err != nil {
				res = append(res, c11Res{false, nil})
			} else {
				res = append(res, c11Res{true, m})
			}
		}
	}()
	select {
	case <-done:
	case <-time.After(20 * time.Second):
		hung = true
	}
	b.Close()
	a.Close()
	if hung {
		return nil, true
	}
	return res, false
}

// ---------------------------------------------------------------- references written from RFC 1002 4.3.1

// rfcFrame: TYPE = 0x00 (SESSION MESSAGE), FLAGS = E (bit 0, the length extension = bit 16 of the
// length, all other bits zero), LENGTH = low 16 bits, big endian; then the payload.
func rfcFrame(p []byte) []byte {
	l := len(p)
	out := []byte{0x00, byte(l>>16) & 1, byte(l >> 8), byte(l)}
	return append(out, p...)
}

// payload descriptions: either literal bytes, or (len fill) for a patterned payload (keeps
// replay files of the 64 KiB / 128 KiB boundary cases small).
func c11Pattern(n int, fill byte) []byte {
	b := make([]byte, n)
	for i := range b {
		b[i] = fill + byte(i*131) + byte(i>>8)
	}
	return b
}

func c11Payload(v Val) []byte {
	if v.K == 'l' {
		return c11Pattern(int(v.L[0].Int()), byte(v.L[1].Int()))
	}
	return v.B
}

// c11Segment cuts w into consecutive segments with the given sizes (cycled; a size 0 yields an
// empty segment; an empty size list yields one segment).
func c11Segment(w []byte, sizes []int) [][]byte {
	var segs [][]byte
	allZero := true
	for _, s := range sizes {
		if s > 0 {
			allZero = false
		}
	}
	if allZero {
		if len(w) > 0 {
			return [][]byte{w}
		}
		return nil
	}
	i := 0
	for len(w) > 0 {
		s := sizes[i%len(sizes)]
		i++
		if s > len(w) {
			s = len(w)
		}
		segs = append(segs, w[:s])
		w = w[s:]
	}
	return segs
}

func c11Sizes(v Val) []int {
	var out []int
	for _, e := range v.L {
		out = append(out, int(e.Int()))
	}
	return out
}

func c11SegVals(segs [][]byte) Val {
	vs := make([]Val, len(segs))
	for i, s := range segs {
		vs[i] = B(s)
	}
	return L(vs...)
}

func c11ResVals(res []c11Res) Val {
	vs := make([]Val, len(res))
	for i, r := range res {
		if r.ok {
			vs[i] = B(r.msg)
		} else {
			vs[i] = VErr()
		}
	}
	return L(vs...)
}

func c11Short(b []byte) string {
	if len(b) <= 24 {
		return fmt.Sprintf("%x", b)
	}
	return fmt.Sprintf("%x..(%d bytes)", b[:24], len(b))
}

// c11SendAll frames the payloads with the real Send; ok=false if a Send failed.
func c11SendAll(ps [][]byte) (wire []byte, ok bool, why string) {
	for i, p := range ps {
		w, _, _, err := c11Send(true, p)
		if err != nil {
			return nil, false, fmt.Sprintf("Send of payload %d (%d bytes) failed: %v", i, len(p), err)
		}
		wire = append(wire, w...)
	}
	return wire, true, ""
}

// c11Judge compares what n Receives returned with the expectation "exactly want, in order, then
// errors" and classifies a deviation narrowly.  all is the full list of payloads that were sent.
func c11Judge(prefix string, res []c11Res, want [][]byte, all [][]byte) (string, string) {
	big := false
	for _, p := range all {
		if len(p) >= 0x10000 {
			big = true
		}
	}
	suffix := ""
	if big {
		suffix = "/len-ge-65536"
	}
	for i, r := range res {
		if i < len(want) {
			if !r.ok {
				return prefix + "/missing" + suffix, fmt.Sprintf("receive %d: error, want the %d-byte payload %s", i, len(want[i]), c11Short(want[i]))
			}
			if !bytes.Equal(r.msg, want[i]) {
				return prefix + "/wrong-message" + suffix, fmt.Sprintf("receive %d: got %d bytes %s, want %d bytes %s", i, len(r.msg), c11Short(r.msg), len(want[i]), c11Short(want[i]))
			}
			continue
		}
		if r.ok {
			// a message that was never completely delivered
			if i < len(all) && len(r.msg) < len(all[i]) && bytes.Equal(r.msg, all[i][:len(r.msg)]) {
				return prefix + "/partial" + suffix, fmt.Sprintf("receive %d: returned %d-byte prefix of a %d-byte payload as a message", i, len(r.msg), len(all[i]))
			}
			return prefix + "/fabricated" + suffix, fmt.Sprintf("receive %d: returned a %d-byte message %s after the last complete frame", i, len(r.msg), c11Short(r.msg))
		}
	}
	return "", ""
}

func init() {
	// ------------------------------------------------------------ implementation entry points
	// (connected, payload) -> (wire, returned count) | E
	Impl("nbt.send", func(a []Val) Val {
		w, n, _, err := c11Send(a[0].Int() != 0, exact(a[1].B))
		if err != nil {
			return VErr()
		}
		return L(B(w), I(int64(n)))
	})
	// (connected, len, fill) -> (header, returned count, payload-follows-unchanged) | E ; payload = fill^len
	Impl("nbt.send_fill", func(a []Val) Val {
		p := bytes.Repeat([]byte{byte(a[2].Int())}, int(a[1].Int()))
		w, n, _, err := c11Send(a[0].Int() != 0, p)
		if err != nil {
			return VErr()
		}
		if len(w) < 4 {
			return L(B(w), I(int64(n)), Bool(false))
		}
		return L(B(w[:4]), I(int64(n)), Bool(bytes.Equal(w[4:], p)))
	})
	// (connected, (segments...), n) -> ((result...), unread bytes) ; result = message | E
	Impl("nbt.recv", func(a []Val) Val {
		var segs [][]byte
		for _, s := range a[1].L {
			segs = append(segs, s.B)
		}
		res, rest := c11RecvScript(a[0].Int() != 0, segs, int(a[2].Int()))
		return L(c11ResVals(res), B(rest))
	})
	// (connected) -> IsConnected
	Impl("nbt.is_connected", func(a []Val) Val {
		if a[0].Int() != 0 {
			return Bool(c11Transport(&c11Conn{}).IsConnected())
		}
		return Bool(nbt.NewNBTTransport().IsConnected())
	})
	// (name) -> 1 if transport.NewTransport(name) yields a transport (not connected), 0 if nil
	Impl("transport.new", func(a []Val) Val {
		t := transport.NewTransport(a[0].Str())
		if t == nil {
			return I(0)
		}
		if t.IsConnected() {
			return I(2)
		}
		if _, err := t.Send([]byte{1}); err == nil {
			return I(3)
		}
		if _, err := t.Receive(); err == nil {
			return I(4)
		}
		return I(1)
	})
	Impl("netbios.session_message", func(a []Val) Val { return I(int64(netbios.SESSION_MESSAGE)) })

	// ------------------------------------------------------------ oracles
	// C11_frame: (payload) — every payload of 0..131071 bytes is framed per RFC 1002 4.3.1 in one
	// Write; longer ones are refused and nothing is written.
	Oracle("c11.frame", func(a []Val) (string, string) {
		p := c11Payload(a[0])
		w, _, writes, err := c11Send(true, exact(p))
		if len(p) > c11MaxLen {
			if err == nil || len(w) != 0 {
				return "C11/frame/oversize-not-refused", fmt.Sprintf("Send of %d bytes (> 131071): err=%v, wrote %s", len(p), err, c11Short(w))
			}
			return "", ""
		}
		if err != nil {
			return "C11/frame/refused", fmt.Sprintf("Send of %d bytes failed: %v", len(p), err)
		}
		want := rfcFrame(p)
		if len(w) < 4 || !bytes.Equal(w[:4], want[:4]) {
			if len(p) >= 0x10000 {
				return "C11/frame/length-bit16", fmt.Sprintf("Send of %d bytes wrote header %s, RFC 1002 header is %x", len(p), c11Short(w[:min(4, len(w))]), want[:4])
			}
			return "C11/frame/header", fmt.Sprintf("Send of %d bytes wrote header %s, RFC 1002 header is %x", len(p), c11Short(w[:min(4, len(w))]), want[:4])
		}
		if !bytes.Equal(w[4:], p) {
			return "C11/frame/payload", fmt.Sprintf("Send of %d bytes: bytes after the header differ from the payload (%d bytes follow)", len(p), len(w)-4)
		}
		if writes != 1 {
			return "C11/frame/split-write", fmt.Sprintf("Send of %d bytes used %d Write calls", len(p), writes)
		}
		return "", ""
	})
	// C11_boundaries: (payloads, segment sizes, mode, extra receives) — payloads sent with the real
	// Send, the concatenated wire bytes re-segmented, the real Receive returns exactly the payloads
	// and then errors.  mode 0: scripted conn; mode 1: net.Pipe.
	Oracle("c11.boundaries", func(a []Val) (string, string) {
		var ps [][]byte
		for _, v := range a[0].L {
			ps = append(ps, c11Payload(v))
		}
		wire, ok, why := c11SendAll(ps)
		if !ok {
			return "C11/boundaries/send-failed", why
		}
		segs := c11Segment(wire, c11Sizes(a[1]))
		n := len(ps) + int(a[3].Int())
		var res []c11Res
		if a[2].Int() == 1 {
			var hung bool
			res, hung = c11RecvPipe(segs, n)
			if hung {
				return "C11/boundaries/hang", "Receive did not return within 20 s although the peer closed the connection"
			}
		} else {
			res, _ = c11RecvScript(true, segs, n)
		}
		return c11Judge("C11/boundaries", res, ps, ps)
	})
	// C11_cut: (payloads, k, segment sizes, mode) — only the first k wire bytes arrive, then the
	// connection ends: Receive returns the payloads whose frames lie wholly inside those k bytes,
	// then only errors.
	Oracle("c11.cut", func(a []Val) (string, string) {
		var ps [][]byte
		for _, v := range a[0].L {
			ps = append(ps, c11Payload(v))
		}
		wire, ok, why := c11SendAll(ps)
		if !ok {
			return "C11/cut/send-failed", why
		}
		k := int(a[1].Int())
		if k > len(wire) {
			k = len(wire)
		}
		// whole frames inside k bytes, from the payload lengths alone
		var want [][]byte
		off := 0
		for _, p := range ps {
			if off+4+len(p) > k {
				break
			}
			off += 4 + len(p)
			want = append(want, p)
		}
		segs := c11Segment(wire[:k], c11Sizes(a[2]))
		n := len(ps) + 2
		var res []c11Res
		if a[3].Int() == 1 {
			var hung bool
			res, hung = c11RecvPipe(segs, n)
			if hung {
				return "C11/cut/hang", "Receive did not return within 20 s although the peer closed the connection"
			}
		} else {
			res, _ = c11RecvScript(true, segs, n)
		}
		return c11Judge("C11/cut", res, want, ps)
	})
	// Only SESSION MESSAGE packets carry user data: (header+body bytes, segment sizes) with a
	// first byte != 0 — the first Receive must not hand anything to the caller as a message.
	Oracle("c11.foreign", func(a []Val) (string, string) {
		w := a[0].B
		if len(w) < 4 || w[0] == 0 {
			return "", ""
		}
		res, _ := c11RecvScript(true, c11Segment(w, c11Sizes(a[1])), 1)
		if len(res) != 1 || res[0].ok {
			return "C11/foreign-type-as-message", fmt.Sprintf("a packet of type 0x%02x was returned as a %d-byte message", w[0], len(res[0].msg))
		}
		return "", ""
	})
	// totality observations (reused by C07): arbitrary inbound streams never make Receive panic,
	// hang or return a message longer than the 17-bit length allows / than the bytes that arrived.
	Oracle("c11.total.receive", func(a []Val) (string, string) {
		var segs [][]byte
		total := 0
		for _, s := range a[0].L {
			segs = append(segs, s.B)
			total += len(s.B)
		}
		n := int(a[1].Int())
		var res []c11Res
		panicked, timedOut, _, pv := Guarded(20*time.Second, func() { res, _ = c11RecvScript(true, segs, n) })
		if panicked {
			return "C11/total/receive-panic", fmt.Sprintf("Receive panicked: %v", pv)
		}
		if timedOut {
			return "C11/total/receive-hang", "Receive did not return on a finite stream followed by EOF"
		}
		got := 0
		for _, r := range res {
			if r.ok {
				got += 4 + len(r.msg)
				if len(r.msg) > c11MaxLen {
					return "C11/total/receive-oversize", fmt.Sprintf("Receive returned %d bytes", len(r.msg))
				}
			}
		}
		if got > total {
			return "C11/total/receive-fabricated", fmt.Sprintf("Receive returned %d bytes of frames from a %d-byte stream", got, total)
		}
		return "", ""
	})
	Oracle("c11.total.send", func(a []Val) (string, string) {
		p := c11Payload(a[0])
		panicked, timedOut, _, pv := Guarded(20*time.Second, func() {
			c11Send(true, p)
			c11Send(false, p)
		})
		if panicked {
			return "C11/total/send-panic", fmt.Sprintf("Send panicked: %v", pv)
		}
		if timedOut {
			return "C11/total/send-hang", "Send did not return"
		}
		return "", ""
	})
	Gen("C11", genC11)
}

// all compositions of n (ordered lists of positive parts summing to n)
func c11Compositions(n int) [][]int {
	if n == 0 {
		return [][]int{{}}
	}
	var out [][]int
	for mask := 0; mask < 1<<(n-1); mask++ {
		var parts []int
		cur := 1
		for i := 0; i < n-1; i++ {
			if mask>>i&1 == 1 {
				parts = append(parts, cur)
				cur = 1
			} else {
				cur++
			}
		}
		parts = append(parts, cur)
		out = append(out, parts)
	}
	return out
}

func c11IntVals(xs []int) Val {
	vs := make([]Val, len(xs))
	for i, x := range xs {
		vs[i] = I(int64(x))
	}
	return L(vs...)
}

func c11CutBySizes(w []byte, parts []int) [][]byte {
	var segs [][]byte
	for _, s := range parts {
		segs = append(segs, w[:s])
		w = w[s:]
	}
	return segs
}

func genC11(c *Ctx) {
	r := c.Rng
	recvCase := func(segs [][]byte, n int) {
		c.Case("nbt.recv", I(1), c11SegVals(segs), I(int64(n)))
		c.Check("c11.total.receive", c11SegVals(segs), I(int64(n)))
	}
	randSizes := func() []int {
		k := 1 + r.Intn(4)
		out := make([]int, k)
		for i := range out {
			out[i] = r.Pick(0, 1, 1, 2, 3, 4, 5, 7, 8, 64, 1000)
		}
		return out
	}
	pl := func(ps [][]byte) Val {
		vs := make([]Val, len(ps))
		for i, p := range ps {
			vs[i] = B(p)
		}
		return L(vs...)
	}

	// ---- constants and plumbing
	c.Case("netbios.session_message")
	c.Case("nbt.is_connected", I(0))
	c.Case("nbt.is_connected", I(1))
	for _, s := range []string{"nbt", "NBT", "Nbt", "nBt", "", "tcp", "nbt ", " nbt", "nbtx", "nb", "direct", "NBF", "nbt\x00"} {
		c.Case("transport.new", S(s))
	}
	for i := 0; i < c.N(40, 400); i++ {
		c.Case("transport.new", S(r.StringOver("nbtNBT x", r.Intn(5))))
	}

	// ---- Send: header construction
	// every length 0..700, and the neighbourhoods of every byte/bit boundary of the length field
	var lens []int
	for l := 0; l <= 700; l++ {
		lens = append(lens, l)
	}
	for _, b := range []int{0x7FFF, 0x8000, 0xFFFF, 0x10000, 0x100FF, 0x17FFF, 0x18000, 0x1FF00, 0x1FFFF, 0x20000, 0x2FFFF, 0x30000, 0x100000} {
		for d := -3; d <= 3; d++ {
			lens = append(lens, b+d)
		}
	}
	for i := 0; i < c.N(40, 600); i++ {
		lens = append(lens, r.Intn(0x20100))
	}
	// far beyond the limit: every power of two up to 2^26 and its neighbours, and lengths whose bits 17..23 are
	// clear (a length check done on a truncated copy of the length would let these through); Go side only
	for k := 18; k <= 26; k++ {
		for _, d := range []int{-1, 0, 1, 5, 0x12345} {
			c.Check("c11.frame", L(I(int64(1<<uint(k)+d)), I(int64(k))))
		}
	}
	for _, l := range lens {
		fill := r.Byte()
		c.Check("c11.frame", L(I(int64(l)), I(int64(fill))))
		c.Case("nbt.send_fill", I(1), I(int64(l)), I(int64(fill)))
	}
	// Go-side sweep of the whole length range (stride 1 in the thorough tier)
	stride := c.N(61, 1)
	for l := 0; l <= 0x20040; l += stride {
		c.Check("c11.frame", L(I(int64(l)), I(int64(l&0xff))))
	}
	for l := 0; l <= 40; l++ {
		p := r.Bytes(l)
		c.Case("nbt.send", I(1), B(p))
		c.Case("nbt.send", I(0), B(p))
		c.Check("c11.frame", B(p))
		c.Check("c11.total.send", B(p))
	}
	c.Case("nbt.send_fill", I(0), I(0x10000), I(7))
	c.Case("nbt.recv", I(0), c11SegVals([][]byte{{0, 0, 0, 1, 9}}), I(2))
	c.Check("c11.total.send", L(I(0x20000), I(1)))
	c.Check("c11.total.send", L(I(0x1FFFF), I(1)))

	// ---- tiny streams: EVERY segmentation (all compositions) of every cut prefix
	for l := 0; l <= 3; l++ {
		p := r.Bytes(l)
		w := rfcFrame(p)
		for k := 0; k <= len(w); k++ {
			for _, parts := range c11Compositions(k) {
				c.Check("c11.cut", pl([][]byte{p}), I(int64(k)), c11IntVals(parts), I(0))
				recvCase(c11CutBySizes(w[:k], parts), 2)
			}
		}
	}
	for la := 0; la <= 1; la++ {
		for lb := 0; lb <= 1; lb++ {
			ps := [][]byte{r.Bytes(la), r.Bytes(lb)}
			w := cat(rfcFrame(ps[0]), rfcFrame(ps[1]))
			for _, parts := range c11Compositions(len(w)) {
				c.Check("c11.boundaries", pl(ps), c11IntVals(parts), I(0), I(2))
				recvCase(c11CutBySizes(w, parts), 3)
			}
		}
	}

	// ---- every frame of 0..300 payload bytes, cut after EVERY offset, three segmentations
	caseLens := map[int]bool{}
	for _, l := range []int{0, 1, 2, 3, 4, 5, 7, 8, 15, 16, 17, 31, 32, 33, 63, 64, 65, 100, 127, 128, 129, 200, 255, 256, 257, 299, 300} {
		caseLens[l] = true
	}
	for l := 0; l <= 300; l++ {
		p := r.Bytes(l)
		w := rfcFrame(p)
		for k := 0; k <= len(w); k++ {
			c.Check("c11.cut", pl([][]byte{p}), I(int64(k)), L(), I(0))
			c.Check("c11.cut", pl([][]byte{p}), I(int64(k)), L(I(1)), I(0))
			sz := randSizes()
			c.Check("c11.cut", pl([][]byte{p}), I(int64(k)), c11IntVals(sz), I(0))
			if caseLens[l] || c.Tier == "thorough" {
				recvCase(c11Segment(w[:k], sz), 2)
			}
		}
		if l%25 == 0 {
			// the same over a real net.Conn, a few cut points
			for _, k := range []int{0, 1, 3, 4, 5, len(w) - 1, len(w)} {
				if k >= 0 && k <= len(w) {
					c.Check("c11.cut", pl([][]byte{p}), I(int64(k)), c11IntVals(randSizes()), I(1))
				}
			}
		}
	}

	// ---- sequences of frames, random segmentation, with and without a cut
	for rep := 0; rep < c.N(400, 6000); rep++ {
		np := 1 + r.Intn(5)
		var ps [][]byte
		for i := 0; i < np; i++ {
			l := r.Pick(0, 0, 1, 2, 3, 4, 5, 8, 16, 40, 255, 256, 257)
			if r.Intn(8) == 0 {
				l = r.Intn(700)
			}
			ps = append(ps, r.Bytes(l))
		}
		var w []byte
		for _, p := range ps {
			w = append(w, rfcFrame(p)...)
		}
		sz := randSizes()
		mode := int64(0)
		if rep%16 == 0 {
			mode = 1
		}
		c.Check("c11.boundaries", pl(ps), c11IntVals(sz), I(mode), I(2))
		recvCase(c11Segment(w, sz), np+2)
		k := r.Intn(len(w) + 1)
		c.Check("c11.cut", pl(ps), I(int64(k)), c11IntVals(sz), I(mode))
		recvCase(c11Segment(w[:k], sz), np+2)
	}

	// ---- the 16-bit / 17-bit boundaries, once each (scripted and net.Pipe), MSS-sized segments
	for _, l := range []int{0xFFFF, 0x10000, 0x1FFFF} {
		pv := L(L(I(int64(l)), I(int64(r.Byte()))))
		c.Check("c11.boundaries", pv, L(I(1460)), I(0), I(2))
		c.Check("c11.boundaries", pv, L(I(1460)), I(1), I(2))
		c.Check("c11.boundaries", pv, L(), I(0), I(2))
		for _, k := range []int{3, 4, 5, 0x10000, 0x10003, 0x10004, l + 3, l + 4} {
			c.Check("c11.cut", pv, I(int64(k)), L(I(4096)), I(0))
		}
		c.Check("c11.cut", pv, I(int64(l+3)), L(I(4096)), I(1))
		p := c11Pattern(l, r.Byte())
		w := rfcFrame(p)
		recvCase(c11Segment(w, []int{1460}), 2)
		recvCase(c11Segment(w[:len(w)-1], []int{1460}), 2)
	}
	c.Check("c11.boundaries", L(L(I(0xFFFF), I(3)), L(I(0x10000), I(5)), L(I(0), I(0)), L(I(0x1FFFF), I(9)), B([]byte{1, 2, 3})), L(I(1460), I(1), I(70000)), I(0), I(2))
	c.Check("c11.frame", L(I(0x20000), I(1)))
	c.Case("nbt.send_fill", I(1), I(0x20000), I(1))

	// ---- malformed streams (totality + correspondence): foreign packet types, reserved flag
	// bits, lengths beyond the data, truncations and boundary-byte corruptions of valid streams
	types := []byte{0x00, 0x81, 0x82, 0x83, 0x84, 0x85, 0x01, 0x7f, 0x80, 0xff}
	flags := []byte{0x00, 0x01, 0x02, 0x03, 0x80, 0x81, 0xfe, 0xff}
	for _, ty := range types {
		for _, fl := range flags {
			for _, l := range []int{0, 1, 2, 5} {
				body := r.Bytes(l + r.Intn(3))
				hdr := []byte{ty, fl, 0, byte(l)}
				w := cat(hdr, body, rfcFrame([]byte{0xAA, 0xBB}))
				recvCase(c11Segment(w, randSizes()), 3)
				c.Check("c11.foreign", B(w), c11IntVals(randSizes()))
			}
		}
	}
	// E bit set with little data; 17-bit maximum announced with little data
	recvCase([][]byte{{0, 1, 0, 0}, r.Bytes(100)}, 2)
	recvCase([][]byte{{0, 0xff, 0xff, 0xff}, r.Bytes(100)}, 2)
	recvCase([][]byte{{0, 0, 0xff, 0xff}, r.Bytes(100)}, 2)
	recvCase([][]byte{{0, 1, 0, 0}, c11Pattern(0x10000, 1), {0, 0, 0, 1, 0x55}}, 3)
	recvCase([][]byte{{0, 0xfe, 0, 2}, {1, 2, 0, 0, 0, 0}}, 3)
	for rep := 0; rep < c.N(12, 120); rep++ {
		np := 1 + r.Intn(3)
		var w []byte
		for i := 0; i < np; i++ {
			w = append(w, rfcFrame(r.Bytes(r.Pick(0, 1, 2, 5, 9)))...)
		}
		for _, m := range Malformed(w, 12) {
			recvCase(c11Segment(m, randSizes()), np+1)
		}
	}
	for rep := 0; rep < c.N(300, 5000); rep++ {
		n := r.Intn(40)
		b := r.Bytes(n)
		// bias towards plausible headers
		for i := 0; i+3 < n; i += 4 + r.Intn(6) {
			if r.Intn(3) != 0 {
				b[i] = 0
				b[i+1] = byte(r.Pick(0, 0, 0, 1, 2, 0xff))
				b[i+2] = 0
				b[i+3] = byte(r.Intn(12))
			}
		}
		recvCase(c11Segment(b, randSizes()), 1+r.Intn(5))
	}
	c.Note("c11", "scripted net.Conn + net.Pipe over hook nbt.NewNBTTransportWithConn; frames 0..300 cut after every offset; all compositions of streams up to 10 bytes; boundary lengths 0xFFFF/0x10000/0x1FFFF/0x20000")
}
