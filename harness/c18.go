//go:build c18 || allprops

package main

// C18 — name-service servers/clients isolate concurrent requests and stop cleanly.
// This file: value conversions, the Impl runners (real code, projected to Val) and the
// registration of oracles/generators.  c18_ast.go reads the dispatch facts from the source,
// c18_run.go holds the loopback (runtime support) oracles, c18_gen.go the generators.

import (
	"encoding/binary"
	"fmt"
	"io"
	"log"
	"net"
	"time"

	"github.com/TheManticoreProject/Manticore/network/netbios/nbtns"
)

func init() {
	log.SetOutput(io.Discard)

	Impl("nbns.session", implNbnsSession)
	Impl("nbns.route", implNbnsRoute)
	Impl("nbns.defend", implNbnsDefend)
	Impl("nbns.redirect", implNbnsRedirect)
	Impl("nbns.udp_finish", implNbnsUDPFinish)
	Impl("nbns.tcp_frame", implNbnsTCPFrame)
	Impl("llmnr.server_roundtrip", implLlmnrServerRoundtrip)
	Impl("llmnr.client_demux", implLlmnrClientDemux)
	registerC18Facts()
	registerC18Oracles()
	Gen("C18", genC18)
}

// ---------------------------------------------------------------- Val <-> packet

func c18Name(name, scope Val) *nbtns.NetBIOSName {
	return &nbtns.NetBIOSName{Name: name.Str(), ScopeID: scope.Str()}
}

func c18Question(v Val) nbtns.NBTNSQuestion {
	return nbtns.NBTNSQuestion{Name: c18Name(v.L[0], v.L[1]), Type: uint16(v.L[2].Uint()), Class: uint16(v.L[3].Uint())}
}

func c18RR(v Val) nbtns.NBTNSResourceRecord {
	return nbtns.NBTNSResourceRecord{Name: c18Name(v.L[0], v.L[1]), Type: uint16(v.L[2].Uint()), Class: uint16(v.L[3].Uint()),
		TTL: uint32(v.L[4].Uint()), RDLength: uint16(v.L[5].Uint()), RData: append([]byte{}, v.L[6].B...)}
}

func c18Packet(v Val) *nbtns.NBTNSPacket {
	p := &nbtns.NBTNSPacket{Header: nbtns.NBTNSHeader{
		TransactionID: uint16(v.L[0].Uint()), Flags: uint16(v.L[1].Uint()), Questions: uint16(v.L[2].Uint()),
		Answers: uint16(v.L[3].Uint()), Authority: uint16(v.L[4].Uint()), Additional: uint16(v.L[5].Uint())}}
	for _, q := range v.L[6].L {
		p.Questions = append(p.Questions, c18Question(q))
	}
	for _, r := range v.L[7].L {
		p.Answers = append(p.Answers, c18RR(r))
	}
	for _, r := range v.L[8].L {
		p.Authority = append(p.Authority, c18RR(r))
	}
	for _, r := range v.L[9].L {
		p.Additional = append(p.Additional, c18RR(r))
	}
	return p
}

func c18NameVals(n *nbtns.NetBIOSName) (Val, Val) {
	if n == nil {
		return S("<nil>"), S("<nil>")
	}
	return S(n.Name), S(n.ScopeID)
}

func c18RRVal(r nbtns.NBTNSResourceRecord) Val {
	n, s := c18NameVals(r.Name)
	return L(n, s, U(uint64(r.Type)), U(uint64(r.Class)), U(uint64(r.TTL)), U(uint64(r.RDLength)), B(r.RData))
}

func c18RRsVal(rs []nbtns.NBTNSResourceRecord) Val {
	var out []Val
	for _, r := range rs {
		out = append(out, c18RRVal(r))
	}
	return L(out...)
}

func c18PacketVal(p *nbtns.NBTNSPacket) Val {
	var qs []Val
	for _, q := range p.Questions {
		n, s := c18NameVals(q.Name)
		qs = append(qs, L(n, s, U(uint64(q.Type)), U(uint64(q.Class))))
	}
	h := p.Header
	return L(U(uint64(h.TransactionID)), U(uint64(h.Flags)), U(uint64(h.Questions)), U(uint64(h.Answers)),
		U(uint64(h.Authority)), U(uint64(h.Additional)), L(qs...), c18RRsVal(p.Answers), c18RRsVal(p.Authority), c18RRsVal(p.Additional))
}

// Builders used by the generators and oracles.
func c18Q(name, scope string, typ, class uint16) Val {
	return L(S(name), S(scope), U(uint64(typ)), U(uint64(class)))
}
func c18R(name, scope string, typ, class uint16, ttl uint32, rdata []byte) Val {
	return L(S(name), S(scope), U(uint64(typ)), U(uint64(class)), U(uint64(ttl)), U(uint64(len(rdata))), B(rdata))
}
func c18P(id, flags uint16, qs []Val, an []Val) Val {
	return L(U(uint64(id)), U(uint64(flags)), U(uint64(len(qs))), U(uint64(len(an))), U(0), U(0), L(qs...), L(an...), L(), L())
}

// c18ResponseVal projects the bytes a server sent: (1 packet) when the package's own parser reads
// them completely, (2 raw) otherwise.
func c18ResponseVal(raw []byte) Val {
	var p nbtns.NBTNSPacket
	dirty(&p)
	n, err := p.Unmarshal(exact(raw))
	if err != nil || n != len(raw) {
		return L(U(2), B(raw))
	}
	return L(U(1), c18PacketVal(&p))
}

// ---------------------------------------------------------------- a server under test

// c18Srv wraps one of the three servers so that a request can be handed to it in several ways.
//
//	kind 0  server.go     Server.handlePacket called synchronously (verif hook), response read from a loopback socket
//	kind 1  udp_server.go UDPServer.handlePacket, same
//	kind 2  tcp_server.go TCPServer.handleMessage called synchronously (verif hook)
//	kind 3  tcp_server.go through a real TCP connection (length-prefixed stream)
//	kind 4  server.go     through the real serve loop (datagram sent to the bound port)
//	kind 5  udp_server.go through the real serve loop
type c18Srv struct {
	kind  int
	table *nbtns.NetBIOSNameServer
	s0    *nbtns.Server
	s1    *nbtns.UDPServer
	s2    *nbtns.TCPServer
	cli   *net.UDPConn
	tcp   net.Conn
	addr  *net.UDPAddr
}

func c18Start(kind int) (*c18Srv, error) {
	s := &c18Srv{kind: kind}
	var err error
	switch kind {
	case 0, 4:
		s.s0, err = nbtns.NewServer("127.0.0.1:0", true)
		if err != nil {
			return nil, err
		}
		if err = s.s0.Start(); err != nil {
			return nil, err
		}
		s.table = s.s0.VerifTable()
		s.addr = s.s0.VerifAddr()
	case 1, 5:
		s.table = nbtns.NewNetBIOSNameServer(true)
		s.s1, err = nbtns.NewUDPServer("127.0.0.1:0", s.table)
		if err != nil {
			return nil, err
		}
		if err = s.s1.Start(); err != nil {
			return nil, err
		}
		s.addr = s.s1.VerifAddr()
	case 2, 3:
		s.table = nbtns.NewNetBIOSNameServer(true)
		s.s2, err = nbtns.NewTCPServer("127.0.0.1:0", s.table)
		if err != nil {
			return nil, err
		}
		if kind == 3 {
			if err = s.s2.Start(); err != nil {
				return nil, err
			}
			s.tcp, err = net.Dial("tcp", s.s2.VerifAddr().String())
			if err != nil {
				s.s2.Stop()
				return nil, err
			}
		}
	default:
		return nil, fmt.Errorf("bad kind")
	}
	if s.addr != nil {
		s.cli, err = net.ListenUDP("udp4", &net.UDPAddr{IP: net.IPv4(127, 0, 0, 1)})
		if err != nil {
			s.Stop()
			return nil, err
		}
	}
	return s, nil
}

func (s *c18Srv) Stop() {
	if s.tcp != nil {
		s.tcp.Close()
	}
	if s.cli != nil {
		s.cli.Close()
	}
	done := make(chan struct{})
	go func() {
		defer func() { recover(); close(done) }()
		switch {
		case s.s0 != nil:
			s.s0.Stop()
		case s.s1 != nil:
			s.s1.Stop()
		case s.s2 != nil && s.kind == 3:
			s.s2.Stop()
		}
	}()
	select {
	case <-done:
	case <-time.After(8 * time.Second): // never wait for ever on a server that does not stop (c18.shutdown reports it)
	}
}

// Exchange hands one request to the server and returns what it sent back (nil: nothing / error).
func (s *c18Srv) Exchange(req []byte) []byte {
	switch s.kind {
	case 2:
		resp, err := s.s2.VerifHandleMessage(exact(req))
		if err != nil {
			return nil
		}
		return resp
	case 3:
		frame := make([]byte, 2, 2+len(req))
		binary.BigEndian.PutUint16(frame, uint16(len(req)))
		s.tcp.SetDeadline(time.Now().Add(2 * time.Second))
		if _, err := s.tcp.Write(append(frame, req...)); err != nil {
			return nil
		}
		var lb [2]byte
		if _, err := io.ReadFull(s.tcp, lb[:]); err != nil {
			return nil
		}
		resp := make([]byte, binary.BigEndian.Uint16(lb[:]))
		if _, err := io.ReadFull(s.tcp, resp); err != nil {
			return nil
		}
		return resp
	}
	wait := 40 * time.Millisecond
	local := s.cli.LocalAddr().(*net.UDPAddr)
	switch s.kind {
	case 0:
		s.s0.VerifHandlePacket(exact(req), local)
	case 1:
		s.s1.VerifHandlePacket(exact(req), local)
	default:
		wait = 500 * time.Millisecond
		if _, err := s.cli.WriteToUDP(req, s.addr); err != nil {
			return nil
		}
	}
	buf := make([]byte, 70000)
	s.cli.SetReadDeadline(time.Now().Add(wait))
	n, _, err := s.cli.ReadFromUDP(buf)
	if err != nil {
		return nil
	}
	return buf[:n]
}

// applyOp runs one session operation and returns its observable result.
func (s *c18Srv) applyOp(op Val) Val {
	switch op.L[0].Uint() {
	case 0:
		req, err := c18Packet(op.L[1]).Marshal()
		if err != nil {
			return L(U(3))
		}
		resp := s.Exchange(req)
		if resp == nil {
			return VErr()
		}
		return c18ResponseVal(resp)
	case 1:
		if err := s.table.RegisterName(op.L[1].Str(), nbtns.NameType(op.L[2].Uint()), net.IP(append([]byte{}, op.L[3].B...)), time.Hour); err != nil {
			return VErr()
		}
		return U(0)
	case 2:
		if err := s.table.MarkNameConflict(op.L[1].Str()); err != nil {
			return VErr()
		}
		return U(0)
	case 3:
		owners, typ, err := s.table.QueryName(op.L[1].Str())
		if err != nil {
			return VErr()
		}
		var os []Val
		for _, o := range owners {
			os = append(os, B(o))
		}
		return L(U(uint64(typ)), L(os...))
	case 4:
		if err := s.table.ReleaseName(op.L[1].Str(), net.IP(op.L[2].B)); err != nil {
			return VErr()
		}
		return U(0)
	case 5:
		if err := s.table.RefreshName(op.L[1].Str(), net.IP(op.L[2].B)); err != nil {
			return VErr()
		}
		return U(0)
	}
	return L(U(9))
}

// nbns.session (kind ops): run the operations against a fresh server, return the list of results.
func implNbnsSession(a []Val) Val {
	s, err := c18Start(int(a[0].Uint()))
	if err != nil {
		return L(U(7), S(err.Error()))
	}
	defer s.Stop()
	var out []Val
	for _, op := range a[1].L {
		out = append(out, s.applyOp(op))
	}
	return L(out...)
}

// The routing probe: name X is registered (unique, owner A).  The request carries flags F, one
// question for X and one answer record (X, A).  Each handler leaves a distinct trace:
//
//	query         one answer, rcode 0               -> 0
//	registration  rcode 7 (X is already registered) -> 1
//	release       rcode 0 and X is gone             -> 2
//	refresh       rcode 0, no answer, X still there -> 3
//	none          rcode 4 (not implemented)         -> 4
//
// anything else -> 5 + details.
var c18ProbeName = "ROUTEPROBE"
var c18ProbeOwner = []byte{0, 0, 10, 1, 2, 3}

func c18RouteProbe(kind int, flags uint16) Val {
	s, err := c18Start(kind)
	if err != nil {
		return L(U(7))
	}
	defer s.Stop()
	s.table.RegisterName(c18ProbeName, nbtns.Unique, net.IP(c18ProbeOwner), time.Hour)
	req := c18P(0x1234, flags, []Val{c18Q(c18ProbeName, "", 0x20, 1)}, []Val{c18R(c18ProbeName, "", 0x20, 1, 300, c18ProbeOwner)})
	raw, err := c18Packet(req).Marshal()
	if err != nil {
		return L(U(8))
	}
	resp := s.Exchange(raw)
	if len(resp) < 12 {
		return L(U(6))
	}
	rflags := binary.BigEndian.Uint16(resp[2:4])
	ancount := binary.BigEndian.Uint16(resp[6:8])
	rcode := rflags & 0xF
	_, _, qerr := s.table.QueryName(c18ProbeName)
	switch {
	case rcode == 0 && ancount == 1 && qerr == nil:
		return U(0)
	case rcode == 7 && ancount == 0 && qerr == nil:
		return U(1)
	case rcode == 0 && ancount == 0 && qerr != nil:
		return U(2)
	case rcode == 0 && ancount == 0 && qerr == nil:
		return U(3)
	case rcode == 4 && ancount == 0 && qerr == nil:
		return U(4)
	}
	return L(U(5), U(uint64(rcode)), U(uint64(ancount)), Bool(qerr == nil))
}

// nbns.route (kind flags)
func implNbnsRoute(a []Val) Val { return c18RouteProbe(int(a[0].Uint()), uint16(a[1].Uint())) }

func c18Table(ops Val) *nbtns.NetBIOSNameServer {
	t := nbtns.NewNetBIOSNameServer(true)
	s := &c18Srv{table: t}
	for _, op := range ops.L {
		s.applyOp(op)
	}
	return t
}

// nbns.defend (ops request response): NameChallenger.DefendName on a table built by ops (API operations only).
func implNbnsDefend(a []Val) Val {
	t := c18Table(a[0])
	c := nbtns.NewNameChallenger(t, nbtns.NewPacketHandler(t))
	resp := c18Packet(a[2])
	c.DefendName(c18Packet(a[1]), resp)
	return c18PacketVal(resp)
}

// nbns.redirect (redirect-ops request response): redirect-ops are (0 scope ip port) add, (1 scope) remove.
func implNbnsRedirect(a []Val) Val {
	m := nbtns.NewRedirectManager()
	for _, op := range a[0].L {
		switch op.L[0].Uint() {
		case 0:
			m.AddRedirect(op.L[1].Str(), net.IP(exact(op.L[2].B)), uint16(op.L[3].Uint()))
		case 1:
			m.RemoveRedirect(op.L[1].Str())
		}
	}
	resp := c18Packet(a[2])
	did := m.HandleRedirect(c18Packet(a[1]), resp)
	return L(Bool(did), c18PacketVal(resp))
}

// nbns.udp_finish (full owners): the datagram UDPServer sends for a query whose complete response
// (the bytes the TCP server returns for the same table and request) is `full`.  The scenario is
// a group name with `owners` 16-byte owners, which makes the response as long as wanted.
func c18BigScenario(owners int) (ops []Val, req Val) {
	for i := 0; i < owners; i++ {
		ip := make([]byte, 16)
		ip[0] = 0xfd
		binary.BigEndian.PutUint16(ip[14:], uint16(i+1))
		ops = append(ops, L(U(1), S("BIGGROUP"), U(1), B(ip)))
	}
	return ops, c18P(0x4242, 0x0000, []Val{c18Q("BIGGROUP", "", 0x20, 1)}, nil)
}

func c18FullResponse(owners int) []byte {
	ops, req := c18BigScenario(owners)
	s, err := c18Start(2)
	if err != nil {
		return nil
	}
	defer s.Stop()
	for _, op := range ops {
		s.applyOp(op)
	}
	raw, _ := c18Packet(req).Marshal()
	return s.Exchange(raw)
}

func c18UDPDatagram(kind, owners int) []byte {
	ops, req := c18BigScenario(owners)
	s, err := c18Start(kind)
	if err != nil {
		return nil
	}
	defer s.Stop()
	for _, op := range ops {
		s.applyOp(op)
	}
	raw, _ := c18Packet(req).Marshal()
	return s.Exchange(raw)
}

func implNbnsUDPFinish(a []Val) Val {
	d := c18UDPDatagram(1, int(a[1].Uint()))
	if d == nil {
		return VErr()
	}
	return B(d)
}

// nbns.tcp_frame (full questions): the bytes the TCP server writes on the connection for a request
// whose complete response is `full` (a query repeating one question `questions` times for a name
// with one 6-byte owner).  Err when the server closes the connection without writing.
func c18TCPBig(questions int) (full []byte, stream []byte) {
	s, err := c18Start(3)
	if err != nil {
		return nil, nil
	}
	defer s.Stop()
	s.table.RegisterName("BIGQ", nbtns.Unique, net.IP([]byte{0, 0, 10, 9, 9, 9}), time.Hour)
	var qs []Val
	for i := 0; i < questions; i++ {
		qs = append(qs, c18Q("BIGQ", "", 0x20, 1))
	}
	raw, err := c18Packet(c18P(0x5151, 0, qs, nil)).Marshal()
	if err != nil || len(raw) > 65535 {
		return nil, nil
	}
	full, err = s.s2.VerifHandleMessage(exact(raw))
	if err != nil {
		return nil, nil
	}
	frame := make([]byte, 2, 2+len(raw))
	binary.BigEndian.PutUint16(frame, uint16(len(raw)))
	s.tcp.SetDeadline(time.Now().Add(3 * time.Second))
	if _, err := s.tcp.Write(append(frame, raw...)); err != nil {
		return full, nil
	}
	if tc, ok := s.tcp.(*net.TCPConn); ok {
		tc.CloseWrite()
	}
	stream, _ = io.ReadAll(s.tcp)
	return full, stream
}

func implNbnsTCPFrame(a []Val) Val {
	_, stream := c18TCPBig(int(a[1].Uint()))
	if len(stream) == 0 {
		return VErr()
	}
	return B(stream)
}
