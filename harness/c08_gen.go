//go:build c08 || allprops

package main

import (
	"bytes"
	"encoding/asn1"
	"encoding/binary"
	"strings"
	"unicode"

	"github.com/TheManticoreProject/Manticore/network/smb/smb_v10/spnego"
)

var c08Names = []string{"", "a", "DOMAIN", "workstation", "corp.example.com", "MiXeD-Case_01", "z{`@[", "\x00", "a\x00b",
	"\u00e9", "\u00c9cole", "stra\u00dfe", "\u01c6", "\u0391\u0392\u0393 \u03b1\u03b2\u03b3", "\u043f\u0440\u0438\u0432\u0435\u0442", "\u65e5\u672c\u8a9e",
	"\U0001f600", "a\U0001f600b", "\u0131", "\u017f", "\u00ff", "\u00b5", "\u0149", "\u0130", "\u1e9e",
	"\U00010428", "\u2170", "\u24d0", "\u0345", "\ufb00", "\u1f80", "\ud7ff", "\ue000", "\uffff", "\U0010ffff", "\ufffd", "\U00010000", "\u07ff", "\u0800", "\u007f\u0080",
	"\xff", "ab\xc3", "\xc3", "\xe2\x82", "\xf0\x9f\x98", "\xed\xa0\x80", "\xed\x9f\xbf", "\xf4\x90\x80\x80", "\xf4\x8f\xbf\xbf",
	"\xc0\xaf", "\xc1\xbf", "\xe0\x80\xaf", "\xe0\xa0\x80", "\xf0\x80\x80\x80", "\xf0\x90\x80\x80", "\xf5\x80\x80\x80", "\x80", "\xbf\xbf",
	"a\xffb\xfe", "\u00e9\xffz"}

func c08RandName(r *Rng) string {
	switch r.Intn(7) {
	case 0:
		return c08Names[r.Intn(len(c08Names))]
	case 1:
		return r.StringOver("abcdefghijklmnopqrstuvwxyzABCDEFGHIJKLMNOPQRSTUVWXYZ0123456789.-_$ ", r.Intn(16))
	case 2:
		var sb strings.Builder
		for i, n := 0, r.Intn(8); i < n; i++ {
			sb.WriteRune(rune(0x80 + r.Intn(0x500)))
		}
		return sb.String()
	case 3:
		var sb strings.Builder
		for i, n := 0, r.Intn(6); i < n; i++ {
			x := rune(r.Intn(0x110000))
			if r.Bool() {
				x = rune(r.Intn(0x3000))
			}
			if x >= 0xd800 && x < 0xe000 {
				x = 'x'
			}
			sb.WriteRune(x)
		}
		return sb.String()
	case 4:
		return string(r.Bytes(r.Intn(8)))
	case 5:
		return c08Names[r.Intn(len(c08Names))] + c08Names[r.Intn(len(c08Names))]
	}
	return r.StringOver("abcXYZ09", 1+r.Intn(6))
}

func c08RandPairs(r *Rng) []avPair {
	var ps []avPair
	for i, n := 0, r.Intn(7); i < n; i++ {
		id := uint16(1 + r.Intn(10))
		if r.Intn(5) == 0 {
			id = uint16(1 + r.Intn(0xffff))
		}
		ln := r.Pick(0, 1, 2, 8, 8, 12, 20)
		if r.Intn(12) == 0 {
			ln = 200 + r.Intn(200)
		}
		ps = append(ps, avPair{id, r.Bytes(ln)})
	}
	return ps
}

func derLen(n int) []byte {
	if n < 128 {
		return []byte{byte(n)}
	}
	var d []byte
	for x := n; x > 0; x >>= 8 {
		d = append([]byte{byte(x)}, d...)
	}
	return append([]byte{0x80 | byte(len(d))}, d...)
}

func derTLV(tag byte, content ...[]byte) []byte {
	body := cat(content...)
	return cat([]byte{tag}, derLen(len(body)), body)
}

// decoder case + totality oracle on one input
func c08Dec(c *Ctx, entry, total string, b []byte) {
	// the guarded oracle first: an input on which the decoder does not return must not hang the harness
	if c.Check("c08.total."+total, B(b)) {
		c.Case(entry, B(b))
	}
}

func genC08(c *Ctx) {
	r := c.Rng
	c08GenText(c)
	c08GenNegotiate(c)
	c08GenAuthenticate(c)
	c08GenChallenge(c)
	c08GenTargetInfo(c)
	c08GenSpnego(c)
	c08GenProcess(c)
	_ = r
}

func c08GenText(c *Ctx) {
	r := c.Rng
	seen := map[rune]bool{}
	ru := func(x rune) {
		if x < 0 || x > 0x10ffff+2 || seen[x] {
			return
		}
		seen[x] = true
		c.Case("text.upper_rune", I(int64(x)))
	}
	for _, cr := range unicode.CaseRanges {
		for _, d := range []rune{-1, 0, 1, 2} {
			ru(rune(cr.Lo) + d)
			ru(rune(cr.Hi) - d)
		}
	}
	for i := 0; i < c.N(300, 3000); i++ {
		ru(rune(r.Intn(0x110000)))
		ru(rune(r.Intn(0x2000)))
	}
	if c.Tier == "thorough" {
		for x := rune(0); x <= 0x10ffff; x++ {
			if x < 0x20000 || x%17 == 0 {
				ru(x)
			}
		}
	}
	for _, s := range c08Names {
		c.Case("text.to_upper", S(s))
		c.Case("text.utf16le", S(s))
	}
	for i := 0; i < c.N(300, 4000); i++ {
		s := c08RandName(r)
		c.Case("text.to_upper", S(s))
		c.Case("text.utf16le", S(s))
	}
	// every malformed UTF-8 shape: truncations / corruptions of multi-byte sequences
	for _, s := range []string{"\u00e9", "\u20ac", "\U0001f600", "a\u20acb"} {
		for _, m := range Malformed([]byte(s), 8) {
			c.Case("text.to_upper", B(m))
			c.Case("text.utf16le", B(m))
		}
	}
}

func c08GenNegotiate(c *Ctx) {
	r := c.Rng
	neg := func(d, w string, u bool) {
		c.Check("c08.negotiate_wf", S(d), S(w), Bool(u))
		c.Case("ntlm.create_negotiate", S(d), S(w), Bool(u))
	}
	for _, u := range []bool{false, true} {
		for _, d := range c08Names {
			neg(d, "WS", u)
			neg("", d, u)
			neg(d, d, u)
		}
		for i := 0; i < c.N(150, 3000); i++ {
			neg(c08RandName(r), c08RandName(r), u)
		}
		for i := 0; i < c.N(30, 300); i++ {
			c.Case("spnego.create_negotiate_token", S(c08RandName(r)), S(c08RandName(r)), Bool(u))
		}
		c.Case("spnego.create_negotiate_token", S(strings.Repeat("d", 40)), S(strings.Repeat("w", 41)), Bool(u))
		c.Case("spnego.create_negotiate_token", S(strings.Repeat("d", 40000)), S("w"), Bool(u))
		// 16-bit length boundary of the descriptors
		for _, n := range []int{32767, 32768, 65535, 65536, 65537} {
			neg(strings.Repeat("a", n), "", u)
			neg("b", strings.Repeat("w", n), u)
		}
		neg(strings.Repeat("\u00e9", 32768), "x", u)
	}
	for i := 0; i < c.N(40, 400); i++ {
		c.Check("c08.ref.negotiate", S(r.StringOver("abcXYZ019.-", r.Intn(12))), S(r.StringOver("wksWKS7-", r.Intn(10))))
	}
}

func c08RandFlags(r *Rng) uint32 {
	f := uint32(0)
	switch r.Intn(4) {
	case 0:
		f = uint32(r.U64())
	case 1:
		f = 0xe28a8235 // what a Windows server typically answers
	case 2:
		f = 0x00000201
	}
	for _, bit := range []uint32{fUnicode, fOEM, fVersion, fESS} {
		f &^= bit
		if r.Bool() {
			f |= bit
		}
	}
	return f
}

func c08GenAuthenticate(c *Ctx) {
	r := c.Rng
	auth := func(flags uint32, ti []byte, user, dom, ws string) {
		sc := r.Bytes(8)
		pw := r.StringOver("Passw0rd!xyz", r.Intn(12))
		args := []Val{U(uint64(flags)), B(sc), B(ti), S(user), S(pw), S(dom), S(ws)}
		c.Check("c08.authenticate_wf", args...)
		c.Case("ntlm.create_authenticate", args...)
	}
	// every combination of the layout-relevant flags
	for m := 0; m < 16; m++ {
		var f uint32
		for i, bit := range []uint32{fUnicode, fOEM, fVersion, fESS} {
			if m&(1<<i) != 0 {
				f |= bit
			}
		}
		auth(f, nil, "user", "domain", "ws")
		auth(f|0xa0000200, avEncode(c08RandPairs(r), true), "Administrator", "CORP", "WORKSTATION")
		auth(f, avEncode(c08RandPairs(r), true), "", "", "")
		for _, n := range c08Names[8:] {
			auth(f, nil, n, "d", "w")
			if m%4 == 1 {
				auth(f, nil, "u", n, n)
			}
		}
	}
	for i := 0; i < c.N(200, 4000); i++ {
		var ti []byte
		if r.Bool() {
			ti = avEncode(c08RandPairs(r), r.Intn(8) != 0)
		}
		auth(c08RandFlags(r), ti, c08RandName(r), c08RandName(r), c08RandName(r))
	}
	// 16-bit length boundaries: names and the NTLMv2 response (48 + len(TargetInfo))
	for _, f := range []uint32{fUnicode | fESS, fOEM, fUnicode | fVersion} {
		for _, n := range []int{32767, 32768, 65535, 65536} {
			auth(f, nil, strings.Repeat("u", n), "D", "W")
			auth(f, nil, "u", strings.Repeat("d", n), "W")
			auth(f, nil, "u", "D", strings.Repeat("w", n))
		}
		for _, n := range []int{65535 - 48, 65536 - 48, 65535} {
			auth(f, make([]byte, n), "u", "D", "W")
		}
	}
}

func c08GenChallenge(c *Ctx) {
	r := c.Rng
	ver := []byte{6, 1, 0xb1, 0x1d, 0, 0, 0, 15}
	var corpus [][]byte
	for i := 0; i < c.N(300, 5000); i++ {
		flags := c08RandFlags(r)
		sc := r.Bytes(8)
		tn := []byte{}
		if r.Intn(4) != 0 {
			tn, _ = encodeName(flags&fUnicode != 0, c08RandName(r))
			if len(tn) > 60 {
				tn = tn[:60]
			}
		}
		pairs := c08RandPairs(r)
		variant := r.Intn(16)
		v := ver
		if r.Bool() {
			v = r.Bytes(8)
		}
		c.Check("c08.challenge_exact", U(uint64(flags)), B(sc), B(tn), avVals(pairs), B(v), I(int64(variant)))
		ti := avEncode(pairs, true)
		if len(pairs) == 0 && variant&4 != 0 {
			ti = nil
		}
		data := challengeEncode(flags, sc, tn, ti, v, variant)
		if r.Intn(3) == 0 {
			copy(data[32:40], r.Bytes(8)) // reserved bytes are ignored, whatever they are
		}
		c08Dec(c, "ntlm.parse_challenge", "parse_challenge", data)
		if len(corpus) < c.N(6, 30) && len(data) < 140 {
			corpus = append(corpus, data)
		}
		if i < c.N(30, 300) {
			c.Check("c08.ref.challenge", U(uint64(flags)), B(sc), S(c08RandName(r)), avVals(pairs), S("u"+c08RandName(r)))
		}
	}
	// maximal fields
	big := r.Bytes(65535)
	c.Check("c08.challenge_exact", U(uint64(fUnicode)), B(r.Bytes(8)), B(big[:65534]), L(L(U(2), B(big[:65527]))), B(ver), I(0))
	// malformed stream: truncations, boundary corruptions of the header, adversarial descriptors
	for _, data := range corpus {
		for _, m := range Malformed(data, 56) {
			c08Dec(c, "ntlm.parse_challenge", "parse_challenge", m)
		}
	}
	base := challengeEncode(fUnicode|fVersion, r.Bytes(8), []byte("S\x00R\x00V\x00"), avEncode([]avPair{{2, []byte("D\x00")}}, true), ver, 0)
	offs := []uint32{0, 1, 55, 56, uint32(len(base)) - 1, uint32(len(base)), uint32(len(base)) + 1, 0x7fffffff, 0x80000000, 0xfffffff0, 0xfffffffe, 0xffffffff, 0xffffff00}
	lens := []uint16{0, 1, 2, 0x10, 0x20, 0xff, 0x100, 0x7fff, 0x8000, 0xffff}
	for _, at := range []int{12, 40} {
		for _, o := range offs {
			for _, l := range lens {
				m := exact(base)
				binary.LittleEndian.PutUint16(m[at:], l)
				binary.LittleEndian.PutUint16(m[at+2:], l)
				binary.LittleEndian.PutUint32(m[at+4:], o)
				c08Dec(c, "ntlm.parse_challenge", "parse_challenge", m)
				// offset chosen so that offset+len wraps to a small value
				binary.LittleEndian.PutUint32(m[at+4:], uint32(0x100000000-uint64(l)+uint64(o%64)))
				c08Dec(c, "ntlm.parse_challenge", "parse_challenge", m)
			}
		}
	}
	for i := 0; i < c.N(200, 4000); i++ {
		b := r.Bytes(r.Pick(0, 7, 8, 12, 40, 55, 56, 57, 64, 100))
		if len(b) >= 12 && r.Intn(4) != 0 {
			copy(b, ntlmSig)
			binary.LittleEndian.PutUint32(b[8:], uint32(r.Pick(2, 2, 2, 1, 3)))
		}
		c08Dec(c, "ntlm.parse_challenge", "parse_challenge", b)
	}
	// version.go
	for i := 0; i < c.N(40, 400); i++ {
		b := r.Bytes(r.Pick(0, 1, 7, 8, 8, 8, 9, 16))
		c08Dec(c, "version.unmarshal", "version_unmarshal", b)
		c.Case("version.marshal", U(uint64(r.Byte())), U(uint64(r.Byte())), U(r.U64()&0xffff), B(r.Bytes(3)), U(uint64(r.Byte())))
	}
}

func c08GenTargetInfo(c *Ctx) {
	r := c.Rng
	var corpus [][]byte
	for i := 0; i < c.N(400, 6000); i++ {
		pairs := c08RandPairs(r)
		term := r.Intn(4) != 0
		trail := r.Bytes(r.Pick(0, 0, 1, 3, 4, 9))
		c.Check("c08.target_info", avVals(pairs), Bool(term), B(trail))
		ti := avEncode(pairs, term)
		if term {
			ti = append(ti, trail...)
		}
		c08Dec(c, "ntlm.parse_target_info", "parse_target_info", ti)
		if len(corpus) < c.N(8, 40) && len(ti) > 8 && len(ti) < 70 {
			corpus = append(corpus, ti)
		}
	}
	// a value of maximal length, many pairs, a repeated AvId (last wins)
	c.Check("c08.target_info", L(L(U(1), B(r.Bytes(65535)))), Bool(true), B(nil))
	c.Check("c08.target_info", L(L(U(7), B([]byte{1})), L(U(7), B([]byte{2})), L(U(7), B([]byte{3}))), Bool(true), B(nil))
	for _, ti := range corpus {
		for _, m := range Malformed(ti, 64) {
			c08Dec(c, "ntlm.parse_target_info", "parse_target_info", m)
		}
	}
	// lists longer than 64 KiB (the AV_PAIR walk must not keep its cursor in 16 bits): k pairs of v value bytes,
	// terminated; chosen so that the cursor passes 65536 exactly, by one pair, and by far
	for _, kv := range [][2]int{{16, 4092}, {17, 4092}, {33, 2000}, {2, 65535}, {3, 65535}, {300, 255}} {
		var pairs [][2]interface{}
		_ = pairs
		var ti []byte
		for i := 0; i < kv[0]; i++ {
			ti = append(ti, byte(1+i%6), 0, byte(kv[1]), byte(kv[1]>>8))
			ti = append(ti, bytes.Repeat([]byte{byte(i)}, kv[1])...)
		}
		ti = append(ti, 0, 0, 0, 0)
		c08Dec(c, "ntlm.parse_target_info", "parse_target_info", ti)
		c08Dec(c, "ntlm.parse_target_info", "parse_target_info", ti[:len(ti)-4])
	}
	// EOL with a non-zero length, lengths that run past the end
	for _, b := range [][]byte{{0, 0, 4, 0, 1, 2, 3, 4, 9, 9}, {0, 0, 5, 0, 1}, {1, 0, 0xff, 0xff}, {1, 0, 0xff, 0xff, 0}, {1, 0}, {1, 0, 0}, {1}, {}, {1, 0, 0, 0}, {1, 0, 0, 0, 0, 0, 0, 0, 7}} {
		c08Dec(c, "ntlm.parse_target_info", "parse_target_info", b)
	}
	for i := 0; i < c.N(200, 3000); i++ {
		c08Dec(c, "ntlm.parse_target_info", "parse_target_info", r.Bytes(r.Intn(24)))
	}
}

var c08Mechs = [][]int{nil, {1, 3, 6, 1, 4, 1, 311, 2, 2, 10}, {1, 2, 840, 113554, 1, 2, 2}, {1, 3, 6, 1, 5, 5, 2}, {2, 999, 3},
	{1, 39}, {0, 0}, {2, 0x7fffffff - 80}, {1, 2, 0x7fffffff, 127, 128, 16383, 16384}}
var c08BadMechs = [][]int{{3, 1}, {1, 40}, {1}, {0, 40, 1}}

func mechVal(m []int) Val {
	vs := make([]Val, len(m))
	for i, x := range m {
		vs[i] = I(int64(x))
	}
	return L(vs...)
}

func c08GenSpnego(c *Ctx) {
	r := c.Rng
	states := []int64{0, 1, 2, 3, -1, 127, 128, 255, 256, -128, -129, 32767, 32768, 1<<31 - 1, -(1 << 31), 1 << 31, 1<<62 + 5, -(1 << 40)}
	// all token lengths across the short/long-form boundaries, both token kinds (oracle: cheap)
	check := func(kind int, state int64, mech []int, n int, present bool) {
		c.Check("c08.spnego_roundtrip", I(int64(kind)), I(state), mechVal(mech), I(int64(n)), U(r.U64()), Bool(present))
	}
	for n := 0; n <= 300; n++ {
		check(0, 0, nil, n, true)
		check(1, states[n%4], c08Mechs[n%4], n, true)
	}
	for n := 65380; n <= 65560; n++ {
		check(0, 0, nil, n, true)
		check(1, 1, c08Mechs[1], n, true)
	}
	for _, n := range []int{70000, 1 << 20, 1<<24 - 40, 1<<24 - 1, 1 << 24, 1<<24 + 7} {
		check(0, 0, nil, n, true)
		check(1, 1, c08Mechs[1], n, true)
	}
	check(0, 0, nil, 0, false)
	check(1, 1, c08Mechs[1], 0, false)
	check(1, 0, nil, 0, false)
	for _, st := range states[:14] {
		for _, m := range c08Mechs {
			check(1, st, m, 1+r.Intn(40), true)
		}
	}

	// correspondence cases
	var corpus [][]byte
	wrapInit := func(tok []byte, present bool) {
		v := c.Case("spnego.create_init", B(tok), Bool(present))
		if v.K == 'x' {
			c08Dec(c, "spnego.extract", "extract_ntlm_token", v.B)
			c08Dec(c, "spnego.parse_resp", "parse_neg_token_resp", v.B)
			if len(v.B) < 90 && len(corpus) < c.N(5, 20) {
				corpus = append(corpus, v.B)
			}
		}
	}
	wrapResp := func(state int64, mech []int, tok []byte, present bool) {
		v := c.Case("spnego.create_resp", I(state), mechVal(mech), B(tok), Bool(present))
		if v.K == 'x' {
			c08Dec(c, "spnego.extract", "extract_ntlm_token", v.B)
			c08Dec(c, "spnego.parse_resp", "parse_neg_token_resp", v.B)
			if len(v.B) < 90 && len(corpus) < c.N(10, 40) {
				corpus = append(corpus, v.B)
			}
		}
	}
	lens := []int{0, 1, 2, 77, 78, 79, 80, 81, 82, 83, 84, 85, 86, 87, 88, 89, 90, 91, 92, 93, 94, 95, 96, 97, 98, 99, 100, 110, 119, 120, 121, 122, 123, 124, 125, 126, 127, 128, 129, 130,
		200, 210, 220, 230, 240, 250, 255, 256, 257, 300, 1000, 65450, 65490, 65500, 65510, 65520, 65530, 65535, 65536, 65540, 70000}
	for _, n := range lens {
		wrapInit(r.Bytes(n), true)
		wrapResp(int64(n%4), c08Mechs[n%3], r.Bytes(n), true)
	}
	wrapInit(nil, false)
	wrapResp(0, nil, nil, false)
	wrapResp(1, c08Mechs[1], nil, false)
	for _, st := range states {
		wrapResp(st, c08Mechs[r.Intn(len(c08Mechs))], r.Bytes(r.Intn(20)), r.Intn(5) != 0)
	}
	for _, m := range c08Mechs {
		wrapResp(1, m, r.Bytes(5), true)
	}
	for _, m := range c08BadMechs {
		wrapResp(1, m, r.Bytes(5), true)
	}
	if c.Tier == "thorough" {
		wrapInit(r.Bytes(1<<20+3), true)
	}

	// hand-made DER: every optional field, orders, explicit-tag and length pathologies
	oidS := []byte{0x06, 0x06, 0x2b, 0x06, 0x01, 0x05, 0x05, 0x02}
	oidN := []byte{0x06, 0x0a, 0x2b, 0x06, 0x01, 0x04, 0x01, 0x82, 0x37, 0x02, 0x02, 0x0a}
	gss := func(body ...[]byte) []byte { return derTLV(0x60, append([][]byte{oidS}, body...)...) }
	mt := derTLV(0xa0, derTLV(0x30, oidN))
	mt2 := derTLV(0xa0, derTLV(0x30, oidN, []byte{0x06, 0x09, 0x2a, 0x86, 0x48, 0x86, 0xf7, 0x12, 0x01, 0x02, 0x02}))
	tk := derTLV(0xa2, derTLV(0x04, []byte("TOKEN")))
	tk0 := derTLV(0xa2, derTLV(0x04))
	mic := derTLV(0xa3, derTLV(0x04, []byte("MIC")))
	rf := derTLV(0xa1, []byte{0x03, 0x02, 0x01, 0xfe})
	st := derTLV(0xa0, []byte{0x0a, 0x01, 0x01})
	sm := derTLV(0xa1, oidN)
	hand := [][]byte{
		gss(derTLV(0x30, mt, tk)), gss(derTLV(0x30, mt, rf, tk, mic)), gss(derTLV(0x30, mt2, tk)), gss(derTLV(0x30, mt)), gss(derTLV(0x30, mt, tk0)),
		gss(derTLV(0x30, mt, tk, tk)), gss(derTLV(0x30, mt, mic, tk)), gss(derTLV(0x30, mt, tk), []byte{1, 2, 3}), gss(derTLV(0x30, mt, tk, []byte{0x05, 0x00})),
		gss(derTLV(0x30, st, sm, tk)), gss(derTLV(0x30, st, sm, tk, mic)), gss(derTLV(0x30, tk)), gss(derTLV(0x30, sm, tk)), gss(derTLV(0x30, st)), gss(derTLV(0x30)),
		gss(derTLV(0x30, tk0)), gss(derTLV(0x30, st, tk0)), gss(derTLV(0x30, mic)), gss(derTLV(0x30, sm, st, tk)),
		gss(derTLV(0x30, derTLV(0xa0, []byte{0x0a, 0x01, 0x02}), sm, tk)),      // reject
		gss(derTLV(0x30, derTLV(0xa0, []byte{0x0a, 0x02, 0x00, 0x01}), tk)),    // non-minimal enumerated
		gss(derTLV(0x30, derTLV(0xa0, []byte{0x0a, 0x02, 0xff, 0x80}), tk)),    // non-minimal negative
		gss(derTLV(0x30, derTLV(0xa0, []byte{0x0a, 0x02, 0xff, 0x7f}), tk)),    // -129
		gss(derTLV(0x30, derTLV(0xa0, []byte{0x0a, 0x00}), tk)),                // empty integer
		gss(derTLV(0x30, derTLV(0xa0, []byte{0x0a, 0x05, 1, 0, 0, 0, 0}), tk)), // > int32
		gss(derTLV(0x30, derTLV(0xa0, []byte{0x0a, 0x09, 1, 0, 0, 0, 0, 0, 0, 0, 0}), tk)),
		gss(derTLV(0x30, derTLV(0xa0, []byte{0x0a, 0x04, 0x80, 0, 0, 0}), tk)),
		gss(derTLV(0x30, derTLV(0xa0, []byte{0x02, 0x01, 0x01}), tk)), // INTEGER where ENUMERATED expected
		gss(derTLV(0x30, []byte{0xa0, 0x00}, tk)),                     // zero-length explicit tag
		gss(derTLV(0x30, []byte{0xa2, 0x00})),                         // explicit tag at the very end: "no child"
		gss(derTLV(0x30, mt, []byte{0xa2, 0x00})),
		gss(derTLV(0x30, []byte{0x80, 0x01, 0x01}, tk)),                                  // primitive context tag
		gss(derTLV(0x30, []byte{0xa2, 0x81, 0x07, 0x04, 0x05, 'T', 'O', 'K', 'E', 'N'})), // non-minimal length
		gss(derTLV(0x30, []byte{0xa2, 0x80, 0x04, 0x01, 'T', 0, 0})),                     // indefinite length
		gss(derTLV(0x30, []byte{0xa2, 0x07, 0x04, 0x7f, 'T'})),                           // inner length beyond data
		gss(derTLV(0x30, []byte{0xa2, 0x03, 0x04, 0x84, 0x7f, 0xff, 0xff, 0xff})),
		gss(derTLV(0x30, []byte{0xa2, 0x03, 0x04, 0x84, 0x80, 0x00, 0x00, 0x00})),
		gss(derTLV(0x30, []byte{0xa2, 0x03, 0x04, 0x85, 0x01, 0x00, 0x00, 0x00, 0x00})),
		gss(derTLV(0x30, []byte{0xa2, 0x03, 0x04, 0x82, 0x00, 0x80})),
		gss(derTLV(0x30, []byte{0xbf, 0x02, 0x03, 0x04, 0x01, 'T'})),       // non-minimal high tag number
		gss(derTLV(0x30, []byte{0xbf, 0x1f, 0x03, 0x04, 0x01, 'T'})),       // tag 31 in high form
		gss(derTLV(0x30, []byte{0xbf, 0x80, 0x02, 0x03, 0x04, 0x01, 'T'})), // leading 0x80 in tag
		gss(derTLV(0x30, []byte{0xbf, 0x8f, 0xff, 0xff, 0xff, 0x7f, 0x00})),
		gss(derTLV(0x30, []byte{0xbf, 0x87, 0xff, 0xff, 0xff, 0x7f, 0x00})),
		gss(derTLV(0x30, []byte{0xbf, 0x81, 0x81, 0x81, 0x81, 0x81, 0x01, 0x00})),
		gss(derTLV(0x30, []byte{0xbf})), gss(derTLV(0x30, []byte{0xbf, 0x81})),
		gss(derTLV(0x30, derTLV(0xa0, derTLV(0x30, []byte{0x06, 0x00})), tk)),                                     // empty OID
		gss(derTLV(0x30, derTLV(0xa0, derTLV(0x30, []byte{0x06, 0x02, 0x2b, 0x80})), tk)),                         // truncated arc
		gss(derTLV(0x30, derTLV(0xa0, derTLV(0x30, []byte{0x06, 0x03, 0x2b, 0x80, 0x01})), tk)),                   // non-minimal arc
		gss(derTLV(0x30, derTLV(0xa0, derTLV(0x30, []byte{0x06, 0x06, 0x2b, 0x8f, 0xff, 0xff, 0xff, 0x7f})), tk)), // arc > int32
		gss(derTLV(0x30, derTLV(0xa0, derTLV(0x30, []byte{0x06, 0x06, 0x2b, 0x87, 0xff, 0xff, 0xff, 0x7f})), tk)), // arc = MaxInt32
		gss(derTLV(0x30, derTLV(0xa0, derTLV(0x30, []byte{0x06, 0x07, 0x2b, 0x81, 0x81, 0x81, 0x81, 0x81, 0x01})), tk)),
		gss(derTLV(0x30, derTLV(0xa0, derTLV(0x30, []byte{0x06, 0x01, 0x78})), tk)), // first octet 120 -> 2.40
		gss(derTLV(0x30, derTLV(0xa0, derTLV(0x30, []byte{0x06, 0x02, 0x88, 0x37})), tk)),
		gss(derTLV(0x30, derTLV(0xa0, derTLV(0x30, []byte{0x04, 0x01, 0x78})), tk)), // wrong element type in SEQUENCE OF
		gss(derTLV(0x30, derTLV(0xa0, derTLV(0x30, []byte{0x06, 0x05, 0x2b})), tk)), // element beyond sequence
		gss(derTLV(0x30, derTLV(0xa0, derTLV(0x31, oidN)), tk)),                     // SET instead of SEQUENCE
		gss(derTLV(0x30, derTLV(0xa0, derTLV(0x10, oidN)), tk)),                     // primitive SEQUENCE
		gss(derTLV(0x30, mt, derTLV(0xa1, []byte{0x03, 0x00}), tk)),                 // empty BIT STRING
		gss(derTLV(0x30, mt, derTLV(0xa1, []byte{0x03, 0x01, 0x00}), tk)),
		gss(derTLV(0x30, mt, derTLV(0xa1, []byte{0x03, 0x01, 0x01}), tk)),
		gss(derTLV(0x30, mt, derTLV(0xa1, []byte{0x03, 0x02, 0x08, 0x00}), tk)),
		gss(derTLV(0x30, mt, derTLV(0xa1, []byte{0x03, 0x02, 0x07, 0x80}), tk)),
		gss(derTLV(0x30, mt, derTLV(0xa1, []byte{0x03, 0x02, 0x07, 0x81}), tk)),
		gss(derTLV(0x30, mt, derTLV(0xa1, []byte{0x03, 0x02, 0x01, 0x01}), tk)),
		gss(derTLV(0x31, mt, tk)), gss(derTLV(0x10, mt, tk)), gss(mt, tk), gss(tk), gss(),
		derTLV(0x60, []byte{0x06, 0x00}, derTLV(0x30, mt, tk)), derTLV(0x60, []byte{0x04, 0x01, 0x00}, derTLV(0x30, mt, tk)),
		derTLV(0x60, oidN, derTLV(0x30, mt, tk)), derTLV(0x61, oidS, derTLV(0x30, mt, tk)),
		// header skip
		{}, {0x60}, {0x60, 0x00}, {0x60, 0x7f}, {0x60, 0x80}, {0x60, 0x81}, {0x60, 0x81, 0x00}, {0x60, 0x82, 0x00}, {0x60, 0x82, 0x00, 0x00}, {0x60, 0xff},
		{0x60, 0x83, 1, 2, 3}, {0x60, 0x83, 1, 2}, {0x60, 0x84, 1, 2, 3, 4, 6}, {0x61, 0x00}, {0x00, 0x60},
		cat([]byte{0x60, 0xff}, make([]byte, 126)), cat([]byte{0x60, 0xff}, make([]byte, 127)), cat([]byte{0x60, 0xff}, make([]byte, 128), oidS, derTLV(0x30, mt, tk)),
		cat([]byte{0x60, 0x05}, oidS, derTLV(0x30, mt, tk)), // wrong (ignored) outer length
		cat([]byte{0x60, 0x81, 0x05}, oidS, derTLV(0x30, st, sm, tk)),
	}
	for _, b := range hand {
		c08Dec(c, "spnego.extract", "extract_ntlm_token", b)
		c08Dec(c, "spnego.parse_resp", "parse_neg_token_resp", b)
	}
	corpus = append(corpus, hand[0], hand[1], hand[9], hand[10])
	for _, b := range corpus {
		for _, m := range Malformed(b, 200) {
			c08Dec(c, "spnego.extract", "extract_ntlm_token", m)
			c08Dec(c, "spnego.parse_resp", "parse_neg_token_resp", m)
		}
	}
	// random multi-byte mutations of valid tokens and random DER-looking noise
	for i := 0; i < c.N(600, 12000); i++ {
		b := exact(corpus[r.Intn(len(corpus))])
		for k := 1 + r.Intn(3); k > 0 && len(b) > 0; k-- {
			p := r.Intn(len(b))
			switch r.Intn(4) {
			case 0:
				b[p] = r.Byte()
			case 1:
				b[p] ^= 1 << uint(r.Intn(8))
			case 2:
				b = append(b[:p:p], b[p+1:]...)
			case 3:
				b = cat(b[:p], []byte{[]byte{0x30, 0xa0, 0xa2, 0x04, 0x06, 0x80, 0x81, 0xff, 0x00, 0x1f}[r.Intn(10)]}, b[p:])
			}
		}
		c08Dec(c, "spnego.extract", "extract_ntlm_token", b)
		c08Dec(c, "spnego.parse_resp", "parse_neg_token_resp", b)
	}
	for i := 0; i < c.N(200, 4000); i++ {
		b := r.Bytes(r.Intn(30))
		if len(b) > 0 {
			b[0] = 0x60
		}
		if len(b) > 1 && r.Bool() {
			b[1] = byte(len(b) - 2)
			if len(b) > 10 {
				copy(b[2:], oidS)
			}
		}
		c08Dec(c, "spnego.extract", "extract_ntlm_token", b)
		c08Dec(c, "spnego.parse_resp", "parse_neg_token_resp", b)
	}
	_ = asn1.NullBytes
}

func c08GenProcess(c *Ctx) {
	r := c.Rng
	ver := []byte{10, 0, 0x61, 0x4a, 0, 0, 0, 15}
	for i := 0; i < c.N(60, 800); i++ {
		flags := c08RandFlags(r)
		tn, _ := encodeName(flags&fUnicode != 0, "SRV")
		var ti []byte
		if r.Intn(4) != 0 {
			ti = avEncode(c08RandPairs(r), true)
		}
		ch := challengeEncode(flags, r.Bytes(8), tn, ti, ver, r.Intn(4))
		var tok []byte
		switch r.Intn(6) {
		case 0:
			tok, _ = spnego.CreateNegTokenInit(ch)
		case 1:
			tok, _ = spnego.CreateNegTokenResp(spnego.Reject, spnego.NtlmOID, ch)
		case 2:
			tok, _ = spnego.CreateNegTokenResp(spnego.AcceptIncomplete, spnego.NtlmOID, ch[:r.Intn(len(ch))])
		default:
			tok, _ = spnego.CreateNegTokenResp(spnego.AcceptIncomplete, spnego.NtlmOID, ch)
		}
		user, dom, ws := c08RandName(r), c08RandName(r), c08RandName(r)
		c.Case("spnego.process_challenge", B(tok), S(user), S("Passw0rd"), S(dom), S(ws))
		c.Check("c08.total.process_challenge_token", B(tok))
		if i < c.N(4, 20) {
			for _, m := range Malformed(tok, 40) {
				c.Case("spnego.process_challenge", B(m), S("u"), S("p"), S("D"), S("W"))
				c.Check("c08.total.process_challenge_token", B(m))
			}
		}
	}
}
