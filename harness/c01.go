//go:build c01 || allprops

package main

// C01 — password-hash primitives equal their reference algorithms on every input.
// Impl runners call the REAL Manticore code; the oracles compare it with independent references
// (golang.org/x/crypto/md4, crypto/des, crypto/hmac + crypto/sha1 with a hand-written PBKDF2 loop,
// hand-written RFC 2781 UTF-16 and MS-NLMP str_to_key) without going through the Coq model.

import (
	"bytes"
	"fmt"
	"strings"
	"unicode"

	"github.com/TheManticoreProject/Manticore/crypto/dcc"
	"github.com/TheManticoreProject/Manticore/crypto/dcc2"
	"github.com/TheManticoreProject/Manticore/crypto/lm"
	"github.com/TheManticoreProject/Manticore/crypto/md4"
	"github.com/TheManticoreProject/Manticore/crypto/nt"
	mutf16 "github.com/TheManticoreProject/Manticore/utils/encoding/utf16"
)

func c01nt16(v Val) [16]byte {
	var h [16]byte
	copy(h[:], v.B)
	return h
}

// runs a history on one md4 object: x.. = Write, n0 = Sum, n1 = HexSum; returns the outputs of the reads
func c01RunOps(ops []Val) []Val {
	h := md4.New()
	var outs []Val
	for _, op := range ops {
		switch op.K {
		case 'x':
			h.Write(exact(op.B))
		case 'n':
			if op.Int() == 0 {
				d := h.Sum()
				outs = append(outs, B(d[:]))
			} else {
				outs = append(outs, S(h.HexSum()))
			}
		}
	}
	return outs
}

// c01RunOpsExt: like c01RunOps, plus (n bits) = MD4.VerifAddCount (hook, build tag verif)
func c01RunOpsExt(ops []Val) []Val {
	h := md4.New()
	var outs []Val
	for _, op := range ops {
		switch op.K {
		case 'x':
			h.Write(exact(op.B))
		case 'l':
			h.VerifAddCount(op.L[0].Uint())
		case 'n':
			if op.Int() == 0 {
				d := h.Sum()
				outs = append(outs, B(d[:]))
			} else {
				outs = append(outs, S(h.HexSum()))
			}
		}
	}
	return outs
}

func c01Short(b []byte) string {
	if len(b) > 48 {
		return fmt.Sprintf("%x… (%d bytes)", b[:48], len(b))
	}
	return fmt.Sprintf("%x", b)
}

func init() {
	// ---------------------------------------------------------------- implementation runners
	Impl("md4.ops", func(a []Val) Val { return L(c01RunOps(a[0].L)...) })
	Impl("md4.ops_ext", func(a []Val) Val { return L(c01RunOpsExt(a[0].L)...) })
	Impl("md4.sum", func(a []Val) Val { d := md4.Sum(exact(a[0].B)); return B(d[:]) })
	Impl("nt.hash", func(a []Val) Val { d := nt.NTHash(a[0].Str()); return B(d[:]) })
	Impl("nt.hex", func(a []Val) Val { return S(nt.NTHashHex(a[0].Str())) })
	Impl("lm.hash", func(a []Val) Val { return B(lm.LMHash(a[0].Str())) })
	Impl("lm.hex", func(a []Val) Val { return S(lm.LMHashToHex(a[0].Str())) })
	Impl("utf16.encode", func(a []Val) Val { return B(mutf16.EncodeUTF16LE(a[0].Str())) })
	Impl("utf16.decode", func(a []Val) Val { return S(mutf16.DecodeUTF16LE(exact(a[0].B))) })
	Impl("dcc.from_password", func(a []Val) Val { d := dcc.DCCHashFromPassword(a[0].Str(), a[1].Str()); return B(d[:]) })
	Impl("dcc.from_nt", func(a []Val) Val { d := dcc.DCCHashFromNTHash(c01nt16(a[0]), a[1].Str()); return B(d[:]) })
	Impl("dcc.from_password_hex", func(a []Val) Val { return S(dcc.DCCHashFromPasswordToHex(a[0].Str(), a[1].Str())) })
	Impl("dcc.from_nt_hex", func(a []Val) Val { return S(dcc.DCCHashFromNTHashToHex(c01nt16(a[0]), a[1].Str())) })
	Impl("dcc.from_password_hashcat", func(a []Val) Val {
		return S(dcc.DCCHashFromPasswordToHashcatString(a[0].Str(), a[1].Str()))
	})
	Impl("dcc.from_nt_hashcat", func(a []Val) Val {
		return S(dcc.DCCHashFromNTHashToHashcatString(c01nt16(a[0]), a[1].Str()))
	})
	Impl("dcc2.hash", func(a []Val) Val { return S(dcc2.DCC2Hash(a[0].Str(), a[1].Str(), int(a[2].Int()))) })
	Impl("dcc2.with_password", func(a []Val) Val {
		return S(dcc2.DCC2HashWithPassword(a[0].Str(), a[1].Str(), int(a[2].Int())))
	})
	Impl("dcc2.with_nt", func(a []Val) Val {
		return S(dcc2.DCC2HashWithNTHash(a[0].Str(), c01nt16(a[1]), int(a[2].Int())))
	})
	// standard-library pieces the models rely on (tie of the modelled stdlib behaviour)
	Impl("c01.runes", func(a []Val) Val {
		var vs []Val
		for _, r := range []rune(a[0].Str()) {
			vs = append(vs, I(int64(r)))
		}
		return L(vs...)
	})
	Impl("c01.to_lower", func(a []Val) Val { return S(strings.ToLower(a[0].Str())) })
	Impl("c01.to_upper", func(a []Val) Val { return S(strings.ToUpper(a[0].Str())) })
	Impl("c01.lower_cp", func(a []Val) Val { return I(int64(unicode.ToLower(rune(a[0].Int())))) })
	Impl("c01.upper_cp", func(a []Val) Val { return I(int64(unicode.ToUpper(rune(a[0].Int())))) })
	// facts read from the SOURCE of crypto/md4/md4.go (c01_ast.go)
	Impl("c01.md4_schedule", func(a []Val) Val { return c01Schedule() })
	Impl("c01.md4_consts", func(a []Val) Val { return c01Consts() })
	Impl("c01.md4_funcs", func(a []Val) Val { return c01FuncBodies() })

	// ---------------------------------------------------------------- oracles
	// args: message.  One-shot digest against x/crypto/md4, in raw and hex form.
	Oracle("c01.md4", func(a []Val) (string, string) {
		msg := a[0].B
		want := refMD4(msg)
		got := md4.Sum(exact(msg))
		if !bytes.Equal(got[:], want) {
			return fmt.Sprintf("C01/md4/oneshot/len-mod-64=%d", len(msg)%64), fmt.Sprintf("md4.Sum(%s) = %x, RFC 1320 gives %x", c01Short(msg), got, want)
		}
		h := md4.New()
		h.Write(exact(msg))
		if hx := h.HexSum(); hx != refHex(want) {
			return "C01/md4/hexsum-form", fmt.Sprintf("HexSum of %s = %q, want %q", c01Short(msg), hx, refHex(want))
		}
		return "", ""
	})
	// args: list of chunks.  Streaming digest equals the one-shot reference digest of the concatenation.
	Oracle("c01.md4_stream", func(a []Val) (string, string) {
		h := md4.New()
		var all []byte
		var cuts []int
		for _, ch := range a[0].L {
			h.Write(exact(ch.B))
			all = append(all, ch.B...)
			cuts = append(cuts, len(ch.B))
		}
		got := h.Sum()
		want := refMD4(all)
		if !bytes.Equal(got[:], want) {
			return "C01/md4/streaming", fmt.Sprintf("%d bytes written as chunks %v: digest %x, RFC 1320 gives %x", len(all), cuts, got, want)
		}
		return "", ""
	})
	// args: history (x.. = Write, n0 = Sum, n1 = HexSum).  Every read returns the digest of all earlier writes.
	Oracle("c01.md4_history", func(a []Val) (string, string) {
		h := md4.New()
		var all []byte
		reads := 0
		var trace []string
		for _, op := range a[0].L {
			if op.K == 'x' {
				h.Write(exact(op.B))
				all = append(all, op.B...)
				trace = append(trace, fmt.Sprintf("Write(%d)", len(op.B)))
				continue
			}
			var got string
			if op.Int() == 0 {
				d := h.Sum()
				got = refHex(d[:])
				trace = append(trace, "Sum")
			} else {
				got = h.HexSum()
				trace = append(trace, "HexSum")
			}
			want := refHex(refMD4(all))
			if got != want {
				key := "C01/md4/streaming"
				if reads > 0 {
					key = "C01/md4/sum-not-pure" // an earlier read changed what this one returns
				}
				return key, fmt.Sprintf("history %s on message %s: read #%d returns %s, the digest of the %d bytes written so far is %s",
					strings.Join(trace, ";"), c01Short(all), reads+1, got, len(all), want)
			}
			reads++
		}
		return "", ""
	})
	// args: password.  NT hash = MD4(UTF-16LE(password)), raw and hex.
	Oracle("c01.nt", func(a []Val) (string, string) {
		pw := a[0].Str()
		want := refMD4(refUTF16LE(pw))
		got := nt.NTHash(pw)
		if !bytes.Equal(got[:], want) {
			return "C01/nt/raw/" + refClass(pw), fmt.Sprintf("NTHash(%q) = %x, want %x", pw, got, want)
		}
		if hx := nt.NTHashHex(pw); hx != refHex(want) {
			return "C01/nt/hex", fmt.Sprintf("NTHashHex(%q) = %q, want %q", pw, hx, refHex(want))
		}
		return "", ""
	})
	// args: 7-bit ASCII password.  LM hash per MS-NLMP 3.3.1 (textbook str_to_key with parity, crypto/des).
	Oracle("c01.lm", func(a []Val) (string, string) {
		pw := a[0].Str()
		want := refLM(pw)
		got := lm.LMHash(pw)
		if !bytes.Equal(got, want) {
			cls := "short"
			if len(pw) > 14 {
				cls = "longer-than-14"
			} else if len(pw) > 7 {
				cls = "two-halves"
			}
			return "C01/lm/raw/" + cls, fmt.Sprintf("LMHash(%q) = %x, want %x", pw, got, want)
		}
		if hx := lm.LMHashToHex(pw); hx != refHex(want) {
			return "C01/lm/hex", fmt.Sprintf("LMHashToHex(%q) = %q, want %q", pw, hx, refHex(want))
		}
		return "", ""
	})
	// args: password, user name.  MS-Cache v1 in its six entry points / three forms.
	Oracle("c01.dcc", func(a []Val) (string, string) {
		pw, user := a[0].Str(), a[1].Str()
		ntw := refMD4(refUTF16LE(pw))
		lowered := refLowerString(user)
		want := refMD4(append(append([]byte{}, ntw...), refUTF16LE(lowered)...))
		var nth [16]byte
		copy(nth[:], ntw)
		g1 := dcc.DCCHashFromPassword(pw, user)
		g2 := dcc.DCCHashFromNTHash(nth, user)
		if !bytes.Equal(g1[:], want) || !bytes.Equal(g2[:], want) {
			return "C01/dcc/raw/" + refClass(user), fmt.Sprintf("DCC(%q,%q) = %x / %x, want %x", pw, user, g1, g2, want)
		}
		if h1, h2 := dcc.DCCHashFromPasswordToHex(pw, user), dcc.DCCHashFromNTHashToHex(nth, user); h1 != refHex(want) || h2 != refHex(want) {
			return "C01/dcc/hex", fmt.Sprintf("DCC hex(%q,%q) = %q / %q, want %q", pw, user, h1, h2, refHex(want))
		}
		line := refHex(want) + ":" + lowered
		if l1, l2 := dcc.DCCHashFromPasswordToHashcatString(pw, user), dcc.DCCHashFromNTHashToHashcatString(nth, user); l1 != line || l2 != line {
			return "C01/dcc/hashcat", fmt.Sprintf("DCC hashcat(%q,%q) = %q / %q, want %q", pw, user, l1, l2, line)
		}
		return "", ""
	})
	// args: user name, password, rounds (>= 1).  MS-Cache v2 line "$DCC2$<rounds>#<user as supplied>#<hex>".
	Oracle("c01.dcc2", func(a []Val) (string, string) {
		user, pw, rounds := a[0].Str(), a[1].Str(), int(a[2].Int())
		ntw := refMD4(refUTF16LE(pw))
		salt := refUTF16LE(refLowerString(user))
		v1 := refMD4(append(append([]byte{}, ntw...), salt...))
		v2 := refPBKDF2SHA1(v1, salt, rounds, 16)
		want := "$DCC2$" + refDec(rounds) + "#" + user + "#" + refHex(v2)
		var nth [16]byte
		copy(nth[:], ntw)
		g1 := dcc2.DCC2Hash(user, pw, rounds)
		g2 := dcc2.DCC2HashWithPassword(user, pw, rounds)
		g3 := dcc2.DCC2HashWithNTHash(user, nth, rounds)
		if g1 != want || g2 != want || g3 != want {
			key := "C01/dcc2/line"
			if strings.HasPrefix(g1, "$DCC2$"+refDec(rounds)+"#"+user+"#") {
				key = "C01/dcc2/value/" + refClass(user)
			}
			return key, fmt.Sprintf("DCC2(%q,%q,%d) = %q / %q / %q, want %q", user, pw, rounds, g1, g2, g3, want)
		}
		return "", ""
	})
	// args: valid UTF-8 string.  EncodeUTF16LE = RFC 2781 little-endian; DecodeUTF16LE inverts it.
	Oracle("c01.utf16", func(a []Val) (string, string) {
		s := a[0].Str()
		want := refUTF16LE(s)
		got := mutf16.EncodeUTF16LE(s)
		if !bytes.Equal(got, want) {
			return "C01/utf16/encode/" + refClass(s), fmt.Sprintf("EncodeUTF16LE(%q) = %x, RFC 2781 gives %x", s, got, want)
		}
		if back := mutf16.DecodeUTF16LE(exact(got)); back != s {
			return "C01/utf16/roundtrip/" + refClass(s), fmt.Sprintf("DecodeUTF16LE(EncodeUTF16LE(%q)) = %q", s, back)
		}
		return "", ""
	})
	// Totality observation (reused by C07).  args: bytes.  DecodeUTF16LE must not panic on any input.
	Oracle("c01.total.utf16_decode", func(a []Val) (string, string) {
		b := a[0].B
		panicked, timedOut, _, pv := Guarded(2e9, func() { _ = mutf16.DecodeUTF16LE(exact(b)) })
		if panicked {
			cls := "even-length"
			if len(b)%2 == 1 {
				cls = "odd-length"
			}
			return "C01/total/utf16-decode-panics/" + cls, fmt.Sprintf("DecodeUTF16LE(%s) panics: %v", c01Short(b), pv)
		}
		if timedOut {
			return "C01/total/utf16-decode-hangs", c01Short(b)
		}
		return "", ""
	})

	Gen("C01", genC01)
}
