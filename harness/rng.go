package main

// SplitMix64: the single PRNG behind every random choice, seeded from VERIF_SEED.
type Rng struct{ s uint64 }

func NewRng(seed uint64) *Rng { return &Rng{s: seed*0x9E3779B97F4A7C15 + 0x1234567} }

func (r *Rng) raw() uint64 {
	r.s += 0x9E3779B97F4A7C15
	z := r.s
	z = (z ^ (z >> 30)) * 0xBF58476D1CE4E5B9
	z = (z ^ (z >> 27)) * 0x94D049BB133111EB
	return z ^ (z >> 31)
}

// Search mode only (the check sets VERIF_DICT / VERIF_DICT_BYTES when a tie to the source broke and a differential
// run against the baseline named values on which the behaviour changed): one draw in six is a dictionary value, so
// that the property's own generators and oracles are steered towards the inputs on which the code now differs.
var dictU64 []uint64
var dictBytes [][]byte

func (r *Rng) U64() uint64 {
	z := r.raw()
	if len(dictU64) > 0 && z%6 == 0 {
		v := dictU64[(z>>8)%uint64(len(dictU64))]
		switch (z >> 40) % 4 {
		case 0:
			return v + 1
		case 1:
			return v - 1
		}
		return v
	}
	return z
}
func (r *Rng) Intn(n int) int {
	if n <= 0 {
		return 0
	}
	return int(r.U64() % uint64(n))
}
func (r *Rng) Bool() bool { return r.U64()&1 == 1 }
func (r *Rng) Byte() byte { return byte(r.U64()) }
func (r *Rng) Bytes(n int) []byte {
	b := make([]byte, n)
	for i := range b {
		b[i] = r.Byte()
	}
	if len(dictBytes) > 0 && n > 0 && r.raw()%4 == 0 {
		d := dictBytes[r.raw()%uint64(len(dictBytes))]
		if r.raw()%2 == 0 {
			copy(b, d)
		} else if len(d) <= n {
			copy(b[n-len(d):], d)
		}
	}
	return b
}

// Pick returns one of the given ints.
func (r *Rng) Pick(xs ...int) int { return xs[r.Intn(len(xs))] }

// Interesting 64-bit values: boundaries mixed with random ones.
func (r *Rng) U64Edge() uint64 {
	switch r.Intn(8) {
	case 0:
		edges := []uint64{0, 1, 2, 0x7f, 0x80, 0xff, 0x100, 0x7fff, 0x8000, 0xffff, 0x10000,
			0x7fffffff, 0x80000000, 0xffffffff, 0x100000000, 0x7fffffffffffffff, 0x8000000000000000, 0xffffffffffffffff}
		return edges[r.Intn(len(edges))]
	case 1:
		return r.U64() >> uint(r.Intn(64))
	case 2:
		return uint64(1) << uint(r.Intn(64))
	default:
		return r.U64()
	}
}

// AsciiWord returns a random string over the given alphabet.
func (r *Rng) StringOver(alpha string, n int) string {
	b := make([]byte, n)
	for i := range b {
		b[i] = alpha[r.Intn(len(alpha))]
	}
	return string(b)
}
