package main

// SplitMix64: the single PRNG behind every random choice, seeded from VERIF_SEED.
type Rng struct{ s uint64 }

func NewRng(seed uint64) *Rng { return &Rng{s: seed*0x9E3779B97F4A7C15 + 0x1234567} }

func (r *Rng) U64() uint64 {
	r.s += 0x9E3779B97F4A7C15
	z := r.s
	z = (z ^ (z >> 30)) * 0xBF58476D1CE4E5B9
	z = (z ^ (z >> 27)) * 0x94D049BB133111EB
	return z ^ (z >> 31)
}
func (r *Rng) Intn(n int) int {
	if n <= 0 {
		return 0
	}
	return int(r.U64() % uint64(n))
}
func (r *Rng) Bool() bool { return r.U64()&1 == 1 }
func (r *Rng) Byte() byte { return byte(r.U64()) }
func (r *Rng) Bytes(n int) []byte {
	b := make([]byte, n)
	for i := range b {
		b[i] = r.Byte()
	}
	return b
}

// Pick returns one of the given ints.
func (r *Rng) Pick(xs ...int) int { return xs[r.Intn(len(xs))] }

// Interesting 64-bit values: boundaries mixed with random ones.
func (r *Rng) U64Edge() uint64 {
	switch r.Intn(8) {
	case 0:
		edges := []uint64{0, 1, 2, 0x7f, 0x80, 0xff, 0x100, 0x7fff, 0x8000, 0xffff, 0x10000,
			0x7fffffff, 0x80000000, 0xffffffff, 0x100000000, 0x7fffffffffffffff, 0x8000000000000000, 0xffffffffffffffff}
		return edges[r.Intn(len(edges))]
	case 1:
		return r.U64() >> uint(r.Intn(64))
	case 2:
		return uint64(1) << uint(r.Intn(64))
	default:
		return r.U64()
	}
}

// AsciiWord returns a random string over the given alphabet.
func (r *Rng) StringOver(alpha string, n int) string {
	b := make([]byte, n)
	for i := range b {
		b[i] = alpha[r.Intn(len(alpha))]
	}
	return string(b)
}
