//go:build c18 || allprops

package main

import (
	"fmt"

	"github.com/TheManticoreProject/Manticore/network/llmnr"
)

var c18Names = []string{"ALPHA", "BRAVO", "CHARLIE", "DELTA1234567890X", "E"}
var c18Scopes = []string{"", "", "", "corp", "a.b-c"}
var c18IPs = [][]byte{
	{10, 0, 0, 1},
	{0, 0, 0, 0, 0, 0, 0, 0, 0, 0, 0xff, 0xff, 10, 0, 0, 1}, // the same address in its 16-byte form (net.IP.Equal)
	{0x00, 0x00, 10, 0, 0, 2},                               // NB_FLAGS + address, as RFC 1002 NB records carry it
	{0x80, 0x00, 10, 0, 0, 3},
	{10, 0, 0, 4},
	{0xfe, 0x80, 0, 0, 0, 0, 0, 0, 0, 0, 0, 0, 0, 0, 0, 9},
	{},
}

func c18RandFlags(r *Rng) uint16 {
	ops := []uint16{0, 0, 0, 5, 5, 6, 7, 8, 9, 1, 2, 10, 15}
	f := ops[r.Intn(len(ops))] << 11
	if r.Intn(12) == 0 {
		f |= 0x8000
	}
	switch r.Intn(4) {
	case 0:
		f |= uint16(r.U64()) & 0x07FF
	case 1:
		f |= 0x0080
	case 2:
		f |= 0x0110
	}
	return f
}

func c18RandRR(r *Rng) Val {
	ip := c18IPs[r.Intn(len(c18IPs))]
	return c18R(c18Names[r.Intn(len(c18Names))], c18Scopes[r.Intn(len(c18Scopes))], uint16(r.Pick(0x20, 0x20, 0x21, 1)), 1, uint32(r.Pick(0, 300, 86400, 0xffffffff)), ip)
}

func c18RandRequest(r *Rng) Val {
	var qs, an, ns, ar []Val
	for i := r.Pick(0, 1, 1, 1, 2); i > 0; i-- {
		qs = append(qs, c18Q(c18Names[r.Intn(len(c18Names))], c18Scopes[r.Intn(len(c18Scopes))], uint16(r.Pick(0x20, 0x20, 0x21, 0xffff)), uint16(r.Pick(1, 1, 0))))
	}
	for i := r.Pick(0, 1, 1, 2, 3); i > 0; i-- {
		an = append(an, c18RandRR(r))
	}
	if r.Intn(6) == 0 {
		ns = append(ns, c18RandRR(r))
	}
	if r.Intn(4) == 0 {
		ar = append(ar, c18RandRR(r))
	}
	return L(U(uint64(uint16(r.U64Edge()))), U(uint64(c18RandFlags(r))), U(uint64(len(qs))), U(uint64(len(an))), U(uint64(len(ns))), U(uint64(len(ar))),
		L(qs...), L(an...), L(ns...), L(ar...))
}

func c18RandOps(r *Rng, n int, apiOnly bool) []Val {
	var ops []Val
	for i := 0; i < n; i++ {
		name := c18Names[r.Intn(len(c18Names))]
		ip := c18IPs[r.Intn(len(c18IPs))]
		k := r.Intn(10)
		if apiOnly && k < 5 {
			k = 5
		}
		switch k {
		case 0, 1, 2, 3, 4:
			ops = append(ops, L(U(0), c18RandRequest(r)))
		case 5, 6:
			ops = append(ops, L(U(1), S(name), U(uint64(r.Pick(0, 1, 1))), B(ip)))
		case 7:
			if r.Intn(3) == 0 {
				ops = append(ops, L(U(2), S(name)))
			} else {
				ops = append(ops, L(U(3), S(name)))
			}
		case 8:
			ops = append(ops, L(U(4), S(name), B(ip)))
		case 9:
			ops = append(ops, L(U(5), S(name), B(ip)))
		}
	}
	return ops
}

func genC18(c *Ctx) {
	r := c.Rng

	// 1. dispatch facts read from the source
	for _, f := range c18Facts() {
		c.Case(f.name)
	}

	// 0. runtime support (NOT proof): shutdown at arbitrary moments.  Run first: every later
	// scenario starts and stops servers, so a Stop that hangs would make the whole run crawl;
	// in that case the failing shutdown oracle is the finding and the rest is skipped.
	stopsOK := true
	for what := 0; what <= 4; what++ {
		for _, inflight := range []int{0, 1, 3, 16} {
			for rep := 0; rep < c.N(1, 5); rep++ {
				if !c.Check("c18.shutdown", U(uint64(what)), U(uint64(inflight))) {
					stopsOK = false
				}
			}
		}
	}
	for what := 0; what < 3; what++ {
		if !c.Check("c18.stop_twice", U(uint64(what))) {
			stopsOK = false
		}
	}
	if !stopsOK {
		c.Note("aborted", "a shutdown oracle failed; the remaining scenarios (which all start and stop servers) were skipped")
		return
	}

	// 2. opcode routing: every (R, opcode) with several settings of the other 11 bits, on each server
	others := []uint16{0x000, 0x7FF, 0x010, 0x100, 0x080, 0x400}
	for kind := 0; kind <= 5; kind++ {
		for hi := 0; hi < 32; hi++ {
			pats := others
			if kind >= 3 {
				pats = others[:1]
			}
			for _, o := range pats {
				f := uint16(hi)<<11 | o
				c.Check("c18.routing", U(uint64(kind)), U(uint64(f)))
				c.Case("nbns.route", U(uint64(kind)), U(uint64(f)))
			}
			for k := 0; k < c.N(1, 8) && kind < 3; k++ {
				f := uint16(hi)<<11 | uint16(r.U64())&0x7FF
				c.Check("c18.routing", U(uint64(kind)), U(uint64(f)))
				c.Case("nbns.route", U(uint64(kind)), U(uint64(f)))
			}
		}
	}
	if c.Tier == "thorough" {
		for f := 0; f < 65536; f++ {
			c.Check("c18.routing", U(2), U(uint64(f)))
			c.Case("nbns.route", U(2), U(uint64(f)))
		}
	}
	for which := 0; which < 2; which++ {
		for hi := 0; hi < 32; hi++ {
			for _, o := range others {
				c.Check("c18.query_guard", U(uint64(which)), U(uint64(uint16(hi)<<11|o)))
			}
		}
	}

	// 3. sessions: table operations and requests, on every way of reaching each server
	kinds := []int{2, 2, 2, 2, 0, 0, 1, 1, 3, 4, 5}
	for rep := 0; rep < c.N(700, 8000); rep++ {
		kind := kinds[rep%len(kinds)]
		ops := c18RandOps(r, 1+r.Intn(9), false)
		c.Case("nbns.session", U(uint64(kind)), L(ops...))
		c.Check("c18.response_for_request", U(uint64(kind)), L(ops...))
	}
	// a fixed session: register through the wire, query, release, query again
	{
		ip := []byte{0, 0, 192, 168, 1, 7}
		ops := []Val{
			L(U(0), c18P(1, 0x2910, nil, []Val{c18R("WKSTN", "", 0x20, 1, 300, ip)})),
			L(U(0), c18P(2, 0x0110, []Val{c18Q("WKSTN", "", 0x20, 1)}, nil)),
			L(U(0), c18P(3, 0x4000, nil, []Val{c18R("WKSTN", "", 0x20, 1, 300, ip)})),
			L(U(0), c18P(4, 0x4800, nil, []Val{c18R("WKSTN", "", 0x20, 1, 300, ip)})),
			L(U(0), c18P(5, 0x3800, nil, []Val{c18R("WKSTN", "", 0x20, 1, 300, ip)})),
			L(U(3), S("WKSTN")),
			L(U(0), c18P(6, 0x3000, nil, []Val{c18R("WKSTN", "", 0x20, 1, 300, ip)})),
			L(U(0), c18P(7, 0x0110, []Val{c18Q("WKSTN", "", 0x20, 1)}, nil)),
		}
		for kind := 0; kind <= 5; kind++ {
			c.Case("nbns.session", U(uint64(kind)), L(ops...))
			c.Check("c18.response_for_request", U(uint64(kind)), L(ops...))
		}
	}

	// 3b. frames on one TCP connection are served independently: a long valid frame, then a shorter frame whose
	// header announces records it does not carry (every truncation of a release / query / registration)
	{
		ip := []byte{0, 0, 10, 1, 2, 3}
		long, _ := c18Packet(c18P(0x1111, 0x2910, nil, []Val{c18R("HOSTB", "a-rather-long-scope.example", 0x20, 1, 300, ip), c18R("HOSTA", "", 0x20, 1, 300, ip)})).Marshal()
		for _, p := range []Val{
			c18P(0x2222, 0x3000, nil, []Val{c18R("HOSTA", "", 0x20, 1, 300, ip)}),
			c18P(0x3333, 0x0110, []Val{c18Q("HOSTA", "", 0x20, 1)}, nil),
			c18P(0x4444, 0x2910, nil, []Val{c18R("HOSTC", "", 0x20, 1, 300, ip)}),
		} {
			full, err := c18Packet(p).Marshal()
			if err != nil || long == nil {
				continue
			}
			for cut := 0; cut <= len(full); cut += c.N(3, 1) {
				c.Check("c18.tcp_frames_independent", B(long), B(full[:cut]))
			}
			c.Check("c18.tcp_frames_independent", B(long), B(full[:12]))
		}
	}

	// 4. DefendName / HandleRedirect
	for rep := 0; rep < c.N(300, 3000); rep++ {
		ops := c18RandOps(r, r.Intn(5), true)
		resp := c18P(0, 0, nil, nil)
		if r.Intn(3) == 0 {
			resp = c18P(uint16(r.U64()), c18RandFlags(r), nil, []Val{c18RandRR(r)})
		}
		c.Case("nbns.defend", L(ops...), c18RandRequest(r), resp)
		var rops []Val
		for i := r.Intn(4); i > 0; i-- {
			if r.Intn(4) == 0 {
				rops = append(rops, L(U(1), S(c18Scopes[r.Intn(len(c18Scopes))])))
			} else {
				rops = append(rops, L(U(0), S(c18Scopes[r.Intn(len(c18Scopes))]), B(c18IPs[r.Intn(len(c18IPs))]), U(uint64(uint16(r.U64Edge())))))
			}
		}
		c.Case("nbns.redirect", L(rops...), c18RandRequest(r), resp)
	}

	// 5. UDP truncation and TCP framing at their size limits
	for _, owners := range []int{1, 5, 9, 10, 11, 12, 13, 24} {
		if full := c18FullResponse(owners); full != nil {
			c.Case("nbns.udp_finish", B(full), U(uint64(owners)))
		}
		c.Check("c18.udp_truncation", U(uint64(owners)))
	}
	for _, q := range []int{1, 200, 1337, 1338, 1500} {
		if full, _ := c18TCPBig(q); full != nil {
			c.Case("nbns.tcp_frame", B(full), U(uint64(q)))
		}
		c.Check("c18.tcp_framing", U(uint64(q)))
	}
	for rep := 0; rep < c.N(4, 40); rep++ {
		c.Check("c18.tcp_pipelining", U(uint64(1+r.Intn(30))), U(r.U64()))
	}

	// 6. LLMNR server loop and client demultiplexer
	lnames := []string{"host.local", "a", "printer-01.office.example", "x.y.z"}
	for rep := 0; rep < c.N(120, 1500); rep++ {
		flags := uint16(r.U64()) &^ 0x8000
		if rep%40 == 7 {
			flags |= 0x8000 // a response sent to the server: ignored
		}
		c.Case("llmnr.server_roundtrip", U(uint64(uint16(r.U64Edge()))), U(uint64(flags)), S(lnames[r.Intn(len(lnames))]), U(uint64(r.Pick(1, 28, 255, 12))))
	}
	for rep := 0; rep < c.N(150, 2000); rep++ {
		var evs []Val
		pool := []uint16{1, 2, 3, 0, 0xFFFE, uint16(r.U64())}
		for i, n := 0, 1+r.Intn(12); i < n; i++ {
			id := pool[r.Intn(len(pool))]
			if id == 0xFFFF {
				id = 5
			}
			switch r.Intn(6) {
			case 0, 1:
				evs = append(evs, L(U(0), U(uint64(id))))
			case 2:
				evs = append(evs, L(U(1), U(uint64(id))))
			default:
				flags := uint16(0x8000)
				if r.Intn(4) == 0 {
					flags = uint16(r.U64())
				}
				evs = append(evs, L(U(2), U(uint64(id)), U(uint64(flags)), S(fmt.Sprintf("n%d.local", i))))
			}
		}
		c.Case("llmnr.client_demux", L(evs...))
	}
	for rep := 0; rep < c.N(6, 60); rep++ {
		c.Check("c18.llmnr_demux", U(uint64(r.Pick(1, 4, 16))), U(r.U64()))
	}
	c.Check("c18.llmnr_query")

	// 7. totality observations: every truncation and boundary corruption of valid requests, random bytes
	var seeds [][]byte
	for i := 0; i < c.N(2, 12); i++ {
		if raw, err := c18Packet(c18RandRequest(r)).Marshal(); err == nil {
			seeds = append(seeds, raw)
		}
	}
	regReq, _ := c18Packet(c18P(9, 0x2900, []Val{c18Q("ALPHA", "", 0x20, 1)}, []Val{c18R("ALPHA", "", 0x20, 1, 300, []byte{0, 0, 10, 0, 0, 1})})).Marshal()
	seeds = append(seeds, regReq)
	var inputs [][]byte
	for _, sd := range seeds {
		inputs = append(inputs, Malformed(sd, 64)...)
	}
	for i := 0; i < c.N(60, 2000); i++ {
		b := r.Bytes(r.Intn(80))
		if len(b) >= 12 && r.Bool() {
			b[4], b[5], b[6], b[8], b[10] = 0, byte(r.Intn(3)), 0, 0, 0
		}
		inputs = append(inputs, b)
	}
	for _, in := range inputs {
		c.Check("c18.total.tcp_handle_message", B(in))
		c.Check("c18.total.defend_redirect", B(in))
	}
	for i, in := range inputs {
		if c.Tier == "thorough" || i%4 == 0 {
			c.Check("c18.total.server_handle_packet", B(in))
			c.Check("c18.total.udp_handle_packet", B(in))
		}
		if i%16 == 0 {
			frame := append([]byte{byte(len(in) >> 8), byte(len(in))}, in...)
			c.Check("c18.total.tcp_stream", B(frame))
			c.Check("c18.total.tcp_stream", B(frame[:len(frame)/2]))
		}
	}
	lm := llmnr.NewMessage()
	lm.AddQuestion("host.local", llmnr.TypeA, llmnr.ClassIN)
	lq, _ := lm.Encode()
	for i, in := range Malformed(lq, 40) {
		if c.Tier == "thorough" || i%3 == 0 {
			c.Check("c18.total.llmnr_server_datagram", B(in))
		}
	}

	// 8. runtime support (NOT proof): isolation under load, shutdown at arbitrary moments
	for _, kind := range []int{4, 5} {
		for _, n := range []int{2, 8, 32} {
			c.Check("c18.isolation_burst", U(uint64(kind)), U(uint64(n)))
		}
	}
	for _, kind := range []int{3, 4, 5} {
		c.Check("c18.concurrent_clients", U(uint64(kind)), U(uint64(c.N(8, 24))), U(uint64(c.N(20, 100))))
	}
	for rc := 0; rc < 8; rc++ {
		c.Check("c18.challenge_rcode", U(uint64(rc)))
	}
	c.Note("runtime_support", "c18.isolation_burst, c18.concurrent_clients, c18.shutdown, c18.tcp_pipelining and the llmnr loopback oracles are runtime support, not proof")
}
