//go:build c06 || allprops

package main

import (
	"encoding/binary"
)

var c06Decoders = []string{
	"c06.string.unmarshal", "c06.oem.unmarshal", "c06.date.unmarshal", "c06.filetime.unmarshal",
	"c06.range32.unmarshal", "c06.range64.unmarshal", "c06.nmpipe.unmarshal", "c06.resumekey.unmarshal",
	"c06.dirinfo.unmarshal", "c06.fileattr.unmarshal", "c06.andx.unmarshal", "c06.version.unmarshal",
	"c06.params.unmarshal", "c06.data.unmarshal",
}

// c06Feed records a correspondence case for a decoder and the totality observation on the same input.
func c06Feed(c *Ctx, name string, b []byte) {
	c.Case(name, B(b))
	c.Check("c06.total", S(name), B(b))
}

func c06Mal(c *Ctx, name string, enc []byte, maxPos int) {
	for _, m := range Malformed(enc, maxPos) {
		c06Feed(c, name, m)
	}
}

func c06NoNul(r *Rng, n int) []byte {
	b := make([]byte, n)
	for i := range b {
		b[i] = byte(1 + r.Intn(255))
	}
	return b
}

func c06Suffix(r *Rng) []byte {
	n := r.Pick(0, 0, 1, 2, 3, 5, 9)
	b := r.Bytes(n)
	if n > 0 && r.Intn(3) == 0 {
		b[0] = 0
	}
	return b
}

func c06SSVal(format uint8, length int, buf []byte) Val {
	return L(U(uint64(format)), U(uint64(uint16(length))), B(buf))
}

func c06EncString(format uint8, buf []byte) []byte {
	switch format {
	case 1, 5:
		return cat([]byte{format, byte(len(buf)), byte(len(buf) >> 8)}, buf)
	case 3:
		return cat([]byte{format, byte(len(buf)), byte(len(buf) >> 8)}, buf, []byte{0})
	default:
		return cat([]byte{format}, buf, []byte{0})
	}
}

func genC06(c *Ctx) {
	genC06Strings(c)
	genC06Words(c)
	genC06Fixed(c)
	genC06Resume(c)
	genC06DirInfo(c)
	genC06Blocks(c)
	genC06Random(c)
}

func genC06Strings(c *Ctx) {
	r := c.Rng
	lens := []int{0, 1, 2, 3, 4, 7, 8, 12, 13, 20, 21, 22, 40, 127, 128, 255, 256, 257, 1000}
	for i := 0; i < c.N(12, 120); i++ {
		lens = append(lens, r.Intn(64))
	}
	big := []int{65532, 65533, 65535}
	for format := uint8(1); format <= 5; format++ {
		all := append(append([]int{}, lens...), big...)
		for _, n := range all {
			var buf []byte
			if format == 2 || format == 4 {
				buf = c06NoNul(r, n)
			} else {
				buf = r.Bytes(n)
			}
			suffix := c06Suffix(r)
			c.Check("c06.string", U(uint64(format)), B(buf), B(suffix))
			if format == 4 {
				c.Check("c06.oem", B(buf), B(suffix))
			}
			if n < 65532 || n == 65535 {
				c.Case("c06.string.marshal", c06SSVal(format, n, buf))
			}
			enc := cat(c06EncString(format, buf), suffix)
			c06Feed(c, "c06.string.unmarshal", enc)
			if n <= 64 {
				c06Feed(c, "c06.oem.unmarshal", enc)
				c.Case("c06.oem.marshal", c06SSVal(format, n, buf))
				// stale Length field, embedded NULs
				c.Case("c06.string.marshal", c06SSVal(format, n+1+r.Intn(70000), buf))
				c06Mal(c, "c06.string.unmarshal", enc, 5)
			}
		}
		// too long to marshal in formats 1/3/5; formats 2/4 wrap the Length field
		for _, n := range []int{65536, 65538} {
			buf := c06NoNul(r, n)
			c.Case("c06.string.marshal", c06SSVal(format, n, buf))
			c06Feed(c, "c06.string.unmarshal", cat([]byte{format}, buf, []byte{0, 1, 2}))
		}
		// declared lengths at the 16-bit boundary followed by enough bytes to pass the length check
		for _, l := range []int{65533, 65535} {
			for _, extra := range []int{-1, 0, 1} {
				body := r.Bytes(l + extra)
				c06Feed(c, "c06.string.unmarshal", cat([]byte{format, byte(l), byte(l >> 8)}, body))
			}
		}
		// short headers
		for _, b := range [][]byte{{format}, {format, 0}, {format, 1}, {format, 0, 0}, {format, 1, 0}, {format, 0xff, 0xff},
			{format, 0xfd, 0xff}, {format, 0xfe, 0xff, 1}, {format, 2, 0, 1}, {format, 2, 0, 1, 2}, {format, 2, 0, 1, 2, 3}} {
			c06Feed(c, "c06.string.unmarshal", b)
			c06Feed(c, "c06.oem.unmarshal", b)
		}
	}
	for _, format := range []uint8{0, 6, 7, 0x80, 0xff} {
		buf := r.Bytes(5)
		c.Case("c06.string.marshal", c06SSVal(format, 5, buf))
		c.Case("c06.oem.marshal", c06SSVal(format, 5, buf))
		c06Feed(c, "c06.string.unmarshal", cat([]byte{format, 5, 0}, buf, []byte{0}))
	}
	c06Feed(c, "c06.string.unmarshal", nil)
	c06Feed(c, "c06.oem.unmarshal", nil)
	// embedded NUL in the NUL-terminated formats (outside the domain: decodes to the prefix)
	for _, format := range []uint8{2, 4} {
		c.Case("c06.string.marshal", c06SSVal(format, 3, []byte{65, 0, 66}))
		c06Feed(c, "c06.string.unmarshal", []byte{format, 65, 0, 66, 0})
	}
	// OEM strings of the domain (format is forced to 4 whatever the struct says)
	for i := 0; i < c.N(40, 400); i++ {
		buf := c06NoNul(r, r.Intn(40))
		c.Check("c06.oem", B(buf), B(c06Suffix(r)))
		c.Case("c06.oem.marshal", c06SSVal(uint8(r.Intn(7)), len(buf), buf))
	}
}

// genC06Words covers the three 16-bit types exhaustively on the Go side.
func genC06Words(c *Ctx) {
	r := c.Rng
	step := c.N(13, 1)
	for w := 0; w < 65536; w++ {
		c.Check("c06.date.word", U(uint64(w)))
		y, m, d := 1980+(w>>9), (w>>5)&15, w&31
		sfx := []byte{}
		if w%3 == 0 {
			sfx = c06Suffix(r)
		}
		c.Check("c06.date", U(uint64(y)), U(uint64(m)), U(uint64(d)), B(sfx))
		c.Check("c06.nmpipe", U(uint64(w&255)), U(uint64(w>>8)), B(nil))
		c.Check("c06.fileattr", U(uint64(w)), B(sfx))
		if w%step == 0 || w < 64 || w > 65536-64 || w&(w-1) == 0 {
			in := []byte{byte(w), byte(w >> 8)}
			c06Feed(c, "c06.date.unmarshal", cat(in, sfx))
			c.Case("c06.date.marshal", L(U(uint64(y)), U(uint64(m)), U(uint64(d))))
			c06Feed(c, "c06.nmpipe.unmarshal", in)
			c.Case("c06.nmpipe.marshal", L(U(uint64(w&255)), U(uint64(w>>8))))
			c06Feed(c, "c06.fileattr.unmarshal", cat(in, sfx))
			c.Case("c06.fileattr.marshal", U(uint64(w)))
		}
	}
	// dates outside the representable domain wrap (observed, not part of the property)
	for _, d := range [][3]uint64{{0, 0, 0}, {1979, 1, 1}, {2108, 12, 31}, {65535, 255, 255}, {1980, 16, 32}, {2021, 12, 3}, {1980, 255, 0}, {1980, 0, 255}} {
		c.Case("c06.date.marshal", L(U(d[0]), U(d[1]), U(d[2])))
	}
	// pipe status followed by trailing bytes (test-pinned rejection: known finding)
	for i := 0; i < c.N(20, 200); i++ {
		ic, fl := uint64(r.Byte()), uint64(r.Byte())
		sfx := r.Bytes(1 + r.Intn(4))
		c.Check("c06.nmpipe", U(ic), U(fl), B(sfx))
		c06Feed(c, "c06.nmpipe.unmarshal", cat([]byte{byte(ic), byte(fl)}, sfx))
	}
	for _, name := range []string{"c06.date.unmarshal", "c06.nmpipe.unmarshal", "c06.fileattr.unmarshal"} {
		for _, b := range [][]byte{nil, {0}, {0xff}, {1, 2, 3}, {0, 0, 0, 0}} {
			c06Feed(c, name, b)
		}
	}
}

func genC06Fixed(c *Ctx) {
	r := c.Rng
	for i := 0; i < c.N(150, 2500); i++ {
		sfx := c06Suffix(r)
		// FILETIME
		lo, hi := r.U64Edge()&0xffffffff, r.U64Edge()&0xffffffff
		c.Check("c06.filetime", U(lo), U(hi), B(sfx))
		c.Case("c06.filetime.marshal", L(U(lo), U(hi)))
		enc := binary.LittleEndian.AppendUint32(binary.LittleEndian.AppendUint32(nil, uint32(lo)), uint32(hi))
		c06Feed(c, "c06.filetime.unmarshal", cat(enc, sfx))
		if i < c.N(6, 40) {
			c06Mal(c, "c06.filetime.unmarshal", enc, 8)
		}
		// LOCKING_ANDX_RANGE32
		pid, off, ln := r.U64Edge()&0xffff, r.U64Edge()&0xffffffff, r.U64Edge()&0xffffffff
		c.Check("c06.range32", U(pid), U(off), U(ln), B(sfx))
		c.Case("c06.range32.marshal", L(U(pid), U(off), U(ln)))
		enc = binary.LittleEndian.AppendUint16(nil, uint16(pid))
		enc = binary.LittleEndian.AppendUint32(enc, uint32(off))
		enc = binary.LittleEndian.AppendUint32(enc, uint32(ln))
		c06Feed(c, "c06.range32.unmarshal", cat(enc, sfx))
		if i < c.N(6, 40) {
			c06Mal(c, "c06.range32.unmarshal", enc, 10)
		}
		// LOCKING_ANDX_RANGE64
		f := []uint64{r.U64Edge() & 0xffff, r.U64Edge() & 0xffff, r.U64Edge() & 0xffffffff, r.U64Edge() & 0xffffffff,
			r.U64Edge() & 0xffffffff, r.U64Edge() & 0xffffffff}
		c.Check("c06.range64", U(f[0]), U(f[1]), U(f[2]), U(f[3]), U(f[4]), U(f[5]), B(sfx))
		c.Case("c06.range64.marshal", L(U(f[0]), U(f[1]), U(f[2]), U(f[3]), U(f[4]), U(f[5])))
		enc = binary.LittleEndian.AppendUint16(nil, uint16(f[0]))
		enc = binary.LittleEndian.AppendUint16(enc, uint16(f[1]))
		for _, v := range f[2:] {
			enc = binary.LittleEndian.AppendUint32(enc, uint32(v))
		}
		c06Feed(c, "c06.range64.unmarshal", cat(enc, sfx))
		if i < c.N(6, 40) {
			c06Mal(c, "c06.range64.unmarshal", enc, 20)
		}
		// AndX (offset is written big-endian by the code; C05's concern)
		cmd, res, aoff := uint64(r.Byte()), uint64(r.Byte()), r.U64Edge()&0xffff
		if i%4 == 0 {
			aoff = 0x0102
		}
		c.Check("c06.andx", U(cmd), U(res), U(aoff), B(sfx))
		c.Case("c06.andx.marshal", L(U(cmd), U(res), U(aoff)))
		c.Case("c06.andx.words", L(U(cmd), U(res), U(aoff)))
		enc = []byte{byte(cmd), byte(res), byte(aoff >> 8), byte(aoff)}
		c06Feed(c, "c06.andx.unmarshal", cat(enc, sfx))
		if i < c.N(6, 40) {
			c06Mal(c, "c06.andx.unmarshal", enc, 4)
		}
		// NTLM Version
		maj, min, build, rev := uint64(r.Byte()), uint64(r.Byte()), r.U64Edge()&0xffff, uint64(r.Byte())
		rsv := r.Bytes(3)
		if i%2 == 0 {
			rsv = []byte{0, 0, 0}
		}
		c.Check("c06.version", U(maj), U(min), U(build), B(rsv), U(rev), B(sfx))
		c.Case("c06.version.marshal", L(U(maj), U(min), U(build), B(rsv), U(rev)))
		enc = []byte{byte(maj), byte(min), byte(build), byte(build >> 8), rsv[0], rsv[1], rsv[2], byte(rev)}
		c06Feed(c, "c06.version.unmarshal", cat(enc, sfx))
		if i < c.N(6, 40) {
			c06Mal(c, "c06.version.unmarshal", enc, 8)
		}
	}
	c.Check("c06.version", U(10), U(0), U(18362), B([]byte{0, 0, 0}), U(15), B(nil))
}

func c06RKArgs(r *Rng) (Val, []byte) {
	res := r.Byte()
	srv := r.Bytes(16)
	cli := r.Bytes(4)
	if r.Intn(5) == 0 {
		srv = make([]byte, 16)
	}
	enc := cat([]byte{5, 21, 0, res}, srv, cli)
	return L(U(uint64(res)), B(srv), B(cli)), enc
}

func genC06Resume(c *Ctx) {
	r := c.Rng
	for i := 0; i < c.N(80, 1200); i++ {
		a, enc := c06RKArgs(r)
		sfx := c06Suffix(r)
		c.Check("c06.resumekey", a.L[0], a.L[1], a.L[2], B(sfx))
		// the embedded SMB_STRING may hold anything before Marshal: it is overwritten
		stale := c06SSVal(uint8(r.Intn(7)), r.Intn(70000), r.Bytes(r.Intn(30)))
		c.Case("c06.resumekey.marshal", L(stale, a.L[0], a.L[1], a.L[2]))
		c06Feed(c, "c06.resumekey.unmarshal", cat(enc, sfx))
		if i < c.N(5, 40) {
			c06Mal(c, "c06.resumekey.unmarshal", enc, 24)
		}
	}
	// resume keys carried in the other buffer formats and with other lengths
	for _, format := range []uint8{1, 2, 3, 4, 5, 6} {
		for _, n := range []int{0, 1, 20, 21, 22, 30, 255} {
			body := c06NoNul(r, n)
			c06Feed(c, "c06.resumekey.unmarshal", cat(c06EncString(format, body), c06Suffix(r)))
		}
	}
	for _, format := range []uint8{1, 3, 5} {
		l := 65532 + int(format)/2
		c06Feed(c, "c06.resumekey.unmarshal", cat([]byte{format, byte(l), byte(l >> 8)}, r.Bytes(l+1)))
	}
}

func genC06DirInfo(c *Ctx) {
	r := c.Rng
	names := []string{"", "A", "TEST.TXT", "FOLDER", "PODA.LIRIUS", "ABCDEFGHIJKL", "A B", "  ", "a.b.c", "\xff\xfe", "12345678.123"}
	for i := 0; i < c.N(120, 2000); i++ {
		rk, rkEnc := c06RKArgs(r)
		attr := uint64(r.Byte())
		lo, hi := r.U64Edge()&0xffffffff, r.U64Edge()&0xffffffff
		w := int(r.U64() & 0xffff)
		y, m, d := uint64(1980+(w>>9)), uint64((w>>5)&15), uint64(w&31)
		size := r.U64Edge() & 0xffffffff
		var name string
		if i < len(names) {
			name = names[i]
		} else {
			name = string(c06NoNul(r, r.Intn(13)))
		}
		sfx := c06Suffix(r)
		c.Check("c06.dirinfo", rk, U(attr), L(U(lo), U(hi)), L(U(y), U(m), U(d)), U(size), S(name), B(sfx))
		rkv := L(c06SSVal(5, 0, nil), rk.L[0], rk.L[1], rk.L[2])
		nm := c06SSVal(4, len(name), []byte(name))
		c.Case("c06.dirinfo.marshal", L(rkv, U(attr), L(U(lo), U(hi)), L(U(y), U(m), U(d)), U(size), nm))
		padded := []byte(name)
		for len(padded) < 12 {
			padded = append(padded, ' ')
		}
		enc := cat(rkEnc, []byte{byte(attr)})
		enc = binary.LittleEndian.AppendUint32(enc, uint32(lo))
		enc = binary.LittleEndian.AppendUint32(enc, uint32(hi))
		enc = binary.LittleEndian.AppendUint16(enc, uint16(w))
		enc = binary.LittleEndian.AppendUint32(enc, uint32(size))
		enc = cat(enc, []byte{4}, padded, []byte{0})
		c06Feed(c, "c06.dirinfo.unmarshal", cat(enc, sfx))
		if i < c.N(4, 30) {
			c06Mal(c, "c06.dirinfo.unmarshal", enc, 60)
			// the file-name window handed to SMB_STRING.Unmarshal can hold any buffer format
			for _, win := range [][]byte{{5, 0xff, 0xff}, {5, 0xfd, 0xff}, {5, 9, 0}, {5, 10, 0}, {5, 11, 0}, {5, 12, 0}, {1, 10, 0}, {1, 11, 0},
				{3, 9, 0}, {3, 10, 0}, {3, 11, 0}, {2, 65, 0}, {4, 0}, {2}, {6}} {
				m := exact(enc)
				copy(m[39:], win)
				c06Feed(c, "c06.dirinfo.unmarshal", m)
				c06Feed(c, "c06.dirinfo.unmarshal", m[:len(m)-1])
			}
		}
		// names that are too long or contain a NUL, odd embedded-string states
		if i < 20 {
			long := c06NoNul(r, 13+r.Intn(4))
			c.Case("c06.dirinfo.marshal", L(rkv, U(attr), L(U(lo), U(hi)), L(U(y), U(m), U(d)), U(size), c06SSVal(4, len(long), long)))
			withNul := []byte{65, 0, 66}
			c.Case("c06.dirinfo.marshal", L(rkv, U(attr), L(U(lo), U(hi)), L(U(y), U(m), U(d)), U(size), c06SSVal(uint8(r.Intn(6)), r.Intn(9), withNul)))
			m := exact(enc)
			m[41] = 0
			c06Feed(c, "c06.dirinfo.unmarshal", m)
		}
	}
	c06Feed(c, "c06.dirinfo.unmarshal", nil)
}

func genC06Blocks(c *Ctx) {
	r := c.Rng
	counts := []int{0, 1, 2, 3, 4, 5, 10, 12, 17, 50, 100, 127, 128, 129, 200, 254, 255}
	if c.Tier == "thorough" {
		counts = nil
		for n := 0; n <= 255; n++ {
			counts = append(counts, n)
		}
	}
	for _, n := range counts {
		for rep := 0; rep < c.N(2, 6); rep++ {
			ws := make([]Val, n)
			enc := []byte{byte(n)}
			for i := range ws {
				w := uint16(r.U64Edge())
				if rep == 0 {
					w = uint16(0x0102 + 0x0202*i)
				}
				ws[i] = U(uint64(w))
				enc = append(enc, byte(w>>8), byte(w))
			}
			sfx := c06Suffix(r)
			c.Check("c06.params", L(ws...), B(sfx))
			c.Case("c06.params.marshal", L(U(uint64(n)), L(ws...)))
			c06Feed(c, "c06.params.unmarshal", cat(enc, sfx))
			if n <= 5 {
				c06Mal(c, "c06.params.unmarshal", enc, 11)
				// WordCount that does not match
				c.Case("c06.params.marshal", L(U(uint64(n+1)), L(ws...)))
				c.Case("c06.params.marshal", L(U(uint64(2*n)), L(ws...)))
			}
		}
	}
	// more than 255 words: WordCount wraps
	for _, n := range []int{256, 257, 300, 512, 513} {
		ws := make([]Val, n)
		for i := range ws {
			ws[i] = U(uint64(uint16(r.U64())))
		}
		c.Case("c06.params.marshal", L(U(uint64(n%256)), L(ws...)))
		c.Case("c06.params.marshal", L(U(uint64((n/2)%256)), L(ws...)))
	}
	// accumulator sequences
	for i := 0; i < c.N(150, 2500); i++ {
		var ops []Val
		for k := r.Intn(6); k >= 0; k-- {
			if r.Intn(3) == 0 {
				ops = append(ops, L(U(0), U(uint64(uint16(r.U64Edge())))))
			} else {
				ops = append(ops, L(U(1), B(r.Bytes(r.Pick(0, 1, 2, 3, 4, 5, 8, 9, 20, 31)))))
			}
		}
		if i%50 == 0 {
			ops = append(ops, L(U(1), B(r.Bytes(r.Pick(509, 510, 511, 512, 513, 600)))))
		}
		c.Case("c06.params.ops", L(ops...))
	}
	c.Case("c06.params.ops", L())
	for _, n := range []int{1, 127, 128, 255, 256, 257} {
		var ops []Val
		for k := 0; k < n; k++ {
			ops = append(ops, L(U(0), U(uint64(k))))
		}
		c.Case("c06.params.ops", L(ops...))
	}

	// Data blocks
	sizes := []int{0, 1, 2, 3, 4, 5, 16, 40, 255, 256, 257, 1000, 65534, 65535}
	for _, n := range sizes {
		for rep := 0; rep < c.N(2, 6); rep++ {
			bs := r.Bytes(n)
			sfx := c06Suffix(r)
			c.Check("c06.data", B(bs), B(sfx))
			c.Case("c06.data.marshal", L(U(uint64(n)), B(bs)))
			enc := cat([]byte{byte(n), byte(n >> 8)}, bs)
			c06Feed(c, "c06.data.unmarshal", cat(enc, sfx))
			if n <= 5 {
				c06Mal(c, "c06.data.unmarshal", enc, 7)
				c.Case("c06.data.marshal", L(U(uint64(n+1)), B(bs)))
			}
			if n > 1000 && rep > 0 {
				break
			}
		}
	}
	for i := 0; i < c.N(100, 1500); i++ {
		bs := r.Bytes(r.Intn(48))
		c.Check("c06.data", B(bs), B(c06Suffix(r)))
	}
	for _, b := range [][]byte{nil, {0}, {1}, {0xff}, {0, 0}, {1, 0}, {0xff, 0xff}, {0, 1}, {2, 0, 1}} {
		c06Feed(c, "c06.data.unmarshal", b)
		c06Feed(c, "c06.params.unmarshal", b)
	}
	for i := 0; i < c.N(100, 1500); i++ {
		var ops []Val
		for k := r.Intn(5); k >= 0; k-- {
			ops = append(ops, L(U(uint64(r.Pick(0, 0, 0, 1))), B(r.Bytes(r.Pick(0, 1, 2, 3, 7, 16, 33)))))
		}
		c.Case("c06.data.ops", L(ops...))
	}
	c.Case("c06.data.ops", L())
	// ByteCount wraps at 65536 bytes
	for _, n := range []int{65535, 65536, 65537} {
		c.Case("c06.data.ops", L(L(U(0), B(r.Bytes(n-3))), L(U(0), B(r.Bytes(3)))))
	}
}

// genC06Random feeds every decoder random and lightly structured garbage (totality stream).
func genC06Random(c *Ctx) {
	r := c.Rng
	for _, name := range c06Decoders {
		for i := 0; i < c.N(60, 1200); i++ {
			b := r.Bytes(r.Intn(70))
			if len(b) > 0 && r.Bool() {
				b[0] = byte(r.Intn(7))
			}
			if len(b) > 2 && r.Intn(3) == 0 {
				b[1] = byte(r.Pick(0, 1, len(b)-3, len(b)-2, len(b)-4, 21, 0xfd, 0xfe, 0xff))
				b[2] = byte(r.Pick(0, 0, 0, 0xff))
			}
			c06Feed(c, name, b)
		}
	}
}
