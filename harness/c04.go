//go:build c04 || allprops

package main

import (
	"bytes"
	"fmt"
)

func init() {
	// Round trip on the real code: args (structure, fields). A fresh structure decodes the encoding to
	// equal fields and re-encodes to the same bytes.
	Oracle("c04.roundtrip", func(a []Val) (string, string) {
		name := a[0].Str()
		stage := "marshal"
		defer func() {
			if rec := recover(); rec != nil {
				panic(fmt.Sprintf("C04-PANIC/%s/%s: %v", name, stage, rec))
			}
		}()
		x := smbNew(name)
		cmdSet(x, a[1])
		b, err := x.Marshal()
		if err != nil {
			return "", "" // the assignment is outside the structure's domain (e.g. string too long)
		}
		stage = "unmarshal-own-encoding"
		sent := cmdGet(x) // Marshal may set derived fields (counts, string lengths, formats)
		y := smbNew(name)
		if _, err := y.Unmarshal(exact(b)); err != nil {
			return "C04/" + name + "/decode-rejects-own-encoding", fmt.Sprintf("%s: Unmarshal(Marshal(v)) fails: %v; v=%s bytes=%x", name, err, a[1].String(), b)
		}
		got := cmdGet(y)
		if f := firstDiff(cmdFieldNames(x), sent, got); f != "" {
			_ = f
			return "C04/" + name + "/fields-differ", fmt.Sprintf("%s.%s differs after the wire: sent %s got %s (bytes %x)", name, f, sent.String(), got.String(), b)
		}
		b2, err := y.Marshal()
		if err != nil || !bytes.Equal(b, b2) {
			return "C04/re-encode-after-decode", fmt.Sprintf("%s: re-encoding the decoded structure gives %x, first encoding %x", name, b2, b)
		}
		return "", ""
	})
	// One field through the wire: args (structure, fields, field index).  Finer than c04.roundtrip: the
	// finding key names the field, so a recorded loss of one field does not hide the loss of another.
	Oracle("c04.field_roundtrip", func(a []Val) (string, string) {
		name := a[0].Str()
		i := int(a[2].Int())
		x := smbNew(name)
		cmdSet(x, a[1])
		b, err := x.Marshal()
		if err != nil {
			return "", ""
		}
		sent := cmdGet(x)
		y := smbNew(name)
		ok := func() (ok bool) {
			defer func() {
				if recover() != nil {
					ok = false
				}
			}()
			_, err := y.Unmarshal(exact(b))
			return err == nil
		}()
		if !ok {
			return "", "" // reported by c04.roundtrip (decode-rejects-own-encoding / panic)
		}
		got := cmdGet(y)
		if i < len(sent.L) && i < len(got.L) && !valsEqual(sent.L[i], got.L[i]) {
			fname := cmdFieldNames(x)[i]
			return "C04/" + name + "/" + fname + "/lost", fmt.Sprintf("%s.%s does not survive the wire: sent %s got %s (bytes %x)", name, fname, sent.L[i].String(), got.L[i].String(), b)
		}
		return "", ""
	})
	// A Marshal that is refused leaves the structure as it was: args (structure, fields, index of a string field).
	// The string field is first given a value Marshal refuses (a buffer longer than the 16-bit length, or a
	// format code that does not exist); after the refusal the intended fields are assigned and Marshal must give
	// the bytes a pristine structure gives for them.
	Oracle("c04.marshal_after_refusal", func(a []Val) (string, string) {
		name := a[0].Str()
		i := int(a[2].Int())
		good := a[1]
		for _, badStr := range []Val{L(U(1), U(0), B(make([]byte, 70000))), L(U(0x77), U(3), B([]byte("abc")))} {
			bad := L(good.L...)
			if len(bad.L[i].L) == 1 { // OEM_STRING wraps an SMB_STRING
				bad.L[i] = L(badStr)
			} else {
				bad.L[i] = badStr
			}
			x := smbNew(name)
			cmdSet(x, bad)
			if _, err := x.Marshal(); err == nil {
				continue // this structure does not refuse the value (it overrides the format, truncates ...)
			}
			cmdSet(x, good)
			b1, err1 := x.Marshal()
			y := smbNew(name)
			cmdSet(y, good)
			b2, err2 := y.Marshal()
			if (err1 == nil) != (err2 == nil) || !bytes.Equal(b1, b2) {
				return "C04/" + name + "/marshal-after-refusal", fmt.Sprintf("%s: after a refused Marshal (field %s), Marshal of %s gives %x; a pristine structure gives %x", name, cmdFieldNames(x)[i], good.String(), b1, b2)
			}
		}
		return "", ""
	})
	// Slots: changing one fixed-width field changes only a contiguous run of bytes no wider than the
	// field: args (structure, fields, field index, new value)
	Oracle("c04.slot", func(a []Val) (string, string) {
		name := a[0].Str()
		x := smbNew(name)
		cmdSet(x, a[1])
		b1, err1 := x.Marshal()
		i := int(a[2].Int())
		f2 := L(a[1].L...)
		f2.L[i] = a[3]
		y := smbNew(name)
		cmdSet(y, f2)
		b2, err2 := y.Marshal()
		if err1 != nil || err2 != nil {
			return "", ""
		}
		fname := cmdFieldNames(x)[i]
		width := int(cmdFieldValues(x)[i].Type().Size())
		if len(b1) != len(b2) {
			return "C04/" + name + "/" + fname + "/slot", fmt.Sprintf("%s.%s: changing the field changes the length %d -> %d", name, fname, len(b1), len(b2))
		}
		lo, hi := -1, -1
		for k := range b1 {
			if b1[k] != b2[k] {
				if lo < 0 {
					lo = k
				}
				hi = k
			}
		}
		if lo >= 0 && hi-lo+1 > width {
			return "C04/" + name + "/" + fname + "/slot", fmt.Sprintf("%s.%s (width %d): bytes %d..%d change", name, fname, width, lo, hi)
		}
		if lo < 0 && a[1].L[i].String() != a[3].String() {
			return "C04/" + name + "/" + fname + "/slot", fmt.Sprintf("%s.%s: changing the value %s -> %s changes no byte", name, fname, a[1].L[i].String(), a[3].String())
		}
		return "", ""
	})
	Gen("C04", genC04)
}

func genC04(c *Ctx) {
	smbLoad()
	smbFactories()
	r := c.Rng
	translated, total := 0, 0
	for _, name := range smbNames {
		d := smbDescs[name]
		total++
		if d != nil && d.Translated {
			translated++
		}
		reps := c.N(12, 150)
		for i := 0; i < reps; i++ {
			fields := genFields(r, name, i%3 == 0)
			if i == 0 {
				fields = genFieldsMode(r, name, 2) // the smallest in-domain structure
			}
			c.Check("c04.roundtrip", S(name), fields)
			if i < 2 {
				// the intended assignment must itself be accepted: every string field gets format 0x04 and a
				// short NUL-free buffer
				good := L(fields.L...)
				fvs0 := cmdFieldValues(smbNew(name))
				for k, fv := range fvs0 {
					str := L(U(4), U(3), B([]byte{'a', 'b', byte('c' + k)}))
					switch fv.Type().Name() {
					case "SMB_STRING":
						good.L[k] = str
					case "OEM_STRING":
						good.L[k] = L(str)
					}
				}
				for k, fv := range fvs0 {
					if tn := fv.Type().Name(); tn == "SMB_STRING" || tn == "OEM_STRING" {
						c.Check("c04.marshal_after_refusal", S(name), good, I(int64(k)))
					}
				}
			}
			for k := range fields.L {
				c.Check("c04.field_roundtrip", S(name), fields, I(int64(k)))
			}
			if d != nil && d.Translated {
				out := c.Case("smb.marshal", S(name), fields, I(1))
				// decode what was encoded, and truncations of it
				if len(out.L) == 2 && len(out.L[0].L) == 1 && out.L[0].L[0].K == 'x' {
					enc := out.L[0].L[0].B
					c.Case("smb.unmarshal", S(name), B(enc))
					if i < 3 {
						for _, m := range Malformed(enc, 12) {
							c.Case("smb.unmarshal", S(name), B(m))
						}
					}
				}
			}
			// slots of integer fields
			x := smbNew(name)
			fvs := cmdFieldValues(x)
			if len(fvs) > 0 && i < reps/2 {
				k := r.Intn(len(fvs))
				switch fvs[k].Kind().String() {
				case "uint8", "uint16", "uint32", "uint64", "int16", "int32":
					isCount := false
					if d != nil {
						for _, f := range d.Fields {
							if f.GovernedBy == cmdFieldNames(x)[k] {
								isCount = true
							}
						}
					}
					if !isCount {
						c.Check("c04.slot", S(name), fields, I(int64(k)), randOfKind(r, fvs[k].Type(), false))
					}
				}
			}
		}
	}
	c.Note("structures_from_factories", total)
	c.Note("structures_translated", translated)
}
