//go:build c12 || allprops

package main

import (
	"bytes"
	"encoding/base64"
	"strings"
)

// cut points for a message of n bytes: a random subset, biased to block boundaries
func c12Cuts(r *Rng, n, bs int) []Val {
	var cuts []Val
	switch r.Intn(4) {
	case 0: // none
	case 1: // every bs-th position shifted by a small amount
		sh := r.Intn(3) - 1
		for p := bs + sh; p < n; p += bs {
			if p > 0 {
				cuts = append(cuts, I(int64(p)))
			}
		}
	default:
		p := 0
		for {
			p += r.Pick(0, 1, 1, 2, 3, bs-1, bs, bs+1, 2*bs, 5)
			if p > n {
				break
			}
			cuts = append(cuts, I(int64(p)))
			if len(cuts) > 40 {
				break
			}
		}
	}
	return cuts
}

// every way of cutting a message of n bytes (n small): subsets of {1..n-1}
func c12AllCuts(n int) [][]Val {
	var out [][]Val
	if n <= 1 {
		return [][]Val{nil}
	}
	for mask := 0; mask < 1<<(n-1); mask++ {
		var cuts []Val
		for p := 1; p < n; p++ {
			if mask&(1<<(p-1)) != 0 {
				cuts = append(cuts, I(int64(p)))
			}
		}
		out = append(out, cuts)
	}
	return out
}

func genC12Rc4(c *Ctx) {
	r := c.Rng
	// every key size 0..258 (0, 257, 258 must be refused), chunked data
	for kl := 0; kl <= 258; kl++ {
		for rep := 0; rep < c.N(2, 12); rep++ {
			n := r.Pick(0, 1, 2, 17, 64, 255, 256, 257, 300, r.Intn(600))
			c.Check("c12.rc4", B(r.Bytes(kl)), B(r.Bytes(n)), L(c12Cuts(r, n, 16)...))
		}
	}
	// all chunkings of short messages
	for n := 0; n <= 7; n++ {
		key, data := r.Bytes(r.Pick(1, 5, 16, 256)), r.Bytes(n)
		for _, cuts := range c12AllCuts(n) {
			c.Check("c12.rc4", B(key), B(data), L(cuts...))
		}
	}
	// long streams (i wraps around many times), degenerate keys
	for _, key := range [][]byte{{0}, {1}, {0xff}, bytes.Repeat([]byte{0}, 256), bytes.Repeat([]byte{0xff}, 256), []byte("Key"), []byte("Wiki"), []byte("Secret")} {
		n := c.N(3000, 70000)
		c.Check("c12.rc4", B(key), B(r.Bytes(n)), L(c12Cuts(r, n, 256)...))
	}

	// correspondence: operation sequences on one cipher object
	c.Case("rc4.new_empty")
	for _, kl := range []int{0, 257, 300} {
		c.Case("rc4.run", B(r.Bytes(kl)), L())
	}
	for kl := 1; kl <= 256; kl++ {
		if c.Tier != "thorough" && kl > 20 && kl < 250 && kl%16 != 0 {
			continue
		}
		c.Case("rc4.run", B(r.Bytes(kl)), L(L(I(0), B(r.Bytes(r.Intn(24))))))
	}
	for rep := 0; rep < c.N(150, 2500); rep++ {
		key := r.Bytes(r.Pick(1, 2, 3, 5, 8, 16, 16, 32, 255, 256))
		var ops []Val
		nops := r.Intn(6)
		for i := 0; i < nops; i++ {
			switch r.Intn(8) {
			case 0:
				ops = append(ops, L(I(1)))
			case 1:
				data := r.Bytes(r.Intn(20))
				ops = append(ops, L(I(2), B(data), I(int64(len(data)+r.Intn(4)))))
			default:
				ops = append(ops, L(I(0), B(r.Bytes(r.Pick(0, 1, 2, 15, 16, 17, 40, r.Intn(300))))))
			}
		}
		c.Case("rc4.run", B(key), L(ops...))
	}
	// dst shorter than src: panic, whatever came before
	for rep := 0; rep < c.N(10, 60); rep++ {
		data := r.Bytes(1 + r.Intn(20))
		c.Case("rc4.run", B(r.Bytes(16)), L(L(I(0), B(r.Bytes(5))), L(I(2), B(data), I(int64(r.Intn(len(data)))))))
	}
	// dst and src as windows of one array: identical, disjoint, adjacent, overlapping
	arenaLen := 24
	for doff := 0; doff < arenaLen; doff += 3 {
		for soff := 0; soff < arenaLen; soff += 2 {
			for _, slen := range []int{0, 1, 4, 7} {
				for _, extra := range []int{-1, 0, 1, 5} {
					dlen := slen + extra
					if dlen < 0 || doff+dlen > arenaLen || soff+slen > arenaLen {
						continue
					}
					c.Case("rc4.arena", B(r.Bytes(8)), B(r.Bytes(arenaLen)), I(int64(doff)), I(int64(dlen)), I(int64(soff)), I(int64(slen)))
				}
			}
		}
	}
}

func genC12Cmac(c *Ctx) {
	r := c.Rng
	for i := 0; i < 4; i++ {
		c.Check("c12.cmac_rfc4493", I(int64(i)))
	}
	type inst struct {
		kind int64
		kl   int
		bs   int
	}
	insts := []inst{{0, 16, 16}, {0, 24, 16}, {0, 32, 16}, {1, 8, 8}, {2, 24, 8}}
	for _, in := range insts {
		// every message length 0..4*bs+1, every mode, several chunkings and keys
		for n := 0; n <= 4*in.bs+1; n++ {
			for mode := int64(0); mode < 4; mode++ {
				for rep := 0; rep < c.N(2, 12); rep++ {
					c.Check("c12.cmac", I(in.kind), B(r.Bytes(in.kl)), B(r.Bytes(n)), L(c12Cuts(r, n, in.bs)...), I(mode))
				}
			}
		}
		// all chunkings of short messages; a message of bs+2 bytes cut everywhere around the boundary
		for n := 0; n <= 6; n++ {
			key, msg := r.Bytes(in.kl), r.Bytes(n)
			for _, cuts := range c12AllCuts(n) {
				c.Check("c12.cmac", I(in.kind), B(key), B(msg), L(cuts...), I(int64(r.Intn(2))))
			}
		}
		for rep := 0; rep < c.N(4, 40); rep++ {
			n := 2*in.bs + 2
			key, msg := r.Bytes(in.kl), r.Bytes(n)
			for p1 := 0; p1 <= n; p1++ {
				for _, p2 := range []int{p1, p1 + 1, in.bs, 2 * in.bs, n} {
					if p2 >= p1 && p2 <= n {
						c.Check("c12.cmac", I(in.kind), B(key), B(msg), L(I(int64(p1)), I(int64(p2))), I(int64(r.Intn(4))))
					}
				}
			}
		}
		// long messages
		for rep := 0; rep < c.N(3, 30); rep++ {
			n := r.Pick(255, 256, 257, 1000, 4096, r.Intn(5000))
			c.Check("c12.cmac", I(in.kind), B(r.Bytes(in.kl)), B(r.Bytes(n)), L(c12Cuts(r, n, in.bs)...), I(int64(r.Intn(4))))
		}
		// correspondence: operation sequences, state observed at the end (subkeys, ci, digest, p)
		for rep := 0; rep < c.N(60, 900); rep++ {
			var ops []Val
			nops := r.Intn(7)
			for i := 0; i < nops; i++ {
				switch r.Intn(10) {
				case 0:
					ops = append(ops, L(I(2)))
				case 1:
					ops = append(ops, L(I(3)))
				case 2:
					ops = append(ops, L(I(4)))
				case 3, 4, 5:
					ops = append(ops, L(I(1), B(r.Bytes(r.Pick(0, 0, 1, 3)))))
				default:
					ops = append(ops, L(I(0), B(r.Bytes(r.Pick(0, 1, 2, in.bs-1, in.bs, in.bs+1, 2*in.bs, 2*in.bs+1, r.Intn(4*in.bs))))))
				}
			}
			ops = append(ops, L(I(1), B(nil)))
			c.Case("cmac.run", I(in.kind), B(r.Bytes(in.kl)), I(0), L(ops...))
		}
	}
	// New with a cipher whose block size is not 8 or 16 panics; the fake cipher with 8 / 16 works
	for _, bs := range []int64{0, 1, 4, 7, 8, 9, 12, 15, 16, 17, 24, 32, 64} {
		c.Case("cmac.run", I(3), B(nil), I(bs), L(L(I(0), B(r.Bytes(int(bs)+3))), L(I(1), B(nil)), L(I(3)), L(I(4))))
	}
}

func genC12Pkcs7(c *Ctx) {
	r := c.Rng
	// the full grid: block size 0..255 x message length 0..600
	for bs := 0; bs <= 255; bs++ {
		for n := 0; n <= 600; n++ {
			c.Check("c12.pkcs7_grid", I(int64(bs)), I(int64(n)))
		}
	}
	for _, bs := range []int64{0, 1, 2, 3, 7, 8, 15, 16, 17, 64, 128, 200, 254, 255} {
		for _, n := range []int{0, 1, 2, 3, 6, 7, 8, 9, 14, 15, 16, 17, 31, 32, 33, 63, 64, 127, 128, 199, 200, 253, 254, 255, 256, 257, 509, 510, 511} {
			c.Case("pkcs7.pad", B(r.Bytes(n)), I(bs))
		}
	}
	for rep := 0; rep < c.N(200, 3000); rep++ {
		c.Case("pkcs7.pad", B(r.Bytes(r.Intn(80))), I(int64(r.Intn(256))))
	}

	feed := func(b []byte) {
		c.Check("c12.pkcs7_reject", B(b))
		c.Check("c12.total.unpad", B(b))
		c.Case("pkcs7.unpad", B(b))
	}
	// every buffer of length <= 4 over the alphabet {0,1,2,3,4,255}
	alpha := []byte{0, 1, 2, 3, 4, 255}
	var rec func(b []byte)
	rec = func(b []byte) {
		feed(b)
		if len(b) == 4 {
			return
		}
		for _, a := range alpha {
			rec(append(append([]byte{}, b...), a))
		}
	}
	rec(nil)
	// every pad length 1..255 (and 0) with a prefix; the same with one pad byte corrupted, with the
	// buffer one byte too short, with the first byte before the padding equal to the pad value
	for k := 0; k <= 255; k++ {
		pad := bytes.Repeat([]byte{byte(k)}, k)
		if k == 0 {
			pad = []byte{0}
		}
		for _, pl := range []int{0, 1, r.Intn(20), 255 - k, 256 - k, 300} {
			if pl < 0 {
				continue
			}
			feed(cat(r.Bytes(pl), pad))
		}
		feed(cat(bytes.Repeat([]byte{byte(k)}, 3), pad))
		if k >= 2 {
			feed(pad[1:]) // k-1 bytes of value k: pad length exceeds the buffer
			for _, pos := range []int{0, 1, k / 2, k - 2} {
				m := cat(r.Bytes(r.Intn(4)), pad)
				m[len(m)-k+pos] ^= byte(1 + r.Intn(255))
				feed(m)
			}
		}
	}
	// long runs of one value around the 255-byte window of the loop
	for _, v := range []byte{0, 1, 254, 255} {
		for _, n := range []int{253, 254, 255, 256, 257, 300, 511} {
			feed(bytes.Repeat([]byte{v}, n))
			m := bytes.Repeat([]byte{v}, n)
			m[0] ^= 0x10
			feed(m)
			if n > 256 {
				m2 := bytes.Repeat([]byte{v}, n)
				m2[n-256] ^= 0x10 // just outside the 255 bytes the loop looks at
				feed(m2)
			}
		}
	}
	for rep := 0; rep < c.N(300, 6000); rep++ {
		b := r.Bytes(r.Intn(40))
		if len(b) > 0 && r.Bool() {
			b[len(b)-1] = byte(r.Intn(6))
		}
		feed(b)
	}
}

var c12Passwords = []string{
	"", "a", "Podalirius", "password123", "Local*P4ssword!", "1234567", "12345678", "123456789",
	"123456789012345", "1234567890123456", "ÜberPasswörd", "пароль", "密码密码", "\U0001F511key\U0001F510",
	"\U00010000", "\U0010FFFF", "�", "퟿", "a\x00b", "tab\tnl\n",
	// invalid UTF-8: lone continuation, truncated sequences, encoded surrogate, overlong, > U+10FFFF, 0xFF
	"\x80", "a\xC3", "\xE2\x82", "\xF0\x9F\x94", "\xED\xA0\x80", "\xC0\x80", "\xE0\x80\x80", "\xF4\x90\x80\x80",
	"\xF5\x80\x80\x80", "\xFF\xFE", "ok\xC3\x28ok", "\xE2\x28\xA1", "\xF0\x28\x8C\xBC", "\xF0\x90\x28\xBC",
}

func c12RandString(r *Rng) string {
	var sb strings.Builder
	n := r.Intn(24)
	for i := 0; i < n; i++ {
		switch r.Intn(10) {
		case 0:
			sb.WriteRune(rune(0x80 + r.Intn(0x780)))
		case 1:
			sb.WriteRune(rune(0x800 + r.Intn(0xF800)))
		case 2:
			sb.WriteRune(rune(0x10000 + r.Intn(0x100000)))
		case 3:
			sb.WriteByte(byte(0x80 + r.Intn(0x80))) // usually invalid
		default:
			sb.WriteByte(byte(0x20 + r.Intn(0x5f)))
		}
	}
	return sb.String()
}

func genC12Gppp(c *Ctx) {
	r := c.Rng
	c.Check("c12.gpp_vector")
	pws := append([]string{}, c12Passwords...)
	for n := 0; n <= 40; n++ {
		pws = append(pws, r.StringOver("abcXYZ019!@# ", n))
	}
	for rep := 0; rep < c.N(150, 3000); rep++ {
		pws = append(pws, c12RandString(r))
	}
	for _, pw := range pws {
		c.Check("c12.gpp", S(pw))
		c.Case("gppp.runes", S(pw))
		c.Case("gppp.enc_utf16le", S(pw))
		enc := c.Case("gppp.encrypt", S(pw))
		if enc.K == 'x' {
			c.Case("gppp.decrypt_b64", B(enc.B))
			c.Check("c12.total.gppp_decrypt_b64", B(enc.B))
			c.Case("gppp.decrypt_b64", S(strings.TrimRight(string(enc.B), "=")))
			if raw, err := base64.StdEncoding.DecodeString(string(enc.B)); err == nil {
				c.Case("gppp.decrypt_bytes", B(raw))
			}
		}
	}
	// every byte as a one-byte string, every two-byte lead/continuation boundary pair
	for b := 0; b < 256; b++ {
		c.Case("gppp.runes", B([]byte{byte(b)}))
	}
	for _, lead := range []byte{0x7f, 0x80, 0xbf, 0xc0, 0xc1, 0xc2, 0xdf, 0xe0, 0xe1, 0xec, 0xed, 0xee, 0xef, 0xf0, 0xf1, 0xf3, 0xf4, 0xf5, 0xff} {
		for _, b1 := range []byte{0x00, 0x7f, 0x80, 0x8f, 0x90, 0x9f, 0xa0, 0xbf, 0xc0} {
			for _, b2 := range []byte{0x7f, 0x80, 0xbf, 0xc0} {
				c.Case("gppp.runes", B([]byte{lead, b1, b2}))
				c.Case("gppp.runes", B([]byte{lead, b1, b2, 0x80, 'x'}))
				c.Case("gppp.enc_utf16le", B([]byte{lead, b1, b2, 0xbf}))
			}
		}
	}

	// arbitrary plaintext bytes encrypted by the reference: unpaired surrogates, odd lengths
	decBytes := func(ct []byte) {
		c.Case("gppp.decrypt_bytes", B(ct))
		c.Check("c12.total.gppp_decrypt_bytes", B(ct))
	}
	units := []uint16{0, 'a', 0xff, 0x100, 0xd7ff, 0xd800, 0xdbff, 0xdc00, 0xdfff, 0xe000, 0xfffd, 0xffff}
	for rep := 0; rep < c.N(300, 5000); rep++ {
		var pt []byte
		n := r.Intn(20)
		for i := 0; i < n; i++ {
			u := units[r.Intn(len(units))]
			if r.Intn(3) == 0 {
				u = uint16(r.U64())
			}
			pt = append(pt, byte(u), byte(u>>8))
		}
		if r.Intn(4) == 0 {
			pt = append(pt, r.Byte()) // odd length
		}
		c.Check("c12.gpp_decrypt_ref", B(pt))
		decBytes(c12RefCBCEncrypt(pt))
		c.Case("gppp.dec_utf16le", B(pt))
	}
	for n := 0; n <= 33; n++ {
		pt := r.Bytes(n)
		c.Check("c12.gpp_decrypt_ref", B(pt))
		decBytes(c12RefCBCEncrypt(pt))
	}
	// malformed stream for DecryptBytes: truncations and boundary corruptions of valid ciphertexts
	// (the last two blocks decide the padding), random blocks, the empty input
	for rep := 0; rep < c.N(8, 80); rep++ {
		ct := c12RefCBCEncrypt(c12RefUTF16LE(c12RandString(r)))
		for _, m := range Malformed(ct, 0) {
			decBytes(m)
		}
		for k := 0; k < c.N(40, 200); k++ {
			m := exact(ct)
			pos := len(m) - 1 - r.Intn(min(len(m), 32))
			m[pos] ^= byte(1 << uint(r.Intn(8)))
			decBytes(m)
		}
	}
	for rep := 0; rep < c.N(400, 8000); rep++ {
		decBytes(r.Bytes(16 * (1 + r.Intn(3))))
	}
	// malformed stream for DecryptBase64: every truncation (all three re-padding cases), foreign
	// characters, '=' in odd places, CR/LF, short strings
	decB64 := func(s []byte) {
		c.Case("gppp.decrypt_b64", B(s))
		c.Check("c12.total.gppp_decrypt_b64", B(s))
	}
	for _, s := range []string{"", "=", "==", "===", "====", "A", "AA", "AAA", "AAAA", "AAAAA", "AA==", "AAA=", "A===", "AA=A", "\n", "AAAA\n", "AA\n==", "AA=\n=", "j1Uyj3Vx8TY9LtLZil2uAuZkFQA/4latT76ZwgdHdhw"} {
		decB64([]byte(s))
	}
	odd := []byte{'=', '\n', '\r', ' ', '-', '_', '@', '[', '`', '{', '/', '+', '*', 0, 0x7f, 0x80, 0xff, 'A', 'Q', 'x'}
	for rep := 0; rep < c.N(12, 120); rep++ {
		pt := c12RefUTF16LE(c12RandString(r))
		if r.Intn(3) == 0 {
			pt = append(pt, r.Byte())
		}
		enc := []byte(base64.StdEncoding.EncodeToString(c12RefCBCEncrypt(pt)))
		for cut := 0; cut <= len(enc); cut++ {
			decB64(enc[:cut])
		}
		for k := 0; k < c.N(20, 100); k++ {
			m := exact(enc)
			m[r.Intn(len(m))] = odd[r.Intn(len(odd))]
			if r.Intn(3) == 0 {
				m[len(m)-1-r.Intn(min(len(m), 4))] = odd[r.Intn(len(odd))]
			}
			decB64(m)
			if r.Intn(4) == 0 {
				p := r.Intn(len(m) + 1)
				decB64(cat(m[:p], []byte{odd[r.Intn(len(odd))]}, m[p:]))
			}
		}
	}
	for rep := 0; rep < c.N(200, 4000); rep++ {
		decB64([]byte(r.StringOver("ABCDEFGHIJKLMNOPQRSTUVWXYZabcdefghijklmnopqrstuvwxyz0123456789+/", r.Pick(21, 22, 23, 24, 43, 44, 64))))
	}
}
