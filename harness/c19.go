//go:build c19 || allprops

package main

import (
	"encoding/json"
	"fmt"
	"os"
	"path/filepath"
	"reflect"
	"sort"
	"strings"

	"github.com/TheManticoreProject/Manticore/network/ldap/ldap_attributes"
	"github.com/TheManticoreProject/Manticore/network/netbios"
	"github.com/TheManticoreProject/Manticore/network/smb/smb_v10/capabilities"
	"github.com/TheManticoreProject/Manticore/network/smb/smb_v10/message/commands/codes"
	"github.com/TheManticoreProject/Manticore/network/smb/smb_v10/message/header/flags"
	"github.com/TheManticoreProject/Manticore/network/smb/smb_v10/message/header/flags2"
	"github.com/TheManticoreProject/Manticore/network/smb/smb_v10/securitymode"
	"github.com/TheManticoreProject/Manticore/network/smb/smb_v10/subcommands"
	"github.com/TheManticoreProject/Manticore/windows/keycredential/key"
	"github.com/TheManticoreProject/Manticore/windows/nt_status"
)

type c19Const struct {
	Name, Type, Value string
}
type c19Pkg struct {
	Dir    string     `json:"dir"`
	Consts []c19Const `json:"consts"`
}

// tables.json is written by go2coq from the current source on every run (stage A).
var c19TablesCache map[string][]c19Const

func c19Tables() map[string][]c19Const {
	if c19TablesCache != nil {
		return c19TablesCache
	}
	c19TablesCache = c19LoadTables()
	return c19TablesCache
}

func c19LoadTables() map[string][]c19Const {
	exe, _ := os.Executable()
	p := filepath.Join(filepath.Dir(exe), "..", "coq", "Gen", "tables.json")
	raw, err := os.ReadFile(p)
	if err != nil {
		panic(err)
	}
	var pk []c19Pkg
	if err := json.Unmarshal(raw, &pk); err != nil {
		panic(err)
	}
	out := map[string][]c19Const{}
	for _, p := range pk {
		out[filepath.Base(p.Dir)] = p.Consts
	}
	return out
}

func u64(s string) uint64 {
	var v uint64
	fmt.Sscanf(s, "%d", &v)
	return v
}

// name functions: String() projected to (found, name) — "found" means the result is not the
// type's own fallback for values it has no name for.
var c19Names = map[string]func(v uint64) string{
	"CommandCode":                   func(v uint64) string { return codes.CommandCode(v).String() },
	"NtTransactSubcommand":          func(v uint64) string { return subcommands.NtTransactSubcommand(v).String() },
	"Transaction2Subcommand":        func(v uint64) string { return subcommands.Transaction2Subcommand(v).String() },
	"TransactionSubcommand":         func(v uint64) string { return subcommands.TransactionSubcommand(v).String() },
	"SESSION_MESSAGE_TYPE":          func(v uint64) string { return netbios.SESSION_MESSAGE_TYPE(v).String() },
	"SAMAccountType":                func(v uint64) string { return ldap_attributes.SAMAccountType(v).String() },
	"MSPKIEnrollmentFlag":           func(v uint64) string { return ldap_attributes.MSPKIEnrollmentFlag(v).String() },
	"PasswordProperties":            func(v uint64) string { return ldap_attributes.PasswordProperties(v).String() },
	"PasswordPropertiesDescription": func(v uint64) string { return ldap_attributes.PasswordProperties(v).Description() },
	"DomainFunctionalityLevel": func(v uint64) string {
		return strings.TrimPrefix(ldap_attributes.DomainFunctionalityLevel(v).String(), "Domain Functionality Level: ")
	},
	"NT_STATUS": func(v uint64) string { return nt_status.NT_STATUS(v).String() },
}
var c19Fallback = map[string]func(v uint64) string{
	"CommandCode":                   func(v uint64) string { return fmt.Sprintf("CommandCode(%d)", v) },
	"NtTransactSubcommand":          func(v uint64) string { return "UNKNOWN" },
	"Transaction2Subcommand":        func(v uint64) string { return "UNKNOWN" },
	"TransactionSubcommand":         func(v uint64) string { return "UNKNOWN" },
	"SESSION_MESSAGE_TYPE":          func(v uint64) string { return "UNKNOWN" },
	"SAMAccountType":                func(v uint64) string { return "UNKNOWN" },
	"MSPKIEnrollmentFlag":           func(v uint64) string { return fmt.Sprintf("UnknownEnrollmentFlag(%d)", v) },
	"PasswordProperties":            func(v uint64) string { return "" },
	"PasswordPropertiesDescription": func(v uint64) string { return "" },
	"DomainFunctionalityLevel":      func(v uint64) string { return fmt.Sprintf("? (%d)", v) },
	"NT_STATUS":                     func(v uint64) string { return "UNKNOWN" },
}
var c19Width = map[string]uint{"CommandCode": 8, "NtTransactSubcommand": 16, "Transaction2Subcommand": 16, "TransactionSubcommand": 16,
	"SESSION_MESSAGE_TYPE": 8, "SAMAccountType": 32, "MSPKIEnrollmentFlag": 32, "PasswordProperties": 32, "PasswordPropertiesDescription": 32,
	"DomainFunctionalityLevel": 8, "NT_STATUS": 32}

var c19Switch = map[string]func(v uint64) string{
	"KeyCredentialEntryType": func(v uint64) string { k := key.KeyCredentialEntryType{Value: uint8(v)}; return k.String() },
	"KeyCredentialVersion":   func(v uint64) string { k := key.KeyCredentialVersion{Value: uint32(v)}; return k.String() },
	"KeySource":              func(v uint64) string { return key.KeySource(v).String() },
	"KeyUsage":               func(v uint64) string { k := key.KeyUsage{Value: uint8(v)}; return k.String() },
	"CustomKeyInformationVolumeType": func(v uint64) string {
		k := key.CustomKeyInformationVolumeType{Value: uint8(v)}
		return k.String()
	},
}
var c19SwitchFallback = map[string]func(v uint64) string{
	"KeyCredentialEntryType":         func(v uint64) string { return fmt.Sprintf("Unknown KeyCredentialEntryType: %d", v) },
	"KeyCredentialVersion":           func(v uint64) string { return fmt.Sprintf("Unknown version: %d", v) },
	"KeySource":                      func(v uint64) string { return fmt.Sprintf("Unknown KeySource: %d", v) },
	"KeyUsage":                       func(v uint64) string { return fmt.Sprintf("Unknown KeyUsage: %d", v) },
	"CustomKeyInformationVolumeType": func(v uint64) string { return "None" },
}
var c19SwitchPrefix = map[string]string{"KeyCredentialEntryType": "KeyCredentialEntryType_", "KeyCredentialVersion": "KeyCredentialVersion_",
	"KeySource": "KeySource_", "KeyUsage": "KeyUsage_", "CustomKeyInformationVolumeType": "CustomKeyInformationVolumeType_"}

func projName(s, fallback string) Val {
	if s == fallback {
		return L(I(0), S(""))
	}
	return L(I(1), S(s))
}

// predicate methods are found by reflection so that the harness follows the source
func c19Pred(recv, meth string, w uint64) (bool, bool) {
	var rv reflect.Value
	switch recv {
	case "Flags":
		rv = reflect.ValueOf(flags.Flags(w))
	case "Flags2":
		rv = reflect.ValueOf(flags2.Flags2(w))
	case "SecurityMode":
		rv = reflect.ValueOf(securitymode.SecurityMode(w))
	default:
		return false, false
	}
	m := rv.MethodByName(meth)
	if !m.IsValid() {
		return false, false
	}
	out := m.Call(nil)
	return out[0].Bool(), true
}

func c19PredMethods(recv string) []string {
	var t reflect.Type
	switch recv {
	case "Flags":
		t = reflect.TypeOf(flags.Flags(0))
	case "Flags2":
		t = reflect.TypeOf(flags2.Flags2(0))
	case "SecurityMode":
		t = reflect.TypeOf(securitymode.SecurityMode(0))
	}
	var ms []string
	for i := 0; i < t.NumMethod(); i++ {
		m := t.Method(i)
		if m.Type.NumIn() == 1 && m.Type.NumOut() == 1 && m.Type.Out(0).Kind() == reflect.Bool {
			ms = append(ms, m.Name)
		}
	}
	sort.Strings(ms)
	return ms
}

// expected decomposition from the identifiers alone: names of declared single-bit constants set in w
func c19Expected(cs []c19Const, typ string, w uint64, keepPrefix bool, skip func(string) bool) []string {
	var idents []string
	for _, c := range cs {
		if typ != "" && c.Type != typ {
			continue
		}
		idents = append(idents, c.Name)
	}
	prefix := commonPrefix(idents)
	if i := strings.LastIndex(prefix, "_"); i >= 0 {
		prefix = prefix[:i+1]
	} else {
		prefix = ""
	}
	var out []string
	for _, c := range cs {
		if typ != "" && c.Type != typ {
			continue
		}
		v := u64(c.Value)
		if v == 0 || v&(v-1) != 0 || w&v == 0 || (skip != nil && skip(c.Name)) {
			continue
		}
		n := c.Name
		if !keepPrefix {
			n = strings.TrimPrefix(n, prefix)
		}
		out = append(out, n)
	}
	sort.Strings(out)
	return out
}

func commonPrefix(ss []string) string {
	if len(ss) == 0 {
		return ""
	}
	p := ss[0]
	for _, s := range ss[1:] {
		for !strings.HasPrefix(s, p) {
			p = p[:len(p)-1]
		}
	}
	return p
}

func sortedSplit(s, none string) []string {
	if s == none || s == "" {
		return nil
	}
	parts := strings.Split(s, "|")
	sort.Strings(parts)
	return parts
}

func init() {
	Impl("c19.flags", func(a []Val) Val { return S(flags.Flags(a[0].Uint()).String()) })
	Impl("c19.flags2", func(a []Val) Val { return S(flags2.Flags2(a[0].Uint()).String()) })
	Impl("c19.capabilities", func(a []Val) Val { return S(capabilities.Capabilities(a[0].Uint()).String()) })
	Impl("c19.uac", func(a []Val) Val { return S(ldap_attributes.UserAccountControl(a[0].Uint()).String()) })
	Impl("c19.ckiflags", func(a []Val) Val {
		var kf key.CustomKeyInformationFlags
		dirty(&kf)
		// a decomposition already handed out (a copy of the struct kept by the caller) is not rewritten by the
		// next parse into the same receiver
		kf.FromBytes(byte(^a[0].Uint()))
		kept := kf
		before := strings.Join(kept.Name, "|")
		kf.FromBytes(byte(a[0].Uint()))
		if strings.Join(kept.Name, "|") != before {
			panic("names of an earlier decomposition changed")
		}
		var l []Val
		for _, n := range kf.Name {
			l = append(l, S(n))
		}
		return L(l...)
	})
	Impl("c19.nt_error", func(a []Val) Val {
		v := a[0].Uint()
		err := nt_status.NT_STATUS(v).Error()
		if err == nil {
			return L(I(0), I(0))
		}
		return L(I(1), Bool(strings.Contains(err.Error(), fmt.Sprintf("0x%08x", uint32(v)))))
	})
	Impl("c19.pred", func(a []Val) Val {
		r, ok := c19Pred(a[0].Str(), a[1].Str(), a[2].Uint())
		if !ok {
			return VErr()
		}
		return Bool(r)
	})
	Impl("c19.name", func(a []Val) Val {
		t, v := a[0].Str(), a[1].Uint()
		return projName(c19Names[t](v), c19Fallback[t](v))
	})
	Impl("c19.switch", func(a []Val) Val {
		t, v := a[0].Str(), a[1].Uint()
		return projName(c19Switch[t](v), c19SwitchFallback[t](v))
	})

	// decomposition against the identifiers: args (kind, word)
	Oracle("c19.decompose", func(a []Val) (string, string) {
		tabs := c19Tables()
		kind, w := a[0].Str(), a[1].Uint()
		var got, want []string
		switch kind {
		case "flags":
			got = sortedSplit(flags.Flags(w).String(), "NONE")
			want = c19Expected(tabs["flags"], "", w, false, nil)
		case "flags2":
			got = sortedSplit(flags2.Flags2(w).String(), "NONE")
			want = c19Expected(tabs["flags2"], "", w, false, nil)
		case "capabilities":
			got = sortedSplit(capabilities.Capabilities(w).String(), "NONE")
			want = c19Expected(tabs["capabilities"], "Capabilities", w, true, nil)
		case "uac":
			s := ldap_attributes.UserAccountControl(w).String()
			if s != "" && !sort.StringsAreSorted(strings.Split(s, "|")) {
				return "C19/uac/order", fmt.Sprintf("UserAccountControl(%#x).String() = %q is not in sorted order", w, s)
			}
			got = sortedSplit(s, "")
			want = c19Expected(tabs["ldap_attributes"], "UserAccountControl", w, false, func(n string) bool { return strings.Contains(n, "RESERVED") })
			// GetFlags: the same decomposition as a list of flag values - every named bit that is set, once, ascending
			var gf []string
			prev := uint64(0)
			for i, f := range ldap_attributes.UserAccountControl(w).GetFlags() {
				if i > 0 && uint64(f) <= prev {
					return "C19/uac/getflags-order", fmt.Sprintf("UserAccountControl(%#x).GetFlags() is not strictly ascending at index %d", w, i)
				}
				prev = uint64(f)
				if uint64(f)&w == 0 || uint64(f)&(uint64(f)-1) != 0 {
					return "C19/uac/getflags-bit", fmt.Sprintf("UserAccountControl(%#x).GetFlags() contains %#x, not a single set bit of the word", w, uint64(f))
				}
				gf = append(gf, ldap_attributes.UserAccountControlMap[f])
			}
			sort.Strings(gf)
			if strings.Join(gf, "|") != strings.Join(got, "|") {
				return "C19/uac/getflags", fmt.Sprintf("UserAccountControl(%#x): GetFlags names %v, String names %v", w, gf, got)
			}
		}
		if strings.Join(got, "|") != strings.Join(want, "|") {
			return "C19/decompose/" + kind, fmt.Sprintf("%s(%#x): got %v, the set bits are named %v", kind, w, got, want)
		}
		return "", ""
	})
	// predicate depends only on its own bit: args (recv, method, word, bit to flip)
	Oracle("c19.pred_own_bit", func(a []Val) (string, string) {
		recv, meth, w, bit := a[0].Str(), a[1].Str(), a[2].Uint(), uint(a[3].Uint())
		r0, ok := c19Pred(recv, meth, w)
		if !ok {
			return "", ""
		}
		// find the bit it depends on at w: flipping any OTHER bit must not change it
		own := -1
		width := uint(16)
		for b := uint(0); b < width; b++ {
			r, _ := c19Pred(recv, meth, w^(1<<b))
			if r != r0 {
				if own >= 0 && own != int(b) {
					return "C19/pred/" + recv + "." + meth, fmt.Sprintf("%s.%s depends on bits %d and %d at %#x", recv, meth, own, b, w)
				}
				own = int(b)
			}
		}
		_ = bit
		if own < 0 {
			return "C19/pred/" + recv + "." + meth, fmt.Sprintf("%s.%s depends on no bit at %#x", recv, meth, w)
		}
		return "", ""
	})
	// no two predicates of one type and polarity test the same bit: args (recv)
	Oracle("c19.pred_distinct", func(a []Val) (string, string) {
		recv := a[0].Str()
		type bp struct {
			bit int
			pos bool
		}
		seen := map[bp]string{}
		for _, m := range c19PredMethods(recv) {
			r0, _ := c19Pred(recv, m, 0)
			for b := 0; b < 16; b++ {
				r, _ := c19Pred(recv, m, 1<<uint(b))
				if r != r0 {
					k := bp{b, r}
					if other, dup := seen[k]; dup {
						return "C19/pred/" + recv + "." + m, fmt.Sprintf("%s.%s and %s.%s both test bit %d (word %#x): one of them does not depend on its own bit", recv, other, recv, m, b, 1<<uint(b))
					}
					seen[k] = m
				}
			}
		}
		return "", ""
	})
	// every declared constant of a named type has a unique, non-placeholder name: args (table)
	Oracle("c19.names", func(a []Val) (string, string) {
		tabs := c19Tables()
		t := a[0].Str()
		pkgOf := map[string]string{"CommandCode": "codes", "NtTransactSubcommand": "subcommands", "Transaction2Subcommand": "subcommands",
			"TransactionSubcommand": "subcommands", "SESSION_MESSAGE_TYPE": "netbios", "SAMAccountType": "ldap_attributes",
			"MSPKIEnrollmentFlag": "ldap_attributes", "PasswordProperties": "ldap_attributes", "DomainFunctionalityLevel": "ldap_attributes", "NT_STATUS": "nt_status"}
		seen := map[string]uint64{}
		for _, c := range tabs[pkgOf[t]] {
			if c.Type != t {
				continue
			}
			v := u64(c.Value)
			n := c19Names[t](v)
			if n == c19Fallback[t](v) || n == "" || n == "UNKNOWN" || strings.HasPrefix(n, "Unknown") {
				return "C19/names/" + t + "/" + c.Name, fmt.Sprintf("%s (%s = %#x) has no proper name: %q", t, c.Name, v, n)
			}
			if pv, dup := seen[n]; dup && pv != v {
				return "C19/names/" + t + "/" + c.Name, fmt.Sprintf("%s: values %#x and %#x share the name %q", t, pv, v, n)
			}
			seen[n] = v
			if t == "NT_STATUS" && v != 0 {
				err := nt_status.NT_STATUS(v).Error()
				if err == nil || !strings.Contains(err.Error(), fmt.Sprintf("0x%08x", uint32(v))) {
					return "C19/nt_error/" + c.Name, fmt.Sprintf("%s = %#x: Error() = %v", c.Name, v, err)
				}
			}
			// the name is the identifier (minus prefix) for the identifier-named tables
			if t != "MSPKIEnrollmentFlag" && t != "DomainFunctionalityLevel" && t != "PasswordProperties" {
				if !strings.HasSuffix(c.Name, n) {
					// aliases share the row of their value
					alias := false
					for _, c2 := range tabs[pkgOf[t]] {
						if c2.Type == t && c2.Name != c.Name && u64(c2.Value) == v && strings.HasSuffix(c2.Name, n) {
							alias = true
						}
					}
					if !alias {
						return "C19/names/" + t + "/" + c.Name, fmt.Sprintf("%s = %#x is named %q", c.Name, v, n)
					}
				}
			}
		}
		return "", ""
	})
	Oracle("c19.switch_names", func(a []Val) (string, string) {
		tabs := c19Tables()
		t := a[0].Str()
		seen := map[string]uint64{}
		for _, c := range tabs["key"] {
			if !strings.HasPrefix(c.Name, c19SwitchPrefix[t]) {
				continue
			}
			v := u64(c.Value)
			n := c19Switch[t](v)
			if strings.HasPrefix(n, "Unknown") || n == "" {
				return "C19/switch/" + t + "/" + c.Name, fmt.Sprintf("%s = %d has no name: %q", c.Name, v, n)
			}
			if pv, dup := seen[n]; dup && pv != v {
				return "C19/switch/" + t + "/" + c.Name, fmt.Sprintf("%s: %d and %d share %q", t, pv, v, n)
			}
			seen[n] = v
		}
		return "", ""
	})
	Gen("C19", genC19)
}

func genC19(c *Ctx) {
	r := c.Rng
	tabs := c19Tables()
	// 8- and 16-bit flag words exhaustively
	for w := uint64(0); w < 256; w++ {
		c.Case("c19.flags", U(w))
		c.Check("c19.decompose", S("flags"), U(w))
		c.Case("c19.ckiflags", U(w))
	}
	step := uint64(c.N(7, 1))
	for w := uint64(0); w < 65536; w += step {
		c.Case("c19.flags2", U(w))
		c.Check("c19.decompose", S("flags2"), U(w))
		if w%16 == 0 {
			c.Case("c19.flags", U(w))
		}
	}
	// 32-bit words: every single bit, every pair of bits, random
	var words []uint64
	words = append(words, 0, 0xffffffff)
	for i := uint(0); i < 32; i++ {
		words = append(words, 1<<i, 0xffffffff^(1<<i))
		for j := i + 1; j < 32; j++ {
			words = append(words, 1<<i|1<<j)
		}
	}
	// every triple of bits (4960 words), and sparse random words (2..6 bits set): a word that is EXACTLY a
	// combination of a few named flags is what a table of precomputed answers would be keyed on
	for i := uint(0); i < 32; i++ {
		for j := i + 1; j < 32; j++ {
			for k := j + 1; k < 32; k++ {
				words = append(words, 1<<i|1<<j|1<<k)
			}
		}
	}
	for i := 0; i < c.N(2000, 40000); i++ {
		w := uint64(0)
		for n := 2 + r.Intn(5); n > 0; n-- {
			w |= 1 << uint(r.Intn(32))
		}
		words = append(words, w)
	}
	for i := 0; i < c.N(500, 20000); i++ {
		words = append(words, r.U64()&0xffffffff)
	}
	for _, w := range words {
		c.Case("c19.capabilities", U(w))
		c.Case("c19.uac", U(w))
		c.Check("c19.decompose", S("capabilities"), U(w))
		c.Check("c19.decompose", S("uac"), U(w))
	}
	// predicates: every method x every 8-bit word (securitymode, flags) / every single + pair of 16 bits
	for _, recv := range []string{"Flags", "Flags2", "SecurityMode"} {
		c.Check("c19.pred_distinct", S(recv))
		for _, m := range c19PredMethods(recv) {
			var ws []uint64
			if recv == "Flags2" {
				ws = append(ws, 0, 0xffff)
				for i := uint(0); i < 16; i++ {
					ws = append(ws, 1<<i, 0xffff^(1<<i))
					for j := i + 1; j < 16; j++ {
						ws = append(ws, 1<<i|1<<j)
					}
				}
			} else {
				for w := uint64(0); w < 256; w++ {
					ws = append(ws, w)
				}
			}
			for _, w := range ws {
				c.Case("c19.pred", S(recv), S(m), U(w))
			}
			for i := 0; i < 8; i++ {
				c.Check("c19.pred_own_bit", S(recv), S(m), U(r.U64()&0xffff), U(0))
			}
		}
	}
	// names: every declared constant, its neighbours, random values
	pkgOf := map[string]string{"CommandCode": "codes", "NtTransactSubcommand": "subcommands", "Transaction2Subcommand": "subcommands",
		"TransactionSubcommand": "subcommands", "SESSION_MESSAGE_TYPE": "netbios", "SAMAccountType": "ldap_attributes",
		"MSPKIEnrollmentFlag": "ldap_attributes", "PasswordProperties": "ldap_attributes", "PasswordPropertiesDescription": "ldap_attributes",
		"DomainFunctionalityLevel": "ldap_attributes", "NT_STATUS": "nt_status"}
	var tnames []string
	for t := range c19Names {
		tnames = append(tnames, t)
	}
	sort.Strings(tnames)
	declared := 0
	for _, t := range tnames {
		typ := t
		if t == "PasswordPropertiesDescription" {
			typ = "PasswordProperties"
		}
		mask := uint64(1)<<c19Width[t] - 1
		for _, k := range tabs[pkgOf[t]] {
			if k.Type != typ {
				continue
			}
			declared++
			v := u64(k.Value)
			c.Case("c19.name", S(t), U(v))
			c.Case("c19.name", S(t), U((v+1)&mask))
			if t == "NT_STATUS" {
				c.Case("c19.nt_error", U(v))
				c.Case("c19.nt_error", U((v+1)&mask))
			}
		}
		if c19Width[t] == 8 {
			for v := uint64(0); v < 256; v++ {
				c.Case("c19.name", S(t), U(v))
			}
		}
		for i := 0; i < c.N(50, 2000); i++ {
			c.Case("c19.name", S(t), U(r.U64Edge()&mask))
		}
		if t != "PasswordPropertiesDescription" {
			c.Check("c19.names", S(t))
		}
	}
	c.Note("declared_constants_enumerated", declared)
	var snames []string
	for t := range c19Switch {
		snames = append(snames, t)
	}
	sort.Strings(snames)
	for _, t := range snames {
		for v := uint64(0); v < 256; v++ {
			c.Case("c19.switch", S(t), U(v))
		}
		if t == "KeyCredentialVersion" || t == "KeySource" {
			for _, v := range []uint64{0x100, 0x200, 0x300, 0xffff, 0x10000} {
				c.Case("c19.switch", S(t), U(v))
			}
		}
		c.Check("c19.switch_names", S(t))
	}
}
