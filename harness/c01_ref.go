//go:build c01 || allprops

package main

// Independent references for the C01 oracles.  None of them calls Manticore code.

import (
	"crypto/des"
	"crypto/hmac"
	"crypto/sha1"
	"unicode"
	"unicode/utf8"

	xmd4 "golang.org/x/crypto/md4"
)

func refMD4(msg []byte) []byte {
	h := xmd4.New()
	h.Write(msg)
	return h.Sum(nil)
}

func refHex(b []byte) string {
	const digits = "0123456789abcdef"
	out := make([]byte, 0, 2*len(b))
	for _, x := range b {
		out = append(out, digits[x>>4], digits[x&15])
	}
	return string(out)
}

func refDec(n int) string {
	if n == 0 {
		return "0"
	}
	neg := n < 0
	if neg {
		n = -n
	}
	var d []byte
	for n > 0 {
		d = append([]byte{byte('0' + n%10)}, d...)
		n /= 10
	}
	if neg {
		return "-" + string(d)
	}
	return string(d)
}

// RFC 2781 section 2.1, little-endian serialisation; s is valid UTF-8 (invalid bytes become U+FFFD as in Go).
func refUTF16LE(s string) []byte {
	var out []byte
	for _, r := range s {
		u := uint32(r)
		if u < 0x10000 {
			out = append(out, byte(u&0xff), byte(u>>8))
			continue
		}
		u -= 0x10000
		hi, lo := 0xD800+(u>>10), 0xDC00+(u&0x3ff)
		out = append(out, byte(hi&0xff), byte(hi>>8), byte(lo&0xff), byte(lo>>8))
	}
	return out
}

// simple (one-to-one) Unicode lower-casing, code point by code point
func refLowerString(s string) string {
	var out []rune
	for _, r := range s {
		out = append(out, unicode.ToLower(r))
	}
	return string(out)
}

// class of a string for finding keys
func refClass(s string) string {
	if !utf8.ValidString(s) {
		return "invalid-utf8"
	}
	cls := "ascii"
	for _, r := range s {
		switch {
		case r >= 0x10000:
			return "non-bmp"
		case r >= 0x100:
			cls = "bmp"
		case r >= 0x80 && cls == "ascii":
			cls = "latin1"
		}
	}
	return cls
}

// MS-NLMP / Samba str_to_key with odd parity in the low bit of every byte
func refStrToKey(s []byte) []byte {
	k := []byte{
		s[0] >> 1,
		((s[0] & 0x01) << 6) | (s[1] >> 2),
		((s[1] & 0x03) << 5) | (s[2] >> 3),
		((s[2] & 0x07) << 4) | (s[3] >> 4),
		((s[3] & 0x0f) << 3) | (s[4] >> 5),
		((s[4] & 0x1f) << 2) | (s[5] >> 6),
		((s[5] & 0x3f) << 1) | (s[6] >> 7),
		s[6] & 0x7f,
	}
	for i := range k {
		b := k[i] << 1
		ones := 0
		for j := 1; j < 8; j++ {
			if b&(1<<uint(j)) != 0 {
				ones++
			}
		}
		if ones%2 == 0 {
			b |= 1
		}
		k[i] = b
	}
	return k
}

// LMOWFv1 (MS-NLMP 3.3.1) for a 7-bit ASCII password
func refLM(pw string) []byte {
	p := make([]byte, 14)
	for i := 0; i < len(pw) && i < 14; i++ {
		c := pw[i]
		if 'a' <= c && c <= 'z' {
			c -= 32
		}
		p[i] = c
	}
	magic := []byte("KGS!@#$%")
	out := make([]byte, 16)
	for h := 0; h < 2; h++ {
		c, err := des.NewCipher(refStrToKey(p[7*h : 7*h+7]))
		if err != nil {
			panic(err)
		}
		c.Encrypt(out[8*h:8*h+8], magic)
	}
	return out
}

// RFC 8018 section 5.2 with PRF = HMAC-SHA-1, written out
func refPBKDF2SHA1(password, salt []byte, c, dkLen int) []byte {
	var dk []byte
	for i := 1; len(dk) < dkLen; i++ {
		m := hmac.New(sha1.New, password)
		m.Write(salt)
		m.Write([]byte{byte(i >> 24), byte(i >> 16), byte(i >> 8), byte(i)})
		u := m.Sum(nil)
		t := append([]byte{}, u...)
		for j := 2; j <= c; j++ {
			m = hmac.New(sha1.New, password)
			m.Write(u)
			u = m.Sum(nil)
			for k := range t {
				t[k] ^= u[k]
			}
		}
		dk = append(dk, t...)
	}
	return dk[:dkLen]
}
