//go:build c02 || allprops

package main

// The models of the NTLMv2 response builders take the time stamp as ONE input: that is only faithful if the code
// reads the clock once per response.  How often the clock is read is a fact of the source text, so it is read from
// /repo's working tree at run time (go/ast) and emitted as a correspondence case; the model side answers with the
// value its definition assumes (Model/DispC02.v).
import (
	"go/ast"
	"go/parser"
	"go/token"
	"os"
	"path/filepath"
)

func c02Repo() string {
	if r := os.Getenv("VERIF_REPO"); r != "" {
		return r
	}
	return "/repo"
}

// callsIn counts, per function of the file, the call expressions whose callee prints as one of the names
func c02CallCounts(file string, callees ...string) map[string]map[string]int {
	fset := token.NewFileSet()
	f, err := parser.ParseFile(fset, filepath.Join(c02Repo(), file), nil, 0)
	out := map[string]map[string]int{}
	if err != nil {
		return out
	}
	want := map[string]bool{}
	for _, c := range callees {
		want[c] = true
	}
	for _, d := range f.Decls {
		fd, ok := d.(*ast.FuncDecl)
		if !ok || fd.Body == nil {
			continue
		}
		m := map[string]int{}
		ast.Inspect(fd.Body, func(n ast.Node) bool {
			ce, ok := n.(*ast.CallExpr)
			if !ok {
				return true
			}
			name := ""
			switch fn := ce.Fun.(type) {
			case *ast.Ident:
				name = fn.Name
			case *ast.SelectorExpr:
				if x, ok := fn.X.(*ast.Ident); ok {
					name = x.Name + "." + fn.Sel.Name
				}
			}
			if want[name] {
				m[name]++
			}
			return true
		})
		out[fd.Name.Name] = m
	}
	return out
}

func init() {
	// (no args) -> (time.Now calls in createNTLMv2Blob, createNTLMv2Blob calls in calculateNTLMv2Response,
	//               time.Now calls anywhere else in ntlm.go, time.Now calls in crypto/ntlmv2/ntlmv2.go)
	Impl("c02.fact.clock_reads", func(a []Val) Val {
		cc := c02CallCounts("network/smb/smb_v10/spnego/ntlm/ntlm.go", "time.Now", "createNTLMv2Blob")
		other := 0
		for fn, m := range cc {
			if fn != "createNTLMv2Blob" {
				other += m["time.Now"]
			}
		}
		v2 := 0
		for _, m := range c02CallCounts("crypto/ntlmv2/ntlmv2.go", "time.Now") {
			v2 += m["time.Now"]
		}
		return L(I(int64(cc["createNTLMv2Blob"]["time.Now"])), I(int64(cc["calculateNTLMv2Response"]["createNTLMv2Blob"])), I(int64(other)), I(int64(v2)))
	})
}
