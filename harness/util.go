package main

import (
	"bytes"
	"fmt"
	"reflect"
	"strings"
	"unsafe"
)

// ---- how the harness hands byte strings to the implementation, and what it watches afterwards ----
//
// The models are pure functions of their arguments.  The implementation is only faithful to that if it
// (a) does not write into the buffers it is given, (b) does not keep using them after it returns, (c) does not
// depend on the spare capacity behind them, and (d) returns memory of its own (a result does not change
// when the implementation is called again).  None of these is visible to a test that builds a fresh buffer
// per call and looks at each result once, so the framework arranges for them to be visible:
//   - every buffer passed through exact() during calls of one entry point lives at the SAME address (a
//     per-entry-point arena): an alias the implementation kept from an earlier call sees the bytes of the
//     next input, and the result differs from the model's;
//   - after each call the buffers handed over are compared with the arguments: a difference is reported;
//   - every byte slice an entry point returns is remembered (the slice itself, and a copy): if a LATER
//     call changes it, that is reported;
//   - a sample of calls is repeated in "roomy" mode, where each buffer is followed by spare capacity full
//     of garbage: the result must be the same.
const arenaSize = 1 << 17

var curImpl string // entry point being executed ("" outside implementation calls)
var curCall int
var arenas = map[string][]byte{}
var arenaOff int
var roomy bool

type handed struct{ buf, arg []byte }

var callInputs []handed

// readsOnly: entry points that only READ the bytes they are given (decoders, parsers, verifiers, and the builders
// that take a parsed message): they have no business writing behind the end of their input.  Encoders with append
// semantics (pkcs7.Pad, Data.Add, hash.Hash.Sum, the NTLMv1 key padding) are not in this class.
func readsOnly(fn string) bool {
	for _, k := range []string{"unmarshal", "decode", "parse", "from_", "extract", "process_challenge", "create_authenticate", "verify", "unpad", "recv"} {
		if strings.Contains(fn, k) {
			return true
		}
	}
	return false
}

// entry points whose objects legitimately keep the caller's buffers across calls of the harness
var noArena = map[string]bool{
	"rc4.run": true, "rc4.arena": true, // XORKeyStream is exercised in place (dst == src) on purpose
}

// exact returns a copy whose capacity equals its length, so that any out-of-bounds slice
// expression panics instead of silently reading spare capacity.
func exact(b []byte) []byte {
	if curImpl == "" || noArena[curImpl] {
		c := make([]byte, len(b))
		copy(c, b)
		return c[:len(b):len(b)]
	}
	if roomy {
		c := make([]byte, len(b)+32)
		for i := range c {
			c[i] = 0xA5
		}
		copy(c, b)
		s := c[:len(b)]
		callInputs = append(callInputs, handed{s, b})
		return s
	}
	if len(b) > arenaSize-arenaOff {
		c := make([]byte, len(b))
		copy(c, b)
		s := c[:len(b):len(b)]
		callInputs = append(callInputs, handed{s, b})
		return s
	}
	a := arenas[curImpl]
	if a == nil {
		a = make([]byte, arenaSize)
		arenas[curImpl] = a
	}
	s := a[arenaOff : arenaOff+len(b) : arenaOff+len(b)]
	copy(s, b)
	arenaOff += len(b)
	callInputs = append(callInputs, handed{s, b})
	return s
}

func overlaps(a, b []byte) bool {
	if cap(a) == 0 || cap(b) == 0 {
		return false
	}
	a0 := uintptr(unsafe.Pointer(unsafe.SliceData(a)))
	b0 := uintptr(unsafe.Pointer(unsafe.SliceData(b)))
	return a0 < b0+uintptr(cap(b)) && b0 < a0+uintptr(cap(a))
}

type trackedOut struct {
	orig, snap []byte
	fn         string
	call       int
}

var outRing [192]trackedOut
var outN int

// trackOutput remembers a byte slice the implementation returned (called by B inside an implementation call)
func trackOutput(b []byte) {
	if curImpl == "" || len(b) == 0 || noArena[curImpl] {
		return
	}
	for _, h := range callInputs {
		if overlaps(b, h.buf) {
			return // a view of the input: legitimately zero-copy
		}
	}
	if a := arenas[curImpl]; a != nil && overlaps(b, a) {
		return
	}
	outRing[outN%len(outRing)] = trackedOut{b, append([]byte{}, b...), curImpl, curCall}
	outN++
}

// afterCall reports (key, detail) when the call just finished wrote into its inputs, or when a slice returned
// by an EARLIER call has changed since.
func afterCall(prop, fn string) (string, string) {
	for _, h := range callInputs {
		if !bytes.Equal(h.buf, h.arg) {
			return prop + "/writes-into-input/" + fn, fmt.Sprintf("%s changed the buffer it was given: %x became %x", fn, trunc16(h.arg), trunc16(h.buf))
		}
		// roomy mode: the spare capacity behind the buffer (what follows it in the caller's memory) is untouched
		if roomy && readsOnly(fn) && cap(h.buf) > len(h.buf) {
			for _, x := range h.buf[len(h.buf):cap(h.buf)] {
				if x != 0xA5 {
					return prop + "/writes-into-input/" + fn, fmt.Sprintf("%s wrote behind the end of the %d-byte buffer it was given (into the caller's memory that follows it): %x", fn, len(h.buf), h.buf[len(h.buf):cap(h.buf)])
				}
			}
		}
	}
	for i := range outRing {
		t := &outRing[i]
		if t.orig != nil && t.call == curCall {
			// what the call just finished returned is judged from now on (an entry point that runs a history
			// on one object may legitimately return views of that object between its own steps)
			t.snap = append(t.snap[:0], t.orig...)
			continue
		}
		if t.orig != nil && t.call < curCall && !bytes.Equal(t.orig, t.snap) {
			k, d := prop+"/result-changes-later/"+t.fn, fmt.Sprintf("bytes returned by %s (%x...) were changed by a later call of %s (now %x...): the result is not memory of its own", t.fn, trunc16(t.snap), fn, trunc16(t.orig))
			t.orig = nil
			return k, d
		}
	}
	return "", ""
}

func trunc16(b []byte) []byte {
	if len(b) > 48 {
		return b[:48]
	}
	return b
}

// Truncations returns every proper prefix of b (including the empty one) and b itself.
func Truncations(b []byte) [][]byte {
	out := make([][]byte, 0, len(b)+1)
	for i := 0; i <= len(b); i++ {
		out = append(out, exact(b[:i]))
	}
	return out
}

var boundaryBytes = []byte{0x00, 0x01, 0x7f, 0x80, 0xff}

// Corruptions returns every single-byte boundary-value corruption of b (positions < maxPos).
func Corruptions(b []byte, maxPos int) [][]byte {
	var out [][]byte
	for pos := 0; pos < len(b) && pos < maxPos; pos++ {
		for _, v := range boundaryBytes {
			if b[pos] == v {
				continue
			}
			m := exact(b)
			m[pos] = v
			out = append(out, m)
		}
	}
	return out
}

// Malformed is the malformed stream of DESIGN 4.2 for one valid encoding.
func Malformed(b []byte, maxPos int) [][]byte {
	return append(Truncations(b), Corruptions(b, maxPos)...)
}

func cat(bs ...[]byte) []byte {
	var out []byte
	for _, b := range bs {
		out = append(out, b...)
	}
	return out
}

func trunc(s string, n int) string {
	if len(s) > n {
		return s[:n] + "..."
	}
	return s
}

// dirty fills every settable field of the value p points to with non-zero garbage.  Decoder wrappers call it on
// the receiver before decoding: a decoder overwrites everything it reports, so decoding into a receiver that
// already holds something must give what decoding into a fresh one gives (the models are written from a fresh
// receiver; this is what makes that assumption checked instead of assumed).
func dirty(p interface{}) {
	v := reflect.ValueOf(p)
	if v.Kind() != reflect.Ptr || v.IsNil() {
		return
	}
	dirtyValue(v.Elem(), 0)
}

func dirtyValue(v reflect.Value, depth int) {
	if !v.CanSet() || depth > 4 {
		return
	}
	switch v.Kind() {
	case reflect.Uint8, reflect.Uint16, reflect.Uint32, reflect.Uint64, reflect.Uint:
		v.SetUint(0xA5A5A5A5A5A5A5A5 >> (64 - uint(v.Type().Bits())))
	case reflect.Int8, reflect.Int16, reflect.Int32, reflect.Int64, reflect.Int:
		v.SetInt(-0x5b)
	case reflect.Bool:
		v.SetBool(true)
	case reflect.String:
		v.SetString("DIRTY.dirty")
	case reflect.Slice:
		n := 3
		s := reflect.MakeSlice(v.Type(), n, n)
		for i := 0; i < n; i++ {
			dirtyValue(s.Index(i), depth+1)
		}
		v.Set(s)
	case reflect.Array:
		for i := 0; i < v.Len(); i++ {
			dirtyValue(v.Index(i), depth+1)
		}
	case reflect.Struct:
		for i := 0; i < v.NumField(); i++ {
			dirtyValue(v.Field(i), depth+1)
		}
	}
}
