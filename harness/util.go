package main

// exact returns a copy whose capacity equals its length, so that any out-of-bounds slice
// expression panics instead of silently reading spare capacity.
func exact(b []byte) []byte {
	c := make([]byte, len(b))
	copy(c, b)
	return c[:len(b):len(b)]
}

// Truncations returns every proper prefix of b (including the empty one) and b itself.
func Truncations(b []byte) [][]byte {
	out := make([][]byte, 0, len(b)+1)
	for i := 0; i <= len(b); i++ {
		out = append(out, exact(b[:i]))
	}
	return out
}

var boundaryBytes = []byte{0x00, 0x01, 0x7f, 0x80, 0xff}

// Corruptions returns every single-byte boundary-value corruption of b (positions < maxPos).
func Corruptions(b []byte, maxPos int) [][]byte {
	var out [][]byte
	for pos := 0; pos < len(b) && pos < maxPos; pos++ {
		for _, v := range boundaryBytes {
			if b[pos] == v {
				continue
			}
			m := exact(b)
			m[pos] = v
			out = append(out, m)
		}
	}
	return out
}

// Malformed is the malformed stream of DESIGN 4.2 for one valid encoding.
func Malformed(b []byte, maxPos int) [][]byte {
	return append(Truncations(b), Corruptions(b, maxPos)...)
}

func cat(bs ...[]byte) []byte {
	var out []byte
	for _, b := range bs {
		out = append(out, b...)
	}
	return out
}
