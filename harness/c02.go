//go:build c02 || allprops

package main

// C02 — NTLMv1/NTLMv2 responses verify under an independent MS-NLMP verifier.
//
// Impl runners for crypto/ntlmv1, crypto/ntlmv2 and the response helpers of
// network/smb/smb_v10/spnego/ntlm (reached through CreateAuthenticateMessage), an independent
// verifier written from MS-NLMP (DESL, NTOWFv2, NTLMv2_CLIENT_CHALLENGE, hashcat -m 5600 field
// rules) on top of the Go standard library and x/crypto/md4, and the generators.
//
// Randomness and time.  The client challenges are read with crypto/rand.Read; the harness replaces
// crypto/rand.Reader for the duration of a call, so they are INPUTS.  The time stamp comes from
// time.Now(), which cannot be replaced: the generators run the real code once, recover the time
// stamp from the produced blob and record the case with that time stamp as an extra argument and
// the REAL output (c02Record).  The Impl registered under the same name (used only by --replay of a
// correspondence case) runs the real code again and, when its result verifies under the reference
// key for the time stamp it used, re-dates it to the requested time stamp; otherwise it returns the
// real result unchanged (which then differs from the expectation).

import (
	"bytes"
	"crypto/des"
	"crypto/hmac"
	"crypto/md5"
	crand "crypto/rand"
	"encoding/binary"
	"encoding/hex"
	"fmt"
	"io"
	"math/bits"
	"strings"
	"sync"
	"time"
	"unicode/utf16"

	"golang.org/x/crypto/md4"

	"github.com/TheManticoreProject/Manticore/crypto/lm"
	"github.com/TheManticoreProject/Manticore/crypto/ntlmv1"
	"github.com/TheManticoreProject/Manticore/crypto/ntlmv2"
	"github.com/TheManticoreProject/Manticore/network/smb/smb_v10/spnego/ntlm"
)

// ---------------------------------------------------------------------------------------------
// The independent reference (MS-NLMP 3.3.1, 3.3.2, 6; 2.2.2.7; 2.2.2.1)

// c02RefStrToKey spreads 56 key bits over 8 bytes (7 bits in the high positions) and sets the low bit
// of every byte so that the byte has odd parity.
func c02RefStrToKey(k7 []byte) []byte {
	var v uint64
	for _, b := range k7 {
		v = v<<8 | uint64(b)
	}
	out := make([]byte, 8)
	for i := 0; i < 8; i++ {
		b := (byte(v>>(uint(7-i)*7)) & 0x7f) << 1
		if bits.OnesCount8(b)%2 == 0 {
			b |= 1
		}
		out[i] = b
	}
	return out
}

// c02RefDESL is DESL(K, D) for a 16-byte K and an 8-byte D.
func c02RefDESL(k16, d []byte) []byte {
	k := append(append([]byte{}, k16...), 0, 0, 0, 0, 0)
	var out []byte
	for i := 0; i < 3; i++ {
		c, err := des.NewCipher(c02RefStrToKey(k[7*i : 7*i+7]))
		if err != nil {
			panic(err)
		}
		blk := make([]byte, 8)
		c.Encrypt(blk, d)
		out = append(out, blk...)
	}
	return out
}

func c02RefUnicode(s string) []byte {
	u := utf16.Encode([]rune(s))
	b := make([]byte, 2*len(u))
	for i, x := range u {
		binary.LittleEndian.PutUint16(b[2*i:], x)
	}
	return b
}

func c02RefNT(pw string) []byte {
	h := md4.New()
	h.Write(c02RefUnicode(pw))
	return h.Sum(nil)
}

func c02RefHMAC(key []byte, parts ...[]byte) []byte {
	h := hmac.New(md5.New, key)
	for _, p := range parts {
		h.Write(p)
	}
	return h.Sum(nil)
}

// NTOWFv2(Passwd, User, UserDom) = HMAC_MD5(MD4(UNICODE(Passwd)), UNICODE(Uppercase(User) ++ UserDom))
func c02RefNTOWFv2(pw, user, dom string) []byte {
	return c02RefHMAC(c02RefNT(pw), c02RefUnicode(strings.ToUpper(user)+dom))
}

// refAvListWf: a sequence of AV_PAIRs ended by MsvAvEOL (AvLen 0); returns the unread rest.
func c02RefAvList(b []byte) (rest []byte, ok bool) {
	for {
		if len(b) < 4 {
			return nil, false
		}
		id := binary.LittleEndian.Uint16(b[0:2])
		l := int(binary.LittleEndian.Uint16(b[2:4]))
		b = b[4:]
		if len(b) < l {
			return nil, false
		}
		b = b[l:]
		if id == 0 {
			return b, l == 0
		}
	}
}

// c02RefBlobWf checks the NTLMv2_CLIENT_CHALLENGE layout; "" when well formed, else the narrow reason.
func c02RefBlobWf(blob, cc []byte) string {
	if len(blob) < 28 || blob[0] != 1 || blob[1] != 1 {
		return "blob-header"
	}
	for _, x := range blob[2:8] {
		if x != 0 {
			return "blob-reserved"
		}
	}
	if !bytes.Equal(blob[16:24], cc) {
		return "blob-client-challenge"
	}
	for _, x := range blob[24:28] {
		if x != 0 {
			return "blob-reserved"
		}
	}
	rest, ok := c02RefAvList(blob[28:])
	if !ok {
		return "blob-av-pairs"
	}
	if !(len(rest) == 0 || bytes.Equal(rest, []byte{0, 0, 0, 0})) {
		return "blob-trailer"
	}
	return ""
}

// c02RefVerifyV2 is the server side: it knows the key (from the password), the challenge it sent, and
// receives the response.
func c02RefVerifyV2(key, sc, resp, cc []byte) string {
	if len(resp) < 16 {
		return "short"
	}
	if !hmac.Equal(resp[:16], c02RefHMAC(key, sc, resp[16:])) {
		return "proof"
	}
	return c02RefBlobWf(resp[16:], cc)
}

const c02RefEpochDiff = 116444736000000000 // 100 ns ticks between 1601-01-01 and 1970-01-01

func c02RefTimeNear(blob []byte) bool {
	if len(blob) < 16 {
		return false
	}
	t := int64(binary.LittleEndian.Uint64(blob[8:16]))
	now := time.Now().UnixNano()/100 + c02RefEpochDiff
	d := now - t
	return d > -6000000000 && d < 6000000000 // ten minutes
}

// hashcat -m 5600 (NetNTLMv2): user::domain:server challenge (16 hex):NTProofStr (32 hex):blob (hex)
func c02RefParseHashcat(line string) (user, dom string, sc, proof, blob []byte, ok bool) {
	f := strings.Split(line, ":")
	if len(f) != 6 || f[1] != "" || len(f[3]) != 16 || len(f[4]) != 32 {
		return
	}
	var e1, e2, e3 error
	sc, e1 = hex.DecodeString(f[3])
	proof, e2 = hex.DecodeString(f[4])
	blob, e3 = hex.DecodeString(f[5])
	if e1 != nil || e2 != nil || e3 != nil {
		return
	}
	return f[0], f[2], sc, proof, blob, true
}

// ---------------------------------------------------------------------------------------------
// Running the real code

type c02Reader struct{ data []byte }

func (r *c02Reader) Read(p []byte) (int, error) {
	for i := range p {
		if len(r.data) > 0 {
			p[i] = r.data[0]
			r.data = r.data[1:]
		} else {
			p[i] = 0
		}
	}
	return len(p), nil
}

var _ io.Reader = (*c02Reader)(nil)

func c02WithRand(data []byte, f func()) {
	old := crand.Reader
	crand.Reader = &c02Reader{append([]byte{}, data...)}
	defer func() { crand.Reader = old }()
	f()
}

func c02Arr8(b []byte) (a [8]byte) { copy(a[:], b); return }

func c02V2(a []Val) (*ntlmv2.NTLMv2, error) {
	return ntlmv2.NewNTLMv2(a[0].Str(), a[1].Str(), a[2].Str(), c02Arr8(a[3].B), c02Arr8(a[4].B))
}

func c02BlobTime(blob []byte) uint64 {
	if len(blob) < 16 {
		return 0
	}
	return binary.LittleEndian.Uint64(blob[8:16])
}

func c02Redate(key, sc, resp []byte, ts uint64) []byte {
	if len(resp) < 32 || !hmac.Equal(resp[:16], c02RefHMAC(key, sc, resp[16:])) {
		return resp
	}
	blob := append([]byte{}, resp[16:]...)
	binary.LittleEndian.PutUint64(blob[8:16], ts)
	return append(c02RefHMAC(key, sc, blob), blob...)
}

// args: flags, server challenge, target info, user, password, domain, workstation, cc, lmcc
func c02Authenticate(a []Val) ([]byte, error) {
	ch := &ntlm.ChallengeMessage{NegotiateFlags: uint32(a[0].Uint()), ServerChallenge: c02Arr8(a[1].B), TargetInfo: exact(a[2].B)}
	var msg []byte
	var err error
	c02WithRand(cat(a[7].B, a[8].B), func() {
		msg, err = ntlm.CreateAuthenticateMessage(ch, a[3].Str(), a[4].Str(), a[5].Str(), a[6].Str())
	})
	return msg, err
}

func c02Field(msg []byte, at int) []byte {
	if len(msg) < at+8 {
		return nil
	}
	l := int(binary.LittleEndian.Uint16(msg[at:]))
	off := int(binary.LittleEndian.Uint32(msg[at+4:]))
	if off+l > len(msg) {
		return nil
	}
	return msg[off : off+l]
}

const (
	c02FlagUnicode = 0x00000001
	c02FlagESS     = 0x00080000
)

func c02AsciiUpper(s string) string {
	b := []byte(s)
	for i, x := range b {
		if 'a' <= x && x <= 'z' {
			b[i] = x - 32
		}
	}
	return string(b)
}

// the executable Coq model upper-cases ASCII letters only: correspondence cases are recorded for
// strings on which strings.ToUpper does exactly that
func c02UpperIsAscii(ss ...string) bool {
	for _, s := range ss {
		if strings.ToUpper(s) != c02AsciiUpper(s) {
			return false
		}
	}
	return true
}

// c02Record records a correspondence case whose arguments contain values recovered from the real
// output (same bookkeeping as Ctx.Case).
func c02Record(c *Ctx, fn string, args []Val, v Val) {
	line := fn + " " + L(args...).String() + " => " + v.String()
	if _, seen := c.distinct[line]; !seen {
		c.distinct[line] = struct{}{}
		fmt.Fprintln(c.out, line)
		if len(c.samples) < 12 && (c.NCases%97 == 0 || len(c.samples) < 3) {
			s := line
			if len(s) > 300 {
				s = s[:300] + "..."
			}
			c.samples = append(c.samples, s)
		}
	}
	c.NCases++
	c.Hist["fn:"+fn]++
	c.Hist["outcome:"+outcomeClass(v)]++
}

func c02Guard(f func() Val) (v Val) {
	defer func() {
		if r := recover(); r != nil {
			v = VPanic()
		}
	}()
	return f()
}

// the real ntlmv2.Hash: (response, time stamp found in it)
func c02RunHash(a []Val) (Val, uint64) {
	var ts uint64
	v := c02Guard(func() Val {
		n, err := c02V2(a)
		if err != nil {
			return VErr()
		}
		resp, err := n.Hash()
		if err != nil {
			return VErr()
		}
		if len(resp) >= 16 {
			ts = c02BlobTime(resp[16:])
		}
		return B(resp)
	})
	return v, ts
}

func c02RunHashcat(a []Val) (Val, uint64) {
	var ts uint64
	v := c02Guard(func() Val {
		n, err := c02V2(a)
		if err != nil {
			return VErr()
		}
		line, err := n.ToHashcatString()
		if err != nil {
			return VErr()
		}
		if i := strings.LastIndexByte(line, ':'); i >= 0 {
			if blob, e := hex.DecodeString(line[i+1:]); e == nil {
				ts = c02BlobTime(blob)
			}
		}
		return S(line)
	})
	return v, ts
}

// the real CreateAuthenticateMessage: ((LmChallengeResponse, NtChallengeResponse), time stamp)
func c02RunAuth(a []Val) (Val, uint64) {
	var ts uint64
	v := c02Guard(func() Val {
		msg, err := c02Authenticate(a)
		if err != nil {
			return VErr()
		}
		lmr, ntr := c02Field(msg, 12), c02Field(msg, 20)
		if uint32(a[0].Uint())&c02FlagESS != 0 && len(ntr) >= 32 {
			ts = c02BlobTime(ntr[16:])
		}
		return L(B(lmr), B(ntr))
	})
	return v, ts
}

func init() {
	// ---- crypto/ntlmv1 ----
	Impl("ntlmv1.parity_bit", func(a []Val) Val { return I(int64(ntlmv1.ParityBit(int(a[0].Int())))) })
	Impl("ntlmv1.parity_adjust", func(a []Val) Val {
		out, err := ntlmv1.ParityAdjust(exact(a[0].B))
		if err != nil {
			return VErr()
		}
		return B(out)
	})
	// struct literal: NTHash, Password, ServerChallenge
	Impl("ntlmv1.hash", func(a []Val) Val {
		h := &ntlmv1.NTLMv1{NTHash: exact(a[0].B), Password: a[1].Str(), ServerChallenge: exact(a[2].B)}
		out, err := h.Hash()
		if err != nil {
			return VErr()
		}
		return B(out)
	})
	Impl("ntlmv1.nt_response", func(a []Val) Val {
		h := &ntlmv1.NTLMv1{NTHash: exact(a[0].B), ServerChallenge: exact(a[1].B)}
		out, err := h.NTResponse()
		if err != nil {
			return VErr()
		}
		return B(out)
	})
	Impl("ntlmv1.lm_response", func(a []Val) Val {
		h := &ntlmv1.NTLMv1{Password: a[0].Str(), ServerChallenge: exact(a[1].B)}
		out, err := h.LMResponse()
		if err != nil {
			return VErr()
		}
		return B(out)
	})
	// NewNTLMv1WithNTHash: (Hash, NTResponse, String)
	Impl("ntlmv1.with_nthash", func(a []Val) Val {
		h, err := ntlmv1.NewNTLMv1WithNTHash("D", "u", exact(a[0].B), exact(a[1].B))
		if err != nil {
			return VErr()
		}
		one := func(f func() ([]byte, error)) Val {
			return c02Guard(func() Val {
				out, err := f()
				if err != nil {
					return VErr()
				}
				return B(out)
			})
		}
		return L(one(h.Hash), one(h.NTResponse), c02Guard(func() Val { return S(h.String()) }))
	})
	// NewNTLMv1WithPassword: (Hash, NTResponse, LMResponse, String)
	Impl("ntlmv1.with_password", func(a []Val) Val {
		h, err := ntlmv1.NewNTLMv1WithPassword("D", "u", a[0].Str(), exact(a[1].B))
		if err != nil {
			return VErr()
		}
		r1, e1 := h.Hash()
		r2, e2 := h.NTResponse()
		r3, e3 := h.LMResponse()
		if e1 != nil || e2 != nil || e3 != nil {
			return VErr()
		}
		return L(B(r1), B(r2), B(r3), S(h.String()))
	})

	// ---- crypto/ntlmv2 ---- args: domain, user, password, sc, cc [, time stamp]
	Impl("ntlmv2.new", func(a []Val) Val {
		n, err := c02V2(a)
		if err != nil {
			return VErr()
		}
		return B(n.ResponseKeyNT[:])
	})
	Impl("ntlmv2.hash", func(a []Val) Val {
		v, _ := c02RunHash(a)
		if v.K != 'x' {
			return v
		}
		sc := c02Arr8(a[3].B)
		return B(c02Redate(c02RefNTOWFv2(a[2].Str(), a[1].Str(), a[0].Str()), sc[:], v.B, a[5].Uint()))
	})
	Impl("ntlmv2.hashcat", func(a []Val) Val {
		v, _ := c02RunHashcat(a)
		if v.K != 'x' {
			return v
		}
		line := string(v.B)
		i := strings.LastIndexByte(line, ':')
		if i < 33 {
			return v
		}
		j := i - 33
		proof, e1 := hex.DecodeString(line[j+1 : i])
		blob, e2 := hex.DecodeString(line[i+1:])
		if line[j] != ':' || e1 != nil || e2 != nil {
			return v
		}
		sc := c02Arr8(a[3].B)
		resp := c02Redate(c02RefNTOWFv2(a[2].Str(), a[1].Str(), a[0].Str()), sc[:], cat(proof, blob), a[5].Uint())
		return S(line[:j+1] + hex.EncodeToString(resp[:16]) + ":" + hex.EncodeToString(resp[16:]))
	})

	// ---- spnego/ntlm response helpers through CreateAuthenticateMessage ----
	// args: flags, sc, target info, user, password, domain, workstation, cc, lmcc, time stamp
	Impl("ntlm.auth_payloads", func(a []Val) Val {
		v, _ := c02RunAuth(a)
		if v.K != 'l' || uint32(a[0].Uint())&c02FlagESS == 0 {
			return v
		}
		sc := c02Arr8(a[1].B)
		key := c02RefNTOWFv2(a[4].Str(), a[3].Str(), strings.ToUpper(a[5].Str()))
		return L(v.L[0], B(c02Redate(key, sc[:], v.L[1].B, a[9].Uint())))
	})

	c02Oracles()
	Gen("C02", genC02)
}

func c02OddParity(b byte) bool { return bits.OnesCount8(b)%2 == 1 }

func c02Oracles() {
	// Odd-parity key expansion.  args: key bytes (any length; 7 is the DES case)
	Oracle("c02.parity", func(a []Val) (string, string) {
		k := a[0].B
		got, err := ntlmv1.ParityAdjust(exact(k))
		if err != nil {
			return "C02/parity/error", fmt.Sprintf("ParityAdjust(%x): %v", k, err)
		}
		for _, b := range got {
			if !c02OddParity(b) {
				return "C02/parity/even-byte", fmt.Sprintf("ParityAdjust(%x) = %x has a byte of even parity", k, got)
			}
		}
		if len(k) == 7 {
			if want := c02RefStrToKey(k); !bytes.Equal(got, want) {
				return "C02/parity/expansion", fmt.Sprintf("ParityAdjust(%x) = %x, MS-NLMP key expansion gives %x", k, got, want)
			}
		}
		return "", ""
	})

	// NTLMv1 from an NT hash.  args: 16-byte NT hash, 8-byte server challenge
	Oracle("c02.v1_nthash", func(a []Val) (string, string) {
		nth, sc := a[0].B, a[1].B
		want := c02RefDESL(nth, sc)
		h, err := ntlmv1.NewNTLMv1WithNTHash("D", "u", exact(nth), exact(sc))
		if err != nil {
			return "C02/v1/unexpected-error", fmt.Sprintf("NewNTLMv1WithNTHash(%x,%x): %v", nth, sc, err)
		}
		if got, err := h.Hash(); err != nil || !bytes.Equal(got, want) {
			return "C02/v1/hash", fmt.Sprintf("Hash(nt=%x, c=%x) = %x %v, DESL gives %x", nth, sc, got, err, want)
		}
		if got, err := h.NTResponse(); err != nil || !bytes.Equal(got, want) {
			return "C02/v1/nt-response", fmt.Sprintf("NTResponse(nt=%x, c=%x) = %x %v, DESL gives %x", nth, sc, got, err, want)
		}
		if got := h.String(); got != strings.ToUpper(hex.EncodeToString(want)) {
			return "C02/v1/string", fmt.Sprintf("String(nt=%x, c=%x) = %q, DESL gives %X", nth, sc, got, want)
		}
		if !bytes.Equal(h.NTHash, nth) {
			return "C02/v1/hash-mutated", fmt.Sprintf("NTHash field changed from %x to %x", nth, h.NTHash)
		}
		return "", ""
	})

	// NTLMv1 from a password.  args: password, 8-byte server challenge
	Oracle("c02.v1_password", func(a []Val) (string, string) {
		pw, sc := a[0].Str(), a[1].B
		h, err := ntlmv1.NewNTLMv1WithPassword("D", "u", pw, exact(sc))
		if err != nil {
			return "C02/v1/unexpected-error", fmt.Sprintf("NewNTLMv1WithPassword(%q,%x): %v", pw, sc, err)
		}
		want := c02RefDESL(c02RefNT(pw), sc)
		if got, err := h.Hash(); err != nil || !bytes.Equal(got, want) {
			return "C02/v1/hash", fmt.Sprintf("Hash(pw=%q, c=%x) = %x %v, DESL(NTOWFv1) gives %x", pw, sc, got, err, want)
		}
		if got, err := h.NTResponse(); err != nil || !bytes.Equal(got, want) {
			return "C02/v1/nt-response", fmt.Sprintf("NTResponse(pw=%q, c=%x) = %x %v, DESL(NTOWFv1) gives %x", pw, sc, got, err, want)
		}
		wantLM := c02RefDESL(lm.LMHash(pw), sc)
		if got, err := h.LMResponse(); err != nil || !bytes.Equal(got, wantLM) {
			return "C02/v1/lm-response", fmt.Sprintf("LMResponse(pw=%q, c=%x) = %x %v, DESL(LMOWFv1) gives %x", pw, sc, got, err, wantLM)
		}
		// the struct-literal route through Hash (NT hash computed on demand)
		h2 := &ntlmv1.NTLMv1{Password: pw, ServerChallenge: exact(sc)}
		if pw != "" {
			if got, err := h2.Hash(); err != nil || !bytes.Equal(got, want) {
				return "C02/v1/hash", fmt.Sprintf("NTLMv1{Password:%q}.Hash(c=%x) = %x %v, DESL(NTOWFv1) gives %x", pw, sc, got, err, want)
			}
		}
		return "", ""
	})

	// NTLMv2.  args: domain, user, password, sc, cc
	Oracle("c02.v2", func(a []Val) (string, string) {
		dom, user, pw := a[0].Str(), a[1].Str(), a[2].Str()
		sc, cc := c02Arr8(a[3].B), c02Arr8(a[4].B)
		what := fmt.Sprintf("NewNTLMv2(%q,%q,%q,%x,%x)", c02ClipS(dom), c02ClipS(user), c02ClipS(pw), sc, cc)
		n, err := ntlmv2.NewNTLMv2(dom, user, pw, sc, cc)
		if err != nil {
			return "C02/v2/unexpected-error", what + ": " + err.Error()
		}
		key := c02RefNTOWFv2(pw, user, dom)
		resp, err := n.Hash()
		if err != nil {
			if len(c02RefUnicode(dom)) > 0xffff {
				return "", "" // the domain does not fit an AV_PAIR
			}
			return "C02/v2/unexpected-error", what + ".Hash: " + err.Error()
		}
		switch why := c02RefVerifyV2(key, sc[:], resp, cc[:]); why {
		case "":
		case "proof":
			if c02RefVerifyV2(c02RefNTOWFv2(pw, user, strings.ToUpper(dom)), sc[:], resp, cc[:]) != "proof" {
				return "C02/v2/domain-upper-cased", what + ".Hash is keyed with the upper-cased domain; a verifier using the domain as supplied rejects it"
			}
			return "C02/v2/proof", fmt.Sprintf("%s.Hash = %x: NTProofStr is not HMAC_MD5(NTOWFv2, sc ++ blob)", what, c02ClipB(resp))
		default:
			return "C02/v2/" + why, fmt.Sprintf("%s.Hash = %x: %s", what, c02ClipB(resp), why)
		}
		if !c02RefTimeNear(resp[16:]) {
			return "C02/v2/blob-time", fmt.Sprintf("%s.Hash: blob time %d is not the current time in 100 ns ticks since 1601", what, c02BlobTime(resp[16:]))
		}
		if !bytes.Equal(n.ResponseKeyNT[:], key) {
			return "C02/v2/response-key", fmt.Sprintf("%s.ResponseKeyNT = %x, NTOWFv2 = %x", what, n.ResponseKeyNT, key)
		}
		hx, err := n.HashHex()
		if err != nil {
			return "C02/v2/unexpected-error", what + ".HashHex: " + err.Error()
		}
		r2, err := hex.DecodeString(hx)
		if err != nil || c02RefVerifyV2(key, sc[:], r2, cc[:]) != "" {
			return "C02/v2/hash-hex", fmt.Sprintf("%s.HashHex = %s does not verify", what, c02ClipS(hx))
		}
		return "", ""
	})

	// hashcat export.  args: domain, user, password, sc, cc
	Oracle("c02.hashcat", func(a []Val) (string, string) {
		dom, user, pw := a[0].Str(), a[1].Str(), a[2].Str()
		if strings.ContainsRune(dom, ':') || strings.ContainsRune(user, ':') {
			return "", "" // the format has no quoting: excluded in the statement
		}
		sc, cc := c02Arr8(a[3].B), c02Arr8(a[4].B)
		n, err := ntlmv2.NewNTLMv2(dom, user, pw, sc, cc)
		if err != nil {
			return "C02/hashcat/unexpected-error", err.Error()
		}
		line, err := n.ToHashcatString()
		if err != nil {
			if len(c02RefUnicode(dom)) > 0xffff {
				return "", ""
			}
			return "C02/hashcat/unexpected-error", err.Error()
		}
		u2, d2, sc2, proof, blob, ok := c02RefParseHashcat(line)
		if !ok {
			return "C02/hashcat/fields", fmt.Sprintf("%q is not user::domain:16 hex:32 hex:hex", c02ClipS(line))
		}
		if u2 != user || d2 != dom || !bytes.Equal(sc2, sc[:]) {
			return "C02/hashcat/identity", fmt.Sprintf("%q does not carry user %q, domain %q, challenge %x", c02ClipS(line), user, dom, sc)
		}
		switch why := c02RefVerifyV2(c02RefNTOWFv2(pw, u2, d2), sc2, cat(proof, blob), cc[:]); why {
		case "":
			return "", ""
		case "proof":
			return "C02/hashcat/proof", fmt.Sprintf("%q: field 5 is not HMAC_MD5(NTOWFv2(password, user, domain), challenge ++ field 6)", c02ClipS(line))
		default:
			return "C02/hashcat/" + why, fmt.Sprintf("%q: %s", c02ClipS(line), why)
		}
	})

	// The Nt/Lm payloads of CreateAuthenticateMessage verify for the names the message carries.
	// args: flags, sc, target info, user, password, domain, workstation, cc, lmcc
	Oracle("c02.authenticate", func(a []Val) (string, string) {
		flags := uint32(a[0].Uint())
		sc := c02Arr8(a[1].B)
		ti, user, pw, dom := a[2].B, a[3].Str(), a[4].Str(), a[5].Str()
		cc, lmcc := c02Arr8(a[7].B), c02Arr8(a[8].B)
		what := fmt.Sprintf("CreateAuthenticateMessage(flags=%#x, sc=%x, ti=%x, %q, %q, %q)", flags, sc, c02ClipB(ti), c02ClipS(user), c02ClipS(pw), c02ClipS(dom))
		msg, err := c02Authenticate(a)
		if err != nil {
			return "", "" // no message (a field does not fit its 16-bit length): C08's subject
		}
		lmr, ntr := c02Field(msg, 12), c02Field(msg, 20)
		mdom, muser := c02Field(msg, 28), c02Field(msg, 36)
		if flags&c02FlagESS == 0 {
			if want := c02RefDESL(c02RefNT(pw), sc[:]); !bytes.Equal(ntr, want) {
				return "C02/auth/v1-nt", fmt.Sprintf("%s: NtChallengeResponse %x, DESL(NTOWFv1) gives %x", what, ntr, want)
			}
			if want := c02RefDESL(lm.LMHash(pw), sc[:]); !bytes.Equal(lmr, want) {
				return "C02/auth/v1-lm", fmt.Sprintf("%s: LmChallengeResponse %x, DESL(LMOWFv1) gives %x", what, lmr, want)
			}
			return "", ""
		}
		// the names as the message carries them
		var vuser, vdom string
		if flags&c02FlagUnicode != 0 {
			vuser, vdom = c02DecodeUnicode(muser), c02DecodeUnicode(mdom)
			if !bytes.Equal(c02RefUnicode(vuser), muser) || !bytes.Equal(c02RefUnicode(vdom), mdom) {
				return "", "" // names that are not Unicode text (invalid UTF-8 input): not in the statement
			}
		} else {
			vuser, vdom = string(muser), string(mdom)
			if !c02IsASCII(vuser) || !c02IsASCII(vdom) {
				return "", "" // OEM names are restricted to ASCII in the statement
			}
		}
		key := c02RefNTOWFv2(pw, vuser, vdom)
		why := c02RefVerifyV2(key, sc[:], ntr, cc[:])
		if why == "blob-av-pairs" || why == "blob-trailer" {
			if rest, ok := c02RefAvList(ti); len(ti) != 0 && !(ok && len(rest) == 0) {
				why = "" // the server's TargetInfo is not an AV_PAIR list: excluded in the statement
			}
		}
		if why != "" {
			return "C02/auth/v2-nt-" + why, fmt.Sprintf("%s: NtChallengeResponse %x does not verify for user %q domain %q: %s", what, c02ClipB(ntr), vuser, vdom, why)
		}
		if !c02RefTimeNear(ntr[16:]) {
			return "C02/auth/v2-blob-time", fmt.Sprintf("%s: blob time %d is not the current time", what, c02BlobTime(ntr[16:]))
		}
		if want := append(c02RefHMAC(key, sc[:], lmcc[:]), lmcc[:]...); !bytes.Equal(lmr, want) {
			return "C02/auth/v2-lm", fmt.Sprintf("%s: LmChallengeResponse %x, LMv2 gives %x", what, lmr, want)
		}
		return "", ""
	})

	// The response is computed from ONE reading of the clock: whatever the instant at which the AUTHENTICATE
	// message is built, the NTProofStr authenticates the blob that is sent.  args: (user, password, domain in the
	// upper-case form the message carries it in,
	// number of second boundaries to straddle).  Twenty-four goroutines build messages continuously in the 300 us
	// around each boundary of the wall clock's second (the blob's time stamp has one-second granularity there).
	Oracle("c02.authenticate_clock", func(a []Val) (string, string) {
		user, pw, dom := a[0].Str(), a[1].Str(), a[2].Str()
		n := int(a[3].Int())
		sc := [8]byte{1, 2, 3, 4, 5, 6, 7, 8}
		key := c02RefNTOWFv2(pw, user, dom)
		var mu sync.Mutex
		bad := ""
		built := 0
		for b := 0; b < n && bad == ""; b++ {
			now := time.Now()
			next := now.Truncate(time.Second).Add(time.Second)
			time.Sleep(next.Sub(now) - 400*time.Microsecond)
			var wg sync.WaitGroup
			for g := 0; g < 24; g++ {
				wg.Add(1)
				go func() {
					defer wg.Done()
					defer func() { recover() }()
					for time.Now().Before(next.Add(400 * time.Microsecond)) {
						ch := &ntlm.ChallengeMessage{NegotiateFlags: c02FlagUnicode | c02FlagESS, ServerChallenge: sc}
						msg, err := ntlm.CreateAuthenticateMessage(ch, user, pw, dom, "WS")
						if err != nil {
							return
						}
						ntr := c02Field(msg, 20)
						mu.Lock()
						built++
						if len(ntr) >= 16 && !hmac.Equal(ntr[:16], c02RefHMAC(key, sc[:], ntr[16:])) && bad == "" {
							bad = fmt.Sprintf("NtChallengeResponse %x built at %s: the first 16 bytes are not HMAC-MD5(NTOWFv2, server challenge || the blob that follows)", c02ClipB(ntr), time.Now().Format("15:04:05.000000"))
						}
						mu.Unlock()
					}
				}()
			}
			wg.Wait()
		}
		if bad != "" {
			return "C02/auth/v2-nt-proof/clock-tick", bad
		}
		return "", ""
	})

	// The reference itself reproduces the published values of MS-NLMP 4.2 (user "User", domain "Domain",
	// password "Password", server challenge 0123456789abcdef, client challenge aa..aa).  no args
	Oracle("c02.reference_vectors", func(a []Val) (string, string) {
		sc := []byte{0x01, 0x23, 0x45, 0x67, 0x89, 0xab, 0xcd, 0xef}
		chk := func(name string, got []byte, want string) string {
			if hex.EncodeToString(got) != want {
				return fmt.Sprintf("%s: reference gives %x, MS-NLMP prints %s", name, got, want)
			}
			return ""
		}
		for _, d := range []string{
			chk("4.2.2.1.2 NTOWFv1", c02RefNT("Password"), "a4f49c406510bdcab6824ee7c30fd852"),
			chk("4.2.2.2.1 NTLMv1 response", c02RefDESL(c02RefNT("Password"), sc), "67c43011f30298a2ad35ece64f16331c44bdbed927841f94"),
			chk("4.2.2.2.2 LMv1 response", c02RefDESL(lm.LMHash("Password"), sc), "98def7b87f88aa5dafe2df779688a172def11c7d5ccdef13"),
			chk("4.2.4.1.1 NTOWFv2", c02RefNTOWFv2("Password", "User", "Domain"), "0c868a403bfd7a93a3001ef22ef02e3f"),
			chk("4.2.4.2.1 LMv2 response", c02RefHMAC(c02RefNTOWFv2("Password", "User", "Domain"), sc, bytes.Repeat([]byte{0xaa}, 8)), "86c35097ac9cec102554764a57cccc19"),
		} {
			if d != "" {
				return "C02/reference-broken", d
			}
		}
		return "", ""
	})

	// Totality of the byte-consuming entry points of crypto/ntlmv1 (reused by C07).
	total := func(name string, f func(a []Val)) {
		Oracle("c02.total."+name, func(a []Val) (string, string) {
			panicked, timedOut, _, pv := Guarded(5*time.Second, func() { f(a) })
			if panicked {
				return "C02/panic/" + name, fmt.Sprintf("%s%s panics: %v", name, c02ClipS(L(a...).String()), pv)
			}
			if timedOut {
				return "C02/hang/" + name, fmt.Sprintf("%s%s does not return", name, c02ClipS(L(a...).String()))
			}
			return "", ""
		})
	}
	total("parity_adjust", func(a []Val) { ntlmv1.ParityAdjust(exact(a[0].B)) })
	total("with_nthash", func(a []Val) {
		h, err := ntlmv1.NewNTLMv1WithNTHash("D", "u", exact(a[0].B), exact(a[1].B))
		if err == nil {
			h.Hash()
			h.NTResponse()
			_ = h.String()
		}
	})
	total("with_password", func(a []Val) {
		h, err := ntlmv1.NewNTLMv1WithPassword("D", "u", a[0].Str(), exact(a[1].B))
		if err == nil {
			h.Hash()
			h.NTResponse()
			h.LMResponse()
		}
	})
}

func c02DecodeUnicode(b []byte) string {
	u := make([]uint16, len(b)/2)
	for i := range u {
		u[i] = binary.LittleEndian.Uint16(b[2*i:])
	}
	return string(utf16.Decode(u))
}

func c02IsASCII(s string) bool {
	for i := 0; i < len(s); i++ {
		if s[i] >= 0x80 {
			return false
		}
	}
	return true
}

func c02ClipS(s string) string {
	if len(s) > 160 {
		return s[:160] + "…"
	}
	return s
}

func c02ClipB(b []byte) []byte {
	if len(b) > 96 {
		return b[:96]
	}
	return b
}
