//go:build c20 || allprops

package main

// C20 — address, port-range and hash-credential parsers match standard semantics.
// Impl runners for every modelled entry point of network/ip and windows/credentials, and
// Go-side oracles that state the property on the real code against net/netip, encoding/binary
// and hand-written reference recognisers (no regexp, no Coq model involved).

import (
	"encoding/binary"
	"fmt"
	"net/netip"
	"strconv"
	"strings"
	"unicode"
	"unicode/utf8"

	"github.com/TheManticoreProject/Manticore/network/ip"
	"github.com/TheManticoreProject/Manticore/windows/credentials"
)

// ---------------------------------------------------------------- value projections

func v4val(p *ip.IPv4) Val {
	if p == nil {
		return VErr()
	}
	return L(U(uint64(p.A)), U(uint64(p.B)), U(uint64(p.C)), U(uint64(p.D)), U(uint64(p.MaskBits)))
}

func v4of(v Val) *ip.IPv4 {
	return ip.NewIPv4(uint8(v.L[0].Uint()), uint8(v.L[1].Uint()), uint8(v.L[2].Uint()), uint8(v.L[3].Uint()), uint8(v.L[4].Uint()))
}

func v4u32(u uint32, m uint8) Val {
	return L(U(uint64(u>>24)), U(uint64(u>>16&0xff)), U(uint64(u>>8&0xff)), U(uint64(u&0xff)), U(uint64(m)))
}

func v4addr(p *ip.IPv4) netip.Addr { return netip.AddrFrom4([4]byte{p.A, p.B, p.C, p.D}) }

func v6val(p *ip.IPv6) Val {
	if p == nil {
		return VErr()
	}
	return L(U(uint64(p.A)), U(uint64(p.B)), U(uint64(p.C)), U(uint64(p.D)), U(uint64(p.E)), U(uint64(p.F)), U(uint64(p.G)), U(uint64(p.H)))
}

func v6of(v Val) *ip.IPv6 {
	g := func(i int) uint16 { return uint16(v.L[i].Uint()) }
	return ip.NewIPv6(g(0), g(1), g(2), g(3), g(4), g(5), g(6), g(7))
}

func v6groups(g [8]uint16) Val {
	vs := make([]Val, 8)
	for i := range vs {
		vs[i] = U(uint64(g[i]))
	}
	return L(vs...)
}

func v6addr(p *ip.IPv6) netip.Addr {
	var b [16]byte
	for i, g := range []uint16{p.A, p.B, p.C, p.D, p.E, p.F, p.G, p.H} {
		binary.BigEndian.PutUint16(b[2*i:], g)
	}
	return netip.AddrFrom16(b)
}

// noPanic runs f and reports whether it panicked (oracles want a narrow key, not the generic one).
func noPanic(f func()) (panicked bool, pv interface{}) {
	defer func() {
		if r := recover(); r != nil {
			panicked, pv = true, r
		}
	}()
	f()
	return
}

// ---------------------------------------------------------------- reference recognisers (hand-written)

func isHexByte(c byte) bool {
	return c >= '0' && c <= '9' || c >= 'a' && c <= 'f' || c >= 'A' && c <= 'F'
}

func isHex32(s string) bool {
	if len(s) != 32 {
		return false
	}
	for i := 0; i < len(s); i++ {
		if !isHexByte(s[i]) {
			return false
		}
	}
	return true
}

// refHashes is the grammar  [LM] [":" NT]  with the repository's pinned convention that a bare
// 32-digit string is the NT hash (TestParseLMNTHashes "Valid NT Hash Only").
func refHashes(s string) (lm, nt string, ok bool) {
	switch {
	case s == "":
		return "", "", true
	case isHex32(s):
		return "", s, true
	case len(s) == 33 && s[0] == ':' && isHex32(s[1:]):
		return "", s[1:], true
	case len(s) == 65 && s[32] == ':' && isHex32(s[:32]) && isHex32(s[33:]):
		return s[:32], s[33:], true
	}
	return "", "", false
}

// Unicode White_Space code points (what strings.TrimSpace removes), as the model lists them.
var c20SpaceRunes = []rune{9, 10, 11, 12, 13, 32, 0x85, 0xA0, 0x1680,
	0x2000, 0x2001, 0x2002, 0x2003, 0x2004, 0x2005, 0x2006, 0x2007, 0x2008, 0x2009, 0x200A,
	0x2028, 0x2029, 0x202F, 0x205F, 0x3000}

func refTrim(s string) string {
	isSp := func(r rune) bool {
		for _, x := range c20SpaceRunes {
			if x == r {
				return true
			}
		}
		return false
	}
	for len(s) > 0 {
		r, n := utf8.DecodeRuneInString(s)
		if !isSp(r) || (r == utf8.RuneError && n <= 1) {
			break
		}
		s = s[n:]
	}
	for len(s) > 0 {
		r, n := utf8.DecodeLastRuneInString(s)
		if !isSp(r) || (r == utf8.RuneError && n <= 1) {
			break
		}
		s = s[:len(s)-n]
	}
	return s
}

// canonical decimal numeral of a 16-bit port
func refPort(s string) (uint16, bool) {
	if len(s) == 0 || len(s) > 5 {
		return 0, false
	}
	if len(s) > 1 && s[0] == '0' {
		return 0, false
	}
	n := 0
	for i := 0; i < len(s); i++ {
		if s[i] < '0' || s[i] > '9' {
			return 0, false
		}
		n = n*10 + int(s[i]-'0')
	}
	if n > 65535 {
		return 0, false
	}
	return uint16(n), true
}

// refUint: a non-empty string of base-b digits whose value does not exceed max (leading zeros allowed,
// no sign, no prefix, no underscore) - written without strconv.
func refUint(s string, base, max uint64) (uint64, bool) {
	if s == "" {
		return 0, false
	}
	var n uint64
	for i := 0; i < len(s); i++ {
		var d uint64
		c := s[i]
		switch {
		case c >= '0' && c <= '9':
			d = uint64(c - '0')
		case c >= 'a' && c <= 'f':
			d = uint64(c-'a') + 10
		case c >= 'A' && c <= 'F':
			d = uint64(c-'A') + 10
		default:
			return 0, false
		}
		if d >= base {
			return 0, false
		}
		n = n*base + d
		if n > max {
			return 0, false
		}
	}
	return n, true
}

// refFields: s is exactly n sep-separated fields, each a refUint; returns their values.
func refFields(s string, sep byte, n int, base, max uint64) ([]uint64, bool) {
	fs := strings.Split(s, string(sep))
	if len(fs) != n {
		return nil, false
	}
	out := make([]uint64, n)
	for i, f := range fs {
		v, ok := refUint(f, base, max)
		if !ok {
			return nil, false
		}
		out[i] = v
	}
	return out, true
}

type hashOut struct {
	lm, nt string
	err    bool
	pan    bool
}

func runHashes(s string) (o hashOut) {
	o.pan, _ = noPanic(func() {
		lm, nt, err := credentials.ParseLMNTHashes(s)
		o.lm, o.nt, o.err = lm, nt, err != nil
	})
	return
}

func (o hashOut) String() string {
	if o.pan {
		return "panic"
	}
	if o.err {
		return "error"
	}
	return fmt.Sprintf("(%q,%q)", o.lm, o.nt)
}

func init() {
	// ------------------------------------------------------------ Impl runners
	Impl("ipv4.parse", func(a []Val) Val { return v4val(ip.NewIPv4FromString(a[0].Str())) })
	Impl("ipv4.string", func(a []Val) Val { return S(v4of(a[0]).String()) })
	Impl("ipv4.cidraddr", func(a []Val) Val { return S(v4of(a[0]).CIDRAddress()) })
	Impl("ipv4.cidrmask", func(a []Val) Val { return S(v4of(a[0]).CIDRMask()) })
	Impl("ipv4.tou32", func(a []Val) Val { return U(uint64(v4of(a[0]).ToUInt32())) })
	Impl("ipv4.computemask", func(a []Val) Val { return v4val(v4of(a[0]).ComputeMask()) })
	Impl("ipv4.insubnet", func(a []Val) Val { return Bool(v4of(a[0]).IsInSubnet(v4of(a[1]))) })
	Impl("ipv4.inrange", func(a []Val) Val { return Bool(v4of(a[0]).IsInRange(v4of(a[1]), v4of(a[2]))) })
	Impl("ipv4range.contains", func(a []Val) Val {
		r := &ip.IPv4Range{Start: v4of(a[0]), End: v4of(a[1])}
		return Bool(r.Contains(v4of(a[2])))
	})
	Impl("ipv4range.string", func(a []Val) Val {
		r := &ip.IPv4Range{Start: v4of(a[0]), End: v4of(a[1])}
		return S(r.String())
	})
	Impl("ipv6.parse", func(a []Val) Val { return v6val(ip.NewIPv6FromString(a[0].Str())) })
	Impl("ipv6.string", func(a []Val) Val { return S(v6of(a[0]).String()) })
	Impl("ipv6.tou128", func(a []Val) Val {
		u := v6of(a[0]).ToUInt128()
		return L(U(u[0]), U(u[1]))
	})
	Impl("ipv6.insubnet", func(a []Val) Val { return Bool(v6of(a[0]).IsInSubnet(v6of(a[1]))) })
	Impl("ipv6.inrange", func(a []Val) Val { return Bool(v6of(a[0]).IsInRange(v6of(a[1]), v6of(a[2]))) })
	Impl("ipv6range.contains", func(a []Val) Val {
		r := &ip.IPv6Range{Start: v6of(a[0]), End: v6of(a[1])}
		return Bool(r.Contains(v6of(a[2])))
	})
	Impl("ipv6range.string", func(a []Val) Val {
		r := &ip.IPv6Range{Start: v6of(a[0]), End: v6of(a[1])}
		return S(r.String())
	})
	Impl("ports.parse", func(a []Val) Val {
		p, err := ip.NewTCPPortRangeFromString(a[0].Str())
		if err != nil {
			return VErr()
		}
		return L(U(uint64(p.Start)), U(uint64(p.End)))
	})
	Impl("ports.string", func(a []Val) Val {
		return S(ip.NewTCPPortRange(uint16(a[0].Uint()), uint16(a[1].Uint())).String())
	})
	Impl("hashes.parse", func(a []Val) Val {
		lm, nt, err := credentials.ParseLMNTHashes(a[0].Str())
		if err != nil {
			return VErr()
		}
		return L(S(lm), S(nt))
	})
	Impl("creds.new", func(a []Val) Val {
		c, err := credentials.NewCredentials(a[0].Str(), a[1].Str(), a[2].Str(), a[3].Str())
		if err != nil {
			return VErr()
		}
		return L(S(c.GetDomain()), S(c.GetUsername()), S(c.GetPassword()), S(c.GetLMHash()), S(c.GetNTHash()),
			Bool(c.IsDomainIdentity()), Bool(c.IsLocalIdentity()), Bool(c.CanPassTheHash()))
	})

	// ------------------------------------------------------------ totality observations (reused by C07)
	total := func(name, key string, f func(s string)) {
		Oracle(name, func(a []Val) (string, string) {
			s := a[0].Str()
			if p, pv := noPanic(func() { f(s) }); p {
				return key, fmt.Sprintf("input %q: panic: %v", s, pv)
			}
			return "", ""
		})
	}
	total("c20.total.ipv4_parse", "C20/ipv4-parse-panic", func(s string) { ip.NewIPv4FromString(s) })
	total("c20.total.ipv6_parse", "C20/ipv6-parse-panic", func(s string) { ip.NewIPv6FromString(s) })
	total("c20.total.ports_parse", "C20/ports-parse-panic", func(s string) { ip.NewTCPPortRangeFromString(s) })
	total("c20.total.hashes_parse", "C20/hashes-parse-panic", func(s string) { credentials.ParseLMNTHashes(s) })
	total("c20.total.creds_new", "C20/creds-new-panic", func(s string) { credentials.NewCredentials("d", "u", "p", s) })

	// ------------------------------------------------------------ IPv4 oracles
	// print -> parse is the identity for every a,b,c,d,maskBits
	Oracle("c20.ipv4.roundtrip", func(a []Val) (string, string) {
		x := v4of(a[0])
		s := x.String()
		var y *ip.IPv4
		if p, pv := noPanic(func() { y = ip.NewIPv4FromString(s) }); p {
			return "C20/ipv4-parse-panic", fmt.Sprintf("NewIPv4FromString(%q) panics: %v", s, pv)
		}
		if y == nil {
			return "C20/ipv4-parse-cidr", fmt.Sprintf("NewIPv4FromString(%q) = nil, want %v", s, *x)
		}
		if *y != *x {
			return "C20/ipv4-parse-value", fmt.Sprintf("NewIPv4FromString(%q) = %v, want %v", s, *y, *x)
		}
		if x.CIDRAddress() != s {
			return "C20/ipv4-cidraddress", fmt.Sprintf("CIDRAddress %q != String %q", x.CIDRAddress(), s)
		}
		if x.MaskBits <= 32 {
			if pf, err := netip.ParsePrefix(s); err != nil || pf.Addr() != v4addr(x) || pf.Bits() != int(x.MaskBits) {
				return "C20/ipv4-print", fmt.Sprintf("String() = %q is not the standard CIDR text of %v", s, *x)
			}
		}
		return "", ""
	})
	// every CIDR string the standard library accepts is accepted with the same value
	Oracle("c20.ipv4.netip_parse", func(a []Val) (string, string) {
		s := a[0].Str()
		pf, err := netip.ParsePrefix(s)
		var y *ip.IPv4
		if p, pv := noPanic(func() { y = ip.NewIPv4FromString(s) }); p {
			return "C20/ipv4-parse-panic", fmt.Sprintf("NewIPv4FromString(%q) panics: %v", s, pv)
		}
		if err != nil || !pf.Addr().Is4() {
			return "", ""
		}
		b := pf.Addr().As4()
		if y == nil {
			return "C20/ipv4-parse-cidr", fmt.Sprintf("NewIPv4FromString(%q) = nil but it is the valid prefix %v", s, pf)
		}
		if [4]byte{y.A, y.B, y.C, y.D} != b || int(y.MaskBits) != pf.Bits() {
			return "C20/ipv4-parse-value", fmt.Sprintf("NewIPv4FromString(%q) = %v, netip says %v", s, *y, pf)
		}
		return "", ""
	})
	Oracle("c20.ipv4.tou32", func(a []Val) (string, string) {
		x := v4of(a[0])
		b := v4addr(x).As4()
		if got, want := x.ToUInt32(), binary.BigEndian.Uint32(b[:]); got != want {
			return "C20/ipv4-touint32", fmt.Sprintf("%v.ToUInt32() = %d want %d", *x, got, want)
		}
		return "", ""
	})
	// args: ip, subnet (subnet.MaskBits <= 32)
	Oracle("c20.ipv4.subnet", func(a []Val) (string, string) {
		x, n := v4of(a[0]), v4of(a[1])
		if n.MaskBits > 32 {
			return "", ""
		}
		want := netip.PrefixFrom(v4addr(n), int(n.MaskBits)).Contains(v4addr(x))
		if got := x.IsInSubnet(n); got != want {
			return "C20/ipv4-subnet", fmt.Sprintf("%s IsInSubnet %s = %v, standard prefix arithmetic says %v", x, n, got, want)
		}
		return "", ""
	})
	Oracle("c20.ipv4.mask", func(a []Val) (string, string) {
		x := v4of(a[0])
		if x.MaskBits > 32 {
			return "", ""
		}
		want := netip.PrefixFrom(v4addr(x), int(x.MaskBits)).Masked()
		m := x.ComputeMask()
		if v4addr(m) != want.Addr() || m.MaskBits != x.MaskBits {
			return "C20/ipv4-mask", fmt.Sprintf("%s ComputeMask = %s want %s", x, m, want)
		}
		if x.CIDRMask() != want.String() {
			return "C20/ipv4-mask", fmt.Sprintf("%s CIDRMask = %q want %q", x, x.CIDRMask(), want.String())
		}
		// the network address is in its own subnet, and so is x
		if !m.IsInSubnet(x) || !x.IsInSubnet(m) {
			return "C20/ipv4-subnet", fmt.Sprintf("%s and its network address %s are not in each other's subnet", x, m)
		}
		return "", ""
	})
	// args: ip, start, end
	Oracle("c20.ipv4.range", func(a []Val) (string, string) {
		x, s, e := v4of(a[0]), v4of(a[1]), v4of(a[2])
		want := v4addr(s).Compare(v4addr(x)) <= 0 && v4addr(x).Compare(v4addr(e)) <= 0
		if got := x.IsInRange(s, e); got != want {
			return "C20/ipv4-range", fmt.Sprintf("%s IsInRange(%s, %s) = %v want %v", x, s, e, got, want)
		}
		r := &ip.IPv4Range{Start: s, End: e}
		if got := r.Contains(x); got != want {
			return "C20/ipv4-range", fmt.Sprintf("[%s].Contains(%s) = %v want %v", r, x, got, want)
		}
		if r.String() != s.String()+" - "+e.String() {
			return "C20/ipv4-range-string", fmt.Sprintf("range prints %q", r.String())
		}
		return "", ""
	})

	// ------------------------------------------------------------ IPv6 oracles
	Oracle("c20.ipv6.roundtrip", func(a []Val) (string, string) {
		x := v6of(a[0])
		s := x.String()
		var y *ip.IPv6
		if p, pv := noPanic(func() { y = ip.NewIPv6FromString(s) }); p {
			return "C20/ipv6-parse-panic", fmt.Sprintf("NewIPv6FromString(%q) panics: %v", s, pv)
		}
		if y == nil || *y != *x {
			return "C20/ipv6-roundtrip", fmt.Sprintf("NewIPv6FromString(%q) = %v, want %v", s, y, *x)
		}
		// lower-case groups without leading zeros (RFC 5952 4.1, 4.3), written independently of fmt
		var gs []string
		for _, g := range []uint16{x.A, x.B, x.C, x.D, x.E, x.F, x.G, x.H} {
			gs = append(gs, strconv.FormatUint(uint64(g), 16))
		}
		if s != strings.Join(gs, ":") {
			return "C20/ipv6-print", fmt.Sprintf("String() = %q, want %q", s, strings.Join(gs, ":"))
		}
		// the printed text is a standard (RFC 4291 2.2 form 1) text of the same address
		if ad, err := netip.ParseAddr(s); err != nil || ad != v6addr(x) {
			return "C20/ipv6-print", fmt.Sprintf("String() = %q is not a standard text of %v", s, v6addr(x))
		}
		u := x.ToUInt128()
		b := v6addr(x).As16()
		if u[0] != binary.BigEndian.Uint64(b[:8]) || u[1] != binary.BigEndian.Uint64(b[8:]) {
			return "C20/ipv6-touint128", fmt.Sprintf("%s ToUInt128 = %x", s, u)
		}
		return "", ""
	})
	// every full (uncompressed, 8-group) text the standard library accepts is accepted with the same value
	Oracle("c20.ipv6.netip_parse", func(a []Val) (string, string) {
		s := a[0].Str()
		var y *ip.IPv6
		if p, pv := noPanic(func() { y = ip.NewIPv6FromString(s) }); p {
			return "C20/ipv6-parse-panic", fmt.Sprintf("NewIPv6FromString(%q) panics: %v", s, pv)
		}
		ad, err := netip.ParseAddr(s)
		if err != nil || !ad.Is6() || ad.Zone() != "" || strings.Count(s, ":") != 7 || strings.Contains(s, "::") || strings.Contains(s, ".") {
			return "", ""
		}
		if y == nil || v6addr(y) != ad {
			return "C20/ipv6-parse-full", fmt.Sprintf("NewIPv6FromString(%q) = %v, netip says %v", s, y, ad)
		}
		return "", ""
	})
	// args: ip, start, end
	Oracle("c20.ipv6.range", func(a []Val) (string, string) {
		x, s, e := v6of(a[0]), v6of(a[1]), v6of(a[2])
		want := v6addr(s).Compare(v6addr(x)) <= 0 && v6addr(x).Compare(v6addr(e)) <= 0
		if got := x.IsInRange(s, e); got != want {
			return "C20/ipv6-range", fmt.Sprintf("%s IsInRange(%s, %s) = %v want %v", x, s, e, got, want)
		}
		r := &ip.IPv6Range{Start: s, End: e}
		if got := r.Contains(x); got != want {
			return "C20/ipv6-range", fmt.Sprintf("[%s].Contains(%s) = %v want %v", r, x, got, want)
		}
		if r.String() != s.String()+" - "+e.String() {
			return "C20/ipv6-range-string", fmt.Sprintf("range prints %q", r.String())
		}
		// the IPv6 type carries no prefix length: IsInSubnet is membership in the /128 of the argument
		wantS := netip.PrefixFrom(v6addr(s), 128).Contains(v6addr(x))
		if got := x.IsInSubnet(s); got != wantS {
			return "C20/ipv6-subnet", fmt.Sprintf("%s IsInSubnet %s = %v want %v", x, s, got, wantS)
		}
		return "", ""
	})

	// complete reference for the (lenient) dotted-decimal CIDR reader: accepted iff "a.b.c.d/m" with five
	// decimal fields <= 255, and then with exactly these values
	Oracle("c20.ipv4.parse_ref", func(a []Val) (string, string) {
		s := a[0].Str()
		var y *ip.IPv4
		if p, pv := noPanic(func() { y = ip.NewIPv4FromString(s) }); p {
			return "C20/ipv4-parse-panic", fmt.Sprintf("NewIPv4FromString(%q) panics: %v", s, pv)
		}
		var want *ip.IPv4
		if i := strings.IndexByte(s, '/'); i >= 0 {
			oct, ok1 := refFields(s[:i], '.', 4, 10, 255)
			m, ok2 := refUint(s[i+1:], 10, 255)
			if ok1 && ok2 {
				want = ip.NewIPv4(uint8(oct[0]), uint8(oct[1]), uint8(oct[2]), uint8(oct[3]), uint8(m))
			}
		}
		switch {
		case want == nil && y != nil:
			return "C20/ipv4-parse-accepts-malformed", fmt.Sprintf("NewIPv4FromString(%q) = %v", s, *y)
		case want != nil && y == nil:
			return "C20/ipv4-parse-cidr", fmt.Sprintf("NewIPv4FromString(%q) = nil, want %v", s, *want)
		case want != nil && *want != *y:
			return "C20/ipv4-parse-value", fmt.Sprintf("NewIPv4FromString(%q) = %v, want %v", s, *y, *want)
		}
		return "", ""
	})
	Oracle("c20.ipv6.parse_ref", func(a []Val) (string, string) {
		s := a[0].Str()
		var y *ip.IPv6
		if p, pv := noPanic(func() { y = ip.NewIPv6FromString(s) }); p {
			return "C20/ipv6-parse-panic", fmt.Sprintf("NewIPv6FromString(%q) panics: %v", s, pv)
		}
		gs, ok := refFields(s, ':', 8, 16, 0xffff)
		switch {
		case !ok && y != nil:
			return "C20/ipv6-parse-accepts-malformed", fmt.Sprintf("NewIPv6FromString(%q) = %v", s, *y)
		case ok && y == nil:
			return "C20/ipv6-parse-full", fmt.Sprintf("NewIPv6FromString(%q) = nil", s)
		case ok:
			w := ip.NewIPv6(uint16(gs[0]), uint16(gs[1]), uint16(gs[2]), uint16(gs[3]), uint16(gs[4]), uint16(gs[5]), uint16(gs[6]), uint16(gs[7]))
			if *w != *y {
				return "C20/ipv6-parse-value", fmt.Sprintf("NewIPv6FromString(%q) = %v, want %v", s, *y, *w)
			}
		}
		return "", ""
	})

	// ------------------------------------------------------------ port ranges
	Oracle("c20.ports.roundtrip", func(a []Val) (string, string) {
		st, en := uint16(a[0].Uint()), uint16(a[1].Uint())
		s := ip.NewTCPPortRange(st, en).String()
		if s != strconv.Itoa(int(st))+"-"+strconv.Itoa(int(en)) {
			return "C20/ports-print", fmt.Sprintf("String() = %q", s)
		}
		var p *ip.TCPPortRange
		var err error
		if pn, pv := noPanic(func() { p, err = ip.NewTCPPortRangeFromString(s) }); pn {
			return "C20/ports-parse-panic", fmt.Sprintf("%q panics: %v", s, pv)
		}
		if err != nil || p == nil || p.Start != st || p.End != en {
			return "C20/ports-roundtrip", fmt.Sprintf("NewTCPPortRangeFromString(%q) = %v, %v", s, p, err)
		}
		return "", ""
	})
	// whatever is accepted denotes exactly the two canonical numerals it contains; canonical text is accepted
	Oracle("c20.ports.parse", func(a []Val) (string, string) {
		s := a[0].Str()
		var p *ip.TCPPortRange
		var err error
		if pn, pv := noPanic(func() { p, err = ip.NewTCPPortRangeFromString(s) }); pn {
			return "C20/ports-parse-panic", fmt.Sprintf("%q panics: %v", s, pv)
		}
		i := strings.IndexByte(s, '-')
		var st, en uint16
		canon := false
		if i >= 0 {
			var ok1, ok2 bool
			st, ok1 = refPort(s[:i])
			en, ok2 = refPort(s[i+1:])
			canon = ok1 && ok2
		}
		if canon && (err != nil || p.Start != st || p.End != en) {
			return "C20/ports-canonical-rejected", fmt.Sprintf("%q: got %v, %v", s, p, err)
		}
		if err == nil && (p == nil || !canon) {
			return "C20/ports-accepts-noncanonical", fmt.Sprintf("%q accepted as %v", s, p)
		}
		return "", ""
	})

	// ------------------------------------------------------------ LM:NT hashes
	// args: s, ws1, ws2   parse(ws1+s+ws2) == parse(s)
	Oracle("c20.hashes.pad", func(a []Val) (string, string) {
		s, w1, w2 := a[0].Str(), a[1].Str(), a[2].Str()
		o0, o1 := runHashes(s), runHashes(w1+s+w2)
		if o0.pan || o1.pan {
			return "C20/hashes-parse-panic", fmt.Sprintf("%q", w1+s+w2)
		}
		if o0 != o1 {
			return "C20/hash-padding", fmt.Sprintf("ParseLMNTHashes(%q) = %v but ParseLMNTHashes(%q) = %v", s, o0, w1+s+w2, o1)
		}
		return "", ""
	})
	// args: s    upper/lower case variants are treated alike (same outcome, same hashes up to case)
	Oracle("c20.hashes.case", func(a []Val) (string, string) {
		s := a[0].Str()
		up, lo := asciiUpperC20(s), asciiLower(s)
		o, ou, ol := runHashes(s), runHashes(up), runHashes(lo)
		if o.err != ou.err || o.err != ol.err {
			return "C20/hash-case", fmt.Sprintf("%q: %v, upper %v, lower %v", s, o, ou, ol)
		}
		if !o.err && (asciiLower(o.lm) != ol.lm || asciiLower(o.nt) != ol.nt || asciiUpperC20(o.lm) != ou.lm || asciiUpperC20(o.nt) != ou.nt) {
			return "C20/hash-case", fmt.Sprintf("%q: %v, upper %v, lower %v", s, o, ou, ol)
		}
		return "", ""
	})
	// args: s, ws1, ws2   against the reference grammar: a valid specification never loses a hash,
	// an invalid one is an error
	Oracle("c20.hashes.grammar", func(a []Val) (string, string) {
		s, w1, w2 := a[0].Str(), a[1].Str(), a[2].Str()
		in := w1 + s + w2
		lm, nt, ok := refHashes(refTrim(in))
		o := runHashes(in)
		if o.pan {
			return "C20/hashes-parse-panic", fmt.Sprintf("%q", in)
		}
		if !ok {
			if !o.err {
				return "C20/hash-invalid-accepted", fmt.Sprintf("ParseLMNTHashes(%q) = %v, not in the grammar", in, o)
			}
			return "", ""
		}
		if o.err {
			return "C20/hash-valid-rejected", fmt.Sprintf("ParseLMNTHashes(%q) = error, grammar gives (%q,%q)", in, lm, nt)
		}
		if o.lm != lm || o.nt != nt {
			key := "C20/hash-lost"
			if w1 != "" || w2 != "" || refTrim(s) != s {
				key = "C20/hash-padding"
			}
			return key, fmt.Sprintf("ParseLMNTHashes(%q) = %v, grammar gives (%q,%q)", in, o, lm, nt)
		}
		c, err := credentials.NewCredentials("dom", "user", "pw", in)
		if err != nil || c.LMHash != lm || c.NTHash != nt || c.CanPassTheHash() != (nt != "") {
			return "C20/creds-new", fmt.Sprintf("NewCredentials(%q) = %+v, %v", in, c, err)
		}
		return "", ""
	})
	// the model's white-space table is exactly unicode.IsSpace (what strings.TrimSpace strips)
	Oracle("c20.spacetable", func(a []Val) (string, string) {
		in := map[rune]bool{}
		for _, r := range c20SpaceRunes {
			in[r] = true
		}
		for r := rune(0); r <= unicode.MaxRune; r++ {
			if unicode.IsSpace(r) != in[r] {
				return "C20/space-table", fmt.Sprintf("U+%04X: unicode.IsSpace = %v", r, unicode.IsSpace(r))
			}
		}
		return "", ""
	})

	Gen("C20", genC20)
}

func asciiUpperC20(s string) string {
	b := []byte(s)
	for i, c := range b {
		if c >= 'a' && c <= 'z' {
			b[i] = c - 32
		}
	}
	return string(b)
}

func asciiLower(s string) string {
	b := []byte(s)
	for i, c := range b {
		if c >= 'A' && c <= 'Z' {
			b[i] = c + 32
		}
	}
	return string(b)
}

// ---------------------------------------------------------------- generators

var c20Octets = []uint8{0, 1, 2, 9, 10, 11, 99, 100, 101, 127, 128, 172, 192, 199, 200, 249, 250, 254, 255}

func prefixMask32(m int) uint32 {
	if m <= 0 {
		return 0
	}
	return ^uint32(0) << uint(32-m)
}

func genC20(c *Ctx) {
	c.Check("c20.spacetable")
	genC20IPv4(c)
	genC20IPv6(c)
	genC20Ports(c)
	genC20Hashes(c)
}

func genC20IPv4(c *Ctx) {
	r := c.Rng
	rnd32 := func() uint32 {
		switch r.Intn(4) {
		case 0:
			return uint32(r.U64Edge())
		case 1:
			return uint32(c20Octets[r.Intn(len(c20Octets))])<<24 | uint32(c20Octets[r.Intn(len(c20Octets))])<<16 |
				uint32(c20Octets[r.Intn(len(c20Octets))])<<8 | uint32(c20Octets[r.Intn(len(c20Octets))])
		}
		return uint32(r.U64())
	}
	// --- subnet / mask: every prefix length 0..32 with boundary addresses; >32 for the model only
	masks := []int{}
	for m := 0; m <= 32; m++ {
		masks = append(masks, m)
	}
	masks = append(masks, 33, 34, 39, 40, 63, 64, 127, 128, 200, 224, 225, 254, 255)
	fixedBases := []uint32{0x0a000000, 0xc0a80111, 0xac100001, 0, 0xffffffff, 0x80000000, 0x7fffffff, 0x0affffff}
	for _, m := range masks {
		mk := prefixMask32(m)
		if m > 32 {
			mk = 0
		}
		for rep := 0; rep < len(fixedBases)+c.N(4, 60); rep++ {
			var base uint32
			if rep < len(fixedBases) {
				base = fixedBases[rep]
			} else {
				base = rnd32()
			}
			net := base & mk
			bcast := net | ^mk
			subnets := []uint32{net, base, bcast} // subnet argument with and without host bits set
			cands := []uint32{net, net + 1, bcast, bcast - 1, net - 1, bcast + 1, 0, 0xffffffff, base, rnd32(), ^net, ^base}
			if m >= 1 && m <= 32 {
				cands = append(cands, base^(1<<uint(32-m))) // lowest network bit flipped
			}
			if m <= 31 {
				cands = append(cands, base^(1<<uint(31-m))) // highest host bit flipped
			}
			cands = append(cands, base|0x80000000, base&0x7fffffff, base^1)
			ipm := uint8(r.Pick(0, 8, 24, 32, m&0xff))
			for _, sn := range subnets {
				nv := v4u32(sn, uint8(m))
				for _, x := range cands {
					xv := v4u32(x, ipm)
					c.Check("c20.ipv4.subnet", xv, nv)
					c.Case("ipv4.insubnet", xv, nv)
				}
			}
			bv := v4u32(base, uint8(m))
			c.Check("c20.ipv4.mask", bv)
			c.Case("ipv4.computemask", bv)
			c.Case("ipv4.cidrmask", bv)
			c.Case("ipv4.tou32", bv)
			c.Check("c20.ipv4.tou32", bv)
		}
	}
	// the documented example of the defect inventory
	c.Check("c20.ipv4.subnet", v4u32(0xffffffff, 32), v4u32(0x0a000000, 8))

	// --- print / parse
	maskEdges := []uint8{0, 1, 7, 8, 9, 10, 16, 24, 31, 32, 33, 99, 100, 128, 255}
	for _, a := range c20Octets {
		for _, m := range maskEdges {
			v := L(U(uint64(a)), U(uint64(c20Octets[r.Intn(len(c20Octets))])), U(uint64(r.Byte())), U(uint64(255-a)), U(uint64(m)))
			c.Check("c20.ipv4.roundtrip", v)
			s := c.Case("ipv4.string", v)
			c.Case("ipv4.cidraddr", v)
			c.Case("ipv4.parse", s)
			c.Check("c20.total.ipv4_parse", s)
		}
	}
	for rep := 0; rep < c.N(300, 6000); rep++ {
		v := v4u32(rnd32(), r.Byte())
		c.Check("c20.ipv4.roundtrip", v)
		s := c.Case("ipv4.string", v)
		c.Case("ipv4.parse", s)
	}
	// --- malformed / adversarial strings
	corpus := []string{"10/8", "", "/", "//", "1.2.3.4", "1.2.3.4/", "/8", "1.2.3.4/32", "1.2.3.4/33", "1.2.3.4/255", "1.2.3.4/256",
		"256.1.1.1/8", "1.256.1.1/8", "1.1.256.1/8", "1.1.1.256/8", "01.02.03.04/08", "1.2.3/8", "1.2/8", "1/8", "1.2.3.4.5/8",
		"1.2.3.4/8/9", "+1.2.3.4/8", "1.2.3.4/+8", "-1.2.3.4/8", " 1.2.3.4/8", "1.2.3.4/8 ", "1.2.3.4 /8", "1..3.4/8", ".1.2.3/8",
		"1.2.3./8", "0x1.2.3.4/8", "1_0.2.3.4/8", "0000000000000000000000000001.2.3.4/8", "99999999999999999999999.1.1.1/8",
		"1.2.3.4/0000000000000000000000008", "1.2.3.4/99999999999999999999999", "10.0.0.0/8", "0.0.0.0/0", "255.255.255.255/32",
		"1.2.3.4/8\n", "\x00/\x00", "a.b.c.d/e", "1.2.3.4/a", "1.2.3.4\\8", "١.٢.٣.٤/٨", "1.2.3.4/8\x00", "10/8/", "10.1/8", "10.1.2/8",
		"::1/128", "1.2.3.4/-1", "1.2.3.4/1e1", "1.2.3.4/0x8", "１.2.3.4/8"}
	for _, s := range corpus {
		c.Case("ipv4.parse", S(s))
		c.Check("c20.total.ipv4_parse", S(s))
		c.Check("c20.ipv4.netip_parse", S(s))
		c.Check("c20.ipv4.parse_ref", S(s))
	}
	for rep := 0; rep < c.N(12, 100); rep++ {
		s := v4of(v4u32(rnd32(), uint8(r.Intn(40)))).String()
		for _, m := range Malformed([]byte(s), 24) {
			c.Case("ipv4.parse", B(m))
			c.Check("c20.total.ipv4_parse", B(m))
			c.Check("c20.ipv4.netip_parse", B(m))
			c.Check("c20.ipv4.parse_ref", B(m))
		}
	}
	for rep := 0; rep < c.N(600, 12000); rep++ {
		var s string
		switch r.Intn(3) {
		case 0:
			s = r.StringOver("0123456789./", r.Intn(20))
		case 1:
			s = r.StringOver("0125./ +-_x", r.Intn(16))
		default: // dotted groups of digits with a slash
			n := r.Pick(1, 2, 3, 4, 4, 4, 4, 5)
			var gs []string
			for i := 0; i < n; i++ {
				gs = append(gs, r.StringOver("0123456789", r.Pick(0, 1, 1, 2, 3, 3, 4)))
			}
			s = strings.Join(gs, ".")
			for k := r.Pick(0, 1, 1, 1, 1, 2); k > 0; k-- {
				s += "/" + r.StringOver("0123456789", r.Pick(0, 1, 2, 2, 3))
			}
		}
		c.Case("ipv4.parse", S(s))
		c.Check("c20.total.ipv4_parse", S(s))
		c.Check("c20.ipv4.netip_parse", S(s))
		c.Check("c20.ipv4.parse_ref", S(s))
	}
	// --- ranges
	for rep := 0; rep < c.N(400, 8000); rep++ {
		s, e := rnd32(), rnd32()
		if r.Intn(4) != 0 && s > e {
			s, e = e, s
		}
		xs := []uint32{s, e, s - 1, s + 1, e - 1, e + 1, rnd32(), 0, 0xffffffff, s ^ 0x80000000, (s & 0xffffff00) | (e & 0xff)}
		x := xs[r.Intn(len(xs))]
		sv, ev, xv := v4u32(s, r.Byte()), v4u32(e, r.Byte()), v4u32(x, r.Byte())
		c.Check("c20.ipv4.range", xv, sv, ev)
		c.Case("ipv4.inrange", xv, sv, ev)
		c.Case("ipv4range.contains", sv, ev, xv)
		if rep%8 == 0 {
			c.Case("ipv4range.string", sv, ev)
		}
	}
}

func genC20IPv6(c *Ctx) {
	r := c.Rng
	edges := []uint16{0, 1, 9, 0xa, 0xf, 0x10, 0xff, 0x100, 0xfff, 0x1000, 0x7fff, 0x8000, 0xdb8, 0x2001, 0xfe80, 0xfffe, 0xffff}
	rndG := func() [8]uint16 {
		var g [8]uint16
		for i := range g {
			switch r.Intn(3) {
			case 0:
				g[i] = edges[r.Intn(len(edges))]
			case 1:
				g[i] = 0
			default:
				g[i] = uint16(r.U64())
			}
		}
		return g
	}
	// every edge value in every group position
	for pos := 0; pos < 8; pos++ {
		for _, e := range edges {
			var g [8]uint16
			if r.Bool() {
				g = rndG()
			}
			g[pos] = e
			v := v6groups(g)
			c.Check("c20.ipv6.roundtrip", v)
			s := c.Case("ipv6.string", v)
			c.Case("ipv6.parse", s)
			c.Case("ipv6.tou128", v)
		}
	}
	for rep := 0; rep < c.N(300, 6000); rep++ {
		v := v6groups(rndG())
		c.Check("c20.ipv6.roundtrip", v)
		s := c.Case("ipv6.string", v)
		c.Case("ipv6.parse", s)
		c.Case("ipv6.tou128", v)
		c.Check("c20.total.ipv6_parse", s)
	}
	corpus := []string{"", ":", "::", "::1", "1::", "1:2:3:4:5:6:7:8", "1:2:3:4:5:6:7", "1:2:3:4:5:6:7:8:9", "1:2:3:4:5:6:7:",
		":2:3:4:5:6:7:8", "1:2:3:4::6:7:8", "FFFF:ffff:FfFf:0:0:0:0:0", "10000:0:0:0:0:0:0:0", "0:0:0:0:0:0:0:10000", "00001:0:0:0:0:0:0:0",
		"0001:0002:0003:0004:0005:0006:0007:0008", "g:0:0:0:0:0:0:0", "0x1:0:0:0:0:0:0:0", "+1:0:0:0:0:0:0:0", "-1:0:0:0:0:0:0:0",
		" 1:0:0:0:0:0:0:0", "1:0:0:0:0:0:0:0 ", "1_0:0:0:0:0:0:0:0", "1:2:3:4:5:6:1.2.3.4", "fe80:0:0:0:0:0:0:1%eth0",
		"0:0:0:0:0:0:0:0", "ffff:ffff:ffff:ffff:ffff:ffff:ffff:ffff", "2001:db8:0:0:0:0:0:1", "2001:db8::1", "1:2:3:4:5:6:7:8\n",
		"000000000000000000000000000000001:0:0:0:0:0:0:0", "fffffffffffffffffffffff:0:0:0:0:0:0:0", ":::::::", "0:0:0:0:0:0:0:\x00"}
	for _, s := range corpus {
		c.Case("ipv6.parse", S(s))
		c.Check("c20.total.ipv6_parse", S(s))
		c.Check("c20.ipv6.netip_parse", S(s))
		c.Check("c20.ipv6.parse_ref", S(s))
	}
	for rep := 0; rep < c.N(8, 80); rep++ {
		s := v6of(v6groups(rndG())).String()
		for _, m := range Malformed([]byte(s), 40) {
			c.Case("ipv6.parse", B(m))
			c.Check("c20.total.ipv6_parse", B(m))
			c.Check("c20.ipv6.netip_parse", B(m))
			c.Check("c20.ipv6.parse_ref", B(m))
		}
	}
	for rep := 0; rep < c.N(500, 10000); rep++ {
		var s string
		if r.Bool() {
			n := r.Pick(6, 7, 8, 8, 8, 8, 8, 9)
			var gs []string
			for i := 0; i < n; i++ {
				gs = append(gs, r.StringOver("0123456789abcdefABCDEF0000", r.Pick(0, 1, 1, 2, 3, 4, 4, 4, 5)))
			}
			s = strings.Join(gs, ":")
		} else {
			s = r.StringOver("0123fF:g.x +-_", r.Intn(24))
		}
		c.Case("ipv6.parse", S(s))
		c.Check("c20.total.ipv6_parse", S(s))
		c.Check("c20.ipv6.netip_parse", S(s))
		c.Check("c20.ipv6.parse_ref", S(s))
	}
	// ranges whose bounds sit on the extremes of a 64-bit half or of a 16-bit group (a whole /64, a whole /48 ...):
	// sizes computed as end-start+1 wrap to 0 exactly there
	{
		ext := []uint16{0, 1, 0x7fff, 0x8000, 0xfffe, 0xffff}
		for rep := 0; rep < c.N(600, 8000); rep++ {
			s, e := rndG(), rndG()
			copy(e[:4], s[:4])
			k := r.Intn(5) // groups k..7 of the bounds are extremes
			for g := 3 + k; g < 8; g++ {
				if g < 4 {
					continue
				}
				s[g] = []uint16{0, 0, 0, 1}[r.Intn(4)]
				e[g] = []uint16{0xffff, 0xffff, 0xffff, 0xfffe}[r.Intn(4)]
			}
			if rep%5 == 0 { // the whole /64 exactly
				for g := 4; g < 8; g++ {
					s[g], e[g] = 0, 0xffff
				}
			}
			x := s
			for g := 4; g < 8; g++ {
				x[g] = ext[r.Intn(len(ext))]
				if r.Intn(3) == 0 {
					x[g] = uint16(r.U64())
				}
			}
			if rep%7 == 0 {
				x[3]++ // just outside the shared high half
			}
			sv, ev, xv := v6groups(s), v6groups(e), v6groups(x)
			c.Check("c20.ipv6.range", xv, sv, ev)
			c.Case("ipv6.inrange", xv, sv, ev)
			c.Case("ipv6range.contains", sv, ev, xv)
		}
	}
	// ranges: boundaries in both 64-bit halves
	for rep := 0; rep < c.N(500, 10000); rep++ {
		s, e := rndG(), rndG()
		if r.Intn(3) == 0 { // same high half, the case where the low-half comparison decides
			copy(e[:4], s[:4])
		}
		if r.Intn(3) == 0 {
			copy(e[:7], s[:7])
		}
		x := rndG()
		switch r.Intn(8) {
		case 0:
			x = s
		case 1:
			x = e
		case 2:
			x = s
			x[7]++
		case 3:
			x = s
			x[7]--
		case 4:
			x = e
			x[7]++
		case 5:
			x = e
			x[3]++
		case 6:
			x = s
			x[4] ^= 0x8000
		}
		sv, ev, xv := v6groups(s), v6groups(e), v6groups(x)
		c.Check("c20.ipv6.range", xv, sv, ev)
		c.Case("ipv6.inrange", xv, sv, ev)
		c.Case("ipv6range.contains", sv, ev, xv)
		c.Case("ipv6.insubnet", xv, sv)
		if rep%8 == 0 {
			c.Case("ipv6range.string", sv, ev)
			c.Case("ipv6.insubnet", sv, sv)
		}
	}
}

func genC20Ports(c *Ctx) {
	r := c.Rng
	edges := []uint16{0, 1, 2, 9, 10, 11, 80, 99, 100, 101, 443, 999, 1000, 1001, 1024, 8080, 9999, 10000, 10001, 19999, 20000,
		59999, 60000, 60001, 64999, 65000, 65001, 65499, 65500, 65501, 65529, 65530, 65531, 65534, 65535}
	for _, a := range edges {
		for _, b := range edges {
			c.Check("c20.ports.roundtrip", U(uint64(a)), U(uint64(b)))
			s := c.Case("ports.string", U(uint64(a)), U(uint64(b)))
			c.Case("ports.parse", s)
		}
	}
	for rep := 0; rep < c.N(500, 20000); rep++ {
		a, b := uint16(r.U64()), uint16(r.U64())
		if r.Intn(3) == 0 {
			a = uint16(r.U64() >> uint(48+r.Intn(16)))
		}
		c.Check("c20.ports.roundtrip", U(uint64(a)), U(uint64(b)))
		s := c.Case("ports.string", U(uint64(a)), U(uint64(b)))
		c.Case("ports.parse", s)
		c.Check("c20.ports.parse", s)
	}
	corpus := []string{"", "-", "1-", "-2", "1-2", "1--2", "1-2-3", "65535-65535", "65536-1", "0-65536", "65540-1", "65600-1", "66000-1",
		"70000-1", "99999-1", "100000-1", "00-1", "01-2", "1-02", "0-0", " 1-2", "1 -2", "1- 2", "1-2 ", " 1 - 2 ", "\t1\n-\f2\r", "1\v-2",
		"\v1-2", "1-2\n", "1-2\n\n", "\n1-2", "1−2", "١-٢", "1 2-3", "1-2 3", "+1-2", "1-+2", "0x1-2", "1_0-2", "1-2\x00", "\xa01-2",
		"1-2\xc2\xa0", "80-8080", "0-65535", "1024-2048", "invalid", "80-70000", "6553-65535", "65535-6553", "655350-1", "1-655350",
		"65535", "a-b", "1.0-2", "1e3-2", "１-2"}
	for _, s := range corpus {
		c.Case("ports.parse", S(s))
		c.Check("c20.total.ports_parse", S(s))
		c.Check("c20.ports.parse", S(s))
	}
	// numerals around every alternative of the regular expression, with optional leading zero / extra digit
	nums := []string{"0", "9", "10", "99", "100", "9999", "10000", "59999", "60000", "64999", "65000", "65499", "65500", "65529", "65530",
		"65535", "65536", "65539", "65540", "65599", "65600", "65999", "66000", "69999", "70000", "99999", "100000", "00", "007", "06553", "655355"}
	for _, a := range nums {
		for _, b := range nums {
			c.Case("ports.parse", S(a+"-"+b))
			c.Check("c20.ports.parse", S(a+"-"+b))
		}
	}
	for rep := 0; rep < c.N(6, 60); rep++ {
		s := ip.NewTCPPortRange(uint16(r.U64()), uint16(r.U64())).String()
		for _, m := range Malformed([]byte(s), 12) {
			c.Case("ports.parse", B(m))
			c.Check("c20.total.ports_parse", B(m))
			c.Check("c20.ports.parse", B(m))
		}
	}
	for rep := 0; rep < c.N(800, 16000); rep++ {
		var s string
		switch r.Intn(3) {
		case 0:
			s = r.StringOver("0123456789-", r.Intn(13))
		case 1:
			s = r.StringOver("6553 -\t\n\v\f\r0", r.Intn(14))
		default:
			ws := func() string { return r.StringOver(" \t\n\f\r\v", r.Pick(0, 0, 0, 1, 2)) }
			s = ws() + r.StringOver("0123456789", r.Pick(0, 1, 2, 4, 5, 5, 6)) + ws() + r.StringOver("-", r.Pick(0, 1, 1, 1, 1, 2)) + ws() +
				r.StringOver("0123456", r.Pick(0, 1, 3, 5, 5)) + ws()
		}
		c.Case("ports.parse", S(s))
		c.Check("c20.total.ports_parse", S(s))
		c.Check("c20.ports.parse", S(s))
	}
}

func genC20Hashes(c *Ctx) {
	r := c.Rng
	spaces := make([]string, len(c20SpaceRunes))
	for i, sr := range c20SpaceRunes {
		spaces[i] = string(sr)
	}
	pad := func() string {
		var sb strings.Builder
		for k := r.Pick(0, 0, 1, 1, 2, 3); k > 0; k-- {
			if r.Intn(3) == 0 {
				sb.WriteString(spaces[r.Intn(len(spaces))])
			} else {
				sb.WriteString(spaces[r.Intn(6)])
			}
		}
		return sb.String()
	}
	hex32 := func() string {
		switch r.Intn(5) {
		case 0:
			return r.StringOver("0123456789abcdef", 32)
		case 1:
			return r.StringOver("0123456789ABCDEF", 32)
		case 2:
			return r.StringOver("0123456789abcdefABCDEF", 32)
		case 3:
			return "aad3b435b51404eeaad3b435b51404ee"
		}
		return "31d6cfe0d16ae931b73c59d7e0c089c0"
	}
	valid := func() string {
		switch r.Intn(4) {
		case 0:
			return hex32()
		case 1:
			return ":" + hex32()
		case 2:
			return ""
		}
		return hex32() + ":" + hex32()
	}
	run := func(s, w1, w2 string) {
		c.Check("c20.hashes.pad", S(s), S(w1), S(w2))
		c.Check("c20.hashes.grammar", S(s), S(w1), S(w2))
		c.Check("c20.hashes.case", S(w1+s+w2))
		c.Case("hashes.parse", S(w1+s+w2))
		c.Check("c20.total.hashes_parse", S(w1+s+w2))
	}
	// every white-space token on each side of every form
	lm, nt := "AAD3B435B51404EEAAD3B435B51404EE", "31d6cfe0d16ae931b73c59d7e0c089c0"
	for _, form := range []string{lm + ":" + nt, nt, ":" + nt, "", asciiLower(lm) + ":" + asciiUpperC20(nt)} {
		run(form, "", "")
		for _, sp := range spaces {
			run(form, sp, "")
			run(form, "", sp)
			run(form, sp, sp)
		}
		run(form, " ", " ") // the witness of the defect inventory: " LM:NT "
	}
	for rep := 0; rep < c.N(400, 8000); rep++ {
		run(valid(), pad(), pad())
	}
	// near misses: wrong lengths, wrong characters, inner white space, extra colons
	corpus := []string{":", "::", lm + ":", lm + "::" + nt, lm + ":" + nt + ":", lm + ":" + nt + ":" + nt, lm + " :" + nt, lm + ": " + nt,
		lm[:31] + ":" + nt, lm + ":" + nt[:31], lm + "0:" + nt, lm + ":" + nt + "0", "g" + lm[1:] + ":" + nt, lm + ":" + nt[:31] + "G",
		"invalidhash", lm + nt, lm + ":" + nt + "\n", "\n" + lm + ":" + nt, lm + "\xc2\xa0:" + nt, "\xa0" + nt, nt + "\x85", nt + "\xc2",
		"\xe2\x80" + nt, nt + "\xe2\x80", nt + "\x80\x80", "\xe2\x80\x80\x80" + nt, lm + ":" + nt + "\xe1\x9a", "\xe3\x80" + nt + "\xe3\x80\x80",
		strings.Repeat("K", 32), strings.Repeat("K", 32), strings.Repeat("ſ", 32), lm + ";" + nt, lm + "：" + nt, "\x00" + nt, nt + "\x00",
		strings.Repeat("a", 31), strings.Repeat("a", 33), strings.Repeat("a", 64), strings.Repeat("a", 65), ":" + strings.Repeat("a", 31),
		":" + strings.Repeat("a", 33), " ", "\t\n", " : ", " ", "\xe2\x80\xa8" + nt + "\xe2\x80\xa9", "\xe2\x80\x8b" + nt, "\xe2\x80\x8a" + nt,
		"\xe2\x81\x9f" + nt, "\xe2\x81\xa0" + nt, "\xe1\x9a\x81" + nt, "\xc2\x84" + nt, "\xc2\x86" + nt}
	for _, s := range corpus {
		run(s, "", "")
		run(s, pad(), pad())
	}
	for rep := 0; rep < c.N(8, 60); rep++ {
		s := valid()
		for _, m := range Malformed([]byte(s), 70) {
			run(string(m), "", "")
		}
	}
	for rep := 0; rep < c.N(400, 8000); rep++ {
		var s string
		switch r.Intn(4) {
		case 0:
			s = r.StringOver("0123456789abcdefABCDEFg: ", r.Pick(0, 1, 31, 32, 33, 34, 64, 65, 66))
		case 1: // one corrupted position in a valid string
			b := []byte(valid())
			if len(b) > 0 {
				b[r.Intn(len(b))] = []byte{'g', 'G', ':', ' ', '/', '@', '`', 0x80, 0xff, '0', 'f', 'F'}[r.Intn(12)]
			}
			s = string(b)
		case 2: // white-space-like bytes inside or around
			b := []byte(valid())
			tok := []string{"\xc2", "\x85", "\xa0", "\xe2\x80", "\x80", "\xe2", "\xe1\x9a", "\xe3\x80", "\x9f", "\xc2\x85", "\xe3\x80\x80"}[r.Intn(11)]
			if r.Bool() {
				s = tok + string(b)
			} else {
				s = string(b) + tok
			}
		default:
			s = string(r.Bytes(r.Pick(0, 1, 2, 32, 33, 65)))
		}
		run(s, pad(), pad())
	}
	// NewCredentials passes the other fields through
	for rep := 0; rep < c.N(60, 600); rep++ {
		h := pad() + valid() + pad()
		if r.Intn(5) == 0 {
			h = r.StringOver("0123abc: ", r.Intn(40))
		}
		d, u, p := r.StringOver("ab.C", r.Intn(4)), r.StringOver("uU1", r.Intn(3)), r.StringOver("pw :", r.Intn(4))
		c.Case("creds.new", S(d), S(u), S(p), S(h))
		c.Check("c20.total.creds_new", S(h))
	}
}
