//go:build c05 || allprops

package main

import (
	"bytes"
	"encoding/binary"
	"fmt"
	"reflect"

	"github.com/TheManticoreProject/Manticore/network/smb/smb_v10/dialects"
	"github.com/TheManticoreProject/Manticore/network/smb/smb_v10/message/commands/andx"
	"github.com/TheManticoreProject/Manticore/network/smb/smb_v10/message/commands/codes"
	"github.com/TheManticoreProject/Manticore/network/smb/smb_v10/message/header"
	"github.com/TheManticoreProject/Manticore/network/smb/smb_v10/types"
)

func leBytes(v uint64, w int) []byte {
	b := make([]byte, 8)
	binary.LittleEndian.PutUint64(b, v)
	return b[:w]
}

func init() {
	Impl("dialects.marshal", func(a []Val) Val {
		d := dialects.NewDialects()
		for _, x := range a[0].L {
			d.AddDialect(x.Str())
		}
		b, err := d.Marshal()
		if err != nil {
			return VErr()
		}
		return B(b)
	})
	Impl("dialects.unmarshal", func(a []Val) Val {
		d := dialects.NewDialects()
		d.AddDialect("LEFT OVER 1") // a receiver that already holds a list: Unmarshal replaces it
		d.AddDialect("LEFT OVER 2")
		n, err := d.Unmarshal(exact(a[0].B))
		if err != nil {
			return VErr()
		}
		var l []Val
		for _, s := range d.Dialects {
			l = append(l, S(s))
		}
		return L(L(l...), I(int64(n)))
	})

	// byte order and width of one integer field, seen through the wire: args (structure, field index).
	// The field is given a value whose bytes are pairwise distinct; the bytes that change relative to
	// the zero value must be the little-endian image of the value, exactly as wide as the declared type.
	Oracle("c05.field", func(a []Val) (string, string) {
		name := a[0].Str()
		i := int(a[1].Int())
		x := smbNew(name)
		fv := cmdFieldValues(x)[i]
		fname := cmdFieldNames(x)[i]
		w := int(fv.Type().Size())
		if fv.Kind() == reflect.Struct { // LARGE_INTEGER
			w = 8
		}
		val := map[int]uint64{1: 0xA1, 2: 0xA1B2, 4: 0xA1B2C3D4, 8: 0xA1B2C3D4E5F60718}[w]
		base := genFieldsMode(NewRng(7), name, 2)
		b0, err0 := func() ([]byte, error) { c := smbNew(name); cmdSet(c, base); return c.Marshal() }()
		f1 := L(base.L...)
		f1.L[i] = U(val)
		b1, err1 := func() ([]byte, error) { c := smbNew(name); cmdSet(c, f1); return c.Marshal() }()
		if err0 != nil || err1 != nil || len(b0) != len(b1) {
			return "", "" // the field governs a length: not a plain integer slot
		}
		lo, hi := -1, -1
		for k := range b0 {
			if b0[k] != b1[k] {
				if lo < 0 {
					lo = k
				}
				hi = k
			}
		}
		if lo < 0 {
			return "C05/" + name + "/" + fname + "/not-emitted", fmt.Sprintf("%s.%s = %#x changes no byte", name, fname, val)
		}
		got := b1[lo : hi+1]
		le := leBytes(val, w)
		if bytes.Equal(got, le) {
			return "", ""
		}
		be := make([]byte, w)
		for k := range le {
			be[w-1-k] = le[k]
		}
		if bytes.Equal(got, be) {
			return "C05/" + name + "/" + fname + "/big-endian", fmt.Sprintf("%s.%s = %#x is emitted as %x at offset %d; MS-CIFS says %x", name, fname, val, got, lo, le)
		}
		return "C05/" + name + "/" + fname + "/width", fmt.Sprintf("%s.%s = %#x (declared %d bytes) changes bytes %d..%d: %x", name, fname, val, w, lo, hi, got)
	})
	// dialects: args (list of names)
	Oracle("c05.dialects", func(a []Val) (string, string) {
		d := dialects.NewDialects()
		var want []byte
		for _, x := range a[0].L {
			d.AddDialect(x.Str())
			want = append(want, 0x02)
			want = append(want, x.B...)
			want = append(want, 0x00)
		}
		got, err := d.Marshal()
		if err != nil || !bytes.Equal(got, want) {
			return "C05/dialects/encoding", fmt.Sprintf("dialects %s: got %x, MS-CIFS 2.2.4.52.1 says %x", a[0].String(), got, want)
		}
		d2 := dialects.NewDialects()
		n, err := d2.Unmarshal(exact(want))
		if err != nil || n != len(want) || len(d2.Dialects) != len(a[0].L) {
			return "C05/dialects/decoding", fmt.Sprintf("dialects %x: n=%d err=%v got %q", want, n, err, d2.Dialects)
		}
		for i, x := range a[0].L {
			if d2.Dialects[i] != x.Str() {
				return "C05/dialects/decoding", fmt.Sprintf("dialect %d: %q vs %q", i, d2.Dialects[i], x.Str())
			}
		}
		return "", ""
	})
	// AndX block: command, reserved, offset (little-endian): args (cmd, reserved, offset)
	Oracle("c05.andx", func(a []Val) (string, string) {
		x := andx.NewAndX()
		x.AndXCommand = codes.CommandCode(a[0].Uint())
		x.AndXReserved = types.UCHAR(a[1].Uint())
		x.AndXOffset = types.USHORT(a[2].Uint())
		b, err := x.Marshal()
		want := []byte{byte(a[0].Uint()), byte(a[1].Uint()), byte(a[2].Uint()), byte(a[2].Uint() >> 8)}
		if err != nil || !bytes.Equal(b, want) {
			if len(b) == 4 && b[0] == want[0] && b[1] == want[1] && b[2] == want[3] && b[3] == want[2] {
				return "C05/AndX/AndXOffset/big-endian", fmt.Sprintf("AndX offset %#x emitted as %x, MS-CIFS says %x", a[2].Uint(), b, want)
			}
			return "C05/AndX/layout", fmt.Sprintf("AndX %s: got %x want %x", L(a...).String(), b, want)
		}
		return "", ""
	})
	Oracle("c05.file_attributes", func(a []Val) (string, string) {
		fa := types.SMB_FILE_ATTRIBUTES{Attributes: uint16(a[0].Uint())}
		b, err := fa.Marshal()
		want := []byte{byte(a[0].Uint()), byte(a[0].Uint() >> 8)}
		if err != nil || !bytes.Equal(b, want) {
			if len(b) == 2 && b[0] == want[1] && b[1] == want[0] {
				return "C05/SMB_FILE_ATTRIBUTES/big-endian", fmt.Sprintf("attributes %#x emitted as %x, MS-CIFS says %x", a[0].Uint(), b, want)
			}
			return "C05/SMB_FILE_ATTRIBUTES/layout", fmt.Sprintf("got %x want %x", b, want)
		}
		return "", ""
	})
	// header: bytes emitted by Marshal equal the MS-CIFS 2.2.3.1 reference encoding (little-endian slots at
	// fixed offsets) and Unmarshal of the reference encoding returns the fields: args (header fields)
	Oracle("c05.header", func(a []Val) (string, string) {
		slot := func(off int) string {
			names := []struct {
				lo, hi int
				n      string
			}{{0, 4, "Protocol"}, {4, 5, "Command"}, {5, 9, "Status"}, {9, 10, "Flags"}, {10, 12, "Flags2"}, {12, 14, "PIDHigh"},
				{14, 22, "SecurityFeatures"}, {22, 24, "Reserved"}, {24, 26, "TID"}, {26, 28, "PIDLow"}, {28, 30, "UID"}, {30, 32, "MID"}}
			for _, x := range names {
				if off >= x.lo && off < x.hi {
					return x.n
				}
			}
			return "length"
		}
		ref := cifsHeader(a[0])
		h := header.NewHeader()
		hdrSet(h, a[0])
		b, err := h.Marshal()
		if err != nil {
			return "C05/header/marshal-fails", err.Error()
		}
		for k := 0; k < len(ref) || k < len(b); k++ {
			if k >= len(ref) || k >= len(b) || ref[k] != b[k] {
				return "C05/header/" + slot(k) + "/encoding", fmt.Sprintf("header %s: Marshal gives %x, MS-CIFS 2.2.3.1 says %x (first difference at byte %d)", a[0].String(), b, ref, k)
			}
		}
		h2 := header.NewHeader()
		if n, err := h2.Unmarshal(exact(ref)); err != nil || n != 32 {
			return "C05/header/decode", fmt.Sprintf("reference header %x does not decode: n=%d err=%v", ref, n, err)
		}
		got := hdrGet(h2)
		names := []string{"Protocol", "Command", "Status", "Flags", "Flags2", "PIDHigh", "SecurityFeatures", "Reserved", "TID", "PIDLow", "UID", "MID"}
		for i := range names {
			if got.L[i].String() != a[0].L[i].String() {
				return "C05/header/" + names[i] + "/decoding", fmt.Sprintf("reference header %x: %s decodes as %s, encoded %s", ref, names[i], got.L[i].String(), a[0].L[i].String())
			}
		}
		return "", ""
	})
	// decode direction of one integer field: args (structure, field index).  The structure's own encoding of a
	// value with pairwise distinct bytes is decoded again; a field that comes back byte-swapped or cut to a
	// narrower width is reported (anything else - shifted offsets, rejected encodings - is C04's concern).
	Oracle("c05.field_decode", func(a []Val) (string, string) {
		name := a[0].Str()
		i := int(a[1].Int())
		x := smbNew(name)
		fv := cmdFieldValues(x)[i]
		fname := cmdFieldNames(x)[i]
		w := int(fv.Type().Size())
		if fv.Kind() == reflect.Struct {
			return "", ""
		}
		val := map[int]uint64{1: 0xA1, 2: 0xA1B2, 4: 0xA1B2C3D4, 8: 0xA1B2C3D4E5F60718}[w]
		base := genFieldsMode(NewRng(7), name, 2)
		f1 := L(base.L...)
		f1.L[i] = U(val)
		c := smbNew(name)
		cmdSet(c, f1)
		b1, err := c.Marshal()
		if err != nil {
			return "", ""
		}
		sent := cmdGet(c)
		if sent.L[i].K != 'n' || sent.L[i].Uint() != val {
			return "", "" // Marshal derives this field (a count)
		}
		y := smbNew(name)
		ok := func() (ok bool) {
			defer func() {
				if recover() != nil {
					ok = false
				}
			}()
			_, err := y.Unmarshal(exact(b1))
			return err == nil
		}()
		if !ok {
			return "", ""
		}
		got := cmdGet(y).L[i]
		if got.K != 'n' {
			return "", ""
		}
		g := got.Uint()
		if g == val {
			return "", ""
		}
		swapped := uint64(0)
		for k := 0; k < w; k++ {
			swapped |= ((val >> (8 * uint(k))) & 0xff) << (8 * uint(w-1-k))
		}
		if g == swapped {
			return "C05/" + name + "/" + fname + "/decode-byte-order", fmt.Sprintf("%s.%s = %#x decodes from its own encoding %x as %#x", name, fname, val, b1, g)
		}
		for nw := 1; nw < w; nw++ {
			mask := uint64(1)<<(8*uint(nw)) - 1
			if g == val&mask || g == (val>>(8*uint(w-nw)))&mask || g == swapped&mask || g == (swapped>>(8*uint(w-nw)))&mask {
				return "C05/" + name + "/" + fname + "/decode-width", fmt.Sprintf("%s.%s = %#x (%d bytes) decodes from its own encoding %x as %#x: only %d byte(s) read", name, fname, val, w, b1, g, nw)
			}
		}
		return "", ""
	})
	Gen("C05", genC05)
}

func genC05(c *Ctx) {
	smbLoad()
	smbFactories()
	r := c.Rng
	nfields := 0
	for _, name := range smbNames {
		x := smbNew(name)
		for i, fv := range cmdFieldValues(x) {
			switch fv.Kind() {
			case reflect.Uint8, reflect.Uint16, reflect.Uint32, reflect.Uint64, reflect.Int16, reflect.Int32:
				c.Check("c05.field", S(name), I(int64(i)))
				c.Check("c05.field_decode", S(name), I(int64(i)))
				nfields++
			case reflect.Struct:
				if fv.Type().Name() == "LARGE_INTEGER" {
					c.Check("c05.field", S(name), I(int64(i)))
					nfields++
				}
			}
		}
		d := smbDescs[name]
		if d != nil && d.Translated {
			for i := 0; i < c.N(3, 30); i++ {
				c.Case("smb.marshal", S(name), genFieldsMode(r, name, 1), I(1))
			}
		}
	}
	c.Note("integer_fields_checked", nfields)
	// header: one value with pairwise distinct bytes, each field alone against a zero header, random headers
	c.Check("c05.header", hdrGen(r, true))
	zero := L(B([]byte{0, 0, 0, 0}), U(0), U(0), U(0), U(0), U(0), B(make([]byte, 8)), U(0), U(0), U(0), U(0), U(0))
	dist := hdrGen(r, true)
	for i := range zero.L {
		one := L(zero.L...)
		one.L[i] = dist.L[i]
		c.Check("c05.header", one)
	}
	for i := 0; i < c.N(200, 4000); i++ {
		c.Check("c05.header", hdrGen(r, false))
	}
	names := []string{"NT LM 0.12", "LANMAN1.0", "PC NETWORK PROGRAM 1.0", "", "a", "LM1.2X002", "Windows for Workgroups 3.1a"}
	for n := 0; n <= 8; n++ {
		for rep := 0; rep < c.N(6, 60); rep++ {
			var l []Val
			for i := 0; i < n; i++ {
				if r.Intn(3) == 0 {
					l = append(l, S(r.StringOver("ABCabc .012\x01\xff", r.Intn(12))))
				} else {
					l = append(l, S(names[r.Intn(len(names))]))
				}
			}
			c.Check("c05.dialects", L(l...))
			out := c.Case("dialects.marshal", L(l...))
			if out.K == 'x' {
				c.Case("dialects.unmarshal", B(out.B))
				if rep == 0 {
					for _, m := range Malformed(out.B, 16) {
						c.Case("dialects.unmarshal", B(m))
					}
				}
			}
		}
	}
	for i := 0; i < c.N(100, 2000); i++ {
		c.Case("dialects.unmarshal", B(r.Bytes(r.Intn(12))))
		b := []byte(r.StringOver("\x02\x00AB", r.Intn(10)))
		c.Case("dialects.unmarshal", B(b))
	}
	for i := 0; i < c.N(50, 500); i++ {
		c.Check("c05.andx", U(r.U64Edge()&0xff), U(r.U64Edge()&0xff), U(0x0102+uint64(i)))
		c.Check("c05.file_attributes", U(0x0102+uint64(i)))
	}
}
