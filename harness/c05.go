//go:build c05 || allprops

package main

import (
	"bytes"
	"encoding/binary"
	"fmt"
	"reflect"

	"github.com/TheManticoreProject/Manticore/network/smb/smb_v10/dialects"
	"github.com/TheManticoreProject/Manticore/network/smb/smb_v10/message/commands/andx"
	"github.com/TheManticoreProject/Manticore/network/smb/smb_v10/message/commands/codes"
	"github.com/TheManticoreProject/Manticore/network/smb/smb_v10/types"
)

func leBytes(v uint64, w int) []byte {
	b := make([]byte, 8)
	binary.LittleEndian.PutUint64(b, v)
	return b[:w]
}

func init() {
	Impl("dialects.marshal", func(a []Val) Val {
		d := dialects.NewDialects()
		for _, x := range a[0].L {
			d.AddDialect(x.Str())
		}
		b, err := d.Marshal()
		if err != nil {
			return VErr()
		}
		return B(b)
	})
	Impl("dialects.unmarshal", func(a []Val) Val {
		d := dialects.NewDialects()
		n, err := d.Unmarshal(exact(a[0].B))
		if err != nil {
			return VErr()
		}
		var l []Val
		for _, s := range d.Dialects {
			l = append(l, S(s))
		}
		return L(L(l...), I(int64(n)))
	})

	// byte order and width of one integer field, seen through the wire: args (structure, field index).
	// The field is given a value whose bytes are pairwise distinct; the bytes that change relative to
	// the zero value must be the little-endian image of the value, exactly as wide as the declared type.
	Oracle("c05.field", func(a []Val) (string, string) {
		name := a[0].Str()
		i := int(a[1].Int())
		x := smbNew(name)
		fv := cmdFieldValues(x)[i]
		fname := cmdFieldNames(x)[i]
		w := int(fv.Type().Size())
		if fv.Kind() == reflect.Struct { // LARGE_INTEGER
			w = 8
		}
		val := map[int]uint64{1: 0xA1, 2: 0xA1B2, 4: 0xA1B2C3D4, 8: 0xA1B2C3D4E5F60718}[w]
		base := genFieldsMode(NewRng(7), name, 2)
		b0, err0 := func() ([]byte, error) { c := smbNew(name); cmdSet(c, base); return c.Marshal() }()
		f1 := L(base.L...)
		f1.L[i] = U(val)
		b1, err1 := func() ([]byte, error) { c := smbNew(name); cmdSet(c, f1); return c.Marshal() }()
		if err0 != nil || err1 != nil || len(b0) != len(b1) {
			return "", "" // the field governs a length: not a plain integer slot
		}
		lo, hi := -1, -1
		for k := range b0 {
			if b0[k] != b1[k] {
				if lo < 0 {
					lo = k
				}
				hi = k
			}
		}
		if lo < 0 {
			return "C05/" + name + "/" + fname + "/not-emitted", fmt.Sprintf("%s.%s = %#x changes no byte", name, fname, val)
		}
		got := b1[lo : hi+1]
		le := leBytes(val, w)
		if bytes.Equal(got, le) {
			return "", ""
		}
		be := make([]byte, w)
		for k := range le {
			be[w-1-k] = le[k]
		}
		if bytes.Equal(got, be) {
			return "C05/" + name + "/" + fname + "/big-endian", fmt.Sprintf("%s.%s = %#x is emitted as %x at offset %d; MS-CIFS says %x", name, fname, val, got, lo, le)
		}
		return "C05/" + name + "/" + fname + "/width", fmt.Sprintf("%s.%s = %#x (declared %d bytes) changes bytes %d..%d: %x", name, fname, val, w, lo, hi, got)
	})
	// dialects: args (list of names)
	Oracle("c05.dialects", func(a []Val) (string, string) {
		d := dialects.NewDialects()
		var want []byte
		for _, x := range a[0].L {
			d.AddDialect(x.Str())
			want = append(want, 0x02)
			want = append(want, x.B...)
			want = append(want, 0x00)
		}
		got, err := d.Marshal()
		if err != nil || !bytes.Equal(got, want) {
			return "C05/dialects/encoding", fmt.Sprintf("dialects %s: got %x, MS-CIFS 2.2.4.52.1 says %x", a[0].String(), got, want)
		}
		d2 := dialects.NewDialects()
		n, err := d2.Unmarshal(exact(want))
		if err != nil || n != len(want) || len(d2.Dialects) != len(a[0].L) {
			return "C05/dialects/decoding", fmt.Sprintf("dialects %x: n=%d err=%v got %q", want, n, err, d2.Dialects)
		}
		for i, x := range a[0].L {
			if d2.Dialects[i] != x.Str() {
				return "C05/dialects/decoding", fmt.Sprintf("dialect %d: %q vs %q", i, d2.Dialects[i], x.Str())
			}
		}
		return "", ""
	})
	// AndX block: command, reserved, offset (little-endian): args (cmd, reserved, offset)
	Oracle("c05.andx", func(a []Val) (string, string) {
		x := andx.NewAndX()
		x.AndXCommand = codes.CommandCode(a[0].Uint())
		x.AndXReserved = types.UCHAR(a[1].Uint())
		x.AndXOffset = types.USHORT(a[2].Uint())
		b, err := x.Marshal()
		want := []byte{byte(a[0].Uint()), byte(a[1].Uint()), byte(a[2].Uint()), byte(a[2].Uint() >> 8)}
		if err != nil || !bytes.Equal(b, want) {
			if len(b) == 4 && b[0] == want[0] && b[1] == want[1] && b[2] == want[3] && b[3] == want[2] {
				return "C05/AndX/AndXOffset/big-endian", fmt.Sprintf("AndX offset %#x emitted as %x, MS-CIFS says %x", a[2].Uint(), b, want)
			}
			return "C05/AndX/layout", fmt.Sprintf("AndX %s: got %x want %x", L(a...).String(), b, want)
		}
		return "", ""
	})
	Oracle("c05.file_attributes", func(a []Val) (string, string) {
		fa := types.SMB_FILE_ATTRIBUTES{Attributes: uint16(a[0].Uint())}
		b, err := fa.Marshal()
		want := []byte{byte(a[0].Uint()), byte(a[0].Uint() >> 8)}
		if err != nil || !bytes.Equal(b, want) {
			if len(b) == 2 && b[0] == want[1] && b[1] == want[0] {
				return "C05/SMB_FILE_ATTRIBUTES/big-endian", fmt.Sprintf("attributes %#x emitted as %x, MS-CIFS says %x", a[0].Uint(), b, want)
			}
			return "C05/SMB_FILE_ATTRIBUTES/layout", fmt.Sprintf("got %x want %x", b, want)
		}
		return "", ""
	})
	Gen("C05", genC05)
}

func genC05(c *Ctx) {
	smbLoad()
	smbFactories()
	r := c.Rng
	nfields := 0
	for _, name := range smbNames {
		x := smbNew(name)
		for i, fv := range cmdFieldValues(x) {
			switch fv.Kind() {
			case reflect.Uint8, reflect.Uint16, reflect.Uint32, reflect.Uint64, reflect.Int16, reflect.Int32:
				c.Check("c05.field", S(name), I(int64(i)))
				nfields++
			case reflect.Struct:
				if fv.Type().Name() == "LARGE_INTEGER" {
					c.Check("c05.field", S(name), I(int64(i)))
					nfields++
				}
			}
		}
		d := smbDescs[name]
		if d != nil && d.Translated {
			for i := 0; i < c.N(3, 30); i++ {
				c.Case("smb.marshal", S(name), genFieldsMode(r, name, 1), I(1))
			}
		}
	}
	c.Note("integer_fields_checked", nfields)
	names := []string{"NT LM 0.12", "LANMAN1.0", "PC NETWORK PROGRAM 1.0", "", "a", "LM1.2X002", "Windows for Workgroups 3.1a"}
	for n := 0; n <= 8; n++ {
		for rep := 0; rep < c.N(6, 60); rep++ {
			var l []Val
			for i := 0; i < n; i++ {
				if r.Intn(3) == 0 {
					l = append(l, S(r.StringOver("ABCabc .012\x01\xff", r.Intn(12))))
				} else {
					l = append(l, S(names[r.Intn(len(names))]))
				}
			}
			c.Check("c05.dialects", L(l...))
			out := c.Case("dialects.marshal", L(l...))
			if out.K == 'x' {
				c.Case("dialects.unmarshal", B(out.B))
				if rep == 0 {
					for _, m := range Malformed(out.B, 16) {
						c.Case("dialects.unmarshal", B(m))
					}
				}
			}
		}
	}
	for i := 0; i < c.N(100, 2000); i++ {
		c.Case("dialects.unmarshal", B(r.Bytes(r.Intn(12))))
		b := []byte(r.StringOver("\x02\x00AB", r.Intn(10)))
		c.Case("dialects.unmarshal", B(b))
	}
	for i := 0; i < c.N(50, 500); i++ {
		c.Check("c05.andx", U(r.U64Edge()&0xff), U(r.U64Edge()&0xff), U(0x0102+uint64(i)))
		c.Check("c05.file_attributes", U(0x0102+uint64(i)))
	}
}
