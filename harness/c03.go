//go:build c03 || c05 || allprops

package main

import (
	"bytes"
	"encoding/binary"
	"fmt"
	"reflect"
	"sort"
	"strings"

	"github.com/TheManticoreProject/Manticore/network/smb/smb_v10/message"
	"github.com/TheManticoreProject/Manticore/network/smb/smb_v10/message/commands"
	"github.com/TheManticoreProject/Manticore/network/smb/smb_v10/message/commands/codes"
	"github.com/TheManticoreProject/Manticore/network/smb/smb_v10/message/commands/command_interface"
	"github.com/TheManticoreProject/Manticore/network/smb/smb_v10/message/header"
	"github.com/TheManticoreProject/Manticore/network/smb/smb_v10/message/header/flags"
	"github.com/TheManticoreProject/Manticore/network/smb/smb_v10/message/header/flags2"
	"github.com/TheManticoreProject/Manticore/network/smb/smb_v10/message/securityfeatures"
)

// header fields in declaration order:
// Protocol(4 bytes) Command Status Flags Flags2 PIDHigh SecurityFeatures(8 bytes) Reserved TID PIDLow UID MID
func hdrSet(h *header.Header, f Val) {
	copy(h.Protocol[:], f.L[0].B)
	h.Command = codes.CommandCode(f.L[1].Uint())
	h.Status = uint32(f.L[2].Uint())
	h.Flags = flags.Flags(f.L[3].Uint())
	h.Flags2 = flags2.Flags2(f.L[4].Uint())
	h.PIDHigh = uint16(f.L[5].Uint())
	sf := securityfeatures.NewSecurityFeaturesReserved()
	copy(sf.Reserved[:], f.L[6].B)
	h.SecurityFeatures = sf
	h.Reserved = uint16(f.L[7].Uint())
	h.TID = uint16(f.L[8].Uint())
	h.PIDLow = uint16(f.L[9].Uint())
	h.UID = uint16(f.L[10].Uint())
	h.MID = uint16(f.L[11].Uint())
}

func hdrGet(h *header.Header) Val {
	sfb, _ := h.SecurityFeatures.Marshal()
	return L(B(h.Protocol[:]), U(uint64(h.Command)), U(uint64(h.Status)), U(uint64(h.Flags)), U(uint64(h.Flags2)), U(uint64(h.PIDHigh)),
		B(sfb), U(uint64(h.Reserved)), U(uint64(h.TID)), U(uint64(h.PIDLow)), U(uint64(h.UID)), U(uint64(h.MID)))
}

func hdrGen(r *Rng, distinct bool) Val {
	if distinct {
		return L(B([]byte{0xff, 'S', 'M', 'B'}), U(0x72), U(0x01020304), U(0x98), U(0x0506), U(0x0708), B([]byte{0x11, 0x12, 0x13, 0x14, 0x15, 0x16, 0x17, 0x18}),
			U(0x090a), U(0x0b0c), U(0x0d0e), U(0x0f10), U(0x2122))
	}
	return L(B(r.Bytes(4)), U(r.U64Edge()&0xff), U(r.U64Edge()&0xffffffff), U(r.U64Edge()&0xff), U(r.U64Edge()&0xffff), U(r.U64Edge()&0xffff), B(r.Bytes(8)),
		U(r.U64Edge()&0xffff), U(r.U64Edge()&0xffff), U(r.U64Edge()&0xffff), U(r.U64Edge()&0xffff), U(r.U64Edge()&0xffff))
}

// independent MS-CIFS 2.2.3.1 encoder
func cifsHeader(f Val) []byte {
	b := append([]byte{}, f.L[0].B...)
	b = append(b, byte(f.L[1].Uint()))
	b = binary.LittleEndian.AppendUint32(b, uint32(f.L[2].Uint()))
	b = append(b, byte(f.L[3].Uint()))
	b = binary.LittleEndian.AppendUint16(b, uint16(f.L[4].Uint()))
	b = binary.LittleEndian.AppendUint16(b, uint16(f.L[5].Uint()))
	b = append(b, f.L[6].B...)
	for i := 7; i <= 11; i++ {
		b = binary.LittleEndian.AppendUint16(b, uint16(f.L[i].Uint()))
	}
	return b
}

// msgModelled: the factory routes this message to a structure whose description the translator produced
// (the model has nothing to say about the others)
func msgModelled(m []byte) bool {
	if len(m) < 32 {
		return true
	}
	var c command_interface.CommandInterface
	var err error
	if m[9]&0x80 != 0 {
		c, err = commands.CreateResponseCommand(codes.CommandCode(m[4]))
	} else {
		c, err = commands.CreateRequestCommand(codes.CommandCode(m[4]))
	}
	if err != nil || c == nil {
		return true
	}
	d := smbDescs[reflect.TypeOf(c).Elem().Name()]
	return d != nil && d.Translated
}

func msgMarshalN(hf Val, name string, cf Val, n int) Val {
	m := message.NewMessage()
	c := smbNew(name)
	if c == nil {
		return VErr()
	}
	cmdSet(c, cf)
	m.AddCommand(c)
	cmdCode := m.Header.Command
	hdrSet(m.Header, hf)
	m.Header.Command = cmdCode
	var outs []Val
	for i := 0; i < n; i++ {
		b, err := m.Marshal()
		if err != nil {
			outs = append(outs, VErr())
			break
		}
		outs = append(outs, B(b))
	}
	return L(outs...)
}

func init() {
	Impl("hdr.marshal", func(a []Val) Val {
		h := header.NewHeader()
		hdrSet(h, a[0])
		b, err := h.Marshal()
		if err != nil {
			return VErr()
		}
		return B(b)
	})
	Impl("hdr.unmarshal", func(a []Val) Val {
		h := header.NewHeader()
		n, err := h.Unmarshal(exact(a[0].B))
		if err != nil {
			return VErr()
		}
		return L(hdrGet(h), I(int64(n)))
	})
	Impl("hdr.is_response", func(a []Val) Val {
		h := header.NewHeader()
		h.Flags = flags.Flags(a[0].Uint())
		return Bool(h.IsResponse())
	})
	// the structure constructed for (code, reply)
	Impl("smb.dispatch", func(a []Val) Val {
		var c command_interface.CommandInterface
		var err error
		if a[1].Uint() != 0 {
			c, err = commands.CreateResponseCommand(codes.CommandCode(a[0].Uint()))
		} else {
			c, err = commands.CreateRequestCommand(codes.CommandCode(a[0].Uint()))
		}
		if err != nil || c == nil {
			return VErr()
		}
		return L(S(reflect.TypeOf(c).Elem().Name()), U(uint64(c.GetCommandCode())))
	})
	Impl("msg.marshal", func(a []Val) Val { return msgMarshalN(a[0], a[1].Str(), a[2], int(a[3].Int())) })
	Impl("msg.unmarshal", func(a []Val) Val {
		m := message.NewMessage()
		if err := m.Unmarshal(exact(a[0].B)); err != nil {
			return VErr()
		}
		return L(hdrGet(m.Header), S(reflect.TypeOf(m.Command).Elem().Name()), cmdGet(m.Command))
	})

	// one Message value decodes a sequence of inputs: every result is what a fresh Message gives
	Impl("msg.unmarshal_seq", func(a []Val) Val {
		m := message.NewMessage()
		var outs []Val
		for _, in := range a[0].L {
			if err := m.Unmarshal(exact(in.B)); err != nil {
				outs = append(outs, VErr())
				continue
			}
			outs = append(outs, L(hdrGet(m.Header), S(reflect.TypeOf(m.Command).Elem().Name()), cmdGet(m.Command)))
		}
		return L(outs...)
	})
	// decode, assign every field of the decoded command, encode twice
	Impl("msg.reencode_with", func(a []Val) Val {
		m := message.NewMessage()
		if err := m.Unmarshal(exact(a[0].B)); err != nil {
			return VErr()
		}
		cmdSet(m.Command, a[1])
		var outs []Val
		for i := 0; i < 2; i++ {
			b, err := m.Marshal()
			if err != nil {
				outs = append(outs, VErr())
				break
			}
			outs = append(outs, B(b))
		}
		return L(outs...)
	})

	Oracle("c03.header", func(a []Val) (string, string) {
		h := header.NewHeader()
		hdrSet(h, a[0])
		b, err := h.Marshal()
		if err != nil {
			return "C03/header/marshal-fails", err.Error()
		}
		if want := cifsHeader(a[0]); !bytes.Equal(b, want) {
			return "C03/header/layout", fmt.Sprintf("header %s: got %x, MS-CIFS 2.2.3.1 says %x", a[0].String(), b, want)
		}
		h2 := header.NewHeader()
		n, err := h2.Unmarshal(exact(append(append([]byte{}, b...), a[1].B...)))
		if err != nil || n != 32 {
			return "C03/header/decode", fmt.Sprintf("header %x does not decode: n=%d err=%v", b, n, err)
		}
		if got := hdrGet(h2); !valsEqual(got, a[0]) {
			return "C03/header/roundtrip", fmt.Sprintf("header fields %s came back as %s", a[0].String(), got.String())
		}
		return "", ""
	})
	// all 256 codes x reply flag: args (code, reply)
	Oracle("c03.dispatch", func(a []Val) (string, string) {
		code, reply := codes.CommandCode(a[0].Uint()), a[1].Uint() != 0
		var c command_interface.CommandInterface
		var err error
		if reply {
			c, err = commands.CreateResponseCommand(code)
		} else {
			c, err = commands.CreateRequestCommand(code)
		}
		if err != nil || c == nil {
			return "", ""
		}
		name := reflect.TypeOf(c).Elem().Name()
		if c.GetCommandCode() != code {
			return fmt.Sprintf("C03/dispatch/%#02x", uint8(code)), fmt.Sprintf("code %#02x reply=%v constructs %s whose declared command code is %#02x", uint8(code), reply, name, uint8(c.GetCommandCode()))
		}
		isResp := strings.HasSuffix(name, "Response") || name == "WriteRawInterim" || name == "WriteRawFinal"
		if isResp != reply {
			return fmt.Sprintf("C03/dispatch/%#02x", uint8(code)), fmt.Sprintf("code %#02x reply=%v constructs %s", uint8(code), reply, name)
		}
		return "", ""
	})
	// message level: decode returns the same header and a structure of the designated type; framing; repeatability
	Oracle("c03.message", func(a []Val) (string, string) {
		name := a[1].Str()
		stage := "marshal"
		defer func() {
			if rec := recover(); rec != nil {
				panic(fmt.Sprintf("C03-PANIC/%s/%s: %v", stage, name, rec))
			}
		}()
		outs := msgMarshalN(a[0], name, a[2], 3)
		if len(outs.L) == 0 || outs.L[0].K != 'x' {
			return "", ""
		}
		b := outs.L[0].B
		for i, o := range outs.L {
			if o.K != 'x' || !bytes.Equal(o.B, b) {
				return "C03/repeat", fmt.Sprintf("%s: Marshal call %d of the same message differs: %x vs first %x", name, i+1, o.B, b)
			}
		}
		// framing
		if len(b) < 35 {
			return "C03/framing/" + name, fmt.Sprintf("%s: message of %d bytes", name, len(b))
		}
		w := int(b[32])
		if len(b) < 33+2*w+2 {
			return "C03/framing/" + name, fmt.Sprintf("%s: WordCount %d but only %d bytes", name, w, len(b))
		}
		bc := int(binary.LittleEndian.Uint16(b[33+2*w:]))
		if len(b) != 32+1+2*w+2+bc {
			return "C03/framing/" + name, fmt.Sprintf("%s: length %d, WordCount %d, ByteCount %d", name, len(b), w, bc)
		}
		stage = "unmarshal"
		m := message.NewMessage()
		if err := m.Unmarshal(exact(b)); err != nil {
			// a structure that cannot decode its own encoding is C04's concern, not the envelope's
			cc := smbNew(name)
			if _, cerr := cc.Unmarshal(exact(b[32:])); cerr != nil {
				return "", ""
			}
			return "C03/message-decode/" + name, fmt.Sprintf("%s: %v (bytes %x)", name, err, b)
		}
		got := reflect.TypeOf(m.Command).Elem().Name()
		ct := smbFactories()[name]
		reply := byte(a[0].L[3].Uint())&0x80 != 0
		// the structure designated by the header's command code and reply flag
		var want command_interface.CommandInterface
		if reply {
			want, _ = commands.CreateResponseCommand(ct.Code)
		} else {
			want, _ = commands.CreateRequestCommand(ct.Code)
		}
		if want != nil && reflect.TypeOf(want).Elem().Name() != got {
			return "C03/message-type/" + name, fmt.Sprintf("decoded as %s, header designates %s", got, reflect.TypeOf(want).Elem().Name())
		}
		hb, _ := m.Header.Marshal()
		if !bytes.Equal(hb, b[:32]) {
			return "C03/message-header/" + name, fmt.Sprintf("header bytes %x decoded and re-encoded as %x", b[:32], hb)
		}
		return "", ""
	})
	Gen("C03", genC03)
}

func genC03(c *Ctx) {
	smbLoad()
	smbFactories()
	r := c.Rng
	for i := 0; i < c.N(400, 6000); i++ {
		hf := hdrGen(r, i == 0)
		suffix := r.Bytes(r.Pick(0, 0, 1, 5))
		c.Check("c03.header", hf, B(suffix))
		out := c.Case("hdr.marshal", hf)
		if out.K == 'x' {
			c.Case("hdr.unmarshal", B(append(append([]byte{}, out.B...), suffix...)))
			if i < 4 {
				for _, m := range Malformed(out.B, 32) {
					c.Case("hdr.unmarshal", B(m))
				}
			}
		}
	}
	for w := uint64(0); w < 256; w++ {
		c.Case("hdr.is_response", U(w))
	}
	for code := uint64(0); code < 256; code++ {
		for reply := uint64(0); reply < 2; reply++ {
			c.Check("c03.dispatch", U(code), U(reply))
			c.Case("smb.dispatch", U(code), U(reply))
		}
	}
	encs := map[string][]byte{}
	for _, name := range smbNames {
		d := smbDescs[name]
		ct := smbFactories()[name]
		for i := 0; i < c.N(6, 60); i++ {
			mode := 0
			if i == 0 {
				mode = 2
			}
			fields := genFieldsMode(r, name, mode)
			hf := hdrGen(r, false)
			// the reply flag must designate this structure's kind
			fl := hf.L[3].Uint() &^ 0x80
			if !ct.Request {
				fl |= 0x80
			}
			hf.L[3] = U(fl)
			hf.L[1] = U(uint64(ct.Code))
			c.Check("c03.message", hf, S(name), fields)
			if d != nil && d.Translated {
				out := c.Case("msg.marshal", hf, S(name), fields, I(int64(1+r.Intn(3))))
				if len(out.L) > 0 && out.L[0].K == 'x' && i < 3 {
					enc := out.L[0].B
					c.Case("msg.unmarshal", B(enc))
					// a received message edited and sent on: decode, assign new field values, encode twice
					c.Case("msg.reencode_with", B(enc), genFieldsMode(r, name, 0))
					if i == 0 {
						encs[name] = enc
					}
				}
			}
		}
	}
	// one Message value reused for a sequence of decodes: the request and the response of one command in both
	// orders, with complete, truncated (header intact, body cut) and foreign messages in between
	var names []string
	for n := range encs {
		names = append(names, n)
	}
	sort.Strings(names)
	pick := func() []byte { return encs[names[r.Intn(len(names))]] }
	cut := func(b []byte) []byte {
		if len(b) <= 33 {
			return b[:32]
		}
		return b[:32+r.Intn(len(b)-32)]
	}
	for _, n := range names {
		if !strings.HasSuffix(n, "Request") {
			continue
		}
		req, ok1 := encs[n]
		resp, ok2 := encs[strings.TrimSuffix(n, "Request")+"Response"]
		if !ok1 || !ok2 {
			continue
		}
		for _, seq := range [][][]byte{
			{req, cut(resp), resp}, {resp, cut(req), req}, {req, resp[:32], resp}, {req, resp, req},
			{req, cut(req), resp}, {pick(), req, cut(resp), pick(), resp},
		} {
			var vs []Val
			for _, b := range seq {
				vs = append(vs, B(b))
			}
			c.Case("msg.unmarshal_seq", L(vs...))
		}
	}
	for i := 0; i < c.N(150, 3000) && len(names) > 0; i++ {
		var vs []Val
		for k := 2 + r.Intn(4); k > 0; k-- {
			b := pick()
			switch r.Intn(4) {
			case 0:
				b = cut(b)
			case 1:
				f := append([]byte{}, b...)
				f[9] ^= 0x80 // the other direction of the same command code
				if msgModelled(f) {
					b = f
				}
			}
			vs = append(vs, B(b))
		}
		c.Case("msg.unmarshal_seq", L(vs...))
	}
}
