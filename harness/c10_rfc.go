//go:build c10 || allprops

package main

// An independent reader of NetBIOS name service packets, written from RFC 1002 section 4.2
// (packet layout, identical to RFC 883/1035 messages) and RFC 1001 section 14.1 (first-level
// encoding).  It shares no code with network/netbios/nbtns.  It accepts everything a
// standard sender may emit, including compressed name pointers (RFC 1002 4.2.1.2, label
// prefix 11), so it is also used to judge hand-built standard packets.

import (
	"errors"
	"fmt"
)

type rfcName struct {
	Raw   [16]byte // the 16-byte NetBIOS name, padding included
	Scope []string // scope labels, in order
}

type rfcQuestion struct {
	Name        rfcName
	Type, Class uint16
}

type rfcRR struct {
	Name        rfcName
	Type, Class uint16
	TTL         uint32
	RData       []byte
}

type rfcPacket struct {
	ID, Flags      uint16
	QD, AN, NS, AR uint16
	Questions      []rfcQuestion
	Sections       [3][]rfcRR
	End            int // offset of the first byte after the last record
}

var errRfcShort = errors.New("message ends inside a field")

// rfcLabels reads a domain name at off: labels up to the root label, following pointers.
// It returns the labels and the offset just after the name as it appears at off.
func rfcLabels(msg []byte, off int) ([]string, int, error) {
	var labels []string
	next := -1
	hops := 0
	total := 0
	for {
		if off >= len(msg) {
			return nil, 0, errRfcShort
		}
		c := int(msg[off])
		off++
		switch c >> 6 {
		case 0:
			if c == 0 {
				if next < 0 {
					next = off
				}
				if total+1 > 255 {
					return nil, 0, errors.New("name longer than 255 octets")
				}
				return labels, next, nil
			}
			if off+c > len(msg) {
				return nil, 0, errRfcShort
			}
			labels = append(labels, string(msg[off:off+c]))
			total += 1 + c
			off += c
		case 3:
			if off >= len(msg) {
				return nil, 0, errRfcShort
			}
			ptr := (c&0x3f)<<8 | int(msg[off])
			off++
			if next < 0 {
				next = off
			}
			hops++
			if hops > 64 {
				return nil, 0, errors.New("pointer loop")
			}
			off = ptr
		default:
			return nil, 0, fmt.Errorf("reserved label type %#x", c)
		}
	}
}

// rfcHalfASCII undoes RFC 1001 14.1: 32 characters 'A'..'P', two per byte, high nibble first.
func rfcHalfASCII(label string) ([16]byte, error) {
	var raw [16]byte
	if len(label) != 32 {
		return raw, fmt.Errorf("first label has %d characters, not 32", len(label))
	}
	for i := 0; i < 32; i++ {
		if label[i] < 'A' || label[i] > 'P' {
			return raw, fmt.Errorf("character %#x outside A..P", label[i])
		}
	}
	for i := 0; i < 16; i++ {
		raw[i] = (label[2*i]-'A')*16 + (label[2*i+1] - 'A')
	}
	return raw, nil
}

func rfcReadName(msg []byte, off int) (rfcName, int, error) {
	labels, next, err := rfcLabels(msg, off)
	if err != nil {
		return rfcName{}, 0, err
	}
	if len(labels) == 0 {
		return rfcName{}, 0, errors.New("root name where a NetBIOS name is required")
	}
	raw, err := rfcHalfASCII(labels[0])
	if err != nil {
		return rfcName{}, 0, err
	}
	return rfcName{Raw: raw, Scope: labels[1:]}, next, nil
}

func rfcU16(msg []byte, off int) (uint16, error) {
	if off+2 > len(msg) {
		return 0, errRfcShort
	}
	return uint16(msg[off])<<8 | uint16(msg[off+1]), nil
}

func rfc1002Parse(msg []byte) (*rfcPacket, error) {
	if len(msg) < 12 {
		return nil, errRfcShort
	}
	w := func(i int) uint16 { return uint16(msg[2*i])<<8 | uint16(msg[2*i+1]) }
	p := &rfcPacket{ID: w(0), Flags: w(1), QD: w(2), AN: w(3), NS: w(4), AR: w(5)}
	off := 12
	for i := 0; i < int(p.QD); i++ {
		n, next, err := rfcReadName(msg, off)
		if err != nil {
			return nil, fmt.Errorf("question %d name: %w", i, err)
		}
		off = next
		t, err := rfcU16(msg, off)
		if err != nil {
			return nil, err
		}
		c, err := rfcU16(msg, off+2)
		if err != nil {
			return nil, err
		}
		off += 4
		p.Questions = append(p.Questions, rfcQuestion{n, t, c})
	}
	for s, cnt := range []uint16{p.AN, p.NS, p.AR} {
		for i := 0; i < int(cnt); i++ {
			n, next, err := rfcReadName(msg, off)
			if err != nil {
				return nil, fmt.Errorf("section %d record %d name: %w", s+1, i, err)
			}
			off = next
			if off+10 > len(msg) {
				return nil, errRfcShort
			}
			t, _ := rfcU16(msg, off)
			c, _ := rfcU16(msg, off+2)
			hi, _ := rfcU16(msg, off+4)
			lo, _ := rfcU16(msg, off+6)
			rdl, _ := rfcU16(msg, off+8)
			off += 10
			if off+int(rdl) > len(msg) {
				return nil, errRfcShort
			}
			rd := append([]byte{}, msg[off:off+int(rdl)]...)
			off += int(rdl)
			p.Sections[s] = append(p.Sections[s], rfcRR{n, t, c, uint32(hi)<<16 | uint32(lo), rd})
		}
	}
	p.End = off
	return p, nil
}

// rfcFirstLevel is RFC 1001 14.1 written with division and a table (the library shifts and masks).
func rfcFirstLevel(name []byte, scope string) string {
	const tab = "ABCDEFGHIJKLMNOP"
	var raw [16]byte
	for i := range raw {
		raw[i] = ' '
	}
	copy(raw[:], name)
	out := make([]byte, 0, 34+len(scope))
	for _, b := range raw {
		out = append(out, tab[b/16], tab[b%16])
	}
	if scope != "" {
		out = append(out, '.')
		out = append(out, scope...)
	}
	return string(out)
}

// rfcScopeOK: a scope identifier is a domain name (RFC 1001 section 11.1.1 / 14): labels of
// 1..63 letters, digits and hyphens, hyphen neither first nor last, separated by single dots.
func rfcScopeOK(scope string) bool {
	if scope == "" {
		return false
	}
	start := 0
	for i := 0; i <= len(scope); i++ {
		if i == len(scope) || scope[i] == '.' {
			n := i - start
			if n < 1 || n > 63 || scope[start] == '-' || scope[i-1] == '-' {
				return false
			}
			start = i + 1
			continue
		}
		ch := scope[i]
		if !(ch >= 'a' && ch <= 'z' || ch >= 'A' && ch <= 'Z' || ch >= '0' && ch <= '9' || ch == '-') {
			return false
		}
	}
	return true
}
