module verif/harness

go 1.24.0

require (
	github.com/Azure/go-ntlmssp v0.0.0-20221128193559-754e69321358
	github.com/TheManticoreProject/Manticore v0.0.0
	github.com/google/uuid v1.6.0
	golang.org/x/crypto v0.37.0
	golang.org/x/net v0.39.0
)

require (
	github.com/go-asn1-ber/asn1-ber v1.5.8-0.20250403174932-29230038a667 // indirect
	github.com/go-ldap/ldap/v3 v3.4.11 // indirect
	github.com/hashicorp/go-uuid v1.0.3 // indirect
	github.com/jcmturner/aescts/v2 v2.0.0 // indirect
	github.com/jcmturner/dnsutils/v2 v2.0.0 // indirect
	github.com/jcmturner/gofork v1.7.6 // indirect
	github.com/jcmturner/goidentity/v6 v6.0.1 // indirect
	github.com/jcmturner/gokrb5/v8 v8.4.4 // indirect
	github.com/jcmturner/rpc/v2 v2.0.3 // indirect
)

replace github.com/TheManticoreProject/Manticore => /repo
