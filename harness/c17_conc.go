//go:build c17 || allprops

package main

// C17, schedules.  (a) The lock discipline that the atomicity theorem C17_atomic takes as its
// hypothesis is read from the source with go/ast at run time.  (b) Runtime support, not proof:
// concurrent histories from 4-8 goroutines are checked for linearizability against the reference
// of c17.go by brute force, and a stress run checks results and invariants under contention.

import (
	"fmt"
	"go/ast"
	"go/parser"
	"go/token"
	"os"
	"path/filepath"
	"runtime"
	"sort"
	"strings"
	"sync"
	"sync/atomic"

	"github.com/TheManticoreProject/Manticore/network/netbios/nbtns"
)

func ntSourceDir() string {
	root := os.Getenv("VERIF_REPO")
	if root == "" {
		root = "/repo"
	}
	return filepath.Join(root, "network", "netbios", "nbtns")
}

const ntServerType = "NetBIOSNameServer"

var ntMethods = []string{"RegisterName", "QueryName", "ReleaseName", "RefreshName", "MarkNameConflict", "CleanExpiredNames"}

func ntRecv(fd *ast.FuncDecl) (typeName, recvName string, pointer bool) {
	if fd.Recv == nil || len(fd.Recv.List) != 1 {
		return "", "", false
	}
	f := fd.Recv.List[0]
	t := f.Type
	if s, ok := t.(*ast.StarExpr); ok {
		pointer = true
		t = s.X
	}
	if id, ok := t.(*ast.Ident); ok {
		typeName = id.Name
	}
	if len(f.Names) == 1 {
		recvName = f.Names[0].Name
	}
	return
}

// is e the call  recv.mu.<method>()  ?  returns the method name
func ntMuCall(e ast.Expr, recv string) string {
	c, ok := e.(*ast.CallExpr)
	if !ok || len(c.Args) != 0 {
		return ""
	}
	s, ok := c.Fun.(*ast.SelectorExpr)
	if !ok {
		return ""
	}
	m, ok := s.X.(*ast.SelectorExpr)
	if !ok || m.Sel.Name != "mu" {
		return ""
	}
	if id, ok := m.X.(*ast.Ident); !ok || id.Name != recv {
		return ""
	}
	return s.Sel.Name
}

func ntTouchesNames(n ast.Node) bool {
	found := false
	ast.Inspect(n, func(x ast.Node) bool {
		if s, ok := x.(*ast.SelectorExpr); ok && s.Sel.Name == "names" {
			found = true
		}
		return !found
	})
	return found
}

// ntLockDiscipline checks, on the current source: every method of NetBIOSNameServer that touches
// the table starts with recv.mu.Lock() / recv.mu.RLock(), defers the matching unlock as its
// second statement, never mentions the mutex again, starts no goroutine and defines no closure;
// a method holding only the read lock writes nothing but its own local variables; no code
// outside these methods (except the constructor) touches the table; the six methods exist.
func ntLockDiscipline() (bad []string, readers []string) {
	dir := ntSourceDir()
	fset := token.NewFileSet()
	entries, err := os.ReadDir(dir)
	if err != nil {
		return []string{"cannot read " + dir + ": " + err.Error()}, nil
	}
	seen := map[string]bool{}
	for _, e := range entries {
		if !strings.HasSuffix(e.Name(), ".go") || strings.HasSuffix(e.Name(), "_test.go") {
			continue
		}
		f, err := parser.ParseFile(fset, filepath.Join(dir, e.Name()), nil, 0)
		if err != nil {
			bad = append(bad, "cannot parse "+e.Name()+": "+err.Error())
			continue
		}
		for _, d := range f.Decls {
			switch d := d.(type) {
			case *ast.GenDecl:
				for _, sp := range d.Specs {
					ts, ok := sp.(*ast.TypeSpec)
					if !ok || ts.Name.Name != ntServerType {
						continue
					}
					st, ok := ts.Type.(*ast.StructType)
					if !ok {
						bad = append(bad, ntServerType+" is not a struct")
						continue
					}
					haveMu := false
					for _, fl := range st.Fields.List {
						for _, nm := range fl.Names {
							if nm.Name == "mu" {
								if se, ok := fl.Type.(*ast.SelectorExpr); ok && (se.Sel.Name == "RWMutex" || se.Sel.Name == "Mutex") {
									if x, ok := se.X.(*ast.Ident); ok && x.Name == "sync" {
										haveMu = true
									}
								}
							}
						}
					}
					if !haveMu {
						bad = append(bad, ntServerType+".mu is not a sync.RWMutex / sync.Mutex value")
					}
				}
			case *ast.FuncDecl:
				if d.Body == nil {
					continue
				}
				tn, recv, ptr := ntRecv(d)
				where := e.Name() + ":" + d.Name.Name
				if tn != ntServerType {
					if d.Name.Name != "New"+ntServerType && ntTouchesNames(d.Body) {
						bad = append(bad, where+" touches the table outside the locked methods")
					}
					continue
				}
				if !ntTouchesNames(d.Body) {
					continue
				}
				seen[d.Name.Name] = true
				if !ptr || recv == "" {
					bad = append(bad, where+" has a value receiver (copies the mutex)")
					continue
				}
				if len(d.Body.List) < 2 {
					bad = append(bad, where+" touches the table without taking the lock")
					continue
				}
				lock := ""
				if es, ok := d.Body.List[0].(*ast.ExprStmt); ok {
					lock = ntMuCall(es.X, recv)
				}
				if lock != "Lock" && lock != "RLock" {
					bad = append(bad, where+": first statement is not "+recv+".mu.Lock()/RLock()")
					continue
				}
				unlock := ""
				if ds, ok := d.Body.List[1].(*ast.DeferStmt); ok {
					unlock = ntMuCall(ds.Call, recv)
				}
				if (lock == "Lock" && unlock != "Unlock") || (lock == "RLock" && unlock != "RUnlock") {
					bad = append(bad, where+": second statement is not the matching deferred unlock")
					continue
				}
				for _, st := range d.Body.List[2:] {
					ast.Inspect(st, func(x ast.Node) bool {
						switch x := x.(type) {
						case *ast.SelectorExpr:
							if x.Sel.Name == "mu" {
								bad = append(bad, where+" mentions the mutex after the deferred unlock")
							}
						case *ast.GoStmt:
							bad = append(bad, where+" starts a goroutine while holding the lock")
						case *ast.FuncLit:
							bad = append(bad, where+" builds a closure inside the critical section")
						case *ast.AssignStmt:
							if lock == "RLock" {
								for _, l := range x.Lhs {
									if _, ok := l.(*ast.Ident); !ok {
										bad = append(bad, where+" writes through "+fmt.Sprintf("%T", l)+" while holding only the read lock")
									}
								}
							}
						case *ast.IncDecStmt:
							if _, ok := x.X.(*ast.Ident); !ok && lock == "RLock" {
								bad = append(bad, where+" increments shared state while holding only the read lock")
							}
						case *ast.CallExpr:
							if id, ok := x.Fun.(*ast.Ident); ok && id.Name == "delete" && lock == "RLock" {
								bad = append(bad, where+" deletes from the table while holding only the read lock")
							}
						}
						return true
					})
				}
				if lock == "RLock" {
					readers = append(readers, d.Name.Name)
				}
			}
		}
	}
	for _, m := range ntMethods {
		if !seen[m] {
			bad = append(bad, "method "+m+" not found (or no longer touches the table): the model has six methods")
		}
	}
	for m := range seen {
		known := false
		for _, k := range ntMethods {
			known = known || k == m
		}
		if !known {
			bad = append(bad, "method "+m+" touches the table but is not modelled")
		}
	}
	sort.Strings(bad)
	uniq := bad[:0]
	for i, b := range bad {
		if i == 0 || b != bad[i-1] {
			uniq = append(uniq, b)
		}
	}
	bad = uniq
	sort.Strings(readers)
	return
}

// The table code stores and moves net.IP slice headers but never writes the bytes of an address,
// and writes slice elements only by append / copy into a slice it has just made: the only
// index-assignment target is the map itself.
func ntNoIPWrites() []string {
	var bad []string
	fset := token.NewFileSet()
	path := filepath.Join(ntSourceDir(), "nbtns.go")
	f, err := parser.ParseFile(fset, path, nil, 0)
	if err != nil {
		return []string{"cannot parse " + path + ": " + err.Error()}
	}
	for _, d := range f.Decls {
		fd, ok := d.(*ast.FuncDecl)
		if !ok || fd.Body == nil {
			continue
		}
		made := map[string]bool{}
		ast.Inspect(fd.Body, func(x ast.Node) bool {
			switch x := x.(type) {
			case *ast.AssignStmt:
				if x.Tok == token.DEFINE && len(x.Lhs) == 1 && len(x.Rhs) == 1 {
					if c, ok := x.Rhs[0].(*ast.CallExpr); ok {
						if id, ok := c.Fun.(*ast.Ident); ok && id.Name == "make" {
							if l, ok := x.Lhs[0].(*ast.Ident); ok {
								made[l.Name] = true
							}
						}
					}
				}
				for _, l := range x.Lhs {
					if ix, ok := l.(*ast.IndexExpr); ok {
						if s, ok := ix.X.(*ast.SelectorExpr); !ok || s.Sel.Name != "names" {
							bad = append(bad, fd.Name.Name+" assigns to an element of something other than the map")
						}
					}
				}
			case *ast.CallExpr:
				if id, ok := x.Fun.(*ast.Ident); ok && id.Name == "copy" && len(x.Args) == 2 {
					if dst, ok := x.Args[0].(*ast.Ident); !ok || !made[dst.Name] {
						bad = append(bad, fd.Name.Name+" copies into a slice it did not just make")
					}
				}
			}
			return true
		})
	}
	return bad
}

// ---------------------------------------------------------------- linearizability

type ntEvent struct {
	g         int
	op        ntOp
	res       ntResult
	inv, resp int64
}

func ntConcurrentOnce(seed uint64, G, K int) (string, string) {
	r := NewRng(seed)
	names := ntNames[:2]
	ips := ntIPs[:3]
	progs := make([][]ntOp, G)
	for g := range progs {
		progs[g] = make([]ntOp, K)
		for i := range progs[g] {
			o := ntRandomOp(r, names, ips, []uint8{0, 1})
			if o.code == opRegister && o.ttlH > 1 {
				o.ttlH = 1
			}
			progs[g][i] = o
		}
	}
	ns := nbtns.NewNetBIOSNameServer(false)
	var clock atomic.Int64
	events := make([][]ntEvent, G)
	start := make(chan struct{})
	var wg sync.WaitGroup
	for g := 0; g < G; g++ {
		wg.Add(1)
		go func(g int) {
			defer wg.Done()
			<-start
			for _, o := range progs[g] {
				ev := ntEvent{g: g, op: o}
				ev.inv = clock.Add(1)
				ev.res = ntApply(ns, o)
				ev.resp = clock.Add(1)
				events[g] = append(events[g], ev)
				runtime.Gosched()
			}
		}(g)
	}
	close(start)
	wg.Wait()
	var all []ntEvent
	for _, es := range events {
		all = append(all, es...)
	}
	n := len(all)
	// Wing & Gong search with memoisation on (linearized set, reference state)
	visited := map[string]bool{}
	var search func(done uint32, ref refTable) bool
	search = func(done uint32, ref refTable) bool {
		if done == uint32(1)<<uint(n)-1 {
			k, _ := ntInvariants(ns, ref)
			return k == ""
		}
		key := fmt.Sprintf("%x|%s", done, ref.key())
		if visited[key] {
			return false
		}
		visited[key] = true
		// an operation may be linearized next if no other pending operation returned before it was invoked
		minResp := int64(1) << 62
		for i := 0; i < n; i++ {
			if done&(1<<uint(i)) == 0 && all[i].resp < minResp {
				minResp = all[i].resp
			}
		}
		for i := 0; i < n; i++ {
			if done&(1<<uint(i)) != 0 || all[i].inv > minResp {
				continue
			}
			next := ref.clone()
			w := next.apply(all[i].op)
			if ok, _ := ntAgree(all[i].res, w); ok && search(done|1<<uint(i), next) {
				return true
			}
		}
		return false
	}
	if search(0, refTable{}) {
		return "", ""
	}
	sort.Slice(all, func(i, j int) bool { return all[i].inv < all[j].inv })
	var sb strings.Builder
	for _, e := range all {
		fmt.Fprintf(&sb, "g%d[%d,%d] %s => %s; ", e.g, e.inv, e.resp, e.op, e.res.val())
	}
	return "C17/not-linearizable", "no sequential order of the atomic map explains: " + sb.String() + "final table " + ntRun2(ns)
}

// stress: many operations under contention; every query result is checked on the spot (non-empty,
// pairwise distinct addresses, one owner if unique, only addresses of the alphabet) and again at
// the end (unchanged: a result is a slice of its own); the table invariants hold afterwards.
func ntStress(seed uint64, G, N int) (string, string) {
	ns := nbtns.NewNetBIOSNameServer(false)
	errs := make([]string, G)
	var wg sync.WaitGroup
	for g := 0; g < G; g++ {
		wg.Add(1)
		go func(g int) {
			defer wg.Done()
			r := NewRng(seed + uint64(g)*7919)
			var snaps []ntSnapshot
			for i := 0; i < N && errs[g] == ""; i++ {
				o := ntRandomOp(r, ntNames, ntIPs, []uint8{0, 1})
				res := ntApply(ns, o)
				if !res.query || res.err {
					continue
				}
				if len(res.owners) == 0 || (res.typ == nbtns.Unique && len(res.owners) != 1) {
					errs[g] = fmt.Sprintf("C17/query-outcome|query of %q returned %d owners of type %d", o.name, len(res.owners), res.typ)
				}
				for a := range res.owners {
					known := false
					for _, ip := range ntIPs {
						known = known || string(ip) == string(res.owners[a])
					}
					if !known {
						errs[g] = fmt.Sprintf("C17/query-outcome|query of %q returned %x, never registered", o.name, []byte(res.owners[a]))
					}
					for b := a + 1; b < len(res.owners); b++ {
						if res.owners[a].Equal(res.owners[b]) {
							errs[g] = fmt.Sprintf("C17/query-outcome|query of %q returned %v twice", o.name, res.owners[a])
						}
					}
				}
				if len(snaps) < 4096 {
					snaps = append(snaps, ntSnap(i, res.owners))
				}
			}
			for _, s := range snaps {
				if s.changed() {
					errs[g] = fmt.Sprintf("C17/result-mutated|goroutine %d: the result of its operation %d changed under later updates", g, s.step)
				}
			}
		}(g)
	}
	wg.Wait()
	for _, e := range errs {
		if e != "" {
			p := strings.SplitN(e, "|", 2)
			return p[0], p[1]
		}
	}
	return ntInvariants(ns, nil)
}

func init() {
	Oracle("c17.lock-discipline", func(a []Val) (string, string) {
		bad, readers := ntLockDiscipline()
		if len(bad) > 0 {
			return "C17/lock-discipline", strings.Join(bad, "; ")
		}
		// the model's only reader (an operation that changes nothing) is QueryName
		for _, m := range readers {
			if m != "QueryName" {
				return "C17/lock-discipline", m + " holds only the read lock but is modelled as a writer"
			}
		}
		return "", ""
	})
	Oracle("c17.no-ip-writes", func(a []Val) (string, string) {
		if bad := ntNoIPWrites(); len(bad) > 0 {
			return "C17/ip-bytes-written", strings.Join(bad, "; ")
		}
		return "", ""
	})
	// args: seed, goroutines, operations per goroutine.  Schedules are not reproducible: the same
	// programs are run several times.
	Oracle("c17.concurrent", func(a []Val) (string, string) {
		for attempt := 0; attempt < 3; attempt++ {
			if k, d := ntConcurrentOnce(a[0].Uint(), int(a[1].Int()), int(a[2].Int())); k != "" {
				return k, d
			}
		}
		return "", ""
	})
	// args: seed, goroutines, operations per goroutine
	Oracle("c17.stress", func(a []Val) (string, string) {
		return ntStress(a[0].Uint(), int(a[1].Int()), int(a[2].Int()))
	})
}
