//go:build c02 || allprops

package main

import (
	"strings"
)

var c02Corpus = []string{"", "a", "corp", "CORP", "Corp", "user", "Administrator", "LAB", "Podalirius", "Admin123!",
	"with space", "MiXeD.Example.COM", "x:y", ":", "::", "é", "École", "ß", "straße", "ı", "ſ", "ǆ", "ǅ", "ﬁ", "ᾳ",
	"Ωμέγα", "ωμέγα", "домен", "ДОМЕН", "用户", "ドメイン", "😀", "a😀b", "İstanbul", "i̇", "ÿ", "µ",
	"\xff", "a\xc3", "\xed\xa0\x80", "\xf4\x90\x80\x80", "\xc0\xaf", "ab\x00cd", "Password", "password", "SecREt01",
	"0123456789abcdef", "abcdefghijklmn", "abcdefghijklmno"}

var c02CaselessRunes = []rune{'0', '9', '-', '_', '.', ' ', '$', '用', '户', 'ド', 'メ', '한', 'א', 'ب', '😀', '𝟘', '€', '±', 0x10FFFF, 0xFFFD, 0x7f, 0x80, 0x7ff, 0x800, 0xffff, 0x10000}
var c02CasedRunes = []rune{'é', 'É', 'ß', 'ı', 'İ', 'ſ', 'ǆ', 'ǅ', 'Ǆ', 'ω', 'Ω', 'σ', 'ς', 'д', 'Д', 'ÿ', 'µ', 'ᾳ', 'ⅰ', 'ⓐ', 'ａ', '𐐨', 'ǰ', 'ŉ'}

const c02Ascii = "abcdefghijklmnopqrstuvwxyzABCDEFGHIJKLMNOPQRSTUVWXYZ0123456789-_.$ !@#"

// class 0: ASCII; 1: ASCII with ':'; 2: ASCII + caseless runes; 3: cased non-ASCII runes; 4: arbitrary bytes; 5: corpus
func c02Str(r *Rng, class int, maxLen int) string {
	n := r.Intn(maxLen + 1)
	switch class {
	case 0:
		return r.StringOver(c02Ascii, n)
	case 1:
		return r.StringOver(c02Ascii+":::", n)
	case 2:
		var sb strings.Builder
		for i := 0; i < n; i++ {
			if r.Intn(3) == 0 {
				sb.WriteRune(c02CaselessRunes[r.Intn(len(c02CaselessRunes))])
			} else {
				sb.WriteByte(c02Ascii[r.Intn(len(c02Ascii))])
			}
		}
		return sb.String()
	case 3:
		var sb strings.Builder
		for i := 0; i < n; i++ {
			switch r.Intn(4) {
			case 0:
				sb.WriteByte(c02Ascii[r.Intn(len(c02Ascii))])
			case 1:
				sb.WriteRune(rune(r.Intn(0x3000)))
			default:
				sb.WriteRune(c02CasedRunes[r.Intn(len(c02CasedRunes))])
			}
		}
		return sb.String()
	case 4:
		return string(r.Bytes(n))
	}
	return c02Corpus[r.Intn(len(c02Corpus))]
}

func c02AnyStr(r *Rng, maxLen int) string {
	return c02Str(r, r.Pick(0, 0, 2, 2, 3, 3, 4, 5, 5), maxLen)
}

// a string the executable model can upper-case (see c02UpperIsAscii)
func c02ModelStr(r *Rng, maxLen int) string {
	for {
		s := c02Str(r, r.Pick(0, 0, 2, 2, 5, 5), maxLen)
		if c02UpperIsAscii(s) {
			return s
		}
	}
}

func c02Challenge(r *Rng) []byte {
	switch r.Intn(8) {
	case 0:
		return []byte{0x01, 0x23, 0x45, 0x67, 0x89, 0xab, 0xcd, 0xef} // MS-NLMP 4.2.1
	case 1:
		return make([]byte, 8)
	case 2:
		return []byte{0xff, 0xff, 0xff, 0xff, 0xff, 0xff, 0xff, 0xff}
	}
	return r.Bytes(8)
}

func c02Key7(v uint64) []byte {
	k := make([]byte, 7)
	for i := 0; i < 7; i++ {
		k[i] = byte(v >> (uint(6-i) * 8))
	}
	return k
}

// an AV_PAIR list ended by MsvAvEOL
func c02TargetInfo(r *Rng) []byte {
	var ti []byte
	n := r.Intn(5)
	for i := 0; i < n; i++ {
		id := uint16(r.Pick(1, 2, 3, 4, 5, 6, 7, 9, 10, 0x7fff))
		l := r.Pick(0, 1, 2, 4, 8, 8, 16, 30)
		ti = append(ti, byte(id), byte(id>>8), byte(l), byte(l>>8))
		ti = append(ti, r.Bytes(l)...)
	}
	return append(ti, 0, 0, 0, 0)
}

func genC02(c *Ctx) {
	r := c.Rng
	c.Check("c02.reference_vectors")

	// ---- ParityBit: every byte value, boundaries, random non-negative ints ----
	for n := int64(0); n < 256; n++ {
		c.Case("ntlmv1.parity_bit", I(n))
	}
	for rep := 0; rep < c.N(100, 2000); rep++ {
		c.Case("ntlmv1.parity_bit", I(int64(r.U64Edge()>>1)))
	}

	// ---- ParityAdjust: exhaustive per 7-bit group (8 groups x 128 values), random 7-byte keys ----
	for g := 0; g < 8; g++ {
		for v := uint64(0); v < 128; v++ {
			for _, bg := range []uint64{0, 1<<56 - 1, r.U64() >> 8} {
				sh := uint(7 * (7 - g))
				k := c02Key7(bg&^(0x7f<<sh) | v<<sh)
				c.Check("c02.parity", B(k))
				if bg != 0 {
					c.Case("ntlmv1.parity_adjust", B(k))
				}
			}
		}
	}
	for rep := 0; rep < c.N(300, 6000); rep++ {
		k := r.Bytes(7)
		c.Check("c02.parity", B(k))
		c.Case("ntlmv1.parity_adjust", B(k))
	}
	// other lengths (the function accepts any): every length 0..24, the pinned test vectors
	for n := 0; n <= 24; n++ {
		for rep := 0; rep < c.N(4, 40); rep++ {
			k := r.Bytes(n)
			c.Check("c02.parity", B(k))
			c.Check("c02.total.parity_adjust", B(k))
			c.Case("ntlmv1.parity_adjust", B(k))
		}
	}
	for n := 0; n <= 15; n++ {
		c.Case("ntlmv1.parity_adjust", S("0123456789abcde"[:n]))
	}
	for _, n := range []int{63, 64, 100, 1000} {
		c.Check("c02.total.parity_adjust", B(r.Bytes(n)))
		c.Case("ntlmv1.parity_adjust", B(r.Bytes(n)))
	}

	// ---- NTLMv1 from an NT hash ----
	v1vectors := [][2]string{
		{"\xcd\x06\xca\x7c\x7e\x10\xc9\x9b\x1d\x33\xb7\x48\x5a\x2e\xd8\x08", "\x01\x23\x45\x67\x89\xab\xcd\xef"}, // MS-NLMP 4.2.2 NTOWFv1("Password")
		{"\x00\x00\x00\x00\x00\x00\x00\x00\x00\x00\x00\x00\x00\x00\x00\x00", "\x00\x00\x00\x00\x00\x00\x00\x00"},
		{"\xff\xff\xff\xff\xff\xff\xff\xff\xff\xff\xff\xff\xff\xff\xff\xff", "\xff\xff\xff\xff\xff\xff\xff\xff"},
	}
	for _, v := range v1vectors {
		c.Check("c02.v1_nthash", S(v[0]), S(v[1]))
		c.Case("ntlmv1.with_nthash", S(v[0]), S(v[1]))
	}
	for rep := 0; rep < c.N(250, 5000); rep++ {
		nth, sc := r.Bytes(16), c02Challenge(r)
		if r.Intn(8) == 0 { // sparse hashes exercise single groups
			nth = make([]byte, 16)
			nth[r.Intn(16)] = 1 << uint(r.Intn(8))
		}
		c.Check("c02.v1_nthash", B(nth), B(sc))
		c.Case("ntlmv1.with_nthash", B(nth), B(sc))
		if rep%4 == 0 {
			c.Case("ntlmv1.hash", B(nth), S(""), B(sc))
			c.Case("ntlmv1.nt_response", B(nth), B(sc))
		}
	}
	// malformed: every hash length 0..40 and challenge length 0..12 (no panic; outcome class agrees with the model)
	for n := 0; n <= 40; n++ {
		nth, sc := r.Bytes(n), r.Bytes(8)
		c.Check("c02.total.with_nthash", B(nth), B(sc))
		c.Case("ntlmv1.with_nthash", B(nth), B(sc))
		c.Case("ntlmv1.hash", B(nth), S(""), B(sc))
		c.Case("ntlmv1.hash", B(nth), S("pw"), B(sc))
		c.Case("ntlmv1.nt_response", B(nth), B(sc))
	}
	for n := 0; n <= 12; n++ {
		nth, sc := r.Bytes(16), r.Bytes(n)
		c.Check("c02.total.with_nthash", B(nth), B(sc))
		c.Check("c02.total.with_password", S("pw"), B(sc))
		c.Case("ntlmv1.with_nthash", B(nth), B(sc))
		c.Case("ntlmv1.with_password", S("pw"), B(sc))
		c.Case("ntlmv1.hash", B(nth), S(""), B(sc))
		c.Case("ntlmv1.nt_response", B(nth), B(sc))
		c.Case("ntlmv1.lm_response", S("pw"), B(sc))
	}
	for rep := 0; rep < c.N(40, 800); rep++ {
		nth, sc := r.Bytes(r.Intn(30)), r.Bytes(r.Pick(8, 8, 8, 0, 7, 9))
		c.Check("c02.total.with_nthash", B(nth), B(sc))
		c.Case("ntlmv1.with_nthash", B(nth), B(sc))
	}

	// ---- NTLMv1 from a password ----
	for _, pw := range c02Corpus {
		sc := c02Challenge(r)
		c.Check("c02.v1_password", S(pw), B(sc))
		c.Check("c02.total.with_password", S(pw), B(sc))
		if c02UpperIsAscii(pw) {
			c.Case("ntlmv1.with_password", S(pw), B(sc))
			c.Case("ntlmv1.lm_response", S(pw), B(sc))
		}
		c.Case("ntlmv1.hash", S(""), S(pw), B(sc))
	}
	c.Check("c02.v1_password", S("Password"), S("\x01\x23\x45\x67\x89\xab\xcd\xef"))
	c.Case("ntlmv1.with_password", S("Password"), S("\x01\x23\x45\x67\x89\xab\xcd\xef"))
	for rep := 0; rep < c.N(150, 3000); rep++ {
		sc := c02Challenge(r)
		c.Check("c02.v1_password", S(c02AnyStr(r, 20)), B(sc))
		pw := c02ModelStr(r, 20)
		c.Case("ntlmv1.with_password", S(pw), B(sc))
		if rep%3 == 0 {
			c.Case("ntlmv1.hash", S(""), S(c02AnyStr(r, 40)), B(sc))
		}
	}

	// ---- NTLMv2 ----
	v2 := func(dom, user, pw string, sc, cc []byte, model bool) {
		args := []Val{S(dom), S(user), S(pw), B(sc), B(cc)}
		c.Check("c02.v2", args...)
		c.Check("c02.hashcat", args...)
		if !model || !c02UpperIsAscii(user) {
			return
		}
		c.Case("ntlmv2.new", args...)
		out, ts := c02RunHash(args)
		c02Record(c, "ntlmv2.hash", append(args, U(ts)), out)
		out, ts = c02RunHashcat(args)
		c02Record(c, "ntlmv2.hashcat", append(args, U(ts)), out)
	}
	ms := []byte{0x01, 0x23, 0x45, 0x67, 0x89, 0xab, 0xcd, 0xef}
	aa := []byte{0xaa, 0xaa, 0xaa, 0xaa, 0xaa, 0xaa, 0xaa, 0xaa}
	v2("Domain", "User", "Password", ms, aa, true) // MS-NLMP 4.2.4
	v2("corp", "user", "Password", ms, aa, true)
	v2("CORP", "user", "Password", ms, aa, true)
	v2("LAB", "Podalirius", "Admin123!", []byte{0x11, 0x22, 0x33, 0x44, 0x55, 0x66, 0x77, 0x88}, aa, true)
	for _, d := range c02Corpus {
		v2(d, "user", "Password", c02Challenge(r), r.Bytes(8), true)
		v2("Dom", d, "Password", c02Challenge(r), r.Bytes(8), true)
		v2("Dom", "user", d, c02Challenge(r), r.Bytes(8), true)
	}
	for rep := 0; rep < c.N(250, 5000); rep++ {
		// the domain and the password are never case-mapped: any string; the user name is upper-cased
		v2(c02AnyStr(r, 24), c02ModelStr(r, 24), c02AnyStr(r, 24), c02Challenge(r), r.Bytes(8), true)
		v2(c02AnyStr(r, 24), c02AnyStr(r, 24), c02AnyStr(r, 24), c02Challenge(r), r.Bytes(8), false)
	}
	// the domain must fit an AV_PAIR (65535 bytes of UTF-16)
	for _, n := range []int{32767, 32768, 40000} {
		v2(strings.Repeat("d", n), "user", "pw", ms, aa, true)
	}
	v2(strings.Repeat("😀", 16384), "user", "pw", ms, aa, true)
	// long user name and password (several MD4/MD5 blocks; lengths around the 55/56/64 byte padding boundaries)
	for _, n := range []int{13, 14, 27, 28, 29, 31, 32, 33, 63, 64, 65, 200} {
		v2("D", strings.Repeat("u", n), strings.Repeat("p", n), c02Challenge(r), r.Bytes(8), true)
	}

	c.Case("c02.fact.clock_reads")
	// ---- one reading of the clock per response (second boundaries of the wall clock) ----
	c.Check("c02.authenticate_clock", S("User"), S("Password"), S("DOMAIN"), I(int64(c.N(3, 12))))

	// ---- the Nt/Lm payloads of CreateAuthenticateMessage ----
	auth := func(flags uint32, sc, ti []byte, user, pw, dom, ws string, model bool) {
		args := []Val{U(uint64(flags)), B(sc), B(ti), S(user), S(pw), S(dom), S(ws), B(r.Bytes(8)), B(r.Bytes(8))}
		c.Check("c02.authenticate", args...)
		if !model {
			return
		}
		if !c02UpperIsAscii(user, dom, ws) || (flags&c02FlagESS == 0 && !c02UpperIsAscii(pw)) {
			return
		}
		out, ts := c02RunAuth(args)
		c02Record(c, "ntlm.auth_payloads", append(args, U(ts)), out)
	}
	flagSets := []uint32{c02FlagESS | c02FlagUnicode, c02FlagESS, c02FlagUnicode, 0,
		0xe2888215, 0xe2088215, 0xa2880205, 0x00088207}
	for _, fl := range flagSets {
		auth(fl, ms, []byte{}, "User", "Password", "Domain", "COMPUTER", true)
		auth(fl, ms, c02TargetInfo(r), "User", "Password", "Domain", "COMPUTER", true)
		auth(fl, ms, c02TargetInfo(r), "user", "Password", "corp", "ws", true)
	}
	for rep := 0; rep < c.N(250, 5000); rep++ {
		fl := flagSets[r.Intn(len(flagSets))]
		if r.Intn(4) == 0 {
			fl = uint32(r.U64())
		}
		ti := c02TargetInfo(r)
		switch r.Intn(8) {
		case 0:
			ti = []byte{}
		case 1:
			ti = r.Bytes(r.Intn(24)) // not an AV_PAIR list
		}
		auth(fl, c02Challenge(r), ti, c02ModelStr(r, 16), c02AnyStr(r, 16), c02ModelStr(r, 16), c02ModelStr(r, 8), true)
		auth(fl, c02Challenge(r), ti, c02AnyStr(r, 16), c02AnyStr(r, 16), c02AnyStr(r, 16), c02AnyStr(r, 8), false)
	}
	for _, s := range c02Corpus {
		auth(c02FlagESS|c02FlagUnicode, c02Challenge(r), c02TargetInfo(r), s, "Password", s, "WS", true)
		auth(0, c02Challenge(r), []byte{}, "user", s, "D", "WS", true)
	}
	// payloads that do not fit a 16-bit length: no message
	for _, n := range []int{65535 - 48, 65535 - 47, 70000} {
		auth(c02FlagESS|c02FlagUnicode, ms, make([]byte, n), "u", "p", "d", "w", true)
	}
	auth(c02FlagESS|c02FlagUnicode, ms, []byte{}, strings.Repeat("u", 32768), "p", "d", "w", true)
	auth(c02FlagESS, ms, []byte{}, "u", "p", strings.Repeat("d", 65536), "w", true)
}
