//go:build c13 || allprops

package main

import (
	"bytes"
	"encoding/binary"
	"encoding/hex"
	"fmt"
	"strings"
	"time"

	guuid "github.com/google/uuid"

	"github.com/TheManticoreProject/Manticore/crypto/uuid"
	"github.com/TheManticoreProject/Manticore/crypto/uuid/uuid_v1"
	"github.com/TheManticoreProject/Manticore/crypto/uuid/uuid_v2"
	"github.com/TheManticoreProject/Manticore/crypto/uuid/uuid_v8"
	"github.com/TheManticoreProject/Manticore/windows/guid"
	dtyp "github.com/TheManticoreProject/Manticore/windows/ms_dtyp/common/data_structures"
)

// ---------------------------------------------------------------- projections

func arr15(b []byte) (a [15]byte) { copy(a[:], b); return }
func arr6(b []byte) (a [6]byte)   { copy(a[:], b); return }

func uuidVal(u *uuid.UUID) Val {
	return L(U(uint64(u.Version)), U(uint64(u.Variant)), B(u.Data[:]))
}
func v1Val(u *uuid_v1.UUIDv1) Val {
	return L(U(uint64(u.UUID.Variant)), U(u.Time), U(uint64(u.ClockSeq)), B(u.NodeID[:]))
}
func v2Val(u *uuid_v2.UUIDv2) Val {
	return L(U(uint64(u.UUID.Variant)), U(uint64(u.LocalDomainNumber)), U(u.Time), U(uint64(u.Clock)), U(uint64(u.LocalDomain)), B(u.NodeID[:]))
}
func v8Val(u *uuid_v8.UUIDv8) Val { return L(U(uint64(u.UUID.Variant)), B(u.Data[:])) }
func guidVal(g *guid.GUID) Val {
	return L(U(uint64(g.A)), U(uint64(g.B)), U(uint64(g.C)), U(uint64(g.D)), U(g.E))
}
func withN(v Val, n int) Val { return L(append(append([]Val{}, v.L...), I(int64(n)))...) }

func mkUUID(a []Val) *uuid.UUID {
	return &uuid.UUID{Version: uint8(a[0].Uint()), Variant: uint8(a[1].Uint()), Data: arr15(a[2].B)}
}
func mkV1(a []Val) *uuid_v1.UUIDv1 {
	u := &uuid_v1.UUIDv1{Time: a[1].Uint(), ClockSeq: uint16(a[2].Uint()), NodeID: arr6(a[3].B)}
	u.UUID.Variant = uint8(a[0].Uint())
	return u
}
func mkV2(a []Val) *uuid_v2.UUIDv2 {
	u := &uuid_v2.UUIDv2{LocalDomainNumber: uint32(a[1].Uint()), Time: a[2].Uint(), Clock: uint8(a[3].Uint()),
		LocalDomain: uint8(a[4].Uint()), NodeID: arr6(a[5].B)}
	u.UUID.Variant = uint8(a[0].Uint())
	return u
}
func mkV8(a []Val) *uuid_v8.UUIDv8 {
	u := &uuid_v8.UUIDv8{Data: arr15(a[1].B)}
	u.UUID.Variant = uint8(a[0].Uint())
	return u
}
func mkGUID(a []Val) *guid.GUID {
	return &guid.GUID{A: uint32(a[0].Uint()), B: uint16(a[1].Uint()), C: uint16(a[2].Uint()), D: uint16(a[3].Uint()), E: a[4].Uint()}
}

func guidRes(g *guid.GUID, err error) Val {
	if err != nil {
		return VErr()
	}
	return guidVal(g)
}

// fromRaw calls GUID.FromRawBytes whatever its result list is (it had none before the
// length-check fix and returns an error after it).
func fromRaw(g *guid.GUID, b []byte) error {
	var f interface{} = g.FromRawBytes
	switch fn := f.(type) {
	case func([]byte):
		fn(b)
		return nil
	case func([]byte) error:
		return fn(b)
	}
	panic("unexpected signature of GUID.FromRawBytes")
}

var guidFormats = []string{"n", "d", "b", "p", "x"}

func guidTo(g *guid.GUID, f string) string {
	switch f {
	case "n":
		return g.ToFormatN()
	case "d":
		return g.ToFormatD()
	case "b":
		return g.ToFormatB()
	case "p":
		return g.ToFormatP()
	case "x":
		return g.ToFormatX()
	}
	panic("format " + f)
}
func guidFrom(s string, f string) (*guid.GUID, error) {
	switch f {
	case "n":
		return guid.FromFormatN(s)
	case "d":
		return guid.FromFormatD(s)
	case "b":
		return guid.FromFormatB(s)
	case "p":
		return guid.FromFormatP(s)
	case "x":
		return guid.FromFormatX(s)
	case "s":
		return guid.FromString(s)
	}
	panic("format " + f)
}

// Independent references ------------------------------------------------------

// MS-DTYP 2.3.4.2: Data1 (4, little-endian) Data2 (2, LE) Data3 (2, LE) Data4 (8 bytes, verbatim);
// 2.3.4.3 curly-braced string form prints Data1-Data2-Data3-Data4[0..1]-Data4[2..7] in hex.
func dtypText(b []byte) string {
	return fmt.Sprintf("%08x-%04x-%04x-%s-%s", binary.LittleEndian.Uint32(b[0:4]), binary.LittleEndian.Uint16(b[4:6]),
		binary.LittleEndian.Uint16(b[6:8]), hex.EncodeToString(b[8:10]), hex.EncodeToString(b[10:16]))
}
func dtypBytesOfText(d string) []byte { // inverse of dtypText for a canonical D string
	raw, _ := hex.DecodeString(strings.ReplaceAll(d, "-", ""))
	out := []byte{raw[3], raw[2], raw[1], raw[0], raw[5], raw[4], raw[7], raw[6]}
	return append(out, raw[8:16]...)
}
func guidTextRef(d string, f string) string { // the five .NET format specifiers from the D form
	switch f {
	case "n":
		return strings.ReplaceAll(d, "-", "")
	case "d":
		return d
	case "b":
		return "{" + d + "}"
	case "p":
		return "(" + d + ")"
	case "x":
		h := strings.ReplaceAll(d, "-", "")
		s := "{0x" + h[0:8] + ",0x" + h[8:12] + ",0x" + h[12:16] + ",{"
		for i := 0; i < 8; i++ {
			if i > 0 {
				s += ","
			}
			s += "0x" + h[16+2*i:18+2*i]
		}
		return s + "}}"
	}
	panic("format " + f)
}

func init() {
	// ------------------------------------------------------------ uuid (generic)
	Impl("uuid.marshal", func(a []Val) Val {
		b, err := mkUUID(a).Marshal()
		if err != nil {
			return VErr()
		}
		return B(b)
	})
	Impl("uuid.unmarshal", func(a []Val) Val {
		var u uuid.UUID
		dirty(&u)
		n, err := u.Unmarshal(exact(a[0].B))
		if err != nil {
			return VErr()
		}
		return withN(uuidVal(&u), n)
	})
	Impl("uuid.from_string", func(a []Val) Val {
		var u uuid.UUID
		if err := u.FromString(a[0].Str()); err != nil {
			return VErr()
		}
		return uuidVal(&u)
	})
	Impl("uuid.string", func(a []Val) Val { return S(mkUUID(a).String()) })

	// ------------------------------------------------------------ v1
	Impl("v1.marshal", func(a []Val) Val {
		b, err := mkV1(a).Marshal()
		if err != nil {
			return VErr()
		}
		return B(b)
	})
	Impl("v1.unmarshal", func(a []Val) Val {
		var u uuid_v1.UUIDv1
		dirty(&u)
		n, err := u.Unmarshal(exact(a[0].B))
		if err != nil {
			return VErr()
		}
		return withN(v1Val(&u), n)
	})
	// a history on ONE UUIDv1 value (see Model/DispC13.v v1_run)
	Impl("v1.ops", func(a []Val) Val {
		var u uuid_v1.UUIDv1
		var outs []Val
		for _, op := range a[0].L {
			switch op.L[0].Int() {
			case 0:
				if _, err := u.Unmarshal(exact(op.L[1].B)); err != nil {
					outs = append(outs, VErr())
				} else {
					outs = append(outs, v1Val(&u))
				}
			case 1:
				u.Time = op.L[1].Uint()
			case 2:
				u.SetClockSequence(uint16(op.L[1].Uint()))
			case 3:
				u.SetNodeID(exact(op.L[1].B))
			case 4:
				b, err := u.Marshal()
				if err != nil {
					outs = append(outs, VErr())
				} else {
					outs = append(outs, B(b))
				}
			}
		}
		return L(outs...)
	})
	Impl("v1.from_bytes", func(a []Val) Val {
		var u uuid_v1.UUIDv1
		dirty(&u)
		if err := u.FromBytes(exact(a[0].B)); err != nil {
			return VErr()
		}
		return v1Val(&u)
	})
	Impl("v1.from_string", func(a []Val) Val {
		var u uuid_v1.UUIDv1
		if err := u.FromString(a[0].Str()); err != nil {
			return VErr()
		}
		return v1Val(&u)
	})
	Impl("v1.string", func(a []Val) Val { return S(mkV1(a).String()) })
	Impl("v1.set_node", func(a []Val) Val {
		var u uuid_v1.UUIDv1
		if err := u.SetNodeID(exact(a[0].B)); err != nil {
			return VErr()
		}
		return B(u.GetNodeID())
	})

	// ------------------------------------------------------------ v2
	Impl("v2.marshal", func(a []Val) Val {
		b, err := mkV2(a).Marshal()
		if err != nil {
			return VErr()
		}
		return B(b)
	})
	Impl("v2.unmarshal", func(a []Val) Val {
		var u uuid_v2.UUIDv2
		dirty(&u)
		n, err := u.Unmarshal(exact(a[0].B))
		if err != nil {
			return VErr()
		}
		return withN(v2Val(&u), n)
	})
	Impl("v2.from_bytes", func(a []Val) Val {
		var u uuid_v2.UUIDv2
		dirty(&u)
		if err := u.FromBytes(exact(a[0].B)); err != nil {
			return VErr()
		}
		return v2Val(&u)
	})
	Impl("v2.from_string", func(a []Val) Val {
		var u uuid_v2.UUIDv2
		if err := u.FromString(a[0].Str()); err != nil {
			return VErr()
		}
		return v2Val(&u)
	})
	Impl("v2.string", func(a []Val) Val { return S(mkV2(a).String()) })
	Impl("v2.set_node", func(a []Val) Val {
		var u uuid_v2.UUIDv2
		if err := u.SetNodeID(exact(a[0].B)); err != nil {
			return VErr()
		}
		return B(u.GetNodeID())
	})

	// ------------------------------------------------------------ v8
	Impl("v8.marshal", func(a []Val) Val {
		b, err := mkV8(a).Marshal()
		if err != nil {
			return VErr()
		}
		return B(b)
	})
	Impl("v8.unmarshal", func(a []Val) Val {
		var u uuid_v8.UUIDv8
		dirty(&u)
		n, err := u.Unmarshal(exact(a[0].B))
		if err != nil {
			return VErr()
		}
		return withN(v8Val(&u), n)
	})
	Impl("v8.from_bytes", func(a []Val) Val {
		var u uuid_v8.UUIDv8
		dirty(&u)
		if err := u.FromBytes(exact(a[0].B)); err != nil {
			return VErr()
		}
		return v8Val(&u)
	})
	Impl("v8.from_string", func(a []Val) Val {
		var u uuid_v8.UUIDv8
		if err := u.FromString(a[0].Str()); err != nil {
			return VErr()
		}
		return v8Val(&u)
	})
	Impl("v8.string", func(a []Val) Val { return S(mkV8(a).String()) })
	Impl("v8.set_data", func(a []Val) Val {
		var u uuid_v8.UUIDv8
		u.SetData(exact(a[0].B))
		return B(u.GetData())
	})

	// ------------------------------------------------------------ guid (windows/guid and its ms_dtyp alias)
	Impl("guid.from_raw", func(a []Val) Val {
		var g dtyp.GUID // = guid.GUID (type alias in windows/ms_dtyp/common/data_structures/GUID.go)
		if err := fromRaw(&g, exact(a[0].B)); err != nil {
			return VErr()
		}
		return guidVal(&g)
	})
	Impl("guid.to_bytes", func(a []Val) Val {
		var g *dtyp.GUID = mkGUID(a)
		return B(g.ToBytes())
	})
	for _, f := range guidFormats {
		f := f
		Impl("guid.to_"+f, func(a []Val) Val { return S(guidTo(mkGUID(a), f)) })
		Impl("guid.from_"+f, func(a []Val) Val { return guidRes(guidFrom(a[0].Str(), f)) })
	}
	Impl("guid.from_string", func(a []Val) Val { return guidRes(guid.FromString(a[0].Str())) })

	// ------------------------------------------------------------ oracles
	// Totality of every decoding entry point: args (entry name, input bytes).
	Oracle("c13.total", func(a []Val) (string, string) {
		name := a[0].Str()
		v := callImpl(impls[name], []Val{a[1]})
		if v.IsPanic() {
			return "C13/panic/" + name, fmt.Sprintf("%s panics on input %q", name, a[1].B)
		}
		return "", ""
	})

	// generic UUID, binary: args (16 bytes)
	Oracle("c13.uuid.bin", func(a []Val) (string, string) {
		var u uuid.UUID
		dirty(&u)
		n, err := u.Unmarshal(exact(a[0].B))
		if err != nil || n != 16 {
			return "C13/uuid-bin-reject", fmt.Sprintf("Unmarshal(%x) = %d, %v", a[0].B, n, err)
		}
		out, err := u.Marshal()
		if err != nil || !bytes.Equal(out, a[0].B[:16]) {
			return "C13/uuid-bin", fmt.Sprintf("Marshal(Unmarshal(%x)) = %x, %v", a[0].B, out, err)
		}
		g, _ := guuid.FromBytes(a[0].B[:16])
		if int(u.Version) != int(g.Version()) {
			return "C13/uuid-version", fmt.Sprintf("%x: version %d, RFC 4122 says %d", a[0].B, u.Version, g.Version())
		}
		return "", ""
	})
	// generic UUID, fields: args (version, variant, data15)
	Oracle("c13.uuid.fields", func(a []Val) (string, string) {
		u := mkUUID(a)
		b, err := u.Marshal()
		if err != nil || len(b) != 16 {
			return "C13/uuid-fields", fmt.Sprintf("Marshal: %x %v", b, err)
		}
		var w uuid.UUID
		dirty(&w)
		if _, err := w.Unmarshal(exact(b)); err != nil || w != *u {
			return "C13/uuid-fields", fmt.Sprintf("Unmarshal(Marshal(%+v)) = %+v, %v", *u, w, err)
		}
		return "", ""
	})
	// text: args (16 bytes, upper flag); the canonical text comes from google/uuid
	Oracle("c13.uuid.text", func(a []Val) (string, string) {
		g, _ := guuid.FromBytes(a[0].B)
		text := g.String()
		in := text
		if a[1].Int() != 0 {
			in = strings.ToUpper(text)
		}
		var u uuid.UUID
		if err := u.FromString(in); err != nil {
			return "C13/uuid-text-reject", fmt.Sprintf("FromString(%q): %v", in, err)
		}
		if b, _ := u.Marshal(); !bytes.Equal(b, a[0].B) {
			return "C13/uuid-text-parse", fmt.Sprintf("FromString(%q) marshals to %x", in, b)
		}
		if s := u.String(); s != text {
			return "C13/uuid-text-print", fmt.Sprintf("String() = %q, want %q", s, text)
		}
		// the version-specific parsers agree on their own version
		switch g.Version() {
		case 1:
			var v uuid_v1.UUIDv1
			if err := v.FromString(in); err != nil || v.String() != text {
				return "C13/v1-text", fmt.Sprintf("v1 FromString(%q): %v, String() = %q", in, err, v.String())
			}
		case 2:
			var v uuid_v2.UUIDv2
			if err := v.FromString(in); err != nil {
				return "C13/v2-text", fmt.Sprintf("v2 FromString(%q): %v", in, err)
			}
			// the low 32 time bits are replaced by the local identifier, everything else is kept
			if v.String() != text {
				return "C13/v2-text", fmt.Sprintf("v2 String() = %q, want %q", v.String(), text)
			}
		case 8:
			var v uuid_v8.UUIDv8
			if err := v.FromString(in); err != nil || v.String() != text {
				return "C13/v8-text", fmt.Sprintf("v8 FromString(%q): %v, String() = %q", in, err, v.String())
			}
		}
		return "", ""
	})
	// v1 fields: args (variant, time, clockseq, node)
	Oracle("c13.v1.fields", func(a []Val) (string, string) {
		u := mkV1(a)
		b, err := u.Marshal()
		if err != nil || len(b) != 16 {
			return "C13/v1-fields", fmt.Sprintf("Marshal: %x %v", b, err)
		}
		var w uuid_v1.UUIDv1
		dirty(&w)
		if _, err := w.Unmarshal(exact(b)); err != nil {
			return "C13/v1-fields", fmt.Sprintf("Unmarshal(%x): %v", b, err)
		}
		if w.Time != u.Time || w.ClockSeq != u.ClockSeq || w.NodeID != u.NodeID || w.UUID.Variant != u.UUID.Variant {
			return "C13/v1-fields", fmt.Sprintf("fields %v -> %x -> %v", v1Val(u), b, v1Val(&w))
		}
		return v1AgainstRFC(b, &w)
	})
	// v1 from arbitrary bytes: args (16 bytes with version nibble 1)
	Oracle("c13.v1.rfc", func(a []Val) (string, string) {
		var w uuid_v1.UUIDv1
		dirty(&w)
		if err := w.FromBytes(exact(a[0].B)); err != nil {
			return "C13/v1-reject", fmt.Sprintf("FromBytes(%x): %v", a[0].B, err)
		}
		if b, err := w.Marshal(); err != nil || !bytes.Equal(b, a[0].B) {
			return "C13/v1-bin", fmt.Sprintf("Marshal(Unmarshal(%x)) = %x", a[0].B, b)
		}
		return v1AgainstRFC(a[0].B, &w)
	})
	// v1 time: args (unix seconds, nanoseconds) in the range where every route is exact (C15 owns the rest)
	Oracle("c13.v1.time", func(a []Val) (string, string) {
		t := time.Unix(a[0].Int(), a[1].Int())
		var u uuid_v1.UUIDv1
		u.UUID.Variant = 8
		u.SetTime(t)
		b, _ := u.Marshal()
		g, _ := guuid.FromBytes(b)
		sec, nsec := g.Time().UnixTime()
		want := t.Truncate(100 * time.Nanosecond)
		if !time.Unix(sec, nsec).Equal(want) {
			return "C13/v1-rfc-time", fmt.Sprintf("SetTime(%v) marshals to %x whose RFC 4122 time is %v", t, b, time.Unix(sec, nsec))
		}
		var w uuid_v1.UUIDv1
		dirty(&w)
		w.FromBytes(b)
		if !w.GetTime().Equal(want) {
			return "C13/v1-rfc-time", fmt.Sprintf("GetTime() after round trip = %v, want %v", w.GetTime(), want)
		}
		return "", ""
	})
	// A decoder overwrites everything it decodes: parsing into a receiver that already holds another value
	// gives what parsing into a fresh one gives.  args (kind, first input, second input)
	Oracle("c13.reuse", func(a []Val) (string, string) {
		kind := a[0].Str()
		var fresh, reused string
		switch kind {
		case "guid.from_raw":
			var g1, g2 dtyp.GUID
			if fromRaw(&g1, exact(a[2].B)) != nil {
				return "", ""
			}
			fromRaw(&g2, exact(a[1].B))
			if fromRaw(&g2, exact(a[2].B)) != nil {
				return "C13/reuse/" + kind, "second parse fails on a reused receiver only"
			}
			fresh, reused = guidVal(&g1).String()+g1.ToFormatD(), guidVal(&g2).String()+g2.ToFormatD()
		case "uuid.unmarshal":
			var u1, u2 uuid.UUID
			if _, err := u1.Unmarshal(exact(a[2].B)); err != nil {
				return "", ""
			}
			u2.Unmarshal(exact(a[1].B))
			u2.Unmarshal(exact(a[2].B))
			fresh, reused = uuidVal(&u1).String(), uuidVal(&u2).String()
		case "v1.from_bytes":
			var u1, u2 uuid_v1.UUIDv1
			if u1.FromBytes(exact(a[2].B)) != nil {
				return "", ""
			}
			u2.FromBytes(exact(a[1].B))
			u2.FromBytes(exact(a[2].B))
			fresh, reused = v1Val(&u1).String(), v1Val(&u2).String()
		case "v2.from_bytes":
			var u1, u2 uuid_v2.UUIDv2
			if u1.FromBytes(exact(a[2].B)) != nil {
				return "", ""
			}
			u2.FromBytes(exact(a[1].B))
			u2.FromBytes(exact(a[2].B))
			fresh, reused = v2Val(&u1).String(), v2Val(&u2).String()
		default:
			return "", ""
		}
		if fresh != reused {
			return "C13/reuse/" + kind, fmt.Sprintf("%s(%x) then (%x) on the same receiver gives %s; on a fresh receiver %s", kind, a[1].B, a[2].B, reused, fresh)
		}
		return "", ""
	})
	// v2 fields: args (variant, ldn, time, clock, ld, node)
	Oracle("c13.v2.fields", func(a []Val) (string, string) {
		u := mkV2(a)
		b, err := u.Marshal()
		if err != nil || len(b) != 16 {
			return "C13/v2-fields", fmt.Sprintf("Marshal: %x %v", b, err)
		}
		var w uuid_v2.UUIDv2
		dirty(&w)
		if _, err := w.Unmarshal(exact(b)); err != nil {
			return "C13/v2-fields", fmt.Sprintf("Unmarshal(%x): %v", b, err)
		}
		if w.Time != u.Time || w.Clock != u.Clock || w.NodeID != u.NodeID || w.UUID.Variant != u.UUID.Variant ||
			w.LocalDomain != u.LocalDomain || w.LocalDomainNumber != u.LocalDomainNumber {
			return "C13/v2-fields", fmt.Sprintf("fields %v -> %x -> %v", v2Val(u), b, v2Val(&w))
		}
		g, _ := guuid.FromBytes(b)
		if g.Version() != 2 {
			return "C13/v2-version", fmt.Sprintf("%x has version %d", b, g.Version())
		}
		if uint32(g.ID()) != u.LocalDomainNumber || uint8(g.Domain()) != u.LocalDomain {
			return "C13/v2-dce", fmt.Sprintf("%x: DCE id %d domain %d, fields %v", b, g.ID(), g.Domain(), v2Val(u))
		}
		if !bytes.Equal(g.NodeID(), u.NodeID[:]) {
			return "C13/v2-node", fmt.Sprintf("%x: node %x want %x", b, g.NodeID(), u.NodeID)
		}
		// DCE keeps the upper 28 bits of the 60-bit timestamp
		if uint64(g.Time())&0x0FFFFFFF00000000 != u.Time {
			return "C13/v2-time", fmt.Sprintf("%x: time %x want %x", b, uint64(g.Time()), u.Time)
		}
		return "", ""
	})
	Oracle("c13.v2.bin", func(a []Val) (string, string) {
		var w uuid_v2.UUIDv2
		dirty(&w)
		if err := w.FromBytes(exact(a[0].B)); err != nil {
			return "C13/v2-reject", fmt.Sprintf("FromBytes(%x): %v", a[0].B, err)
		}
		if b, err := w.Marshal(); err != nil || !bytes.Equal(b, a[0].B) {
			return "C13/v2-bin", fmt.Sprintf("Marshal(Unmarshal(%x)) = %x", a[0].B, b)
		}
		// DCE 1.1 / RFC 4122 layout: clock_seq_hi_and_reserved carries 6 clock bits under the 2 variant bits
		if want := a[0].B[8] & 0x3f; w.Clock != want {
			if w.Clock == want&0x0f {
				return "C13/v2-clock-4bit", fmt.Sprintf("%x: clock %#x, the DCE layout (6 bits) says %#x", a[0].B, w.Clock, want)
			}
			return "C13/v2-clock", fmt.Sprintf("%x: clock %#x, the DCE layout says %#x", a[0].B, w.Clock, want)
		}
		if w.LocalDomain != a[0].B[9] || w.LocalDomainNumber != binary.BigEndian.Uint32(a[0].B[0:4]) {
			return "C13/v2-dce", fmt.Sprintf("%x: domain %d id %d", a[0].B, w.LocalDomain, w.LocalDomainNumber)
		}
		return "", ""
	})
	// v8 fields: args (variant, data15)
	Oracle("c13.v8.fields", func(a []Val) (string, string) {
		u := mkV8(a)
		b, err := u.Marshal()
		if err != nil || len(b) != 16 {
			return "C13/v8-fields", fmt.Sprintf("Marshal: %x %v", b, err)
		}
		var w uuid_v8.UUIDv8
		dirty(&w)
		if _, err := w.Unmarshal(exact(b)); err != nil || w.Data != u.Data || w.UUID.Variant != u.UUID.Variant {
			return "C13/v8-fields", fmt.Sprintf("fields %v -> %x -> %v (%v)", v8Val(u), b, v8Val(&w), err)
		}
		if g, _ := guuid.FromBytes(b); g.Version() != 8 {
			return "C13/v8-version", fmt.Sprintf("%x has version %d", b, g.Version())
		}
		return "", ""
	})
	Oracle("c13.v8.bin", func(a []Val) (string, string) {
		var w uuid_v8.UUIDv8
		dirty(&w)
		if err := w.FromBytes(exact(a[0].B)); err != nil {
			return "C13/v8-reject", fmt.Sprintf("FromBytes(%x): %v", a[0].B, err)
		}
		if b, err := w.Marshal(); err != nil || !bytes.Equal(b, a[0].B) {
			return "C13/v8-bin", fmt.Sprintf("Marshal(Unmarshal(%x)) = %x", a[0].B, b)
		}
		return "", ""
	})

	// GUID binary: args (16 bytes)
	Oracle("c13.guid.bin", func(a []Val) (string, string) {
		var g guid.GUID
		if err := fromRaw(&g, exact(a[0].B)); err != nil {
			return "C13/guid-bin-reject", fmt.Sprintf("FromRawBytes(%x): %v", a[0].B, err)
		}
		if out := g.ToBytes(); !bytes.Equal(out, a[0].B) {
			return "C13/guid-bin", fmt.Sprintf("ToBytes(FromRawBytes(%x)) = %x", a[0].B, out)
		}
		if d := g.ToFormatD(); d != dtypText(a[0].B) {
			return "C13/guid-dtyp-layout", fmt.Sprintf("%x prints as %s, MS-DTYP 2.3.4 says %s", a[0].B, d, dtypText(a[0].B))
		}
		return "", ""
	})
	// GUID fields: args (A B C D E) within the field widths
	Oracle("c13.guid.fields", func(a []Val) (string, string) {
		g := mkGUID(a)
		b := g.ToBytes()
		var w guid.GUID
		if len(b) != 16 {
			return "C13/guid-fields", fmt.Sprintf("ToBytes gives %d bytes", len(b))
		}
		if err := fromRaw(&w, exact(b)); err != nil || !w.Equal(g) {
			return "C13/guid-fields", fmt.Sprintf("%v -> %x -> %v", guidVal(g), b, guidVal(&w))
		}
		if !bytes.Equal(b, dtypBytesOfText(g.ToFormatD())) {
			return "C13/guid-dtyp-layout", fmt.Sprintf("%s packs to %x, MS-DTYP 2.3.4.2 says %x", g.ToFormatD(), b, dtypBytesOfText(g.ToFormatD()))
		}
		return "", ""
	})
	// GUID text: args (16 raw bytes, format letter, upper flag)
	Oracle("c13.guid.text", func(a []Val) (string, string) {
		f := a[1].Str()
		var g guid.GUID
		if err := fromRaw(&g, exact(a[0].B)); err != nil {
			return "C13/guid-bin-reject", fmt.Sprintf("FromRawBytes(%x): %v", a[0].B, err)
		}
		want := guidTextRef(dtypText(a[0].B), f)
		if got := guidTo(&g, f); got != want {
			return "C13/guid-print-" + f, fmt.Sprintf("%x prints as %q, want %q", a[0].B, got, want)
		}
		in := want
		if a[2].Int() != 0 {
			in = strings.ToUpper(want)
		}
		for _, via := range []string{"s", f} {
			p, err := guidFrom(in, via)
			if err != nil {
				return "C13/guid-parse-" + f + "-reject", fmt.Sprintf("parse(%s) of %q: %v", via, in, err)
			}
			if !p.Equal(&g) {
				return "C13/guid-parse-" + f, fmt.Sprintf("parse(%s) of %q = %v, want %v", via, in, guidVal(p), guidVal(&g))
			}
			if back := guidTo(p, f); back != want {
				return "C13/guid-parse-" + f, fmt.Sprintf("parse(%s) of %q prints back as %q", via, in, back)
			}
		}
		return "", ""
	})
	// NewGUID stays within the field widths: args ()
	Oracle("c13.guid.new", func(a []Val) (string, string) {
		g := guid.NewGUID()
		var w guid.GUID
		fromRaw(&w, g.ToBytes())
		if g.E>>48 != 0 || !w.Equal(g) {
			return "C13/guid-new", fmt.Sprintf("NewGUID() = %v does not survive ToBytes/FromRawBytes", guidVal(g))
		}
		return "", ""
	})

	Gen("C13", genC13)
}

// v1AgainstRFC compares the decoded fields with google/uuid's RFC 4122 accessors.
func v1AgainstRFC(b []byte, w *uuid_v1.UUIDv1) (string, string) {
	g, _ := guuid.FromBytes(b)
	if g.Version() != 1 {
		return "C13/v1-version", fmt.Sprintf("%x has version %d", b, g.Version())
	}
	if uint64(g.Time()) != w.Time {
		return "C13/v1-rfc-time", fmt.Sprintf("%x: time %x, RFC 4122 says %x", b, w.Time, uint64(g.Time()))
	}
	if !bytes.Equal(g.NodeID(), w.NodeID[:]) {
		return "C13/v1-rfc-node", fmt.Sprintf("%x: node %x, RFC 4122 says %x", b, w.NodeID, g.NodeID())
	}
	if g.ClockSequence() != int(w.ClockSeq) {
		if g.ClockSequence()&0x0fff == int(w.ClockSeq) {
			return "C13/v1-clockseq-12bit", fmt.Sprintf("%x: clock sequence %#x, RFC 4122 (14 bits) says %#x", b, w.ClockSeq, g.ClockSequence())
		}
		return "C13/v1-rfc-clockseq", fmt.Sprintf("%x: clock sequence %#x, RFC 4122 says %#x", b, w.ClockSeq, g.ClockSequence())
	}
	return "", ""
}

// ---------------------------------------------------------------- generators

var c13Decoders = []string{"uuid.unmarshal", "uuid.from_string", "v1.unmarshal", "v1.from_bytes", "v1.from_string",
	"v2.unmarshal", "v2.from_bytes", "v2.from_string", "v8.unmarshal", "v8.from_bytes", "v8.from_string", "v8.set_data",
	"v1.set_node", "v2.set_node",
	"guid.from_raw", "guid.from_string", "guid.from_n", "guid.from_d", "guid.from_b", "guid.from_p", "guid.from_x"}

func genC13(c *Ctx) {
	r := c.Rng
	binDecoders := []string{"uuid.unmarshal", "v1.unmarshal", "v1.from_bytes", "v2.unmarshal", "v2.from_bytes",
		"v8.unmarshal", "v8.from_bytes", "guid.from_raw", "v8.set_data", "v1.set_node", "v2.set_node"}
	textDecoders := []string{"uuid.from_string", "v1.from_string", "v2.from_string", "v8.from_string",
		"guid.from_string", "guid.from_n", "guid.from_d", "guid.from_b", "guid.from_p", "guid.from_x"}
	decode := func(names []string, in Val) {
		for _, n := range names {
			c.Case(n, in)
			c.Check("c13.total", S(n), in)
		}
	}
	withVersion := func(b []byte, v byte) []byte {
		m := exact(b)
		m[6] = m[6]&0x0f | v<<4
		return m
	}
	fieldsOf := func(b []byte) []Val { // the GUID fields of 16 raw bytes, computed here (not by the code under test)
		return []Val{U(uint64(binary.LittleEndian.Uint32(b[0:4]))), U(uint64(binary.LittleEndian.Uint16(b[4:6]))),
			U(uint64(binary.LittleEndian.Uint16(b[6:8]))), U(uint64(binary.BigEndian.Uint16(b[8:10]))),
			U(uint64(b[10])<<40 | uint64(b[11])<<32 | uint64(binary.BigEndian.Uint32(b[12:16])))}
	}

	// one 128-bit value through everything
	all := func(b []byte, textToo bool) {
		in := B(b)
		c.Check("c13.uuid.bin", in)
		c.Check("c13.guid.bin", in)
		c.Case("uuid.unmarshal", in)
		c.Case("guid.from_raw", in)
		for _, v := range []byte{1, 2, 8} {
			m := withVersion(b, v)
			c.Case(fmt.Sprintf("v%d.unmarshal", v), B(m))
			switch v {
			case 1:
				c.Check("c13.v1.rfc", B(m))
			case 2:
				c.Check("c13.v2.bin", B(m))
			case 8:
				c.Check("c13.v8.bin", B(m))
			}
		}
		c.Case("v1.from_bytes", in)
		c.Case("v2.from_bytes", in)
		c.Case("v8.from_bytes", in)
		gf := fieldsOf(b)
		c.Check("c13.guid.fields", gf...)
		c.Case("guid.to_bytes", gf...)
		if !textToo {
			return
		}
		up := int64(r.Intn(2))
		c.Check("c13.uuid.text", in, I(up))
		c.Check("c13.uuid.text", B(withVersion(b, []byte{1, 2, 8}[r.Intn(3)])), I(1-up))
		g, _ := guuid.FromBytes(b)
		text := g.String()
		if up != 0 {
			text = strings.ToUpper(text)
		}
		c.Case("uuid.from_string", S(text))
		c.Case("v1.from_string", S(text))
		c.Case("v2.from_string", S(text))
		c.Case("v8.from_string", S(text))
		for _, f := range guidFormats {
			c.Check("c13.guid.text", in, S(f), I(0))
			c.Check("c13.guid.text", in, S(f), I(1))
			c.Case("guid.to_"+f, gf...)
			s := guidTextRef(dtypText(b), f)
			if r.Bool() {
				s = strings.ToUpper(s)
			}
			c.Case("guid.from_string", S(s))
			c.Case("guid.from_"+f, S(s))
		}
	}

	// every single-bit pattern of the 128 bits, and its complement; all-zero, all-one
	zero := make([]byte, 16)
	ones := bytes.Repeat([]byte{0xff}, 16)
	all(zero, true)
	all(ones, true)
	for bit := 0; bit < 128; bit++ {
		b := make([]byte, 16)
		b[bit/8] = 1 << uint(bit%8)
		all(b, true)
		inv := make([]byte, 16)
		for i := range inv {
			inv[i] = ^b[i]
		}
		all(inv, bit%4 == 0)
	}
	// every value of each byte position (other bytes random)
	for pos := 0; pos < 16; pos++ {
		for v := 0; v < 256; v += c.N(5, 1) {
			b := r.Bytes(16)
			b[pos] = byte(v)
			all(b, false)
		}
	}
	// random values
	for rep := 0; rep < c.N(150, 3000); rep++ {
		all(r.Bytes(16), true)
	}
	// RFC 4122 appendix C namespaces and the test vectors of the package tests
	for _, s := range []string{uuid_v8.UUIDv8NamespaceDNS, uuid_v8.UUIDv8NamespaceURL, uuid_v8.UUIDv8NamespaceOID, uuid_v8.UUIDv8NamespaceX500,
		"19c55c02-3406-11f0-9cd2-0242ac120002", "861c3b82-3406-11f0-9cd2-0242ac120002", "00000000-0000-1000-8000-000000000000",
		"ffffffff-ffff-1fff-bfff-ffffffffffff", "12345678-1234-5678-9abc-def012345678"} {
		g := guuid.MustParse(s)
		all(g[:], true)
	}

	// field-level round trips
	edgeT := []uint64{0, 1, 0xffffffff, 0x100000000, 0xffff00000000, 0x0fff000000000000, 0x0fffffffffffffff, uuid_v1.UUIDv1Epoch,
		0x1000000000000000, 0xffffffffffffffff, 0x0fffffff00000000}
	for rep := 0; rep < c.N(400, 6000); rep++ {
		variant := uint64(r.Intn(16))
		tm := r.U64Edge()
		if r.Intn(4) == 0 {
			tm = edgeT[r.Intn(len(edgeT))]
		}
		cs := r.U64Edge() & 0xffff
		node := r.Bytes(6)
		inW := r.Intn(4) != 0 // mostly within the field widths
		if inW {
			tm &= 0x0fffffffffffffff
			cs &= 0x0fff
		}
		a := []Val{U(variant), U(tm), U(cs), B(node)}
		if inW {
			c.Check("c13.v1.fields", a...)
		}
		c.Case("v1.marshal", a...)
		c.Case("v1.string", a...)

		ldn := r.U64Edge() & 0xffffffff
		clock := uint64(r.Byte())
		ld := uint64(r.Byte())
		if inW {
			tm &= 0x0fffffff00000000
			clock &= 0x0f
		}
		a2 := []Val{U(variant), U(ldn), U(tm), U(clock), U(ld), B(node)}
		if inW {
			c.Check("c13.v2.fields", a2...)
		}
		c.Case("v2.marshal", a2...)
		c.Case("v2.string", a2...)

		data := r.Bytes(15)
		if r.Intn(8) == 0 {
			data = bytes.Repeat([]byte{[]byte{0, 0xff, 0x0f, 0xf0}[r.Intn(4)]}, 15)
		}
		c.Check("c13.v8.fields", U(variant), B(data))
		c.Case("v8.marshal", U(variant), B(data))
		c.Case("v8.string", U(variant), B(data))

		ver := uint64(r.Intn(16))
		if inW {
			c.Check("c13.uuid.fields", U(ver), U(variant), B(data))
		} else {
			ver, variant = uint64(r.Byte()), uint64(r.Byte())
		}
		c.Case("uuid.marshal", U(ver), U(variant), B(data))
		c.Case("uuid.string", U(ver), U(variant), B(data))
	}
	// every clock sequence and variant nibble of v1 (12 + 4 bits), every v2 clock/domain
	for cs := 0; cs < 1<<12; cs += c.N(7, 1) {
		c.Check("c13.v1.fields", U(uint64(cs%16)), U(r.U64()&0x0fffffffffffffff), U(uint64(cs)), B(r.Bytes(6)))
	}
	for x := 0; x < 256; x++ {
		c.Check("c13.v2.fields", U(uint64(x>>4)), U(r.U64()&0xffffffff), U(r.U64()&0x0fffffff00000000), U(uint64(x&15)), U(uint64(x)), B(r.Bytes(6)))
	}
	// v1 timestamps over the whole 60-bit range of RFC 4122 (1582-10-15 .. about 5236), pre-1970 included;
	// one in four in the present-day range 1970..2200
	for rep := 0; rep < c.N(400, 8000); rep++ {
		sec := int64(r.U64()%115292150460) - 12219292800
		if rep%4 == 0 {
			sec = int64(r.U64() % 7258118400)
		}
		if rep%16 == 1 {
			sec = []int64{-12219292800, -12219292799, -1, 0, 1, -86400, 103072857659}[r.Intn(7)]
		}
		ns := int64(r.U64() % 1000000000)
		if rep%10 == 0 {
			ns = []int64{0, 99, 100, 999999900, 999999999}[r.Intn(5)]
		}
		c.Check("c13.v1.time", I(sec), I(ns))
	}
	// histories on one UUIDv1 value: parse, set fields, parse the SAME bytes again (or others), marshal
	for rep := 0; rep < c.N(300, 6000); rep++ {
		x, y := r.Bytes(16), r.Bytes(16)
		x[6], y[6] = x[6]&0x0f|0x10, y[6]&0x0f|0x10
		pool := [][]byte{x, y, x}
		var ops []Val
		for k := 3 + r.Intn(6); k > 0; k-- {
			switch r.Intn(6) {
			case 0, 1:
				ops = append(ops, L(I(0), B(pool[r.Intn(3)])))
			case 2:
				ops = append(ops, L(I(1), U(r.U64Edge()&0x0fffffffffffffff)))
			case 3:
				ops = append(ops, L(I(2), U(r.U64Edge()&0xfff)))
			case 4:
				ops = append(ops, L(I(3), B(r.Bytes(6))))
			case 5:
				ops = append(ops, L(I(4)))
			}
		}
		ops = append(ops, L(I(0), B(x)), L(I(4)))
		c.Case("v1.ops", L(ops...))
	}
	// reused receivers
	for rep := 0; rep < c.N(300, 6000); rep++ {
		b1, b2 := r.Bytes(16), r.Bytes(16)
		if rep%3 == 0 {
			b1 = bytes.Repeat([]byte{0xff}, 16)
		}
		for _, k := range []string{"guid.from_raw", "uuid.unmarshal", "v1.from_bytes", "v2.from_bytes"} {
			if k == "v1.from_bytes" {
				b1[6], b2[6] = b1[6]&0x0f|0x10, b2[6]&0x0f|0x10
			}
			if k == "v2.from_bytes" {
				b1[6], b2[6] = b1[6]&0x0f|0x20, b2[6]&0x0f|0x20
			}
			c.Check("c13.reuse", S(k), B(b1), B(b2))
		}
	}
	// GUID fields outside the widths (E above 48 bits) only through the printers and ToBytes
	for rep := 0; rep < c.N(100, 2000); rep++ {
		a := []Val{U(r.U64Edge() & 0xffffffff), U(r.U64Edge() & 0xffff), U(r.U64Edge() & 0xffff), U(r.U64Edge() & 0xffff), U(r.U64Edge())}
		c.Case("guid.to_bytes", a...)
		for _, f := range guidFormats {
			c.Case("guid.to_"+f, a...)
		}
	}
	for rep := 0; rep < c.N(20, 200); rep++ {
		c.Check("c13.guid.new")
	}

	// ---------------- malformed binary stream
	for rep := 0; rep < c.N(4, 40); rep++ {
		b := withVersion(r.Bytes(16), []byte{1, 2, 8, 4}[rep%4])
		for _, m := range Truncations(b) {
			decode(binDecoders, B(m))
		}
		for _, extra := range []int{1, 2, 16, 17} {
			decode(binDecoders, B(append(exact(b), r.Bytes(extra)...)))
		}
		for _, m := range Corruptions(b, 16) {
			c.Case("v1.unmarshal", B(m))
			c.Case("v2.unmarshal", B(m))
			c.Case("v8.unmarshal", B(m))
		}
	}
	for n := 0; n <= 20; n++ {
		decode(binDecoders, B(r.Bytes(n)))
	}

	// ---------------- malformed text stream
	hexU := "0123456789abcdefABCDEF"
	for rep := 0; rep < c.N(6, 60); rep++ {
		b := withVersion(r.Bytes(16), []byte{1, 2, 8, 4}[rep%4])
		d := dtypText(b)
		var valid []string
		for _, f := range guidFormats {
			valid = append(valid, guidTextRef(d, f))
		}
		valid = append(valid, strings.ToUpper(valid[r.Intn(5)]))
		for _, s := range valid {
			// every truncation from either end
			for i := 0; i <= len(s); i++ {
				decode(textDecoders, S(s[:i]))
				if rep == 0 {
					decode(textDecoders, S(s[i:]))
				}
			}
			// single-character corruptions
			for k := 0; k < c.N(12, 60); k++ {
				m := []byte(s)
				junk := "gG-{}(),xX0 \t\n:_+\x00\x7f\x80\xc2\xa0\xff"
				m[r.Intn(len(m))] = junk[r.Intn(len(junk))]
				decode(textDecoders, B(m))
			}
			// insertions / deletions
			for k := 0; k < c.N(6, 30); k++ {
				p := r.Intn(len(s) + 1)
				ins := []string{"-", "0", "f", " ", "{", "}", ",", "0x", "--", " ", " ", "K", "İ"}[r.Intn(13)]
				decode(textDecoders, S(s[:p]+ins+s[p:]))
				if p < len(s) {
					decode(textDecoders, S(s[:p]+s[p+1:]))
				}
			}
			// white space around (TrimSpace), also Unicode white space
			for _, ws := range []string{" ", "\t\n", "\v\f\r ", "\u0085", " ", " ", " ", " ", "​", " ", " ",
				" ", " ", "　", "、", "\xc2", "\xa0", "\xe2\x80", "\x80\x80", "\xe2\x80\xa8\xe2", "   \t"} {
				decode(textDecoders, S(ws+s))
				decode(textDecoders, S(s+ws))
				decode(textDecoders, S(ws+s+ws))
				if len(s) > 2 {
					decode(textDecoders, S(s[:1]+ws+s[1:len(s)-1]+ws+s[len(s)-1:]))
				}
			}
		}
	}
	// hand-written boundary corpus
	for _, s := range []string{"", " ", "-", "--", "----", "{", "}", "{}", "()", "(", ")", "{ }", "( )", "{{}}", "0-0-0-0-0", "{0-0-0-0-0}", "(0-0-0-0-0)",
		"1-2-3-4-5", "ffffffff-ffff-ffff-ffff-ffffffffffffffff", "100000000-0-0-0-0", "0-10000-0-0-0", "0-0-0-0-10000000000000000",
		"0-0-0-0-ffffffffffffffff", "+1-0-0-0-0", "0x1-0-0-0-0", "0_1-0-0-0-0", "-0-0-0-0", "0-0-0-0-", "0-0-0-0-0-0", "0-0-0-0",
		"{0-0-0-0-0", "0-0-0-0-0}", "{0-0-0-0-0)", "(0-0-0-0-0}", " {0-0-0-0-0} ", "{ 0-0-0-0-0 }", "{ 0-0-0-0-0 }", "( 0-0-0-0-0)",
		"K", "{K}", "İ", "\xff", "{\xff}", "000000000000000000000000000000000", "0000000000000000000000000000000",
		"00000000000000000000000000000000", "0000000000000000000000000000000g", "0000000-0000000000000000000000000", "+0000000000000000000000000000000",
		"00000000-0000-0000-0000-000000000000", "-00000000000000000000000000000000-", "0-0-0-0-0-0-0-0-0-0-0-0-0-0-0-0-0-0-0-0-0-0-0-0-0-0-0-0-0-0-0-0-",
		"0000000000000000-0000000000000000", "--------------------------------", "00000000-0000-0000-0000-00000000000K",
		"{0x00000000,0x0000,0x0000,{0x00,0x00,0x00,0x00,0x00,0x00,0x00,0x00}}", "{0X12345678,0X1234,0X5678,{0X9A,0XBC,0XDE,0XF0,0X12,0X34,0X56,0X78}}",
		"{0x12345678,0x1234,0x5678,{0x9a,0xbc,0xde,0xf0,0x12,0x34,0x56,0x78}", "0x12345678,0x1234,0x5678,0x9a,0xbc,0xde,0xf0,0x12,0x34,0x56,0x78",
		"{0x12345678,0x1234,0x5678,{0x9a,0xbc,0xde,0xf0,0x12,0x34,0x56}}", "{0x12345678,0x1234,0x5678,{0x9a,0xbc,0xde,0xf0,0x12,0x34,0x56,0x78,0x9a}}",
		" {0x12345678,0x1234,0x5678,{0x9a,0xbc,0xde,0xf0,0x12,0x34,0x56,0x78}}\n", "{0x12345678,0x1234,0x5678,{0x9a,0xbc,0xde,0xf0,0x12,0x34,0x56,0x7}}",
		"{{{0x12345678,0x1234,0x5678,0x9a,0xbc,0xde,0xf0,0x12,0x34,0x56,0x78"} {
		decode(textDecoders, S(s))
	}
	for rep := 0; rep < c.N(300, 6000); rep++ {
		n := r.Pick(0, 1, 2, 5, 31, 32, 33, 35, 36, 37, 38, 40, 68)
		decode(textDecoders, S(r.StringOver(hexU+"-", n)))
		decode(textDecoders[4:], S(r.StringOver("0aF-{}(),x ", r.Intn(12))))
	}
	// hyphens anywhere in 32 hex digits (the uuid parsers strip them)
	for rep := 0; rep < c.N(60, 1000); rep++ {
		s := r.StringOver(hexU, 32)
		for k := r.Intn(6); k > 0; k-- {
			p := r.Intn(len(s) + 1)
			s = s[:p] + "-" + s[p:]
		}
		decode(textDecoders[:4], S(s))
	}
}
