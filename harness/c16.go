//go:build c16 || allprops

package main

import (
	"encoding/binary"
	"fmt"
	"strings"

	"github.com/TheManticoreProject/Manticore/network/ldap"
)

func init() {
	Impl("sid.parse", func(a []Val) Val { return S(ldap.ParseSIDFromBytes(exact(a[0].B))) })
	Impl("dn.domain", func(a []Val) Val { return S(ldap.GetDomainFromDistinguishedName(a[0].Str())) })

	// args: authority (n), sub-authorities (list of n), suffix bytes
	Oracle("c16.sid", func(a []Val) (string, string) {
		auth := a[0].Uint()
		var subs []uint32
		for _, s := range a[1].L {
			subs = append(subs, uint32(s.Uint()))
		}
		bs := sidEncode(auth, subs)
		bs = append(bs, a[2].B...)
		want := fmt.Sprintf("S-1-%d", auth)
		for _, s := range subs {
			want += fmt.Sprintf("-%d", s)
		}
		got := ldap.ParseSIDFromBytes(exact(bs))
		if got != want {
			return fmt.Sprintf("C16/sid/count-%d", len(subs)), fmt.Sprintf("sid %x: got %q want %q", bs, got, want)
		}
		return "", ""
	})
	// args: list of (attr, value) pairs
	Oracle("c16.dn", func(a []Val) (string, string) {
		var parts, dcs []string
		for _, r := range a[0].L {
			attr, val := r.L[0].Str(), r.L[1].Str()
			parts = append(parts, attr+"="+dnEscape(val))
			if attr == "DC" {
				dcs = append(dcs, val)
			}
		}
		dn := strings.Join(parts, ",")
		want := strings.Join(dcs, ".")
		got := ldap.GetDomainFromDistinguishedName(dn)
		if got != want {
			return "C16/dn", fmt.Sprintf("dn %q: got %q want %q", dn, got, want)
		}
		return "", ""
	})
	Gen("C16", genC16)
}

func sidEncode(auth uint64, subs []uint32) []byte {
	bs := []byte{1, byte(len(subs)), byte(auth >> 40), byte(auth >> 32), byte(auth >> 24), byte(auth >> 16), byte(auth >> 8), byte(auth)}
	for _, s := range subs {
		bs = binary.LittleEndian.AppendUint32(bs, s)
	}
	return bs
}

func dnEscape(v string) string {
	var sb strings.Builder
	for i := 0; i < len(v); i++ {
		// control characters the way Active Directory renders them: backslash and two hexadecimal digits ("\\0A")
		// (Spec/C16.v escape_hx with hx c := c < 32)
		if v[i] < 0x20 {
			sb.WriteByte('\\')
			sb.WriteByte("0123456789ABCDEF"[v[i]>>4])
			sb.WriteByte("0123456789ABCDEF"[v[i]&15])
			continue
		}
		switch v[i] {
		case ',', '\\', '+', '"', '<', '>', ';', '=':
			sb.WriteByte('\\')
		}
		sb.WriteByte(v[i])
	}
	return sb.String()
}

func genC16(c *Ctx) {
	r := c.Rng
	edge32 := []uint32{0, 1, 9, 10, 99, 100, 500, 512, 0x7fffffff, 0x80000000, 0xffffffff, 1000000000, 4294967295}
	// structured SIDs: every count 0..15 exhaustively, several authorities each
	for cnt := 0; cnt <= 15; cnt++ {
		for rep := 0; rep < c.N(8, 80); rep++ {
			auth := r.U64Edge() & 0xffffffffffff
			if rep == 0 {
				auth = 5
			}
			if rep == 1 {
				auth = 0xffffffffffff
			}
			subs := make([]Val, cnt)
			raw := make([]uint32, cnt)
			for i := range subs {
				v := uint32(r.U64Edge())
				if r.Intn(3) == 0 {
					v = edge32[r.Intn(len(edge32))]
				}
				raw[i] = v
				subs[i] = U(uint64(v))
			}
			suffix := r.Bytes(r.Pick(0, 0, 1, 3, 4, 7))
			c.Check("c16.sid", U(auth), L(subs...), B(suffix))
			c.Case("sid.parse", B(append(sidEncode(auth, raw), suffix...)))
		}
	}
	// malformed stream: every truncation and single-byte corruption of a few valid SIDs, random bytes
	for rep := 0; rep < c.N(6, 40); rep++ {
		cnt := r.Intn(6)
		raw := make([]uint32, cnt)
		for i := range raw {
			raw[i] = uint32(r.U64())
		}
		bs := sidEncode(r.U64()&0xffffffffffff, raw)
		for cut := 0; cut <= len(bs); cut++ {
			c.Case("sid.parse", B(bs[:cut]))
		}
		for pos := 0; pos < len(bs) && pos < 10; pos++ {
			for _, v := range []byte{0, 1, 2, 0x7f, 0x80, 0xff} {
				m := append([]byte{}, bs...)
				m[pos] = v
				c.Case("sid.parse", B(m))
			}
		}
	}
	for rep := 0; rep < c.N(100, 2000); rep++ {
		b := r.Bytes(r.Intn(40))
		if len(b) > 0 && r.Bool() {
			b[0] = 1
		}
		c.Case("sid.parse", B(b))
	}

	// DNs
	attrs := []string{"CN", "OU", "DC", "DC", "DC", "O", "L", "dc", "DCX", "D", "UID"}
	alpha := "abcXYZ019 -_.,\\=+\"<>;#DC"
	for rep := 0; rep < c.N(400, 6000); rep++ {
		n := r.Intn(7)
		var rs []Val
		var parts []string
		for i := 0; i < n; i++ {
			attr := attrs[r.Intn(len(attrs))]
			var val string
			if attr == "DC" {
				val = r.StringOver("abcdefgh0123-", r.Intn(8))
			} else {
				val = r.StringOver(alpha, r.Intn(10))
				if r.Intn(6) == 0 {
					val += ",DC=evil"
				}
				// values ending in (or containing) a hex-escaped control character, a backslash or a comma: the escape
				// sequence then stands directly before the separating comma
				switch r.Intn(8) {
				case 0:
					val += "\n"
				case 1:
					val += "\r"
				case 2:
					val += "\r\n"
				case 3:
					val = "a\nCNF:" + val
				case 4:
					val += "\\"
				case 5:
					val += ","
				}
			}
			rs = append(rs, L(S(attr), S(val)))
			parts = append(parts, attr+"="+dnEscape(val))
		}
		c.Check("c16.dn", L(rs...))
		c.Case("dn.domain", S(strings.Join(parts, ",")))
	}
	// raw strings (including dangling backslashes, empty parts)
	for rep := 0; rep < c.N(300, 5000); rep++ {
		c.Case("dn.domain", S(r.StringOver("DC=,\\a.b", r.Intn(24))))
	}
	// raw strings built from tokens (escapes of every form next to separators and DC prefixes)
	toks := []string{"DC=", "DC=", "CN=", ",", ",", "\\", "\\,", "\\\\", "\\0A", "\\0D", "\\2C", "\\5C", "\\ab", "a", "b", "0", "D", ".", "=", "dc=", " "}
	for rep := 0; rep < c.N(400, 6000); rep++ {
		var sb strings.Builder
		for i, n := 0, r.Intn(10); i < n; i++ {
			sb.WriteString(toks[r.Intn(len(toks))])
		}
		c.Case("dn.domain", S(sb.String()))
	}
	for _, s := range []string{"CN=j\\0D,DC=example,DC=com", "OU=S\\0A,DC=corp,DC=example,DC=com", "CN=a\\2C,DC=x", "CN=a\\5C,DC=x", "CN=a\\\\,DC=x", "CN=a\\,DC=x,DC=y", "DC=a", "DC=a,", "DC=a,DC=", "\\", "DC=a\\", "DC=a\\,DC=b", "CN=x\\\\,DC=b", "DC=.,DC=."} {
		c.Case("dn.domain", S(s))
	}
}
