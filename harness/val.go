package main

import (
	"encoding/hex"
	"fmt"
	"math/big"
	"strings"
)

// Val mirrors coq/Prim/Val.v: the observable values exchanged with the model.
type Val struct {
	K byte // 'x' bytes, 'n' number, 'l' list, 'E' error, 'P' panic
	B []byte
	N *big.Int
	L []Val
}

func B(b []byte) Val     { trackOutput(b); return Val{K: 'x', B: append([]byte{}, b...)} }
func S(s string) Val     { return Val{K: 'x', B: []byte(s)} }
func I(i int64) Val      { return Val{K: 'n', N: big.NewInt(i)} }
func U(u uint64) Val     { return Val{K: 'n', N: new(big.Int).SetUint64(u)} }
func Big(b *big.Int) Val { return Val{K: 'n', N: new(big.Int).Set(b)} }
func L(vs ...Val) Val    { return Val{K: 'l', L: append([]Val{}, vs...)} }
func Bool(b bool) Val {
	if b {
		return I(1)
	}
	return I(0)
}
func VErr() Val   { return Val{K: 'E'} }
func VPanic() Val { return Val{K: 'P'} }

func (v Val) String() string {
	switch v.K {
	case 'x':
		return "x" + hex.EncodeToString(v.B)
	case 'n':
		return "n" + v.N.String()
	case 'l':
		parts := make([]string, len(v.L))
		for i, e := range v.L {
			parts[i] = e.String()
		}
		return "(" + strings.Join(parts, " ") + ")"
	case 'E':
		return "E"
	case 'P':
		return "P"
	}
	return "?"
}

func (v Val) Bytes() []byte { return v.B }
func (v Val) Str() string   { return string(v.B) }
func (v Val) Int() int64    { return v.N.Int64() }
func (v Val) Uint() uint64  { return v.N.Uint64() }
func (v Val) IsErr() bool   { return v.K == 'E' }
func (v Val) IsPanic() bool { return v.K == 'P' }

// ParseVal parses the textual form produced by String.
func ParseVal(s string) (Val, error) {
	toks := tokenize(s)
	v, rest, err := parseToks(toks)
	if err != nil {
		return Val{}, err
	}
	if len(rest) != 0 {
		return Val{}, fmt.Errorf("trailing tokens")
	}
	return v, nil
}

func tokenize(s string) []string {
	s = strings.ReplaceAll(s, "(", " ( ")
	s = strings.ReplaceAll(s, ")", " ) ")
	return strings.Fields(s)
}

func parseToks(t []string) (Val, []string, error) {
	if len(t) == 0 {
		return Val{}, nil, fmt.Errorf("empty")
	}
	h := t[0]
	switch {
	case h == "(":
		t = t[1:]
		var l []Val
		for len(t) > 0 && t[0] != ")" {
			v, r, err := parseToks(t)
			if err != nil {
				return Val{}, nil, err
			}
			l = append(l, v)
			t = r
		}
		if len(t) == 0 {
			return Val{}, nil, fmt.Errorf("unclosed")
		}
		return L(l...), t[1:], nil
	case h == "E":
		return VErr(), t[1:], nil
	case h == "P":
		return VPanic(), t[1:], nil
	case h[0] == 'x':
		b, err := hex.DecodeString(h[1:])
		if err != nil {
			return Val{}, nil, err
		}
		return B(b), t[1:], nil
	case h[0] == 'n':
		n, ok := new(big.Int).SetString(h[1:], 10)
		if !ok {
			return Val{}, nil, fmt.Errorf("bad number %q", h)
		}
		return Big(n), t[1:], nil
	}
	return Val{}, nil, fmt.Errorf("bad token %q", h)
}
