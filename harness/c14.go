//go:build c14 || allprops

package main

// C14 — key-credential blobs (windows/keycredential/**): Impl runners for every modelled entry
// point, Go-side oracles stating the property directly on the real code, generators.

import (
	"bytes"
	"crypto/sha256"
	"encoding/base64"
	"encoding/binary"
	"encoding/hex"
	"fmt"
	"reflect"
	"strings"
	"time"

	"github.com/TheManticoreProject/Manticore/windows/guid"
	kcl "github.com/TheManticoreProject/Manticore/windows/keycredential"
	kccrypto "github.com/TheManticoreProject/Manticore/windows/keycredential/crypto"
	"github.com/TheManticoreProject/Manticore/windows/keycredential/key"
	kcutils "github.com/TheManticoreProject/Manticore/windows/keycredential/utils"
)

// The tick count that the model's sentinel clock (Unix second 1, nanosecond 1) yields for NewDateTime(0).
const c14NowTicks = 116444736010000000

// ---------------------------------------------------------------- Val <-> Go structures

func c14Ver(v Val) key.KeyCredentialVersion { return key.KeyCredentialVersion{Value: uint32(v.Uint())} }

// rsa: (keysize exponent modulus prime1 prime2)
func c14RsaOf(v Val) kccrypto.RSAKeyMaterial {
	return kccrypto.RSAKeyMaterial{KeySize: uint32(v.L[0].Uint()), Exponent: uint32(v.L[1].Uint()),
		Modulus: exact(v.L[2].B), Prime1: exact(v.L[3].B), Prime2: exact(v.L[4].B)}
}
func c14RsaVal(rk *kccrypto.RSAKeyMaterial) Val {
	return L(U(uint64(rk.KeySize)), U(uint64(rk.Exponent)), B(rk.Modulus), B(rk.Prime1), B(rk.Prime2))
}

// cki: (version flags volumetype supportsnotification fekkeyversion strength reserved extended rawbytessize)
func c14CkiOf(v Val) key.CustomKeyInformation {
	c := key.CustomKeyInformation{Version: int(v.L[0].Uint()), SupportsNotification: v.L[3].Uint() != 0,
		FekKeyVersion: uint8(v.L[4].Uint()), Reserved: exact(v.L[6].B), EncodedExtendedCKI: exact(v.L[7].B),
		RawBytesSize: uint32(v.L[8].Uint())}
	c.Flags.Value = uint8(v.L[1].Uint())
	c.VolumeType.Value = uint8(v.L[2].Uint())
	c.Strength.Value = uint32(v.L[5].Uint())
	return c
}
func c14CkiVal(c *key.CustomKeyInformation) Val {
	return L(U(uint64(c.Version)), U(uint64(c.Flags.Value)), U(uint64(c.VolumeType.Value)), Bool(c.SupportsNotification),
		U(uint64(c.FekKeyVersion)), U(uint64(c.Strength.Value)), B(c.Reserved), B(c.EncodedExtendedCKI), U(uint64(c.RawBytesSize)))
}

func c14Guid(b []byte) guid.GUID {
	var g guid.GUID
	dirty(&g)
	g.FromRawBytes(exact(b))
	return g
}

// kc: (version identifier keyhash rsa usage legacyusage source cki deviceid(16 bytes) lastlogon-ticks creation-ticks)
func c14KcOf(v Val) *kcl.KeyCredential {
	kc := &kcl.KeyCredential{
		Version:        c14Ver(v.L[0]),
		Identifier:     v.L[1].Str(),
		KeyHash:        exact(v.L[2].B),
		RawKeyMaterial: c14RsaOf(v.L[3]),
		Usage:          key.KeyUsage{Value: uint8(v.L[4].Uint())},
		LegacyUsage:    v.L[5].Str(),
		Source:         key.KeySource(int(v.L[6].Uint())),
		CustomKeyInfo:  c14CkiOf(v.L[7]),
		DeviceId:       c14Guid(v.L[8].B),
		LastLogonTime:  kcutils.DateTime{Ticks: v.L[9].Uint()},
		CreationTime:   kcutils.DateTime{Ticks: v.L[10].Uint()},
	}
	return kc
}

func c14IsNow(dt kcutils.DateTime) bool {
	if dt.Time.IsZero() {
		return false
	}
	d := time.Since(dt.Time)
	return d > -time.Minute && d < time.Minute
}

// DateTime observation: () when the code substituted the clock (wire tick count 0), else (ticks sec nsec)
func c14DT(dt kcutils.DateTime) Val {
	if c14IsNow(dt) {
		return L()
	}
	return L(U(dt.Ticks), I(dt.Time.Unix()), I(int64(dt.Time.Nanosecond())))
}

func c14KcVal(kc *kcl.KeyCredential) Val {
	return L(U(uint64(kc.Version.Value)), S(kc.Identifier), B(kc.KeyHash), c14RsaVal(&kc.RawKeyMaterial),
		U(uint64(kc.Usage.Value)), S(kc.LegacyUsage), U(uint64(kc.Source)), c14CkiVal(&kc.CustomKeyInfo),
		B(kc.DeviceId.ToBytes()), c14DT(kc.LastLogonTime), c14DT(kc.CreationTime))
}

// KeyCredentialVersion.FromBytes returned nothing before the repair and returns an error after it.
func c14VerFromBytes(k *key.KeyCredentialVersion, b []byte) error {
	out := reflect.ValueOf(k).MethodByName("FromBytes").Call([]reflect.Value{reflect.ValueOf(b)})
	if len(out) == 1 && !out[0].IsNil() {
		return out[0].Interface().(error)
	}
	return nil
}

// the clock is not an input: a DateTime that was read from the clock is replaced by the model's sentinel
func c14Unclock(kc *kcl.KeyCredential) {
	if c14IsNow(kc.LastLogonTime) {
		kc.LastLogonTime.Ticks = c14NowTicks
	}
	if c14IsNow(kc.CreationTime) {
		kc.CreationTime.Ticks = c14NowTicks
	}
}

// ---------------------------------------------------------------- independent reference (MS-ADTS 2.2.20)

func c14RefEntry(t byte, v []byte) []byte {
	out := binary.LittleEndian.AppendUint16(nil, uint16(len(v)))
	out = append(out, t)
	return append(out, v...)
}

// BCRYPT_RSAKEY_BLOB with a 4-byte public exponent
func c14RefRsa(keysize, exponent uint32, mod, p1, p2 []byte) []byte {
	out := []byte("RSA1")
	out = binary.LittleEndian.AppendUint32(out, keysize)
	out = binary.LittleEndian.AppendUint32(out, 4)
	out = binary.LittleEndian.AppendUint32(out, uint32(len(mod)))
	out = binary.LittleEndian.AppendUint32(out, uint32(len(p1)))
	out = binary.LittleEndian.AppendUint32(out, uint32(len(p2)))
	out = binary.BigEndian.AppendUint32(out, exponent)
	out = append(out, mod...)
	out = append(out, p1...)
	return append(out, p2...)
}

// KEYCREDENTIALLINK_BLOB of a fresh NGC credential sourced from AD; returns the blob and the offset of the
// first byte covered by the key hash
func c14RefBlob(version uint32, km []byte, device []byte, ll, cr uint64) ([]byte, int) {
	id := sha256.Sum256(km)
	tail := c14RefEntry(3, km)
	tail = append(tail, c14RefEntry(4, []byte{1})...)
	tail = append(tail, c14RefEntry(5, []byte{0})...)
	tail = append(tail, c14RefEntry(6, device)...)
	tail = append(tail, c14RefEntry(7, []byte{1, 0})...)
	tail = append(tail, c14RefEntry(8, binary.LittleEndian.AppendUint64(nil, ll))...)
	tail = append(tail, c14RefEntry(9, binary.LittleEndian.AppendUint64(nil, cr))...)
	h := sha256.Sum256(tail)
	out := binary.LittleEndian.AppendUint32(nil, version)
	out = append(out, c14RefEntry(1, id[:])...)
	out = append(out, c14RefEntry(2, h[:])...)
	covered := len(out)
	return append(out, tail...), covered
}

func c14RefIdentifier(version uint32, km []byte) string {
	id := sha256.Sum256(km)
	if version == 0 || version == 0x100 {
		return hex.EncodeToString(id[:])
	}
	return base64.StdEncoding.EncodeToString(id[:])
}

// args of the structured oracles: (version rsa device(16) lastlogon-ticks creation-ticks)
func c14Build(a []Val) (*kcl.KeyCredential, kccrypto.RSAKeyMaterial) {
	ver := c14Ver(a[0])
	km := c14RsaOf(a[1])
	id := kcutils.ComputeKeyIdentifier(km.ToBytes(), ver)
	kc := kcl.NewKeyCredential(ver, id, km, c14Guid(a[2].B), kcutils.NewDateTime(a[3].Uint()), kcutils.NewDateTime(a[4].Uint()))
	return kc, km
}

func c14Flip(b []byte, bit int) []byte {
	m := exact(b)
	m[bit/8] ^= 1 << uint(bit%8)
	return m
}

// outcome of presenting a blob to the parser and the integrity check: "panic", "error", "reject", "accept"
func c14Present(blob []byte) (res string) {
	defer func() {
		if r := recover(); r != nil {
			res = "panic"
		}
	}()
	kc := &kcl.KeyCredential{}
	if err := kc.FromBytes(exact(blob)); err != nil {
		return "error"
	}
	if kc.CheckIntegrity() {
		return "accept"
	}
	return "reject"
}

func init() {
	// ------------------------------------------------------------ implementation entry points
	Impl("c14.ver.from_bytes", func(a []Val) Val {
		var k key.KeyCredentialVersion
		if err := c14VerFromBytes(&k, exact(a[0].B)); err != nil {
			return VErr()
		}
		return U(uint64(k.Value))
	})
	Impl("c14.ver.to_bytes", func(a []Val) Val {
		k := c14Ver(a[0])
		return B(k.ToBytes())
	})
	Impl("c14.rsa.from_bytes", func(a []Val) Val {
		rk := &kccrypto.RSAKeyMaterial{}
		if err := rk.FromBytes(exact(a[0].B)); err != nil {
			return VErr()
		}
		return c14RsaVal(rk)
	})
	Impl("c14.rsa.to_bytes", func(a []Val) Val {
		rk := c14RsaOf(a[0])
		return B(rk.ToBytes())
	})
	// (error? fields): the structure is observed even when an error is returned, KeyCredential.FromBytes ignores it
	Impl("c14.cki.from_bytes", func(a []Val) Val {
		c := &key.CustomKeyInformation{}
		err := c.FromBytes(exact(a[0].B), c14Ver(a[1]))
		return L(Bool(err != nil), c14CkiVal(c))
	})
	// two blobs parsed into the same structure (fields of the first survive where the second is shorter)
	Impl("c14.cki.from_bytes2", func(a []Val) Val {
		c := &key.CustomKeyInformation{}
		c.FromBytes(exact(a[0].B), c14Ver(a[2]))
		err := c.FromBytes(exact(a[1].B), c14Ver(a[2]))
		return L(Bool(err != nil), c14CkiVal(c))
	})
	Impl("c14.cki.to_bytes", func(a []Val) Val {
		c := c14CkiOf(a[0])
		return B(c.ToBytes())
	})
	Impl("c14.id.to_binary", func(a []Val) Val {
		b, err := kcutils.ConvertToBinaryIdentifier(a[0].Str(), c14Ver(a[1]))
		if err != nil {
			return VErr()
		}
		return B(b)
	})
	Impl("c14.id.from_binary", func(a []Val) Val {
		return S(kcutils.ConvertFromBinaryIdentifier(exact(a[0].B), c14Ver(a[1])))
	})
	Impl("c14.key_identifier", func(a []Val) Val {
		return S(kcutils.ComputeKeyIdentifier(exact(a[0].B), c14Ver(a[1])))
	})
	Impl("c14.compute_hash", func(a []Val) Val { return B(kcutils.ComputeHash(exact(a[0].B))) })
	Impl("c14.kc.to_bytes", func(a []Val) Val {
		b, err := c14KcOf(a[0]).ToBytes()
		if err != nil {
			return VErr()
		}
		return B(b)
	})
	Impl("c14.kc.from_bytes", func(a []Val) Val {
		kc := &kcl.KeyCredential{}
		if err := kc.FromBytes(exact(a[0].B)); err != nil {
			return VErr()
		}
		return c14KcVal(kc)
	})
	Impl("c14.kc.parse_dn", func(a []Val) Val {
		kc := &kcl.KeyCredential{}
		if err := kc.ParseDNWithBinary(kcl.DNWithBinary{DistinguishedName: a[0].Str(), BinaryData: exact(a[1].B)}); err != nil {
			return VErr()
		}
		return c14KcVal(kc)
	})
	Impl("c14.kc.reserialize", func(a []Val) Val {
		kc := &kcl.KeyCredential{}
		if err := kc.FromBytes(exact(a[0].B)); err != nil {
			return VErr()
		}
		c14Unclock(kc)
		b, err := kc.ToBytes()
		if err != nil {
			return L(VErr())
		}
		return B(b)
	})
	// FromBytes then CheckIntegrity
	Impl("c14.kc.verify", func(a []Val) Val {
		kc := &kcl.KeyCredential{}
		if err := kc.FromBytes(exact(a[0].B)); err != nil {
			return VErr()
		}
		return Bool(kc.CheckIntegrity())
	})
	// ComputeKeyHash / CheckIntegrity of a structure holding the given raw bytes (and stored hash)
	Impl("c14.kc.hash_raw", func(a []Val) Val {
		kc := &kcl.KeyCredential{RawBytes: exact(a[0].B)}
		return B(kc.ComputeKeyHash())
	})
	Impl("c14.kc.integrity", func(a []Val) Val {
		kc := &kcl.KeyCredential{RawBytes: exact(a[0].B), KeyHash: exact(a[1].B)}
		return Bool(kc.CheckIntegrity())
	})
	// NewKeyCredential(version, identifier, rsa, device, NewDateTime(ll), NewDateTime(cr)): (keyhash blob integrity)
	Impl("c14.kc.new", func(a []Val) Val {
		kc := kcl.NewKeyCredential(c14Ver(a[0]), a[1].Str(), c14RsaOf(a[2]), c14Guid(a[3].B),
			kcutils.NewDateTime(a[4].Uint()), kcutils.NewDateTime(a[5].Uint()))
		h := B(kc.KeyHash)
		blob, err := kc.ToBytes()
		if err != nil {
			return L(h, VErr())
		}
		return L(h, B(blob), Bool(kc.CheckIntegrity()))
	})
	Impl("c14.dn.to_string", func(a []Val) Val {
		d := kcl.DNWithBinary{DistinguishedName: a[0].Str(), BinaryData: exact(a[1].B)}
		return S(d.ToString())
	})
	Impl("c14.dn.parse", func(a []Val) Val {
		d := &kcl.DNWithBinary{}
		if err := d.Parse(exact(a[0].B)); err != nil {
			return VErr()
		}
		return L(S(d.DistinguishedName), B(d.BinaryData))
	})

	// ------------------------------------------------------------ oracles
	// Totality of every decoding entry point: args (entry name, argument list).
	Oracle("c14.total", func(a []Val) (string, string) {
		name := a[0].Str()
		v := callImpl(impls[name], a[1].L)
		if v.IsPanic() {
			return "C14/panic/" + strings.TrimPrefix(name, "c14."), fmt.Sprintf("%s panics on input %s", name, a[1].String())
		}
		return "", ""
	})

	// Round trip: args (version rsa device lastlogon-ticks creation-ticks), ticks non-zero.
	Oracle("c14.roundtrip", func(a []Val) (string, string) {
		kc, km := c14Build(a)
		ver := uint32(a[0].Uint())
		kmBytes := c14RefRsa(km.KeySize, km.Exponent, km.Modulus, km.Prime1, km.Prime2)
		blob, err := kc.ToBytes()
		if len(kmBytes) > 0xffff {
			// the 16-bit entry length cannot describe this key: it must be refused, not mis-encoded
			if err == nil {
				return "C14/entry-over-64k", fmt.Sprintf("key material of %d bytes serialised without error into a blob of %d bytes", len(kmBytes), len(blob))
			}
			return "", ""
		}
		if err != nil {
			return "C14/to-bytes-error", fmt.Sprintf("ToBytes: %v", err)
		}
		want, _ := c14RefBlob(ver, kmBytes, a[2].B, a[3].Uint(), a[4].Uint())
		if !bytes.Equal(blob, want) {
			return "C14/layout", fmt.Sprintf("ToBytes = %x, MS-ADTS reference = %x", blob, want)
		}
		if !kc.CheckIntegrity() {
			return "C14/integrity-built", "the credential just built fails its own integrity check"
		}
		p := &kcl.KeyCredential{}
		if err := p.FromBytes(exact(blob)); err != nil {
			return "C14/parse-own-blob", fmt.Sprintf("FromBytes(ToBytes) fails: %v (blob %x)", err, blob)
		}
		bad := func(f string, got, want interface{}) (string, string) {
			return "C14/roundtrip/" + f, fmt.Sprintf("%s: parsed %v, built %v (blob %x)", f, got, want, blob)
		}
		if p.Version.Value != ver {
			return bad("version", p.Version.Value, ver)
		}
		if p.Identifier != c14RefIdentifier(ver, kmBytes) || p.Identifier != kc.Identifier {
			return bad("identifier", p.Identifier, kc.Identifier)
		}
		if !bytes.Equal(p.KeyHash, kc.KeyHash) {
			return bad("keyhash", p.KeyHash, kc.KeyHash)
		}
		r := p.RawKeyMaterial
		if r.KeySize != km.KeySize || r.Exponent != km.Exponent || !bytes.Equal(r.Modulus, km.Modulus) ||
			!bytes.Equal(r.Prime1, km.Prime1) || !bytes.Equal(r.Prime2, km.Prime2) {
			return bad("keymaterial", c14RsaVal(&r).String(), c14RsaVal(&km).String())
		}
		if p.Usage.Value != kc.Usage.Value || p.LegacyUsage != kc.LegacyUsage {
			return bad("usage", p.Usage.Value, kc.Usage.Value)
		}
		if p.Source != kc.Source {
			return bad("source", p.Source, kc.Source)
		}
		if !bytes.Equal(p.DeviceId.ToBytes(), a[2].B) || !p.DeviceId.Equal(&kc.DeviceId) {
			return bad("deviceid", p.DeviceId.ToFormatD(), kc.DeviceId.ToFormatD())
		}
		if p.CustomKeyInfo.Version != kc.CustomKeyInfo.Version || p.CustomKeyInfo.Flags.Value != kc.CustomKeyInfo.Flags.Value {
			return bad("customkeyinfo", c14CkiVal(&p.CustomKeyInfo).String(), c14CkiVal(&kc.CustomKeyInfo).String())
		}
		if p.LastLogonTime.Ticks != a[3].Uint() || !p.LastLogonTime.Time.Equal(kc.LastLogonTime.Time) {
			return bad("lastlogon", p.LastLogonTime.Ticks, a[3].Uint())
		}
		if p.CreationTime.Ticks != a[4].Uint() || !p.CreationTime.Time.Equal(kc.CreationTime.Time) {
			return bad("creation", p.CreationTime.Ticks, a[4].Uint())
		}
		again, err := p.ToBytes()
		if err != nil || !bytes.Equal(again, blob) {
			return "C14/reserialise", fmt.Sprintf("ToBytes(FromBytes(b)) = %x (err %v), b = %x", again, err, blob)
		}
		if !p.CheckIntegrity() {
			return "C14/integrity-parsed", fmt.Sprintf("the parsed credential fails the integrity check (blob %x)", blob)
		}
		return "", ""
	})

	// Tampering: args (version rsa device ll cr).  EVERY single-bit corruption of the serialised blob is
	// presented to FromBytes + CheckIntegrity: none may panic; every one at or after the stored hash value
	// (the hash itself and all entries it covers) must be refused.
	Oracle("c14.tamper", func(a []Val) (string, string) {
		kc, km := c14Build(a)
		blob, err := kc.ToBytes()
		if err != nil {
			return "", "" // c14.roundtrip reports this
		}
		kmBytes := c14RefRsa(km.KeySize, km.Exponent, km.Modulus, km.Prime1, km.Prime2)
		if len(kmBytes) > 0xffff {
			return "", ""
		}
		_, covered := c14RefBlob(uint32(a[0].Uint()), kmBytes, a[2].B, a[3].Uint(), a[4].Uint())
		if c14Present(blob) != "accept" {
			return "C14/integrity-parsed", fmt.Sprintf("untouched blob is not accepted (%s)", c14Present(blob))
		}
		for bit := 0; bit < 8*len(blob); bit++ {
			m := c14Flip(blob, bit)
			switch c14Present(m) {
			case "panic":
				return "C14/tamper-panic", fmt.Sprintf("bit %d (byte %d) flipped: FromBytes/CheckIntegrity panics; blob %x", bit, bit/8, m)
			case "accept":
				if bit/8 >= covered-32 {
					return "C14/tamper-accepted", fmt.Sprintf("bit %d (byte %d, covered region starts at %d) flipped and the integrity check still passes; blob %x", bit, bit/8, covered, m)
				}
			}
		}
		return "", ""
	})

	// RSA key material alone: args (rsa)
	Oracle("c14.rsa", func(a []Val) (string, string) {
		km := c14RsaOf(a[0])
		b := km.ToBytes()
		if want := c14RefRsa(km.KeySize, km.Exponent, km.Modulus, km.Prime1, km.Prime2); !bytes.Equal(b, want) {
			return "C14/rsa-layout", fmt.Sprintf("ToBytes = %x, BCRYPT_RSAKEY_BLOB reference = %x", b, want)
		}
		p := &kccrypto.RSAKeyMaterial{}
		if err := p.FromBytes(exact(b)); err != nil {
			return "C14/rsa-roundtrip", fmt.Sprintf("FromBytes(ToBytes) fails: %v", err)
		}
		if p.KeySize != km.KeySize || p.Exponent != km.Exponent || !bytes.Equal(p.Modulus, km.Modulus) ||
			!bytes.Equal(p.Prime1, km.Prime1) || !bytes.Equal(p.Prime2, km.Prime2) || !bytes.Equal(p.ToBytes(), b) {
			return "C14/rsa-roundtrip", fmt.Sprintf("parsed %s, built %s", c14RsaVal(p).String(), c14RsaVal(&km).String())
		}
		return "", ""
	})

	// DN-with-binary string form: args (dn, binary)
	Oracle("c14.dn", func(a []Val) (string, string) {
		d := kcl.DNWithBinary{DistinguishedName: a[0].Str(), BinaryData: exact(a[1].B)}
		s := d.ToString()
		if want := fmt.Sprintf("B:%d:%s:%s", 2*len(a[1].B), hex.EncodeToString(a[1].B), a[0].Str()); s != want {
			return "C14/dn-format", fmt.Sprintf("ToString = %q, MS-ADTS 3.1.1.2.2.2.1 form = %q", s, want)
		}
		p := &kcl.DNWithBinary{}
		err := p.Parse([]byte(s))
		if err != nil || p.DistinguishedName != a[0].Str() || !bytes.Equal(p.BinaryData, a[1].B) {
			k := "C14/dn-roundtrip"
			if strings.Contains(a[0].Str(), ":") {
				k = "C14/dn-colon"
			}
			return k, fmt.Sprintf("Parse(%q) = (%q, %x, err %v)", s, p.DistinguishedName, p.BinaryData, err)
		}
		return "", ""
	})

	Gen("C14", genC14)
}

// ---------------------------------------------------------------- generators

func c14Modulus(r *Rng, n int) []byte {
	m := r.Bytes(n)
	if n > 0 {
		m[0] |= 0x80
		m[n-1] |= 1 // odd, full length: the shape of an RSA modulus (the code only serialises it)
	}
	return m
}

func c14GenRsa(r *Rng, modLen int) Val {
	exps := []uint64{65537, 3, 17, 0, 1, 0xff, 0x100, 0xffffffff, 0x80000000, 0x01000001}
	e := exps[r.Intn(len(exps))]
	if r.Intn(4) == 0 {
		e = r.U64() & 0xffffffff
	}
	mod := c14Modulus(r, modLen)
	var p1, p2 []byte
	switch r.Intn(5) {
	case 0:
		p1, p2 = c14Modulus(r, modLen/2), c14Modulus(r, modLen/2)
	case 1:
		p1 = r.Bytes(r.Intn(9))
	case 2:
		p2 = r.Bytes(r.Intn(9))
	}
	ks := uint64(8 * modLen)
	if r.Intn(6) == 0 {
		ks = r.U64Edge() & 0xffffffff
	}
	return L(U(ks), U(e), B(mod), B(p1), B(p2))
}

func c14GenTicks(r *Rng) uint64 {
	for {
		var t uint64
		switch r.Intn(4) {
		case 0:
			t = r.U64Edge()
		case 1: // 1601 .. 2400
			t = r.U64() % 252000000000000000
		case 2: // around 2024
			t = 133500000000000000 + r.U64()%10000000000000000
		default:
			t = r.U64()
		}
		// 0 means "now" (outside the property); stay a day away from the harness clock, which the
		// observation reserves for values read from the clock
		if t != 0 && !c14IsNow(kcutils.NewDateTime(t)) {
			return t
		}
	}
}

func c14GenDevice(r *Rng) []byte {
	switch r.Intn(8) {
	case 0:
		return make([]byte, 16)
	case 1:
		return bytes.Repeat([]byte{0xff}, 16)
	}
	return r.Bytes(16)
}

var c14Versions = []uint64{0, 0x100, 0x200}

func c14StructArgs(r *Rng, modLen int) []Val {
	v := c14Versions[r.Intn(3)]
	return []Val{U(v), c14GenRsa(r, modLen), B(c14GenDevice(r)), U(c14GenTicks(r)), U(c14GenTicks(r))}
}

func c14BlobOf(a []Val) []byte {
	kc, _ := c14Build(a)
	b, err := kc.ToBytes()
	if err != nil {
		return nil
	}
	return b
}

func c14RandCki(r *Rng) Val {
	return L(U(uint64(r.Pick(0, 1, 1, 1, 2, 255, 256, 257))), U(uint64(r.Byte())), U(uint64(r.Byte())), Bool(r.Bool()), U(uint64(r.Byte())),
		U(r.U64Edge()&0xffffffff), B(r.Bytes(r.Pick(0, 0, 9, 10, 10, 11))), B(r.Bytes(r.Pick(0, 0, 1, 5))),
		U(uint64(r.Pick(0, 1, 2, 3, 4, 5, 6, 7, 8, 9, 10, 11, 18, 19, 20, 21, 22, 30))))
}

// a blob made of arbitrary entries: mostly well-delimited, with arbitrary types and value lengths
func c14RandEntries(r *Rng) []byte {
	out := binary.LittleEndian.AppendUint32(nil, uint32(r.Pick(0, 0x100, 0x200, 0x200, 0x300, 1)))
	for n := r.Intn(8); n > 0; n-- {
		t := byte(r.Intn(12))
		var v []byte
		switch r.Intn(4) {
		case 0:
			v = r.Bytes(r.Pick(0, 1, 2, 3, 7, 8, 9, 15, 16, 17, 32))
		case 1:
			switch t {
			case 3:
				rk := c14RsaOf(c14GenRsa(r, r.Pick(0, 1, 8, 16)))
				v = rk.ToBytes()
				if r.Intn(3) == 0 && len(v) > 0 {
					v = v[:r.Intn(len(v))]
				}
			case 7:
				v = append([]byte{1}, r.Bytes(r.Pick(0, 1, 2, 3, 4, 7, 8, 17, 18, 19, 20, 25))...)
			case 8, 9:
				v = binary.LittleEndian.AppendUint64(nil, c14GenTicks(r))
			default:
				v = r.Bytes(r.Intn(20))
			}
		default:
			v = r.Bytes(r.Intn(6))
		}
		l := uint16(len(v))
		if r.Intn(12) == 0 {
			l = uint16(r.U64Edge())
		}
		out = binary.LittleEndian.AppendUint16(out, l)
		out = append(out, t)
		out = append(out, v...)
	}
	if r.Intn(4) == 0 {
		out = append(out, r.Bytes(r.Intn(4))...)
	}
	return out
}

func genC14(c *Ctx) {
	r := c.Rng
	total := func(name string, args ...Val) { c.Check("c14.total", S(name), L(args...)) }
	// hashing is what costs on the model side (SHA-256 over binary N): hash_raw rides along on request only
	decodeBlobH := func(b []byte, hash bool) {
		c.Case("c14.kc.from_bytes", B(b))
		c.Case("c14.kc.verify", B(b))
		c.Case("c14.kc.reserialize", B(b))
		total("c14.kc.from_bytes", B(b))
		total("c14.kc.verify", B(b))
		total("c14.kc.hash_raw", B(b))
		if hash {
			c.Case("c14.kc.hash_raw", B(b))
		}
	}
	decodeBlob := func(b []byte) { decodeBlobH(b, true) }

	// ---- structured credentials: correspondence on small and medium keys, oracles on all sizes
	modLens := []int{0, 1, 2, 3, 4, 8, 16, 32, 64, 64, 96, 128, 128, 256}
	for rep := 0; rep < c.N(60, 600); rep++ {
		a := c14StructArgs(r, modLens[rep%len(modLens)])
		if rep < 3 {
			a[0] = U(c14Versions[rep])
		}
		c.Check("c14.roundtrip", a...)
		c.Check("c14.rsa", a[1])
		km := c14RsaOf(a[1])
		id := kcutils.ComputeKeyIdentifier(km.ToBytes(), c14Ver(a[0]))
		c.Case("c14.kc.new", a[0], S(id), a[1], a[2], a[3], a[4])
		c.Case("c14.rsa.to_bytes", a[1])
		c.Case("c14.rsa.from_bytes", B(km.ToBytes()))
		c.Case("c14.key_identifier", B(km.ToBytes()), a[0])
		if blob := c14BlobOf(a); blob != nil {
			decodeBlob(blob)
			c.Case("c14.kc.parse_dn", S("CN=user,DC=corp,DC=local"), B(blob))
		}
	}
	// RSA-sized keys (512 .. 4096 bits and one of 8192): Go-side oracles, round trip and exhaustive tampering
	bigLens := []int{64, 128, 256, 384, 512}
	for rep := 0; rep < c.N(40, 400); rep++ {
		a := c14StructArgs(r, bigLens[rep%len(bigLens)])
		c.Check("c14.roundtrip", a...)
	}
	c.Check("c14.roundtrip", c14StructArgs(r, 1024)...)
	// keys that the 16-bit entry length cannot describe
	for _, n := range []int{65535 - 28, 65536 - 28, 70000} {
		a := c14StructArgs(r, n)
		a[1] = L(U(0), U(65537), B(c14Modulus(r, n)), B(nil), B(nil))
		c.Check("c14.roundtrip", a...)
	}
	// every single-bit corruption, exhaustively per blob
	tamperLens := []int{0, 4, 16, 64, 64, 128, 128, 256, 256, 512}
	for rep := 0; rep < c.N(10, 60); rep++ {
		a := c14StructArgs(r, tamperLens[rep%len(tamperLens)])
		a[0] = U(c14Versions[rep%3])
		c.Check("c14.tamper", a...)
	}
	// the same corruptions as correspondence cases on small blobs: every bit, every truncation
	for rep := 0; rep < c.N(3, 24); rep++ {
		a := c14StructArgs(r, []int{0, 8, 16, 4, 24, 32, 48, 64}[rep%8])
		a[0] = U(c14Versions[rep%3])
		blob := c14BlobOf(a)
		for bit := 0; bit < 8*len(blob); bit++ {
			m := c14Flip(blob, bit)
			c.Case("c14.kc.verify", B(m))
			total("c14.kc.verify", B(m))
			if rep == 0 && bit%8 < 2 {
				c.Case("c14.kc.from_bytes", B(m))
				c.Case("c14.kc.hash_raw", B(m))
			}
		}
		for _, m := range Truncations(blob) {
			decodeBlobH(m, rep == 0)
		}
		if rep == 0 {
			for _, m := range Corruptions(blob, len(blob)) {
				c.Case("c14.kc.verify", B(m))
				c.Case("c14.kc.from_bytes", B(m))
				total("c14.kc.verify", B(m))
			}
		}
	}
	// arbitrary entry streams and raw noise into every blob decoder
	for rep := 0; rep < c.N(600, 8000); rep++ {
		b := c14RandEntries(r)
		decodeBlobH(b, rep%3 == 0)
		c.Case("c14.kc.integrity", B(b), B(r.Bytes(r.Pick(0, 31, 32, 32, 33))))
		total("c14.kc.integrity", B(b), B(nil))
		if rep%4 == 0 {
			h := kcutils.ComputeHash(nil)
			c.Case("c14.kc.integrity", B(b), B(h))
		}
	}
	for rep := 0; rep < c.N(300, 4000); rep++ {
		decodeBlob(r.Bytes(r.Intn(40)))
	}
	for n := 0; n <= 8; n++ {
		decodeBlob(make([]byte, n))
		decodeBlob(bytes.Repeat([]byte{0xff}, n))
	}

	// ---- version
	for _, v := range []uint64{0, 0x100, 0x200, 0x300, 1, 0xffffffff, 0x80000000} {
		c.Case("c14.ver.to_bytes", U(v))
	}
	for rep := 0; rep < c.N(60, 600); rep++ {
		b := r.Bytes(r.Intn(8))
		c.Case("c14.ver.from_bytes", B(b))
		total("c14.ver.from_bytes", B(b))
	}

	// ---- RSA key material
	for rep := 0; rep < c.N(40, 400); rep++ {
		rk := c14RsaOf(c14GenRsa(r, r.Pick(0, 1, 4, 8, 16, 33)))
		b := rk.ToBytes()
		ms := Malformed(b, 28)
		for _, m := range ms {
			c.Case("c14.rsa.from_bytes", B(m))
			total("c14.rsa.from_bytes", B(m))
		}
		// size fields: every bit of the header
		if rep < 6 {
			for bit := 0; bit < 8*24; bit++ {
				m := c14Flip(b, bit)
				c.Case("c14.rsa.from_bytes", B(m))
				total("c14.rsa.from_bytes", B(m))
			}
		}
		// exponent sizes other than 4 (Windows writes 3)
		es := r.Pick(0, 1, 2, 3, 5, 6, 8)
		m := []byte("RSA1")
		m = binary.LittleEndian.AppendUint32(m, rk.KeySize)
		m = binary.LittleEndian.AppendUint32(m, uint32(es))
		m = binary.LittleEndian.AppendUint32(m, uint32(len(rk.Modulus)))
		m = binary.LittleEndian.AppendUint32(m, 0)
		m = binary.LittleEndian.AppendUint32(m, 0)
		m = append(m, r.Bytes(es)...)
		m = append(m, rk.Modulus...)
		m = append(m, r.Bytes(r.Intn(3))...)
		c.Case("c14.rsa.from_bytes", B(m))
		total("c14.rsa.from_bytes", B(m))
	}
	for rep := 0; rep < c.N(200, 3000); rep++ {
		b := r.Bytes(r.Intn(48))
		if r.Bool() && len(b) >= 4 {
			copy(b, "RSA1")
			for i := 5; i < len(b) && i < 24; i++ {
				if i%4 != 0 && r.Intn(5) != 0 {
					b[i] = 0
				}
			}
		}
		c.Case("c14.rsa.from_bytes", B(b))
		total("c14.rsa.from_bytes", B(b))
	}

	// ---- CustomKeyInformation: every size 0..24, then noise
	for n := 0; n <= 24; n++ {
		for rep := 0; rep < c.N(4, 20); rep++ {
			b := r.Bytes(n)
			if n > 0 && rep != 1 {
				b[0] = 1
			}
			c.Case("c14.cki.from_bytes", B(b), U(0x200))
			total("c14.cki.from_bytes", B(b), U(0x200))
			b2 := r.Bytes(r.Intn(24))
			if len(b2) > 0 {
				b2[0] = byte(r.Pick(1, 1, 1, 2))
			}
			c.Case("c14.cki.from_bytes2", B(b), B(b2), U(0x200))
		}
	}
	for rep := 0; rep < c.N(200, 3000); rep++ {
		c.Case("c14.cki.to_bytes", c14RandCki(r))
	}
	c.Case("c14.cki.to_bytes", L(U(1), U(0), U(0), Bool(false), U(0), U(0), B(nil), B(nil), U(0)))

	// ---- identifiers
	for rep := 0; rep < c.N(150, 2000); rep++ {
		v := U(uint64(r.Pick(0, 0x100, 0x200, 0x200, 0x300)))
		b := r.Bytes(r.Pick(0, 1, 2, 3, 4, 5, 31, 32, 32, 32, 33))
		s := c.Case("c14.id.from_binary", B(b), v)
		c.Case("c14.id.to_binary", s, v)
		total("c14.id.to_binary", s, v)
		// arbitrary text
		t := S(r.StringOver("0123456789abcdefABCDEFxyz+/=\n\r ", r.Intn(14)))
		c.Case("c14.id.to_binary", t, v)
		total("c14.id.to_binary", t, v)
		c.Case("c14.compute_hash", B(r.Bytes(r.Pick(0, 1, 55, 56, 63, 64, 65, 119, 120))))
	}

	// ---- whole-structure serialisation with arbitrary field values
	for rep := 0; rep < c.N(200, 3000); rep++ {
		v := U(uint64(r.Pick(0, 0x100, 0x200, 0x200, 0x300)))
		var id Val
		if r.Intn(5) == 0 {
			id = S(r.StringOver("0123456789abcdefAB+/=", r.Intn(10)))
		} else {
			id = c.Case("c14.id.from_binary", B(r.Bytes(r.Pick(0, 2, 5, 32))), v)
		}
		kcv := L(v, id, B(r.Bytes(r.Pick(0, 0, 1, 32, 32))), c14GenRsa(r, r.Pick(0, 1, 8, 32)), U(uint64(r.Byte())),
			S(r.StringOver("NGCabc", r.Pick(0, 0, 0, 1, 3))), U(r.U64Edge()), c14RandCki(r), B(c14GenDevice(r)),
			U(c14GenTicks(r)), U(c14GenTicks(r)))
		out := c.Case("c14.kc.to_bytes", kcv)
		if out.K == 'x' {
			decodeBlob(out.B)
		}
	}

	// ---- DN with binary
	dnAlpha := "CN=usr,OUDCcorp :\\\"#+;<>0123\x00\xff"
	for rep := 0; rep < c.N(150, 3000); rep++ {
		dn := r.StringOver(dnAlpha, r.Intn(30))
		switch r.Intn(6) {
		case 0:
			dn = "CN=a:b,DC=corp,DC=local"
		case 1:
			dn = strings.Repeat(":", r.Intn(5)) + dn
		case 2:
			dn = ""
		}
		bin := r.Bytes(r.Pick(0, 0, 1, 2, 5, 16, 40))
		c.Check("c14.dn", S(dn), B(bin))
		s := c.Case("c14.dn.to_string", S(dn), B(bin))
		c.Case("c14.dn.parse", s)
		total("c14.dn.parse", s)
		for _, m := range Malformed(s.B, 12) {
			c.Case("c14.dn.parse", B(m))
		}
	}
	for _, s := range []string{"", ":", "::", ":::", "::::", "B:0::", "B:0::x", "B:+0::x", "B:-0::x", "B:00::x", "B:2:zz:x", "B:2:AB:x",
		"B:2:ab:x:y:z", "B:3:abc:x", "B:1:a:x", "B: 2:ab:x", "B:2 :ab:x", "B:0x2:ab:x", "B:2_0:ab:x", "X:2:ab:x", ":2:ab:x",
		"B:9223372036854775807:ab:x", "B:9223372036854775808:ab:x", "B:18446744073709551618:ab:x", "B:-2:ab:x", "B:2:aB:",
		"B:10:48656c6c6f:CN=John Doe,OU=Users,DC=example,DC=com", "B:5:48656c6c6f:CN=x", "B:10:48656c6c6f"} {
		c.Case("c14.dn.parse", S(s))
		total("c14.dn.parse", S(s))
	}
	for rep := 0; rep < c.N(300, 5000); rep++ {
		s := S(r.StringOver("B:0123456789abcF+-x ", r.Intn(16)))
		c.Case("c14.dn.parse", s)
		total("c14.dn.parse", s)
	}
	c.Note("c14", "ticks = 0 (NewDateTime reads the clock) is outside the property; blobs carrying a zero timestamp are observed with the clock replaced by a sentinel")
}
