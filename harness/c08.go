//go:build c08 || allprops

package main

// Property C08: NTLMSSP and SPNEGO tokens are structurally exact in both directions.
// Impl runners for every modelled entry point of network/smb/smb_v10/spnego/**, Go-side oracles
// stating the property on the real code, and the generators (structured + malformed).
// The MS-NLMP checkers and encoders used by the oracles are in c08_ref.go.

import (
	"bytes"
	"encoding/asn1"
	"encoding/binary"
	"fmt"
	"sort"
	"strings"
	"unicode"

	"github.com/TheManticoreProject/Manticore/network/smb/smb_v10/spnego"
	"github.com/TheManticoreProject/Manticore/network/smb/smb_v10/spnego/ntlm"
	"github.com/TheManticoreProject/Manticore/network/smb/smb_v10/spnego/ntlm/version"
	mutf16 "github.com/TheManticoreProject/Manticore/utils/encoding/utf16"
)

func c08Tok(b Val, present Val) []byte {
	if present.Int() == 0 {
		return nil
	}
	return exact(b.B) // non-nil even when empty
}

func c08Version(v version.Version) Val {
	return L(U(uint64(v.ProductMajorVersion)), U(uint64(v.ProductMinorVersion)), U(uint64(v.ProductBuild)),
		B(v.Reserved[:]), U(uint64(v.NTLMRevision)))
}

func c08Oid(l Val) asn1.ObjectIdentifier {
	if len(l.L) == 0 {
		return nil
	}
	o := make(asn1.ObjectIdentifier, len(l.L))
	for i, e := range l.L {
		o[i] = int(e.Int())
	}
	return o
}

// c08NtLen is the length of the NT response CreateAuthenticateMessage computes (its value is C02's).
func c08NtLen(flags uint32, ti []byte) int {
	if flags&ntlm.NTLMSSP_NEGOTIATE_EXTENDED_SESSIONSECURITY != 0 {
		return 48 + len(ti)
	}
	return 24
}

// c08Blank zeroes the LM / NT response bytes (random client challenge, timestamp) at the position the
// fixed header size and the computed lengths determine — not at the position the descriptors claim.
func c08Blank(msg []byte, at int, n int) []byte {
	out := append([]byte{}, msg...) // the harness's own scratch copy (not a buffer handed to the implementation)
	for i := at; i < at+n && i < len(out); i++ {
		out[i] = 0
	}
	return out
}

func c08Challenge(flags uint32, sc, ti []byte) *ntlm.ChallengeMessage {
	ch := &ntlm.ChallengeMessage{NegotiateFlags: flags}
	copy(ch.ServerChallenge[:], sc)
	if len(ti) > 0 {
		ch.TargetInfo = exact(ti)
	}
	return ch
}

func init() {
	// ---- standard-library text functions the builders call (ties Model/C08Text.v) ----
	Impl("text.upper_rune", func(a []Val) Val { return I(int64(unicode.ToUpper(rune(a[0].Int())))) })
	Impl("text.to_upper", func(a []Val) Val { return S(strings.ToUpper(a[0].Str())) })
	Impl("text.utf16le", func(a []Val) Val { return B(mutf16.EncodeUTF16LE(a[0].Str())) })

	// ---- spnego ----
	Impl("spnego.create_init", func(a []Val) Val {
		out, err := spnego.CreateNegTokenInit(c08Tok(a[0], a[1]))
		if err != nil {
			return VErr()
		}
		return B(out)
	})
	Impl("spnego.create_resp", func(a []Val) Val {
		out, err := spnego.CreateNegTokenResp(asn1.Enumerated(a[0].Int()), c08Oid(a[1]), c08Tok(a[2], a[3]))
		if err != nil {
			return VErr()
		}
		return B(out)
	})
	Impl("spnego.parse_resp", func(a []Val) Val {
		r, err := spnego.ParseNegTokenResp(exact(a[0].B))
		if err != nil {
			return VErr()
		}
		var mech []Val
		for _, x := range r.SupportedMech {
			mech = append(mech, I(int64(x)))
		}
		return L(I(int64(r.NegState)), L(mech...), B(r.ResponseToken), B(r.MechListMIC))
	})
	Impl("spnego.extract", func(a []Val) Val {
		t, err := spnego.ExtractNTLMToken(exact(a[0].B))
		if err != nil {
			return VErr()
		}
		return B(t)
	})
	Impl("spnego.process_challenge", func(a []Val) Val {
		ctx := spnego.NewAuthContext(spnego.AuthTypeNTLM, a[3].Str(), a[1].Str(), a[2].Str(), a[4].Str(), true)
		out, err := ctx.ProcessChallengeToken(exact(a[0].B))
		if err != nil {
			return VErr()
		}
		idx := bytes.Index(out, []byte("NTLMSSP\x00"))
		if idx < 0 || ctx.NTLMChallenge == nil {
			return B(out)
		}
		return B(c08Blank(out, idx+88, 24+c08NtLen(ctx.NTLMChallenge.NegotiateFlags, ctx.NTLMChallenge.TargetInfo)))
	})

	Impl("spnego.create_negotiate_token", func(a []Val) Val {
		ctx := spnego.NewAuthContext(spnego.AuthTypeNTLM, a[0].Str(), "user", "password", a[1].Str(), a[2].Int() != 0)
		out, err := ctx.CreateNegotiateToken()
		if err != nil {
			return VErr()
		}
		return B(out)
	})

	// ---- ntlm ----
	Impl("ntlm.create_negotiate", func(a []Val) Val {
		out, err := ntlm.CreateNegotiateMessage(a[0].Str(), a[1].Str(), a[2].Int() != 0)
		if err != nil {
			return VErr()
		}
		return B(out)
	})
	Impl("ntlm.parse_challenge", func(a []Val) Val {
		c, err := ntlm.ParseChallengeMessage(exact(a[0].B))
		if err != nil {
			return VErr()
		}
		return L(B(c.TargetName), U(uint64(c.NegotiateFlags)), B(c.ServerChallenge[:]), B(c.Reserved[:]),
			B(c.TargetInfo), c08Version(c.Version))
	})
	Impl("ntlm.create_authenticate", func(a []Val) Val {
		flags := uint32(a[0].Uint())
		out, err := ntlm.CreateAuthenticateMessage(c08Challenge(flags, a[1].B, a[2].B), a[3].Str(), a[4].Str(), a[5].Str(), a[6].Str())
		if err != nil {
			return VErr()
		}
		return B(c08Blank(out, 88, 24+c08NtLen(flags, a[2].B)))
	})
	Impl("ntlm.parse_target_info", func(a []Val) Val {
		m, err := ntlm.ParseTargetInfo(exact(a[0].B))
		if err != nil {
			return VErr()
		}
		return c08AvMap(m)
	})
	Impl("version.unmarshal", func(a []Val) Val {
		var v version.Version
		dirty(&v)
		n, err := v.Unmarshal(exact(a[0].B))
		if err != nil || n != 8 {
			return VErr()
		}
		return c08Version(v)
	})
	Impl("version.marshal", func(a []Val) Val {
		v := version.Version{ProductMajorVersion: byte(a[0].Uint()), ProductMinorVersion: byte(a[1].Uint()),
			ProductBuild: uint16(a[2].Uint()), NTLMRevision: byte(a[4].Uint())}
		copy(v.Reserved[:], a[3].B)
		out, err := v.Marshal()
		if err != nil {
			return VErr()
		}
		return B(out)
	})

	c08Oracles()
	Gen("C08", genC08)
}

func c08AvMap(m map[uint16][]byte) Val {
	ids := make([]int, 0, len(m))
	for k := range m {
		ids = append(ids, int(k))
	}
	sort.Ints(ids)
	out := make([]Val, 0, len(ids))
	for _, k := range ids {
		out = append(out, L(U(uint64(k)), B(m[uint16(k)])))
	}
	return L(out...)
}

// fillBytes is the deterministic token body used by the length-boundary oracles: (length, seed).
func fillBytes(n int, seed uint64) []byte {
	r := NewRng(seed)
	b := make([]byte, n)
	for i := 0; i+8 <= n; i += 8 {
		binary.LittleEndian.PutUint64(b[i:], r.U64())
	}
	for i := n &^ 7; i < n; i++ {
		b[i] = r.Byte()
	}
	return b
}

func c08Oracles() {
	// Every NEGOTIATE message is structurally valid (MS-NLMP 2.2.1.1).  args: domain, workstation, unicode
	Oracle("c08.negotiate_wf", func(a []Val) (string, string) {
		dom, ws, uni := a[0].Str(), a[1].Str(), a[2].Int() != 0
		msg, err := ntlm.CreateNegotiateMessage(dom, ws, uni)
		wd, ww := dom, ws
		if !uni {
			wd, ww = strings.ToUpper(dom), strings.ToUpper(ws)
		}
		if too := nameTooLong(uni, wd) || nameTooLong(uni, ww); too || err != nil {
			if too && err != nil {
				return "", "" // no message is built for a name that cannot be described by a 16-bit length
			}
			if err != nil {
				return "C08/negotiate/unexpected-error", fmt.Sprintf("CreateNegotiateMessage(%q,%q,%v): %v", clip(dom), clip(ws), uni, err)
			}
		}
		if k, d := checkNegotiate(msg, 40, uni, wd, ww); k != "" {
			return k, fmt.Sprintf("CreateNegotiateMessage(%q,%q,%v): %s", clip(dom), clip(ws), uni, d)
		}
		if uni && (dom != "" || ws != "") {
			return "C08/negotiate/names-not-oem", fmt.Sprintf("CreateNegotiateMessage(%q,%q,true) carries UTF-16LE names; MS-NLMP 2.2.1.1 requires the OEM character set in NEGOTIATE_MESSAGE", clip(dom), clip(ws))
		}
		return "", ""
	})

	// Every AUTHENTICATE message is structurally valid (MS-NLMP 2.2.1.3).
	// args: flags, server challenge, target info, user, password, domain, workstation
	Oracle("c08.authenticate_wf", func(a []Val) (string, string) {
		flags := uint32(a[0].Uint())
		ti := a[2].B
		user, pw, dom, ws := a[3].Str(), a[4].Str(), a[5].Str(), a[6].Str()
		uni := flags&ntlm.NTLMSSP_NEGOTIATE_UNICODE != 0
		msg, err := ntlm.CreateAuthenticateMessage(c08Challenge(flags, a[1].B, ti), user, pw, dom, ws)
		wd, ww := strings.ToUpper(dom), strings.ToUpper(ws)
		ntLen := c08NtLen(flags, ti)
		too := nameTooLong(uni, wd) || nameTooLong(uni, ww) || nameTooLong(uni, user) || ntLen > 0xffff
		what := fmt.Sprintf("CreateAuthenticateMessage(flags=%#x, ti=%d bytes, %q, %q, %q)", flags, len(ti), clip(user), clip(dom), clip(ws))
		if err != nil {
			if too {
				return "", ""
			}
			return "C08/authenticate/unexpected-error", what + ": " + err.Error()
		}
		exp := authExpect{hdrMin: 88, unicode: uni, flags: flags, dom: wd, user: user, ws: ww, lmLen: 24, ntLen: ntLen, keyLen: 0, exactCover: true}
		if flags&ntlm.NTLMSSP_NEGOTIATE_VERSION != 0 {
			exp.version = []byte{10, 0, 0xba, 0x47, 0, 0, 0, 15}
		} else {
			exp.version = make([]byte, 8)
		}
		if k, d := checkAuthenticate(msg, exp); k != "" {
			return k, what + ": " + d
		}
		return "", ""
	})

	// Every well-formed CHALLENGE parses to exactly what it carries (MS-NLMP 2.2.1.2).
	// args: flags, server challenge(8), target name bytes, AV pairs ((id value)...), version(8), layout variant
	Oracle("c08.challenge_exact", func(a []Val) (string, string) {
		flags := uint32(a[0].Uint())
		pairs := avPairsOf(a[3])
		ti := avEncode(pairs, true)
		if len(pairs) == 0 && a[5].Int()&4 != 0 {
			ti = nil // no TargetInfo at all
		}
		data := challengeEncode(flags, a[1].B, a[2].B, ti, a[4].B, int(a[5].Int()))
		c, err := ntlm.ParseChallengeMessage(exact(data))
		if err != nil {
			return "C08/challenge/rejected", fmt.Sprintf("well-formed CHALLENGE %x rejected: %v", clipB(data), err)
		}
		switch {
		case c.NegotiateFlags != flags:
			return "C08/challenge/flags", fmt.Sprintf("CHALLENGE %x: flags %#x want %#x", clipB(data), c.NegotiateFlags, flags)
		case !bytes.Equal(c.ServerChallenge[:], a[1].B):
			return "C08/challenge/server-challenge", fmt.Sprintf("CHALLENGE %x: server challenge %x want %x", clipB(data), c.ServerChallenge, a[1].B)
		case !bytes.Equal(c.TargetName, a[2].B):
			return "C08/challenge/target-name", fmt.Sprintf("CHALLENGE %x: target name %x want %x", clipB(data), c.TargetName, a[2].B)
		case !bytes.Equal(c.TargetInfo, ti):
			return "C08/challenge/target-info", fmt.Sprintf("CHALLENGE %x: target info %x want %x", clipB(data), clipB(c.TargetInfo), clipB(ti))
		}
		wantV := make([]byte, 8)
		if flags&ntlm.NTLMSSP_NEGOTIATE_VERSION != 0 {
			wantV = a[4].B
		}
		gotV, _ := c.Version.Marshal()
		if !bytes.Equal(gotV, wantV) {
			return "C08/challenge/version", fmt.Sprintf("CHALLENGE %x: version %x want %x", clipB(data), gotV, wantV)
		}
		if ti != nil {
			m, err := ntlm.ParseTargetInfo(c.TargetInfo)
			if err != nil {
				return "C08/target-info/rejected", fmt.Sprintf("AV pairs %x rejected: %v", clipB(ti), err)
			}
			if k, d := avCompare(m, pairs); k != "" {
				return k, d
			}
		}
		return "", ""
	})

	// All AV-pair lists, with and without the terminator.  args: pairs, terminated, trailing bytes
	Oracle("c08.target_info", func(a []Val) (string, string) {
		pairs := avPairsOf(a[0])
		ti := avEncode(pairs, a[1].Int() != 0)
		if a[1].Int() != 0 {
			ti = append(ti, a[2].B...)
		}
		m, err := ntlm.ParseTargetInfo(exact(ti))
		if err != nil {
			return "C08/target-info/rejected", fmt.Sprintf("AV pairs %x rejected: %v", clipB(ti), err)
		}
		return avCompare(m, pairs)
	})

	// Wrapping a token of any length and extracting it again returns the identical token; the GSS-API
	// header length is the DER length of what follows (checked with encoding/asn1).
	// args: kind (0 NegTokenInit, 1 NegTokenResp), state, mech, token length, fill seed, present
	Oracle("c08.spnego_roundtrip", func(a []Val) (string, string) {
		kind, n := a[0].Int(), int(a[3].Int())
		var tok []byte
		if a[5].Int() != 0 {
			tok = exact(fillBytes(n, a[4].Uint()))
		}
		var w []byte
		var err error
		if kind == 0 {
			w, err = spnego.CreateNegTokenInit(tok)
		} else {
			w, err = spnego.CreateNegTokenResp(asn1.Enumerated(a[1].Int()), c08Oid(a[2]), tok)
		}
		what := fmt.Sprintf("kind=%d state=%d token length %d", kind, a[1].Int(), n)
		if err != nil {
			return "C08/spnego/wrap-error", what + ": " + err.Error()
		}
		// DER shape: one [APPLICATION 0] constructed element spanning the whole buffer.
		var raw asn1.RawValue
		rest, err := asn1.Unmarshal(w, &raw)
		if err != nil || len(rest) != 0 || raw.Class != asn1.ClassApplication || raw.Tag != 0 || !raw.IsCompound {
			return fmt.Sprintf("C08/spnego/gss-header/len-%s", lenClass(len(w))), fmt.Sprintf("%s: GSS-API header of %x is not the DER framing of its content (err=%v, rest=%d)", what, clipB(w), err, len(rest))
		}
		var oid asn1.ObjectIdentifier
		inner, err := asn1.Unmarshal(raw.Bytes, &oid)
		if err != nil || !oid.Equal(spnego.SpnegoOID) {
			return "C08/spnego/mech-oid", fmt.Sprintf("%s: thisMech is %v (err=%v)", what, oid, err)
		}
		got, err := spnego.ExtractNTLMToken(exact(w))
		if tok == nil {
			if err == nil {
				return "C08/spnego/absent-token-found", fmt.Sprintf("%s: no token was wrapped, extracted %x", what, clipB(got))
			}
		} else if err != nil || !bytes.Equal(got, tok) {
			if n == 0 {
				return "C08/spnego/empty-token", fmt.Sprintf("%s: an empty (present) token is wrapped as %x and extracted as absent (err=%v)", what, w, err)
			}
			return fmt.Sprintf("C08/spnego/roundtrip/len-%s", lenClass(n)), fmt.Sprintf("%s: extracted %x (err=%v)", what, clipB(got), err)
		}
		if kind == 1 {
			r, err := spnego.ParseNegTokenResp(exact(w))
			if err != nil || int64(r.NegState) != a[1].Int() || !r.SupportedMech.Equal(c08Oid(a[2])) || !bytes.Equal(r.ResponseToken, tok) {
				return "C08/spnego/resp-roundtrip", fmt.Sprintf("%s: ParseNegTokenResp gives %+v err=%v", what, r, err)
			}
		}
		// RFC 4178 4.2: the inner context token is a NegotiationToken CHOICE ([0] negTokenInit / [1] negTokenResp).
		if len(inner) == 0 || (inner[0] != 0xa0 && inner[0] != 0xa1) {
			return "C08/spnego/negotiation-token-choice-missing", fmt.Sprintf("%s: innerContextToken starts with %#x, not the [0]/[1] CHOICE tag of RFC 4178 NegotiationToken", what, inner[0])
		}
		return "", ""
	})

	// Totality of every decoding entry point of these files (reused by C07).  args: input bytes
	total := func(name string, f func(b []byte)) {
		Oracle("c08.total."+name, func(a []Val) (string, string) {
			panicked, timedOut, _, pv := Guarded(5e9, func() { f(exact(a[0].B)) })
			if panicked {
				return "C08/panic/" + name, fmt.Sprintf("%s(%x) panics: %v", name, clipB(a[0].B), pv)
			}
			if timedOut {
				return "C08/hang/" + name, fmt.Sprintf("%s(%x) does not return", name, clipB(a[0].B))
			}
			return "", ""
		})
	}
	total("extract_ntlm_token", func(b []byte) { spnego.ExtractNTLMToken(b) })
	total("parse_neg_token_resp", func(b []byte) { spnego.ParseNegTokenResp(b) })
	total("parse_challenge", func(b []byte) { ntlm.ParseChallengeMessage(b) })
	total("parse_target_info", func(b []byte) { ntlm.ParseTargetInfo(b) })
	total("version_unmarshal", func(b []byte) { var v version.Version; v.Unmarshal(b) })
	total("process_challenge_token", func(b []byte) {
		spnego.NewAuthContext(spnego.AuthTypeNTLM, "D", "u", "p", "W", true).ProcessChallengeToken(b)
	})

	// Validation of the reference side: messages of github.com/Azure/go-ntlmssp satisfy the same
	// checkers, and it accepts the CHALLENGE messages the oracle encoder builds.
	// args: domain, workstation / flags, sc, target name, pairs, user
	Oracle("c08.ref.negotiate", refNegotiate)
	Oracle("c08.ref.challenge", refChallenge)
}

func lenClass(n int) string {
	switch {
	case n < 128:
		return "0-127"
	case n < 256:
		return "128-255"
	case n < 65536:
		return "256-65535"
	}
	return "65536+"
}

func clip(s string) string {
	if len(s) > 48 {
		return s[:48] + fmt.Sprintf("...(%d bytes)", len(s))
	}
	return s
}

func clipB(b []byte) []byte {
	if len(b) > 160 {
		return b[:160]
	}
	return b
}
