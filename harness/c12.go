//go:build c12 || allprops

package main

// C12 — RC4, CMAC, PKCS#7 and GPP-AES match their standards and invert each other.
// Impl runners (the real code, observed through exported API plus read-only reflection on the
// unexported state), independent Go-side references (crypto/rc4, crypto/aes + crypto/cipher,
// crypto/des, a one-shot CMAC written from SP 800-38B with big-integer doubling, a PKCS#7
// validity predicate) and the oracles that state the property directly on the real code.

import (
	"bytes"
	"crypto/aes"
	"crypto/cipher"
	"crypto/des"
	stdrc4 "crypto/rc4"
	"encoding/base64"
	"encoding/hex"
	"fmt"
	"math/big"
	"reflect"
	"strings"
	stdutf16 "unicode/utf16"
	"unicode/utf8"

	"github.com/TheManticoreProject/Manticore/crypto/cmac"
	"github.com/TheManticoreProject/Manticore/crypto/gppp"
	"github.com/TheManticoreProject/Manticore/crypto/pkcs7"
	mrc4 "github.com/TheManticoreProject/Manticore/crypto/rc4"
	mutf16 "github.com/TheManticoreProject/Manticore/utils/encoding/utf16"
)

// ---------------------------------------------------------------- observation helpers

func c12Rc4State(c *mrc4.RC4) Val {
	v := reflect.ValueOf(c).Elem()
	s := v.FieldByName("s")
	sb := make([]byte, s.Len())
	for i := range sb {
		sb[i] = byte(s.Index(i).Uint())
	}
	return L(B(sb), U(v.FieldByName("i").Uint()), U(v.FieldByName("j").Uint()), B(c.Key))
}

func c12RefBytes(v reflect.Value) []byte {
	b := make([]byte, v.Len())
	for i := range b {
		b[i] = byte(v.Index(i).Uint())
	}
	return b
}

func c12CmacState(h interface{}) Val {
	v := reflect.ValueOf(h).Elem()
	return L(B(c12RefBytes(v.FieldByName("k1"))), B(c12RefBytes(v.FieldByName("k2"))),
		B(c12RefBytes(v.FieldByName("ci"))), B(c12RefBytes(v.FieldByName("digest"))), I(v.FieldByName("p").Int()))
}

// fake cipher of arbitrary block size: Encrypt adds 1 to every byte
type c12Fake struct{ n int }

func (f c12Fake) BlockSize() int { return f.n }
func (f c12Fake) Encrypt(dst, src []byte) {
	for i := 0; i < f.n; i++ {
		dst[i] = src[i] + 1
	}
}
func (f c12Fake) Decrypt(dst, src []byte) {
	for i := 0; i < f.n; i++ {
		dst[i] = src[i] - 1
	}
}

func c12Cipher(kind int64, key []byte, bs int64) cipher.Block {
	var c cipher.Block
	var err error
	switch kind {
	case 0:
		c, err = aes.NewCipher(key)
	case 1:
		c, err = des.NewCipher(key)
	case 2:
		c, err = des.NewTripleDESCipher(key)
	default:
		return c12Fake{int(bs)}
	}
	if err != nil {
		panic("harness: bad key for cipher kind")
	}
	return c
}

var c12KindName = []string{"aes", "des", "3des", "fake"}

// ---------------------------------------------------------------- independent references

// CMAC from SP 800-38B 6.1/6.2, one shot; subkeys by doubling the block as a big integer.
func c12RefCMAC(c cipher.Block, msg []byte) []byte {
	n := c.BlockSize()
	rb := int64(0x87)
	if n == 8 {
		rb = 0x1b
	}
	mod := new(big.Int).Lsh(big.NewInt(1), uint(8*n))
	dbl := func(x []byte) []byte {
		v := new(big.Int).SetBytes(x)
		v.Lsh(v, 1)
		if v.Cmp(mod) >= 0 {
			v.Sub(v, mod)
			v.Xor(v, big.NewInt(rb))
		}
		out := make([]byte, n)
		v.FillBytes(out)
		return out
	}
	l := make([]byte, n)
	c.Encrypt(l, l)
	k1 := dbl(l)
	k2 := dbl(k1)
	nblk := (len(msg) + n - 1) / n
	last := make([]byte, n)
	if nblk == 0 {
		nblk = 1
		last[0] = 0x80
		for i := range last {
			last[i] ^= k2[i]
		}
	} else if len(msg)%n == 0 {
		copy(last, msg[(nblk-1)*n:])
		for i := range last {
			last[i] ^= k1[i]
		}
	} else {
		r := copy(last, msg[(nblk-1)*n:])
		last[r] = 0x80
		for i := range last {
			last[i] ^= k2[i]
		}
	}
	x := make([]byte, n)
	for b := 0; b < nblk-1; b++ {
		for i := 0; i < n; i++ {
			x[i] ^= msg[b*n+i]
		}
		c.Encrypt(x, x)
	}
	for i := 0; i < n; i++ {
		x[i] ^= last[i]
	}
	c.Encrypt(x, x)
	return x
}

// RFC 5652 6.3: the buffer ends with k bytes of value k, 1 <= k <= 255, k <= len.
func c12ValidPad(buf []byte) (int, bool) {
	if len(buf) == 0 {
		return 0, false
	}
	k := int(buf[len(buf)-1])
	if k < 1 || k > len(buf) {
		return 0, false
	}
	for _, b := range buf[len(buf)-k:] {
		if int(b) != k {
			return 0, false
		}
	}
	return k, true
}

// Microsoft's published key ([MS-GPPREF] 2.2.1.1.4), written out independently of the source.
var c12MsKey, _ = hex.DecodeString("4e9906e8fcb66cc9faf49310620ffee8f496e806cc057990209b09a433b66c1b")

func c12RefUTF16LE(s string) []byte {
	us := stdutf16.Encode([]rune(s))
	out := make([]byte, 0, 2*len(us))
	for _, u := range us {
		out = append(out, byte(u), byte(u>>8))
	}
	return out
}

func c12RefCBCEncrypt(pt []byte) []byte {
	blk, _ := aes.NewCipher(c12MsKey)
	k := 16 - len(pt)%16
	p := append(append([]byte{}, pt...), bytes.Repeat([]byte{byte(k)}, k)...)
	ct := make([]byte, len(p))
	cipher.NewCBCEncrypter(blk, make([]byte, 16)).CryptBlocks(ct, p)
	return ct
}

func c12RefCBCDecrypt(ct []byte) []byte {
	blk, _ := aes.NewCipher(c12MsKey)
	pt := make([]byte, len(ct))
	cipher.NewCBCDecrypter(blk, make([]byte, 16)).CryptBlocks(pt, ct)
	return pt
}

// split b at the given cut points (sorted, within range)
func c12Split(b []byte, cuts []Val) [][]byte {
	var out [][]byte
	prev := 0
	for _, cv := range cuts {
		cpos := int(cv.Int())
		if cpos < prev {
			cpos = prev
		}
		if cpos > len(b) {
			cpos = len(b)
		}
		out = append(out, b[prev:cpos])
		prev = cpos
	}
	return append(out, b[prev:])
}

func c12PanicsOn(f func()) (p bool) {
	defer func() {
		if r := recover(); r != nil {
			p = true
		}
	}()
	f()
	return false
}

func init() {
	// ------------------------------------------------------------ Impl runners
	Impl("rc4.new_empty", func(a []Val) Val {
		c, err := mrc4.NewRC4()
		if err != nil {
			return VErr()
		}
		return c12Rc4State(c)
	})
	Impl("rc4.run", func(a []Val) Val {
		c, err := mrc4.NewRC4WithKey(exact(a[0].B))
		if err != nil {
			return VErr()
		}
		var outs []Val
		for _, op := range a[1].L {
			switch op.L[0].Int() {
			case 0:
				buf := exact(op.L[1].B)
				c.XORKeyStream(buf, buf)
				outs = append(outs, B(buf))
			case 1:
				c.Reset()
				outs = append(outs, L())
			case 2:
				dst := make([]byte, op.L[2].Int())
				c.XORKeyStream(dst, exact(op.L[1].B))
				outs = append(outs, B(dst))
			}
		}
		return L(L(outs...), c12Rc4State(c))
	})
	// key, arena, doff, dlen, soff, slen: dst and src are windows of the same backing array
	Impl("rc4.arena", func(a []Val) Val {
		c, err := mrc4.NewRC4WithKey(exact(a[0].B))
		if err != nil {
			return VErr()
		}
		arena := exact(a[1].B)
		doff, dlen, soff, slen := int(a[2].Int()), int(a[3].Int()), int(a[4].Int()), int(a[5].Int())
		c.XORKeyStream(arena[doff:doff+dlen], arena[soff:soff+slen])
		return L(B(arena), c12Rc4State(c))
	})
	Impl("cmac.run", func(a []Val) Val {
		blk := c12Cipher(a[0].Int(), exact(a[1].B), a[2].Int())
		h := cmac.New(blk)
		var outs []Val
		for _, op := range a[3].L {
			switch op.L[0].Int() {
			case 0:
				n, err := h.Write(exact(op.L[1].B))
				if err != nil {
					return VErr()
				}
				outs = append(outs, I(int64(n)))
			case 1:
				outs = append(outs, B(h.Sum(exact(op.L[1].B))))
			case 2:
				h.Reset()
				outs = append(outs, L())
			case 3:
				outs = append(outs, I(int64(h.Size())))
			case 4:
				outs = append(outs, I(int64(h.BlockSize())))
			}
		}
		return L(L(outs...), c12CmacState(h))
	})
	Impl("pkcs7.pad", func(a []Val) Val {
		out, err := pkcs7.Pad(exact(a[0].B), uint8(a[1].Int()))
		if err != nil {
			return VErr()
		}
		return B(out)
	})
	Impl("pkcs7.unpad", func(a []Val) Val {
		out, err := pkcs7.Unpad(exact(a[0].B))
		if err != nil {
			return VErr()
		}
		return B(out)
	})
	Impl("gppp.encrypt", func(a []Val) Val {
		out, err := gppp.GPPPEncrypt(a[0].Str())
		if err != nil {
			return VErr()
		}
		return S(out)
	})
	Impl("gppp.decrypt_b64", func(a []Val) Val {
		out, err := gppp.GPPPDecryptBase64(a[0].Str())
		if err != nil {
			return VErr()
		}
		return S(out)
	})
	Impl("gppp.decrypt_bytes", func(a []Val) Val {
		out, err := gppp.GPPPDecryptBytes(exact(a[0].B))
		if err != nil {
			return VErr()
		}
		return S(out)
	})
	Impl("gppp.runes", func(a []Val) Val {
		var vs []Val
		for _, r := range []rune(a[0].Str()) {
			vs = append(vs, I(int64(r)))
		}
		return L(vs...)
	})
	Impl("gppp.enc_utf16le", func(a []Val) Val { return B(mutf16.EncodeUTF16LE(a[0].Str())) })
	Impl("gppp.dec_utf16le", func(a []Val) Val { return S(mutf16.DecodeUTF16LE(exact(a[0].B))) })

	// ------------------------------------------------------------ oracles

	// args: key, data, cut points.  Standard RC4 (crypto/rc4) on the whole data = Manticore's RC4
	// fed chunk by chunk; key sizes outside 1..256 are refused.
	Oracle("c12.rc4", func(a []Val) (string, string) {
		key, data := a[0].B, a[1].B
		c, err := mrc4.NewRC4WithKey(exact(key))
		if len(key) < 1 || len(key) > 256 {
			if err == nil {
				return "C12/rc4/keysize-accepted", fmt.Sprintf("key of %d bytes accepted", len(key))
			}
			return "", ""
		}
		if err != nil {
			return "C12/rc4/keysize-refused", fmt.Sprintf("key of %d bytes refused", len(key))
		}
		ref, _ := stdrc4.NewCipher(key)
		want := make([]byte, len(data))
		ref.XORKeyStream(want, data)
		var got []byte
		for _, ch := range c12Split(data, a[2].L) {
			out := make([]byte, len(ch))
			c.XORKeyStream(out, exact(ch))
			got = append(got, out...)
		}
		if !bytes.Equal(got, want) {
			i := 0
			for i < len(got) && got[i] == want[i] {
				i++
			}
			cls := "one-shot"
			if len(a[2].L) > 0 {
				cls = "chunked"
			}
			return "C12/rc4/keystream-" + cls, fmt.Sprintf("key %x, %d bytes in %d chunks: first difference at byte %d (got %02x want %02x)",
				key, len(data), len(a[2].L)+1, i, got[i], want[i])
		}
		// decrypting with a fresh cipher gives the data back
		c2, _ := mrc4.NewRC4WithKey(exact(key))
		back := exact(got)
		c2.XORKeyStream(back, back)
		if !bytes.Equal(back, data) {
			return "C12/rc4/not-involutive", fmt.Sprintf("key %x: decrypt(encrypt(data)) != data", key)
		}
		return "", ""
	})

	// args: cipher kind, key, message, cut points, mode (0 plain, 1 Sum after every Write,
	// 2 garbage + Reset first, 3 both).  Streaming result = one-shot SP 800-38B reference.
	Oracle("c12.cmac", func(a []Val) (string, string) {
		kind, key, msg, mode := a[0].Int(), a[1].B, a[2].B, a[4].Int()
		name := c12KindName[kind]
		want := c12RefCMAC(c12Cipher(kind, key, 0), msg)
		h := cmac.New(c12Cipher(kind, key, 0))
		if mode&2 != 0 {
			h.Write([]byte("some earlier message that must be forgotten"))
			h.Sum(nil)
			h.Reset()
		}
		written := 0
		for _, ch := range c12Split(msg, a[3].L) {
			h.Write(exact(ch))
			written += len(ch)
			if mode&1 != 0 {
				mid := h.Sum(nil)
				if w := c12RefCMAC(c12Cipher(kind, key, 0), msg[:written]); !bytes.Equal(mid, w) {
					return "C12/cmac/" + name + "/prefix-tag", fmt.Sprintf("key %x after %d of %d bytes: got %x want %x", key, written, len(msg), mid, w)
				}
			}
		}
		prefix := []byte{0xde, 0xad}
		got := h.Sum(exact(prefix))
		if !bytes.HasPrefix(got, prefix) || !bytes.Equal(got[2:], want) {
			cls := "tag"
			if mode&1 != 0 {
				cls = "sum-not-pure"
			}
			if mode&2 != 0 {
				cls = "reset"
			}
			return "C12/cmac/" + name + "/" + cls, fmt.Sprintf("key %x msg %x (%d chunks, mode %d): got %x want %x", key, msg, len(a[3].L)+1, mode, got, want)
		}
		if again := h.Sum(nil); !bytes.Equal(again, want) {
			return "C12/cmac/" + name + "/sum-not-repeatable", fmt.Sprintf("key %x msg %x: second Sum %x, first %x", key, msg, again, want)
		}
		if h.Size() != len(want) {
			return "C12/cmac/" + name + "/size", fmt.Sprintf("Size %d, tag %d bytes", h.Size(), len(want))
		}
		return "", ""
	})

	// RFC 4493 section 4 test vectors (AES-128): args: index
	Oracle("c12.cmac_rfc4493", func(a []Val) (string, string) {
		key, _ := hex.DecodeString("2b7e151628aed2a6abf7158809cf4f3c")
		m, _ := hex.DecodeString("6bc1bee22e409f96e93d7e117393172aae2d8a571e03ac9c9eb76fac45af8e5130c81c46a35ce411e5fbc1191a0a52eff69f2445df4f9b17ad2b417be66c3710")
		vec := []struct {
			n   int
			tag string
		}{{0, "bb1d6929e95937287fa37d129b756746"}, {16, "070a16b46b4d4144f79bdd9dd04a287c"},
			{40, "dfa66747de9ae63030ca32611497c827"}, {64, "51f0bebf7e3b9d92fc49741779363cfe"}}
		v := vec[a[0].Int()]
		blk, _ := aes.NewCipher(key)
		h := cmac.New(blk)
		h.Write(m[:v.n])
		got := hex.EncodeToString(h.Sum(nil))
		if got != v.tag {
			return fmt.Sprintf("C12/cmac/rfc4493-example-%d", a[0].Int()+1), fmt.Sprintf("Mlen %d: got %s want %s", v.n, got, v.tag)
		}
		if ref := hex.EncodeToString(c12RefCMAC(blk, m[:v.n])); ref != v.tag {
			return "C12/harness/reference-cmac", "the harness reference CMAC fails RFC 4493 example"
		}
		return "", ""
	})

	// args: block size, message length (message bytes are derived from both)
	Oracle("c12.pkcs7_grid", func(a []Val) (string, string) {
		bs, n := int(a[0].Int()), int(a[1].Int())
		msg := make([]byte, n)
		for i := range msg {
			msg[i] = byte(i*7 + bs)
		}
		if bs == 0 {
			if _, err := pkcs7.Pad(exact(msg), 0); err == nil {
				return "C12/pkcs7/blocksize-0-accepted", fmt.Sprintf("Pad(%d bytes, 0) returned no error", n)
			}
			return "", ""
		}
		if n > 0 && a[1].Int()%3 == 0 {
			msg[n-1] = byte(bs - n%bs) // message already ending in something that looks like padding
		}
		padded, err := pkcs7.Pad(exact(msg), uint8(bs))
		if err != nil {
			return fmt.Sprintf("C12/pkcs7/pad-error-blocksize-%d", bs), err.Error()
		}
		k, ok := c12ValidPad(padded)
		if len(padded)%bs != 0 || !ok || len(padded)-k != n || k > bs || !bytes.Equal(padded[:n], msg) {
			return "C12/pkcs7/pad-format", fmt.Sprintf("block %d, %d bytes: padded to %d bytes ending %x", bs, n, len(padded), padded[max(0, len(padded)-4):])
		}
		back, err := pkcs7.Unpad(exact(padded))
		if err != nil || !bytes.Equal(back, msg) {
			return "C12/pkcs7/unpad-of-pad", fmt.Sprintf("block %d, %d bytes: Unpad(Pad(m)) = %x, %v", bs, n, back, err)
		}
		return "", ""
	})

	// args: buffer.  Unpad succeeds exactly on validly padded buffers and strips exactly the padding.
	Oracle("c12.pkcs7_reject", func(a []Val) (string, string) {
		buf := a[0].B
		k, valid := c12ValidPad(buf)
		out, err := pkcs7.Unpad(exact(buf))
		if valid && err != nil {
			return "C12/pkcs7/valid-rejected", fmt.Sprintf("buffer ...%x (%d bytes, pad %d) rejected", buf[max(0, len(buf)-4):], len(buf), k)
		}
		if !valid && err == nil {
			return "C12/pkcs7/invalid-accepted", fmt.Sprintf("buffer %x (%d bytes) accepted", head12(buf), len(buf))
		}
		if valid && !bytes.Equal(out, buf[:len(buf)-k]) {
			return "C12/pkcs7/wrong-strip", fmt.Sprintf("buffer of %d bytes with pad %d gave %d bytes", len(buf), k, len(out))
		}
		return "", ""
	})

	// args: password (any Go string).  Encrypt = base64(AES-256-CBC(published key, zero IV,
	// PKCS#7(UTF-16LE(password)))); both decrypt entry points invert it (also with the base64
	// padding stripped, as cpassword attributes are stored).
	Oracle("c12.gpp", func(a []Val) (string, string) {
		pw := a[0].Str()
		enc, err := gppp.GPPPEncrypt(pw)
		if err != nil {
			return "C12/gpp/encrypt-error", err.Error()
		}
		want := base64.StdEncoding.EncodeToString(c12RefCBCEncrypt(c12RefUTF16LE(pw)))
		if enc != want {
			return "C12/gpp/not-aes256cbc", fmt.Sprintf("password %q: got %s want %s", pw, enc, want)
		}
		canon := string([]rune(pw)) // invalid UTF-8 bytes become U+FFFD; identity on valid UTF-8
		if utf8.ValidString(pw) && canon != pw {
			return "C12/harness/canon", "string([]rune(s)) != s on valid UTF-8"
		}
		for i, form := range []string{enc, strings.TrimRight(enc, "=")} {
			dec, err := gppp.GPPPDecryptBase64(form)
			if err != nil || dec != canon {
				cls := "roundtrip"
				if i == 1 {
					cls = "stripped-padding"
				}
				return "C12/gpp/" + cls, fmt.Sprintf("password %q: decrypt(%s) = %q, %v", pw, form, dec, err)
			}
		}
		raw, _ := base64.StdEncoding.DecodeString(enc)
		dec, err := gppp.GPPPDecryptBytes(raw)
		if err != nil || dec != canon {
			return "C12/gpp/roundtrip-bytes", fmt.Sprintf("password %q: DecryptBytes = %q, %v", pw, dec, err)
		}
		return "", ""
	})

	// the published example of a cpassword ([MS-GPPREF] style, widely quoted): args: none
	Oracle("c12.gpp_vector", func(a []Val) (string, string) {
		dec, err := gppp.GPPPDecryptBase64("j1Uyj3Vx8TY9LtLZil2uAuZkFQA/4latT76ZwgdHdhw")
		if err != nil || dec != "Local*P4ssword!" {
			return "C12/gpp/published-vector", fmt.Sprintf("got %q, %v", dec, err)
		}
		return "", ""
	})

	// args: plaintext bytes (arbitrary; encrypted by the reference under the published key).
	// DecryptBytes must return string(utf16.Decode(plaintext)) for even lengths and an error otherwise.
	Oracle("c12.gpp_decrypt_ref", func(a []Val) (string, string) {
		pt := a[0].B
		ct := c12RefCBCEncrypt(pt)
		var dec string
		var err error
		if c12PanicsOn(func() { dec, err = gppp.GPPPDecryptBytes(exact(ct)) }) {
			if len(pt)%2 == 1 {
				return "C12/gpp/odd-length-plaintext-panic", fmt.Sprintf("ciphertext %x decrypts to %d bytes of text: GPPPDecryptBytes panics", ct, len(pt))
			}
			return "C12/total/gppp_decrypt_bytes", fmt.Sprintf("panic on ciphertext %x", ct)
		}
		if len(pt)%2 == 1 {
			if err == nil {
				return "C12/gpp/odd-length-plaintext-accepted", fmt.Sprintf("ciphertext %x decrypts to %d bytes of text, returned %q", ct, len(pt), dec)
			}
			return "", ""
		}
		us := make([]uint16, len(pt)/2)
		for i := range us {
			us[i] = uint16(pt[2*i]) | uint16(pt[2*i+1])<<8
		}
		if want := string(stdutf16.Decode(us)); err != nil || dec != want {
			return "C12/gpp/decrypt-bytes", fmt.Sprintf("plaintext %x: got %q, %v want %q", pt, dec, err, want)
		}
		return "", ""
	})

	// totality observations of the decoding entry points (reused by C07): args: input
	total := func(name string, f func(b []byte)) {
		Oracle("c12.total."+name, func(a []Val) (string, string) {
			if c12PanicsOn(func() { f(exact(a[0].B)) }) {
				key := "C12/total/" + name
				if strings.HasPrefix(name, "gppp_decrypt") {
					// classify: does the (independently) decrypted text have an odd length?
					ct := a[0].B
					if name == "gppp_decrypt_b64" {
						s := string(ct)
						switch len(s) % 4 {
						case 1:
							s = s[:len(s)-1]
						case 2, 3:
							s += strings.Repeat("=", 4-len(s)%4)
						}
						ct, _ = base64.StdEncoding.DecodeString(s)
					}
					if len(ct) > 0 && len(ct)%16 == 0 {
						if k, ok := c12ValidPad(c12RefCBCDecrypt(ct)); ok && (len(ct)-k)%2 == 1 {
							key = "C12/gpp/odd-length-plaintext-panic"
						}
					}
				}
				return key, fmt.Sprintf("%s panics on %x (%d bytes)", name, head12(a[0].B), len(a[0].B))
			}
			return "", ""
		})
	}
	total("unpad", func(b []byte) { pkcs7.Unpad(b) })
	total("gppp_decrypt_bytes", func(b []byte) { gppp.GPPPDecryptBytes(b) })
	total("gppp_decrypt_b64", func(b []byte) { gppp.GPPPDecryptBase64(string(b)) })

	Gen("C12", genC12Rc4)
	Gen("C12", genC12Cmac)
	Gen("C12", genC12Pkcs7)
	Gen("C12", genC12Gppp)
}

func head12(b []byte) []byte {
	if len(b) > 12 {
		return b[:12]
	}
	return b
}
