//go:build c08 || allprops

package main

// Independent MS-NLMP reference used by the C08 oracles: validity checkers for NEGOTIATE (2.2.1.1)
// and AUTHENTICATE (2.2.1.3) messages, an encoder for CHALLENGE (2.2.1.2) messages and AV pairs
// (2.2.2.1).  Written from the specification with encoding/binary and unicode/utf16 of the Go
// standard library only; validated against github.com/Azure/go-ntlmssp (c08.ref.* oracles).
//
// The upper-case table coq/Model/C08UpperTable.v was generated once from the standard library by:
//   for _, cr := range unicode.CaseRanges { d := cr.Delta[unicode.UpperCase]
//       print (cr.Lo, cr.Hi, d > unicode.MaxRune ? None : Some d) }
// and is tied to unicode.ToUpper by the text.upper_rune correspondence cases.

import (
	"bytes"
	"encoding/binary"
	"fmt"
	"unicode/utf16"

	ntlmssp "github.com/Azure/go-ntlmssp"
)

var ntlmSig = []byte("NTLMSSP\x00")

type nlDesc struct {
	Len, Max uint16
	Off      uint32
}

func rdDesc(b []byte, at int) nlDesc {
	return nlDesc{binary.LittleEndian.Uint16(b[at:]), binary.LittleEndian.Uint16(b[at+2:]), binary.LittleEndian.Uint32(b[at+4:])}
}

// encodeName is the byte string a name occupies in the given character set; ok=false when the OEM
// character set (defined here on ASCII only, the part every OEM code page shares) cannot carry it.
func encodeName(unicodeCS bool, s string) (b []byte, ok bool) {
	if unicodeCS {
		for _, u := range utf16.Encode([]rune(s)) {
			b = append(b, byte(u), byte(u>>8))
		}
		return b, true
	}
	for i := 0; i < len(s); i++ {
		if s[i] >= 0x80 {
			return []byte(s), false
		}
	}
	return []byte(s), true
}

func nameTooLong(unicodeCS bool, s string) bool {
	b, _ := encodeName(unicodeCS, s)
	return len(b) > 0xffff
}

// checkField checks one (Len, MaxLen, BufferOffset) descriptor against the bytes it must designate.
func checkField(msgKind, field string, msg []byte, d nlDesc, hdrMin int, want []byte) (string, string) {
	return checkFieldL(msgKind, field, msg, d, hdrMin, want, false)
}

// lenientEmpty: MS-NLMP leaves the offset of an absent (zero-length) field unconstrained.
func checkFieldL(msgKind, field string, msg []byte, d nlDesc, hdrMin int, want []byte, lenientEmpty bool) (string, string) {
	if int(d.Len) != len(want) {
		if len(want) > 0xffff {
			return "C08/" + msgKind + "/descriptor-length-truncated", fmt.Sprintf("%s: field of %d bytes described by Len=%d (16-bit wrap)", field, len(want), d.Len)
		}
		return "C08/" + msgKind + "/" + field + "/len", fmt.Sprintf("%s: Len=%d, field has %d bytes", field, d.Len, len(want))
	}
	if d.Len != d.Max {
		return "C08/" + msgKind + "/" + field + "/maxlen", fmt.Sprintf("%s: Len=%d MaxLen=%d", field, d.Len, d.Max)
	}
	if d.Len == 0 && lenientEmpty {
		return "", ""
	}
	if uint64(d.Off)+uint64(d.Len) > uint64(len(msg)) {
		return "C08/" + msgKind + "/" + field + "/out-of-bounds", fmt.Sprintf("%s: offset %d + len %d beyond message of %d bytes", field, d.Off, d.Len, len(msg))
	}
	if int(d.Off) < hdrMin {
		return "C08/" + msgKind + "/" + field + "/overlaps-header", fmt.Sprintf("%s: offset %d inside the %d-byte header", field, d.Off, hdrMin)
	}
	if !bytes.Equal(msg[d.Off:int(d.Off)+int(d.Len)], want) {
		return "C08/" + msgKind + "/" + field + "/bytes", fmt.Sprintf("%s: designated bytes %x, field is %x", field, clipB(msg[d.Off:int(d.Off)+int(d.Len)]), clipB(want))
	}
	return "", ""
}

func disjoint(msgKind string, names []string, ds []nlDesc) (string, string) {
	for i := range ds {
		for j := i + 1; j < len(ds); j++ {
			a, b := ds[i], ds[j]
			if a.Len == 0 || b.Len == 0 {
				continue
			}
			if uint64(a.Off)+uint64(a.Len) > uint64(b.Off) && uint64(b.Off)+uint64(b.Len) > uint64(a.Off) {
				return "C08/" + msgKind + "/overlap", fmt.Sprintf("%s [%d,+%d) overlaps %s [%d,+%d)", names[i], a.Off, a.Len, names[j], b.Off, b.Len)
			}
		}
	}
	return "", ""
}

const (
	fUnicode  = 0x00000001
	fOEM      = 0x00000002
	fDomSupp  = 0x00001000
	fWsSupp   = 0x00002000
	fVersion  = 0x02000000
	fLMKey    = 0x00000080
	fKeyExch  = 0x40000000
	fESS      = 0x00080000
	fTargetIn = 0x00800000
)

// checkNegotiate: msg is a valid NEGOTIATE_MESSAGE carrying the names dom / ws in character set cs.
func checkNegotiate(msg []byte, hdrMin int, unicodeCS bool, dom, ws string) (string, string) {
	if len(msg) < 32 || !bytes.Equal(msg[:8], ntlmSig) {
		return "C08/negotiate/signature", fmt.Sprintf("bad signature / short message %x", clipB(msg))
	}
	if t := binary.LittleEndian.Uint32(msg[8:]); t != 1 {
		return "C08/negotiate/message-type", fmt.Sprintf("MessageType %d", t)
	}
	flags := binary.LittleEndian.Uint32(msg[12:])
	if flags&fVersion != 0 && len(msg) < 40 {
		return "C08/negotiate/version", "NEGOTIATE_VERSION set but no Version field"
	}
	db, ok1 := encodeName(unicodeCS, dom)
	wb, ok2 := encodeName(unicodeCS, ws)
	if !ok1 || !ok2 {
		return "C08/oem-non-ascii-name", fmt.Sprintf("OEM character set requested for the non-ASCII name %q / %q: the message carries UTF-8 bytes", clip(dom), clip(ws))
	}
	dd, wd := rdDesc(msg, 16), rdDesc(msg, 24)
	if k, d := checkField("negotiate", "DomainName", msg, dd, hdrMin, db); k != "" {
		return k, d
	}
	if k, d := checkField("negotiate", "Workstation", msg, wd, hdrMin, wb); k != "" {
		return k, d
	}
	if k, d := disjoint("negotiate", []string{"DomainName", "Workstation"}, []nlDesc{dd, wd}); k != "" {
		return k, d
	}
	if (flags&fDomSupp != 0) != (len(db) > 0) || (flags&fWsSupp != 0) != (len(wb) > 0) {
		return "C08/negotiate/supplied-flags", fmt.Sprintf("flags %#x vs domain %d bytes, workstation %d bytes", flags, len(db), len(wb))
	}
	if flags&(fUnicode|fOEM) == 0 {
		return "C08/negotiate/charset-flags", fmt.Sprintf("flags %#x request no character set", flags)
	}
	return "", ""
}

type authExpect struct {
	hdrMin              int
	unicode             bool
	flags               uint32
	dom, user, ws       string
	lmLen, ntLen        int // -1: any
	keyLen              int
	version             []byte // nil: not checked
	exactCover          bool   // header + payloads make up the whole message, nothing else
	skipFlags, skipWork bool
	lenientEmpty        bool
}

// checkAuthenticate: msg is a valid AUTHENTICATE_MESSAGE carrying exactly the expected fields.
func checkAuthenticate(msg []byte, e authExpect) (string, string) {
	if len(msg) < 64 || !bytes.Equal(msg[:8], ntlmSig) {
		return "C08/authenticate/signature", fmt.Sprintf("bad signature / short message %x", clipB(msg))
	}
	if t := binary.LittleEndian.Uint32(msg[8:]); t != 3 {
		return "C08/authenticate/message-type", fmt.Sprintf("MessageType %d", t)
	}
	names := []string{"LmChallengeResponse", "NtChallengeResponse", "DomainName", "UserName", "Workstation", "EncryptedRandomSessionKey"}
	ds := make([]nlDesc, 6)
	for i := range ds {
		ds[i] = rdDesc(msg, 12+8*i)
	}
	db, ok1 := encodeName(e.unicode, e.dom)
	ub, ok2 := encodeName(e.unicode, e.user)
	wb, ok3 := encodeName(e.unicode, e.ws)
	if !ok1 || !ok2 || !ok3 {
		return "C08/oem-non-ascii-name", fmt.Sprintf("OEM character set negotiated for a non-ASCII name (%q, %q, %q): the message carries UTF-8 bytes", clip(e.dom), clip(e.user), clip(e.ws))
	}
	total := e.hdrMin
	for i, want := range [][]byte{nil, nil, db, ub, wb, nil} {
		d := ds[i]
		switch i {
		case 0, 1, 5:
			wl := []int{e.lmLen, e.ntLen, 0, 0, 0, e.keyLen}[i]
			if wl > 0xffff {
				return "C08/authenticate/descriptor-length-truncated", fmt.Sprintf("%s: field of %d bytes described by Len=%d (16-bit wrap)", names[i], wl, d.Len)
			}
			if wl >= 0 && int(d.Len) != wl {
				return "C08/authenticate/" + names[i] + "/len", fmt.Sprintf("%s: Len=%d want %d", names[i], d.Len, wl)
			}
			if uint64(d.Off)+uint64(d.Len) > uint64(len(msg)) {
				return "C08/authenticate/" + names[i] + "/out-of-bounds", fmt.Sprintf("%s: offset %d + len %d beyond message of %d bytes", names[i], d.Off, d.Len, len(msg))
			}
			want = msg[d.Off : int(d.Off)+int(d.Len)]
		case 4:
			if e.skipWork {
				want = msg[min(int(d.Off), len(msg)):min(int(d.Off)+int(d.Len), len(msg))]
			}
		}
		if k, dt := checkFieldL("authenticate", names[i], msg, d, e.hdrMin, want, e.lenientEmpty); k != "" {
			return k, dt
		}
		total += int(d.Len)
	}
	if k, d := disjoint("authenticate", names, ds); k != "" {
		return k, d
	}
	if e.exactCover && total != len(msg) {
		return "C08/authenticate/stray-bytes", fmt.Sprintf("header %d + payloads = %d, message has %d bytes", e.hdrMin, total, len(msg))
	}
	if !e.skipFlags {
		if f := binary.LittleEndian.Uint32(msg[60:]); f != e.flags {
			return "C08/authenticate/flags", fmt.Sprintf("NegotiateFlags %#x want %#x", f, e.flags)
		}
	}
	if e.version != nil && !bytes.Equal(msg[64:72], e.version) {
		return "C08/authenticate/version", fmt.Sprintf("Version %x want %x", msg[64:72], e.version)
	}
	return "", ""
}

// ---- AV pairs and CHALLENGE encoder ----

type avPair struct {
	id  uint16
	val []byte
}

func avPairsOf(v Val) []avPair {
	var out []avPair
	for _, p := range v.L {
		out = append(out, avPair{uint16(p.L[0].Uint()), p.L[1].B})
	}
	return out
}

func avVals(ps []avPair) Val {
	out := make([]Val, len(ps))
	for i, p := range ps {
		out[i] = L(U(uint64(p.id)), B(p.val))
	}
	return L(out...)
}

func avEncode(ps []avPair, terminated bool) []byte {
	out := []byte{}
	for _, p := range ps {
		out = binary.LittleEndian.AppendUint16(out, p.id)
		out = binary.LittleEndian.AppendUint16(out, uint16(len(p.val)))
		out = append(out, p.val...)
	}
	if terminated {
		out = append(out, 0, 0, 0, 0)
	}
	return out
}

// avCompare: the parsed map is exactly the pairs, the last value winning for a repeated AvId.
func avCompare(m map[uint16][]byte, ps []avPair) (string, string) {
	want := map[uint16][]byte{}
	for _, p := range ps {
		want[p.id] = p.val
	}
	if len(m) != len(want) {
		return "C08/target-info/pairs", fmt.Sprintf("parsed %d distinct AvIds, carried %d", len(m), len(want))
	}
	for id, v := range want {
		g, ok := m[id]
		if !ok || !bytes.Equal(g, v) {
			return "C08/target-info/pairs", fmt.Sprintf("AvId %d: parsed %x (present=%v), carried %x", id, clipB(g), ok, clipB(v))
		}
	}
	return "", ""
}

// challengeEncode lays a CHALLENGE_MESSAGE out: 56-byte header, then the payload in the order and
// with the padding chosen by variant (bit 0: TargetInfo first; bit 1: 4 bytes of padding between;
// bit 3: trailing bytes after the payload).
func challengeEncode(flags uint32, sc, tname, tinfo, ver []byte, variant int) []byte {
	h := make([]byte, 56)
	copy(h, ntlmSig)
	binary.LittleEndian.PutUint32(h[8:], 2)
	binary.LittleEndian.PutUint32(h[20:], flags)
	copy(h[24:32], sc)
	if flags&fVersion != 0 {
		copy(h[48:56], ver)
	}
	payload := []byte{}
	put := func(at int, b []byte) {
		binary.LittleEndian.PutUint16(h[at:], uint16(len(b)))
		binary.LittleEndian.PutUint16(h[at+2:], uint16(len(b)))
		binary.LittleEndian.PutUint32(h[at+4:], uint32(56+len(payload)))
		payload = append(payload, b...)
	}
	pad := func() {
		if variant&2 != 0 {
			payload = append(payload, 0xee, 0xee, 0xee, 0xee)
		}
	}
	if variant&1 != 0 {
		put(40, tinfo)
		pad()
		put(12, tname)
	} else {
		put(12, tname)
		pad()
		put(40, tinfo)
	}
	if variant&8 != 0 {
		payload = append(payload, 0xdd, 0xdd)
	}
	return append(h, payload...)
}

// ---- validation of the reference side against github.com/Azure/go-ntlmssp ----

// args: domain, workstation (ASCII)
func refNegotiate(a []Val) (string, string) {
	dom, ws := a[0].Str(), a[1].Str()
	msg, err := ntlmssp.NewNegotiateMessage(dom, ws)
	if err != nil {
		return "C08/ref/negotiate", err.Error()
	}
	// go-ntlmssp writes OEM (upper-cased ASCII) names as MS-NLMP 2.2.1.1 prescribes
	if k, d := checkNegotiate(msg, 40, false, asciiUpper(dom), asciiUpper(ws)); k != "" {
		return "C08/ref/negotiate", "go-ntlmssp NEGOTIATE fails the reference checker: " + k + " " + d
	}
	return "", ""
}

func asciiUpper(s string) string {
	b := []byte(s)
	for i, c := range b {
		if 'a' <= c && c <= 'z' {
			b[i] = c - 32
		}
	}
	return string(b)
}

// args: flags, server challenge, target name (a Go string), pairs, user
func refChallenge(a []Val) (string, string) {
	flags := uint32(a[0].Uint())&^(fLMKey|fKeyExch) | fUnicode
	tname := a[2].Str()
	tn, _ := encodeName(true, tname)
	pairs := avPairsOf(a[3])
	data := challengeEncode(flags, a[1].B, tn, avEncode(pairs, true), []byte{6, 1, 0xb1, 0x1d, 0, 0, 0, 15}, 0)
	user := a[4].Str()
	out, err := ntlmssp.ProcessChallenge(data, user, "pw", true)
	if err != nil {
		return "C08/ref/challenge", fmt.Sprintf("go-ntlmssp rejects the reference CHALLENGE %x: %v", clipB(data), err)
	}
	// its AUTHENTICATE (64-byte header, names in UTF-16LE) must satisfy the reference checker
	tsLen := 8 // go-ntlmssp copies the server's MsvAvTimestamp value (whatever its length) into the response
	for _, p := range pairs {
		if p.id == 7 {
			tsLen = len(p.val)
		}
	}
	e := authExpect{hdrMin: 64, unicode: true, dom: string([]rune(tname)), user: user, ws: "", lmLen: 0, ntLen: 16 + 8 + tsLen + 8 + 4 + len(avEncode(pairs, true)) + 4,
		keyLen: 0, exactCover: true, skipFlags: true, lenientEmpty: true}
	if k, d := checkAuthenticate(out, e); k != "" {
		return "C08/ref/authenticate", "go-ntlmssp AUTHENTICATE fails the reference checker: " + k + " " + d
	}
	return "", ""
}
