//go:build c18 || allprops

package main

// Go-side oracles of C18.  The deterministic ones (routing, response-for-request, query guards,
// truncation, framing, totality) state the property directly on the real code.  The loopback
// ones (isolation under load, shutdown, goroutine counts) are RUNTIME SUPPORT, not proof: they
// can expose a violation (and then give a replay) but their passing proves nothing.

import (
	"bytes"
	"context"
	"encoding/binary"
	"fmt"
	"io"
	"net"
	"runtime"
	"strings"
	"sync"
	"time"

	"github.com/TheManticoreProject/Manticore/network/llmnr"
	"github.com/TheManticoreProject/Manticore/network/netbios/nbtns"
)

var c18KindName = []string{"server", "udp_server", "tcp_server", "tcp_server", "server", "udp_server"}

// RFC 1002 4.2.1.1: R=0 request; OPCODE 0 query, 5 registration, 6 release, 7 WACK (a response,
// never a request: no request handler), 8 refresh (9 in the 4.2.4 diagram); everything else has no handler.
func c18RFCHandler(flags uint16) uint64 {
	if flags&0x8000 != 0 {
		return 4
	}
	switch (flags >> 11) & 0xF {
	case 0:
		return 0
	case 5:
		return 1
	case 6:
		return 2
	case 8, 9:
		return 3
	}
	return 4
}

func c18OpKey(prefix string, flags uint16) string {
	k := fmt.Sprintf("%s-opcode-%d", prefix, (flags>>11)&0xF)
	if flags&0x8000 != 0 {
		k += "-response"
	}
	return k
}

func registerC18Oracles() {
	// (kind flags)
	Oracle("c18.routing", func(a []Val) (string, string) {
		kind, flags := int(a[0].Uint()), uint16(a[1].Uint())
		got := c18RouteProbe(kind, flags)
		want := c18RFCHandler(flags)
		if got.K != 'n' || got.Uint() != want {
			return c18OpKey("C18/misrouted-"+c18KindName[kind], flags),
				fmt.Sprintf("%s: flags %#04x (opcode %d) reached handler %s, RFC 1002 assigns %d (0 query 1 registration 2 release 3 refresh 4 none)",
					c18KindName[kind], flags, (flags>>11)&0xF, got.String(), want)
		}
		return "", ""
	})
	// (which flags): 0 DefendName, 1 HandleRedirect act on name queries (R=0, opcode 0) only
	Oracle("c18.query_guard", func(a []Val) (string, string) {
		which, flags := a[0].Uint(), uint16(a[1].Uint())
		req := c18Packet(c18P(7, flags, []Val{c18Q("GUARDED", "scope", 0x20, 1)}, nil))
		resp := &nbtns.NBTNSPacket{}
		acted := false
		name := "defend"
		if which == 0 {
			t := nbtns.NewNetBIOSNameServer(true)
			t.RegisterName("GUARDED", nbtns.Unique, net.IP([]byte{10, 0, 0, 1}), time.Hour)
			nbtns.NewNameChallenger(t, nbtns.NewPacketHandler(t)).DefendName(req, resp)
			acted = len(resp.Answers) > 0
		} else {
			name = "redirect"
			m := nbtns.NewRedirectManager()
			m.AddRedirect("scope", net.IP([]byte{10, 0, 0, 2}), 137)
			acted = m.HandleRedirect(req, resp)
		}
		want := c18RFCHandler(flags) == 0
		if acted != want {
			return c18OpKey("C18/"+name, flags), fmt.Sprintf("%s: flags %#04x acted=%v, want %v (only name queries)", name, flags, acted, want)
		}
		return "", ""
	})
	// (kind ops): every response of a session is for its request
	Oracle("c18.response_for_request", oracleResponseForRequest)
	// (kind n): n back-to-back datagrams, one scheduler thread
	Oracle("c18.isolation_burst", oracleIsolationBurst)
	// (kind clients perClient)
	Oracle("c18.concurrent_clients", oracleConcurrentClients)
	// (what inflight): what 0 server 1 udp_server 2 tcp_server 3 llmnr server 4 llmnr client
	Oracle("c18.shutdown", oracleShutdown)
	// (first frame, second frame): a TCP connection answers the second frame exactly as a fresh connection to a
	// server in the same state answers it alone - each request is served from its own bytes, whatever was
	// received before it on the connection (in particular a longer frame)
	Oracle("c18.tcp_frames_independent", func(a []Val) (string, string) {
		run := func(frames [][]byte) []byte {
			s, err := c18Start(3)
			if err != nil {
				return []byte("start failed")
			}
			defer s.Stop()
			s.table.RegisterName("HOSTA", nbtns.Unique, net.IP([]byte{10, 1, 2, 3}), time.Hour)
			var last []byte
			for _, f := range frames {
				last = s.Exchange(f)
			}
			_, _, qerr := s.table.QueryName("HOSTA")
			return append(append([]byte{}, last...), map[bool]byte{true: 1, false: 0}[qerr == nil])
		}
		r1 := run([][]byte{a[0].B, a[1].B})
		r2 := run([][]byte{a[1].B})
		if !bytes.Equal(r1, r2) {
			return "C18/tcp-request-not-served-from-its-own-bytes", fmt.Sprintf("frame %x after frame %x (%d bytes) on one connection: response/state %x; alone on a fresh connection: %x", a[1].B, trunc16(a[0].B), len(a[0].B), r1, r2)
		}
		return "", ""
	})
	// (owners)
	Oracle("c18.udp_truncation", func(a []Val) (string, string) {
		owners := int(a[0].Uint())
		full := c18FullResponse(owners)
		d := c18UDPDatagram(1, owners)
		if full == nil || d == nil {
			return "C18/udp-no-response", fmt.Sprintf("owners=%d: no response", owners)
		}
		if len(d) > 576 {
			return "C18/udp-datagram-too-long", fmt.Sprintf("owners=%d: %d bytes", owners, len(d))
		}
		if len(full) <= 576 {
			if !bytes.Equal(full, d) {
				return "C18/udp-differs-from-tcp", fmt.Sprintf("owners=%d", owners)
			}
			return "", ""
		}
		if binary.BigEndian.Uint16(d[2:4])&0x0200 == 0 {
			return "C18/udp-truncated-without-tc", fmt.Sprintf("group of %d owners: the %d-byte response is cut to %d bytes but the TC bit of the datagram is clear (flags %#04x)",
				owners, len(full), len(d), binary.BigEndian.Uint16(d[2:4]))
		}
		if binary.BigEndian.Uint16(d[0:2]) != 0x4242 {
			return "C18/resp-id", "truncated datagram lost the transaction id"
		}
		return "", ""
	})
	// (questions): the stream written for one request must deframe to exactly the response (or be empty)
	Oracle("c18.tcp_framing", func(a []Val) (string, string) {
		full, stream := c18TCPBig(int(a[0].Uint()))
		if full == nil {
			return "C18/tcp-no-response", "handler error"
		}
		if len(stream) == 0 && len(full) > 65535 {
			return "", "" // the server refused to send what it cannot frame
		}
		msgs, ok := c18Deframe(stream)
		if !ok || len(msgs) != 1 || !bytes.Equal(msgs[0], full) {
			return "C18/tcp-length-prefix-wraps", fmt.Sprintf("%d questions: the %d-byte response is framed with length prefix %d; the stream (%d bytes) does not deframe to the response",
				a[0].Uint(), len(full), binary.BigEndian.Uint16(stream[:2]), len(stream))
		}
		return "", ""
	})
	// (n splits seed): n pipelined requests written in arbitrary pieces come back in order
	Oracle("c18.tcp_pipelining", oracleTCPPipelining)
	// totality observations (C07 reuses them)
	Oracle("c18.total.server_handle_packet", func(a []Val) (string, string) { return c18TotalNbns(0, a[0].B) })
	Oracle("c18.total.udp_handle_packet", func(a []Val) (string, string) { return c18TotalNbns(1, a[0].B) })
	Oracle("c18.total.tcp_handle_message", func(a []Val) (string, string) { return c18TotalNbns(2, a[0].B) })
	Oracle("c18.total.defend_redirect", func(a []Val) (string, string) {
		var p nbtns.NBTNSPacket
		dirty(&p)
		if _, err := p.Unmarshal(exact(a[0].B)); err != nil {
			return "", ""
		}
		panicked, timedOut, _, pv := Guarded(2*time.Second, func() {
			t := nbtns.NewNetBIOSNameServer(true)
			t.RegisterName("X", nbtns.Group, net.IP([]byte{1, 2, 3, 4}), time.Hour)
			nbtns.NewNameChallenger(t, nbtns.NewPacketHandler(t)).DefendName(&p, &nbtns.NBTNSPacket{})
			m := nbtns.NewRedirectManager()
			m.AddRedirect("", net.IP([]byte{1, 2, 3, 4}), 1)
			m.HandleRedirect(&p, &nbtns.NBTNSPacket{})
		})
		if panicked || timedOut {
			return "C18/panic-defend-redirect", fmt.Sprintf("input %x: panic=%v timeout=%v", a[0].B, pv, timedOut)
		}
		return "", ""
	})
	// (stream): arbitrary bytes on a TCP connection: the server answers or closes, never hangs
	Oracle("c18.total.tcp_stream", func(a []Val) (string, string) {
		s, err := c18Start(3)
		if err != nil {
			return "C18/harness", err.Error()
		}
		defer s.Stop()
		s.tcp.SetDeadline(time.Now().Add(2 * time.Second))
		s.tcp.Write(a[0].B)
		s.tcp.(*net.TCPConn).CloseWrite()
		if _, err := io.ReadAll(s.tcp); err != nil {
			return "C18/tcp-stream-hangs", fmt.Sprintf("stream %x: %v", a[0].B, err)
		}
		return "", ""
	})
	// (datagram): arbitrary datagram to the LLMNR server / client loops, which must keep serving
	Oracle("c18.total.llmnr_server_datagram", func(a []Val) (string, string) {
		srv := c18Llmnr()
		c, _ := net.DialUDP("udp4", nil, srv.Conn.LocalAddr().(*net.UDPAddr))
		defer c.Close()
		c.Write(a[0].B)
		got := c18LlmnrAsk(c, 0x7777, 0, "alive.local", 1)
		if got.K != 'l' {
			// the datagram itself may have been a query that was answered first; ask once more
			got = c18LlmnrAsk(c, 0x7778, 0, "alive.local", 1)
		}
		if got.K != 'l' {
			return "C18/llmnr-server-stops-serving", fmt.Sprintf("after datagram %x the server no longer answers", a[0].B)
		}
		return "", ""
	})
	// (rcode): ChallengeOwnership against a node (loopback, port 137) that answers with this rcode and its address
	Oracle("c18.challenge_rcode", oracleChallengeRcode)
	// (what): Stop/Close called twice, from two goroutines' worth of callers
	Oracle("c18.stop_twice", func(a []Val) (string, string) {
		what := int(a[0].Uint())
		names := []string{"server", "udp_server", "tcp_server"}
		s, err := c18Start([]int{4, 5, 3}[what])
		if err != nil {
			return "C18/harness", err.Error()
		}
		panicked, timedOut, _, pv := Guarded(3*time.Second, func() { s.Stop(); s.Stop() })
		if panicked || timedOut {
			return "C18/stop-twice-" + names[what], fmt.Sprintf("%s: second Stop: panic=%v hang=%v", names[what], pv, timedOut)
		}
		return "", ""
	})
	// (k seed)
	Oracle("c18.llmnr_demux", oracleLlmnrDemux)
	Oracle("c18.llmnr_query", oracleLlmnrQuery)
}

func c18TotalNbns(kind int, data []byte) (string, string) {
	var pv interface{}
	panicked, timedOut := false, false
	s, err := c18Start(kind)
	if err != nil {
		return "C18/harness", err.Error()
	}
	defer s.Stop()
	s.table.RegisterName("X", nbtns.Group, net.IP([]byte{1, 2, 3, 4}), time.Hour)
	panicked, timedOut, _, pv = Guarded(2*time.Second, func() {
		switch kind {
		case 0:
			s.s0.VerifHandlePacket(exact(data), s.cli.LocalAddr().(*net.UDPAddr))
		case 1:
			s.s1.VerifHandlePacket(exact(data), s.cli.LocalAddr().(*net.UDPAddr))
		case 2:
			s.s2.VerifHandleMessage(exact(data))
		}
	})
	if panicked || timedOut {
		return "C18/panic-" + c18KindName[kind], fmt.Sprintf("input %x: panic=%v timeout=%v", data, pv, timedOut)
	}
	return "", ""
}

func c18Deframe(stream []byte) ([][]byte, bool) {
	var out [][]byte
	for len(stream) > 0 {
		if len(stream) < 2 {
			return out, false
		}
		n := int(binary.BigEndian.Uint16(stream))
		if len(stream) < 2+n {
			return out, false
		}
		out = append(out, stream[2:2+n])
		stream = stream[2+n:]
	}
	return out, true
}

// ---------------------------------------------------------------- response-for-request

func oracleResponseForRequest(a []Val) (string, string) {
	kind := int(a[0].Uint())
	s, err := c18Start(kind)
	if err != nil {
		return "C18/harness", err.Error()
	}
	defer s.Stop()
	for i, op := range a[1].L {
		if op.L[0].Uint() != 0 {
			s.applyOp(op)
			continue
		}
		reqV := op.L[1]
		req := c18Packet(reqV)
		// what the table says right now for each question (the request's own questions only)
		type ans struct {
			name  string
			rdata []byte
		}
		var want []ans
		nameErr := false
		isQuery := c18RFCHandler(req.Header.Flags) == 0
		if isQuery {
			for _, q := range req.Questions {
				owners, _, err := s.table.QueryName(q.Name.Name)
				if err != nil {
					nameErr = true
					break
				}
				for _, o := range owners {
					want = append(want, ans{q.Name.Name, o})
				}
			}
		}
		raw, err := req.Marshal()
		if err != nil {
			continue
		}
		resp := s.Exchange(raw)
		where := fmt.Sprintf("%s op %d request id %#04x flags %#04x", c18KindName[kind], i, req.Header.TransactionID, req.Header.Flags)
		if resp == nil {
			return "C18/no-response", where
		}
		if len(resp) < 12 {
			return "C18/resp-short", where
		}
		if binary.BigEndian.Uint16(resp[0:2]) != req.Header.TransactionID {
			return "C18/resp-id", fmt.Sprintf("%s: response id %#04x", where, binary.BigEndian.Uint16(resp[0:2]))
		}
		if binary.BigEndian.Uint16(resp[2:4])&0x8000 == 0 {
			return "C18/resp-not-a-response", where
		}
		var p nbtns.NBTNSPacket
		dirty(&p)
		n, err := p.Unmarshal(exact(resp))
		if err != nil || n != len(resp) {
			qd := binary.BigEndian.Uint16(resp[4:6])
			if qd != 0 && len(req.Questions) > 0 {
				// is it explained by a question count announced without question entries?
				fixed := append([]byte{}, resp...)
				fixed[4], fixed[5] = 0, 0
				var p2 nbtns.NBTNSPacket
				dirty(&p2)
				if n2, err2 := p2.Unmarshal(exact(fixed)); err2 == nil && n2 == len(fixed) {
					return "C18/resp-qdcount-without-questions", fmt.Sprintf("%s: response %x announces QDCOUNT=%d but carries no question entry; a parser reads the answer records as questions (%v)", where, resp, qd, err)
				}
			}
			return "C18/resp-unparsable", fmt.Sprintf("%s: response %x: %v", where, resp, err)
		}
		if int(p.Header.Questions) != len(p.Questions) || int(p.Header.Answers) != len(p.Answers) {
			return "C18/resp-counts", where
		}
		if !isQuery {
			if len(p.Answers) != 0 {
				return "C18/resp-answer-not-for-question", where + ": answers in a non-query response"
			}
			continue
		}
		if nameErr != (p.Header.Flags&0xF == 3) {
			return "C18/resp-rcode", fmt.Sprintf("%s: rcode %d, name error expected=%v", where, p.Header.Flags&0xF, nameErr)
		}
		if len(p.Answers) != len(want) {
			return "C18/resp-answer-count", fmt.Sprintf("%s: %d answers, want %d", where, len(p.Answers), len(want))
		}
		for j, rr := range p.Answers {
			if rr.Name == nil || rr.Name.Name != want[j].name || !bytes.Equal(rr.RData, want[j].rdata) {
				return "C18/resp-answer-not-for-question", fmt.Sprintf("%s: answer %d is %v %x, want %q %x", where, j, rr.Name, rr.RData, want[j].name, want[j].rdata)
			}
		}
	}
	return "", ""
}

// ---------------------------------------------------------------- isolation (runtime support)

func c18IsoName(i int) string { return fmt.Sprintf("ISOLATED%04d", i) }

// n datagrams are queued on the server's socket before its receive loop runs again (one scheduler
// thread, the sender does not yield between sends).  Each must be answered from its own bytes.
func oracleIsolationBurst(a []Val) (string, string) {
	kind, n := int(a[0].Uint()), int(a[1].Uint())
	s, err := c18Start(kind)
	if err != nil {
		return "C18/harness", err.Error()
	}
	defer s.Stop()
	for i := 0; i < n; i++ {
		s.table.RegisterName(c18IsoName(i), nbtns.Unique, net.IP([]byte{0, 0, 10, 77, byte(i >> 8), byte(i)}), time.Hour)
	}
	reqs := make([][]byte, n)
	for i := range reqs {
		reqs[i], _ = c18Packet(c18P(uint16(0x1000+i), 0x0100, []Val{c18Q(c18IsoName(i), "", 0x20, 1)}, nil)).Marshal()
	}
	time.Sleep(5 * time.Millisecond) // let the receive loop block in ReadFromUDP
	old := runtime.GOMAXPROCS(1)
	for _, r := range reqs {
		s.cli.WriteToUDP(r, s.addr)
	}
	got := map[int]int{}
	bad := ""
	buf := make([]byte, 2048)
	s.cli.SetReadDeadline(time.Now().Add(1500 * time.Millisecond))
	for k := 0; k < n; k++ {
		m, _, err := s.cli.ReadFromUDP(buf)
		if err != nil {
			break
		}
		if m < 14 {
			continue
		}
		id := int(binary.BigEndian.Uint16(buf[0:2])) - 0x1000
		owner := int(binary.BigEndian.Uint16(buf[m-2 : m]))
		got[id]++
		if owner != id && bad == "" {
			bad = fmt.Sprintf("response with id %#04x carries the owner of request %d", id+0x1000, owner)
		}
	}
	runtime.GOMAXPROCS(old)
	for i := 0; i < n && bad == ""; i++ {
		if got[i] != 1 {
			bad = fmt.Sprintf("request id %#04x got %d responses (ids answered: %v)", 0x1000+i, got[i], got)
		}
	}
	if bad != "" {
		return "C18/shared-receive-buffer-" + c18KindName[kind], fmt.Sprintf("%s, %d datagrams sent back to back: %s", c18KindName[kind], n, bad)
	}
	return "", ""
}

// clients x perClient requests from concurrent sockets/connections; every response must carry the
// id and the owner of the request it answers.
func oracleConcurrentClients(a []Val) (string, string) {
	kind, clients, per := int(a[0].Uint()), int(a[1].Uint()), int(a[2].Uint())
	s, err := c18Start(kind)
	if err != nil {
		return "C18/harness", err.Error()
	}
	defer s.Stop()
	for i := 0; i < clients; i++ {
		s.table.RegisterName(c18IsoName(i), nbtns.Unique, net.IP([]byte{0, 0, 10, 77, byte(i >> 8), byte(i)}), time.Hour)
	}
	var mu sync.Mutex
	bad := ""
	report := func(s string) {
		mu.Lock()
		if bad == "" {
			bad = s
		}
		mu.Unlock()
	}
	var wg sync.WaitGroup
	for c := 0; c < clients; c++ {
		wg.Add(1)
		go func(c int) {
			defer wg.Done()
			var udp *net.UDPConn
			var tcp net.Conn
			if kind == 3 {
				tcp, err = net.Dial("tcp", s.s2.VerifAddr().String())
				if err != nil {
					report("dial: " + err.Error())
					return
				}
				defer tcp.Close()
				tcp.SetDeadline(time.Now().Add(5 * time.Second))
			} else {
				udp, _ = net.DialUDP("udp4", nil, s.addr)
				defer udp.Close()
			}
			for k := 0; k < per; k++ {
				id := uint16(c*per + k)
				req, _ := c18Packet(c18P(id, 0x0100, []Val{c18Q(c18IsoName(c), "", 0x20, 1)}, nil)).Marshal()
				var resp []byte
				if tcp != nil {
					frame := make([]byte, 2, 2+len(req))
					binary.BigEndian.PutUint16(frame, uint16(len(req)))
					tcp.Write(append(frame, req...))
					var lb [2]byte
					if _, err := io.ReadFull(tcp, lb[:]); err != nil {
						report(fmt.Sprintf("client %d: %v", c, err))
						return
					}
					resp = make([]byte, binary.BigEndian.Uint16(lb[:]))
					io.ReadFull(tcp, resp)
				} else {
					udp.Write(req)
					buf := make([]byte, 2048)
					udp.SetReadDeadline(time.Now().Add(1 * time.Second))
					m, err := udp.Read(buf)
					if err != nil {
						report(fmt.Sprintf("client %d request %d: no response (%v)", c, k, err))
						return
					}
					resp = buf[:m]
				}
				if len(resp) < 14 || binary.BigEndian.Uint16(resp[0:2]) != id || int(binary.BigEndian.Uint16(resp[len(resp)-2:])) != c {
					report(fmt.Sprintf("client %d sent id %#04x for %s, got %x", c, id, c18IsoName(c), resp))
					return
				}
			}
		}(c)
	}
	wg.Wait()
	if bad != "" {
		return "C18/cross-talk-" + c18KindName[kind], bad
	}
	return "", ""
}

// ---------------------------------------------------------------- shutdown (runtime support)

func c18WaitGoroutines(base int, d time.Duration) int {
	deadline := time.Now().Add(d)
	for {
		n := runtime.NumGoroutine()
		if n <= base || time.Now().After(deadline) {
			return n
		}
		time.Sleep(2 * time.Millisecond)
	}
}

func oracleShutdown(a []Val) (string, string) {
	what, inflight := int(a[0].Uint()), int(a[1].Uint())
	names := []string{"server", "udp_server", "tcp_server", "llmnr_server", "llmnr_client"}
	time.Sleep(2 * time.Millisecond)
	base := c18WaitGoroutines(0, 20*time.Millisecond)
	base = runtime.NumGoroutine()
	var stop func()
	var closers []io.Closer
	switch what {
	case 0, 1:
		s, err := c18Start(4 + what)
		if err != nil {
			return "C18/harness", err.Error()
		}
		for i := 0; i < inflight; i++ {
			req, _ := c18Packet(c18P(uint16(i), 0, []Val{c18Q("NOBODY", "", 0x20, 1)}, nil)).Marshal()
			s.cli.WriteToUDP(req, s.addr)
		}
		stop = s.Stop
	case 2:
		s, err := c18Start(3)
		if err != nil {
			return "C18/harness", err.Error()
		}
		// idle connections (blocked in the length read), half-sent messages and pipelined requests
		for i := 0; i < inflight; i++ {
			c, err := net.Dial("tcp", s.s2.VerifAddr().String())
			if err != nil {
				continue
			}
			closers = append(closers, c)
			switch i % 3 {
			case 1:
				c.Write([]byte{0x00, 0x40, 1, 2, 3})
			case 2:
				req, _ := c18Packet(c18P(uint16(i), 0, []Val{c18Q("NOBODY", "", 0x20, 1)}, nil)).Marshal()
				frame := make([]byte, 2, 2+len(req))
				binary.BigEndian.PutUint16(frame, uint16(len(req)))
				c.Write(append(frame, req...))
			}
		}
		stop = s.Stop
	case 3:
		srv, _ := llmnr.NewServer("udp4", []llmnr.Handler{llmnr.HandlerFunc(c18LlmnrHandler)})
		conn, err := net.ListenUDP("udp4", &net.UDPAddr{IP: net.IPv4(127, 0, 0, 1)})
		if err != nil {
			return "C18/harness", err.Error()
		}
		srv.Conn = conn
		done := make(chan struct{})
		go func() { srv.Serve(); close(done) }()
		c, _ := net.DialUDP("udp4", nil, conn.LocalAddr().(*net.UDPAddr))
		closers = append(closers, c)
		for i := 0; i < inflight; i++ {
			m := llmnr.NewMessage()
			m.AddQuestion("stop.local", llmnr.TypeA, llmnr.ClassIN)
			b, _ := m.Encode()
			c.Write(b)
		}
		stop = func() { srv.Close(); srv.Close(); <-done }
	case 4:
		cl, err := llmnr.NewClient()
		if err != nil {
			return "C18/harness", err.Error()
		}
		for i := 0; i < inflight; i++ {
			cl.Queries.Store(uint16(i), make(chan *llmnr.Message, 1))
		}
		stop = func() { cl.Close(); cl.Close() }
	}
	if inflight > 0 {
		time.Sleep(time.Duration(inflight%4) * time.Millisecond)
	}
	t0 := time.Now()
	done := make(chan struct{})
	go func() { stop(); close(done) }()
	hung := false
	select {
	case <-done:
	case <-time.After(3 * time.Second):
		hung = true
	}
	took := time.Since(t0)
	for _, c := range closers {
		c.Close()
	}
	if hung {
		return "C18/stop-hangs-" + names[what], fmt.Sprintf("%s with %d requests/connections in flight: Stop/Close did not return within 3 s", names[what], inflight)
	}
	if took > time.Second {
		return "C18/stop-slow-" + names[what], fmt.Sprintf("%s: Stop/Close took %v", names[what], took)
	}
	if n := c18WaitGoroutines(base, 2*time.Second); n > base {
		return "C18/goroutine-leak-" + names[what], fmt.Sprintf("%s with %d in flight: %d goroutines before start, %d two seconds after Stop/Close returned", names[what], inflight, base, n)
	}
	return "", ""
}

func oracleTCPPipelining(a []Val) (string, string) {
	n, seed := int(a[0].Uint()), a[1].Uint()
	r := NewRng(seed)
	s, err := c18Start(3)
	if err != nil {
		return "C18/harness", err.Error()
	}
	defer s.Stop()
	s.table.RegisterName("PIPE", nbtns.Unique, net.IP([]byte{0, 0, 10, 1, 1, 1}), time.Hour)
	var stream []byte
	for i := 0; i < n; i++ {
		name := "PIPE"
		if i%3 == 2 {
			name = "ABSENT"
		}
		req, _ := c18Packet(c18P(uint16(0x2000+i), 0, []Val{c18Q(name, "", 0x20, 1)}, nil)).Marshal()
		stream = binary.BigEndian.AppendUint16(stream, uint16(len(req)))
		stream = append(stream, req...)
	}
	s.tcp.SetDeadline(time.Now().Add(3 * time.Second))
	go func() {
		rest := stream
		for len(rest) > 0 {
			k := 1 + r.Intn(40)
			if k > len(rest) {
				k = len(rest)
			}
			s.tcp.Write(rest[:k])
			rest = rest[k:]
		}
		s.tcp.(*net.TCPConn).CloseWrite()
	}()
	out, _ := io.ReadAll(s.tcp)
	msgs, ok := c18Deframe(out)
	if !ok || len(msgs) != n {
		return "C18/tcp-pipelining", fmt.Sprintf("%d pipelined requests, %d well-framed responses (stream ok=%v)", n, len(msgs), ok)
	}
	for i, m := range msgs {
		if len(m) < 12 || binary.BigEndian.Uint16(m[0:2]) != uint16(0x2000+i) {
			return "C18/tcp-pipelining", fmt.Sprintf("response %d has id %x", i, m[:2])
		}
		wantRcode := uint16(0)
		if i%3 == 2 {
			wantRcode = 3
		}
		if binary.BigEndian.Uint16(m[2:4])&0xF != wantRcode {
			return "C18/tcp-pipelining", fmt.Sprintf("response %d has rcode %d, want %d", i, binary.BigEndian.Uint16(m[2:4])&0xF, wantRcode)
		}
	}
	return "", ""
}

// ---------------------------------------------------------------- LLMNR

// The handler used by the harness: answers every question with a record whose RDATA is the name.
func c18LlmnrHandler(server *llmnr.Server, remote net.Addr, w llmnr.ResponseWriter, msg *llmnr.Message) bool {
	resp := llmnr.CreateResponseFromMessage(msg)
	for _, q := range msg.Questions {
		resp.AddQuestion(q.Name, q.Type, q.Class)
		resp.AddAnswer(llmnr.ResourceRecord{Name: q.Name, Type: q.Type, Class: q.Class, TTL: 30, RData: []byte(q.Name)})
	}
	w.WriteMessage(resp)
	return false
}

var c18LlmnrSrv *llmnr.Server

// c18Llmnr returns the shared LLMNR server (real Serve loop, loopback socket instead of the multicast group).
func c18Llmnr() *llmnr.Server {
	if c18LlmnrSrv == nil {
		srv, _ := llmnr.NewServer("udp4", []llmnr.Handler{llmnr.HandlerFunc(c18LlmnrHandler)})
		conn, err := net.ListenUDP("udp4", &net.UDPAddr{IP: net.IPv4(127, 0, 0, 1)})
		if err != nil {
			panic(err)
		}
		srv.Conn = conn
		go srv.Serve()
		c18LlmnrSrv = srv
	}
	return c18LlmnrSrv
}

// c18LlmnrAsk sends one message and projects the answer: (id flags qd an qname rdata) or n0 when nothing comes back.
func c18LlmnrAsk(c *net.UDPConn, id, flags uint16, name string, qtype uint16) Val {
	m := llmnr.NewMessage()
	m.ID = id
	m.Flags = flags
	if err := m.AddQuestion(name, qtype, llmnr.ClassIN); err != nil {
		return VErr()
	}
	b, err := m.Encode()
	if err != nil {
		return VErr()
	}
	c.Write(b)
	wait := 400 * time.Millisecond
	if flags&0x8000 != 0 {
		wait = 60 * time.Millisecond
	}
	buf := make([]byte, 2048)
	c.SetReadDeadline(time.Now().Add(wait))
	n, err := c.Read(buf)
	if err != nil {
		return U(0)
	}
	r, err := llmnr.DecodeMessage(exact(buf[:n]))
	if err != nil || len(r.Questions) != 1 || len(r.Answers) != 1 {
		return L(U(2), B(buf[:n]))
	}
	return L(U(uint64(r.ID)), U(uint64(r.Flags)), U(uint64(r.QDCount)), U(uint64(r.ANCount)), S(r.Questions[0].Name), B(r.Answers[0].RData))
}

// llmnr.server_roundtrip (id flags name qtype)
func implLlmnrServerRoundtrip(a []Val) Val {
	srv := c18Llmnr()
	c, err := net.DialUDP("udp4", nil, srv.Conn.LocalAddr().(*net.UDPAddr))
	if err != nil {
		return VErr()
	}
	defer c.Close()
	return c18LlmnrAsk(c, uint16(a[0].Uint()), uint16(a[1].Uint()), a[2].Str(), uint16(a[3].Uint()))
}

// A real Client (its readLoop runs); the harness plays Query's bookkeeping on the exported map so that
// the ids are chosen by the test.  Every datagram is followed by a marker response (id 0xFFFF) and the
// harness waits for the marker, so the order of events is the order of the list.
type c18Demux struct {
	cl     *llmnr.Client
	peer   *net.UDPConn
	marker chan *llmnr.Message
	chans  []chan *llmnr.Message
}

func c18NewDemux() (*c18Demux, error) {
	cl, err := llmnr.NewClient()
	if err != nil {
		return nil, err
	}
	port := cl.Conn.LocalAddr().(*net.UDPAddr).Port
	peer, err := net.DialUDP("udp4", nil, &net.UDPAddr{IP: net.IPv4(127, 0, 0, 1), Port: port})
	if err != nil {
		cl.Close()
		return nil, err
	}
	d := &c18Demux{cl: cl, peer: peer, marker: make(chan *llmnr.Message, 1)}
	cl.Queries.Store(uint16(0xFFFF), d.marker)
	return d, nil
}

func (d *c18Demux) Close() { d.peer.Close(); d.cl.Close() }

func (d *c18Demux) sync() bool {
	m := llmnr.NewMessage()
	m.ID = 0xFFFF
	m.Flags = 0x8000
	b, _ := m.Encode()
	d.peer.Write(b)
	select {
	case <-d.marker:
		return true
	case <-time.After(time.Second):
		return false
	}
}

func (d *c18Demux) send(raw []byte) bool { d.peer.Write(raw); return d.sync() }

// llmnr.client_demux (events): (0 id) a query with this id starts, (1 id) it ends, (2 id flags name) a datagram arrives.
// Result: for every started query, in order, what its channel holds at the end: () or ((id name)).
func implLlmnrClientDemux(a []Val) Val {
	d, err := c18NewDemux()
	if err != nil {
		return VErr()
	}
	defer d.Close()
	for _, ev := range a[0].L {
		switch ev.L[0].Uint() {
		case 0:
			ch := make(chan *llmnr.Message, 1)
			d.chans = append(d.chans, ch)
			d.cl.Queries.Store(uint16(ev.L[1].Uint()), ch)
		case 1:
			d.cl.Queries.Delete(uint16(ev.L[1].Uint()))
		case 2:
			m := llmnr.NewMessage()
			m.ID = uint16(ev.L[1].Uint())
			m.Flags = uint16(ev.L[2].Uint())
			m.AddQuestion(ev.L[3].Str(), llmnr.TypeA, llmnr.ClassIN)
			b, err := m.Encode()
			if err != nil {
				return VErr()
			}
			if !d.send(b) {
				return L(U(8))
			}
		}
	}
	var out []Val
	for _, ch := range d.chans {
		select {
		case m := <-ch:
			name := ""
			if len(m.Questions) > 0 {
				name = m.Questions[0].Name
			}
			out = append(out, L(L(U(uint64(m.ID)), S(name))))
		default:
			out = append(out, L())
		}
	}
	return L(out...)
}

// (k seed): k outstanding queries with distinct ids; responses, queries, garbage and responses with
// unknown ids arrive in random order; each channel must end up with the first response carrying its id.
func oracleLlmnrDemux(a []Val) (string, string) {
	k, seed := int(a[0].Uint()), a[1].Uint()
	r := NewRng(seed)
	d, err := c18NewDemux()
	if err != nil {
		return "C18/harness", err.Error()
	}
	defer d.Close()
	ids := map[uint16]int{}
	var idList []uint16
	for len(ids) < k {
		id := uint16(r.U64())
		if _, ok := ids[id]; ok || id == 0xFFFF {
			continue
		}
		ids[id] = len(d.chans)
		idList = append(idList, id)
		ch := make(chan *llmnr.Message, 1)
		d.chans = append(d.chans, ch)
		d.cl.Queries.Store(id, ch)
	}
	first := map[uint16]string{}
	for step := 0; step < 4*k; step++ {
		id := uint16(r.U64())
		if id == 0xFFFF || r.Intn(3) != 0 {
			id = idList[r.Intn(len(idList))]
		}
		switch r.Intn(5) {
		case 0: // garbage
			if !d.send(r.Bytes(r.Intn(30))) {
				return "C18/llmnr-client-stops-reading", "after a garbage datagram"
			}
		case 1: // a query, must be ignored
			m := llmnr.NewMessage()
			m.ID = id
			m.AddQuestion("query.local", llmnr.TypeA, llmnr.ClassIN)
			b, _ := m.Encode()
			d.send(b)
		default:
			name := fmt.Sprintf("r%d.local", step)
			m := llmnr.NewMessage()
			m.ID = id
			m.Flags = 0x8000
			m.AddQuestion(name, llmnr.TypeA, llmnr.ClassIN)
			b, _ := m.Encode()
			if !d.send(b) {
				return "C18/llmnr-client-stops-reading", "marker lost"
			}
			if _, ok := ids[id]; ok {
				if _, seen := first[id]; !seen {
					first[id] = name
				}
			}
		}
	}
	for _, id := range idList {
		idx := ids[id]
		select {
		case m := <-d.chans[idx]:
			if m.ID != id || len(m.Questions) != 1 || m.Questions[0].Name != first[id] {
				return "C18/llmnr-demux", fmt.Sprintf("query id %#04x received message id %#04x %v, want first response %q", id, m.ID, m.Questions, first[id])
			}
		default:
			if first[id] != "" {
				return "C18/llmnr-demux", fmt.Sprintf("query id %#04x never received its response %q", id, first[id])
			}
		}
	}
	return "", ""
}

// The real Query: its random id is found in the exported map, a response with another id and then
// the matching one are sent; Query must return the matching one.
func oracleLlmnrQuery(a []Val) (string, string) {
	cl, err := llmnr.NewClient()
	if err != nil {
		return "C18/harness", err.Error()
	}
	defer cl.Close()
	cl.Timeout = 1500 * time.Millisecond
	port := cl.Conn.LocalAddr().(*net.UDPAddr).Port
	peer, _ := net.DialUDP("udp4", nil, &net.UDPAddr{IP: net.IPv4(127, 0, 0, 1), Port: port})
	defer peer.Close()
	type res struct {
		m   *llmnr.Message
		err error
	}
	out := make(chan res, 1)
	go func() {
		m, err := cl.Query(context.Background(), "wanted.local", llmnr.TypeA)
		out <- res{m, err}
	}()
	var id uint16
	found := false
	for i := 0; i < 200 && !found; i++ {
		cl.Queries.Range(func(k, v interface{}) bool { id = k.(uint16); found = true; return false })
		if !found {
			select {
			case r := <-out:
				// the multicast send failed (no route in this sandbox): nothing to observe
				_ = r
				return "", ""
			case <-time.After(2 * time.Millisecond):
			}
		}
	}
	if !found {
		return "", ""
	}
	send := func(id uint16, name string) {
		m := llmnr.NewMessage()
		m.ID = id
		m.Flags = 0x8000
		m.AddQuestion(name, llmnr.TypeA, llmnr.ClassIN)
		b, _ := m.Encode()
		peer.Write(b)
	}
	send(id+1, "other.local")
	send(id, "wanted.local")
	select {
	case r := <-out:
		if r.err != nil {
			if strings.Contains(r.err.Error(), "failed to send query") {
				return "", "" // no route to the multicast group in this sandbox: nothing to observe
			}
			return "C18/llmnr-query", fmt.Sprintf("Query with id %#04x: %v", id, r.err)
		}
		if r.m.ID != id || r.m.Questions[0].Name != "wanted.local" {
			return "C18/llmnr-demux", fmt.Sprintf("Query with id %#04x returned message id %#04x %v", id, r.m.ID, r.m.Questions)
		}
	case <-time.After(3 * time.Second):
		return "C18/llmnr-query-hangs", "Query did not return"
	}
	if n := 0; true {
		cl.Queries.Range(func(k, v interface{}) bool { n++; return true })
		if n != 0 {
			return "C18/llmnr-query-leaks-channel", fmt.Sprintf("%d entries left in the query map", n)
		}
	}
	return "", ""
}

// A fake node on 127.0.0.9:137 answers the challenge query with the given rcode and one record
// carrying its own address.  Only rcode 3 (name error) means "the name is no longer owned".
func oracleChallengeRcode(a []Val) (string, string) {
	rc := uint16(a[0].Uint())
	owner := net.IPv4(127, 0, 0, 9).To4()
	node, err := net.ListenUDP("udp4", &net.UDPAddr{IP: owner, Port: nbtns.DefaultNBTNSUDPPort})
	if err != nil {
		return "", "" // port 137 not available here: nothing to observe
	}
	defer node.Close()
	go func() {
		buf := make([]byte, 2048)
		for {
			n, from, err := node.ReadFromUDP(buf)
			if err != nil {
				return
			}
			var q nbtns.NBTNSPacket
			dirty(&q)
			if _, err := q.Unmarshal(exact(buf[:n])); err != nil || len(q.Questions) == 0 {
				continue
			}
			resp := &nbtns.NBTNSPacket{Header: nbtns.NBTNSHeader{TransactionID: q.Header.TransactionID, Flags: 0x8400 | rc, Answers: 1},
				Answers: []nbtns.NBTNSResourceRecord{{Name: q.Questions[0].Name, Type: 0x20, Class: 1, TTL: 300, RDLength: 4, RData: owner}}}
			if b, err := resp.Marshal(); err == nil {
				node.WriteToUDP(b, from)
			}
		}
	}()
	t := nbtns.NewNetBIOSNameServer(true)
	c := nbtns.NewNameChallenger(t, nbtns.NewPacketHandler(t))
	var owned bool
	var cerr error
	_, timedOut, _, _ := Guarded(3*time.Second, func() { owned, cerr = c.ChallengeOwnership("CHALLENGED", owner) })
	if timedOut || cerr != nil {
		return "C18/challenge-no-answer", fmt.Sprintf("rcode %d: timeout=%v err=%v", rc, timedOut, cerr)
	}
	if want := rc != 3; owned != want {
		return fmt.Sprintf("C18/challenge-rcode-%d", rc), fmt.Sprintf("the owner answered the challenge with rcode %d and its own address: ChallengeOwnership returned %v, want %v (only rcode 3 is a name error)", rc, owned, want)
	}
	return "", ""
}
