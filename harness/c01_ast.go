//go:build c01 || allprops

package main

// Facts of crypto/md4/md4.go read from the SOURCE of /repo's working tree at run time with go/ast.
// They are emitted as correspondence cases (c01.md4_schedule, c01.md4_consts, c01.md4_funcs); the model side
// (Model/DispC01.v) answers with the schedule / constants / expressions the Coq model executes and the theorems
// are proved about, so an edited rotation count, word index, argument order, additive constant or helper body
// is a model/implementation disagreement even if no sampled digest happened to change.

import (
	"bytes"
	"go/ast"
	"go/constant"
	"go/parser"
	"go/printer"
	"go/token"
	"os"
	"path/filepath"
)

func c01Repo() string {
	if r := os.Getenv("VERIF_REPO"); r != "" {
		return r
	}
	return "/repo"
}

func c01ParseMd4() (*token.FileSet, *ast.File) {
	fset := token.NewFileSet()
	f, err := parser.ParseFile(fset, filepath.Join(c01Repo(), "crypto", "md4", "md4.go"), nil, 0)
	if err != nil {
		panic(err)
	}
	return fset, f
}

func c01Func(f *ast.File, name string, method bool) *ast.FuncDecl {
	for _, d := range f.Decls {
		if fd, ok := d.(*ast.FuncDecl); ok && fd.Name.Name == name && (fd.Recv != nil) == method {
			return fd
		}
	}
	return nil
}

func c01Lit(e ast.Expr) (int64, bool) {
	if bl, ok := e.(*ast.BasicLit); ok && bl.Kind == token.INT {
		v := constant.MakeFromLiteral(bl.Value, token.INT, 0)
		if n, ok := constant.Int64Val(v); ok {
			return n, true
		}
	}
	return 0, false
}

var c01Regs = map[string]int64{"a": 0, "b": 1, "c": 2, "d": 3}
var c01Fns = map[string]int64{"ff": 0, "gg": 1, "hh": 2}

// every statement `v = fn(p, q, r, t, x[k], s)` of processChunk, in order:
// (fn, dst, p, q, r, t, k, s) with a,b,c,d = 0..3 and ff,gg,hh = 0..2; -1 marks an operand of another shape
func c01Schedule() Val {
	_, f := c01ParseMd4()
	fd := c01Func(f, "processChunk", true)
	if fd == nil {
		return VErr()
	}
	var out []Val
	for _, st := range fd.Body.List {
		as, ok := st.(*ast.AssignStmt)
		if !ok || len(as.Lhs) != 1 || len(as.Rhs) != 1 {
			continue
		}
		call, ok := as.Rhs[0].(*ast.CallExpr)
		if !ok {
			continue
		}
		fn, ok := call.Fun.(*ast.Ident)
		if !ok {
			continue
		}
		fcode, isRound := c01Fns[fn.Name]
		if !isRound {
			fcode = -1
		}
		row := []int64{fcode, -1, -1, -1, -1, -1, -1, -1}
		if id, ok := as.Lhs[0].(*ast.Ident); ok && as.Tok == token.ASSIGN {
			if r, ok := c01Regs[id.Name]; ok {
				row[1] = r
			}
		}
		if len(call.Args) == 6 {
			for i := 0; i < 4; i++ {
				if id, ok := call.Args[i].(*ast.Ident); ok {
					if r, ok := c01Regs[id.Name]; ok {
						row[2+i] = r
					}
				}
			}
			if ix, ok := call.Args[4].(*ast.IndexExpr); ok {
				if id, ok := ix.X.(*ast.Ident); ok && id.Name == "x" {
					if k, ok := c01Lit(ix.Index); ok {
						row[6] = k
					}
				}
			}
			if s, ok := c01Lit(call.Args[5]); ok {
				row[7] = s
			}
		}
		vs := make([]Val, len(row))
		for i, x := range row {
			vs[i] = I(x)
		}
		out = append(out, L(vs...))
	}
	return L(out...)
}

// chunkSize, init0..3 (package constants) and the integer literals of gg and hh (their additive constants)
func c01Consts() Val {
	_, f := c01ParseMd4()
	consts := map[string]int64{}
	for _, d := range f.Decls {
		gd, ok := d.(*ast.GenDecl)
		if !ok || gd.Tok != token.CONST {
			continue
		}
		for _, sp := range gd.Specs {
			vs := sp.(*ast.ValueSpec)
			for i, n := range vs.Names {
				if i < len(vs.Values) {
					if v, ok := c01Lit(vs.Values[i]); ok {
						consts[n.Name] = v
					}
				}
			}
		}
	}
	var out []Val
	for _, n := range []string{"chunkSize", "init0", "init1", "init2", "init3"} {
		v, ok := consts[n]
		if !ok {
			v = -1
		}
		out = append(out, I(v))
	}
	for _, n := range []string{"gg", "hh"} {
		fd := c01Func(f, n, false)
		if fd == nil {
			out = append(out, I(-1))
			continue
		}
		ast.Inspect(fd.Body, func(nd ast.Node) bool {
			if e, ok := nd.(ast.Expr); ok {
				if v, ok := c01Lit(e); ok {
					out = append(out, I(v))
				}
			}
			return true
		})
	}
	return L(out...)
}

// the returned expressions of ff, gg, hh, rol as go/printer prints them
func c01FuncBodies() Val {
	fset, f := c01ParseMd4()
	var out []Val
	for _, n := range []string{"ff", "gg", "hh", "rol"} {
		fd := c01Func(f, n, false)
		s := "?"
		if fd != nil && len(fd.Body.List) == 1 {
			if rs, ok := fd.Body.List[0].(*ast.ReturnStmt); ok && len(rs.Results) == 1 {
				var buf bytes.Buffer
				printer.Fprint(&buf, fset, rs.Results[0])
				s = buf.String()
			}
		}
		out = append(out, S(s))
	}
	return L(out...)
}
