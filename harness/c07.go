//go:build c07 || allprops

package main

// C07 — every decoder is total.  This file owns no implementation entry point of its own: the decoders are
// the entry points the other properties registered (the harness is built with every property's file for
// C07).  The generator first runs the other properties' generators in harvest mode to collect the inputs
// they feed to each decoding entry point (valid encodings, their own boundary corpora), then drives every
// decoder with the malformed stream of DESIGN 4.2 built from those inputs:
//   every truncation, every single-byte boundary-value corruption, length/offset/count fields (every
//   aligned 1/2/4-byte window) driven to 0, 1, max-1, max, random splices and a few purely random strings.
// Each malformed input is (a) recorded as a correspondence case — the Coq model must give the same outcome
// class and value, and the model's outcome is never Panic (theorems of Properties/C07.v) — and (b) checked by
// the oracle c07.total: no panic, returns within the time limit, allocates at most 256 B per input byte
// plus 1 MiB.
import (
	"bytes"

	"fmt"
	smbutils "github.com/TheManticoreProject/Manticore/network/smb/smb_v10/message/commands/utils"
	"sort"
	"strings"
	"time"
)

// decoding entry points: name -> index of the argument that carries the untrusted bytes / text
var c07Decoders = map[string]int{
	"c06.string.unmarshal": 0, "c06.oem.unmarshal": 0, "c06.date.unmarshal": 0, "c06.filetime.unmarshal": 0,
	"c06.range32.unmarshal": 0, "c06.range64.unmarshal": 0, "c06.nmpipe.unmarshal": 0, "c06.resumekey.unmarshal": 0,
	"c06.dirinfo.unmarshal": 0, "c06.fileattr.unmarshal": 0, "c06.andx.unmarshal": 0, "c06.version.unmarshal": 0,
	"c06.params.unmarshal": 0, "c06.data.unmarshal": 0,
	"hdr.unmarshal": 0, "msg.unmarshal": 0, "smb.unmarshal": 1, "dialects.unmarshal": 0,
	"spnego.extract": 0, "spnego.parse_resp": 0, "spnego.process_challenge": 0,
	"ntlm.parse_challenge": 0, "ntlm.parse_target_info": 0, "version.unmarshal": 0,
	"llmnr.decode_name": 0, "llmnr.decode_question": 0, "llmnr.decode_rr": 0, "llmnr.decode_message": 0,
	"nb.decode": 0, "nbp.unmarshal": 0,
	"c14.kc.from_bytes": 0, "c14.kc.parse_dn": 1, "c14.kc.verify": 0, "c14.rsa.from_bytes": 0, "c14.ver.from_bytes": 0,
	"c14.cki.from_bytes": 0, "c14.dn.parse": 0, "datetime.from_binary": 0,
	"sid.parse": 0, "dn.domain": 0, "ldap.dur_to_sec": 0, "ldap.ts_to_unix": 0,
	"gppp.decrypt_b64": 0, "gppp.decrypt_bytes": 0, "pkcs7.unpad": 0, "utf16.decode": 0,
	"uuid.unmarshal": 0, "uuid.from_string": 0, "v1.unmarshal": 0, "v1.from_bytes": 0, "v1.from_string": 0,
	"v2.unmarshal": 0, "v2.from_bytes": 0, "v2.from_string": 0, "v8.unmarshal": 0, "v8.from_bytes": 0, "v8.from_string": 0,
	"guid.from_raw": 0, "guid.from_string": 0, "guid.from_n": 0, "guid.from_d": 0, "guid.from_b": 0, "guid.from_p": 0, "guid.from_x": 0,
	"hashes.parse": 0, "ipv4.parse": 0, "ipv6.parse": 0, "ports.parse": 0, "filetime.unmarshal": 0,
	"smbutils.nt_unicode": 0, "smbutils.nt_string": 0,
}

// properties whose generators are harvested
var c07Sources = []string{"C06", "C03", "C04", "C05", "C08", "C09", "C10", "C12", "C13", "C14", "C15", "C16", "C20", "C01"}

type c07Seed struct {
	fn   string
	args []Val
	ok   bool
}

func init() {
	// commands/utils/utils.go (no property of its own)
	Impl("smbutils.nt_unicode", func(a []Val) Val {
		s, n := smbutils.GetNullTerminatedUnicodeString(exact(a[0].B))
		return L(S(s), I(int64(n)))
	})
	Impl("smbutils.nt_string", func(a []Val) Val {
		s, n := smbutils.GetNullTerminatedString(exact(a[0].B))
		return L(S(s), I(int64(n)))
	})
	// args: entry point name, then the entry point's own arguments
	Oracle("c07.total", func(a []Val) (string, string) {
		fn := a[0].Str()
		f, ok := impls[fn]
		if !ok {
			return "C07/unknown-entry/" + fn, "no such entry point"
		}
		args := a[1].L
		n := 0
		for _, x := range args {
			n += len(x.B)
		}
		var out Val
		panicked, timedOut, alloc, pv := Guarded(5*time.Second, func() { out = f(args) })
		_ = out
		cls := c07Class(fn, args)
		if panicked {
			return "C07/panic/" + cls, fmt.Sprintf("%s panics on %s: %v", fn, trunc(L(args...).String(), 300), pv)
		}
		if timedOut {
			return "C07/timeout/" + cls, fmt.Sprintf("%s did not return within 5s on %s", fn, trunc(L(args...).String(), 300))
		}
		if alloc > uint64(256*n)+(1<<20) {
			return "C07/alloc/" + cls, fmt.Sprintf("%s allocated %d bytes for %d input bytes on %s", fn, alloc, n, trunc(L(args...).String(), 300))
		}
		return "", ""
	})
	Gen("C07", genC07)
}

// finding class: the entry point, and for the per-structure SMB decoders the structure name
func c07Class(fn string, args []Val) string {
	if fn == "smb.unmarshal" && len(args) > 0 {
		return fn + "/" + args[0].Str()
	}
	return fn
}

func c07Harvest(c *Ctx) map[string][]c07Seed {
	seeds := map[string][]c07Seed{}
	seen := map[string]struct{}{}
	perFn := c.N(40, 160)
	for _, p := range c07Sources {
		sub := &Ctx{Prop: p, Tier: "quick", Rng: NewRng(c.Rng.U64()), Quiet: true,
			Hist: map[string]int{}, distinct: map[string]struct{}{}, Notes: map[string]interface{}{}}
		sub.Tap = func(fn string, args []Val, out Val) {
			idx, ok := c07Decoders[fn]
			if !ok || idx >= len(args) {
				return
			}
			for _, x := range args {
				if x.K == 'n' && x.N.Sign() < 0 {
					return // a negative offset is the caller's mistake, not hostile input
				}
			}
			cls := c07Class(fn, args)
			okOut := out.K != 'E' && out.K != 'P'
			// keep mostly inputs the decoder accepted, a few it rejected
			lim := perFn
			if !okOut {
				cls += "#rej"
				lim = perFn / 8
			}
			if len(seeds[cls]) >= lim || len(args[idx].B) > 4096 {
				return
			}
			k := fn + " " + L(args...).String()
			if _, dup := seen[k]; dup {
				return
			}
			seen[k] = struct{}{}
			seeds[cls] = append(seeds[cls], c07Seed{fn, append([]Val{}, args...), okOut})
		}
		for _, g := range gens[p] {
			func() {
				defer func() { recover() }()
				g(sub)
			}()
		}
	}
	return seeds
}

// length/offset/count fields driven to their extremes: every aligned or unaligned 2- and 4-byte window in
// the first maxPos bytes is overwritten; pass 0 uses all-ones and zero, pass 1 the values 1 and max-1 in
// both byte orders
func c07FieldExtremes(b []byte, maxPos int, pass int) [][]byte {
	var out [][]byte
	vals := func(w int) [][]byte {
		max := make([]byte, w)
		for i := range max {
			max[i] = 0xff
		}
		if pass == 0 {
			return [][]byte{max, make([]byte, w)}
		}
		one := make([]byte, w)
		one[0] = 1
		oneBE := make([]byte, w)
		oneBE[w-1] = 1
		m1 := append([]byte{}, max...)
		m1[0] = 0xfe
		m1BE := append([]byte{}, max...)
		m1BE[w-1] = 0xfe
		return [][]byte{one, oneBE, m1, m1BE}
	}
	for pos := 0; pos < len(b) && pos < maxPos; pos++ {
		for _, w := range []int{2, 4} {
			if pos+w > len(b) {
				continue
			}
			for _, v := range vals(w) {
				m := exact(b)
				copy(m[pos:], v)
				out = append(out, m)
			}
		}
	}
	return out
}

func genC07(c *Ctx) {
	r := c.Rng
	seeds := c07Harvest(c)
	classes := make([]string, 0, len(seeds))
	for k := range seeds {
		classes = append(classes, k)
	}
	sort.Strings(classes)
	nSeeds := 0
	perEntry := map[string]int{}
	budget := c.N(500, 5000) // malformed inputs per SMB structure in the second stream
	smbLoad()
	smbFactories()
	oracleOnly := 0
	// the model has nothing to say about a structure the translator could not follow: a whole message that
	// the factory routes to such a structure is driven by the oracle only
	modelled := func(fn string, m []byte) bool {
		if fn != "msg.unmarshal" || len(m) < 32 {
			return true
		}
		out := callImpl(impls["smb.dispatch"], []Val{U(uint64(m[4])), Bool(m[9]&0x80 != 0)})
		if len(out.L) != 2 {
			return true
		}
		d := smbDescs[out.L[0].Str()]
		return d != nil && d.Translated
	}
	run := func(fn string, args []Val, idx int, m []byte) {
		a2 := append([]Val{}, args...)
		a2[idx] = B(m)
		// the guarded oracle first: an input on which the decoder does not return must not hang the harness
		if !c.Check("c07.total", S(fn), L(a2...)) {
			perEntry[fn]++
			return
		}
		if modelled(fn, m) {
			c.Case(fn, a2...)
		} else {
			oracleOnly++
		}
		perEntry[fn]++
	}
	for _, cls := range classes {
		ss := seeds[cls]
		nSeeds += len(ss)
		if len(ss) == 0 {
			continue
		}
		fn := ss[0].fn
		idx := c07Decoders[fn]
		budget := c.N(3000, 40000)
		if strings.HasPrefix(fn, "smb.unmarshal") {
			budget = c.N(500, 5000) // 115 structures x 2 classes; they get a second stream below
		}
		used := 0
		// smallest seeds first: their malformed streams are enumerated completely
		sort.SliceStable(ss, func(i, j int) bool { return len(ss[i].args[idx].B) < len(ss[j].args[idx].B) })
		// ... but the smallest valid encodings are the degenerate ones (empty optional parts): enumerate
		// completely two small, two median and two of the largest (up to 512 bytes) seeds
		if len(ss) > 6 {
			hi := len(ss) - 1
			for hi > 0 && len(ss[hi].args[idx].B) > 512 {
				hi--
			}
			pick := []int{0, 1, len(ss) / 2, len(ss)/2 + 1, hi - 1, hi}
			seenIdx := map[int]bool{}
			var front, rest []c07Seed
			for _, k := range pick {
				if k >= 0 && k < len(ss) && !seenIdx[k] {
					seenIdx[k] = true
					front = append(front, ss[k])
				}
			}
			for k := range ss {
				if !seenIdx[k] {
					rest = append(rest, ss[k])
				}
			}
			ss = append(front, rest...)
		}
		for si, s := range ss {
			if used >= budget {
				break
			}
			b := s.args[idx].B
			run(fn, s.args, idx, b)
			var ms [][]byte
			maxPos := 96
			if si < 6 {
				// length/offset/count fields driven to their extremes first: these are the inputs a
				// truncated budget must not drop
				ms = append(ms, c07FieldExtremes(b, 64, 0)...)
				ms = append(ms, Truncations(b)...)
				ms = append(ms, c07FieldExtremes(b, 64, 1)...)
				ms = append(ms, Corruptions(b, maxPos)...)
			} else {
				// sampled: a few truncations and corruptions
				for k := 0; k < 12; k++ {
					ms = append(ms, exact(b[:r.Intn(len(b)+1)]))
					m := exact(b)
					if len(m) > 0 {
						m[r.Intn(len(m))] = boundaryBytes[r.Intn(len(boundaryBytes))]
					}
					ms = append(ms, m)
				}
			}
			// splices with another seed of the class and with random bytes
			for k := 0; k < 4 && len(ss) > 1; k++ {
				o := ss[r.Intn(len(ss))].args[idx].B
				ms = append(ms, cat(b[:r.Intn(len(b)+1)], o[r.Intn(len(o)+1):]))
			}
			ms = append(ms, cat(b, r.Bytes(1+r.Intn(8))))
			perSeed := 0
			for _, m := range ms {
				if used >= budget || (si < 6 && perSeed >= budget/6) {
					break
				}
				run(fn, s.args, idx, m)
				used++
				perSeed++
			}
		}
		// a few purely random inputs and the empty input
		proto := ss[0].args
		run(fn, proto, idx, nil)
		for k := 0; k < c.N(20, 200); k++ {
			run(fn, proto, idx, r.Bytes(r.Intn(48)))
		}
	}
	// the null-terminated string helpers: every string over a small alphabet up to 7 bytes (terminated, unterminated,
	// odd lengths, zero bytes at odd and even positions), then random ones
	{
		alpha := []byte{0, 1, 'A'}
		var rec func(b []byte)
		rec = func(b []byte) {
			run("smbutils.nt_unicode", []Val{B(nil)}, 0, b)
			run("smbutils.nt_string", []Val{B(nil)}, 0, b)
			if len(b) == c.N(6, 8) {
				return
			}
			for _, x := range alpha {
				rec(append(append([]byte{}, b...), x))
			}
		}
		rec(nil)
		for k := 0; k < c.N(300, 5000); k++ {
			b := []byte(r.StringOver("\x00\x00ab\xff", r.Intn(40)))
			run("smbutils.nt_unicode", []Val{B(nil)}, 0, b)
			run("smbutils.nt_string", []Val{B(nil)}, 0, b)
		}
	}
	// inputs longer than 64 KiB for the decoders that walk a list (cursors and bounds kept in 16 bits wrap there)
	{
		avList := func(k, v int) []byte {
			var ti []byte
			for i := 0; i < k; i++ {
				ti = append(ti, byte(1+i%6), 0, byte(v), byte(v>>8))
				ti = append(ti, bytes.Repeat([]byte{byte(i)}, v)...)
			}
			return append(ti, 0, 0, 0, 0)
		}
		long := []struct {
			fn string
			in []byte
		}{
			{"ntlm.parse_target_info", avList(16, 4092)}, {"ntlm.parse_target_info", avList(17, 4092)}, {"ntlm.parse_target_info", avList(3, 65535)},
			{"llmnr.decode_message", c09BigCompressed(65496, 1)}, {"llmnr.decode_message", c09BigCompressed(65508, 2)},
			{"dialects.unmarshal", bytes.Repeat([]byte("\x02NT LM 0.12\x00"), 1000)}, // (the model of this loop is quadratic: kept short)
			{"utf16.decode", bytes.Repeat([]byte{0x41, 0x00, 0x3d, 0xd8, 0x00, 0xde}, 12000)},
		}
		for _, l := range long {
			if _, ok := impls[l.fn]; !ok {
				continue
			}
			args := []Val{B(nil)}
			run(l.fn, args, 0, l.in)
			run(l.fn, args, 0, l.in[:len(l.in)-1])
			if len(l.in) > 65537 {
				run(l.fn, args, 0, l.in[:65536])
				run(l.fn, args, 0, l.in[:65537])
			}
		}
	}
	// every structure the factories can build (the harvest only sees those whose description the translator
	// could produce): own encodings from random field values, then the malformed stream; structures without
	// a translated description are checked by the oracle only (the model has nothing to say about them)
	smbOracleOnly := 0
	for _, name := range smbNames {
		d := smbDescs[name]
		translated := d != nil && d.Translated
		used := 0
		for i := 0; i < c.N(4, 24) && used < budget; i++ {
			fields := genFieldsMode(r, name, []int{2, 0, 1}[i%3])
			out := callImpl(impls["smb.marshal"], []Val{S(name), fields, I(1)})
			if len(out.L) != 2 || len(out.L[0].L) != 1 || out.L[0].L[0].K != 'x' {
				continue
			}
			enc := out.L[0].L[0].B
			if len(enc) > 2048 {
				continue
			}
			ms := append(c07FieldExtremes(enc, 64, 0), Truncations(enc)...)
			ms = append(ms, c07FieldExtremes(enc, 64, 1)...)
			ms = append(ms, Corruptions(enc, 96)...)
			ms = append(ms, cat(enc, r.Bytes(1+r.Intn(8))))
			for _, m := range ms {
				if used >= budget {
					break
				}
				a2 := []Val{S(name), B(m)}
				if translated {
					c.Case("smb.unmarshal", a2...)
				} else {
					smbOracleOnly++
				}
				c.Check("c07.total", S("smb.unmarshal"), L(a2...))
				perEntry["smb.unmarshal"]++
				used++
			}
		}
	}
	c.Note("smb_structures", len(smbNames))
	c.Note("smb_oracle_only_inputs", smbOracleOnly)
	c.Note("msg_oracle_only_inputs", oracleOnly)

	// decoders for which nothing was harvested are reported (coverage is visible, not assumed)
	var missing []string
	for fn := range c07Decoders {
		if perEntry[fn] == 0 {
			missing = append(missing, fn)
		}
	}
	sort.Strings(missing)
	c.Note("entry_points_driven", len(perEntry))
	c.Note("entry_points_without_seed", strings.Join(missing, " "))
	c.Note("seed_classes", len(classes))
	c.Note("seeds_harvested", nSeeds)
	c.Note("malformed_per_entry", perEntry)
}
