//go:build c01 || allprops

package main

import (
	"unicode"
	"unicode/utf8"
)

var c01Boundary = []int{0, 1, 3, 4, 8, 54, 55, 56, 57, 62, 63, 64, 65, 66, 118, 119, 120, 121, 126, 127, 128, 129, 183, 184, 191, 192, 193}

// RFC 1320 appendix A.5 test suite
var c01RFCVectors = []string{"", "a", "abc", "message digest", "abcdefghijklmnopqrstuvwxyz",
	"ABCDEFGHIJKLMNOPQRSTUVWXYZabcdefghijklmnopqrstuvwxyz0123456789",
	"12345678901234567890123456789012345678901234567890123456789012345678901234567890"}

var c01AsciiAlpha = "abcdefghijklmnopqrstuvwxyzABCDEFGHIJKLMNOPQRSTUVWXYZ0123456789 !@#$%^&*()-_=+[]{};:'\",.<>/?\\|`~"

// rune pools: ASCII, Latin-1, BMP (cased and uncased scripts, special casings), non-BMP (cased Deseret/Adlam, emoji)
var c01Latin1 = []rune("éÉàÀçÇñÑöÖüÜßÿŸøØåÅæÆµ¿¡£§")
var c01BMP = []rune("ΣσςΩωЖжЯяĞğİıŁłŐőǅǆǄǈǉǇKÅΩẞſ日本語한글אבגابتДд中文ḀḁẠạⅠⅰⓐⒶꙀꙁ\ufffd\ufeffͅẞΩKÅ")
var c01NonBMP = []rune("𐐀𐐨𐐁𐐩𞤀𞤢𐲀𐳀😀🔥𝔘𝔫𝔦𝔠𝔬𝔡𝔢𠀀\U0010FFFF\U00010000")

func c01Message(r *Rng, n int) []byte {
	switch r.Intn(6) {
	case 0:
		return make([]byte, n)
	case 1:
		b := make([]byte, n)
		for i := range b {
			b[i] = 0xff
		}
		return b
	case 2:
		b := make([]byte, n)
		for i := range b {
			b[i] = byte(i)
		}
		return b
	}
	return r.Bytes(n)
}

func c01String(r *Rng, maxRunes int) string {
	n := r.Intn(maxRunes + 1)
	kind := r.Intn(6)
	var out []rune
	for i := 0; i < n; i++ {
		k := kind
		if kind == 5 {
			k = r.Intn(4)
		}
		switch k {
		case 0, 4:
			out = append(out, rune(c01AsciiAlpha[r.Intn(len(c01AsciiAlpha))]))
		case 1:
			out = append(out, c01Latin1[r.Intn(len(c01Latin1))])
		case 2:
			out = append(out, c01BMP[r.Intn(len(c01BMP))])
		case 3:
			out = append(out, c01NonBMP[r.Intn(len(c01NonBMP))])
		}
	}
	return string(out)
}

// a random valid scalar value, biased to the encoding boundaries
func c01Scalar(r *Rng) rune {
	edges := []rune{0, 1, 0x7f, 0x80, 0x7ff, 0x800, 0xd7ff, 0xe000, 0xfffd, 0xffff, 0x10000, 0x10001, 0x103ff, 0x10400, 0xfffff, 0x100000, 0x10ffff}
	if r.Intn(3) == 0 {
		return edges[r.Intn(len(edges))]
	}
	for {
		c := rune(r.Intn(0x110000))
		if c < 0xd800 || c > 0xdfff {
			return c
		}
	}
}

func c01Ops(chunks [][]byte, tail ...Val) Val {
	var vs []Val
	for _, ch := range chunks {
		vs = append(vs, B(ch))
	}
	vs = append(vs, tail...)
	return L(vs...)
}

func c01Chunks(chunks [][]byte) Val {
	var vs []Val
	for _, ch := range chunks {
		vs = append(vs, B(ch))
	}
	return L(vs...)
}

// random cut of msg into pieces whose sizes favour the block boundaries
func c01RandomCut(r *Rng, msg []byte) [][]byte {
	var chunks [][]byte
	for len(msg) > 0 {
		var n int
		switch r.Intn(4) {
		case 0:
			n = r.Pick(0, 1, 7, 8, 9, 55, 56, 57, 63, 64, 65, 119, 120, 127, 128, 129, 192)
		case 1:
			n = r.Intn(200)
		case 2:
			n = r.Intn(16)
		default:
			n = r.Intn(len(msg) + 1)
		}
		if n > len(msg) {
			n = len(msg)
		}
		chunks = append(chunks, msg[:n])
		msg = msg[n:]
	}
	if r.Intn(4) == 0 {
		chunks = append(chunks, nil)
	}
	return chunks
}

func genC01(c *Ctx) {
	r := c.Rng

	// ---- the source of processChunk / ff / gg / hh / rol and the constants, as written today
	c.Case("c01.md4_schedule")
	c.Case("c01.md4_consts")
	c.Case("c01.md4_funcs")

	// ---- one-shot digests: RFC vectors, every length 0..200, random up to 4 KiB
	for _, s := range c01RFCVectors {
		c.Check("c01.md4", S(s))
		c.Case("md4.sum", S(s))
	}
	for n := 0; n <= 200; n++ {
		for rep := 0; rep < c.N(1, 4); rep++ {
			msg := c01Message(r, n)
			if rep == 0 {
				msg = r.Bytes(n)
			}
			c.Check("c01.md4", B(msg))
			c.Case("md4.sum", B(msg))
		}
	}
	for rep := 0; rep < c.N(40, 600); rep++ {
		n := r.Intn(4097)
		if r.Intn(3) == 0 {
			n = 64*r.Intn(64) + r.Pick(0, 1, 55, 56, 57, 63)
		}
		msg := c01Message(r, n)
		c.Check("c01.md4", B(msg))
		c.Case("md4.sum", B(msg))
	}

	// ---- streaming: every way of cutting a message of length <= 8 into non-empty writes
	for n := 0; n <= 8; n++ {
		msg := r.Bytes(n)
		masks := 1
		if n > 1 {
			masks = 1 << uint(n-1)
		}
		for m := 0; m < masks; m++ {
			var chunks [][]byte
			start := 0
			for i := 1; i < n; i++ {
				if m&(1<<uint(i-1)) != 0 {
					chunks = append(chunks, msg[start:i])
					start = i
				}
			}
			chunks = append(chunks, msg[start:])
			c.Check("c01.md4_stream", c01Chunks(chunks))
			c.Case("md4.ops", c01Ops(chunks, I(0)))
		}
	}
	// every single cut of messages whose length sits on a padding / block boundary
	for _, n := range c01Boundary {
		if n < 50 && n > 8 {
			continue
		}
		msg := r.Bytes(n)
		step := 1
		if c.Tier != "thorough" && n > 130 {
			step = 3
		}
		for cut := 0; cut <= n; cut += step {
			chunks := [][]byte{msg[:cut], msg[cut:]}
			c.Check("c01.md4_stream", c01Chunks(chunks))
			c.Case("md4.ops", c01Ops(chunks, I(int64(r.Intn(2)))))
		}
	}
	// three-way cuts around one block
	for rep := 0; rep < c.N(150, 3000); rep++ {
		n := r.Pick(55, 56, 57, 63, 64, 65, 119, 120, 128, 129)
		msg := r.Bytes(n)
		i := r.Intn(n + 1)
		j := i + r.Intn(n-i+1)
		chunks := [][]byte{msg[:i], msg[i:j], msg[j:]}
		c.Check("c01.md4_stream", c01Chunks(chunks))
		c.Case("md4.ops", c01Ops(chunks, I(0)))
	}
	// random chunkings of messages up to 4 KiB
	for rep := 0; rep < c.N(150, 3000); rep++ {
		n := r.Intn(600)
		if r.Intn(5) == 0 {
			n = r.Intn(4097)
		}
		msg := r.Bytes(n)
		chunks := c01RandomCut(r, msg)
		c.Check("c01.md4_stream", c01Chunks(chunks))
		c.Case("md4.ops", c01Ops(chunks, I(int64(r.Intn(2)))))
	}

	// ---- histories: reads interleaved with writes
	fixed := [][]Val{
		{S("abc"), I(0), I(0)},
		{S("abc"), I(1), I(1)},
		{I(0), I(0)},
		{I(0), S("abc"), I(0)},
		{S("a"), I(0), S("bc"), I(0), I(1)},
		{B(make([]byte, 55)), I(0), B([]byte{1}), I(0), B(make([]byte, 8)), I(1), I(0)},
		{B(make([]byte, 64)), I(1), B(make([]byte, 64)), I(1)},
	}
	for _, h := range fixed {
		c.Check("c01.md4_history", L(h...))
		c.Case("md4.ops", L(h...))
	}
	// the bit counter at values no amount of written data reaches in a test: 2^32 bits (512 MiB), 2^35, 2^61, and
	// the wrap of the 64-bit counter (hook MD4.VerifAddCount): data, jump, data, Sum, Sum
	for _, jump := range []uint64{1 << 32, 1<<32 - 512, 1 << 35, 1 << 61, 1<<64 - 512, 1<<64 - 1024, 1<<63 + 1<<32} {
		for _, n := range []int{0, 1, 55, 56, 63, 64, 65, 119} {
			pre := r.Bytes(r.Pick(0, 3, 64))
			c.Case("md4.ops_ext", L(B(pre), L(U(jump)), B(r.Bytes(n)), I(0), I(1), B(r.Bytes(r.Intn(70))), I(0)))
		}
	}
	for rep := 0; rep < c.N(300, 6000); rep++ {
		nops := 2 + r.Intn(9)
		var ops []Val
		for i := 0; i < nops; i++ {
			switch r.Intn(5) {
			case 0, 1:
				ops = append(ops, I(int64(r.Intn(2))))
			default:
				n := r.Pick(0, 1, 3, 8, 55, 56, 57, 63, 64, 65, 120, 128)
				if r.Bool() {
					n = r.Intn(150)
				}
				ops = append(ops, B(r.Bytes(n)))
			}
		}
		ops = append(ops, I(int64(r.Intn(2))))
		c.Check("c01.md4_history", L(ops...))
		c.Case("md4.ops", L(ops...))
	}

	// ---- UTF-16: valid strings (oracle + correspondence), then the malformed streams
	var corpus []string
	corpus = append(corpus, "", "a", "hello", "Password123!", "pässwörd", "пароль", "密码", "𐐀𐐨", "😀", "a😀b", "\ufffd", "\U0010FFFF",
		"ABCDEFGHIJKLMNOPQRSTUVWXYZ[", "abcdefghijklmnopqrstuvwxyz{", "İstanbul", "ǅemal", "KELVIN K", "ΣΊΣΥΦΟΣ", "Straße")
	for rep := 0; rep < c.N(250, 4000); rep++ {
		corpus = append(corpus, c01String(r, 24))
	}
	for rep := 0; rep < c.N(80, 1500); rep++ {
		n := r.Intn(12)
		var rs []rune
		for i := 0; i < n; i++ {
			rs = append(rs, c01Scalar(r))
		}
		corpus = append(corpus, string(rs))
	}
	// password lengths whose UTF-16 form sits on the MD4 padding boundaries (27/28 -> 54/56 bytes, 31/32 -> 62/64)
	for _, n := range []int{26, 27, 28, 29, 31, 32, 33, 59, 60, 63, 64} {
		corpus = append(corpus, r.StringOver(c01AsciiAlpha, n))
	}
	for _, s := range corpus {
		c.Check("c01.utf16", S(s))
		enc := c.Case("utf16.encode", S(s))
		c.Case("utf16.decode", B(enc.B))
		c.Check("c01.total.utf16_decode", B(enc.B))
		c.Check("c01.nt", S(s))
		c.Case("nt.hash", S(s))
		if r.Intn(4) == 0 {
			c.Case("nt.hex", S(s))
		}
		c.Case("c01.runes", S(s))
		c.Case("c01.to_lower", S(s))
		c.Case("c01.to_upper", S(s))
	}
	// malformed UTF-16LE: every truncation (odd lengths) and boundary corruption of valid encodings, lone surrogates, random bytes
	for rep := 0; rep < c.N(12, 200); rep++ {
		s := c01String(r, 6) + string(c01NonBMP[r.Intn(len(c01NonBMP))]) + c01String(r, 3)
		enc := refUTF16LE(s)
		for _, m := range Malformed(enc, 24) {
			c.Case("utf16.decode", B(m))
			c.Check("c01.total.utf16_decode", B(m))
		}
	}
	for n := 0; n <= 12; n++ {
		for rep := 0; rep < c.N(6, 60); rep++ {
			b := r.Bytes(n)
			for i := 1; i < len(b); i += 2 {
				if r.Intn(2) == 0 {
					b[i] = byte(0xd8 + r.Intn(8)) // surrogate range
				}
			}
			c.Case("utf16.decode", B(b))
			c.Check("c01.total.utf16_decode", B(b))
		}
	}
	// malformed UTF-8 handed to the string-taking entry points (Go replaces each bad byte by U+FFFD)
	var bad [][]byte
	for rep := 0; rep < c.N(10, 150); rep++ {
		s := c01String(r, 4) + string(c01NonBMP[r.Intn(len(c01NonBMP))]) + string(c01BMP[r.Intn(len(c01BMP))]) + string(c01Latin1[r.Intn(len(c01Latin1))])
		bad = append(bad, Malformed([]byte(s), 16)...)
	}
	for _, s := range []string{"\xc0\x80", "\xc1\xbf", "\xe0\x80\x80", "\xe0\x9f\xbf", "\xed\xa0\x80", "\xed\xbf\xbf", "\xf0\x80\x80\x80", "\xf0\x8f\xbf\xbf",
		"\xf4\x90\x80\x80", "\xf5\x80\x80\x80", "\xff", "\x80", "\xbf", "a\xffb", "\xe2\x82", "\xf0\x9f\x98", "\xc2", "A\xc3\x28Z", "\xef\xbf\xbd"} {
		bad = append(bad, []byte(s))
	}
	for rep := 0; rep < c.N(150, 3000); rep++ {
		b := r.Bytes(r.Intn(10))
		for i := range b {
			if r.Intn(3) == 0 {
				b[i] = byte(r.Pick(0x41, 0x61, 0x7f, 0x80, 0xbf, 0xc0, 0xc2, 0xdf, 0xe0, 0xed, 0xef, 0xf0, 0xf4, 0xf5, 0xa0, 0x9f, 0x90, 0x8f))
			}
		}
		bad = append(bad, b)
	}
	for _, b := range bad {
		c.Case("c01.runes", B(b))
		c.Case("utf16.encode", B(b))
		c.Case("c01.to_lower", B(b))
		c.Case("c01.to_upper", B(b))
		if !utf8.Valid(b) && r.Intn(4) == 0 {
			c.Case("nt.hash", B(b))
			c.Case("dcc.from_password_hashcat", S("pw"), B(b))
			c.Case("dcc2.hash", B(b), S("pw"), I(2))
			c.Case("lm.hash", B(b))
		}
	}

	// ---- LM: 7-bit ASCII passwords of every length 0..20 (oracle), any string (correspondence)
	for n := 0; n <= 20; n++ {
		for rep := 0; rep < c.N(6, 60); rep++ {
			pw := r.StringOver(c01AsciiAlpha, n)
			if rep == 1 {
				pw = string(r.Bytes(n))
				b := []byte(pw)
				for i := range b {
					b[i] &= 0x7f
				}
				pw = string(b)
			}
			c.Check("c01.lm", S(pw))
			c.Case("lm.hash", S(pw))
			if rep == 0 {
				c.Case("lm.hex", S(pw))
			}
		}
	}
	for _, pw := range []string{"", "password", "PASSWORD", "Password1", "SecREt01", "abcdefghijklmn", "abcdefghijklmno", "aaaaaaa", "aaaaaaab", "\x7f\x7f\x7f\x7f\x7f\x7f\x7f", "\x01"} {
		c.Check("c01.lm", S(pw))
		c.Case("lm.hash", S(pw))
		c.Case("lm.hex", S(pw))
	}
	for i, s := range corpus {
		if i%4 == 0 {
			c.Case("lm.hash", S(s))
		}
	}

	// ---- MS-Cache v1: (password, user) pairs over the pools, all six entry points
	users := []string{"Administrator", "administrator", "ADMINISTRATOR", "pOdAlIrIuS", "user", "Ünïcödé", "ÉTIENNE", "ДМИТРИЙ", "ΣΊΣΥΦΟΣ", "İSTANBUL", "ǅEMAL", "KELVIN", "𐐀𐐁𐐂", "𞤀𞤁", "user😀", "", "a", "Z"}
	for rep := 0; rep < c.N(120, 2500); rep++ {
		var pw, user string
		if rep < len(users) {
			user, pw = users[rep], "Password123!"
		} else {
			user, pw = c01String(r, 14), c01String(r, 16)
		}
		c.Check("c01.dcc", S(pw), S(user))
		ntv := c.Case("nt.hash", S(pw))
		c.Case("dcc.from_password", S(pw), S(user))
		c.Case("dcc.from_nt", B(ntv.B), S(user))
		switch rep % 4 {
		case 0:
			c.Case("dcc.from_password_hex", S(pw), S(user))
		case 1:
			c.Case("dcc.from_nt_hex", B(ntv.B), S(user))
		case 2:
			c.Case("dcc.from_password_hashcat", S(pw), S(user))
		case 3:
			c.Case("dcc.from_nt_hashcat", B(ntv.B), S(user))
		}
	}
	for rep := 0; rep < c.N(20, 300); rep++ {
		c.Case("dcc.from_nt", B(r.Bytes(16)), S(c01String(r, 10)))
	}

	// ---- MS-Cache v2: rounds 1..64 (quick), plus 10240 once (thorough)
	c.Check("c01.dcc2", S("pOdAlIrIuS"), S("Podalirius123!"), I(1))
	for rounds := 1; rounds <= 64; rounds++ {
		var user, pw string
		if rounds <= len(users) {
			user, pw = users[rounds-1], "Password123!"
		} else {
			user, pw = c01String(r, 12), c01String(r, 14)
		}
		c.Check("c01.dcc2", S(user), S(pw), I(int64(rounds)))
		c.Case("dcc2.hash", S(user), S(pw), I(int64(rounds)))
		if rounds%8 == 0 {
			ntv := c.Case("nt.hash", S(pw))
			c.Case("dcc2.with_nt", S(user), B(ntv.B), I(int64(rounds)))
			c.Case("dcc2.with_password", S(user), S(pw), I(int64(rounds)))
		}
	}
	for rep := 0; rep < c.N(30, 400); rep++ {
		rounds := 1 + r.Intn(c.N(12, 100))
		user, pw := c01String(r, 12), c01String(r, 14)
		c.Check("c01.dcc2", S(user), S(pw), I(int64(rounds)))
		c.Case("dcc2.hash", S(user), S(pw), I(int64(rounds)))
	}
	// counts outside the property (0 and negative) only for model fidelity: x/crypto runs no extra iteration
	c.Case("dcc2.hash", S("user"), S("pw"), I(0))
	c.Case("dcc2.hash", S("user"), S("pw"), I(-3))
	if c.Tier == "thorough" {
		c.Check("c01.dcc2", S("Administrator"), S("Password123!"), I(10240))
		c.Case("dcc2.hash", S("Administrator"), S("Password123!"), I(10240))
	}

	// ---- the dumped case tables against unicode.ToLower / ToUpper
	seen := map[rune]bool{}
	emit := func(cp rune) {
		if cp < 0 || seen[cp] {
			return
		}
		seen[cp] = true
		c.Case("c01.lower_cp", I(int64(cp)))
		c.Case("c01.upper_cp", I(int64(cp)))
	}
	if c.Tier == "thorough" {
		for cp := rune(0); cp < 0x20000; cp++ {
			emit(cp)
		}
	} else {
		for cp := rune(0); cp <= unicode.MaxRune; cp++ {
			if unicode.ToLower(cp) != cp || unicode.ToUpper(cp) != cp {
				emit(cp - 1)
				emit(cp)
				emit(cp + 1)
			}
		}
	}
	for rep := 0; rep < c.N(300, 20000); rep++ {
		emit(rune(r.Intn(0x110000)))
	}
	for _, cp := range []rune{0, 0x7f, 0x80, 0xd7ff, 0xd800, 0xdfff, 0xe000, 0xffff, 0x10000, 0x10ffff, 0x110000, 0x7fffffff} {
		emit(cp)
	}
}
