// go2coq regenerates coq/Gen/*.v from /repo's working tree on every run.
// It recognises the statement shapes this code base is written in and refuses anything else.
package main

import (
	"flag"
	"fmt"
	"os"
	"path/filepath"
)

var repo, outDir string
var verbose bool
var only string
var failures []string

func fail(format string, a ...interface{}) {
	failures = append(failures, fmt.Sprintf(format, a...))
}

// writeIfChanged keeps mtimes stable so that make only rebuilds what really changed.
func writeIfChanged(name, content string) {
	p := filepath.Join(outDir, name)
	old, err := os.ReadFile(p)
	if err == nil && string(old) == content {
		return
	}
	if err := os.WriteFile(p, []byte(content), 0o644); err != nil {
		panic(err)
	}
}

type generator struct {
	name string
	run  func()
}

var generators []generator

func register(name string, f func()) { generators = append(generators, generator{name, f}) }

func main() {
	flag.StringVar(&repo, "repo", "/repo", "repository root")
	flag.StringVar(&outDir, "out", "/verif/coq/Gen", "output directory")
	flag.BoolVar(&verbose, "v", false, "verbose")
	flag.StringVar(&only, "only", "", "run only this generator")
	flag.Parse()
	os.MkdirAll(outDir, 0o755)
	for _, g := range generators {
		if only != "" && g.name != only {
			continue
		}
		g.run()
	}
	if len(failures) > 0 {
		for _, f := range failures {
			fmt.Println("go2coq:", f)
		}
		os.Exit(1)
	}
}
