package main

import (
	"encoding/json"
	"fmt"
	"go/ast"
	"go/constant"
	"go/token"
	"go/types"
	"math/big"
	"path/filepath"
	"sort"
	"strings"
)

// Flag/constant/name tables (property C19): every integer constant, every map literal keyed by
// constants, every `if x&M ==/!= V { … append(…, "NAME") }` chain, every one-line bit predicate
// and every `switch … case C: return "NAME"` of the listed packages, re-read on every run.
func init() { register("tables", genTables) }

var tableDirs = []string{
	"network/ldap/ldap_attributes",
	"network/smb/smb_v10/message/header/flags",
	"network/smb/smb_v10/message/header/flags2",
	"network/smb/smb_v10/capabilities",
	"network/smb/smb_v10/securitymode",
	"network/smb/smb_v10/message/commands/codes",
	"network/smb/smb_v10/subcommands",
	"windows/nt_status",
	"windows/keycredential/key",
	"network/netbios",
}

type constRow struct {
	Name  string `json:"name"`
	Type  string `json:"type"`
	Value string `json:"value"`
}
type mapRow struct {
	Key   string `json:"key"`
	Value string `json:"value"`
	Kind  string `json:"kind"` // "str" or "ident"
	Text  string `json:"text"`
}
type chainRow struct {
	MaskIdent string `json:"mask_ident"`
	Mask      string `json:"mask"`
	CmpIdent  string `json:"cmp_ident"`
	Cmp       string `json:"cmp"`
	Eq        bool   `json:"eq"`
	Lit       string `json:"lit"`
}
type predRow struct {
	Recv      string `json:"recv"`
	Method    string `json:"method"`
	MaskIdent string `json:"mask_ident"`
	Mask      string `json:"mask"`
	Cmp       string `json:"cmp"`
	Eq        bool   `json:"eq"`
}
type switchRow struct {
	Ident string `json:"ident"`
	Value string `json:"value"`
	Lit   string `json:"lit"`
}
type pkgTables struct {
	Dir      string                 `json:"dir"`
	Consts   []constRow             `json:"consts"`
	Maps     map[string][]mapRow    `json:"maps"`
	Chains   map[string][]chainRow  `json:"chains"`
	Preds    []predRow              `json:"preds"`
	Switches map[string][]switchRow `json:"switches"`
}

func coqStr(s string) string { return "\"" + strings.ReplaceAll(s, "\"", "\"\"") + "\"" }
func coqZ(v string) string   { return "(" + v + ")%Z" }
func coqBool(b bool) string {
	if b {
		return "true"
	}
	return "false"
}

func intString(v constant.Value) (string, bool) {
	if v == nil {
		return "", false
	}
	if v.Kind() == constant.Float {
		v = constant.ToInt(v)
	}
	if v.Kind() != constant.Int {
		return "", false
	}
	b, ok := new(big.Int).SetString(v.ExactString(), 10)
	if !ok {
		return "", false
	}
	return b.String(), true
}

func unparen(e ast.Expr) ast.Expr {
	for {
		p, ok := e.(*ast.ParenExpr)
		if !ok {
			return e
		}
		e = p.X
	}
}

func identName(e ast.Expr) string {
	switch x := unparen(e).(type) {
	case *ast.Ident:
		return x.Name
	case *ast.SelectorExpr:
		return identName(x.X) + "." + x.Sel.Name
	case *ast.CallExpr: // conversions such as uint32(X)
		if len(x.Args) == 1 {
			return identName(x.Args[0])
		}
	case *ast.BasicLit:
		return x.Value
	}
	return "?"
}

// maskTest recognises  (x & M) ==/!= V  and returns the pieces.
func (lp *loadedPkg) maskTest(e ast.Expr) (maskIdent, mask, cmpIdent, cmp string, eq, ok bool) {
	be, isBin := unparen(e).(*ast.BinaryExpr)
	if !isBin || (be.Op != token.EQL && be.Op != token.NEQ) {
		return
	}
	and, isAnd := unparen(be.X).(*ast.BinaryExpr)
	if !isAnd || and.Op != token.AND {
		return
	}
	mv, okm := lp.evalConst(and.Y)
	side := and.Y
	if !okm {
		mv, okm = lp.evalConst(and.X)
		side = and.X
	}
	cv, okc := lp.evalConst(be.Y)
	if !okm || !okc {
		return
	}
	ms, ok1 := intString(mv)
	cs, ok2 := intString(cv)
	if !ok1 || !ok2 {
		return
	}
	return identName(side), ms, identName(be.Y), cs, be.Op == token.EQL, true
}

func recvName(fd *ast.FuncDecl) string {
	if fd.Recv == nil || len(fd.Recv.List) == 0 {
		return ""
	}
	t := fd.Recv.List[0].Type
	if st, ok := t.(*ast.StarExpr); ok {
		t = st.X
	}
	if id, ok := t.(*ast.Ident); ok {
		return id.Name
	}
	return ""
}

// firstStringLit returns the first string literal appended / returned inside a block.
func (lp *loadedPkg) appendedLit(b *ast.BlockStmt) (string, bool) {
	if len(b.List) != 1 {
		return "", false
	}
	as, ok := b.List[0].(*ast.AssignStmt)
	if !ok || len(as.Rhs) != 1 {
		return "", false
	}
	ce, ok := as.Rhs[0].(*ast.CallExpr)
	if !ok || identName(ce.Fun) != "append" || len(ce.Args) != 2 {
		return "", false
	}
	v, ok := lp.evalConst(ce.Args[1])
	if !ok || v.Kind() != constant.String {
		return "", false
	}
	return constant.StringVal(v), true
}

func extractTables(rel string) *pkgTables {
	lp := loadDir(rel)
	if lp == nil || lp.pkg == nil {
		fail("tables: cannot load %s", rel)
		return nil
	}
	pt := &pkgTables{Dir: rel, Maps: map[string][]mapRow{}, Chains: map[string][]chainRow{}, Switches: map[string][]switchRow{}}
	// constants in source order
	for _, f := range lp.files {
		for _, d := range f.Decls {
			gd, ok := d.(*ast.GenDecl)
			if !ok {
				continue
			}
			if gd.Tok == token.CONST {
				for _, s := range gd.Specs {
					vs := s.(*ast.ValueSpec)
					for _, n := range vs.Names {
						obj, ok := lp.info.Defs[n].(*types.Const)
						if !ok {
							continue
						}
						sv, ok := intString(obj.Val())
						if !ok {
							continue
						}
						tn := ""
						if named, ok := obj.Type().(*types.Named); ok {
							tn = named.Obj().Name()
						} else if b, ok := obj.Type().(*types.Basic); ok && b.Info()&types.IsUntyped == 0 {
							tn = b.Name()
						}
						pt.Consts = append(pt.Consts, constRow{n.Name, tn, sv})
					}
				}
			}
			if gd.Tok == token.VAR {
				for _, s := range gd.Specs {
					vs := s.(*ast.ValueSpec)
					for i, n := range vs.Names {
						if i >= len(vs.Values) {
							continue
						}
						cl, ok := vs.Values[i].(*ast.CompositeLit)
						if !ok {
							continue
						}
						if _, isMap := cl.Type.(*ast.MapType); !isMap {
							continue
						}
						var rows []mapRow
						good := true
						for _, el := range cl.Elts {
							kv, ok := el.(*ast.KeyValueExpr)
							if !ok {
								good = false
								break
							}
							kval, ok := lp.evalConst(kv.Key)
							if !ok {
								good = false
								break
							}
							ks, ok := intString(kval)
							if !ok {
								good = false
								break
							}
							row := mapRow{Key: identName(kv.Key), Value: ks}
							if v, ok := lp.evalConst(kv.Value); ok && v.Kind() == constant.String {
								row.Kind, row.Text = "str", constant.StringVal(v)
							} else {
								row.Kind, row.Text = "ident", identName(kv.Value)
							}
							rows = append(rows, row)
						}
						if good && len(rows) > 0 {
							pt.Maps[n.Name] = rows
						}
					}
				}
			}
		}
	}
	// functions
	for _, f := range lp.files {
		for _, d := range f.Decls {
			fd, ok := d.(*ast.FuncDecl)
			if !ok || fd.Body == nil {
				continue
			}
			recv := recvName(fd)
			key := recv + "_" + fd.Name.Name
			// one-line predicate
			if len(fd.Body.List) == 1 {
				if rs, ok := fd.Body.List[0].(*ast.ReturnStmt); ok && len(rs.Results) == 1 {
					if mi, m, _, c, eq, ok := lp.maskTest(rs.Results[0]); ok {
						pt.Preds = append(pt.Preds, predRow{recv, fd.Name.Name, mi, m, c, eq})
					}
				}
			}
			// the table idiom of the same decomposition:
			//   rows := []struct{ m T; name string }{ {C1, "N1"}, {C2, "N2"}, ... }
			//   for _, r := range rows { if x&r.m == r.m { list = append(list, r.name) } }      (or: != … continue; append)
			// yields the same chain rows, in the order of the literal
			localRows := map[string][][2]ast.Expr{}
			for _, st := range fd.Body.List {
				as, ok := st.(*ast.AssignStmt)
				if !ok || len(as.Lhs) != 1 || len(as.Rhs) != 1 {
					continue
				}
				cl, ok := as.Rhs[0].(*ast.CompositeLit)
				if !ok {
					continue
				}
				at, ok := cl.Type.(*ast.ArrayType)
				if !ok {
					continue
				}
				if _, ok := at.Elt.(*ast.StructType); !ok {
					continue
				}
				var rows [][2]ast.Expr
				good := len(cl.Elts) > 0
				for _, el := range cl.Elts {
					rl, ok := el.(*ast.CompositeLit)
					if !ok || len(rl.Elts) != 2 {
						good = false
						break
					}
					a, b := rl.Elts[0], rl.Elts[1]
					if kv, ok := a.(*ast.KeyValueExpr); ok {
						a = kv.Value
					}
					if kv, ok := b.(*ast.KeyValueExpr); ok {
						b = kv.Value
					}
					rows = append(rows, [2]ast.Expr{a, b})
				}
				if good {
					localRows[identName(as.Lhs[0])] = rows
				}
			}
			for _, st := range fd.Body.List {
				rs, ok := st.(*ast.RangeStmt)
				if !ok || rs.Value == nil {
					continue
				}
				rows, ok := localRows[identName(rs.X)]
				if !ok || len(rs.Body.List) == 0 {
					continue
				}
				is, ok := rs.Body.List[0].(*ast.IfStmt)
				if !ok || is.Init != nil || is.Else != nil {
					continue
				}
				be, ok := unparen(is.Cond).(*ast.BinaryExpr)
				if !ok || (be.Op != token.EQL && be.Op != token.NEQ) {
					continue
				}
				and, ok := unparen(be.X).(*ast.BinaryExpr)
				if !ok || and.Op != token.AND {
					continue
				}
				rv := identName(rs.Value)
				sel := func(e ast.Expr) bool {
					se, ok := unparen(e).(*ast.SelectorExpr)
					return ok && identName(se.X) == rv
				}
				if !sel(and.Y) || !sel(be.Y) || nodeStr(lp.fset, and.Y) != nodeStr(lp.fset, be.Y) {
					continue
				}
				// == with an append in the body, or != with continue followed by the append
				shapeOK := false
				if be.Op == token.EQL && len(rs.Body.List) == 1 && len(is.Body.List) == 1 {
					_, shapeOK = is.Body.List[0].(*ast.AssignStmt)
				}
				if be.Op == token.NEQ && len(rs.Body.List) == 2 && len(is.Body.List) == 1 {
					if br, ok := is.Body.List[0].(*ast.BranchStmt); ok && br.Tok == token.CONTINUE {
						_, shapeOK = rs.Body.List[1].(*ast.AssignStmt)
					}
				}
				if !shapeOK {
					continue
				}
				for _, row := range rows {
					mv, ok1 := lp.evalConst(row[0])
					nv, ok2 := lp.evalConst(row[1])
					if !ok1 || !ok2 || nv.Kind() != constant.String {
						continue
					}
					ms, ok := intString(mv)
					if !ok {
						continue
					}
					pt.Chains[key] = append(pt.Chains[key], chainRow{identName(row[0]), ms, identName(row[0]), ms, true, constant.StringVal(nv)})
				}
			}
			for _, st := range fd.Body.List {
				switch s := st.(type) {
				case *ast.IfStmt:
					if s.Init != nil || s.Else != nil {
						continue
					}
					mi, m, ci, c, eq, ok := lp.maskTest(s.Cond)
					if !ok {
						continue
					}
					lit, ok := lp.appendedLit(s.Body)
					if !ok {
						continue
					}
					pt.Chains[key] = append(pt.Chains[key], chainRow{mi, m, ci, c, eq, lit})
				case *ast.SwitchStmt:
					if s.Tag == nil {
						continue
					}
					for _, cc := range s.Body.List {
						c := cc.(*ast.CaseClause)
						if len(c.Body) != 1 {
							continue
						}
						rs, ok := c.Body[0].(*ast.ReturnStmt)
						if !ok || len(rs.Results) != 1 {
							continue
						}
						v, ok := lp.evalConst(rs.Results[0])
						if !ok || v.Kind() != constant.String {
							continue
						}
						for _, ce := range c.List {
							cv, ok := lp.evalConst(ce)
							if !ok {
								continue
							}
							cs, ok := intString(cv)
							if !ok {
								continue
							}
							pt.Switches[key] = append(pt.Switches[key], switchRow{identName(ce), cs, constant.StringVal(v)})
						}
					}
				}
			}
		}
	}
	return pt
}

func sortedKeys[T any](m map[string]T) []string {
	var ks []string
	for k := range m {
		ks = append(ks, k)
	}
	sort.Strings(ks)
	return ks
}

func pkgID(rel string) string {
	return strings.NewReplacer("-", "_", ".", "_").Replace(filepath.Base(rel))
}

func genTables() {
	var all []*pkgTables
	var sbMain, sbNt strings.Builder
	header := func(sb *strings.Builder) {
		sb.WriteString("(* Generated by go2coq from /repo on every run: do not edit. *)\nFrom Coq Require Import List ZArith String.\nImport ListNotations.\nOpen Scope string_scope.\n\n")
		sb.WriteString("(* consts: (identifier, declared type, value)\n   maps:   (key identifier, key value, is-string-literal, literal or value identifier)\n   chains: (mask identifier, mask, compared identifier, compared value, is ==, appended literal)\n   preds:  (receiver, method, mask identifier, mask, compared value, is ==)\n   switch: (case identifier, case value, returned literal) *)\n\n")
	}
	header(&sbMain)
	header(&sbNt)
	for _, rel := range tableDirs {
		sb := &sbMain
		if strings.HasSuffix(rel, "nt_status") {
			sb = &sbNt
		}
		pt := extractTables(rel)
		if pt == nil {
			continue
		}
		all = append(all, pt)
		id := pkgID(rel)
		fmt.Fprintf(sb, "(* ---- %s ---- *)\n", rel)
		fmt.Fprintf(sb, "Definition consts_%s : list (string * string * Z) := [\n", id)
		for i, c := range pt.Consts {
			sep := ";"
			if i == len(pt.Consts)-1 {
				sep = ""
			}
			fmt.Fprintf(sb, "  (%s, %s, %s)%s\n", coqStr(c.Name), coqStr(c.Type), coqZ(c.Value), sep)
		}
		sb.WriteString("].\n\n")
		for _, k := range sortedKeys(pt.Maps) {
			rows := pt.Maps[k]
			fmt.Fprintf(sb, "Definition map_%s_%s : list (string * Z * bool * string) := [\n", id, k)
			for i, r := range rows {
				sep := ";"
				if i == len(rows)-1 {
					sep = ""
				}
				fmt.Fprintf(sb, "  (%s, %s, %s, %s)%s\n", coqStr(r.Key), coqZ(r.Value), coqBool(r.Kind == "str"), coqStr(r.Text), sep)
			}
			sb.WriteString("].\n\n")
		}
		for _, k := range sortedKeys(pt.Chains) {
			rows := pt.Chains[k]
			fmt.Fprintf(sb, "Definition chain_%s_%s : list (string * Z * string * Z * bool * string) := [\n", id, k)
			for i, r := range rows {
				sep := ";"
				if i == len(rows)-1 {
					sep = ""
				}
				fmt.Fprintf(sb, "  (%s, %s, %s, %s, %s, %s)%s\n", coqStr(r.MaskIdent), coqZ(r.Mask), coqStr(r.CmpIdent), coqZ(r.Cmp), coqBool(r.Eq), coqStr(r.Lit), sep)
			}
			sb.WriteString("].\n\n")
		}
		fmt.Fprintf(sb, "Definition preds_%s : list (string * string * string * Z * Z * bool) := [\n", id)
		for i, r := range pt.Preds {
			sep := ";"
			if i == len(pt.Preds)-1 {
				sep = ""
			}
			fmt.Fprintf(sb, "  (%s, %s, %s, %s, %s, %s)%s\n", coqStr(r.Recv), coqStr(r.Method), coqStr(r.MaskIdent), coqZ(r.Mask), coqZ(r.Cmp), coqBool(r.Eq), sep)
		}
		sb.WriteString("].\n\n")
		for _, k := range sortedKeys(pt.Switches) {
			rows := pt.Switches[k]
			fmt.Fprintf(sb, "Definition switch_%s_%s : list (string * Z * string) := [\n", id, k)
			for i, r := range rows {
				sep := ";"
				if i == len(rows)-1 {
					sep = ""
				}
				fmt.Fprintf(sb, "  (%s, %s, %s)%s\n", coqStr(r.Ident), coqZ(r.Value), coqStr(r.Lit), sep)
			}
			sb.WriteString("].\n\n")
		}
	}
	writeIfChanged("Tables.v", sbMain.String())
	writeIfChanged("TablesNt.v", sbNt.String())
	js, _ := json.MarshalIndent(all, "", " ")
	writeIfChanged("tables.json", string(js))
}
