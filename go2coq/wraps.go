package main

// "wraps": where fixed-width integer arithmetic can wrap, and where a value is narrowed.
// The hand-written models use unbounded numbers and write the wrap explicitly (wrap16, mod 2^32, ...) at exactly
// the places where the Go code computes in a fixed-width type (DESIGN section 3).  Which places those are is a
// fact of the source text and of its types, so it is re-read on every run: for every function of every package
// a property anchors, each non-constant +, -, *, << (and the compound assignments and ++/--) whose type is a
// sized integer, and each conversion that narrows an integer, is emitted into Gen/Wraps.v;
// Properties/ShapeCxx.v requires the list to equal the committed expectation (Model/WrapsExpected.v).
// A new site is arithmetic the model does not wrap (or a width it does not know about): a broken tie.
//
// Types are resolved with go/types on one package at a time (imports are opaque), so an expression whose
// operands have a type declared in ANOTHER package (types.USHORT in the SMB command files) is not classified;
// those files are covered by the layout translator instead.
import (
	"bufio"
	"fmt"
	"go/ast"
	"go/constant"
	"go/token"
	"go/types"
	"math/big"
	"os"
	"path/filepath"
	"sort"
	"strings"
)

func init() { register("wraps", genWraps) }

func sizedInt(t types.Type) (string, int, bool) {
	if t == nil {
		return "", 0, false
	}
	b, ok := t.Underlying().(*types.Basic)
	if !ok {
		return "", 0, false
	}
	switch b.Kind() {
	case types.Uint8:
		return "uint8", 8, true
	case types.Uint16:
		return "uint16", 16, true
	case types.Uint32:
		return "uint32", 32, true
	case types.Uint64:
		return "uint64", 64, true
	case types.Int8:
		return "int8", 8, true
	case types.Int16:
		return "int16", 16, true
	case types.Int32:
		return "int32", 32, true
	case types.Int64:
		return "int64", 64, true
	}
	return "", 0, false
}

func intWidth(t types.Type) (int, bool) {
	if t == nil {
		return 0, false
	}
	b, ok := t.Underlying().(*types.Basic)
	if !ok || b.Info()&types.IsInteger == 0 {
		return 0, false
	}
	if _, w, ok := sizedInt(t); ok {
		return w, true
	}
	switch b.Kind() {
	case types.Int, types.Uint, types.Uintptr:
		return 64, true
	}
	return 0, false // untyped constants
}

func pkgWraps(dir string) []string {
	lp := loadDir(dir)
	if lp == nil {
		return []string{"<unreadable>"}
	}
	var out []string
	// the site is identified by its shape: identifiers are replaced by _, so that renaming a variable or moving the
	// expression into a helper function does not change the list
	txt := func(n ast.Node) string {
		s := wrapShape(lp, n)
		if len(s) > 90 {
			s = s[:90] + "..."
		}
		return s
	}
	isConst := func(e ast.Expr) bool {
		tv, ok := lp.info.Types[e]
		return ok && tv.Value != nil
	}
	for i, f := range lp.files {
		if strings.Contains(lp.names[i], "verif_hooks") {
			continue
		}
		for _, d := range f.Decls {
			fd, ok := d.(*ast.FuncDecl)
			if !ok || fd.Body == nil {
				continue
			}
			ast.Inspect(fd.Body, func(n ast.Node) bool {
				switch e := n.(type) {
				case *ast.BinaryExpr:
					switch e.Op {
					case token.ADD, token.SUB, token.MUL, token.SHL:
						if isConst(e) {
							return true
						}
						if name, _, ok := sizedInt(lp.info.TypeOf(e)); ok && !fits(lp, e) {
							out = append(out, fmt.Sprintf("%s %s: %s", e.Op, name, txt(e)))
						}
					}
				case *ast.AssignStmt:
					switch e.Tok {
					case token.ADD_ASSIGN, token.SUB_ASSIGN, token.MUL_ASSIGN, token.SHL_ASSIGN:
						if len(e.Lhs) == 1 {
							if name, _, ok := sizedInt(lp.info.TypeOf(e.Lhs[0])); ok {
								out = append(out, fmt.Sprintf("%s %s: %s", e.Tok, name, txt(e)))
							}
						}
					}
				case *ast.IncDecStmt:
					if name, _, ok := sizedInt(lp.info.TypeOf(e.X)); ok {
						out = append(out, fmt.Sprintf("%s %s: %s", e.Tok, name, txt(e)))
					}
				case *ast.CallExpr:
					if len(e.Args) != 1 || isConst(e.Args[0]) {
						return true
					}
					tv, ok := lp.info.Types[e.Fun]
					if !ok || !tv.IsType() {
						return true
					}
					name, w, ok := sizedInt(tv.Type)
					if !ok {
						return true
					}
					if sw, ok := intWidth(lp.info.TypeOf(e.Args[0])); ok && sw > w && !fits(lp, e) {
						out = append(out, fmt.Sprintf("narrow to %s: %s", name, txt(e)))
					}
				}
				return true
			})
		}
	}
	sort.Strings(out)
	return out
}

// wrapShape prints the arithmetic shape of a site: operators, conversions, len/cap and constants (by value, whether
// written as a literal or as a named constant) are kept; every other operand (a variable, a field, an element, a
// function result) is _.  Renaming, taking a field into a local or writing 10_000_000 for 10000000 does not change it.
func wrapShape(lp *loadedPkg, n ast.Node) string {
	var f func(e ast.Expr) string
	f = func(e ast.Expr) string {
		if tv, ok := lp.info.Types[e]; ok && tv.Value != nil {
			return tv.Value.ExactString()
		}
		switch x := e.(type) {
		case *ast.ParenExpr:
			return f(x.X)
		case *ast.BinaryExpr:
			return "(" + f(x.X) + " " + x.Op.String() + " " + f(x.Y) + ")"
		case *ast.UnaryExpr:
			return x.Op.String() + f(x.X)
		case *ast.CallExpr:
			if tv, ok := lp.info.Types[x.Fun]; ok && tv.IsType() && len(x.Args) == 1 {
				name := nodeStr(lp.fset, x.Fun)
				if b, ok := tv.Type.Underlying().(*types.Basic); ok {
					name = b.Name()
				}
				return name + "(" + f(x.Args[0]) + ")"
			}
			if id, ok := x.Fun.(*ast.Ident); ok && (id.Name == "len" || id.Name == "cap") {
				return id.Name + "(_)"
			}
			return "_"
		}
		return "_"
	}
	switch x := n.(type) {
	case ast.Expr:
		return f(x)
	case *ast.AssignStmt:
		return "_ " + x.Tok.String() + " " + f(x.Rhs[0])
	case *ast.IncDecStmt:
		return "_" + x.Tok.String()
	}
	return "?"
}

// valueRange: bounds of an integer expression that follow from constants, from the width of the types its operands
// are converted from, and from masks, shifts and remainders.  A site whose result provably fits its type cannot wrap
// (uint16(b[0])<<8 | uint16(b[1]), byte(x & 0xff)) and is not a site.
func valueRange(lp *loadedPkg, e ast.Expr) (lo, hi *big.Int, ok bool) {
	if tv, found := lp.info.Types[e]; found && tv.Value != nil {
		if v, isInt := constant.Val(constant.ToInt(tv.Value)).(*big.Int); isInt {
			return v, v, true
		} else if i64, exact := constant.Int64Val(constant.ToInt(tv.Value)); exact {
			return big.NewInt(i64), big.NewInt(i64), true
		}
	}
	typeRange := func(t types.Type) (*big.Int, *big.Int, bool) {
		if t == nil {
			return nil, nil, false
		}
		b, isB := t.Underlying().(*types.Basic)
		if !isB || b.Info()&types.IsInteger == 0 {
			return nil, nil, false
		}
		w, known := intWidth(t)
		if !known {
			return nil, nil, false
		}
		one := big.NewInt(1)
		if b.Info()&types.IsUnsigned != 0 {
			return big.NewInt(0), new(big.Int).Sub(new(big.Int).Lsh(one, uint(w)), one), true
		}
		h := new(big.Int).Lsh(one, uint(w-1))
		return new(big.Int).Neg(h), new(big.Int).Sub(h, one), true
	}
	clampTo := func(lo, hi *big.Int, t types.Type) (*big.Int, *big.Int, bool) {
		tl, th, known := typeRange(t)
		if !known {
			return lo, hi, true
		}
		if lo.Cmp(tl) >= 0 && hi.Cmp(th) <= 0 {
			return lo, hi, true
		}
		return tl, th, true // may wrap: anything of the type
	}
	switch x := e.(type) {
	case *ast.ParenExpr:
		return valueRange(lp, x.X)
	case *ast.CallExpr:
		if tv, found := lp.info.Types[x.Fun]; found && tv.IsType() && len(x.Args) == 1 {
			if l, h, known := valueRange(lp, x.Args[0]); known {
				return clampTo(l, h, tv.Type)
			}
			return typeRange(tv.Type)
		}
	case *ast.BinaryExpr:
		l1, h1, ok1 := valueRange(lp, x.X)
		l2, h2, ok2 := valueRange(lp, x.Y)
		t := lp.info.TypeOf(e)
		switch x.Op {
		case token.AND:
			// x & c with a non-negative c: at most c
			if ok2 && l2.Sign() >= 0 {
				return big.NewInt(0), h2, true
			}
			if ok1 && l1.Sign() >= 0 {
				return big.NewInt(0), h1, true
			}
		case token.REM:
			if ok2 && l2.Sign() > 0 && ok1 && l1.Sign() >= 0 {
				return big.NewInt(0), new(big.Int).Sub(h2, big.NewInt(1)), true
			}
		case token.SHR:
			if ok1 && ok2 && l1.Sign() >= 0 && l2.Sign() >= 0 && l2.IsInt64() && l2.Int64() < 256 {
				return big.NewInt(0), new(big.Int).Rsh(h1, uint(l2.Int64())), true
			}
		case token.QUO:
			if ok1 && ok2 && l1.Sign() >= 0 && l2.Sign() > 0 {
				return big.NewInt(0), new(big.Int).Quo(h1, l2), true
			}
		case token.OR, token.XOR:
			if ok1 && ok2 && l1.Sign() >= 0 && l2.Sign() >= 0 {
				m := h1
				if h2.Cmp(m) > 0 {
					m = h2
				}
				// below the next power of two
				return big.NewInt(0), new(big.Int).Sub(new(big.Int).Lsh(big.NewInt(1), uint(m.BitLen())), big.NewInt(1)), true
			}
		case token.ADD:
			if ok1 && ok2 {
				return clampTo(new(big.Int).Add(l1, l2), new(big.Int).Add(h1, h2), t)
			}
		case token.SUB:
			if ok1 && ok2 {
				return clampTo(new(big.Int).Sub(l1, h2), new(big.Int).Sub(h1, l2), t)
			}
		case token.MUL:
			if ok1 && ok2 && l1.Sign() >= 0 && l2.Sign() >= 0 {
				return clampTo(new(big.Int).Mul(l1, l2), new(big.Int).Mul(h1, h2), t)
			}
		case token.SHL:
			if ok1 && ok2 && l1.Sign() >= 0 && l2.Sign() >= 0 && h2.IsInt64() && h2.Int64() < 256 {
				return clampTo(new(big.Int).Lsh(l1, uint(l2.Int64())), new(big.Int).Lsh(h1, uint(h2.Int64())), t)
			}
		}
	}
	return typeRange(lp.info.TypeOf(e))
}

// fits: the exact (unwrapped) value of the operation lies inside its type
func fits(lp *loadedPkg, e ast.Expr) bool {
	t := lp.info.TypeOf(e)
	w, known := intWidth(t)
	if !known {
		return false
	}
	b := t.Underlying().(*types.Basic)
	one := big.NewInt(1)
	tl, th := big.NewInt(0), new(big.Int).Sub(new(big.Int).Lsh(one, uint(w)), one)
	if b.Info()&types.IsUnsigned == 0 {
		h := new(big.Int).Lsh(one, uint(w-1))
		tl, th = new(big.Int).Neg(h), new(big.Int).Sub(h, one)
	}
	var lo, hi *big.Int
	switch x := e.(type) {
	case *ast.BinaryExpr:
		l1, h1, ok1 := valueRange(lp, x.X)
		l2, h2, ok2 := valueRange(lp, x.Y)
		if !ok1 || !ok2 {
			return false
		}
		switch x.Op {
		case token.ADD:
			lo, hi = new(big.Int).Add(l1, l2), new(big.Int).Add(h1, h2)
		case token.SUB:
			lo, hi = new(big.Int).Sub(l1, h2), new(big.Int).Sub(h1, l2)
		case token.MUL:
			if l1.Sign() < 0 || l2.Sign() < 0 {
				return false
			}
			lo, hi = new(big.Int).Mul(l1, l2), new(big.Int).Mul(h1, h2)
		case token.SHL:
			if l1.Sign() < 0 || l2.Sign() < 0 || !h2.IsInt64() || h2.Int64() >= 256 {
				return false
			}
			lo, hi = new(big.Int).Lsh(l1, uint(l2.Int64())), new(big.Int).Lsh(h1, uint(h2.Int64()))
		default:
			return false
		}
	case *ast.CallExpr:
		l, h, known := valueRange(lp, x.Args[0])
		if !known {
			return false
		}
		lo, hi = l, h
	default:
		return false
	}
	return lo.Cmp(tl) >= 0 && hi.Cmp(th) <= 0
}

func genWraps() {
	listPath := filepath.Join(filepath.Dir(outDir), "..", "go2coq", "shapes_pkgs.txt")
	f, err := os.Open(listPath)
	if err != nil {
		return
	}
	defer f.Close()
	byProp := map[string][]string{}
	var props []string
	sc := bufio.NewScanner(f)
	for sc.Scan() {
		parts := strings.Fields(sc.Text())
		if len(parts) != 2 {
			continue
		}
		if _, ok := byProp[parts[0]]; !ok {
			props = append(props, parts[0])
		}
		byProp[parts[0]] = append(byProp[parts[0]], parts[1])
	}
	// packages whose wrap sites are a Coq obligation (a new site there is a hard failure, whatever sampling says):
	// those where the property is about arithmetic at sizes no sampler reaches (the MD4 bit counter).  Everywhere
	// else a changed set of wrap sites is handled by stage T of the check (re-validation against the baseline).
	hard := map[string]bool{}
	if hf, err := os.ReadFile(filepath.Join(filepath.Dir(listPath), "hard_wraps.txt")); err == nil {
		for _, l := range strings.Fields(string(hf)) {
			hard[l] = true
		}
	}
	cache := map[string][]string{}
	var sb, txt strings.Builder
	sb.WriteString("(* Generated by go2coq from /repo on every run: do not edit. *)\nFrom Coq Require Import List String.\nImport ListNotations.\nOpen Scope string_scope.\n\n")
	for _, p := range props {
		fmt.Fprintf(&sb, "Definition wraps_%s : list string := [\n", p)
		first := true
		for _, d := range byProp[p] {
			sh, ok := cache[d]
			if !ok {
				sh = pkgWraps(d)
				cache[d] = sh
			}
			for _, s := range sh {
				line := d + ": " + s
				fmt.Fprintf(&txt, "%s %s\n", p, line)
				if !hard[d] || u8Arith(s) {
					// arithmetic whose operands and result are 8 bits wide stays out of the obligation: all 256
					// values are within reach of the differential re-validation of stage T (wraps.txt still lists
					// the site); narrowing conversions to 8 bits and every wider site remain obligations
					continue
				}
				if !first {
					sb.WriteString(";\n")
				}
				first = false
				sb.WriteString("  " + coqStr(line))
			}
		}
		sb.WriteString("\n].\n\n")
	}
	writeIfChanged("Wraps.v", sb.String())
	writeIfChanged("wraps.txt", txt.String())
}

// u8Arith: a site "<operator> uint8: <expression>" (not a narrowing conversion "narrow to uint8: ...")
func u8Arith(site string) bool {
	i := strings.Index(site, ": ")
	return i > 0 && strings.HasSuffix(site[:i], " uint8") && !strings.HasPrefix(site, "narrow to ")
}

// normIdents prints a node with every identifier that is not a package name, a type/builtin name or a selected field
// replaced by _ (locals == nil: all plain identifiers; otherwise only the names in locals).
func normIdents(fset *token.FileSet, n ast.Node, locals map[string]bool) string {
	keep := map[*ast.Ident]bool{}
	ast.Inspect(n, func(x ast.Node) bool {
		switch e := x.(type) {
		case *ast.SelectorExpr:
			keep[e.Sel] = true
			if id, ok := e.X.(*ast.Ident); ok && id.Obj == nil && locals == nil {
				// package qualifier (binary.BigEndian) or an unresolved name: keep packages readable
				if id.Name == "binary" || id.Name == "time" || id.Name == "math" || id.Name == "len" {
					keep[id] = true
				}
			}
		case *ast.CallExpr:
			if id, ok := e.Fun.(*ast.Ident); ok {
				keep[id] = true // conversions and builtins: uint16(...), len(...), byte(...)
			}
		}
		return true
	})
	var sb strings.Builder
	last := token.Pos(0)
	_ = last
	// print through a copy with renamed identifiers
	repl := map[*ast.Ident]string{}
	ast.Inspect(n, func(x ast.Node) bool {
		if id, ok := x.(*ast.Ident); ok && !keep[id] {
			if locals == nil || locals[id.Name] {
				repl[id] = id.Name
				id.Name = "_"
			}
		}
		return true
	})
	sb.WriteString(nodeStr(fset, n))
	for id, old := range repl {
		id.Name = old
	}
	return sb.String()
}
