package main

// "decisions": the case analysis of the hand-modelled functions.
// A hand-written model follows the code's own case analysis: every `if`, `switch`/`case`, loop condition,
// `select`, lock operation and literal constant of the function has a counterpart in the Gallina definition.
// The correspondence runs can only sample inputs, so a NEW case (a fast path keyed on one value, a bound moved by
// one, a condition evaluated in another order, a lock released earlier) may never be drawn.  That the model still
// has the code's case analysis is therefore tied structurally: for every function of every anchored package the
// conditions, case expressions, loop headers, select/go/defer statements, mutex calls, and the literals (other than
// the texts of error and log messages) are emitted into Gen/Decisions.v, and Properties/ShapeCxx.v requires them to
// equal the committed expectation.  A difference means the model was written against another case analysis: a
// broken tie, reported like any other broken obligation (with the difference in the replay), while the search looks
// for an input that exhibits a violation.  Renaming locals, reordering independent statements, rewording error
// messages, adding comments or logging do not change the list.
import (
	"bufio"
	"fmt"
	"go/ast"
	goparser "go/parser"
	"go/token"
	"os"
	"path/filepath"
	"sort"
	"strconv"
	"strings"
)

func init() { register("decisions", genDecisions) }

func isMsgCall(fset *token.FileSet, ce *ast.CallExpr) bool {
	n := nodeStr(fset, ce.Fun)
	for _, k := range []string{"Errorf", "errors.New", "log.", "Print", "Fatal", "Panic", "debug", "Debug", "logger"} {
		if strings.Contains(n, k) {
			return true
		}
	}
	return false
}

func pkgDecisions(dir string) []string {
	fset := token.NewFileSet()
	ents, err := os.ReadDir(filepath.Join(repo, dir))
	if err != nil {
		return []string{"<unreadable>"}
	}
	var out []string
	clip := func(s string) string {
		if len(s) > 110 {
			return s[:110] + "..."
		}
		return s
	}
	for _, e := range ents {
		n := e.Name()
		if e.IsDir() || !strings.HasSuffix(n, ".go") || strings.HasSuffix(n, "_test.go") || strings.Contains(n, "verif_hooks") {
			continue
		}
		f, err := parseFile(fset, filepath.Join(repo, dir, n))
		if err != nil {
			out = append(out, "<parse error in "+n+">")
			continue
		}
		for _, d := range f.Decls {
			fd, ok := d.(*ast.FuncDecl)
			if !ok || fd.Body == nil {
				continue
			}
			fn := fd.Name.Name
			if fd.Recv != nil && len(fd.Recv.List) > 0 {
				fn = nodeStr(fset, fd.Recv.List[0].Type) + "." + fn
			}
			// names declared inside the function (parameters, results, := and var declarations, range variables):
			// renaming them does not change the case analysis
			locals := map[string]bool{}
			if fd.Type.Params != nil {
				for _, fl := range fd.Type.Params.List {
					for _, nm := range fl.Names {
						locals[nm.Name] = true
					}
				}
			}
			if fd.Type.Results != nil {
				for _, fl := range fd.Type.Results.List {
					for _, nm := range fl.Names {
						locals[nm.Name] = true
					}
				}
			}
			if fd.Recv != nil {
				for _, fl := range fd.Recv.List {
					for _, nm := range fl.Names {
						locals[nm.Name] = true
					}
				}
			}
			ast.Inspect(fd.Body, func(x ast.Node) bool {
				switch s := x.(type) {
				case *ast.AssignStmt:
					if s.Tok == token.DEFINE {
						for _, l := range s.Lhs {
							if id, ok := l.(*ast.Ident); ok {
								locals[id.Name] = true
							}
						}
					}
				case *ast.ValueSpec:
					for _, nm := range s.Names {
						locals[nm.Name] = true
					}
				case *ast.RangeStmt:
					if id, ok := s.Key.(*ast.Ident); ok {
						locals[id.Name] = true
					}
					if id, ok := s.Value.(*ast.Ident); ok {
						locals[id.Name] = true
					}
				}
				return true
			})
			nstr := func(n ast.Node) string { return normIdents(fset, n, locals) }
			seq := 0
			depth := 0
			// decisions keep their order and nesting (a `select` moved into an error branch is a different case
			// analysis); literals are kept as a multiset (statements that merely move do not matter)
			add := func(format string, a ...interface{}) {
				text := fmt.Sprintf(format, a...)
				if strings.HasPrefix(text, "lit ") || strings.HasPrefix(text, "returns ") {
					out = append(out, fn+": "+clip(text))
					return
				}
				seq++
				out = append(out, fmt.Sprintf("%s: #%03d d%d %s", fn, seq, depth, clip(text)))
			}
			returns := 0
			var walk func(n ast.Node, inMsg bool)
			walk = func(n ast.Node, inMsg bool) {
				var stack []ast.Node
				ast.Inspect(n, func(x ast.Node) bool {
					if x == nil {
						if len(stack) > 0 {
							if _, ok := stack[len(stack)-1].(*ast.BlockStmt); ok {
								depth--
							}
							stack = stack[:len(stack)-1]
						}
						return true
					}
					stack = append(stack, x)
					if _, ok := x.(*ast.BlockStmt); ok {
						depth++
					}
					switch s := x.(type) {
					case *ast.IfStmt:
						add("if %s", nstr(s.Cond))
					case *ast.SwitchStmt:
						if s.Tag != nil {
							add("switch %s", nstr(s.Tag))
						} else {
							add("switch")
						}
					case *ast.TypeSwitchStmt:
						add("typeswitch")
					case *ast.CaseClause:
						if s.List == nil {
							add("default")
						}
						for _, c := range s.List {
							add("case %s", nstr(c))
						}
					case *ast.ForStmt:
						c := ""
						if s.Cond != nil {
							c = nstr(s.Cond)
						}
						p := ""
						if s.Post != nil {
							p = nstr(s.Post)
						}
						i := ""
						if s.Init != nil {
							i = nstr(s.Init)
						}
						add("for %s; %s; %s", i, c, p)
					case *ast.RangeStmt:
						add("range %s", nstr(s.X))
					case *ast.SelectStmt:
						add("select")
					case *ast.CommClause:
						if s.Comm == nil {
							add("comm default")
						} else {
							add("comm %s", nstr(s.Comm))
						}
					case *ast.GoStmt:
						add("go %s", nodeStr(fset, s.Call.Fun))
					case *ast.DeferStmt:
						add("defer %s", nodeStr(fset, s.Call.Fun))
					case *ast.ReturnStmt:
						returns++
					case *ast.CallExpr:
						name := nodeStr(fset, s.Fun)
						for _, k := range []string{".Lock", ".Unlock", ".RLock", ".RUnlock", ".Wait", ".Done", ".Add", "close", ".Store", ".Load", ".Delete"} {
							if strings.HasSuffix(name, k) || name == k {
								add("call %s", name)
								break
							}
						}
						if isMsgCall(fset, s) && !inMsg {
							// the texts of messages are not part of the case analysis: do not descend into literals
							for _, a := range s.Args {
								walk(a, true)
							}
							walk(s.Fun, true)
							stack = stack[:len(stack)-1]
							return false
						}
					case *ast.BasicLit:
						if inMsg && s.Kind == token.STRING {
							return true
						}
						if s.Kind == token.INT {
							if v, err := strconv.ParseInt(strings.ReplaceAll(s.Value, "_", ""), 0, 64); err == nil {
								add("lit %d", v)
							} else {
								add("lit %s", s.Value)
							}
						} else if s.Kind == token.CHAR || s.Kind == token.STRING || s.Kind == token.FLOAT {
							add("lit %s", s.Value)
						}
					}
					return true
				})
			}
			walk(fd.Body, false)
			add("returns %d", returns)
		}
	}
	sort.Strings(out)
	return out
}

func genDecisions() {
	listPath := filepath.Join(filepath.Dir(outDir), "..", "go2coq", "shapes_pkgs.txt")
	f, err := os.Open(listPath)
	if err != nil {
		return
	}
	defer f.Close()
	byProp := map[string][]string{}
	var props []string
	sc := bufio.NewScanner(f)
	for sc.Scan() {
		parts := strings.Fields(sc.Text())
		if len(parts) != 2 {
			continue
		}
		// the 115 generated command files are tied by the layout translator (Gen/SmbLayouts.v), not here
		if strings.HasSuffix(parts[1], "message/commands") {
			continue
		}
		if _, ok := byProp[parts[0]]; !ok {
			props = append(props, parts[0])
		}
		byProp[parts[0]] = append(byProp[parts[0]], parts[1])
	}
	cache := map[string][]string{}
	var sb, txt strings.Builder
	sb.WriteString("(* Generated by go2coq from /repo on every run: do not edit. *)\nFrom Coq Require Import List String.\nImport ListNotations.\nOpen Scope string_scope.\n\n")
	for _, p := range props {
		fmt.Fprintf(&sb, "Definition decisions_%s : list string := [\n", p)
		first := true
		for _, d := range byProp[p] {
			sh, ok := cache[d]
			if !ok {
				sh = pkgDecisions(d)
				cache[d] = sh
			}
			for _, s := range sh {
				line := d + ": " + s
				if !first {
					sb.WriteString(";\n")
				}
				first = false
				sb.WriteString("  " + coqStr(line))
				fmt.Fprintf(&txt, "%s %s\n", p, line)
			}
		}
		sb.WriteString("\n].\n\n")
	}
	// the case analysis is compared outside Coq (check, stage T: identical, or re-validated by differential execution
	// against the baseline, DESIGN 12.9); only the text form is written
	_ = sb
	writeIfChanged("decisions.txt", txt.String())
}

func parseFile(fset *token.FileSet, path string) (*ast.File, error) {
	src, err := os.ReadFile(path)
	if err != nil {
		return nil, err
	}
	return goparser.ParseFile(fset, path, src, 0)
}
