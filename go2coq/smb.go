package main

import (
	"bytes"
	"encoding/json"
	"fmt"
	"go/ast"
	"go/printer"
	"go/token"
	"sort"
	"strings"
)

// SMB command layouts (properties C03 C04 C05 C07): every commands/<Cmd>.go is re-read on every run.
// Marshal and Unmarshal are interpreted symbolically over a small statement language (DESIGN
// Appendix A): the result is, per structure, the declared fields, the list of values appended to
// the parameter and data streams, and the list of guarded reads performed on them. Statements that
// fall outside the language are emitted as Opaque (with their source text) and the structure is
// then only covered by the Go-side oracles.
func init() { register("smb", genSmb) }

const smbCmdDir = "network/smb/smb_v10/message/commands"

type smbField struct {
	Name string
	Type string // as written: types.USHORT, []types.UCHAR, [4]types.USHORT ...
}

type mop struct {
	Stream string // "P" or "D"
	Kind   string // int u8 bytes nested const opaque loop
	Field  string
	Width  int
	Endian string
	Format string // buffer format constant name for nested strings
	Type   string
	Text   string
	Cond   string // coq term of type mcond when the operation stands inside a recognised `if`
}

type uop struct {
	Stream string
	Kind   string // guard int u8 bytes rest nested adv advread reset opaque
	Field  string
	Width  int
	Endian string
	Len    string // length expression (coq term of type lenexp)
	Type   string
	Text   string
	Cond   string // coq term of type ucond when the operation stands inside `if c.GetParameters().WordCount == K`
}

type smbCmd struct {
	Name      string
	File      string
	Code      string
	CodeVal   string
	IsAndX    bool
	IsRequest bool
	Fields    []smbField
	M         []mop
	U         []uop
	EmptyRule string // "params", "both", "none"
	Opaque    []string
	PrmFirst  bool // parameter block appended before data block
}

func src(fset *token.FileSet, n ast.Node) string {
	var b bytes.Buffer
	printer.Fprint(&b, fset, n)
	return strings.Join(strings.Fields(b.String()), " ")
}

type smbCtx struct {
	lp   *loadedPkg
	cmd  *smbCmd
	recv string
	// marshal state
	vars    map[string][]mop // symbolic byte-stream variables
	formats map[string]string
	// unmarshal state
	cur string
	// readStale: the last nested Unmarshal discarded its byte count (`_, err = ...` or a bare call), so the Go
	// variable bytesRead still holds an older value than the interpreter's; any use of it before the next
	// assignment would make the description unfaithful
	readStale bool
}

func (x *smbCtx) opaqueM(stream string, n ast.Node) {
	t := src(x.lp.fset, n)
	x.cmd.M = append(x.cmd.M, mop{Stream: stream, Kind: "opaque", Text: t})
	x.cmd.Opaque = append(x.cmd.Opaque, "Marshal: "+t)
}

func (x *smbCtx) opaqueU(n ast.Node) {
	t := src(x.lp.fset, n)
	x.cmd.U = append(x.cmd.U, uop{Stream: x.cur, Kind: "opaque", Text: t})
	x.cmd.Opaque = append(x.cmd.Opaque, "Unmarshal: "+t)
}

// fieldOf recognises c.F (possibly wrapped in conversions) and returns F.
func (x *smbCtx) fieldOf(e ast.Expr) (string, bool) {
	e = unparen(e)
	for {
		ce, ok := e.(*ast.CallExpr)
		if !ok || len(ce.Args) != 1 {
			break
		}
		// conversion: ident or selector as Fun
		switch ce.Fun.(type) {
		case *ast.Ident, *ast.SelectorExpr:
			e = unparen(ce.Args[0])
			continue
		}
		break
	}
	se, ok := e.(*ast.SelectorExpr)
	if !ok {
		return "", false
	}
	if se.Sel.Name == "QuadPart" {
		if inner, ok := se.X.(*ast.SelectorExpr); ok {
			se = inner
		}
	}
	id, ok := se.X.(*ast.Ident)
	if !ok || id.Name != x.recv {
		return "", false
	}
	return se.Sel.Name, true
}

func isCall(e ast.Expr, name string) (*ast.CallExpr, bool) {
	ce, ok := unparen(e).(*ast.CallExpr)
	if !ok {
		return nil, false
	}
	if identName(ce.Fun) == name {
		return ce, true
	}
	return nil, false
}

func streamOfVar(v string) string {
	switch v {
	case "rawParametersContent":
		return "P"
	case "rawDataContent":
		return "D"
	}
	return ""
}

// ---------------------------------------------------------------- Marshal

func (x *smbCtx) marshalBody(body *ast.BlockStmt) {
	x.vars = map[string][]mop{}
	x.formats = map[string]string{}
	blocks := []string{}
	x.marshalStmts(body.List, &blocks, false)
	x.cmd.PrmFirst = len(blocks) == 2 && blocks[0] == "P" && blocks[1] == "D"
	if !x.cmd.PrmFirst {
		x.cmd.Opaque = append(x.cmd.Opaque, fmt.Sprintf("Marshal: output is not parameter block then data block (%v)", blocks))
	}
}

// wordCountEq recognises  c.GetParameters().WordCount == K
func (x *smbCtx) wordCountEq(e ast.Expr) (string, bool) {
	be, ok := unparen(e).(*ast.BinaryExpr)
	if !ok || be.Op != token.EQL || src(x.lp.fset, be.X) != x.recv+".GetParameters().WordCount" {
		return "", false
	}
	if v, ok := x.lp.evalConst(be.Y); ok {
		if sv, ok := intString(v); ok {
			return sv, true
		}
	}
	return "", false
}

// marshalCond recognises the conditions under which optional trailing fields are emitted
func (x *smbCtx) marshalCond(e ast.Expr) (string, bool) {
	if k, ok := x.wordCountEq(e); ok {
		return "(MCWcEq " + k + ")", true
	}
	be, ok := unparen(e).(*ast.BinaryExpr)
	if !ok || be.Op != token.NEQ {
		return "", false
	}
	f, ok := x.fieldOf(be.X)
	if !ok || src(x.lp.fset, be.X) != x.recv+"."+f {
		return "", false
	}
	if v, ok := x.lp.evalConst(be.Y); ok {
		if sv, ok := intString(v); ok && sv == "0" {
			return "(MCNonZero " + coqStr(f) + ")", true
		}
	}
	if cl, ok := be.Y.(*ast.CompositeLit); ok {
		if _, isArr := cl.Type.(*ast.ArrayType); isArr {
			for _, el := range cl.Elts {
				v, ok := x.lp.evalConst(el)
				if !ok {
					return "", false
				}
				if sv, ok := intString(v); !ok || sv != "0" {
					return "", false
				}
			}
			return "(MCArrNonZero " + coqStr(f) + ")", true
		}
	}
	return "", false
}

func (x *smbCtx) marshalStmts(stmts []ast.Stmt, blocksp *[]string, nested bool) {
	blocks := *blocksp
	defer func() { *blocksp = blocks }()
	for i := 0; i < len(stmts); i++ {
		st := stmts[i]
		t := src(x.lp.fset, st)
		switch s := st.(type) {
		case *ast.AssignStmt:
			if len(s.Lhs) >= 1 && len(s.Rhs) == 1 {
				lhs := identName(s.Lhs[0])
				// X := []byte{}
				if cl, ok := s.Rhs[0].(*ast.CompositeLit); ok && len(cl.Elts) == 0 {
					x.vars[lhs] = nil
					continue
				}
				// bufN := make([]byte, N)
				if ce, ok := isCall(s.Rhs[0], "make"); ok && len(ce.Args) == 2 {
					x.vars[lhs] = nil
					continue
				}
				// X = append(X, ...)
				if ce, ok := isCall(s.Rhs[0], "append"); ok && len(ce.Args) == 2 && identName(ce.Args[0]) == lhs {
					if lhs == "marshalledCommand" {
						switch identName(ce.Args[1]) {
						case "marshalledParameters":
							blocks = append(blocks, "P")
							continue
						case "marshalledData":
							blocks = append(blocks, "D")
							continue
						}
						x.opaqueM("C", st)
						continue
					}
					stream := streamOfVar(lhs)
					if stream == "" {
						// accumulate into a temporary stream variable
						stream = "T:" + lhs
					}
					vals, ok := x.appendArg(ce, stream)
					if !ok {
						x.opaqueM(stream, st)
						continue
					}
					if strings.HasPrefix(stream, "T:") {
						x.vars[lhs] = append(x.vars[lhs], vals...)
					} else {
						for _, v := range vals {
							v.Stream = stream
							x.cmd.M = append(x.cmd.M, v)
						}
					}
					continue
				}
				// X = binary.E.AppendUintN(X, uintN(c.F))  (the one-call form of make + PutUintN + append)
				if ce, ok := unparen(s.Rhs[0]).(*ast.CallExpr); ok && len(ce.Args) == 2 && identName(ce.Args[0]) == lhs {
					fn := identName(ce.Fun)
					if strings.HasPrefix(fn, "binary.") && strings.Contains(fn, ".AppendUint") {
						endian := "BE"
						if strings.Contains(fn, "LittleEndian") {
							endian = "LE"
						}
						w := 0
						fmt.Sscanf(fn[strings.Index(fn, "AppendUint")+10:], "%d", &w)
						stream := streamOfVar(lhs)
						var m mop
						okm := false
						if f, ok := x.fieldOf(ce.Args[1]); ok {
							m, okm = mop{Kind: "int", Field: f, Width: w / 8, Endian: endian}, true
						} else if v, ok := x.lp.evalConst(ce.Args[1]); ok {
							if sv, ok := intString(v); ok {
								m, okm = mop{Kind: "constint", Width: w / 8, Endian: endian, Text: sv}, true
							}
						} else if g, ok := x.lenOfField(ce.Args[1]); ok {
							m, okm = mop{Kind: "lenint", Field: g, Width: w / 8, Endian: endian}, true
						}
						if okm && w > 0 {
							if stream == "" {
								x.vars[lhs] = append(x.vars[lhs], m)
							} else {
								m.Stream = stream
								x.cmd.M = append(x.cmd.M, m)
							}
							continue
						}
					}
				}
				// bytesStream, err := c.F.Marshal()
				if ce, ok := unparen(s.Rhs[0]).(*ast.CallExpr); ok {
					if se, ok := ce.Fun.(*ast.SelectorExpr); ok && se.Sel.Name == "Marshal" {
						if f, ok := x.fieldOf(se.X); ok {
							x.vars[lhs] = []mop{{Kind: "nested", Field: f, Format: x.formats[f], Type: x.fieldType(f)}}
							continue
						}
						recvT := src(x.lp.fset, se.X)
						if recvT == x.recv+".GetParameters()" || recvT == x.recv+".GetData()" {
							continue
						}
					}
				}
				// c.L = types.X(len(c.F))  — derived field
				if f, ok := x.fieldOf(s.Lhs[0]); ok && len(s.Lhs) == 1 {
					if g, ok := x.lenOfField(s.Rhs[0]); ok {
						x.cmd.M = append(x.cmd.M, mop{Stream: "-", Kind: "derive", Field: f, Text: g})
						continue
					}
				}
			}
			x.opaqueM("?", st)
		case *ast.ExprStmt:
			// binary.X.PutUintN(bufN, uintN(c.F))
			if ce, ok := s.X.(*ast.CallExpr); ok {
				fn := identName(ce.Fun)
				if strings.HasPrefix(fn, "binary.") && strings.Contains(fn, ".PutUint") && len(ce.Args) == 2 {
					endian := "BE"
					if strings.Contains(fn, "LittleEndian") {
						endian = "LE"
					}
					w := 0
					fmt.Sscanf(fn[strings.Index(fn, "PutUint")+7:], "%d", &w)
					buf := identName(ce.Args[0])
					if f, ok := x.fieldOf(ce.Args[1]); ok {
						x.vars[buf] = []mop{{Kind: "int", Field: f, Width: w / 8, Endian: endian}}
						continue
					}
					if v, ok := x.lp.evalConst(ce.Args[1]); ok {
						if sv, ok := intString(v); ok {
							x.vars[buf] = []mop{{Kind: "constint", Width: w / 8, Endian: endian, Text: sv}}
							continue
						}
					}
					if g, ok := x.lenOfField(ce.Args[1]); ok {
						x.vars[buf] = []mop{{Kind: "lenint", Field: g, Width: w / 8, Endian: endian}}
						continue
					}
				}
				// c.F.SetBufferFormat(types.K)
				if se, ok := ce.Fun.(*ast.SelectorExpr); ok && se.Sel.Name == "SetBufferFormat" && len(ce.Args) == 1 {
					if f, ok := x.fieldOf(se.X); ok {
						x.formats[f] = identName(ce.Args[0])
						continue
					}
				}
				if strings.HasPrefix(t, x.recv+".GetParameters().AddWordsFromBytesStream(rawParametersContent)") ||
					strings.HasPrefix(t, x.recv+".GetData().Add(rawDataContent)") {
					continue
				}
			}
			x.opaqueM("?", st)
		case *ast.IfStmt:
			// template prelude and error plumbing
			if strings.HasPrefix(t, "if "+x.recv+".GetParameters() == nil") || strings.HasPrefix(t, "if "+x.recv+".GetData() == nil") ||
				strings.HasPrefix(t, "if err != nil { return nil, err }") {
				continue
			}
			if strings.HasPrefix(t, "if "+x.recv+".IsAndX() {") {
				continue
			}
			// if <cond> { emit optional trailing fields }
			if cond, ok := x.marshalCond(s.Cond); ok && !nested && s.Else == nil && s.Init == nil {
				start := len(x.cmd.M)
				*blocksp = blocks
				x.marshalStmts(s.Body.List, blocksp, true)
				blocks = *blocksp
				for j := start; j < len(x.cmd.M); j++ {
					x.cmd.M[j].Cond = cond
				}
				continue
			}
			x.opaqueM("?", st)
		case *ast.ReturnStmt:
			if t == "return marshalledCommand, nil" {
				continue
			}
			x.opaqueM("?", st)
		case *ast.RangeStmt:
			// for _, e := range c.F { buf := ...; PutUintN(buf, uintN(e)); X = append(X, buf...) }  or  X = append(X, byte(e))
			if m, ok := x.rangeLoop(s); ok {
				x.cmd.M = append(x.cmd.M, m)
				continue
			}
			x.opaqueM("?", st)
		case *ast.DeclStmt:
			continue
		default:
			x.opaqueM("?", st)
		}
	}
}

func (x *smbCtx) fieldType(f string) string {
	for _, fl := range x.cmd.Fields {
		if fl.Name == f {
			return fl.Type
		}
	}
	return "?"
}

// len(c.F) possibly wrapped in conversions
func (x *smbCtx) lenOfField(e ast.Expr) (string, bool) {
	e = unparen(e)
	for {
		ce, ok := e.(*ast.CallExpr)
		if !ok || len(ce.Args) != 1 {
			return "", false
		}
		if identName(ce.Fun) == "len" {
			return x.fieldOf(ce.Args[0])
		}
		e = unparen(ce.Args[0])
	}
}

func (x *smbCtx) appendArg(ce *ast.CallExpr, stream string) ([]mop, bool) {
	arg := ce.Args[1]
	if ce.Ellipsis != token.NoPos {
		// append(X, v...)  where v is a stream variable or c.F
		if id, ok := unparen(arg).(*ast.Ident); ok {
			if vals, ok := x.vars[id.Name]; ok && vals != nil {
				out := append([]mop{}, vals...)
				return out, true
			}
			return nil, false
		}
		if f, ok := x.fieldOf(arg); ok {
			// c.F...   ([]UCHAR or array slice)
			return []mop{{Kind: "bytes", Field: f, Type: x.fieldType(f)}}, true
		}
		// c.F[:]...
		if sl, ok := unparen(arg).(*ast.SliceExpr); ok && sl.Low == nil && sl.High == nil {
			if f, ok := x.fieldOf(sl.X); ok {
				return []mop{{Kind: "bytes", Field: f, Type: x.fieldType(f)}}, true
			}
		}
		return nil, false
	}
	// append(X, byte(c.F))
	if f, ok := x.fieldOf(arg); ok {
		return []mop{{Kind: "u8", Field: f}}, true
	}
	if v, ok := x.lp.evalConst(arg); ok {
		if sv, ok := intString(v); ok {
			return []mop{{Kind: "constint", Width: 1, Endian: "LE", Text: sv}}, true
		}
	}
	return nil, false
}

func (x *smbCtx) rangeLoop(s *ast.RangeStmt) (mop, bool) {
	f, ok := x.fieldOf(s.X)
	if !ok {
		return mop{}, false
	}
	elem := "?"
	if s.Value != nil {
		elem = identName(s.Value)
	}
	body := s.Body.List
	// shape A: 3 statements  buf := make; PutUintN(buf, uintN(elem)); X = append(X, buf...)
	if len(body) == 3 {
		es, ok1 := body[1].(*ast.ExprStmt)
		as, ok2 := body[2].(*ast.AssignStmt)
		if ok1 && ok2 {
			if ce, ok := es.X.(*ast.CallExpr); ok {
				fn := identName(ce.Fun)
				if strings.Contains(fn, ".PutUint") && len(ce.Args) == 2 && strings.HasSuffix(src(x.lp.fset, ce.Args[1]), "("+elem+")") {
					endian := "BE"
					if strings.Contains(fn, "LittleEndian") {
						endian = "LE"
					}
					w := 0
					fmt.Sscanf(fn[strings.Index(fn, "PutUint")+7:], "%d", &w)
					stream := streamOfVar(identName(as.Lhs[0]))
					if stream != "" {
						return mop{Stream: stream, Kind: "intarray", Field: f, Width: w / 8, Endian: endian, Type: x.fieldType(f)}, true
					}
				}
			}
		}
	}
	// shape A': for i := range c.F { PutUintN(buf, uintN(c.F[i])); X = append(X, buf...) }  (index form, buffer made outside)
	if len(body) == 2 && s.Value == nil && s.Key != nil {
		iv := identName(s.Key)
		es, ok1 := body[0].(*ast.ExprStmt)
		as, ok2 := body[1].(*ast.AssignStmt)
		if ok1 && ok2 && iv != "" {
			if ce, ok := es.X.(*ast.CallExpr); ok {
				fn := identName(ce.Fun)
				want := "(" + x.recv + "." + f + "[" + iv + "])"
				if strings.Contains(fn, ".PutUint") && len(ce.Args) == 2 && strings.HasSuffix(src(x.lp.fset, ce.Args[1]), want) {
					endian := "BE"
					if strings.Contains(fn, "LittleEndian") {
						endian = "LE"
					}
					w := 0
					fmt.Sscanf(fn[strings.Index(fn, "PutUint")+7:], "%d", &w)
					stream := streamOfVar(identName(as.Lhs[0]))
					if ap, ok := isCall(as.Rhs[0], "append"); ok && stream != "" && len(ap.Args) == 2 && identName(ap.Args[1]) == identName(ce.Args[0]) {
						return mop{Stream: stream, Kind: "intarray", Field: f, Width: w / 8, Endian: endian, Type: x.fieldType(f)}, true
					}
				}
			}
		}
	}
	// shape B: bytesStream, err := elem.Marshal(); if err..; X = append(X, bytesStream...)
	if len(body) == 3 {
		as0, ok0 := body[0].(*ast.AssignStmt)
		as2, ok2 := body[2].(*ast.AssignStmt)
		if ok0 && ok2 && len(as0.Rhs) == 1 {
			if ce, ok := as0.Rhs[0].(*ast.CallExpr); ok {
				if se, ok := ce.Fun.(*ast.SelectorExpr); ok && se.Sel.Name == "Marshal" && identName(se.X) == elem {
					stream := streamOfVar(identName(as2.Lhs[0]))
					if stream != "" {
						return mop{Stream: stream, Kind: "nestedarray", Field: f, Type: x.fieldType(f)}, true
					}
				}
			}
		}
	}
	return mop{}, false
}

// ---------------------------------------------------------------- Unmarshal

// lenExp translates an int expression over offset-free terms into the Coq lenexp language.
func (x *smbCtx) lenExp(e ast.Expr) (string, bool) {
	e = unparen(e)
	if v, ok := x.lp.evalConst(e); ok {
		if sv, ok := intString(v); ok {
			return "(EConst " + sv + ")", true
		}
	}
	if f, ok := x.fieldOf(e); ok {
		return "(EField " + coqStr(f) + ")", true
	}
	if g, ok := x.lenOfField(e); ok {
		return "(ELenOf " + coqStr(g) + ")", true
	}
	if id, ok := e.(*ast.Ident); ok {
		if id.Name == "bytesRead" {
			return "ERead", true
		}
		return "(EVar " + coqStr(id.Name) + ")", true
	}
	if ce, ok := e.(*ast.CallExpr); ok && len(ce.Args) == 1 {
		switch ce.Fun.(type) {
		case *ast.Ident, *ast.SelectorExpr:
			if identName(ce.Fun) != "len" {
				return x.lenExp(ce.Args[0])
			}
		}
	}
	if be, ok := e.(*ast.BinaryExpr); ok {
		a, ok1 := x.lenExp(be.X)
		b, ok2 := x.lenExp(be.Y)
		if ok1 && ok2 {
			switch be.Op {
			case token.ADD:
				return "(EAdd " + a + " " + b + ")", true
			case token.MUL:
				return "(EMul " + a + " " + b + ")", true
			case token.SUB:
				return "(ESub " + a + " " + b + ")", true
			}
		}
	}
	return "", false
}

// offsetPlus recognises  offset  or  offset+E  and returns E (EConst 0 for bare offset).
func (x *smbCtx) offsetPlus(e ast.Expr) (string, bool) {
	e = unparen(e)
	if id, ok := e.(*ast.Ident); ok && id.Name == "offset" {
		return "(EConst 0)", true
	}
	if be, ok := e.(*ast.BinaryExpr); ok && be.Op == token.ADD {
		if id, ok := unparen(be.X).(*ast.Ident); ok && id.Name == "offset" {
			return x.lenExp(be.Y)
		}
	}
	return "", false
}

func (x *smbCtx) unmarshalBody(body *ast.BlockStmt) {
	x.cur = "P"
	x.cmd.EmptyRule = "none"
	seenReset := 0
	x.unmarshalStmts(body.List, &seenReset, false)
}

func (x *smbCtx) unmarshalStmts(stmts []ast.Stmt, seenResetp *int, nested bool) {
	seenReset := *seenResetp
	defer func() { *seenResetp = seenReset }()
	for i := 0; i < len(stmts); i++ {
		st := stmts[i]
		t := src(x.lp.fset, st)
		// ---- template prelude
		if t == "offset := 0" || t == "_ = "+x.recv+".GetData().GetBytes()" || t == "_ = "+x.recv+".GetParameters().GetBytes()" ||
			strings.HasPrefix(t, "bytesRead, err := "+x.recv+".GetParameters().Unmarshal(data)") ||
			strings.HasPrefix(t, "if err != nil { return 0, err }") ||
			strings.HasPrefix(t, "rawParametersContent := "+x.recv+".GetParameters().GetBytes()") ||
			strings.HasPrefix(t, "_, err = "+x.recv+".GetData().Unmarshal(data[bytesRead:])") ||
			strings.HasPrefix(t, "rawDataContent := "+x.recv+".GetData().GetBytes()") {
			continue
		}
		if strings.HasPrefix(t, "if len(rawParametersContent) == 0 && len(rawDataContent) == 0 { return 0, nil }") {
			x.cmd.EmptyRule = "both"
			continue
		}
		if strings.HasPrefix(t, "if len(rawParametersContent) == 0 { return 0, nil }") {
			x.cmd.EmptyRule = "params"
			continue
		}
		if t == "offset = 0" {
			seenReset++
			if seenReset == 1 {
				x.cur = "P"
			} else {
				x.cur = "D"
			}
			x.cmd.U = append(x.cmd.U, uop{Stream: x.cur, Kind: "reset"})
			continue
		}
		if t == "return offset, nil" {
			continue
		}
		if strings.HasPrefix(t, "if err != nil { return offset, err }") || strings.HasPrefix(t, "if err != nil { return 0, err }") {
			continue
		}
		if t == "offset++" {
			x.cmd.U = append(x.cmd.U, uop{Stream: x.cur, Kind: "adv", Len: "(EConst 1)"})
			continue
		}
		if strings.HasPrefix(t, "if len(rawDataContent) == 0 { return 0, nil }") {
			x.cmd.U = append(x.cmd.U, uop{Stream: "D", Kind: "emptyret"})
			continue
		}
		switch s := st.(type) {
		case *ast.IfStmt:
			// if c.GetParameters().WordCount == K { guard; reads; advance }
			if k, ok := x.wordCountEq(s.Cond); ok && !nested && s.Else == nil && s.Init == nil {
				start := len(x.cmd.U)
				x.unmarshalStmts(s.Body.List, &seenReset, true)
				good := true
				for j := start; j < len(x.cmd.U); j++ {
					switch x.cmd.U[j].Kind {
					case "guard", "int", "u8", "bytes", "rest", "adv", "intarr":
						x.cmd.U[j].Cond = "(UCWcEq " + k + ")"
					case "opaque":
					default:
						good = false
					}
				}
				if !good {
					x.cmd.U = x.cmd.U[:start]
					x.opaqueU(st)
				}
				continue
			}
			// if len(S) < offset+E { return offset, fmt.Errorf(...) }
			if be, ok := unparen(s.Cond).(*ast.BinaryExpr); ok && be.Op == token.LSS && s.Else == nil && s.Init == nil {
				if ce, ok := isCall(be.X, "len"); ok {
					stream := streamOfVar(identName(ce.Args[0]))
					if e, ok := x.offsetPlus(be.Y); ok && stream != "" && len(s.Body.List) == 1 {
						if _, isRet := s.Body.List[0].(*ast.ReturnStmt); isRet {
							x.cmd.U = append(x.cmd.U, uop{Stream: stream, Kind: "guard", Len: e})
							continue
						}
					}
				}
			}
			x.opaqueU(st)
		case *ast.AssignStmt:
			if len(s.Lhs) == 1 && len(s.Rhs) == 1 {
				// offset += E
				if identName(s.Lhs[0]) == "offset" && s.Tok == token.ADD_ASSIGN {
					if e, ok := x.lenExp(s.Rhs[0]); ok && !(x.readStale && strings.Contains(e, "ERead")) {
						x.cmd.U = append(x.cmd.U, uop{Stream: x.cur, Kind: "adv", Len: e})
						continue
					}
				}
				if f, ok := x.fieldOf(s.Lhs[0]); ok {
					if u, ok := x.readExpr(f, s.Rhs[0]); ok {
						x.cmd.U = append(x.cmd.U, u)
						continue
					}
					if u, ok := x.arrayLiteralRead(f, s.Rhs[0]); ok {
						x.cmd.U = append(x.cmd.U, u)
						continue
					}
					// c.F = make([]T, c.N)  directly in front of the counted loop that fills it
					if ce, ok := isCall(s.Rhs[0], "make"); ok && len(ce.Args) == 2 && i+1 < len(stmts) {
						if fs, ok := stmts[i+1].(*ast.ForStmt); ok {
							if us, ok := x.countedLoop(fs); ok && us[0].Field == f {
								if n, ok := x.lenExp(ce.Args[1]); ok && strings.HasSuffix(us[0].Len, " "+n+")") {
									x.cmd.U = append(x.cmd.U, us...)
									i++
									continue
								}
							}
						}
					}
				}
				// local := expr  (padLen := int(c.X) ...)
				if id, ok := s.Lhs[0].(*ast.Ident); ok && s.Tok == token.DEFINE {
					if e, ok := x.lenExp(s.Rhs[0]); ok {
						x.cmd.U = append(x.cmd.U, uop{Stream: x.cur, Kind: "let", Field: id.Name, Len: e})
						continue
					}
				}
			}
			// bytesRead, err = c.F.Unmarshal(S[offset:])
			if len(s.Lhs) == 2 && len(s.Rhs) == 1 && (identName(s.Lhs[0]) == "bytesRead" || identName(s.Lhs[0]) == "_") {
				x.readStale = identName(s.Lhs[0]) == "_"
				if ce, ok := unparen(s.Rhs[0]).(*ast.CallExpr); ok && len(ce.Args) == 1 {
					if se, ok := ce.Fun.(*ast.SelectorExpr); ok && se.Sel.Name == "Unmarshal" {
						if f, ok := x.fieldOf(se.X); ok {
							if stream := streamOfVar(identName(ce.Args[0])); stream != "" {
								x.cmd.U = append(x.cmd.U, uop{Stream: stream, Kind: "nested0", Field: f, Type: x.fieldType(f)})
								continue
							}
							if sl, ok := unparen(ce.Args[0]).(*ast.SliceExpr); ok {
								stream := streamOfVar(identName(sl.X))
								lo, okl := x.offsetPlus(sl.Low)
								if stream != "" && okl && lo == "(EConst 0)" {
									u := uop{Stream: stream, Kind: "nested", Field: f, Type: x.fieldType(f), Len: "ERest"}
									if sl.High != nil {
										if hi, ok := x.offsetPlus(sl.High); ok {
											u.Len = hi
										} else {
											x.opaqueU(st)
											continue
										}
									}
									x.cmd.U = append(x.cmd.U, u)
									continue
								}
							}
						}
					}
				}
			}
			x.opaqueU(st)
		case *ast.ExprStmt:
			// copy(c.F[:], S[offset:offset+K])  with F a [K]byte array: K one-byte elements
			if ce, ok := isCall(s.X, "copy"); ok && len(ce.Args) == 2 {
				if dst, ok := unparen(ce.Args[0]).(*ast.SliceExpr); ok && dst.Low == nil && dst.High == nil {
					if f, ok := x.fieldOf(dst.X); ok {
						if sl, ok := unparen(ce.Args[1]).(*ast.SliceExpr); ok && sl.High != nil {
							stream := streamOfVar(identName(sl.X))
							lo, ok1 := x.offsetPlus(sl.Low)
							hi, ok2 := x.offsetPlus(sl.High)
							ft := x.fieldType(f)
							if stream != "" && ok1 && ok2 && lo == "(EConst 0)" && strings.HasPrefix(ft, "[") &&
								hi == "(EConst "+ft[1:strings.Index(ft, "]")]+")" && (strings.HasSuffix(ft, "UCHAR") || strings.HasSuffix(ft, "byte")) {
								x.cmd.U = append(x.cmd.U, uop{Stream: stream, Kind: "intarr", Field: f, Width: 1, Endian: "LE", Len: hi})
								continue
							}
						}
					}
				}
			}
			// c.F.Unmarshal(S[offset : offset+n]) with the result ignored: faithful to a nested read only when the
			// nested type has a fixed size and the window is exactly that size (the call cannot fail then)
			if ce, ok := unparen(s.X).(*ast.CallExpr); ok && len(ce.Args) == 1 {
				if se, ok := ce.Fun.(*ast.SelectorExpr); ok && se.Sel.Name == "Unmarshal" {
					if f, ok := x.fieldOf(se.X); ok {
						if sl, ok := unparen(ce.Args[0]).(*ast.SliceExpr); ok && sl.High != nil {
							stream := streamOfVar(identName(sl.X))
							lo, okl := x.offsetPlus(sl.Low)
							hi, okh := x.offsetPlus(sl.High)
							size := map[string]string{"types.SMB_FILE_ATTRIBUTES": "(EConst 2)", "types.SMB_DATE": "(EConst 2)",
								"types.FILETIME": "(EConst 8)", "types.SMB_TIME": "(EConst 8)"}[x.fieldType(f)]
							if stream != "" && okl && okh && lo == "(EConst 0)" && size != "" && hi == size {
								x.cmd.U = append(x.cmd.U, uop{Stream: stream, Kind: "nested", Field: f, Type: x.fieldType(f), Len: hi})
								x.readStale = true
								continue
							}
						}
					}
				}
			}
			x.opaqueU(st)
		case *ast.RangeStmt:
			if us, ok := x.arrayRangeLoop(s); ok {
				x.cmd.U = append(x.cmd.U, us...)
				continue
			}
			x.opaqueU(st)
		default:
			x.opaqueU(st)
		}
	}
}

// uintAt recognises  T(binary.E.UintW(S[offset+A : offset+B]))  and returns stream, endian, width in bytes, A, B
func (x *smbCtx) uintAt(e ast.Expr) (stream, endian string, w int, lo, hi string, ok bool) {
	e = unparen(e)
	for {
		ce, isCall := e.(*ast.CallExpr)
		if !isCall || len(ce.Args) != 1 {
			return
		}
		fn := identName(ce.Fun)
		if strings.HasPrefix(fn, "binary.") && strings.Contains(fn, ".Uint") {
			endian = "BE"
			if strings.Contains(fn, "LittleEndian") {
				endian = "LE"
			}
			fmt.Sscanf(fn[strings.Index(fn, ".Uint")+5:], "%d", &w)
			w /= 8
			sl, isSl := unparen(ce.Args[0]).(*ast.SliceExpr)
			if !isSl || sl.High == nil {
				return
			}
			stream = streamOfVar(identName(sl.X))
			var ok1, ok2 bool
			lo, ok1 = x.offsetPlus(sl.Low)
			hi, ok2 = x.offsetPlus(sl.High)
			ok = stream != "" && ok1 && ok2
			return
		}
		e = unparen(ce.Args[0])
	}
}

// arrayLiteralRead recognises  c.F = [n]T{ T(Uint(S[offset:offset+w])), T(Uint(S[offset+w:offset+2w])), ... }
func (x *smbCtx) arrayLiteralRead(f string, e ast.Expr) (uop, bool) {
	cl, ok := unparen(e).(*ast.CompositeLit)
	if !ok || len(cl.Elts) == 0 {
		return uop{}, false
	}
	if _, isArr := cl.Type.(*ast.ArrayType); !isArr {
		return uop{}, false
	}
	var u uop
	for i, el := range cl.Elts {
		stream, endian, w, lo, hi, ok := x.uintAt(el)
		if !ok || lo != fmt.Sprintf("(EConst %d)", i*w) || hi != fmt.Sprintf("(EConst %d)", (i+1)*w) {
			return uop{}, false
		}
		if i == 0 {
			u = uop{Stream: stream, Kind: "intarr", Field: f, Width: w, Endian: endian}
		} else if u.Stream != stream || u.Width != w || u.Endian != endian {
			return uop{}, false
		}
	}
	u.Len = fmt.Sprintf("(EConst %d)", len(cl.Elts)*u.Width)
	return u, true
}

// countedLoop recognises
//   for i := 0; i < int(c.N); i++ { c.F[i] = T(binary.E.UintW(S[offset : offset+w])); offset += w }
// (preceded by  c.F = make([]T, c.N), which the caller has skipped): w*N bytes are read as N integers and passed
func (x *smbCtx) countedLoop(s *ast.ForStmt) ([]uop, bool) {
	init, ok1 := s.Init.(*ast.AssignStmt)
	cond, ok2 := s.Cond.(*ast.BinaryExpr)
	post, ok3 := s.Post.(*ast.IncDecStmt)
	if !ok1 || !ok2 || !ok3 || len(init.Lhs) != 1 || len(s.Body.List) != 2 || cond.Op != token.LSS || post.Tok != token.INC {
		return nil, false
	}
	iv := identName(init.Lhs[0])
	if iv == "" || src(x.lp.fset, init.Rhs[0]) != "0" || identName(cond.X) != iv || identName(post.X) != iv {
		return nil, false
	}
	cnt, ok := x.lenExp(cond.Y)
	if !ok {
		return nil, false
	}
	as, ok := s.Body.List[0].(*ast.AssignStmt)
	if !ok || len(as.Lhs) != 1 || len(as.Rhs) != 1 || as.Tok != token.ASSIGN {
		return nil, false
	}
	ix, ok := as.Lhs[0].(*ast.IndexExpr)
	if !ok || identName(ix.Index) != iv {
		return nil, false
	}
	f, ok := x.fieldOf(ix.X)
	if !ok {
		return nil, false
	}
	stream, endian, w, lo, hi, ok := x.uintAt(as.Rhs[0])
	if !ok || lo != "(EConst 0)" || hi != fmt.Sprintf("(EConst %d)", w) {
		return nil, false
	}
	adv, ok := s.Body.List[1].(*ast.AssignStmt)
	if !ok || identName(adv.Lhs[0]) != "offset" || adv.Tok != token.ADD_ASSIGN || src(x.lp.fset, adv.Rhs[0]) != fmt.Sprint(w) {
		return nil, false
	}
	total := fmt.Sprintf("(EMul (EConst %d) %s)", w, cnt)
	return []uop{{Stream: stream, Kind: "intarr", Field: f, Width: w, Endian: endian, Len: total},
		{Stream: stream, Kind: "adv", Len: total}}, true
}

// arrayRangeLoop recognises  for i := range c.F { c.F[i] = T(binary.E.UintW(S[offset : offset+w])); offset += w }
// where F is declared [n]T: n*w bytes are read as n integers and passed
func (x *smbCtx) arrayRangeLoop(s *ast.RangeStmt) ([]uop, bool) {
	f, ok := x.fieldOf(s.X)
	if !ok || s.Value != nil || s.Key == nil || len(s.Body.List) != 2 {
		return nil, false
	}
	iv := identName(s.Key)
	ft := x.fieldType(f)
	if !strings.HasPrefix(ft, "[") || strings.HasPrefix(ft, "[]") {
		return nil, false
	}
	n := 0
	if _, err := fmt.Sscanf(ft[1:strings.Index(ft, "]")], "%d", &n); err != nil || n <= 0 {
		return nil, false
	}
	as, ok := s.Body.List[0].(*ast.AssignStmt)
	if !ok || len(as.Lhs) != 1 || len(as.Rhs) != 1 {
		return nil, false
	}
	ix, ok := as.Lhs[0].(*ast.IndexExpr)
	if !ok || identName(ix.Index) != iv {
		return nil, false
	}
	if g, ok := x.fieldOf(ix.X); !ok || g != f {
		return nil, false
	}
	stream, endian, w, lo, hi, ok := x.uintAt(as.Rhs[0])
	if !ok || lo != "(EConst 0)" || hi != fmt.Sprintf("(EConst %d)", w) {
		return nil, false
	}
	adv, ok := s.Body.List[1].(*ast.AssignStmt)
	if !ok || identName(adv.Lhs[0]) != "offset" || adv.Tok != token.ADD_ASSIGN || src(x.lp.fset, adv.Rhs[0]) != fmt.Sprint(w) {
		return nil, false
	}
	total := fmt.Sprintf("(EConst %d)", n*w)
	return []uop{{Stream: stream, Kind: "intarr", Field: f, Width: w, Endian: endian, Len: total},
		{Stream: stream, Kind: "adv", Len: total}}, true
}

// readExpr recognises the right-hand sides of field reads.
func (x *smbCtx) readExpr(f string, e ast.Expr) (uop, bool) {
	e = unparen(e)
	// strip conversions
	for {
		ce, ok := e.(*ast.CallExpr)
		if !ok || len(ce.Args) != 1 {
			break
		}
		fn := identName(ce.Fun)
		if strings.HasPrefix(fn, "binary.") && strings.Contains(fn, ".Uint") {
			endian := "BE"
			if strings.Contains(fn, "LittleEndian") {
				endian = "LE"
			}
			w := 0
			fmt.Sscanf(fn[strings.Index(fn, ".Uint")+5:], "%d", &w)
			sl, ok := unparen(ce.Args[0]).(*ast.SliceExpr)
			if !ok {
				return uop{}, false
			}
			stream := streamOfVar(identName(sl.X))
			lo, ok1 := x.offsetPlus(sl.Low)
			if stream == "" || !ok1 || lo != "(EConst 0)" {
				return uop{}, false
			}
			acc := "ERest"
			if sl.High != nil {
				hi, ok := x.offsetPlus(sl.High)
				if !ok {
					return uop{}, false
				}
				acc = hi
			}
			return uop{Stream: stream, Kind: "int", Field: f, Width: w / 8, Endian: endian, Len: acc}, true
		}
		switch ce.Fun.(type) {
		case *ast.Ident, *ast.SelectorExpr:
			e = unparen(ce.Args[0])
			continue
		}
		break
	}
	// S[offset]
	if ix, ok := e.(*ast.IndexExpr); ok {
		stream := streamOfVar(identName(ix.X))
		if o, ok := x.offsetPlus(ix.Index); ok && stream != "" && o == "(EConst 0)" {
			return uop{Stream: stream, Kind: "u8", Field: f}, true
		}
	}
	// S[offset : offset+E]  /  S[offset:]
	if sl, ok := e.(*ast.SliceExpr); ok {
		stream := streamOfVar(identName(sl.X))
		lo, ok1 := x.offsetPlus(sl.Low)
		if stream != "" && ok1 && lo == "(EConst 0)" {
			if sl.High == nil {
				return uop{Stream: stream, Kind: "rest", Field: f}, true
			}
			if hi, ok := x.offsetPlus(sl.High); ok {
				return uop{Stream: stream, Kind: "bytes", Field: f, Len: hi}, true
			}
		}
	}
	return uop{}, false
}

// ---------------------------------------------------------------- driver

func genSmb() {
	lp := loadDir(smbCmdDir)
	if lp == nil {
		return
	}
	codes := loadDir("network/smb/smb_v10/message/commands/codes")
	var cmds []*smbCmd
	byName := map[string]*smbCmd{}
	for fi, f := range lp.files {
		for _, d := range f.Decls {
			gd, ok := d.(*ast.GenDecl)
			if !ok || gd.Tok != token.TYPE {
				continue
			}
			for _, s := range gd.Specs {
				ts := s.(*ast.TypeSpec)
				st, ok := ts.Type.(*ast.StructType)
				if !ok {
					continue
				}
				c := &smbCmd{Name: ts.Name.Name, File: lp.names[fi], IsRequest: strings.HasSuffix(ts.Name.Name, "Request")}
				embedded := false
				for _, fl := range st.Fields.List {
					if len(fl.Names) == 0 {
						if src(lp.fset, fl.Type) == "command_interface.Command" {
							embedded = true
						}
						continue
					}
					for _, n := range fl.Names {
						c.Fields = append(c.Fields, smbField{n.Name, src(lp.fset, fl.Type)})
					}
				}
				if embedded {
					cmds = append(cmds, c)
					byName[c.Name] = c
				}
			}
		}
	}
	for _, f := range lp.files {
		for _, d := range f.Decls {
			fd, ok := d.(*ast.FuncDecl)
			if !ok || fd.Body == nil {
				continue
			}
			// NewX: SetCommandCode
			if fd.Recv == nil && strings.HasPrefix(fd.Name.Name, "New") {
				c := byName[strings.TrimPrefix(fd.Name.Name, "New")]
				if c == nil {
					continue
				}
				ast.Inspect(fd.Body, func(n ast.Node) bool {
					if ce, ok := n.(*ast.CallExpr); ok {
						if se, ok := ce.Fun.(*ast.SelectorExpr); ok && se.Sel.Name == "SetCommandCode" && len(ce.Args) == 1 {
							c.Code = strings.TrimPrefix(identName(ce.Args[0]), "codes.")
							if v, ok := codes.constOf(c.Code); ok {
								c.CodeVal, _ = intString(v)
							}
						}
					}
					return true
				})
				continue
			}
			c := byName[recvName(fd)]
			if c == nil {
				continue
			}
			recv := ""
			if len(fd.Recv.List[0].Names) > 0 {
				recv = fd.Recv.List[0].Names[0].Name
			}
			x := &smbCtx{lp: lp, cmd: c, recv: recv}
			switch fd.Name.Name {
			case "IsAndX":
				if len(fd.Body.List) == 1 {
					if rs, ok := fd.Body.List[0].(*ast.ReturnStmt); ok && src(lp.fset, rs.Results[0]) == "true" {
						c.IsAndX = true
					}
				}
			case "Marshal":
				x.marshalBody(fd.Body)
			case "Unmarshal":
				x.unmarshalBody(fd.Body)
			}
		}
	}
	// nested types the Coq interpreter has a model for (Model/SmbTypes.v); anything else is opaque
	supported := map[string]bool{"types.SMB_STRING": true, "types.OEM_STRING": true, "types.FILETIME": true, "types.SMB_TIME": true,
		"types.SMB_DATE": true, "types.SMB_FILE_ATTRIBUTES": true, "types.SMB_NMPIPE_STATUS": true,
		"types.SMB_RESUME_KEY": true, "dialects.Dialects": true}
	for _, c := range cmds {
		for _, f := range c.Fields {
			if strings.HasPrefix(coqType(f.Type), "TNamed") && !supported[f.Type] {
				c.Opaque = append(c.Opaque, "field "+f.Name+" has type "+f.Type+" which the interpreter does not model")
			}
		}
	}
	sort.Slice(cmds, func(i, j int) bool { return cmds[i].Name < cmds[j].Name })

	// dispatch tables
	reqTab, respTab := smbDispatch(lp, codes)

	var sb strings.Builder
	sb.WriteString("(* Generated by go2coq from /repo on every run: do not edit. *)\nFrom Coq Require Import List NArith String.\nFrom Mant Require Import Model.SmbTypes Model.SmbLayout.\nImport ListNotations.\nOpen Scope string_scope.\nOpen Scope N_scope.\n\n")
	nOpaque := 0
	for _, c := range cmds {
		fmt.Fprintf(&sb, "Definition cmd_%s : cmd_desc := {|\n  cd_name := %s;\n  cd_code := %s;\n  cd_andx := %s;\n  cd_request := %s;\n  cd_params_first := %s;\n  cd_empty := %s;\n",
			c.Name, coqStr(c.Name), orZero(c.CodeVal), coqBool(c.IsAndX), coqBool(c.IsRequest), coqBool(c.PrmFirst), map[string]string{"none": "EmptyNone", "params": "EmptyParams", "both": "EmptyBoth"}[c.EmptyRule])
		sb.WriteString("  cd_decl := [")
		for i, f := range c.Fields {
			if i > 0 {
				sb.WriteString("; ")
			}
			fmt.Fprintf(&sb, "(%s, %s)", coqStr(f.Name), coqType(f.Type))
		}
		sb.WriteString("];\n  cd_marshal := [\n")
		for i, m := range c.M {
			sep := ";"
			if i == len(c.M)-1 {
				sep = ""
			}
			fmt.Fprintf(&sb, "    %s%s\n", coqMop(m), sep)
		}
		sb.WriteString("  ];\n  cd_unmarshal := [\n")
		for i, u := range c.U {
			sep := ";"
			if i == len(c.U)-1 {
				sep = ""
			}
			fmt.Fprintf(&sb, "    %s%s\n", coqUop(u), sep)
		}
		sb.WriteString("  ];\n  cd_opaque := [")
		for i, o := range c.Opaque {
			if i > 0 {
				sb.WriteString("; ")
			}
			sb.WriteString(coqStr(o))
		}
		sb.WriteString("]\n|}.\n\n")
		if len(c.Opaque) > 0 {
			nOpaque++
		}
	}
	sb.WriteString("Definition all_cmds : list cmd_desc := [\n")
	for i, c := range cmds {
		sep := ";"
		if i == len(cmds)-1 {
			sep = ""
		}
		fmt.Fprintf(&sb, "  cmd_%s%s\n", c.Name, sep)
	}
	sb.WriteString("].\n\n")
	writeTab := func(name string, rows [][3]string) {
		fmt.Fprintf(&sb, "(* (case constant, its value, structure constructed) *)\nDefinition %s : list (string * N * string) := [\n", name)
		for i, r := range rows {
			sep := ";"
			if i == len(rows)-1 {
				sep = ""
			}
			fmt.Fprintf(&sb, "  (%s, %s, %s)%s\n", coqStr(r[0]), orZero(r[1]), coqStr(r[2]), sep)
		}
		sb.WriteString("].\n\n")
	}
	writeTab("req_table", reqTab)
	writeTab("resp_table", respTab)
	writeIfChanged("SmbLayouts.v", sb.String())
	// the same facts for the Go harness (generators need field kinds and which count governs which buffer)
	type jField struct {
		Name, Type, GovernedBy string
		Format                 string
	}
	type jCmd struct {
		Name, Code        string
		IsAndX, IsRequest bool
		Translated        bool
		Fields            []jField
		Opaque            []string
	}
	var js []jCmd
	for _, c := range cmds {
		jc := jCmd{Name: c.Name, Code: c.CodeVal, IsAndX: c.IsAndX, IsRequest: c.IsRequest, Translated: len(c.Opaque) == 0, Opaque: c.Opaque}
		for _, f := range c.Fields {
			jf := jField{Name: f.Name, Type: f.Type}
			for _, u := range c.U {
				if u.Kind == "bytes" && u.Field == f.Name && strings.HasPrefix(u.Len, "(EField ") {
					jf.GovernedBy = strings.Trim(strings.TrimSuffix(strings.TrimPrefix(u.Len, "(EField "), ")"), "\"")
				}
			}
			for _, m := range c.M {
				if m.Kind == "nested" && m.Field == f.Name {
					jf.Format = m.Format
				}
			}
			jc.Fields = append(jc.Fields, jf)
		}
		js = append(js, jc)
	}
	jb, _ := json.MarshalIndent(js, "", " ")
	writeIfChanged("smb.json", string(jb))
	if verbose {
		fmt.Printf("smb: %d structures, %d with opaque statements\n", len(cmds), nOpaque)
		hist := map[string]int{}
		for _, c := range cmds {
			for _, o := range c.Opaque {
				hist[c.Name+": "+o]++
			}
		}
		var ks []string
		for k := range hist {
			ks = append(ks, k)
		}
		sort.Strings(ks)
		for _, k := range ks {
			fmt.Println("  OPAQUE", k)
		}
	}
}

func orZero(s string) string {
	if s == "" {
		return "0"
	}
	return s
}

func smbDispatch(lp *loadedPkg, codes *loadedPkg) (req, resp [][3]string) {
	for _, fn := range []string{"CreateRequestCommand", "CreateResponseCommand"} {
		fd := lp.funcDecl("", fn)
		if fd == nil {
			fail("smb: %s not found", fn)
			continue
		}
		var rows [][3]string
		ast.Inspect(fd.Body, func(n ast.Node) bool {
			cc, ok := n.(*ast.CaseClause)
			if !ok || len(cc.Body) != 1 {
				return true
			}
			rs, ok := cc.Body[0].(*ast.ReturnStmt)
			if !ok || len(rs.Results) < 1 {
				return true
			}
			ce, ok := rs.Results[0].(*ast.CallExpr)
			if !ok {
				return true
			}
			ctor := strings.TrimPrefix(identName(ce.Fun), "New")
			for _, e := range cc.List {
				name := strings.TrimPrefix(identName(e), "codes.")
				val := ""
				if v, ok := codes.constOf(name); ok {
					val, _ = intString(v)
				} else if v, ok := lp.evalConst(e); ok {
					val, _ = intString(v)
				}
				rows = append(rows, [3]string{name, val, ctor})
			}
			return true
		})
		if fn == "CreateRequestCommand" {
			req = rows
		} else {
			resp = rows
		}
	}
	return
}

func coqType(t string) string {
	switch t {
	case "types.UCHAR":
		return "TInt 1"
	case "types.USHORT", "types.SHORT":
		return "TInt 2"
	case "types.ULONG", "types.LONG", "capabilities.Capabilities", "types.SMB_EXT_FILE_ATTR":
		return "TInt 4"
	case "types.ULONGLONG", "types.LARGE_INTEGER":
		return "TInt 8"
	case "securitymode.SecurityMode":
		return "TInt 1"
	case "[]types.UCHAR", "[]byte":
		return "TBytes"
	}
	if strings.HasPrefix(t, "[]") {
		return "TArray (" + coqType(t[2:]) + ")"
	}
	if strings.HasPrefix(t, "[") {
		i := strings.Index(t, "]")
		return "TFixedArray " + t[1:i] + " (" + coqType(t[i+1:]) + ")"
	}
	return "TNamed " + coqStr(strings.TrimPrefix(strings.TrimPrefix(t, "types."), "dialects."))
}

func coqEndian(e string) string {
	if e == "LE" {
		return "LE"
	}
	return "BE"
}

func coqStream(s string) string {
	switch s {
	case "P":
		return "SP"
	case "D":
		return "SD"
	}
	return "SNone"
}

func coqMop(m mop) string {
	if m.Cond != "" && m.Kind != "opaque" {
		c := m.Cond
		m.Cond = ""
		return fmt.Sprintf("MIf %s (%s)", c, coqMop(m))
	}
	switch m.Kind {
	case "int":
		return fmt.Sprintf("MInt %s %s %d %s", coqStream(m.Stream), coqStr(m.Field), m.Width, coqEndian(m.Endian))
	case "u8":
		return fmt.Sprintf("MInt %s %s 1 LE", coqStream(m.Stream), coqStr(m.Field))
	case "bytes":
		return fmt.Sprintf("MBytes %s %s", coqStream(m.Stream), coqStr(m.Field))
	case "nested":
		return fmt.Sprintf("MNested %s %s %s %s", coqStream(m.Stream), coqStr(m.Field), "("+coqType(m.Type)+")", coqStr(m.Format))
	case "constint":
		return fmt.Sprintf("MConst %s %d %s %s", coqStream(m.Stream), m.Width, coqEndian(m.Endian), m.Text)
	case "lenint":
		return fmt.Sprintf("MLen %s %s %d %s", coqStream(m.Stream), coqStr(m.Field), m.Width, coqEndian(m.Endian))
	case "derive":
		return fmt.Sprintf("MDerive %s %s", coqStr(m.Field), coqStr(m.Text))
	case "intarray":
		return fmt.Sprintf("MIntArray %s %s %d %s", coqStream(m.Stream), coqStr(m.Field), m.Width, coqEndian(m.Endian))
	case "nestedarray":
		return fmt.Sprintf("MNestedArray %s %s (%s)", coqStream(m.Stream), coqStr(m.Field), coqType(m.Type))
	}
	return fmt.Sprintf("MOpaque %s", coqStr(m.Text))
}

func coqUop(u uop) string {
	if u.Cond != "" && u.Kind != "opaque" {
		c := u.Cond
		u.Cond = ""
		return fmt.Sprintf("UIf %s (%s)", c, coqUop(u))
	}
	switch u.Kind {
	case "guard":
		return fmt.Sprintf("UGuard %s %s", coqStream(u.Stream), u.Len)
	case "int":
		return fmt.Sprintf("UInt %s %s %d %s %s", coqStream(u.Stream), coqStr(u.Field), u.Width, coqEndian(u.Endian), u.Len)
	case "u8":
		return fmt.Sprintf("UInt %s %s 1 LE (EConst 1)", coqStream(u.Stream), coqStr(u.Field))
	case "bytes":
		return fmt.Sprintf("UBytes %s %s %s", coqStream(u.Stream), coqStr(u.Field), u.Len)
	case "rest":
		return fmt.Sprintf("UBytes %s %s ERest", coqStream(u.Stream), coqStr(u.Field))
	case "intarr":
		return fmt.Sprintf("UIntArr %s %s %d %s %s", coqStream(u.Stream), coqStr(u.Field), u.Width, coqEndian(u.Endian), u.Len)
	case "nested":
		return fmt.Sprintf("UNested %s %s (%s) %s", coqStream(u.Stream), coqStr(u.Field), coqType(u.Type), u.Len)
	case "nested0":
		return fmt.Sprintf("UNested0 %s %s (%s)", coqStream(u.Stream), coqStr(u.Field), coqType(u.Type))
	case "emptyret":
		return fmt.Sprintf("UEmptyRet %s", coqStream(u.Stream))
	case "adv":
		return fmt.Sprintf("UAdv %s", u.Len)
	case "let":
		return fmt.Sprintf("ULet %s %s", coqStr(u.Field), u.Len)
	case "reset":
		return fmt.Sprintf("UReset %s", coqStream(u.Stream))
	}
	return fmt.Sprintf("UOpaque %s", coqStr(u.Text))
}
