package main

import (
	"go/ast"
	"go/constant"
	"go/parser"
	"go/token"
	"go/types"
	"os"
	"path/filepath"
	"sort"
	"strings"
)

// loadedPkg is one directory of /repo parsed and (permissively) type-checked, so that constant
// expressions (iota, shifts, typed constants) are evaluated by go/types rather than by us.
type loadedPkg struct {
	fset  *token.FileSet
	files []*ast.File
	names []string
	info  *types.Info
	pkg   *types.Package
}

type fakeImporter struct{ pkgs map[string]*types.Package }

func (f *fakeImporter) Import(path string) (*types.Package, error) {
	if p, ok := f.pkgs[path]; ok {
		return p, nil
	}
	name := path[strings.LastIndex(path, "/")+1:]
	p := types.NewPackage(path, name)
	p.MarkComplete()
	f.pkgs[path] = p
	return p, nil
}

var pkgCache = map[string]*loadedPkg{}

func loadDir(rel string) *loadedPkg {
	if p, ok := pkgCache[rel]; ok {
		return p
	}
	dir := filepath.Join(repo, rel)
	ents, err := os.ReadDir(dir)
	if err != nil {
		fail("cannot read %s: %v", dir, err)
		return nil
	}
	lp := &loadedPkg{fset: token.NewFileSet()}
	var names []string
	for _, e := range ents {
		n := e.Name()
		if strings.HasSuffix(n, ".go") && !strings.HasSuffix(n, "_test.go") {
			names = append(names, n)
		}
	}
	sort.Strings(names)
	for _, n := range names {
		f, err := parser.ParseFile(lp.fset, filepath.Join(dir, n), nil, parser.ParseComments)
		if err != nil {
			fail("parse %s/%s: %v", rel, n, err)
			continue
		}
		// skip files excluded by build constraints we do not enable (e.g. verif hooks are fine to include)
		lp.files = append(lp.files, f)
		lp.names = append(lp.names, n)
	}
	lp.info = &types.Info{
		Types: map[ast.Expr]types.TypeAndValue{},
		Defs:  map[*ast.Ident]types.Object{},
		Uses:  map[*ast.Ident]types.Object{},
	}
	conf := types.Config{Importer: &fakeImporter{pkgs: map[string]*types.Package{}}, Error: func(error) {}}
	lp.pkg, _ = conf.Check(rel, lp.fset, lp.files, lp.info)
	pkgCache[rel] = lp
	return lp
}

// constOf returns the constant value of a package-level constant.
func (lp *loadedPkg) constOf(name string) (constant.Value, bool) {
	if lp == nil || lp.pkg == nil {
		return nil, false
	}
	obj := lp.pkg.Scope().Lookup(name)
	if c, ok := obj.(*types.Const); ok {
		return c.Val(), true
	}
	return nil, false
}

// varInit returns the initialiser expression of a package-level variable.
func (lp *loadedPkg) varInit(name string) ast.Expr {
	for _, f := range lp.files {
		for _, d := range f.Decls {
			gd, ok := d.(*ast.GenDecl)
			if !ok || gd.Tok != token.VAR {
				continue
			}
			for _, s := range gd.Specs {
				vs := s.(*ast.ValueSpec)
				for i, n := range vs.Names {
					if n.Name == name && i < len(vs.Values) {
						return vs.Values[i]
					}
				}
			}
		}
	}
	return nil
}

func (lp *loadedPkg) evalConst(e ast.Expr) (constant.Value, bool) {
	tv, ok := lp.info.Types[e]
	if ok && tv.Value != nil {
		return tv.Value, true
	}
	return nil, false
}

// funcDecl finds a function or method declaration (recv "" for plain functions).
func (lp *loadedPkg) funcDecl(recv, name string) *ast.FuncDecl {
	for _, f := range lp.files {
		for _, d := range f.Decls {
			fd, ok := d.(*ast.FuncDecl)
			if !ok || fd.Name.Name != name {
				continue
			}
			r := ""
			if fd.Recv != nil && len(fd.Recv.List) > 0 {
				t := fd.Recv.List[0].Type
				if st, ok := t.(*ast.StarExpr); ok {
					t = st.X
				}
				if id, ok := t.(*ast.Ident); ok {
					r = id.Name
				}
			}
			if r == recv {
				return fd
			}
		}
	}
	return nil
}
